// Command extract regenerates the table-shaped parts of the Lean model from the Go source of
// the repository (go/packages: syntax + types) and from the compiled proto descriptors.
//
//	extract -repo /repo -out /verif/lean/Protobom/Gen
//
// It writes Schema.lean, NodeFields.lean, Tables.lean, Access.lean and a JSON side file
// (tables.json) that the harness uses for "translator validation" (calling the real functions
// on every key and comparing with what was extracted).
package main

import (
	"encoding/json"
	"flag"
	"fmt"
	"go/ast"
	"go/constant"
	"go/token"
	"go/types"
	"os"
	"path/filepath"
	"reflect"
	"sort"
	"strings"

	"github.com/protobom/protobom/pkg/sbom"
	"golang.org/x/tools/go/packages"
	"google.golang.org/protobuf/reflect/protoreflect"
)

var fset = token.NewFileSet()

type pkgSet map[string]*packages.Package

func load(repo string) pkgSet {
	cfg := &packages.Config{
		Mode: packages.NeedName | packages.NeedFiles | packages.NeedSyntax | packages.NeedTypes |
			packages.NeedTypesInfo | packages.NeedImports | packages.NeedDeps,
		Dir:  repo,
		Fset: fset,
		Env:  append(os.Environ(), "GOFLAGS=-mod=mod", "GOPROXY=off", "GOSUMDB=off"),
	}
	pkgs, err := packages.Load(cfg,
		"./pkg/sbom", "./pkg/native/serializers", "./pkg/native/unserializers",
		"./pkg/formats", "./pkg/reader", "./pkg/writer", "./pkg/storage")
	if err != nil {
		fatal("loading packages: %v", err)
	}
	out := pkgSet{}
	for _, p := range pkgs {
		if len(p.Errors) > 0 {
			fatal("package %s: %v", p.PkgPath, p.Errors)
		}
		out[p.Name+"@"+p.PkgPath] = p
		out[filepath.Base(p.PkgPath)] = p
	}
	return out
}

func fatal(f string, a ...any) {
	fmt.Fprintf(os.Stderr, "extract: "+f+"\n", a...)
	os.Exit(2)
}

// ---------------------------------------------------------------------------------------------
// Lean rendering helpers

func leanStr(s string) string {
	var b strings.Builder
	b.WriteByte('"')
	for _, r := range s {
		switch {
		case r == '"':
			b.WriteString("\\\"")
		case r == '\\':
			b.WriteString("\\\\")
		case r == '\n':
			b.WriteString("\\n")
		case r == '\t':
			b.WriteString("\\t")
		case r < 0x20:
			fmt.Fprintf(&b, "\\x%02x", r)
		default:
			b.WriteRune(r)
		}
	}
	b.WriteByte('"')
	return b.String()
}

func leanInt(i int64) string {
	if i < 0 {
		return fmt.Sprintf("(%d)", i)
	}
	return fmt.Sprintf("%d", i)
}

func leanList(items []string) string {
	if len(items) == 0 {
		return "[]"
	}
	var b strings.Builder
	b.WriteString("[\n")
	for i, it := range items {
		b.WriteString("    " + it)
		if i < len(items)-1 {
			b.WriteString(",")
		}
		b.WriteString("\n")
	}
	b.WriteString("  ]")
	return b.String()
}

// ---------------------------------------------------------------------------------------------
// Schema (from the compiled descriptors of the working tree)

type fieldInfo struct {
	Name   string `json:"name"`   // proto name
	GoName string `json:"goName"` // Go struct field
	Number int    `json:"number"`
	Kind   string `json:"kind"` // str strs enums imap date persons refs | scalar kinds for other messages
}

func kindOf(fd protoreflect.FieldDescriptor) string {
	switch {
	case fd.IsMap():
		if fd.MapKey().Kind() == protoreflect.Int32Kind && fd.MapValue().Kind() == protoreflect.StringKind {
			return "imap"
		}
		return "unknown"
	case fd.IsList():
		switch fd.Kind() {
		case protoreflect.StringKind:
			return "strs"
		case protoreflect.EnumKind:
			return "enums"
		case protoreflect.MessageKind:
			switch fd.Message().Name() {
			case "Person":
				return "persons"
			case "ExternalReference":
				return "refs"
			}
		}
		return "unknown"
	default:
		switch fd.Kind() {
		case protoreflect.StringKind:
			return "str"
		case protoreflect.BoolKind:
			return "bool"
		case protoreflect.EnumKind:
			return "enum"
		case protoreflect.MessageKind:
			if fd.Message().FullName() == "google.protobuf.Timestamp" {
				return "date"
			}
		}
		return "unknown"
	}
}

func goNames(t reflect.Type) map[string]string {
	out := map[string]string{}
	for i := 0; i < t.NumField(); i++ {
		f := t.Field(i)
		tag := f.Tag.Get("protobuf")
		for _, part := range strings.Split(tag, ",") {
			if strings.HasPrefix(part, "name=") {
				out[strings.TrimPrefix(part, "name=")] = f.Name
			}
		}
	}
	return out
}

func messageFields(m protoreflect.Message, t reflect.Type) []fieldInfo {
	gn := goNames(t)
	fds := m.Descriptor().Fields()
	var out []fieldInfo
	for i := 0; i < fds.Len(); i++ {
		fd := fds.Get(i)
		out = append(out, fieldInfo{Name: string(fd.Name()), GoName: gn[string(fd.Name())], Number: int(fd.Number()), Kind: kindOf(fd)})
	}
	sort.Slice(out, func(i, j int) bool { return out[i].Number < out[j].Number })
	return out
}

type enumVal struct {
	Name   string `json:"name"`
	Number int    `json:"number"`
}

func enumValues(ed protoreflect.EnumDescriptor) []enumVal {
	var out []enumVal
	vs := ed.Values()
	for i := 0; i < vs.Len(); i++ {
		out = append(out, enumVal{string(vs.Get(i).Name()), int(vs.Get(i).Number())})
	}
	return out
}

// ---------------------------------------------------------------------------------------------
// AST helpers

func findFunc(p *packages.Package, recv, name string) *ast.FuncDecl {
	for _, f := range p.Syntax {
		for _, d := range f.Decls {
			fd, ok := d.(*ast.FuncDecl)
			if !ok || fd.Name.Name != name {
				continue
			}
			r := ""
			if fd.Recv != nil && len(fd.Recv.List) > 0 {
				t := fd.Recv.List[0].Type
				if st, ok := t.(*ast.StarExpr); ok {
					t = st.X
				}
				if id, ok := t.(*ast.Ident); ok {
					r = id.Name
				}
			}
			if r == recv {
				return fd
			}
		}
	}
	return nil
}

func recvName(fd *ast.FuncDecl) string {
	if fd.Recv != nil && len(fd.Recv.List) > 0 && len(fd.Recv.List[0].Names) > 0 {
		return fd.Recv.List[0].Names[0].Name
	}
	return ""
}

func recvType(fd *ast.FuncDecl) string {
	if fd.Recv == nil || len(fd.Recv.List) == 0 {
		return ""
	}
	t := fd.Recv.List[0].Type
	if st, ok := t.(*ast.StarExpr); ok {
		t = st.X
	}
	if id, ok := t.(*ast.Ident); ok {
		return id.Name
	}
	return ""
}

func paramName(fd *ast.FuncDecl, i int) string {
	k := 0
	for _, f := range fd.Type.Params.List {
		for _, n := range f.Names {
			if k == i {
				return n.Name
			}
			k++
		}
	}
	return ""
}

// sel returns (base, field) for an expression `base.Field`.
func sel(e ast.Expr) (string, string, bool) {
	s, ok := e.(*ast.SelectorExpr)
	if !ok {
		return "", "", false
	}
	id, ok := s.X.(*ast.Ident)
	if !ok {
		return "", "", false
	}
	return id.Name, s.Sel.Name, true
}

// guardOn classifies a condition on `base.Field`: returns field and guard kind
// ("nestr" `!= ""`, "lenpos" `len(x) > 0` / `!= 0`, "nenil" `!= nil`,
// "eqstr" `== ""`, "lenzero" `len(x) == 0`, "eqnil" `== nil`).
func guardOn(e ast.Expr, base string) (field, kind string, ok bool) {
	be, isBin := e.(*ast.BinaryExpr)
	if !isBin {
		return
	}
	x, y := be.X, be.Y
	op := be.Op
	// normalise constant on the right
	if isLit(x) && !isLit(y) {
		x, y = y, x
		switch op {
		case token.LSS:
			op = token.GTR
		case token.GTR:
			op = token.LSS
		}
	}
	if call, isCall := x.(*ast.CallExpr); isCall {
		if id, isID := call.Fun.(*ast.Ident); isID && id.Name == "len" && len(call.Args) == 1 {
			b, f, sok := sel(call.Args[0])
			if !sok || b != base {
				return
			}
			if lit, isL := y.(*ast.BasicLit); isL && lit.Value == "0" {
				switch op {
				case token.GTR, token.NEQ:
					return f, "lenpos", true
				case token.EQL:
					return f, "lenzero", true
				}
			}
		}
		return
	}
	b, f, sok := sel(x)
	if !sok || b != base {
		return
	}
	switch yy := y.(type) {
	case *ast.BasicLit:
		if yy.Value == `""` {
			if op == token.NEQ {
				return f, "nestr", true
			}
			if op == token.EQL {
				return f, "eqstr", true
			}
		}
	case *ast.Ident:
		if yy.Name == "nil" {
			if op == token.NEQ {
				return f, "nenil", true
			}
			if op == token.EQL {
				return f, "eqnil", true
			}
		}
	}
	return
}

func isLit(e ast.Expr) bool {
	switch v := e.(type) {
	case *ast.BasicLit:
		return true
	case *ast.Ident:
		return v.Name == "nil"
	}
	return false
}

type fieldRow struct {
	Field string `json:"field"` // Go field name
	Form  string `json:"form"`
}

// updateTable extracts Update / Augment: `if <guards> { recv.F = arg.F }`.
// Update form: guard kind on the argument; Augment form: "<recv guard>&<arg guard>".
func updateTable(fd *ast.FuncDecl) []fieldRow {
	var rows []fieldRow
	if fd == nil {
		return rows
	}
	recv, arg := recvName(fd), paramName(fd, 0)
	for _, st := range fd.Body.List {
		ifs, ok := st.(*ast.IfStmt)
		if !ok || ifs.Else != nil || ifs.Init != nil || len(ifs.Body.List) != 1 {
			rows = append(rows, fieldRow{"?", "unknown-stmt"})
			continue
		}
		as, ok := ifs.Body.List[0].(*ast.AssignStmt)
		if !ok || len(as.Lhs) != 1 || len(as.Rhs) != 1 || as.Tok != token.ASSIGN {
			rows = append(rows, fieldRow{"?", "unknown-body"})
			continue
		}
		lb, lf, ok1 := sel(as.Lhs[0])
		rb, rf, ok2 := sel(as.Rhs[0])
		if !ok1 || !ok2 || lb != recv || rb != arg || lf != rf {
			rows = append(rows, fieldRow{lf, "unknown-assign"})
			continue
		}
		form := "unknown-guard"
		if and, isAnd := ifs.Cond.(*ast.BinaryExpr); isAnd && and.Op == token.LAND {
			f1, k1, g1 := guardOn(and.X, recv)
			f2, k2, g2 := guardOn(and.Y, arg)
			if g1 && g2 && f1 == lf && f2 == lf {
				form = k1 + "&" + k2
			}
		} else if f, k, g := guardOn(ifs.Cond, arg); g && f == lf {
			form = k
		}
		rows = append(rows, fieldRow{lf, form})
	}
	return rows
}

// copyForm classifies the right-hand side of a field in a Copy function.
func copyForm(e ast.Expr, recv, field string) string {
	if b, f, ok := sel(e); ok && b == recv && f == field {
		return "alias" // scalar copy for value kinds, alias for reference kinds
	}
	if id, ok := e.(*ast.Ident); ok && id.Name == "nil" {
		return "nil"
	}
	if cl, ok := e.(*ast.CompositeLit); ok && len(cl.Elts) == 0 {
		return "empty"
	}
	if call, ok := e.(*ast.CallExpr); ok {
		if b, f, ok := sel(call.Fun); ok && (b == "slices" || b == "maps") && f == "Clone" && len(call.Args) == 1 {
			if ab, af, ok := sel(call.Args[0]); ok && ab == recv && af == field {
				return "clone"
			}
		}
	}
	return "unknown"
}

// copyTable extracts a Copy function of the shape
//
//	x := &T{ F: <form>, ... } ; if recv.F != nil { x.F = timestamppb.New(recv.F.AsTime()) } ;
//	for _, p := range recv.F { x.F = append(x.F, p.Copy()) } ; return x
//
// or `return &T{...}`.
func copyTable(fd *ast.FuncDecl) []fieldRow {
	rows := map[string]string{}
	order := []string{}
	if fd == nil {
		return nil
	}
	recv := recvName(fd)
	outVar := ""
	set := func(f, form string) {
		if _, ok := rows[f]; !ok {
			order = append(order, f)
		}
		rows[f] = form
	}
	lit := func(e ast.Expr) *ast.CompositeLit {
		if u, ok := e.(*ast.UnaryExpr); ok && u.Op == token.AND {
			if cl, ok := u.X.(*ast.CompositeLit); ok {
				return cl
			}
		}
		return nil
	}
	fromLit := func(cl *ast.CompositeLit) {
		for _, el := range cl.Elts {
			kv, ok := el.(*ast.KeyValueExpr)
			if !ok {
				continue
			}
			k, ok := kv.Key.(*ast.Ident)
			if !ok {
				continue
			}
			set(k.Name, copyForm(kv.Value, recv, k.Name))
		}
	}
	for _, st := range fd.Body.List {
		switch s := st.(type) {
		case *ast.AssignStmt:
			if len(s.Lhs) == 1 && len(s.Rhs) == 1 {
				if id, ok := s.Lhs[0].(*ast.Ident); ok {
					if cl := lit(s.Rhs[0]); cl != nil {
						outVar = id.Name
						fromLit(cl)
						continue
					}
				}
			}
			set("?", "unknown-stmt")
		case *ast.ReturnStmt:
			if len(s.Results) == 1 {
				if cl := lit(s.Results[0]); cl != nil {
					fromLit(cl)
				}
			}
		case *ast.IfStmt:
			// if recv.F != nil { out.F = timestamppb.New(recv.F.AsTime()) }
			f, k, ok := guardOn(s.Cond, recv)
			form := "unknown-if"
			if ok && k == "nenil" && len(s.Body.List) == 1 {
				if as, ok := s.Body.List[0].(*ast.AssignStmt); ok && len(as.Lhs) == 1 && len(as.Rhs) == 1 {
					lb, lf, lok := sel(as.Lhs[0])
					if call, ok := as.Rhs[0].(*ast.CallExpr); ok && lok && lb == outVar && lf == f {
						if pb, pf, ok := sel(call.Fun); ok && pb == "timestamppb" && pf == "New" && len(call.Args) == 1 {
							if inner, ok := call.Args[0].(*ast.CallExpr); ok {
								if se, ok := inner.Fun.(*ast.SelectorExpr); ok && se.Sel.Name == "AsTime" {
									if ib, iff, ok := sel(se.X); ok && ib == recv && iff == f {
										form = "newtime"
									}
								}
							}
						}
					}
				}
			}
			if f == "" {
				f = "?"
			}
			set(f, form)
		case *ast.RangeStmt:
			// for _, p := range recv.F { out.F = append(out.F, p.Copy()) }
			rb, rf, ok := sel(s.X)
			form := "unknown-range"
			if ok && rb == recv && len(s.Body.List) == 1 {
				if as, ok := s.Body.List[0].(*ast.AssignStmt); ok && len(as.Lhs) == 1 && len(as.Rhs) == 1 {
					lb, lf, lok := sel(as.Lhs[0])
					if call, ok := as.Rhs[0].(*ast.CallExpr); ok && lok && lb == outVar && lf == rf {
						if id, ok := call.Fun.(*ast.Ident); ok && id.Name == "append" && len(call.Args) == 2 {
							ab, af, aok := sel(call.Args[0])
							if c2, ok := call.Args[1].(*ast.CallExpr); ok && aok && ab == outVar && af == rf {
								if se, ok := c2.Fun.(*ast.SelectorExpr); ok && se.Sel.Name == "Copy" {
									if v, ok := se.X.(*ast.Ident); ok {
										if val, ok := s.Value.(*ast.Ident); ok && val.Name == v.Name {
											form = "elemcopy"
										}
									}
								}
							}
						}
					}
				}
			}
			if !ok {
				rf = "?"
			}
			// only counts when the literal initialised the field to an empty list
			if prev, had := rows[rf]; had && prev != "empty" && form == "elemcopy" {
				form = "elemcopy-after-" + prev
			}
			set(rf, form)
		default:
			set("?", "unknown-stmt")
		}
	}
	var out []fieldRow
	for _, f := range order {
		out = append(out, fieldRow{f, rows[f]})
	}
	return out
}

// diffTable extracts Node.Diff: `a, r, c := helper(n.F, n2.F)` followed by
// `nd.Added.F = a; nd.Removed.F = r; nd.DiffCount += c`.
func diffTable(fd *ast.FuncDecl) []fieldRow {
	var rows []fieldRow
	if fd == nil {
		return rows
	}
	recv, arg := recvName(fd), paramName(fd, 0)
	stmts := fd.Body.List
	for i := 0; i < len(stmts); i++ {
		as, ok := stmts[i].(*ast.AssignStmt)
		if !ok || len(as.Rhs) != 1 || len(as.Lhs) != 3 {
			if ifs, isIf := stmts[i].(*ast.IfStmt); isIf {
				// a hand-written comparison of a field
				found := ""
				ast.Inspect(ifs.Cond, func(n ast.Node) bool {
					if b, f, ok := sel2(n); ok && b == recv {
						found = f
					}
					return true
				})
				if found != "" {
					rows = append(rows, fieldRow{found, "handwritten"})
				}
			}
			continue
		}
		call, ok := as.Rhs[0].(*ast.CallExpr)
		if !ok || len(call.Args) != 2 {
			continue
		}
		helper, ok := call.Fun.(*ast.Ident)
		if !ok {
			continue
		}
		b1, f1, ok1 := sel(call.Args[0])
		b2, f2, ok2 := sel(call.Args[1])
		if !ok1 || !ok2 || b1 != recv || b2 != arg || f1 != f2 {
			rows = append(rows, fieldRow{f1, "unknown-args"})
			continue
		}
		names := [3]string{}
		for k := 0; k < 3; k++ {
			if id, ok := as.Lhs[k].(*ast.Ident); ok {
				names[k] = id.Name
			}
		}
		// the three following statements must store added/removed/count for the same field
		okStore := i+3 < len(stmts)+0 && i+3 <= len(stmts)-0
		form := helper.Name
		if okStore && i+3 < len(stmts)+1 {
			okA := storeIs(stmts[i+1], "Added", f1, names[0])
			okR := storeIs(stmts[i+2], "Removed", f1, names[1])
			okC := countIs(stmts[i+3], names[2])
			if !(okA && okR && okC) {
				form = "unknown-store:" + helper.Name
			}
		}
		rows = append(rows, fieldRow{f1, form})
	}
	return rows
}

func sel2(n ast.Node) (string, string, bool) {
	e, ok := n.(ast.Expr)
	if !ok {
		return "", "", false
	}
	return sel(e)
}

func storeIs(st ast.Stmt, side, field, v string) bool {
	as, ok := st.(*ast.AssignStmt)
	if !ok || len(as.Lhs) != 1 || len(as.Rhs) != 1 || as.Tok != token.ASSIGN {
		return false
	}
	s, ok := as.Lhs[0].(*ast.SelectorExpr)
	if !ok || s.Sel.Name != field {
		return false
	}
	_, sd, ok := sel(s.X)
	if !ok || sd != side {
		return false
	}
	id, ok := as.Rhs[0].(*ast.Ident)
	return ok && id.Name == v
}

func countIs(st ast.Stmt, v string) bool {
	as, ok := st.(*ast.AssignStmt)
	if !ok || as.Tok != token.ADD_ASSIGN || len(as.Lhs) != 1 || len(as.Rhs) != 1 {
		return false
	}
	_, f, ok := sel(as.Lhs[0])
	if !ok || f != "DiffCount" {
		return false
	}
	id, ok := as.Rhs[0].(*ast.Ident)
	return ok && id.Name == v
}

// flatTable extracts the switch inside Node.flatString: which proto full names have a special
// case and which helper appears in that case; everything else falls to the default clause.
func flatTable(p *packages.Package, fd *ast.FuncDecl) (rows []fieldRow, hasDefault bool) {
	if fd == nil {
		return
	}
	ast.Inspect(fd.Body, func(n ast.Node) bool {
		sw, ok := n.(*ast.SwitchStmt)
		if !ok {
			return true
		}
		for _, c := range sw.Body.List {
			cc := c.(*ast.CaseClause)
			form := "other"
			src := nodeString(cc)
			switch {
			case strings.Contains(src, "flatStringMap"):
				form = "map"
			case strings.Contains(src, "flatStringStrSlice"):
				form = "slice"
			case strings.Contains(src, "AsTime().Unix()"):
				form = "unixdate"
			case strings.Contains(src, "idKeys") || strings.Contains(src, "identifiers[%d]"):
				form = "sortedkeys"
			case strings.Contains(src, ".flatString()"):
				form = "elemflat"
			case strings.Contains(src, "v.String()"):
				form = "scalar"
			}
			if cc.List == nil {
				hasDefault = form == "scalar"
				continue
			}
			for _, e := range cc.List {
				if tv, ok := p.TypesInfo.Types[e]; ok && tv.Value != nil && tv.Value.Kind() == constant.String {
					full := constant.StringVal(tv.Value)
					rows = append(rows, fieldRow{full[strings.LastIndex(full, ".")+1:], form})
				} else {
					rows = append(rows, fieldRow{"?", "unknown-case"})
				}
			}
		}
		return false
	})
	return
}

func nodeString(n ast.Node) string {
	var b strings.Builder
	ast.Inspect(n, func(x ast.Node) bool {
		switch v := x.(type) {
		case *ast.Ident:
			b.WriteString(v.Name + " ")
		case *ast.BasicLit:
			b.WriteString(v.Value + " ")
		case *ast.SelectorExpr:
			b.WriteString(exprString(v) + " ")
		case *ast.CallExpr:
			b.WriteString(exprString(v.Fun) + "() ")
		}
		return true
	})
	return b.String()
}

func exprString(e ast.Expr) string {
	switch v := e.(type) {
	case *ast.Ident:
		return v.Name
	case *ast.SelectorExpr:
		return exprString(v.X) + "." + v.Sel.Name
	case *ast.CallExpr:
		return exprString(v.Fun) + "()"
	case *ast.StarExpr:
		return "*" + exprString(v.X)
	case *ast.IndexExpr:
		return exprString(v.X) + "[]"
	}
	return "?"
}

// skeleton of a function body: string/int constants, calls, control keywords, in source order.
// It is what the hand-written model of that function is checked against (a `decide` obligation
// in Lean): an edit that changes a literal, a callee, a branch or a loop changes the skeleton.
func skeleton(p *packages.Package, fd *ast.FuncDecl) []string {
	var out []string
	if fd == nil || fd.Body == nil {
		return []string{"<missing>"}
	}
	ast.Inspect(fd.Body, func(x ast.Node) bool {
		switch v := x.(type) {
		case *ast.BasicLit:
			out = append(out, "lit:"+v.Value)
		case *ast.Ident:
			if c, ok := p.TypesInfo.Uses[v].(*types.Const); ok && c.Pkg() != nil {
				out = append(out, "const:"+c.Name()+"="+c.Val().ExactString())
			}
		case *ast.CallExpr:
			out = append(out, "call:"+exprString(v.Fun))
		case *ast.IfStmt:
			out = append(out, "if")
		case *ast.ForStmt, *ast.RangeStmt:
			out = append(out, "for")
		case *ast.SwitchStmt, *ast.TypeSwitchStmt:
			out = append(out, "switch")
		case *ast.CaseClause:
			if v.List == nil {
				out = append(out, "default")
			} else {
				out = append(out, "case")
			}
		case *ast.ReturnStmt:
			out = append(out, "return")
		case *ast.DeferStmt:
			out = append(out, "defer")
		case *ast.GoStmt:
			out = append(out, "go")
		case *ast.BranchStmt:
			out = append(out, v.Tok.String())
		case *ast.BinaryExpr:
			out = append(out, "op:"+v.Op.String())
		case *ast.UnaryExpr:
			out = append(out, "op:"+v.Op.String())
		case *ast.AssignStmt:
			for _, l := range v.Lhs {
				out = append(out, "set:"+exprString(l))
			}
		case *ast.IncDecStmt:
			out = append(out, "set:"+exprString(v.X))
		}
		return true
	})
	return out
}

// ---------------------------------------------------------------------------------------------
// switch tables

type clause struct {
	Keys    []string `json:"keys"`    // rendered constants (outer;inner for nested switches)
	Results []string `json:"results"` // rendered constant results, "?" when not constant
}

type table struct {
	Name    string   `json:"name"`
	Clauses []clause `json:"clauses"`
	Default []string `json:"default"` // results of the default clause / fallthrough return
	KeyKind string   `json:"keyKind"` // int | string
}

func constOf(p *packages.Package, e ast.Expr) (string, bool) {
	// x.Enum() → x
	if call, ok := e.(*ast.CallExpr); ok {
		if se, ok := call.Fun.(*ast.SelectorExpr); ok && se.Sel.Name == "Enum" && len(call.Args) == 0 {
			return constOf(p, se.X)
		}
		// conversions T(c) and fmt-free calls are handled by the type checker when constant
	}
	if id, ok := e.(*ast.Ident); ok {
		switch id.Name {
		case "nil":
			return "nil", true
		case "true", "false":
			return id.Name, true
		}
	}
	tv, ok := p.TypesInfo.Types[e]
	if !ok || tv.Value == nil {
		return "?", false
	}
	switch tv.Value.Kind() {
	case constant.String:
		return "s:" + constant.StringVal(tv.Value), true
	case constant.Int:
		i, _ := constant.Int64Val(tv.Value)
		return fmt.Sprintf("i:%d", i), true
	case constant.Bool:
		return fmt.Sprintf("%v", constant.BoolVal(tv.Value)), true
	}
	return "?", false
}

func resultsOf(p *packages.Package, stmts []ast.Stmt) ([]string, bool) {
	for _, st := range stmts {
		switch s := st.(type) {
		case *ast.ReturnStmt:
			var out []string
			for _, r := range s.Results {
				c, _ := constOf(p, r)
				if call, isCall := r.(*ast.CallExpr); isCall && c == "?" {
					fn := exprString(call.Fun)
					if fn == "errors.New" || fn == "fmt.Errorf" {
						c = "err"
					}
				}
				out = append(out, c)
			}
			return out, true
		case *ast.AssignStmt:
			// `p.PrimaryPackagePurpose = "X"` / `n.PrimaryPurpose = []T{C}` style clauses
			if len(s.Rhs) == 1 {
				if c, ok := constOf(p, s.Rhs[0]); ok {
					return []string{c}, true
				}
				if cl, ok := s.Rhs[0].(*ast.CompositeLit); ok && len(cl.Elts) == 1 {
					if c, ok := constOf(p, cl.Elts[0]); ok {
						return []string{c}, true
					}
				}
			}
		}
	}
	return nil, false
}

func switchTable(p *packages.Package, name string, sw *ast.SwitchStmt, prefix string, t *table) {
	for _, c := range sw.Body.List {
		cc := c.(*ast.CaseClause)
		// nested switch?
		var inner *ast.SwitchStmt
		for _, st := range cc.Body {
			if s, ok := st.(*ast.SwitchStmt); ok {
				inner = s
			}
		}
		var keys []string
		for _, e := range cc.List {
			k, _ := constOf(p, e)
			keys = append(keys, prefix+k)
		}
		if inner != nil && len(keys) > 0 {
			for _, k := range keys {
				switchTable(p, name, inner, k+";", t)
			}
			continue
		}
		res, ok := resultsOf(p, cc.Body)
		if !ok {
			res = []string{"none"}
		}
		if cc.List == nil {
			if prefix == "" {
				t.Default = res
			} else {
				t.Clauses = append(t.Clauses, clause{Keys: []string{prefix + "*"}, Results: res})
			}
			continue
		}
		t.Clauses = append(t.Clauses, clause{Keys: keys, Results: res})
	}
}

// funcSwitch finds the first top-level switch of a function (optionally the n-th) and the
// trailing return as the default when the switch has no default clause.
func funcSwitch(p *packages.Package, fd *ast.FuncDecl, name string, nth int) *table {
	t := &table{Name: name}
	if fd == nil {
		t.Default = []string{"missing-func"}
		return t
	}
	count := 0
	var found *ast.SwitchStmt
	ast.Inspect(fd.Body, func(n ast.Node) bool {
		if found != nil {
			return false
		}
		if sw, ok := n.(*ast.SwitchStmt); ok {
			if count == nth {
				found = sw
				return false
			}
			count++
			return false
		}
		return true
	})
	if found == nil {
		t.Default = []string{"missing-switch"}
		return t
	}
	switchTable(p, name, found, "", t)
	if t.Default == nil {
		// trailing return of the function
		if res, ok := resultsOf(p, fd.Body.List[len(fd.Body.List)-1:]); ok {
			t.Default = res
		} else {
			t.Default = []string{"none"}
		}
	}
	for _, c := range t.Clauses {
		for _, k := range c.Keys {
			if strings.HasPrefix(k, "s:") {
				t.KeyKind = "string"
			} else if strings.HasPrefix(k, "i:") && t.KeyKind == "" {
				t.KeyKind = "int"
			}
		}
	}
	return t
}

func renderConst(c string) string {
	switch {
	case strings.HasPrefix(c, "s:"):
		return leanStr(c[2:])
	case strings.HasPrefix(c, "i:"):
		var i int64
		fmt.Sscanf(c[2:], "%d", &i)
		return leanInt(i)
	}
	return leanStr("<" + c + ">")
}

// renderTable emits `def <name> : List (K × R)` where R is the first result rendered, and
// `<name>_default`. Result columns beyond the first are emitted as a string suffix table when
// they are not all "nil".
func renderTable(t *table) string {
	var b strings.Builder
	keyTy := "Int"
	if t.KeyKind == "string" {
		keyTy = "String"
	}
	// result type from first clause
	resTy := "String"
	allInt := true
	for _, c := range t.Clauses {
		if len(c.Results) > 0 && c.Results[0] == "none" {
			continue
		}
		if len(c.Results) == 0 || !strings.HasPrefix(c.Results[0], "i:") {
			allInt = false
		}
	}
	if allInt && len(t.Clauses) > 0 {
		resTy = "Int"
	}
	rc := func(c string) string {
		if resTy == "Int" {
			if !strings.HasPrefix(c, "i:") {
				return "(-999)" // no constant result (nil / no assignment)
			}
			return renderConst(c)
		}
		if strings.HasPrefix(c, "s:") {
			return leanStr(c[2:])
		}
		return leanStr("<" + c + ">")
	}
	var items []string
	for _, c := range t.Clauses {
		for _, k := range c.Keys {
			r := "none"
			if len(c.Results) > 0 {
				r = c.Results[0]
			}
			kk := k
			if strings.Contains(k, ";") { // nested: render as one string key "outer;inner"
				parts := strings.Split(k, ";")
				for i := range parts {
					parts[i] = strings.TrimPrefix(parts[i], "s:")
				}
				kk = "s:" + strings.Join(parts, ";")
			}
			items = append(items, fmt.Sprintf("(%s, %s)", renderConst(kk), rc(r)))
		}
	}
	fmt.Fprintf(&b, "def %s : List (%s × %s) := %s\n\n", t.Name, keyTy, resTy, leanList(items))
	d := "none"
	if len(t.Default) > 0 {
		d = t.Default[0]
	}
	fmt.Fprintf(&b, "def %s_default : %s := %s\n\n", t.Name, resTy, rc(d))
	// error column (second / last result is an error?)
	var errKeys []string
	for _, c := range t.Clauses {
		if len(c.Results) > 1 && c.Results[len(c.Results)-1] == "err" {
			for _, k := range c.Keys {
				errKeys = append(errKeys, renderConst(k))
			}
		}
	}
	// all result columns, raw ("i:4", "s:x", "true", "nil", "err", "?")
	var cols []string
	for _, c := range t.Clauses {
		for _, k := range c.Keys {
			kk := k
			if strings.Contains(k, ";") {
				parts := strings.Split(k, ";")
				for i := range parts {
					parts[i] = strings.TrimPrefix(parts[i], "s:")
				}
				kk = "s:" + strings.Join(parts, ";")
			}
			var rs []string
			for _, r := range c.Results {
				rs = append(rs, leanStr(r))
			}
			cols = append(cols, fmt.Sprintf("(%s, [%s])", renderConst(kk), strings.Join(rs, ", ")))
		}
	}
	fmt.Fprintf(&b, "def %s_cols : List (%s × List String) := %s\n\n", t.Name, keyTy, leanList(cols))
	var drs []string
	for _, r := range t.Default {
		drs = append(drs, leanStr(r))
	}
	fmt.Fprintf(&b, "def %s_defaultCols : List String := [%s]\n\n", t.Name, strings.Join(drs, ", "))
	defErr := len(t.Default) > 1 && t.Default[len(t.Default)-1] == "err"
	fmt.Fprintf(&b, "def %s_defaultIsErr : Bool := %v\n\n", t.Name, defErr)
	return b.String()
}

// ---------------------------------------------------------------------------------------------
// package-level variable access records (C17 / C18)

type access struct {
	Pkg   string   `json:"pkg"`
	Var   string   `json:"var"`
	Func  string   `json:"func"`
	Write bool     `json:"write"`
	Locks []string `json:"locks"` // e.g. "regMtx:W", "regMtx:R"
	Kind  string   `json:"kind"`  // how the variable is used at this site
}

func accessRecords(p *packages.Package) []access {
	var out []access
	// package-level vars
	vars := map[types.Object]string{}
	for _, f := range p.Syntax {
		for _, d := range f.Decls {
			gd, ok := d.(*ast.GenDecl)
			if !ok || gd.Tok != token.VAR {
				continue
			}
			for _, sp := range gd.Specs {
				vs := sp.(*ast.ValueSpec)
				for _, n := range vs.Names {
					if n.Name == "_" {
						continue
					}
					if obj := p.TypesInfo.Defs[n]; obj != nil {
						vars[obj] = n.Name
					}
				}
			}
		}
	}
	for _, f := range p.Syntax {
		if strings.HasSuffix(fset.Position(f.Pos()).Filename, "_test.go") {
			continue
		}
		for _, d := range f.Decls {
			fd, ok := d.(*ast.FuncDecl)
			if !ok || fd.Body == nil {
				continue
			}
			fname := fd.Name.Name
			if fd.Recv != nil && len(fd.Recv.List) > 0 {
				fname = exprString(fd.Recv.List[0].Type) + "." + fname
			}
			sect := 0
			walkAccess(p, vars, fname, fd.Body.List, map[string]bool{}, &out, &sect)
		}
	}
	sort.Slice(out, func(i, j int) bool {
		a, b := out[i], out[j]
		if a.Var != b.Var {
			return a.Var < b.Var
		}
		if a.Func != b.Func {
			return a.Func < b.Func
		}
		return !a.Write && b.Write
	})
	return out
}

// walkAccess walks statements in order tracking Lock/Unlock/RLock/RUnlock calls on package mutexes
// (purely syntactic, straight-line; deferred unlocks keep the lock held to the end).
func walkAccess(p *packages.Package, vars map[types.Object]string, fn string, stmts []ast.Stmt, held map[string]bool, out *[]access, sect *int) {
	drop := func(prefix string) {
		for k := range held {
			if strings.HasPrefix(k, prefix) {
				delete(held, k)
			}
		}
	}
	for _, st := range stmts {
		// lock operations
		if es, ok := st.(*ast.ExprStmt); ok {
			if call, ok := es.X.(*ast.CallExpr); ok {
				if se, ok := call.Fun.(*ast.SelectorExpr); ok {
					if id, ok := se.X.(*ast.Ident); ok {
						if _, isVar := vars[p.TypesInfo.Uses[id]]; isVar {
							switch se.Sel.Name {
							case "Lock":
								*sect++
								held[fmt.Sprintf("%s:W#%d", id.Name, *sect)] = true
								continue
							case "Unlock":
								drop(id.Name + ":W#")
								continue
							case "RLock":
								*sect++
								held[fmt.Sprintf("%s:R#%d", id.Name, *sect)] = true
								continue
							case "RUnlock":
								drop(id.Name + ":R#")
								continue
							}
						}
					}
				}
			}
		}
		if _, ok := st.(*ast.DeferStmt); ok {
			continue // deferred unlocks: lock stays held for the remaining statements
		}
		recordStmt(p, vars, fn, st, held, out)
	}
}

func recordStmt(p *packages.Package, vars map[types.Object]string, fn string, st ast.Stmt, held map[string]bool, out *[]access) {
	locks := func() []string {
		var l []string
		for k := range held {
			l = append(l, k)
		}
		sort.Strings(l)
		return l
	}
	writes := map[*ast.Ident]string{}
	markWrite := func(e ast.Expr, kind string) {
		// find the root identifier of the written expression
		for {
			switch v := e.(type) {
			case *ast.Ident:
				writes[v] = kind
				return
			case *ast.IndexExpr:
				e = v.X
				kind = "map-or-slice-store"
			case *ast.SelectorExpr:
				e = v.X
				kind = "field-store"
			case *ast.StarExpr:
				e = v.X
			case *ast.ParenExpr:
				e = v.X
			default:
				return
			}
		}
	}
	ast.Inspect(st, func(n ast.Node) bool {
		switch v := n.(type) {
		case *ast.AssignStmt:
			for _, l := range v.Lhs {
				markWrite(l, "assign")
			}
		case *ast.IncDecStmt:
			markWrite(v.X, "assign")
		case *ast.CallExpr:
			if id, ok := v.Fun.(*ast.Ident); ok && id.Name == "delete" && len(v.Args) > 0 {
				markWrite(v.Args[0], "map-delete")
			}
		case *ast.FuncLit:
			// closures (functional options): accesses inside are attributed to the enclosing function
		}
		return true
	})
	ast.Inspect(st, func(n ast.Node) bool {
		id, ok := n.(*ast.Ident)
		if !ok {
			return true
		}
		obj := p.TypesInfo.Uses[id]
		name, isVar := vars[obj]
		if !isVar {
			return true
		}
		kind, w := writes[id]
		if !w {
			kind = "read"
		}
		*out = append(*out, access{Pkg: p.Name, Var: name, Func: fn, Write: w, Locks: locks(), Kind: kind})
		return true
	})
}

// ---------------------------------------------------------------------------------------------

func writeIfChanged(path, content string) {
	old, err := os.ReadFile(path)
	if err == nil && string(old) == content {
		return
	}
	if err := os.WriteFile(path, []byte(content), 0o644); err != nil {
		fatal("writing %s: %v", path, err)
	}
}

const header = "-- GENERATED by /verif/go/cmd/extract from the repository's working tree. Do not edit.\n"

func main() {
	repo := flag.String("repo", "/repo", "repository root")
	out := flag.String("out", "", "output directory for Gen/*.lean")
	flag.Parse()
	if *out == "" {
		fatal("-out required")
	}
	pkgs := load(*repo)
	sb := pkgs["sbom"]
	ser := pkgs["serializers"]
	unser := pkgs["unserializers"]

	// ---------------- Schema
	nodeF := messageFields((&sbom.Node{}).ProtoReflect(), reflect.TypeOf(sbom.Node{}))
	personF := messageFields((&sbom.Person{}).ProtoReflect(), reflect.TypeOf(sbom.Person{}))
	refF := messageFields((&sbom.ExternalReference{}).ProtoReflect(), reflect.TypeOf(sbom.ExternalReference{}))
	edgeF := messageFields((&sbom.Edge{}).ProtoReflect(), reflect.TypeOf(sbom.Edge{}))
	var s strings.Builder
	s.WriteString(header)
	s.WriteString("import Protobom.Model.Types\n\nnamespace Protobom.Gen.Schema\nopen Protobom\n\n")
	var attrs, all, pnames []string
	for _, f := range nodeF {
		pnames = append(pnames, fmt.Sprintf("(%s, %s)", leanStr(f.GoName), leanStr(f.Name)))
		all = append(all, fmt.Sprintf("(%s, %d, %s)", leanStr(f.Name), f.Number, leanStr(f.Kind)))
		if f.Name == "id" || f.Name == "type" {
			continue
		}
		k := f.Kind
		if k == "unknown" || k == "bool" || k == "enum" {
			k = "str" // not representable: the obligation `nodeAttrs_known` below then fails
		}
		attrs = append(attrs, fmt.Sprintf("(%s, Kind.%s)", leanStr(f.GoName), k))
	}
	fmt.Fprintf(&s, "/-- every field of the Node message: proto name, number, kind -/\ndef nodeAllFields : List (String × Nat × String) := %s\n\n", leanList(all))
	fmt.Fprintf(&s, "/-- the attributes (every field except id and type): Go field name and kind, in field-number order -/\ndef nodeAttrs : List (String × Kind) := %s\n\n", leanList(attrs))
	fmt.Fprintf(&s, "/-- Go field name -> proto field name of the Node message -/\ndef nodeProtoNames : List (String × String) := %s\n\n", leanList(pnames))
	msg := func(name string, fs []fieldInfo) {
		var items []string
		for _, f := range fs {
			items = append(items, fmt.Sprintf("(%s, %s)", leanStr(f.GoName), leanStr(f.Kind)))
		}
		fmt.Fprintf(&s, "def %s : List (String × String) := %s\n\n", name, leanList(items))
	}
	msg("personFields", personF)
	msg("extRefFields", refF)
	msg("edgeFields", edgeF)
	enum := func(name string, ed protoreflect.EnumDescriptor) {
		var items []string
		for _, v := range enumValues(ed) {
			items = append(items, fmt.Sprintf("(%s, %d)", leanStr(v.Name), v.Number))
		}
		fmt.Fprintf(&s, "def %s : List (String × Int) := %s\n\n", name, leanList(items))
	}
	enum("edgeTypes", sbom.Edge_Type(0).Descriptor())
	enum("hashAlgorithms", sbom.HashAlgorithm(0).Descriptor())
	enum("purposes", sbom.Purpose(0).Descriptor())
	enum("identifierTypes", sbom.SoftwareIdentifierType(0).Descriptor())
	enum("extRefTypes", sbom.ExternalReference_ExternalReferenceType(0).Descriptor())
	enum("nodeTypes", sbom.Node_NodeType(0).Descriptor())
	enum("documentTypes", sbom.DocumentType_SBOMType(0).Descriptor())
	s.WriteString("end Protobom.Gen.Schema\n")
	writeIfChanged(filepath.Join(*out, "Schema.lean"), s.String())

	// ---------------- NodeFields
	var nf strings.Builder
	nf.WriteString(header)
	nf.WriteString("namespace Protobom.Gen.NodeFields\n\n")
	rowsDef := func(name string, rows []fieldRow) {
		var items []string
		for _, r := range rows {
			items = append(items, fmt.Sprintf("(%s, %s)", leanStr(r.Field), leanStr(r.Form)))
		}
		fmt.Fprintf(&nf, "def %s : List (String × String) := %s\n\n", name, leanList(items))
	}
	rowsDef("updateTable", updateTable(findFunc(sb, "Node", "Update")))
	rowsDef("augmentTable", updateTable(findFunc(sb, "Node", "Augment")))
	rowsDef("nodeCopyTable", copyTable(findFunc(sb, "Node", "Copy")))
	rowsDef("edgeCopyTable", copyTable(findFunc(sb, "Edge", "Copy")))
	rowsDef("personCopyTable", copyTable(findFunc(sb, "Person", "Copy")))
	rowsDef("extRefCopyTable", copyTable(findFunc(sb, "ExternalReference", "Copy")))
	rowsDef("diffTable", diffTable(findFunc(sb, "Node", "Diff")))
	flat, hasDef := flatTable(sb, findFunc(sb, "Node", "flatString"))
	rowsDef("flatTable", flat)
	fmt.Fprintf(&nf, "def flatHasScalarDefault : Bool := %v\n\n", hasDef)
	nf.WriteString("end Protobom.Gen.NodeFields\n")
	writeIfChanged(filepath.Join(*out, "NodeFields.lean"), nf.String())

	// ---------------- enum / string tables
	type spec struct {
		pkg        *packages.Package
		recv, name string
		lean       string
		nth        int
	}
	specs := []spec{
		{sb, "Edge_Type", "ToSPDX2", "edgeToSPDX2", 0},
		{sb, "", "EdgeTypeFromSPDX2", "edgeFromSPDX2", 0},
		{sb, "", "EdgeTypeFromSPDX", "edgeFromSPDX", 0},
		{sb, "HashAlgorithm", "ToSPDX", "hashToSPDX", 0},
		{sb, "", "HashAlgorithmFromSPDX", "hashFromSPDX", 0},
		{sb, "", "HashAlgorithmFromCDX", "hashFromCDX", 0},
		{sb, "", "HashAlgorithmFromCycloneDX", "hashFromCycloneDX", 0},
		{sb, "SoftwareIdentifierType", "ToSPDX2Type", "identToSPDX2Type", 0},
		{sb, "SoftwareIdentifierType", "ToSPDX2Category", "identToSPDX2Category", 0},
		{sb, "", "SoftwareIdentifierTypeFromSPDXExtRefType", "identFromSPDXExtRefType", 0},
		{ser, "SPDX23", "extRefCategoryFromProtobomExtRef", "spdxExtRefCategory", 0},
		{ser, "SPDX23", "extRefTypeFromProtobomExtRef", "spdxExtRefType", 0},
		{ser, "SPDX23", "buildPackages", "spdxPurposeOut", 0},
		{ser, "CDX", "protobomExtRefTypeToCdxType", "cdxExtRefTypeOut", 0},
		{ser, "CDX", "protoHashAlgoToCdxAlgo", "cdxHashOut", 0},
		{ser, "CDX", "purposeToComponentType", "cdxPurposeOut", 0},
		{ser, "", "sbomTypeToPhase", "cdxPhaseOut", 0},
		{unser, "SPDX23", "packageToNode", "spdxPurposeIn", 0},
		{unser, "SPDX23", "extRefToProtobomEnum", "spdxExtRefIn", 0},
		{unser, "SPDX23", "extRefTypeToIdentifierType", "spdxIdentIn", 0},
		{unser, "CDX", "phaseToSBOMType", "cdxPhaseIn", 0},
		{unser, "CDX", "componentTypeToPurpose", "cdxPurposeIn", 0},
		{unser, "CDX", "cdxHashAlgoToProtobomAlgo", "cdxHashIn", 0},
		{unser, "CDX", "cdxExtRefTypeToProtobomType", "cdxExtRefTypeIn", 0},
		{pkgs["formats"], "Sniffer", "SniffReader", "sniffCdxVersion", 0},
		{pkgs["formats"], "Sniffer", "SniffReader", "sniffSpdxVersion", 1},
	}
	var tb strings.Builder
	tb.WriteString(header)
	tb.WriteString("namespace Protobom.Gen.Tables\n\n")
	var tables []*table
	for _, sp := range specs {
		t := funcSwitch(sp.pkg, findFunc(sp.pkg, sp.recv, sp.name), sp.lean, sp.nth)
		tables = append(tables, t)
		tb.WriteString(renderTable(t))
	}
	tb.WriteString("end Protobom.Gen.Tables\n")
	writeIfChanged(filepath.Join(*out, "Tables.lean"), tb.String())

	// ---------------- formats: constants and registrations
	var fm strings.Builder
	fm.WriteString(header)
	fm.WriteString("namespace Protobom.Gen.Formats\n\n")
	{
		fp := pkgs["formats"]
		var consts []string
		scope := fp.Types.Scope()
		names := scope.Names()
		sort.Strings(names)
		for _, n := range names {
			if c, ok := scope.Lookup(n).(*types.Const); ok && c.Val().Kind() == constant.String {
				consts = append(consts, fmt.Sprintf("(%s, %s)", leanStr(n), leanStr(constant.StringVal(c.Val()))))
			}
		}
		fmt.Fprintf(&fm, "/-- string constants of pkg/formats -/\ndef consts : List (String × String) := %s\n\n", leanList(consts))
		reg := func(p *packages.Package, fname string) []string {
			var out []string
			fd := findFunc(p, "", fname)
			if fd == nil {
				return []string{leanStr("<missing " + fname + ">")}
			}
			ast.Inspect(fd.Body, func(n ast.Node) bool {
				switch v := n.(type) {
				case *ast.AssignStmt:
					for _, l := range v.Lhs {
						if ix, ok := l.(*ast.IndexExpr); ok {
							if c, ok := constOf(p, ix.Index); ok {
								out = append(out, renderConst(c))
							}
						}
					}
				case *ast.CallExpr:
					if se, ok := v.Fun.(*ast.SelectorExpr); ok && se.Sel.Name == "Store" && len(v.Args) == 2 {
						if c, ok := constOf(p, v.Args[0]); ok {
							out = append(out, renderConst(c))
						}
					}
				}
				return true
			})
			return out
		}
		fmt.Fprintf(&fm, "/-- formats registered by reader.init -/\ndef readerFormats : List String := %s\n\n", leanList(reg(pkgs["reader"], "init")))
		fmt.Fprintf(&fm, "/-- formats registered by writer.ensureSerializersInitialized -/\ndef writerFormats : List String := %s\n\n", leanList(reg(pkgs["writer"], "ensureSerializersInitialized")))
	}
	fm.WriteString("end Protobom.Gen.Formats\n")
	writeIfChanged(filepath.Join(*out, "Formats.lean"), fm.String())

	// ---------------- skeletons of hand-modelled functions
	var sk strings.Builder
	sk.WriteString(header)
	sk.WriteString("namespace Protobom.Gen.Skel\n\n")
	for _, sp := range []struct {
		p          *packages.Package
		recv, name string
	}{
		{pkgs["formats"], "Sniffer", "SniffReader"},
		{pkgs["formats"], "Sniffer", "sniff"},
		{pkgs["formats"], "spdxSniff", "sniff"},
		{pkgs["formats"], "cdxSniff", "sniff"},
		{pkgs["formats"], "sniffState", "Format"},
		{pkgs["formats"], "Format", "Version"},
		{pkgs["formats"], "Format", "Major"},
		{pkgs["formats"], "Format", "Minor"},
		{pkgs["formats"], "Format", "Encoding"},
		{pkgs["formats"], "Format", "Type"},
		{pkgs["reader"], "Reader", "ParseStreamWithOptions"},
		{pkgs["reader"], "Reader", "detectFormat"},
		{pkgs["reader"], "", "GetFormatUnserializer"},
		{pkgs["unserializers"], "", "readSPDXJSON"},
		{pkgs["serializers"], "CDX", "Serialize"},
		{pkgs["serializers"], "SPDX23", "Serialize"},
		{pkgs["writer"], "Writer", "WriteStreamWithOptions"},
		{pkgs["storage"], "FileSystem", "Store"},
		{pkgs["storage"], "FileSystem", "Retrieve"},
		{pkgs["storage"], "", "generateDocFileName"},
		{pkgs["writer"], "", "New"},
		{pkgs["reader"], "", "New"},
		{pkgs["writer"], "Options", "clone"},
		{pkgs["reader"], "Options", "clone"},
	} {
		fd := findFunc(sp.p, sp.recv, sp.name)
		items := skeleton(sp.p, fd)
		var li []string
		for _, it := range items {
			li = append(li, leanStr(it))
		}
		fmt.Fprintf(&sk, "def %s_%s_%s : List String := %s\n\n", sp.p.Name, sp.recv, sp.name, leanList(li))
	}
	sk.WriteString("end Protobom.Gen.Skel\n")
	writeIfChanged(filepath.Join(*out, "Skel.lean"), sk.String())

	// ---------------- option objects: reference-typed fields and what clone() re-allocates (C18)
	var op strings.Builder
	op.WriteString(header)
	op.WriteString("namespace Protobom.Gen.Opts\n\n")
	for _, pn := range []string{"reader", "writer"} {
		p := pkgs[pn]
		var refFields, valFields []string
		if obj := p.Types.Scope().Lookup("Options"); obj != nil {
			if st, ok := obj.Type().Underlying().(*types.Struct); ok {
				for i := 0; i < st.NumFields(); i++ {
					f := st.Field(i)
					switch f.Type().Underlying().(type) {
					case *types.Pointer, *types.Map, *types.Slice, *types.Interface, *types.Chan, *types.Signature:
						refFields = append(refFields, leanStr(f.Name()))
					default:
						valFields = append(valFields, leanStr(f.Name()))
					}
				}
			}
		}
		var fresh []string
		usesCopy := false
		if fd := findFunc(p, "Options", "clone"); fd != nil {
			res := ""
			ast.Inspect(fd.Body, func(n ast.Node) bool {
				as, ok := n.(*ast.AssignStmt)
				if !ok {
					return true
				}
				for i, l := range as.Lhs {
					if i >= len(as.Rhs) {
						continue
					}
					// c := *o  — the value copy the clone starts from
					if id, ok := l.(*ast.Ident); ok {
						if st, ok := as.Rhs[i].(*ast.StarExpr); ok && exprString(st.X) == recvName(fd) {
							res = id.Name
							usesCopy = true
						}
					}
					// c.F = &x  /  c.F = make(...)
					if se, ok := l.(*ast.SelectorExpr); ok && exprString(se.X) == res && res != "" {
						switch r := as.Rhs[i].(type) {
						case *ast.UnaryExpr:
							if r.Op == token.AND {
								fresh = append(fresh, leanStr(se.Sel.Name))
							}
						case *ast.CallExpr:
							if id, ok := r.Fun.(*ast.Ident); ok && (id.Name == "make" || id.Name == "new") {
								fresh = append(fresh, leanStr(se.Sel.Name))
							}
						}
					}
				}
				return true
			})
		}
		// New: does it start from defaultOptions.clone()?
		newClones := false
		if fd := findFunc(p, "", "New"); fd != nil {
			ast.Inspect(fd.Body, func(n ast.Node) bool {
				if ce, ok := n.(*ast.CallExpr); ok && exprString(ce.Fun) == "defaultOptions.clone" {
					newClones = true
				}
				return true
			})
		}
		fmt.Fprintf(&op, "def %s_refFields : List String := [%s]\n", pn, strings.Join(refFields, ", "))
		fmt.Fprintf(&op, "def %s_valFields : List String := [%s]\n", pn, strings.Join(valFields, ", "))
		fmt.Fprintf(&op, "def %s_cloneFresh : List String := [%s]\n", pn, strings.Join(fresh, ", "))
		fmt.Fprintf(&op, "def %s_cloneCopiesValue : Bool := %v\n", pn, usesCopy)
		fmt.Fprintf(&op, "def %s_newClonesDefaults : Bool := %v\n\n", pn, newClones)
	}
	op.WriteString("end Protobom.Gen.Opts\n")
	writeIfChanged(filepath.Join(*out, "Opts.lean"), op.String())

	// ---------------- nil guards per function (C04, C07)
	var gd strings.Builder
	gd.WriteString(header)
	gd.WriteString("namespace Protobom.Gen.Guards\n\n")
	{
		var rows []string
		for _, pn := range []string{"unserializers", "serializers", "reader", "writer"} {
			p := pkgs[pn]
			if p == nil {
				continue
			}
			type fg struct {
				name   string
				guards []string
			}
			var fgs []fg
			for _, f := range p.Syntax {
				for _, d := range f.Decls {
					fd, ok := d.(*ast.FuncDecl)
					if !ok || fd.Body == nil {
						continue
					}
					seen := map[string]bool{}
					var gs []string
					ast.Inspect(fd.Body, func(n ast.Node) bool {
						be, ok := n.(*ast.BinaryExpr)
						if !ok || (be.Op != token.NEQ && be.Op != token.EQL) {
							return true
						}
						var x ast.Expr
						if id, ok := be.Y.(*ast.Ident); ok && id.Name == "nil" {
							x = be.X
						} else if id, ok := be.X.(*ast.Ident); ok && id.Name == "nil" {
							x = be.Y
						}
						if x != nil {
							e := exprString(x)
							if !seen[e] {
								seen[e] = true
								gs = append(gs, e)
							}
						}
						return true
					})
					// nil-safe protobuf getters count as guards of their receiver
					ast.Inspect(fd.Body, func(n ast.Node) bool {
						if ce, ok := n.(*ast.CallExpr); ok {
							if se, ok := ce.Fun.(*ast.SelectorExpr); ok && strings.HasPrefix(se.Sel.Name, "Get") && len(ce.Args) == 0 {
								e := exprString(ce)
								if !seen[e] {
									seen[e] = true
									gs = append(gs, e)
								}
							}
						}
						return true
					})
					// recover() in a deferred closure counts as a guard named "recover"
					ast.Inspect(fd.Body, func(n ast.Node) bool {
						if ce, ok := n.(*ast.CallExpr); ok {
							if id, ok := ce.Fun.(*ast.Ident); ok && id.Name == "recover" && !seen["recover()"] {
								seen["recover()"] = true
								gs = append(gs, "recover()")
							}
						}
						return true
					})
					// named results (a deferred recover can only set those)
					if fd.Type.Results != nil {
						for _, r := range fd.Type.Results.List {
							for _, nm := range r.Names {
								gs = append(gs, "result:"+nm.Name)
							}
						}
					}
					name := fd.Name.Name
					if r := recvType(fd); r != "" {
						name = r + "." + name
					}
					fgs = append(fgs, fg{pn + "." + name, gs})
				}
			}
			sort.Slice(fgs, func(i, j int) bool { return fgs[i].name < fgs[j].name })
			for _, f := range fgs {
				var li []string
				for _, g := range f.guards {
					li = append(li, leanStr(g))
				}
				rows = append(rows, fmt.Sprintf("(%s, [%s])", leanStr(f.name), strings.Join(li, ", ")))
			}
		}
		fmt.Fprintf(&gd, "/-- per function: the expressions compared with nil, `recover()` if called, named results -/\ndef table : List (String × List String) := %s\n\n", leanList(rows))
	}
	gd.WriteString("end Protobom.Gen.Guards\n")
	writeIfChanged(filepath.Join(*out, "Guards.lean"), gd.String())

	// ---------------- access records
	var ac strings.Builder
	ac.WriteString(header)
	ac.WriteString("namespace Protobom.Gen.Access\n\n")
	ac.WriteString("/-- package, variable, function, isWrite, locks syntactically held, kind of use -/\n")
	var recs []access
	var vtypes []string
	for _, name := range []string{"reader", "writer", "formats", "storage"} {
		recs = append(recs, accessRecords(pkgs[name])...)
		sc := pkgs[name].Types.Scope()
		ns := sc.Names()
		sort.Strings(ns)
		for _, n := range ns {
			if v, ok := sc.Lookup(n).(*types.Var); ok {
				vtypes = append(vtypes, fmt.Sprintf("(%s, %s, %s)", leanStr(name), leanStr(n), leanStr(types.TypeString(v.Type(), func(p *types.Package) string { return p.Name() }))))
			}
		}
	}
	var items []string
	for _, r := range recs {
		var ls []string
		for _, l := range r.Locks {
			// name:mode#section
			nm, rest, _ := strings.Cut(l, ":")
			mode, sec, _ := strings.Cut(rest, "#")
			ls = append(ls, fmt.Sprintf("(%s, %s, %s)", leanStr(nm), leanStr(mode), sec))
		}
		items = append(items, fmt.Sprintf("⟨%s, %s, %s, %v, [%s], %s⟩", leanStr(r.Pkg), leanStr(r.Var), leanStr(r.Func), r.Write, strings.Join(ls, ", "), leanStr(r.Kind)))
	}
	ac.WriteString("structure Rec where\n  pkg : String\n  var : String\n  fn : String\n  write : Bool\n  locks : List (String × String × Nat)  -- lock, mode, n-th critical section of the function\n  kind : String\nderiving Repr, DecidableEq\n\n")
	fmt.Fprintf(&ac, "def records : List Rec := %s\n\n", leanList(items))
	fmt.Fprintf(&ac, "/-- every package-level variable of the packages, with its type -/\ndef varTypes : List (String × String × String) := %s\n\n", leanList(vtypes))
	ac.WriteString("end Protobom.Gen.Access\n")
	writeIfChanged(filepath.Join(*out, "Access.lean"), ac.String())

	// ---------------- JSON side file for translator validation
	side := map[string]any{
		"nodeFields": nodeF, "tables": tables, "access": recs,
		"update":  updateTable(findFunc(sb, "Node", "Update")),
		"augment": updateTable(findFunc(sb, "Node", "Augment")),
	}
	js, _ := json.MarshalIndent(side, "", " ")
	writeIfChanged(filepath.Join(*out, "tables.json"), string(js)+"\n")
}
