// Command firstuse is a process whose very first use of the writer package is the removal of a
// built-in serializer, next to the first lookups and writes of other goroutines (the harness
// binary cannot play this part: the packages it links register drivers when it starts). Whatever
// order the calls take, once the removal has returned the format stays removed, and the formats
// nobody removed are found. Prints {"violations": [...]}.
package main

import (
	"bytes"
	"encoding/json"
	"fmt"
	"os"
	"sync"

	"github.com/protobom/protobom/pkg/formats"
	"github.com/protobom/protobom/pkg/sbom"
	"github.com/protobom/protobom/pkg/writer"
)

type sink struct{ bytes.Buffer }

func (*sink) Close() error { return nil }

func main() {
	gone, kept := formats.CDX14JSON, formats.CDX15JSON
	if len(os.Args) > 1 && os.Args[1] == "spdx" {
		gone = formats.SPDX23JSON
	}
	doc := sbom.NewDocument()
	doc.Metadata.Id = "urn:uuid:3e671687-395b-41f5-a30f-a58921a69b79"
	n := sbom.NewNode()
	n.Id, n.Name = "app", "app"
	doc.NodeList.AddRootNode(n)
	var mu sync.Mutex
	violations := []string{}
	add := func(f string, a ...any) {
		mu.Lock()
		defer mu.Unlock()
		if len(violations) < 8 {
			violations = append(violations, fmt.Sprintf(f, a...))
		}
	}
	guard := func(what string, f func()) {
		defer func() {
			if r := recover(); r != nil {
				add("%s panicked: %v", what, r)
			}
		}()
		f()
	}
	removed := make(chan struct{})
	var wg sync.WaitGroup
	for w := 0; w < 8; w++ {
		wg.Add(1)
		go func(w int) {
			defer wg.Done()
			if w == 0 {
				guard("UnregisterSerializer", func() { writer.UnregisterSerializer(gone) })
				close(removed)
			}
			for i := 0; i < 30; i++ {
				guard("lookup / write", func() {
					if _, err := writer.GetFormatSerializer(kept); err != nil {
						add("the driver of %s, which nobody removed, is not found: %v", kept, err)
					}
					if i%5 == 0 {
						if err := writer.New(writer.WithFormat(kept)).WriteStream(doc, &sink{}); err != nil {
							add("a write in %s, which nobody removed, fails: %v", kept, err)
						}
					}
				})
			}
			<-removed
			for i := 0; i < 20; i++ {
				guard("lookup after removal", func() {
					if s, err := writer.GetFormatSerializer(gone); err == nil {
						add("after UnregisterSerializer(%s) returned, as the first use of the writer package in this process, a lookup of that format finds %T", gone, s)
					}
					if err := writer.New(writer.WithFormat(gone)).WriteStream(doc, &sink{}); err == nil {
						add("after UnregisterSerializer(%s) returned, a write in that format succeeds", gone)
					}
				})
			}
		}(w)
	}
	wg.Wait()
	b, _ := json.Marshal(map[string]any{"violations": violations})
	os.Stdout.Write(append(b, '\n'))
}
