// Command harness runs the correspondence streams: it generates operations from one PRNG,
// executes the real code (built from the repository's working tree with -tags verif), pipes the
// same operations through the compiled Lean model, compares, and evaluates the Go-side oracles.
package main

import (
	"bufio"
	"encoding/json"
	"flag"
	"fmt"
	"io"
	"os"
	"path/filepath"
	"sort"

	"github.com/sirupsen/logrus"
	"verif.local/tools/internal/hx"
)

func main() {
	logrus.SetOutput(io.Discard) // the library logs warnings on the inputs the streams generate on purpose
	if len(os.Args) > 1 && os.Args[1] == "child" {
		hx.ChildMain()
		return
	}
	stream := flag.String("stream", "nl", "stream name")
	tier := flag.String("tier", "quick", "quick | thorough")
	seed := flag.Int64("seed", 1, "PRNG seed")
	model := flag.String("model", "", "path of the compiled Lean driver")
	out := flag.String("out", "", "report file (JSON)")
	corpusDir := flag.String("corpus", "", "directory of corpus operations (one JSON op per line, *.jsonl)")
	replayDir := flag.String("replays", "", "directory for replay files")
	replay := flag.String("replay", "", "replay one case file and exit 1 if it still fails")
	known := flag.String("known", "", "known-findings file")
	flag.Parse()

	streams := map[string]*hx.Stream{}
	for _, s := range hx.AllStreams() {
		streams[s.Name] = s
	}
	if *replay != "" {
		os.Exit(doReplay(*replay, streams, *model))
	}
	s, ok := streams[*stream]
	if !ok {
		fmt.Fprintf(os.Stderr, "unknown stream %s\n", *stream)
		os.Exit(2)
	}
	var corpus []hx.M
	if *corpusDir != "" {
		files, _ := filepath.Glob(filepath.Join(*corpusDir, s.Name+"*.jsonl"))
		sort.Strings(files)
		for _, f := range files {
			fh, err := os.Open(f)
			if err != nil {
				continue
			}
			sc := bufio.NewScanner(fh)
			sc.Buffer(make([]byte, 1<<20), 1<<26)
			for sc.Scan() {
				var m hx.M
				if json.Unmarshal(sc.Bytes(), &m) == nil && m != nil {
					corpus = append(corpus, m)
				}
			}
			fh.Close()
		}
	}
	rep, err := hx.Run(s, hx.NewG(*seed), *tier, *seed, *model, corpus, *replayDir)
	if err != nil {
		fmt.Fprintf(os.Stderr, "harness: %v\n", err)
		os.Exit(2)
	}
	kf, err := hx.LoadKnown(*known)
	if err != nil {
		fmt.Fprintf(os.Stderr, "harness: known findings: %v\n", err)
		os.Exit(2)
	}
	for i := range rep.Cases {
		rep.Cases[i].Known = kf.Covered(&rep.Cases[i])
	}
	rep.KnownStatus = map[string]string{}
	for _, k := range kf.Known {
		if k.Stream != s.Name {
			continue
		}
		wr, err := hx.Run(&hx.Stream{Name: s.Name, Gen: func(*hx.G, string) []hx.M { return nil }, Exec: s.Exec, Canon: s.Canon,
			Oracle: s.Oracle, OpProps: s.OpProps, Reps: 1, NoModel: func(hx.M) bool { return true }}, hx.NewG(1), "quick", 1, "", []hx.M{k.Witness}, "")
		status := "passes"
		if err == nil {
			for _, c := range wr.Cases {
				if c.Property == k.Property {
					status = "fails"
				}
			}
		}
		rep.KnownStatus[k.ID] = status
	}
	b, _ := json.MarshalIndent(rep, "", " ")
	if *out != "" {
		if err := os.WriteFile(*out, append(b, '\n'), 0o644); err != nil {
			fmt.Fprintf(os.Stderr, "harness: %v\n", err)
			os.Exit(2)
		}
	} else {
		os.Stdout.Write(append(b, '\n'))
	}
	fmt.Fprintf(os.Stderr, "stream %s: %d operations, %d non-trivial, %d compared with the model, %d cases\n",
		rep.Stream, rep.Evaluations, rep.DistinctNontrivial, rep.Compared, len(rep.Cases))
}

func doReplay(path string, streams map[string]*hx.Stream, model string) int {
	b, err := os.ReadFile(path)
	if err != nil {
		fmt.Fprintln(os.Stderr, err)
		return 2
	}
	var c hx.Case
	if err := json.Unmarshal(b, &c); err != nil {
		fmt.Fprintln(os.Stderr, err)
		return 2
	}
	s, ok := streams[c.Stream]
	if !ok {
		fmt.Fprintf(os.Stderr, "replay names no known stream (%q): it documents a proof obligation, see its messages\n", c.Stream)
		return 2
	}
	rep, err := hx.Run(&hx.Stream{Name: s.Name, Gen: func(*hx.G, string) []hx.M { return nil }, Exec: s.Exec, Canon: s.Canon,
		Oracle: s.Oracle, OpProps: s.OpProps, Reps: s.Reps, NoModel: s.NoModel, Timeout: s.Timeout, Enrich: s.Enrich}, hx.NewG(1), "quick", 1, model, []hx.M{c.Op}, "")
	if err != nil {
		fmt.Fprintln(os.Stderr, err)
		return 2
	}
	still := 0
	for _, k := range rep.Cases {
		if k.Property == c.Property {
			still++
			fmt.Printf("still fails: %s %s %v\n", k.Property, k.Kind, k.Messages)
		}
	}
	if still > 0 {
		return 1
	}
	fmt.Println("replay passes")
	return 0
}
