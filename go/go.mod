module verif.local/tools

go 1.22.4

require (
	github.com/protobom/protobom v0.0.0
	golang.org/x/tools v0.21.0
	google.golang.org/protobuf v1.34.2
)

require (
	github.com/CycloneDX/cyclonedx-go v0.9.0 // indirect
	github.com/google/go-cmp v0.6.0 // indirect
	github.com/google/uuid v1.6.0 // indirect
	github.com/spdx/tools-golang v0.5.5 // indirect
	golang.org/x/mod v0.17.0 // indirect
	golang.org/x/sync v0.7.0 // indirect
)

replace github.com/protobom/protobom => /repo
