package hx

import (
	"bytes"
	"context"
	"fmt"
	"reflect"
	"sort"
	"strings"

	"github.com/protobom/protobom/pkg/native"
	"github.com/protobom/protobom/pkg/native/serializers"
	"github.com/protobom/protobom/pkg/sbom"
	"google.golang.org/protobuf/types/known/timestamppb"
)

// The `alias` stream (C11, C12): every operation runs on real objects whose slices carry spare
// capacity; operands are snapshotted before and after (order-sensitive, every field, including the
// spare capacity of every slice), results are checked for storage shared with their operands and
// then mutated everywhere to see whether an operand changes.

// ---------------------------------------------------------------------------------------------
// reflection walk over protobuf messages

type container struct {
	path string
	kind string // slice | map | msg
	ptr  uintptr
	size uintptr // bytes spanned (slices: cap * elemsize)
}

func isProtoField(f reflect.StructField) bool { return f.Tag.Get("protobuf") != "" }

// walk visits every container reachable from v.
func walk(v reflect.Value, path string, visit func(c container, v reflect.Value)) {
	switch v.Kind() {
	case reflect.Ptr:
		if v.IsNil() {
			return
		}
		if v.Elem().Kind() == reflect.Struct {
			visit(container{path, "msg", v.Pointer(), 1}, v)
			t := v.Elem().Type()
			for i := 0; i < t.NumField(); i++ {
				if t.PkgPath() == "google.golang.org/protobuf/types/known/timestamppb" {
					continue
				}
				if !isProtoField(t.Field(i)) {
					continue
				}
				walk(v.Elem().Field(i), path+"."+t.Field(i).Name, visit)
			}
		}
	case reflect.Slice:
		if v.IsNil() || v.Cap() == 0 {
			return
		}
		visit(container{path, "slice", v.Pointer(), uintptr(v.Cap()) * v.Type().Elem().Size()}, v)
		for i := 0; i < v.Len(); i++ {
			walk(v.Index(i), fmt.Sprintf("%s[%d]", path, i), visit)
		}
	case reflect.Map:
		if v.IsNil() {
			return
		}
		visit(container{path, "map", v.Pointer(), 1}, v)
	}
}

func containersOf(x any) []container {
	var out []container
	walk(reflect.ValueOf(x), "", func(c container, _ reflect.Value) { out = append(out, c) })
	return out
}

// sharedStorage lists the containers of `res` whose storage overlaps a container of `opnd`.
func sharedStorage(res, opnd any) []string {
	var out []string
	oc := containersOf(opnd)
	for _, r := range containersOf(res) {
		for _, o := range oc {
			if r.kind != o.kind {
				continue
			}
			overlap := false
			if r.kind == "slice" {
				overlap = r.ptr < o.ptr+o.size && o.ptr < r.ptr+r.size
			} else {
				overlap = r.ptr == o.ptr
			}
			if overlap {
				out = append(out, fmt.Sprintf("result%s shares its %s with operand%s", r.path, r.kind, o.path))
			}
		}
	}
	sort.Strings(out)
	return out
}

// deepSnapshot renders every field of every reachable message in order, including the elements
// in the spare capacity of every slice (marked `cap:`), so that hidden writes show up too.
func deepSnapshot(x any) (visible string, withCap string) {
	var vis, capb strings.Builder
	var rec func(v reflect.Value, depth int)
	rec = func(v reflect.Value, depth int) {
		if depth > 12 {
			return
		}
		switch v.Kind() {
		case reflect.Ptr:
			if v.IsNil() {
				vis.WriteString("nil;")
				capb.WriteString("nil;")
				return
			}
			if ts, ok := v.Interface().(*timestamppb.Timestamp); ok {
				s := fmt.Sprintf("ts(%d,%d);", ts.Seconds, ts.Nanos)
				vis.WriteString(s)
				capb.WriteString(s)
				return
			}
			if v.Elem().Kind() == reflect.Struct {
				t := v.Elem().Type()
				vis.WriteString("{")
				capb.WriteString("{")
				for i := 0; i < t.NumField(); i++ {
					if !isProtoField(t.Field(i)) {
						continue
					}
					vis.WriteString(t.Field(i).Name + "=")
					capb.WriteString(t.Field(i).Name + "=")
					rec(v.Elem().Field(i), depth+1)
				}
				vis.WriteString("}")
				capb.WriteString("}")
			} else {
				// optional scalars (document type number, name, description)
				vis.WriteString("&")
				capb.WriteString("&")
				rec(v.Elem(), depth+1)
			}
		case reflect.Slice:
			if v.IsNil() {
				vis.WriteString("nilslice;")
				capb.WriteString("nilslice;")
				return
			}
			vis.WriteString(fmt.Sprintf("[%d:", v.Len()))
			capb.WriteString(fmt.Sprintf("[%d/%d:", v.Len(), v.Cap()))
			for i := 0; i < v.Len(); i++ {
				rec(v.Index(i), depth+1)
			}
			vis.WriteString("]")
			// spare capacity (scalars only; pointers there are rendered by address-free content)
			full := v.Slice(0, v.Cap())
			capb.WriteString("cap:")
			for i := v.Len(); i < v.Cap(); i++ {
				e := full.Index(i)
				switch e.Kind() {
				case reflect.String:
					capb.WriteString(fmt.Sprintf("%q,", e.String()))
				case reflect.Int32, reflect.Int64, reflect.Int:
					capb.WriteString(fmt.Sprintf("%d,", e.Int()))
				case reflect.Ptr:
					if e.IsNil() {
						capb.WriteString("nil,")
					} else {
						capb.WriteString("ptr,")
					}
				}
			}
			capb.WriteString("]")
		case reflect.Map:
			if v.IsNil() {
				vis.WriteString("nilmap;")
				capb.WriteString("nilmap;")
				return
			}
			keys := v.MapKeys()
			sort.Slice(keys, func(i, j int) bool { return fmt.Sprint(keys[i].Interface()) < fmt.Sprint(keys[j].Interface()) })
			s := "map{"
			for _, k := range keys {
				s += fmt.Sprintf("%v:%v,", k.Interface(), v.MapIndex(k).Interface())
			}
			s += "}"
			vis.WriteString(s)
			capb.WriteString(s)
		default:
			s := fmt.Sprintf("%v;", v.Interface())
			vis.WriteString(s)
			capb.WriteString(s)
		}
	}
	rec(reflect.ValueOf(x), 0)
	return vis.String(), capb.String()
}

// padCapacity gives every slice reachable from x spare capacity (append-and-truncate), as slices
// built with append usually have.
func padCapacity(x any, extra int) {
	walk(reflect.ValueOf(x), "", func(c container, v reflect.Value) {})
	var rec func(v reflect.Value)
	rec = func(v reflect.Value) {
		switch v.Kind() {
		case reflect.Ptr:
			if v.IsNil() || v.Elem().Kind() != reflect.Struct {
				return
			}
			if _, ok := v.Interface().(*timestamppb.Timestamp); ok {
				return
			}
			t := v.Elem().Type()
			for i := 0; i < t.NumField(); i++ {
				if isProtoField(t.Field(i)) {
					rec(v.Elem().Field(i))
				}
			}
		case reflect.Slice:
			if v.IsNil() || !v.CanSet() {
				return
			}
			n := reflect.MakeSlice(v.Type(), v.Len(), v.Len()+extra)
			reflect.Copy(n, v)
			v.Set(n)
			for i := 0; i < v.Len(); i++ {
				rec(v.Index(i))
			}
		}
	}
	rec(reflect.ValueOf(x))
}

// mutateEverywhere changes every reachable container of x: scalar fields, slice elements, appends
// into spare capacity, map stores and deletions, nested messages.
func mutateEverywhere(x any) {
	var rec func(v reflect.Value)
	rec = func(v reflect.Value) {
		switch v.Kind() {
		case reflect.Ptr:
			if v.IsNil() || v.Elem().Kind() != reflect.Struct {
				return
			}
			if ts, ok := v.Interface().(*timestamppb.Timestamp); ok {
				ts.Seconds += 777
				return
			}
			t := v.Elem().Type()
			for i := 0; i < t.NumField(); i++ {
				if !isProtoField(t.Field(i)) {
					continue
				}
				f := v.Elem().Field(i)
				switch f.Kind() {
				case reflect.String:
					f.SetString(f.String() + "~mut")
				case reflect.Bool:
					f.SetBool(!f.Bool())
				case reflect.Int32:
					f.SetInt(f.Int() + 1)
				default:
					rec(f)
				}
			}
		case reflect.Slice:
			if v.IsNil() {
				return
			}
			for i := 0; i < v.Len(); i++ {
				e := v.Index(i)
				switch e.Kind() {
				case reflect.String:
					e.SetString(e.String() + "~mut")
				case reflect.Int32:
					e.SetInt(e.Int() + 1)
				default:
					rec(e)
				}
			}
			// write into the spare capacity, as an append would
			if v.Cap() > v.Len() {
				full := v.Slice(0, v.Cap())
				e := full.Index(v.Len())
				switch e.Kind() {
				case reflect.String:
					e.SetString("~appended")
				case reflect.Int32:
					e.SetInt(424242)
				}
			}
		case reflect.Map:
			if v.IsNil() {
				return
			}
			for _, k := range v.MapKeys() {
				if v.Type().Elem().Kind() == reflect.String {
					v.SetMapIndex(k, reflect.ValueOf(v.MapIndex(k).String()+"~mut"))
				}
			}
			if v.Type().Key().Kind() == reflect.Int32 && v.Type().Elem().Kind() == reflect.String {
				v.SetMapIndex(reflect.ValueOf(int32(9999)), reflect.ValueOf("~new"))
			}
		}
	}
	rec(reflect.ValueOf(x))
}

// ---------------------------------------------------------------------------------------------
// operations

type aliasOperand struct {
	name string
	obj  any
}

func docOf(op M) *sbom.Document {
	nl := NLOf(op["a"])
	d := &sbom.Document{Metadata: metaOf(op["meta"]), NodeList: nl}
	return d
}

// metaOf builds document metadata; "meta" may add document types (type number or -1 for none,
// name, description), tools and authors
func metaOf(v any) *sbom.Metadata {
	md := &sbom.Metadata{Id: "urn:uuid:0", Version: "1", Name: "doc"}
	m, ok := v.(M)
	if !ok {
		return md
	}
	for _, t := range asList(m["types"]) {
		l := asList(t)
		if len(l) != 3 {
			continue
		}
		dt := &sbom.DocumentType{}
		if n := asInt(l[0]); n >= 0 {
			ty := sbom.DocumentType_SBOMType(n)
			dt.Type = &ty
		}
		if s := asStr(l[1]); s != "" {
			dt.Name = &s
		}
		if s := asStr(l[2]); s != "" {
			dt.Description = &s
		}
		md.DocumentTypes = append(md.DocumentTypes, dt)
	}
	for _, t := range asList(m["tools"]) {
		md.Tools = append(md.Tools, &sbom.Tool{Name: asStr(t), Version: "1", Vendor: "v"})
	}
	for _, a := range asList(m["authors"]) {
		if am, ok := a.(M); ok {
			md.Authors = append(md.Authors, PersonOf(am))
		}
	}
	return md
}

func (g *G) docMeta() M {
	types := []any{}
	for g.Chance(0.6) && len(types) < 4 {
		// in range, OTHER with a name, no type at all, and numbers no release defines
		types = append(types, []any{float64(g.Pick2([]int{0, 1, 3, 5, 8, -1, 9, 42})), g.Pick([]string{"", "Custom", "build"}), g.Pick([]string{"", "d"})})
	}
	tools := []any{}
	for g.Chance(0.4) && len(tools) < 3 {
		tools = append(tools, g.Pick([]string{"t1", "t2", ""}))
	}
	authors := []any{}
	for g.Chance(0.4) && len(authors) < 3 {
		authors = append(authors, g.Person(1))
	}
	return M{"types": types, "tools": tools, "authors": authors}
}

// runAliasOp executes the operation and returns operands and results (as real objects).
func runAliasOp(op M) (operands []aliasOperand, results []aliasOperand, note string) {
	name := asStr(op["what"])
	get := func(k string) M {
		m, _ := op[k].(M)
		return m
	}
	switch name {
	case "copyNode":
		n := NodeOf(get("n"))
		if b, _ := op["share"].(bool); b {
			shared := &sbom.Person{Name: "Jo", Email: "jo@x"}
			n.Suppliers = append(n.Suppliers, &sbom.Person{Name: "D1", Contacts: []*sbom.Person{shared}},
				&sbom.Person{Name: "D2", Contacts: []*sbom.Person{shared}})
			n.Originators = append(n.Originators, shared)
		}
		padCapacity(n, 2)
		return []aliasOperand{{"node", n}}, []aliasOperand{{"copy", n.Copy()}}, ""
	case "copyNode2":
		// a copy and a copy of that copy: the second call's operand is the first call's result
		n := NodeOf(get("n"))
		padCapacity(n, 2)
		c1 := n.Copy()
		return []aliasOperand{{"node", n}}, []aliasOperand{{"copy", c1}, {"copy of the copy", c1.Copy()}}, ""
	case "copyEdge":
		e := EdgeOf(get("e"))
		padCapacity(e, 2)
		return []aliasOperand{{"edge", e}}, []aliasOperand{{"copy", e.Copy()}}, ""
	case "copyPerson":
		p := PersonOf(get("p"))
		if b, _ := op["share"].(bool); b {
			// the same *Person object listed in two places of the contact tree
			shared := &sbom.Person{Name: "Jo", Email: "jo@x"}
			d1 := &sbom.Person{Name: "D1", IsOrg: true, Contacts: []*sbom.Person{shared}}
			d2 := &sbom.Person{Name: "D2", IsOrg: true, Contacts: []*sbom.Person{shared}}
			p.Contacts = append(p.Contacts, d1, d2)
		}
		padCapacity(p, 2)
		return []aliasOperand{{"person", p}}, []aliasOperand{{"copy", p.Copy()}}, ""
	case "copyRef":
		r := RefOf(get("r"))
		return []aliasOperand{{"ref", r}}, []aliasOperand{{"copy", r.Copy()}}, ""
	case "copyNL":
		a := NLOf(get("a"))
		padCapacity(a, 2)
		return []aliasOperand{{"list", a}}, []aliasOperand{{"copy", a.Copy()}}, ""
	case "union", "intersect":
		a, b := NLOf(get("a")), NLOf(get("b"))
		switch asStr(op["share"]) {
		case "frag":
			// the argument is a fragment of the receiver's own list: the very same node objects, as
			// the extraction functions return them
			ix := map[string]*sbom.Node{}
			for _, n := range a.Nodes {
				if n != nil {
					ix[n.Id] = n
				}
			}
			for i, n := range b.Nodes {
				if n != nil && ix[n.Id] != nil {
					b.Nodes[i] = ix[n.Id]
				}
			}
		case "self":
			b = a
		}
		padCapacity(a, 2)
		padCapacity(b, 2)
		var r *sbom.NodeList
		if name == "union" {
			r = a.Union(b)
		} else {
			r = a.Intersect(b)
		}
		return []aliasOperand{{"receiver", a}, {"argument", b}}, []aliasOperand{{"result", r}}, ""
	case "union2", "intersect2":
		// two calls sharing the receiver; both results stay alive
		a, b, c := NLOf(get("a")), NLOf(get("b")), NLOf(get("c"))
		padCapacity(a, 2)
		padCapacity(b, 2)
		padCapacity(c, 2)
		var r1, r2 *sbom.NodeList
		if name == "union2" {
			r1 = a.Union(b)
			r2 = a.Union(c)
		} else {
			r1 = a.Intersect(b)
			r2 = a.Intersect(c)
		}
		return []aliasOperand{{"receiver", a}, {"argument1", b}, {"argument2", c}}, []aliasOperand{{"result1", r1}, {"result2", r2}}, ""
	}
	return nil, nil, "unknown"
}

// readOnlyOps: every read-only or value-returning public operation, run on shared operands.
func readOnlyOps(a, b *sbom.NodeList, n, m *sbom.Node, doc *sbom.Document) map[string]func() {
	ops := map[string]func(){
		"NodeList.Equal":       func() { a.Equal(b) },
		"NodeList.Copy":        func() { a.Copy() },
		"NodeList.Union":       func() { a.Union(b) },
		"NodeList.Intersect":   func() { a.Intersect(b) },
		"GetNodesByName":       func() { a.GetNodesByName("x") },
		"GetNodeByID":          func() { a.GetNodeByID("a") },
		"GetNodesByIdentifier": func() { a.GetNodesByIdentifier("purl", "pkg:npm/a@1") },
		"GetRootNodes":         func() { a.GetRootNodes() },
		"GetNodesByPurlType":   func() { a.GetNodesByPurlType("npm") },
		"GetMatchingNode":      func() { _, _ = a.GetMatchingNode(n) },
		"GetEdgeByType":        func() { a.GetEdgeByType("a", 5) },
		"Node.Equal":           func() { n.Equal(m) },
		"Node.Checksum":        func() { n.Checksum() },
		"Node.Diff":            func() { n.Diff(m) },
		"Node.Copy":            func() { n.Copy() },
		"Node.HashesMatch":     func() { n.HashesMatch(m.Hashes) },
		"Node.Purl":            func() { n.Purl() },
	}
	for _, id := range a.RootElements {
		id := id
		ops["NodeGraph("+id+")"] = func() { a.NodeGraph(id) }
		ops["NodeDescendants("+id+")"] = func() { a.NodeDescendants(id, 3) }
		ops["NodeSiblings("+id+")"] = func() { a.NodeSiblings(id) }
	}
	for i, e := range a.Edges {
		e := e
		ops[fmt.Sprintf("Edge.Equal#%d", i)] = func() { e.Equal(a.Edges[0]) }
		ops[fmt.Sprintf("Edge.Copy#%d", i)] = func() { e.Copy() }
		ops[fmt.Sprintf("Edge.PointsTo#%d", i)] = func() { e.PointsTo("a") }
	}
	for i, p := range n.Suppliers {
		p := p
		ops[fmt.Sprintf("Person.Copy#%d", i)] = func() { p.Copy() }
	}
	for i, r := range n.ExternalReferences {
		r := r
		ops[fmt.Sprintf("ExternalReference.Copy#%d", i)] = func() { r.Copy() }
	}
	if doc != nil {
		ops["Serialize CDX 1.5"] = func() {
			s := serializers.NewCDX("1.5", "json")
			if native, err := s.Serialize(doc, &native.SerializeOptions{}, nil); err == nil {
				var buf bytes.Buffer
				_ = s.Render(native, &buf, &nativeRender, nil)
			}
		}
		ops["Serialize SPDX 2.3"] = func() {
			s := serializers.NewSPDX23()
			if native, err := s.Serialize(doc, &native.SerializeOptions{}, nil); err == nil {
				var buf bytes.Buffer
				_ = s.Render(native, &buf, &nativeRender, nil)
			}
		}
		ops["Document.GetRootNodes"] = func() { doc.GetRootNodes() }
	}
	return ops
}

var nativeRender = native.RenderOptions{Indent: 2}
var _ = context.Background

// convertible: can every operand of the operation be built? (the shrinker may produce malformed
// values; those must not be mistaken for a panic of the code under test)
func convertible(op M) (ok bool) {
	defer func() {
		if r := recover(); r != nil {
			ok = false
		}
	}()
	for _, k := range []string{"a", "b", "c", "doc"} {
		if v, has := op[k]; has {
			NLOf(v)
		}
	}
	for _, k := range []string{"n", "m"} {
		if v, has := op[k]; has {
			NodeOf(v)
		}
	}
	if v, has := op["e"]; has {
		EdgeOf(v)
	}
	if v, has := op["p"]; has {
		PersonOf(v)
	}
	if v, has := op["r"]; has {
		RefOf(v)
	}
	return true
}

func ExecAlias(op M) (res any) {
	if !convertible(op) {
		return "unknown-op"
	}
	defer func() {
		if r := recover(); r != nil {
			res = M{"panic": fmt.Sprint(r)}
		}
	}()
	out := M{}
	var findings []any
	add := func(prop, msg string) { findings = append(findings, []any{prop, msg}) }
	switch asStr(op["op"]) {
	case "alias":
		operands, results, note := runAliasOp(op)
		if note == "unknown" {
			return "unknown-op"
		}
		_ = results
		what := asStr(op["what"])
		// the copy compares equal to its source
		if strings.HasPrefix(what, "copy") {
			switch src := operands[0].obj.(type) {
			case *sbom.Node:
				if !results[0].obj.(*sbom.Node).Equal(src) {
					add("C12", "a copied node does not compare equal to its source")
				}
			case *sbom.Edge:
				if !results[0].obj.(*sbom.Edge).Equal(src) {
					add("C12", "a copied edge does not compare equal to its source")
				}
			case *sbom.NodeList:
				if !results[0].obj.(*sbom.NodeList).Equal(src) {
					add("C12", "a copied node list does not compare equal to its source")
				}
			case *sbom.Person:
				if sbom.VerifPersonFlatString(results[0].obj.(*sbom.Person)) != sbom.VerifPersonFlatString(src) {
					add("C12", "a copied person does not compare equal to its source")
				}
			case *sbom.ExternalReference:
				if sbom.VerifExtRefFlatString(results[0].obj.(*sbom.ExternalReference)) != sbom.VerifExtRefFlatString(src) {
					add("C12", "a copied external reference does not compare equal to its source")
				}
			}
		}
		// shared storage between any result and any operand, and between two results
		for _, r := range results {
			for _, o := range operands {
				for _, s := range sharedStorage(r.obj, o.obj) {
					add("C12", fmt.Sprintf("%s of %s: %s (%s / %s)", what, o.name, s, r.name, o.name))
				}
			}
		}
		if len(results) == 2 {
			for _, s := range sharedStorage(results[0].obj, results[1].obj) {
				add("C12", what+": the two results share storage: "+s)
			}
		}
		// mutation probes: mutate each result, every operand and the other result must not change
		for i, r := range results {
			before := []string{}
			for _, o := range operands {
				_, c := deepSnapshot(o.obj)
				before = append(before, c)
			}
			otherBefore := ""
			if len(results) == 2 {
				_, otherBefore = deepSnapshot(results[1-i].obj)
			}
			mutateEverywhere(r.obj)
			for k, o := range operands {
				if _, c := deepSnapshot(o.obj); c != before[k] {
					add("C12", fmt.Sprintf("%s: mutating the %s changed the %s", what, r.name, o.name))
				}
			}
			if len(results) == 2 {
				if _, c := deepSnapshot(results[1-i].obj); c != otherBefore {
					add("C12", fmt.Sprintf("%s: mutating %s changed %s (a result of another call on the same operand)", what, r.name, results[1-i].name))
				}
			}
		}
		// and the other way round: mutating the operands must not change a (fresh) result
		if len(results) == 1 {
			ops2, res2, _ := runAliasOp(op)
			_, rb := deepSnapshot(res2[0].obj)
			for _, o := range ops2 {
				mutateEverywhere(o.obj)
			}
			if _, ra := deepSnapshot(res2[0].obj); ra != rb {
				add("C12", what+": mutating the operands changed the result")
			}
		}
	case "snap":
		a, b := NLOf(op["a"]), NLOf(op["b"])
		n, m := NodeOf(op["n"]), NodeOf(op["m"])
		for _, x := range []any{a, b, n, m} {
			padCapacity(x, 2)
		}
		var doc *sbom.Document
		if d, ok := op["doc"].(M); ok {
			doc = &sbom.Document{Metadata: metaOf(op["meta"]), NodeList: NLOf(d)}
			if op["nolist"] == true {
				doc.NodeList = nil
			}
			padCapacity(doc, 2)
		}
		ops := readOnlyOps(a, b, n, m, doc)
		names := []string{}
		for k := range ops {
			names = append(names, k)
		}
		sort.Strings(names)
		operands := []aliasOperand{{"receiver list", a}, {"argument list", b}, {"node", n}, {"other node", m}}
		if doc != nil {
			operands = append(operands, aliasOperand{"document", doc})
		}
		for _, name := range names {
			vis, capS := []string{}, []string{}
			for _, o := range operands {
				v, c := deepSnapshot(o.obj)
				vis = append(vis, v)
				capS = append(capS, c)
			}
			func() {
				defer func() {
					if r := recover(); r != nil {
						if op["nolist"] == true && (strings.HasPrefix(name, "Serialize") || strings.HasPrefix(name, "Document.")) {
							return // the document is not one the call accepts; its snapshot is still compared
						}
						add("C11", fmt.Sprintf("%s panicked: %v", name, r))
					}
				}()
				ops[name]()
			}()
			for k, o := range operands {
				v, c := deepSnapshot(o.obj)
				if v != vis[k] {
					add("C11", fmt.Sprintf("%s modified its operand (%s): the field-by-field snapshot differs", name, o.name))
				} else if c != capS[k] {
					add("C11", fmt.Sprintf("%s wrote into the spare capacity of a slice of its operand (%s): concurrent calls would race", name, o.name))
				}
			}
		}
		out["ops"] = float64(len(names))
	default:
		return "unknown-op"
	}
	if findings == nil {
		findings = []any{}
	}
	out["findings"] = findings
	return out
}

func aliasOracle(op M, res any, exec func(M) any) []Finding {
	var out []Finding
	m, ok := res.(M)
	if !ok {
		return out
	}
	if p, ok := m["panic"]; ok {
		out = append(out, Finding{"C11", "operation panicked: " + asStr(p)}, Finding{"C12", "operation panicked: " + asStr(p)})
		return out
	}
	for _, f := range asList(m["findings"]) {
		l := f.([]any)
		out = append(out, Finding{asStr(l[0]), asStr(l[1])})
	}
	return out
}

func aliasGen(g *G, tier string) []M {
	n := 700
	if tier == "thorough" {
		n = 20000
	}
	var ops []M
	for i := 0; i < n; i++ {
		o := g.Opts(g.Chance(0.7))
		o.AttrP = []float64{0.3, 0.6, 0.9}[g.Int(3)]
		a := g.NodeList(o)
		o2 := o
		b := g.NodeList(o2)
		switch g.Int(12) {
		case 0, 1:
			nd := g.Node("x", 0.8)
			if at, ok := nd["a"].(M); ok {
				for _, r := range asList(at["ExternalReferences"]) {
					if rm, ok := r.(M); ok {
						if _, has := rm["h"]; !has && g.Chance(0.5) {
							rm["h"] = []any{}
						}
					}
				}
			}
			if at, ok := nd["a"].(M); ok && g.Chance(0.4) {
				// lists that are there and empty (cleared, or made with room to grow): a copy has its own
				for _, f := range NodeAttrs {
					if _, has := at[f.GoName]; !has && (f.Kind == "strs" || f.Kind == "enums" || f.Kind == "persons" || f.Kind == "refs") && g.Chance(0.5) {
						at[f.GoName] = []any{}
					}
				}
			}
			if at, ok := nd["a"].(M); ok && g.Chance(0.3) {
				// dates protobuf calls invalid (negative nanos, past year 9999) are values like any other
				fld := g.Pick([]string{"ReleaseDate", "BuildDate", "ValidUntilDate"})
				at[fld] = [][]any{{1700000000.0, -1.0}, {253402300800.0, 0.0}, {-62135596801.0, 0.0}}[g.Int(3)]
			}
			if g.Chance(0.3) {
				ops = append(ops, M{"op": "alias", "what": "copyNode2", "n": nd})
			} else {
				ops = append(ops, M{"op": "alias", "what": "copyNode", "n": nd, "share": g.Chance(0.4)})
			}
		case 2:
			e := M{"ty": float64(EdgeTypes[g.Int(6)]), "src": "a", "tos": []any{"b", "c", "a"}[:g.Int(4)]}
			ops = append(ops, M{"op": "alias", "what": "copyEdge", "e": e})
		case 3:
			// persons whose contact trees share a sub-person are built in the harness from the
			// same JSON value; pointer sharing inside one operand is added below
			ops = append(ops, M{"op": "alias", "what": "copyPerson", "p": g.Person(3), "share": g.Chance(0.5)})
		case 4:
			r := g.Ref()
			if _, has := r["h"]; !has && g.Chance(0.5) {
				r["h"] = []any{} // an initialised but empty map: a copy must still get its own
			}
			ops = append(ops, M{"op": "alias", "what": "copyRef", "r": r})
		case 5:
			ops = append(ops, M{"op": "alias", "what": "copyNL", "a": a})
		case 6, 7:
			o := M{"op": "alias", "what": g.Pick([]string{"union", "intersect"}), "a": a, "b": b}
			if g.Chance(0.25) {
				// plain nodes: text and dates only, no list or map attribute (what a call that saves a
				// copy for "simple" nodes would pick out)
				for _, l := range []M{a, b} {
					for _, n := range asList(l["nodes"]) {
						at, _ := n.(M)["a"].(M)
						if at == nil {
							at = M{}
							n.(M)["a"] = at
						}
						for _, f := range NodeAttrs {
							switch f.Kind {
							case "str":
							case "date":
								if g.Chance(0.7) {
									at[f.GoName] = []any{float64(1700000000 + g.Int(1000)), 0.0}
								}
							default:
								delete(at, f.GoName)
							}
						}
					}
				}
			}
			if g.Chance(0.3) {
				o["share"] = g.Pick([]string{"frag", "frag", "self"})
				// same values as well as same objects: the argument's nodes that the receiver also has
				// are the receiver's (so the model, which sees values, is given the same operands)
				an := map[string]any{}
				for _, n := range asList(a["nodes"]) {
					an[asStr(n.(M)["id"])] = n
				}
				b2 := Normalize(b).(M)
				if asStr(o["share"]) == "self" {
					b2 = Normalize(a).(M)
				} else {
					for i, n := range asList(b2["nodes"]) {
						if x, ok := an[asStr(n.(M)["id"])]; ok {
							asList(b2["nodes"])[i] = Normalize(x)
						}
					}
				}
				o["b"] = b2
			}
			ops = append(ops, o)
		case 8:
			ops = append(ops, M{"op": "alias", "what": g.Pick([]string{"union2", "intersect2"}), "a": a, "b": b, "c": g.NodeList(o2)})
		default:
			// read-only operations on shared operands, plus a serialisable document
			doc := g.serializableDoc()
			if g.Chance(0.5) {
				// comparisons that go past the size checks: the same list with several root elements
				// in another, unsorted order, one of them different
				ids := []any{}
				for _, n := range asList(a["nodes"]) {
					ids = append(ids, n.(M)["id"])
				}
				if len(ids) >= 2 {
					ra := shuffleAny(g, ids)
					rb := shuffleAny(g, ids)
					if g.Chance(0.5) {
						rb[0] = "zz-other-root"
					}
					a["roots"] = ra
					b = g.permuteNL(a)
					b["roots"] = rb
				}
			}
			// lists that hold a zero entry (an empty string, the UNKNOWN purpose) before other entries
			zn, zm := g.matchNode("p1"), g.Node("p2", 0.6)
			if g.Chance(0.5) {
				for _, n := range []M{zn, zm} {
					at, _ := n["a"].(M)
					if at == nil {
						at = M{}
						n["a"] = at
					}
					at["Licenses"] = []any{"", "MIT", "Apache-2.0"}
					at["Attribution"] = []any{"x", "", "y"}
					at["PrimaryPurpose"] = []any{0.0, 1.0, 16.0}
					at["FileTypes"] = []any{"", "TEXT"}
				}
			}
			sn := M{"op": "snap", "a": a, "b": b, "n": zn, "m": zm, "doc": doc, "meta": g.docMeta()}
			if g.Chance(0.15) {
				// a document that has metadata only: its node list is absent. A call on it may refuse
				// the document or even fail; what it may not do is fill the document in
				sn["nolist"] = true
			}
			ops = append(ops, sn)
		}
	}
	return ops
}

// serializableDoc: one root, a containment tree below it (each node has one parent), dependency
// edges between arbitrary nodes with duplicate targets.
func (g *G) serializableDoc() M {
	pool := g.Pool(4 + g.Int(4))
	nodes := []any{}
	for _, id := range pool {
		nodes = append(nodes, g.Node(id, 0.4))
	}
	children := map[string][]any{}
	order := []string{}
	for i := 1; i < len(pool); i++ {
		p := pool[g.Int(i)]
		if _, ok := children[p]; !ok {
			order = append(order, p)
		}
		children[p] = append(children[p], pool[i])
	}
	edges := []any{}
	for _, p := range order {
		edges = append(edges, M{"ty": 5.0, "src": p, "tos": children[p]})
	}
	for k := 0; k < g.Int(4); k++ {
		tos := []any{}
		for t := 0; t <= g.Int(3); t++ {
			tos = append(tos, pool[g.Int(len(pool))])
		}
		if g.Chance(0.5) && len(tos) > 0 {
			tos = append(tos, tos[0], pool[g.Int(len(pool))])
		}
		edges = append(edges, M{"ty": 10.0, "src": pool[g.Int(len(pool))], "tos": tos})
	}
	g.R.Shuffle(len(edges), func(i, j int) { edges[i], edges[j] = edges[j], edges[i] })
	roots := []any{pool[0]}
	switch g.Int(8) {
	case 0:
		roots = []any{} // refused by CycloneDX: the document must be left alone all the same
	case 1:
		roots = []any{pool[0], pool[len(pool)-1]}
	}
	return M{"nodes": nodes, "edges": edges, "roots": roots}
}

var AliasStream = &Stream{
	Name:       "alias",
	Gen:        aliasGen,
	Exec:       ExecAlias,
	Oracle:     aliasOracle,
	OpProps:    func(M) []string { return []string{"C11", "C12"} },
	NoModel:    func(M) bool { return true },
	Nontrivial: func(op M) bool { return true },
	Canon:      func(v any) any { return Normalize(v) },
	Reps:       1,
}
