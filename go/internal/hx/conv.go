// Package hx holds the harness core: JSON <-> protobom conversions, canonical forms, generators,
// the runner that compares the real code with the Lean model, oracles and the shrinker.
package hx

import (
	"encoding/json"
	"fmt"
	"reflect"
	"sort"
	"strings"
	"time"

	"github.com/protobom/protobom/pkg/sbom"
	"google.golang.org/protobuf/types/known/timestamppb"
)

type M = map[string]any

// ---------------------------------------------------------------------------------------------
// schema by reflection: Go field name, kind

type AttrField struct {
	GoName string
	Kind   string // str strs enums imap date persons refs
	Index  int    // struct field index
}

var NodeAttrs = nodeAttrs()

func nodeAttrs() []AttrField {
	t := reflect.TypeOf(sbom.Node{})
	type numbered struct {
		AttrField
		num int
	}
	var out []numbered
	for i := 0; i < t.NumField(); i++ {
		f := t.Field(i)
		tag := f.Tag.Get("protobuf")
		if tag == "" {
			continue
		}
		num := 0
		name := ""
		for k, part := range strings.Split(tag, ",") {
			if k == 1 {
				fmt.Sscanf(part, "%d", &num)
			}
			if strings.HasPrefix(part, "name=") {
				name = strings.TrimPrefix(part, "name=")
			}
		}
		if name == "id" || name == "type" {
			continue
		}
		kind := "unknown"
		switch f.Type.String() {
		case "string":
			kind = "str"
		case "[]string":
			kind = "strs"
		case "map[int32]string":
			kind = "imap"
		case "*timestamppb.Timestamp":
			kind = "date"
		case "[]*sbom.Person":
			kind = "persons"
		case "[]*sbom.ExternalReference":
			kind = "refs"
		default:
			if f.Type.Kind() == reflect.Slice && f.Type.Elem().Kind() == reflect.Int32 {
				kind = "enums"
			}
		}
		out = append(out, numbered{AttrField{f.Name, kind, i}, num})
	}
	sort.Slice(out, func(i, j int) bool { return out[i].num < out[j].num })
	res := make([]AttrField, len(out))
	for i, o := range out {
		res[i] = o.AttrField
	}
	return res
}

// ---------------------------------------------------------------------------------------------
// JSON -> sbom

func asInt(v any) int64 {
	switch x := v.(type) {
	case float64:
		return int64(x)
	case int:
		return int64(x)
	case int64:
		return x
	case int32:
		return int64(x)
	case json.Number:
		i, _ := x.Int64()
		return i
	}
	panic(fmt.Sprintf("asInt: %T", v))
}

func asStr(v any) string {
	if v == nil {
		return ""
	}
	return v.(string)
}

func asList(v any) []any {
	if v == nil {
		return nil
	}
	return v.([]any)
}

func pairsToMap(v any) map[int32]string {
	m := map[int32]string{}
	for _, p := range asList(v) {
		q := p.([]any)
		m[int32(asInt(q[0]))] = asStr(q[1])
	}
	return m
}

func PersonOf(v any) *sbom.Person {
	m := v.(M)
	p := &sbom.Person{Name: asStr(m["n"]), Email: asStr(m["e"]), Url: asStr(m["u"]), Phone: asStr(m["p"])}
	if b, ok := m["o"].(bool); ok {
		p.IsOrg = b
	}
	for _, c := range asList(m["c"]) {
		p.Contacts = append(p.Contacts, PersonOf(c))
	}
	return p
}

func RefOf(v any) *sbom.ExternalReference {
	m := v.(M)
	r := &sbom.ExternalReference{Url: asStr(m["u"]), Comment: asStr(m["c"]), Authority: asStr(m["a"])}
	if t, ok := m["t"]; ok {
		r.Type = sbom.ExternalReference_ExternalReferenceType(asInt(t))
	}
	if h, ok := m["h"]; ok {
		r.Hashes = pairsToMap(h)
	}
	return r
}

func NodeOf(v any) *sbom.Node {
	m := v.(M)
	n := &sbom.Node{Id: asStr(m["id"])}
	if t, ok := m["type"]; ok {
		n.Type = sbom.Node_NodeType(asInt(t))
	}
	attrs, _ := m["a"].(M)
	rv := reflect.ValueOf(n).Elem()
	for _, f := range NodeAttrs {
		val, ok := attrs[f.GoName]
		if !ok {
			continue
		}
		fv := rv.Field(f.Index)
		switch f.Kind {
		case "str":
			fv.SetString(asStr(val))
		case "strs":
			l := []string{} // a list that is written out, even empty, is an allocated one
			for _, s := range asList(val) {
				l = append(l, asStr(s))
			}
			fv.Set(reflect.ValueOf(l))
		case "enums":
			sl := reflect.MakeSlice(fv.Type(), 0, 0)
			for _, s := range asList(val) {
				e := reflect.New(fv.Type().Elem()).Elem()
				e.SetInt(asInt(s))
				sl = reflect.Append(sl, e)
			}
			fv.Set(sl)
		case "imap":
			fv.Set(reflect.ValueOf(pairsToMap(val)))
		case "date":
			l := asList(val)
			fv.Set(reflect.ValueOf(&timestamppb.Timestamp{Seconds: asInt(l[0]), Nanos: int32(asInt(l[1]))}))
		case "persons":
			l := []*sbom.Person{}
			for _, p := range asList(val) {
				l = append(l, PersonOf(p))
			}
			fv.Set(reflect.ValueOf(l))
		case "refs":
			l := []*sbom.ExternalReference{}
			for _, p := range asList(val) {
				l = append(l, RefOf(p))
			}
			fv.Set(reflect.ValueOf(l))
		}
	}
	return n
}

func EdgeOf(v any) *sbom.Edge {
	m := v.(M)
	e := &sbom.Edge{Type: sbom.Edge_Type(asInt(m["ty"])), From: asStr(m["src"])}
	if _, has := m["tos"]; has {
		e.To = []string{} // a target list that is written out, even empty, is an allocated one
	}
	for _, t := range asList(m["tos"]) {
		e.To = append(e.To, asStr(t))
	}
	return e
}

func NLOf(v any) *sbom.NodeList {
	m := v.(M)
	// as NewNodeList() makes them: empty, not nil, slices (operations that tell the two apart have
	// the nil form in the operands that went through Copy(), see "alloc", and in "nilA")
	nl := &sbom.NodeList{Nodes: []*sbom.Node{}, Edges: []*sbom.Edge{}, RootElements: []string{}}
	for _, n := range asList(m["nodes"]) {
		nl.Nodes = append(nl.Nodes, NodeOf(n))
	}
	for _, e := range asList(m["edges"]) {
		nl.Edges = append(nl.Edges, EdgeOf(e))
	}
	for _, r := range asList(m["roots"]) {
		nl.RootElements = append(nl.RootElements, asStr(r))
	}
	return nl
}

// ---------------------------------------------------------------------------------------------
// sbom -> JSON (only non-empty attributes are emitted)

func mapToPairs(m map[int32]string) []any {
	keys := make([]int, 0, len(m))
	for k := range m {
		keys = append(keys, int(k))
	}
	sort.Ints(keys)
	out := []any{}
	for _, k := range keys {
		out = append(out, []any{float64(k), m[int32(k)]})
	}
	return out
}

func PersonJ(p *sbom.Person) M {
	m := M{"n": p.Name, "o": p.IsOrg}
	if p.Email != "" {
		m["e"] = p.Email
	}
	if p.Url != "" {
		m["u"] = p.Url
	}
	if p.Phone != "" {
		m["p"] = p.Phone
	}
	if len(p.Contacts) > 0 {
		l := []any{}
		for _, c := range p.Contacts {
			l = append(l, PersonJ(c))
		}
		m["c"] = l
	}
	return m
}

func RefJ(r *sbom.ExternalReference) M {
	m := M{"t": float64(r.Type)}
	if r.Url != "" {
		m["u"] = r.Url
	}
	if r.Comment != "" {
		m["c"] = r.Comment
	}
	if r.Authority != "" {
		m["a"] = r.Authority
	}
	if len(r.Hashes) > 0 {
		m["h"] = mapToPairs(r.Hashes)
	}
	return m
}

func NodeJ(n *sbom.Node) M {
	attrs := M{}
	rv := reflect.ValueOf(n).Elem()
	for _, f := range NodeAttrs {
		fv := rv.Field(f.Index)
		switch f.Kind {
		case "str":
			if fv.String() != "" {
				attrs[f.GoName] = fv.String()
			}
		case "strs":
			if fv.Len() > 0 {
				l := []any{}
				for i := 0; i < fv.Len(); i++ {
					l = append(l, fv.Index(i).String())
				}
				attrs[f.GoName] = l
			}
		case "enums":
			if fv.Len() > 0 {
				l := []any{}
				for i := 0; i < fv.Len(); i++ {
					l = append(l, float64(fv.Index(i).Int()))
				}
				attrs[f.GoName] = l
			}
		case "imap":
			if fv.Len() > 0 {
				attrs[f.GoName] = mapToPairs(fv.Interface().(map[int32]string))
			}
		case "date":
			if !fv.IsNil() {
				ts := fv.Interface().(*timestamppb.Timestamp)
				attrs[f.GoName] = []any{float64(ts.Seconds), float64(ts.Nanos)}
			}
		case "persons":
			if fv.Len() > 0 {
				l := []any{}
				for _, p := range fv.Interface().([]*sbom.Person) {
					l = append(l, PersonJ(p))
				}
				attrs[f.GoName] = l
			}
		case "refs":
			if fv.Len() > 0 {
				l := []any{}
				for _, p := range fv.Interface().([]*sbom.ExternalReference) {
					l = append(l, RefJ(p))
				}
				attrs[f.GoName] = l
			}
		}
	}
	return M{"id": n.Id, "type": float64(n.Type), "a": attrs}
}

func EdgeJ(e *sbom.Edge) M {
	tos := []any{}
	for _, t := range e.To {
		tos = append(tos, t)
	}
	return M{"ty": float64(e.Type), "src": e.From, "tos": tos}
}

func NLJ(nl *sbom.NodeList) any {
	if nl == nil {
		return "nil"
	}
	ns, es, rs := []any{}, []any{}, []any{}
	for _, n := range nl.Nodes {
		ns = append(ns, NodeJ(n))
	}
	for _, e := range nl.Edges {
		es = append(es, EdgeJ(e))
	}
	for _, r := range nl.RootElements {
		rs = append(rs, r)
	}
	return M{"nodes": ns, "edges": es, "roots": rs}
}

func NodesJ(l []*sbom.Node) any {
	out := []any{}
	for _, n := range l {
		if n == nil {
			out = append(out, "nil-node") // a lookup that answers with a nil element: not a node of the list
			continue
		}
		out = append(out, NodeJ(n))
	}
	return out
}

// ---------------------------------------------------------------------------------------------
// canonical forms (results are compared as multisets; Go map order must not matter)

func js(v any) string {
	b, err := json.Marshal(v)
	if err != nil {
		panic(err)
	}
	return string(b)
}

// Normalize re-decodes a value through JSON so that numbers are float64 and maps are M.
func Normalize(v any) any {
	var out any
	if err := json.Unmarshal([]byte(js(v)), &out); err != nil {
		panic(err)
	}
	return out
}

func sortAny(l []any) []any {
	out := append([]any{}, l...)
	sort.SliceStable(out, func(i, j int) bool { return js(out[i]) < js(out[j]) })
	return out
}

// CanonNL sorts nodes, edges (each with sorted targets) and roots of a node-list JSON value.
func CanonNL(v any) any {
	m, ok := v.(M)
	if !ok {
		return v
	}
	if _, has := m["nodes"]; !has {
		return v
	}
	es := []any{}
	for _, e := range asList(m["edges"]) {
		em := e.(M)
		es = append(es, M{"ty": em["ty"], "src": em["src"], "tos": sortAny(asList(em["tos"]))})
	}
	return M{"nodes": sortAny(canonNodes(asList(m["nodes"]))), "edges": sortAny(es), "roots": sortAny(asList(m["roots"]))}
}

func canonNodes(l []any) []any {
	out := []any{}
	for _, n := range l {
		out = append(out, CanonNode(n))
	}
	return out
}

func sortPairs(v any) any {
	l := asList(v)
	out := append([]any{}, l...)
	sort.SliceStable(out, func(i, j int) bool { return asInt(out[i].([]any)[0]) < asInt(out[j].([]any)[0]) })
	return out
}

// CanonNode sorts the entries of map-valued attributes (Go maps have no order).
func CanonNode(v any) any {
	m, ok := v.(M)
	if !ok {
		return v
	}
	attrs, _ := m["a"].(M)
	na := M{}
	for k, val := range attrs {
		na[k] = val
	}
	for _, f := range NodeAttrs {
		val, has := na[f.GoName]
		if !has {
			continue
		}
		switch f.Kind {
		case "imap":
			na[f.GoName] = sortPairs(val)
		case "refs":
			l := []any{}
			for _, r := range asList(val) {
				rm := M{}
				for k, x := range r.(M) {
					rm[k] = x
				}
				if h, ok := rm["h"]; ok {
					rm["h"] = sortPairs(h)
				}
				l = append(l, rm)
			}
			na[f.GoName] = l
		}
	}
	return M{"id": m["id"], "type": m["type"], "a": na}
}

// CanonResult canonicalises any result value of the nl streams.
func CanonResult(v any) any {
	v = Normalize(v)
	switch x := v.(type) {
	case M:
		if _, ok := x["nodes"]; ok {
			return CanonNL(x)
		}
		if _, ok := x["id"]; ok {
			return CanonNode(x)
		}
		return x
	case []any:
		// a list of node-lists (history) or nodes (lookups keep list order: deterministic in Go)
		out := []any{}
		for _, e := range x {
			out = append(out, CanonResult(e))
		}
		return out
	}
	return v
}

func Equal(a, b any) bool { return js(pruneEmpty(a)) == js(pruneEmpty(b)) }

// pruneEmpty drops members whose value is an empty list or an empty object, at every depth: an
// absent and an empty repeated field or map are the same content (the shrinker produces such shapes
// when it empties a list, and canonical results never carry them).
func pruneEmpty(v any) any {
	switch x := v.(type) {
	case M:
		out := M{}
		for k, e := range x {
			p := pruneEmpty(e)
			switch y := p.(type) {
			case []any:
				if len(y) == 0 {
					continue
				}
			case M:
				if len(y) == 0 {
					continue
				}
			}
			out[k] = p
		}
		return out
	case []any:
		out := make([]any, 0, len(x))
		for _, e := range x {
			out = append(out, pruneEmpty(e))
		}
		return out
	}
	return v
}

// unused import guard
var _ = time.Now

// CanonOp sorts the entries of map-valued attributes inside an operation's operands (node order
// and everything else is kept), so that oracles can compare attribute values structurally.
func CanonOp(op M) M {
	out := M{}
	for k, v := range op {
		switch x := v.(type) {
		case M:
			if ns, ok := x["nodes"]; ok {
				nl := M{}
				for kk, vv := range x {
					nl[kk] = vv
				}
				l := []any{}
				for _, n := range asList(ns) {
					l = append(l, CanonNode(n))
				}
				nl["nodes"] = l
				out[k] = nl
				continue
			}
			if _, ok := x["id"]; ok {
				out[k] = CanonNode(x)
				continue
			}
		}
		if l, ok := v.([]any); ok && k == "regs" {
			nl := []any{}
			for _, r := range l {
				nl = append(nl, CanonOp(M{"x": r})["x"])
			}
			out[k] = nl
			continue
		}
		out[k] = v
	}
	return out
}
