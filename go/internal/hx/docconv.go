package hx

import (
	"strings"

	"github.com/protobom/protobom/pkg/sbom"
	"google.golang.org/protobuf/types/known/timestamppb"
)

// Document <-> JSON: {"meta": {...} | null, "nl": NL | null}

func strPtr(v any) *string {
	if v == nil {
		return nil
	}
	s := asStr(v)
	return &s
}

func DocOf(v any) *sbom.Document {
	m := v.(M)
	d := &sbom.Document{}
	if mv, ok := m["meta"].(M); ok {
		md := &sbom.Metadata{Id: asStr(mv["id"]), Version: asStr(mv["version"]), Name: asStr(mv["name"]), Comment: asStr(mv["comment"])}
		if dt, ok := mv["date"]; ok && dt != nil {
			l := asList(dt)
			md.Date = &timestamppb.Timestamp{Seconds: asInt(l[0]), Nanos: int32(asInt(l[1]))}
		}
		for _, t := range asList(mv["tools"]) {
			tm := t.(M)
			md.Tools = append(md.Tools, &sbom.Tool{Name: asStr(tm["n"]), Version: asStr(tm["v"]), Vendor: asStr(tm["vendor"])})
		}
		for _, a := range asList(mv["authors"]) {
			md.Authors = append(md.Authors, PersonOf(a))
		}
		for _, t := range asList(mv["types"]) {
			tm := t.(M)
			dt := &sbom.DocumentType{Name: strPtr(tm["n"]), Description: strPtr(tm["d"])}
			if tv, ok := tm["t"]; ok && tv != nil {
				e := sbom.DocumentType_SBOMType(asInt(tv))
				dt.Type = &e
			}
			md.DocumentTypes = append(md.DocumentTypes, dt)
		}
		d.Metadata = md
	}
	if nv, ok := m["nl"].(M); ok {
		d.NodeList = NLOf(nv)
	}
	return d
}

func DocJ(d *sbom.Document) any {
	if d == nil {
		return "nil"
	}
	out := M{"meta": nil, "nl": nil}
	if md := d.Metadata; md != nil {
		tools, authors, types := []any{}, []any{}, []any{}
		for _, t := range md.Tools {
			tm := M{"n": t.Name}
			if t.Version != "" {
				tm["v"] = t.Version
			}
			if t.Vendor != "" {
				tm["vendor"] = t.Vendor
			}
			tools = append(tools, tm)
		}
		for _, a := range md.Authors {
			authors = append(authors, PersonJ(a))
		}
		for _, t := range md.DocumentTypes {
			tm := M{}
			if t.Type != nil {
				tm["t"] = float64(*t.Type)
			}
			if t.Name != nil {
				tm["n"] = *t.Name
			}
			if t.Description != nil {
				tm["d"] = *t.Description
			}
			types = append(types, tm)
		}
		out["meta"] = M{"id": md.Id, "version": md.Version, "name": md.Name, "comment": md.Comment,
			"tools": tools, "authors": authors, "types": types}
	}
	if d.NodeList != nil {
		out["nl"] = NLJ(d.NodeList)
	}
	return out
}

// CanonDoc canonicalises a document result: node list as a multiset, the generated tool entry
// `protobom-<version>` without its version, dates of the document itself dropped.
func CanonDoc(v any) any {
	v = Normalize(v)
	m, ok := v.(M)
	if !ok {
		if l, isL := v.([]any); isL {
			out := []any{}
			for _, e := range l {
				out = append(out, CanonDoc(e))
			}
			return out
		}
		return v
	}
	if _, has := m["nl"]; !has {
		return v
	}
	out := M{"meta": m["meta"], "nl": m["nl"]}
	if nl, ok := m["nl"].(M); ok {
		out["nl"] = CanonNL(M{"nodes": canonNodes(asList(nl["nodes"])), "edges": nl["edges"], "roots": nl["roots"]})
	}
	if md, ok := m["meta"].(M); ok {
		nm := M{}
		for k, x := range md {
			nm[k] = x
		}
		tools := []any{}
		for _, t := range asList(md["tools"]) {
			tm := t.(M)
			if strings.HasPrefix(asStr(tm["n"]), "protobom-") || asStr(tm["n"]) == "protobom" {
				tools = append(tools, M{"n": "protobom"})
			} else {
				tools = append(tools, tm)
			}
		}
		nm["tools"] = tools
		out["meta"] = nm
	}
	return out
}
