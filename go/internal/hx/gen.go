package hx

import (
	"fmt"
	"math/rand"
)

// G wraps the single PRNG every random choice derives from.
type G struct {
	R *rand.Rand
}

func NewG(seed int64) *G { return &G{R: rand.New(rand.NewSource(seed))} }

func (g *G) Chance(p float64) bool { return g.R.Float64() < p }
func (g *G) Int(n int) int {
	if n <= 0 {
		return 0
	}
	return g.R.Intn(n)
}
func (g *G) Pick(l []string) string { return l[g.R.Intn(len(l))] }

var idPoolAll = []string{"a", "b", "c", "d", "e", "f", "n+++1", "é", "pkg-1.0", "x y", "a1", "a11", "a+", "a++",
	// identifiers that differ from another one only in letter case
	"A", "PKG-1.0"}
var strPool = []string{"x", "y", "v1", "é:+", "(c) 2024", "Apache-2.0", "a b",
	// text that is not empty but blank, and text that differs from another entry only in case
	" ", "\t \n", "X", ""}
var purlPool = []string{"pkg:npm/a@1", "pkg:npm/b@2", "pkg:deb/debian/c@3", "pkg:/npm/d@4", "pkg:golang/e",
	// types that are textual prefixes of one another, and a name equal to a type
	"pkg:go/f@1", "pkg:gem/g", "pkg:gemfury/h", "pkg:generic/npm",
	// types with characters the purl grammar allows and pattern languages give a meaning to
	"pkg:c++/boost@1", "pkg:n.m/x", "pkg:cc/y", "pkg:/c++/fmt"}
var hashVals = []string{"aa", "bb", "cc", "AA", "aB", ""}
var EdgeTypes = []int{5, 10, 0, 1, 44, 77}

func (g *G) Person(depth int) M {
	m := M{"n": g.Pick([]string{"ACME", "Bob", "", "Org (x)"}), "o": g.Chance(0.5)}
	if g.Chance(0.3) {
		m["e"] = g.Pick([]string{"a@b.c", "x@y", "x@y ", " "})
	}
	if g.Chance(0.2) {
		m["u"] = g.Pick([]string{"http://u", "http://u", "\thttp://u"})
	}
	if g.Chance(0.2) {
		m["p"] = g.Pick([]string{"123", "123", "123\u00a0"})
	}
	if depth > 0 && g.Chance(0.3) {
		cs := []any{}
		for i := 0; i <= g.Int(2); i++ {
			cs = append(cs, g.Person(depth-1))
		}
		if g.Chance(0.3) {
			cs = append(cs, Normalize(cs[len(cs)-1])) // the same contact listed twice in a row
		}
		m["c"] = cs
	}
	return m
}

func (g *G) Ref() M {
	m := M{"t": float64(g.Pick2([]int{0, 4, 21, 31, 41, 56, 99}))}
	if g.Chance(0.8) {
		m["u"] = g.Pick([]string{"http://a", "http://b", "git+https://c"})
	}
	if g.Chance(0.3) {
		m["c"] = g.Pick(strPool[:6])
	}
	if g.Chance(0.2) {
		m["a"] = "auth"
	}
	if g.Chance(0.3) {
		m["h"] = g.Pairs([]int{1, 2, 3}, hashVals[:3])
	}
	return m
}

func (g *G) Pick2(l []int) int { return l[g.R.Intn(len(l))] }

func (g *G) Pairs(keys []int, vals []string) []any {
	out := []any{}
	for _, k := range keys {
		if g.Chance(0.5) {
			out = append(out, []any{float64(k), g.Pick(vals)})
		}
	}
	if len(out) == 0 {
		out = append(out, []any{float64(keys[0]), g.Pick(vals)})
	}
	return out
}

// AttrValue draws a non-empty value for an attribute of the given kind.
func (g *G) AttrValue(f AttrField) any {
	switch f.Kind {
	case "str":
		return g.Pick(strPool[:len(strPool)-1])
	case "strs":
		l := []any{}
		for i := 0; i <= g.Int(2); i++ {
			l = append(l, g.Pick(strPool[:len(strPool)-1]))
		}
		if len(l) >= 2 && g.Chance(0.25) {
			l = append(l, l[0]) // a repeated entry, not adjacent to its twin
		}
		return l
	case "enums":
		l := []any{}
		for i := 0; i <= g.Int(2); i++ {
			l = append(l, float64(g.Pick2([]int{1, 5, 12, 16, 22, 99})))
		}
		return l
	case "imap":
		if f.GoName == "Identifiers" {
			out := []any{}
			if g.Chance(0.7) {
				out = append(out, []any{float64(1), g.Pick(purlPool)})
			}
			if g.Chance(0.3) {
				out = append(out, []any{float64(3), "cpe:2.3:a:x"})
				if g.Chance(0.4) {
					out = append(out, []any{float64(2), "cpe:/a:x"}) // both CPE kinds on one node
				}
			}
			if len(out) == 0 || g.Chance(0.1) {
				out = append(out, []any{float64(g.Pick2([]int{0, 2, 4, 9})), "v"})
			}
			return mapToPairs(pairsToMap(out)) // one entry per key, as in a map
		}
		return g.Pairs([]int{1, 2, 3}, hashVals)
	case "date":
		if g.Chance(0.08) {
			// the epoch second itself: an absent date must not be mistaken for it
			return []any{float64(0), float64(g.Pick2([]int{0, 500000000}))}
		}
		if g.Chance(0.06) {
			// 0001-01-01T00:00:00Z, the lowest valid timestamp and Go's zero time: a present date all the same
			return []any{float64(-62135596800), 0.0}
		}
		return []any{float64(1700000000 + g.Int(5)*86400), float64(g.Pick2([]int{0, 0, 500}))}
	case "persons":
		l := []any{}
		for i := 0; i <= g.Int(2); i++ {
			l = append(l, g.Person(g.Pick2([]int{1, 1, 2, 3})))
		}
		return l
	case "refs":
		l := []any{}
		for i := 0; i <= g.Int(2); i++ {
			l = append(l, g.Ref())
		}
		if g.Chance(0.2) {
			twin := Normalize(l[0]).(M)
			twin["c"] = "another comment"
			l = append(l, twin) // same type and URL as the first, different comment
		}
		return l
	}
	return nil
}

// Node draws a node; every attribute is present with probability p.
func (g *G) Node(id string, p float64) M {
	attrs := M{}
	for _, f := range NodeAttrs {
		if g.Chance(p) {
			attrs[f.GoName] = g.AttrValue(f)
		}
	}
	ty := 0.0
	if g.Chance(0.2) {
		ty = 1
	}
	return M{"id": id, "type": ty, "a": attrs}
}

type NLOpts struct {
	Pool     []string // identifier pool
	MaxNodes int
	MaxEdges int
	WF       bool    // unique ids, closed edges and roots
	AttrP    float64 // probability of each attribute
}

func (g *G) Pool(n int) []string {
	perm := g.R.Perm(len(idPoolAll))
	out := []string{}
	for i := 0; i < n && i < len(perm); i++ {
		out = append(out, idPoolAll[perm[i]])
	}
	return out
}

func (g *G) NodeList(o NLOpts) M {
	nodes := []any{}
	present := []string{}
	n := g.Int(o.MaxNodes + 1)
	for i := 0; i < n; i++ {
		id := g.Pick(o.Pool)
		dup := false
		for _, p := range present {
			if p == id {
				dup = true
			}
		}
		if dup && (o.WF || !g.Chance(0.3)) {
			continue
		}
		if !o.WF && g.Chance(0.03) {
			id = ""
		}
		present = append(present, id)
		nodes = append(nodes, g.Node(id, o.AttrP))
	}
	endpoint := func() string {
		if o.WF {
			return g.Pick(present)
		}
		if g.Chance(0.12) {
			return "z" // dangling
		}
		if g.Chance(0.02) {
			return ""
		}
		return g.Pick(o.Pool)
	}
	edges := []any{}
	if len(present) > 0 || !o.WF {
		ne := g.Int(o.MaxEdges + 1)
		for i := 0; i < ne; i++ {
			tos := []any{}
			nt := 1 + g.Int(3)
			if !o.WF && g.Chance(0.1) {
				nt = 0
			}
			for k := 0; k < nt; k++ {
				tos = append(tos, endpoint())
			}
			edges = append(edges, M{"ty": float64(EdgeTypes[g.Int(3+g.Int(4))]), "src": endpoint(), "tos": tos})
		}
	}
	roots := []any{}
	if len(present) > 0 || !o.WF {
		nr := g.Int(5)
		for i := 0; i < nr; i++ {
			r := endpoint()
			dup := false
			for _, x := range roots {
				if x == r {
					dup = true
				}
			}
			if dup && (o.WF || g.Chance(0.7)) {
				continue
			}
			roots = append(roots, r)
		}
	}
	return M{"nodes": nodes, "edges": edges, "roots": roots}
}

func (g *G) Opts(wf bool) NLOpts {
	return NLOpts{Pool: g.Pool(2 + g.Int(5)), MaxNodes: 1 + g.Int(7), MaxEdges: g.Int(8), WF: wf, AttrP: []float64{0, 0.15, 0.35, 0.6}[g.Int(4)]}
}

func fmtID(i int) string { return fmt.Sprintf("n%d", i) }
