package hx

import (
	"errors"
	"fmt"

	"github.com/protobom/protobom/pkg/sbom"
)

// ExecNL runs one node-list operation on the real code and returns the result as a JSON value.
// Panics are recovered and reported as the string "panic: ...".
func ExecNL(op M) (res any) {
	converted := false
	defer func() {
		if r := recover(); r != nil {
			if !converted {
				res = "unknown-op" // malformed operation (only the shrinker produces these)
				return
			}
			res = fmt.Sprintf("panic: %v", r)
		}
	}()
	name := asStr(op["op"])
	var a, b, c *sbom.NodeList
	var pn, pm *sbom.Node
	if v, ok := op["a"]; ok {
		a = NLOf(v)
	}
	if v, ok := op["b"]; ok {
		b = NLOf(v)
	}
	if v, ok := op["c"]; ok {
		c = NLOf(v)
	}
	if v, ok := op["n"]; ok {
		pn = NodeOf(v)
	}
	if v, ok := op["m"]; ok {
		pm = NodeOf(v)
	}
	ids := []string{}
	for _, s := range asList(op["ids"]) {
		ids = append(ids, asStr(s))
	}
	at, id, depth, ty := asStr(op["at"]), asStr(op["id"]), 0, sbom.Edge_Type(0)
	if v, ok := op["depth"]; ok {
		depth = int(asInt(v))
	}
	if v, ok := op["ty"]; ok {
		ty = sbom.Edge_Type(asInt(v))
	}
	if op["intern"] == true {
		for _, l := range []*sbom.NodeList{a, b} {
			if l != nil {
				for _, nd := range l.Nodes {
					if nd != nil {
						internPersons(nd)
					}
				}
			}
		}
	}
	need := map[string][]any{"cleanEdges": {a}, "union": {a, b}, "union3": {a, b, c}, "intersect": {a, b}, "add": {a, b},
		"removeNodes": {a}, "relateNode": {a, pn}, "relateList": {a, b}, "nodeGraph": {a}, "nodeSiblings": {a},
		"nodeDescendants": {a}, "purlType": {a}, "byName": {a}, "byID": {a}, "byIdent": {a}, "rootNodes": {a},
		"match": {a, pn}, "update": {pn, pm}, "augment": {pn, pm}, "addBack": {a}}
	for _, v := range need[name] {
		switch x := v.(type) {
		case *sbom.NodeList:
			if x == nil {
				return "unknown-op"
			}
		case *sbom.Node:
			if x == nil {
				return "unknown-op"
			}
		}
	}
	converted = true
	if op["alloc"] == true {
		// the shapes the library itself produces: Copy() gives every repeated field and map an
		// allocated, empty value where the JSON conversion leaves nil
		if a != nil {
			a = a.Copy()
		}
		if b != nil {
			b = b.Copy()
		}
		if c != nil {
			c = c.Copy()
		}
		if pn != nil {
			pn = pn.Copy()
		}
		if pm != nil {
			pm = pm.Copy()
		}
	}
	switch name {
	case "addBack":
		// a fragment taken from the list (it holds the list's own node objects) is added back to it
		var frag *sbom.NodeList
		how := 4
		if h, ok := op["how"].(float64); ok {
			how = int(h)
		}
		switch how {
		case 0:
			frag = a.NodeGraph(id)
		case 1:
			frag = a.NodeSiblings(id)
		case 2:
			frag = a.NodeDescendants(id, 3)
		case 3:
			frag = a.GetNodesByPurlType(asStr(op["t"]))
		default:
			frag = a
		}
		if frag == nil {
			return "nil"
		}
		a.Add(frag)
		return NLJ(a)
	case "cleanEdges":
		sbom.VerifCleanEdges(a)
		return NLJ(a)
	case "union":
		return NLJ(a.Union(b))
	case "union3":
		return []any{NLJ(a.Union(b).Union(c)), NLJ(a.Union(b.Union(c)))}
	case "intersect":
		return NLJ(a.Intersect(b))
	case "add":
		a.Add(b)
		return NLJ(a)
	case "removeNodes":
		a.RemoveNodes(ids)
		return NLJ(a)
	case "relateNode":
		if err := a.RelateNodeAtID(pn, at, ty); err != nil {
			return "err"
		}
		return NLJ(a)
	case "relateList":
		if err := a.RelateNodeListAtID(b, at, ty); err != nil {
			return "err"
		}
		return NLJ(a)
	case "nodeGraph":
		return NLJ(a.NodeGraph(id))
	case "nodeSiblings":
		return NLJ(a.NodeSiblings(id))
	case "nodeDescendants":
		return NLJ(a.NodeDescendants(id, depth))
	case "purlType":
		return NLJ(a.GetNodesByPurlType(asStr(op["t"])))
	case "byName", "byID", "byIdent", "rootNodes":
		// asked twice on the same list object: a lookup is a question, and the second answer is the
		// first (a lookup that rearranges the list it searches shows here and in every later lookup)
		look := func() any {
			switch asStr(op["op"]) {
			case "byName":
				return NodesJ(a.GetNodesByName(asStr(op["name"])))
			case "byID":
				n := a.GetNodeByID(id)
				if n == nil {
					return "nil"
				}
				return NodeJ(n)
			case "byIdent":
				// the model receives the resolved enum number; the real call gets a type string
				return NodesJ(a.GetNodesByIdentifier(asStr(op["tstr"]), asStr(op["v"])))
			}
			return NodesJ(a.GetRootNodes())
		}
		first := look()
		if second := look(); !Equal(first, second) {
			return M{"lookupTwice": []any{first, second}}
		}
		return first
	case "match":
		if k, ok := op["member"]; ok {
			// the probe is the list's own node object (a caller matching a list against itself), not a
			// separate object with the same content
			if i := int(asInt(k)); i >= 0 && i < len(a.Nodes) && Equal(NodeJ(a.Nodes[i]), NodeJ(pn)) {
				pn = a.Nodes[i]
			}
		}
		n, err := a.GetMatchingNode(pn)
		if err != nil {
			if errors.Is(err, sbom.ErrorMoreThanOneMatch) {
				return "ambiguous"
			}
			return "err"
		}
		if n == nil {
			return "nil"
		}
		return NodeJ(n)
	case "update":
		pn.Update(pm)
		return NodeJ(pn)
	case "augment":
		pn.Augment(pm)
		return NodeJ(pn)
	}
	return "unknown-op"
}
