package hx

import (
	"bytes"
	"encoding/json"
	"fmt"
	"strings"
)

// An order- and duplicate-preserving JSON tree, for fault injection at every JSON path.

type JT struct {
	Kind    byte // o a s n t(rue) f(alse) z(null)
	Keys    []string
	Kids    []*JT
	Scalar  string // string content or number text
	RawText string // when set, written verbatim (oversized / hand-made fragments)
}

func ParseJT(b []byte) (*JT, error) {
	dec := json.NewDecoder(bytes.NewReader(b))
	dec.UseNumber()
	t, err := parseJT(dec)
	if err != nil {
		return nil, err
	}
	return t, nil
}

func parseJT(dec *json.Decoder) (*JT, error) {
	tok, err := dec.Token()
	if err != nil {
		return nil, err
	}
	switch v := tok.(type) {
	case json.Delim:
		switch v {
		case '{':
			n := &JT{Kind: 'o'}
			for dec.More() {
				kt, err := dec.Token()
				if err != nil {
					return nil, err
				}
				k, _ := kt.(string)
				c, err := parseJT(dec)
				if err != nil {
					return nil, err
				}
				n.Keys = append(n.Keys, k)
				n.Kids = append(n.Kids, c)
			}
			_, err := dec.Token()
			return n, err
		case '[':
			n := &JT{Kind: 'a'}
			for dec.More() {
				c, err := parseJT(dec)
				if err != nil {
					return nil, err
				}
				n.Kids = append(n.Kids, c)
			}
			_, err := dec.Token()
			return n, err
		}
		return nil, fmt.Errorf("unexpected delimiter")
	case string:
		return &JT{Kind: 's', Scalar: v}, nil
	case json.Number:
		return &JT{Kind: 'n', Scalar: v.String()}, nil
	case bool:
		if v {
			return &JT{Kind: 't'}, nil
		}
		return &JT{Kind: 'f'}, nil
	case nil:
		return &JT{Kind: 'z'}, nil
	}
	return nil, fmt.Errorf("unexpected token")
}

func (t *JT) Write(b *bytes.Buffer) {
	if t.RawText != "" {
		b.WriteString(t.RawText)
		return
	}
	switch t.Kind {
	case 'o':
		b.WriteByte('{')
		for i, k := range t.Keys {
			if i > 0 {
				b.WriteByte(',')
			}
			kb, _ := json.Marshal(k)
			b.Write(kb)
			b.WriteByte(':')
			t.Kids[i].Write(b)
		}
		b.WriteByte('}')
	case 'a':
		b.WriteByte('[')
		for i, c := range t.Kids {
			if i > 0 {
				b.WriteByte(',')
			}
			c.Write(b)
		}
		b.WriteByte(']')
	case 's':
		sb, _ := json.Marshal(t.Scalar)
		b.Write(sb)
	case 'n':
		b.WriteString(t.Scalar)
	case 't':
		b.WriteString("true")
	case 'f':
		b.WriteString("false")
	default:
		b.WriteString("null")
	}
}

func (t *JT) Bytes() []byte {
	var b bytes.Buffer
	t.Write(&b)
	return b.Bytes()
}

func (t *JT) Clone() *JT {
	c := &JT{Kind: t.Kind, Scalar: t.Scalar, RawText: t.RawText}
	c.Keys = append([]string{}, t.Keys...)
	for _, k := range t.Kids {
		c.Kids = append(c.Kids, k.Clone())
	}
	return c
}

// JPath addresses a value: indices into Kids from the root.
type JPath []int

func (t *JT) Paths() []JPath {
	var out []JPath
	var walk func(n *JT, p JPath)
	walk = func(n *JT, p JPath) {
		out = append(out, append(JPath{}, p...))
		for i, c := range n.Kids {
			walk(c, append(p, i))
		}
	}
	walk(t, JPath{})
	return out
}

func (t *JT) At(p JPath) *JT {
	n := t
	for _, i := range p {
		n = n.Kids[i]
	}
	return n
}

func (t *JT) PathString(p JPath) string {
	var sb strings.Builder
	n := t
	for _, i := range p {
		if n.Kind == 'o' {
			sb.WriteString("/" + n.Keys[i])
		} else {
			fmt.Fprintf(&sb, "/%d", i)
		}
		n = n.Kids[i]
	}
	if sb.Len() == 0 {
		return "/"
	}
	return sb.String()
}

// FaultKinds lists the schema faults applied at a path.
var FaultKinds = []string{"null", "number", "string", "object", "array", "bool", "empty", "absent", "duplicate", "oversize", "deep", "freetext", "spaced", "padded", "blank", "punct", "wide"}

// ApplyFault returns a copy of t with the fault applied at p, or nil when it does not apply there.
func (t *JT) ApplyFault(p JPath, kind string) *JT {
	c := t.Clone()
	if len(p) == 0 {
		switch kind {
		case "null":
			return &JT{Kind: 'z'}
		case "array":
			return &JT{Kind: 'a', Kids: []*JT{c}}
		case "empty":
			return &JT{Kind: 'o'}
		case "string":
			return &JT{Kind: 's', Scalar: "x"}
		case "number":
			return &JT{Kind: 'n', Scalar: "7"}
		}
		return nil
	}
	par := c.At(p[:len(p)-1])
	i := p[len(p)-1]
	cur := par.Kids[i]
	set := func(n *JT) *JT { par.Kids[i] = n; return c }
	switch kind {
	case "null":
		if cur.Kind == 'z' {
			return nil
		}
		return set(&JT{Kind: 'z'})
	case "number":
		if cur.Kind == 'n' {
			return set(&JT{Kind: 'n', Scalar: "-1e400"})
		}
		return set(&JT{Kind: 'n', Scalar: "7"})
	case "string":
		if cur.Kind == 's' {
			return nil
		}
		return set(&JT{Kind: 's', Scalar: "x"})
	case "object":
		if cur.Kind == 'o' {
			return nil
		}
		return set(&JT{Kind: 'o', Keys: []string{"x"}, Kids: []*JT{{Kind: 'z'}}})
	case "array":
		if cur.Kind == 'a' {
			return set(&JT{Kind: 'a', Kids: []*JT{cur, {Kind: 'z'}}}) // nested array with a null
		}
		return set(&JT{Kind: 'a', Kids: []*JT{cur}})
	case "bool":
		if cur.Kind == 't' {
			return nil
		}
		return set(&JT{Kind: 't'})
	case "empty":
		switch cur.Kind {
		case 's':
			if cur.Scalar == "" {
				return nil
			}
			return set(&JT{Kind: 's'})
		case 'a':
			if len(cur.Kids) == 0 {
				return nil
			}
			return set(&JT{Kind: 'a'})
		case 'o':
			if len(cur.Kids) == 0 {
				return nil
			}
			return set(&JT{Kind: 'o'})
		}
		return nil
	case "absent":
		par.Kids = append(par.Kids[:i:i], par.Kids[i+1:]...)
		if par.Kind == 'o' {
			par.Keys = append(par.Keys[:i:i], par.Keys[i+1:]...)
		}
		return c
	case "duplicate":
		// the member / element again; for arrays also a null element in front
		if par.Kind == 'o' {
			par.Keys = append(par.Keys, par.Keys[i])
			par.Kids = append(par.Kids, cur.Clone())
			return c
		}
		par.Kids = append([]*JT{{Kind: 'z'}}, append(par.Kids, cur.Clone())...)
		return c
	case "oversize":
		switch cur.Kind {
		case 's':
			return set(&JT{Kind: 's', Scalar: strings.Repeat("A", 66000)})
		case 'a':
			if len(cur.Kids) == 0 {
				return nil
			}
			n := &JT{Kind: 'a'}
			for k := 0; k < 400; k++ {
				n.Kids = append(n.Kids, cur.Kids[k%len(cur.Kids)])
			}
			return set(n)
		}
		return nil
	case "deep":
		if cur.Kind != 'a' && cur.Kind != 'o' {
			return nil
		}
		return set(&JT{RawText: strings.Repeat("[", 3000) + strings.Repeat("]", 3000)})
	case "freetext":
		if cur.Kind != 's' {
			return nil
		}
		return set(&JT{Kind: 's', Scalar: "x"})
	case "spaced": // interior blanks: a date written the way people write dates, several words
		if cur.Kind != 's' {
			return nil
		}
		return set(&JT{Kind: 's', Scalar: "2023-11-06 12:29:21Z and  more"})
	case "padded":
		if cur.Kind != 's' {
			return nil
		}
		return set(&JT{Kind: 's', Scalar: "  " + cur.Scalar + "\t "})
	case "blank": // not empty, and nothing left once white space is trimmed
		if cur.Kind != 's' {
			return nil
		}
		return set(&JT{Kind: 's', Scalar: " \t "})
	case "punct": // nothing but the separators identifiers are assembled with
		if cur.Kind != 's' {
			return nil
		}
		return set(&JT{Kind: 's', Scalar: "#"})
	case "wide": // many bytes, few characters
		if cur.Kind != 's' {
			return nil
		}
		if len(cur.Scalar)%2 == 0 {
			return set(&JT{Kind: 's', Scalar: strings.Repeat("漢", 30)})
		}
		return set(&JT{Kind: 's', Scalar: strings.Repeat("é", 32) + "x"})
	}
	return nil
}
