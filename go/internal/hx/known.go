package hx

import (
	"encoding/json"
	"os"
	"strings"
)

// Known findings: genuine defects that are recorded rather than repaired. Each is a decidable
// predicate on cases (written here in Go, and as a Lean definition next to the `_partial` theorem)
// plus a witness that is replayed on every run.

type KnownFinding struct {
	ID        string `json:"id"`
	Property  string `json:"property"`
	Predicate string `json:"predicate"`
	Stream    string `json:"stream"`
	Witness   M      `json:"witness"`
	What      string `json:"what"`
}

type KnownFile struct {
	Known []KnownFinding `json:"known"`
	Fixed []string       `json:"fixed"`
}

func LoadKnown(path string) (*KnownFile, error) {
	kf := &KnownFile{}
	if path == "" {
		return kf, nil
	}
	b, err := os.ReadFile(path)
	if err != nil {
		return nil, err
	}
	if err := json.Unmarshal(b, kf); err != nil {
		return nil, err
	}
	return kf, nil
}

// edgesClosed: every edge endpoint of the node list names one of its own nodes.
func edgesClosed(v any) bool {
	m, ok := v.(M)
	if !ok {
		return true
	}
	w := View(m)
	for _, e := range asList(m["edges"]) {
		em := e.(M)
		if len(asList(em["tos"])) > 0 && !w.IDSet[asStr(em["src"])] {
			return false
		}
		for _, t := range asList(em["tos"]) {
			if !w.IDSet[asStr(t)] {
				return false
			}
		}
	}
	return true
}

// KnownPredicates: name -> does the predicate cover this case?
var KnownPredicates = map[string]func(c *Case) bool{
	// C09: associativity with an operand that has a dangling edge (see DESIGN.md section 5)
	"union_assoc_dangling_edge": func(c *Case) bool {
		if asStr(c.Op["op"]) != "union3" {
			return false
		}
		return !(edgesClosed(c.Op["a"]) && edgesClosed(c.Op["b"]) && edgesClosed(c.Op["c"]))
	},
}

func init() {
	// C13: flattened strings are not injective when values contain separators or a hash map has
	// several entries; only "differ but compare equal" reports are covered.
	KnownPredicates["flat_separator_collision"] = func(c *Case) bool {
		if c.Kind != "oracle" || !FormatCollision(c.Op) {
			return false
		}
		for _, m := range c.Messages {
			if !(len(m) > 0 && (m == "nodes that differ in an attribute compare equal" || m == "edges that differ compare equal" ||
				m == "node lists that differ compare equal" || m == "(not minimised)")) {
				return false
			}
		}
		return true
	}
}

func init() {
	// C05: a component whose explicit bom-ref has the shape of a generated identifier
	KnownPredicates["cdx_reserved_ref"] = func(c *Case) bool {
		if c.Kind != "oracle" || asStr(c.Op["op"]) != "cdxUnser" {
			return false
		}
		for _, m := range c.Messages {
			if m != "(not minimised)" && !strings.HasPrefix(m, "a component whose explicit reference equals a generated identifier") {
				return false
			}
		}
		return true
	}
}

func init() {
	// C02: the CycloneDX parser keeps only the first usable licence entry
	KnownPredicates["cdx_license_truncation"] = func(c *Case) bool {
		if c.Kind != "oracle" || asStr(c.Op["op"]) != "cdxRT" {
			return false
		}
		for _, m := range c.Messages {
			// both messages name the node: "licence list of node X: wrote.., read.." and
			// "licence list of node X was truncated, so a second pass changes its concluded-licence text"
			if m != "(not minimised)" && !strings.HasPrefix(m, "licence list of node") {
				return false
			}
		}
		// and the written list really had two or more entries somewhere
		doc, _ := c.Op["doc"].(M)
		nl, _ := doc["nl"].(M)
		for _, n := range asList(nl["nodes"]) {
			if len(asList(attrOf(n.(M), "Licenses"))) >= 2 {
				return true
			}
		}
		return false
	}
}

func init() {
	// C03: a contains-edge whose target is the document's root cannot be written as nesting,
	// because the root is the metadata component
	KnownPredicates["cdx_root_contained"] = func(c *Case) bool {
		if c.Kind != "oracle" {
			return false
		}
		doc, _ := c.Op["doc"].(M)
		nl, _ := doc["nl"].(M)
		roots := asList(nl["roots"])
		if len(roots) == 0 {
			return false
		}
		root := asStr(roots[0])
		seen := false
		for _, m := range c.Messages {
			if m == "(not minimised)" {
				continue
			}
			if !(strings.HasPrefix(m, "containment ") && strings.HasSuffix(m, " -> "+root+" is not expressed in the CycloneDX output")) {
				return false
			}
			seen = true
		}
		return seen
	}
}

func init() {
	// C04: the concluded-licence string of a CycloneDX component doubles with every licence entry
	KnownPredicates["cdx_license_expression_blowup"] = func(c *Case) bool {
		if c.Kind != "oracle" {
			return false
		}
		seen := false
		for _, m := range c.Messages {
			if m == "(not minimised)" {
				continue
			}
			if !strings.HasPrefix(m, "licence expression grows exponentially") {
				return false
			}
			seen = true
		}
		return seen
	}
}

func init() {
	// C05: tools-golang reads SPDX element identifiers from the raw JSON token without unescaping
	KnownPredicates["spdx_escaped_identifiers"] = func(c *Case) bool {
		if c.Kind != "oracle" || asStr(c.Op["op"]) != "layouts" {
			return false
		}
		in, _ := c.Op["in"].(M)
		if strings.Contains(asStr(in["src"]), "cdx") {
			return false
		}
		seen := false
		for _, m := range c.Messages {
			if m == "(not minimised)" {
				continue
			}
			if !strings.HasPrefix(m, "layout / repetition / explicit format changes the parse: re-encoding 4: err") {
				return false
			}
			seen = true
		}
		return seen
	}
}

// Covered returns the id of the first known finding whose predicate covers the case.
func (kf *KnownFile) Covered(c *Case) string {
	for _, k := range kf.Known {
		if k.Property != c.Property {
			continue
		}
		if p, ok := KnownPredicates[k.Predicate]; ok && p(c) {
			return k.ID
		}
	}
	return ""
}
