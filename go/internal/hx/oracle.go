package hx

import (
	"fmt"
	"sort"
	"strings"
)

// Oracles: the property statements written directly against the observable results of the real
// API (JSON form). They are the *search for a failing input*, never the proof.

type NLView struct {
	IDs   []string
	IDSet map[string]bool
	Roots map[string]bool
	HE    map[[3]string]bool // (src, ty, dst)
	Nodes map[string][]M
	raw   M
}

func View(v any) *NLView {
	m := v.(M)
	w := &NLView{IDSet: map[string]bool{}, Roots: map[string]bool{}, HE: map[[3]string]bool{}, Nodes: map[string][]M{}, raw: m}
	for _, n := range asList(m["nodes"]) {
		nm := n.(M)
		id := asStr(nm["id"])
		w.IDs = append(w.IDs, id)
		w.IDSet[id] = true
		w.Nodes[id] = append(w.Nodes[id], nm)
	}
	for _, r := range asList(m["roots"]) {
		w.Roots[asStr(r)] = true
	}
	for _, e := range asList(m["edges"]) {
		em := e.(M)
		for _, t := range asList(em["tos"]) {
			w.HE[[3]string{asStr(em["src"]), fmt.Sprint(asInt(em["ty"])), asStr(t)}] = true
		}
	}
	return w
}

func (w *NLView) Nodup() bool { return len(w.IDs) == len(w.IDSet) }

// WF: unique ids; every edge endpoint and root names a present node.
func (w *NLView) WF() bool {
	if !w.Nodup() {
		return false
	}
	for k := range w.HE {
		if !w.IDSet[k[0]] || !w.IDSet[k[2]] {
			return false
		}
	}
	for _, e := range asList(w.raw["edges"]) {
		if !w.IDSet[asStr(e.(M)["src"])] {
			return false
		}
	}
	for r := range w.Roots {
		if !w.IDSet[r] {
			return false
		}
	}
	return true
}

// Normal: at most one edge per (source, type), no repeated targets.
func (w *NLView) Normal() bool {
	keys := map[string]bool{}
	for _, e := range asList(w.raw["edges"]) {
		em := e.(M)
		k := asStr(em["src"]) + "\x00" + fmt.Sprint(asInt(em["ty"]))
		if keys[k] {
			return false
		}
		keys[k] = true
		seen := map[string]bool{}
		for _, t := range asList(em["tos"]) {
			if seen[asStr(t)] {
				return false
			}
			seen[asStr(t)] = true
		}
	}
	return true
}

// HERestricted: the edge relation restricted to pairs of present identifiers.
func restrict(he map[[3]string]bool, ids map[string]bool) map[[3]string]bool {
	out := map[[3]string]bool{}
	for k := range he {
		if ids[k[0]] && ids[k[2]] {
			out[k] = true
		}
	}
	return out
}

func unionSet(a, b map[string]bool) map[string]bool {
	out := map[string]bool{}
	for k := range a {
		out[k] = true
	}
	for k := range b {
		out[k] = true
	}
	return out
}

func interSet(a, b map[string]bool) map[string]bool {
	out := map[string]bool{}
	for k := range a {
		if b[k] {
			out[k] = true
		}
	}
	return out
}

func unionHE(a, b map[[3]string]bool) map[[3]string]bool {
	out := map[[3]string]bool{}
	for k := range a {
		out[k] = true
	}
	for k := range b {
		out[k] = true
	}
	return out
}

func setEq(a, b map[string]bool) bool {
	if len(a) != len(b) {
		return false
	}
	for k := range a {
		if !b[k] {
			return false
		}
	}
	return true
}

func subset(a, b map[string]bool) bool {
	for k := range a {
		if !b[k] {
			return false
		}
	}
	return true
}

func heEq(a, b map[[3]string]bool) bool {
	if len(a) != len(b) {
		return false
	}
	for k := range a {
		if !b[k] {
			return false
		}
	}
	return true
}

func heSubset(a, b map[[3]string]bool) bool {
	for k := range a {
		if !b[k] {
			return false
		}
	}
	return true
}

func keysOf(m map[string]bool) []string {
	out := []string{}
	for k := range m {
		out = append(out, k)
	}
	sort.Strings(out)
	return out
}

// SetEquivalent: same id set, same root set, same edge relation restricted to present nodes.
func SetEquivalent(a, b *NLView) bool {
	return setEq(a.IDSet, b.IDSet) && setEq(a.Roots, b.Roots) &&
		heEq(restrict(a.HE, a.IDSet), restrict(b.HE, b.IDSet))
}

func attrOf(n M, f string) any {
	a, _ := n["a"].(M)
	v := a[f]
	switch x := v.(type) {
	case string:
		if x == "" {
			return nil
		}
	case []any:
		if len(x) == 0 {
			return nil
		}
	}
	return v
}

// attrEmpty: attribute absent from the JSON form means empty (only non-empty ones are emitted).
func attrEmpty(n M, f string) bool { return attrOf(n, f) == nil }

type Finding struct {
	Prop string
	Msg  string
}

func isNL(v any) bool {
	m, ok := v.(M)
	if !ok {
		return false
	}
	_, has := m["nodes"]
	return has
}

// OracleNL evaluates the property statements of C08, C09, C10, C15, C16 on one operation and
// the (normalised) result of the real code. `exec` lets an oracle make further real calls.
func OracleNL(op M, res any, exec func(M) any) []Finding {
	var out []Finding
	add := func(p, f string, a ...any) { out = append(out, Finding{p, fmt.Sprintf(f, a...)}) }
	if s, ok := res.(string); ok && strings.HasPrefix(s, "panic") {
		add("C08", "operation %v panicked: %s", op["op"], s)
		if n := asStr(op["op"]); n == "nodeGraph" || n == "nodeSiblings" || n == "nodeDescendants" {
			add("C15", "extraction panicked: %s", s)
		}
		return out
	}
	name := asStr(op["op"])
	if m, ok := res.(M); ok && m["lookupTwice"] != nil {
		l := asList(m["lookupTwice"])
		add("C16", "the same lookup (%s) on the same list returns %s the first time and %s the second: the list is no longer the one the caller built", name, js(l[0]), js(l[1]))
		return out
	}
	var a, b *NLView
	if v, ok := op["a"]; ok {
		a = View(v)
	}
	if v, ok := op["b"]; ok {
		b = View(v)
	}
	switch name {
	case "addBack":
		if !isNL(res) || !a.WF() {
			return out
		}
		r := View(res)
		if !r.WF() || !r.Normal() {
			add("C08", "a well-formed list is not well-formed and normalised after a fragment extracted from it was added back to it")
		}
		if len(r.IDs) != len(a.IDs) || !setEq(r.IDSet, a.IDSet) {
			add("C08", "adding a fragment of a list back to it changes its nodes: %v, before %v", r.IDs, a.IDs)
		}
		return out
	case "union", "add":
		if !isNL(res) {
			add("C09", "%s did not return a node list: %v", name, res)
			return out
		}
		r := View(res)
		ids := unionSet(a.IDSet, b.IDSet)
		if !setEq(r.IDSet, ids) {
			add("C09", "%s: node set %v is not the union %v", name, keysOf(r.IDSet), keysOf(ids))
		}
		if !setEq(r.Roots, unionSet(a.Roots, b.Roots)) {
			add("C09", "%s: root set %v is not the union of %v and %v", name, keysOf(r.Roots), keysOf(a.Roots), keysOf(b.Roots))
		}
		if !heEq(restrict(r.HE, r.IDSet), restrict(unionHE(a.HE, b.HE), ids)) || !heEq(r.HE, restrict(r.HE, r.IDSet)) {
			add("C09", "%s: edges are not the union of the operands' edges restricted to present nodes", name)
		}
		if a.WF() && b.WF() {
			if !r.WF() {
				add("C08", "%s of well-formed lists is not well-formed", name)
			}
			if !r.Normal() {
				add("C08", "%s of well-formed lists is not normalised", name)
			}
		}
		// attribute precedence on shared nodes (needs unique identifiers)
		if a.Nodup() && b.Nodup() && r.Nodup() {
			for id, rn := range r.Nodes {
				an, inA := a.Nodes[id]
				bn, inB := b.Nodes[id]
				for _, f := range NodeAttrs {
					var want any
					switch {
					case inA && inB && name == "union":
						want = attrOf(bn[0], f.GoName)
						if want == nil {
							want = attrOf(an[0], f.GoName)
						}
					case inA && inB && name == "add":
						want = attrOf(an[0], f.GoName)
						if want == nil {
							want = attrOf(bn[0], f.GoName)
						}
					case inA:
						want = attrOf(an[0], f.GoName)
					case inB:
						want = attrOf(bn[0], f.GoName)
					}
					if !Equal(want, attrOf(rn[0], f.GoName)) {
						add("C09", "%s: attribute %s of node %q is %s, expected %s", name, f.GoName, id, js(attrOf(rn[0], f.GoName)), js(want))
					}
				}
				// the kind of a shared node: what both say when they agree; the zero value (PACKAGE) of
				// the one that would win is "no value", so the other's kind stays
				if inA && inB {
					ta, tb, tr := asInt(an[0]["type"]), asInt(bn[0]["type"]), asInt(rn[0]["type"])
					wantT := ta
					if ta != tb {
						first, second := ta, tb // union: the second operand wins
						if name == "add" {
							first, second = tb, ta // add: the receiver keeps what it has
						}
						wantT = second
						if second == 0 {
							wantT = first
						}
					}
					if (ta == tb || (name == "union" && tb == 0) || (name == "add" && ta != 0)) && tr != wantT {
						add("C09", "%s: node %q is of kind %d in the result, the operands have %d and %d", name, id, tr, ta, tb)
					}
				}
			}
		}
		if name == "union" {
			// algebraic laws on the sets: commutative, idempotent, identity
			rev := exec(M{"op": "union", "a": op["b"], "b": op["a"]})
			if isNL(rev) && !SetEquivalent(r, View(rev)) {
				add("C09", "union is not commutative on node/root/edge sets")
			}
			idem := exec(M{"op": "union", "a": op["a"], "b": op["a"]})
			if isNL(idem) {
				iv := View(idem)
				if !setEq(iv.IDSet, a.IDSet) || !setEq(iv.Roots, a.Roots) || !heEq(restrict(iv.HE, iv.IDSet), restrict(a.HE, a.IDSet)) {
					add("C09", "union is not idempotent on node/root/edge sets")
				}
			}
			empty := M{"nodes": []any{}, "edges": []any{}, "roots": []any{}}
			for _, o := range []M{{"op": "union", "a": op["a"], "b": empty}, {"op": "union", "a": empty, "b": op["a"]}} {
				idr := exec(o)
				if isNL(idr) {
					iv := View(idr)
					if !setEq(iv.IDSet, a.IDSet) || !setEq(iv.Roots, a.Roots) || !heEq(restrict(iv.HE, iv.IDSet), restrict(a.HE, a.IDSet)) {
						add("C09", "the empty list is not an identity of union")
					}
				}
			}
		}
	case "union3":
		l, ok := res.([]any)
		if !ok || len(l) != 2 || !isNL(l[0]) || !isNL(l[1]) {
			add("C09", "union3 result malformed: %v", res)
			return out
		}
		if !SetEquivalent(View(l[0]), View(l[1])) {
			add("C09", "union is not associative on node/root/edge sets")
		}
	case "intersect":
		if !isNL(res) {
			add("C10", "intersect did not return a node list: %v", res)
			return out
		}
		r := View(res)
		ids := interSet(a.IDSet, b.IDSet)
		if !setEq(r.IDSet, ids) {
			add("C10", "intersect: node set %v is not the intersection %v", keysOf(r.IDSet), keysOf(ids))
		}
		if len(r.IDs) != len(r.IDSet) {
			add("C10", "intersect: a shared node appears more than once")
		}
		if !subset(r.Roots, interSet(unionSet(a.Roots, b.Roots), ids)) {
			add("C10", "intersect: a root element is not a surviving root of an operand")
		}
		if !subset(interSet(interSet(a.Roots, b.Roots), ids), r.Roots) {
			add("C10", "intersect: a surviving root of both operands is missing")
		}
		if !heSubset(r.HE, restrict(unionHE(a.HE, b.HE), ids)) {
			add("C10", "intersect: an edge is not an operand edge between surviving nodes")
		}
		both := map[[3]string]bool{}
		for k := range a.HE {
			if b.HE[k] {
				both[k] = true
			}
		}
		if !heSubset(restrict(both, ids), r.HE) {
			add("C10", "intersect: an edge of both operands between surviving nodes is missing")
		}
		if a.WF() && b.WF() {
			if !r.WF() {
				add("C08", "intersect of well-formed lists is not well-formed")
			}
			if !r.Normal() {
				add("C08", "intersect of well-formed lists is not normalised")
			}
		}
		if a.Nodup() && b.Nodup() && r.Nodup() {
			for id, rn := range r.Nodes {
				an, inA := a.Nodes[id]
				bn, inB := b.Nodes[id]
				if !inA || !inB {
					continue
				}
				for _, f := range NodeAttrs {
					want := attrOf(bn[0], f.GoName)
					if want == nil {
						want = attrOf(an[0], f.GoName)
					}
					if !Equal(want, attrOf(rn[0], f.GoName)) {
						add("C10", "intersect: attribute %s of node %q is %s, expected %s", f.GoName, id, js(attrOf(rn[0], f.GoName)), js(want))
					}
				}
			}
		}
		// "the same attribute rule as union", the node kind included: a surviving node is the node the
		// union of the same operands holds under that identifier
		if a.Nodup() && b.Nodup() && r.Nodup() {
			if un, ok := exec(M{"op": "union", "a": op["a"], "b": op["b"]}).(M); ok {
				uv := View(un)
				for id, rn := range r.Nodes {
					if us, ok := uv.Nodes[id]; ok && len(us) == 1 && len(rn) == 1 && !Equal(CanonNode(us[0]), CanonNode(rn[0])) {
						add("C10", "intersect: node %q is %s, the union of the same operands holds %s", id, js(rn[0]), js(us[0]))
					}
				}
			}
		}
		rev := exec(M{"op": "intersect", "a": op["b"], "b": op["a"]})
		if isNL(rev) && !SetEquivalent(r, View(rev)) {
			add("C10", "intersect is not commutative on node/root/edge sets")
		}
		idem := exec(M{"op": "intersect", "a": op["a"], "b": op["a"]})
		if isNL(idem) {
			iv := View(idem)
			if !setEq(iv.IDSet, a.IDSet) || !setEq(iv.Roots, interSet(a.Roots, a.IDSet)) || !heEq(iv.HE, restrict(a.HE, a.IDSet)) {
				add("C10", "intersect is not idempotent on node/root/edge sets")
			}
		}
		u := exec(M{"op": "union", "a": op["a"], "b": op["b"]})
		if isNL(u) {
			abs := exec(M{"op": "intersect", "a": op["a"], "b": u})
			if isNL(abs) && !setEq(View(abs).IDSet, a.IDSet) {
				add("C10", "intersect with a union containing the first operand does not yield its nodes (absorption)")
			}
		}
		empty := M{"nodes": []any{}, "edges": []any{}, "roots": []any{}}
		e1 := exec(M{"op": "intersect", "a": op["a"], "b": empty})
		if isNL(e1) {
			ev := View(e1)
			if len(ev.IDs) != 0 || len(ev.Roots) != 0 || len(ev.HE) != 0 {
				add("C10", "intersect with the empty list is not empty")
			}
		}
	case "removeNodes":
		if !isNL(res) {
			return out
		}
		r := View(res)
		rm := map[string]bool{}
		for _, s := range asList(op["ids"]) {
			rm[asStr(s)] = true
		}
		want := map[string]bool{}
		for id := range a.IDSet {
			if !rm[id] {
				want[id] = true
			}
		}
		if !setEq(r.IDSet, want) {
			add("C08", "removeNodes: node set %v, expected %v", keysOf(r.IDSet), keysOf(want))
		}
		for id := range r.Roots {
			if rm[id] {
				add("C08", "removeNodes: removed node %q is still a root element", id)
			}
		}
		for k := range r.HE {
			if rm[k[0]] || rm[k[2]] {
				add("C08", "removeNodes: an edge still mentions removed node")
			}
		}
		if a.WF() {
			wantRoots := map[string]bool{}
			for id := range a.Roots {
				if !rm[id] {
					wantRoots[id] = true
				}
			}
			if !setEq(r.Roots, wantRoots) {
				add("C08", "removeNodes: root set %v, expected %v", keysOf(r.Roots), keysOf(wantRoots))
			}
			if !heEq(r.HE, restrict(a.HE, want)) {
				add("C08", "removeNodes: surviving edges are not exactly the edges between surviving nodes")
			}
			if !r.WF() || !r.Normal() {
				add("C08", "removeNodes of a well-formed list is not well-formed and normalised")
			}
		}
	case "relateNode", "relateList":
		if !isNL(res) {
			return out
		}
		r := View(res)
		ok := a.WF()
		if name == "relateList" {
			ok = ok && b.WF()
			// grafting keeps the invariant when the grafted list's nodes agree with its edges;
			// identifiers shared between the lists are de-duplicated
		}
		if ok && !r.WF() {
			add("C08", "%s on well-formed operands is not well-formed", name)
		}
	case "nodeGraph", "nodeSiblings", "nodeDescendants":
		out = append(out, oracleExtract(op, res, a)...)
	case "purlType":
		if !isNL(res) {
			return out
		}
		r := View(res)
		if a.WF() && (!r.WF() || !r.Normal()) {
			add("C08", "purl-type extraction of a well-formed list is not well-formed and normalised")
		}
		t := asStr(op["t"])
		want := []any{}
		for _, n := range asList(op["a"].(M)["nodes"]) {
			p := purlOf(n.(M))
			if strings.HasPrefix(p, "pkg:"+t+"/") || strings.HasPrefix(p, "pkg:/"+t+"/") {
				want = append(want, n)
			}
		}
		if !Equal(sortAny(want), sortAny(asList(res.(M)["nodes"]))) {
			add("C16", "lookup by purl type %q does not return exactly the nodes with that purl type", t)
		}
	case "byName":
		want := []any{}
		for _, n := range asList(op["a"].(M)["nodes"]) {
			if asStr(attrOf(n.(M), "Name")) == asStr(op["name"]) {
				want = append(want, n)
			}
		}
		if !Equal(want, res) {
			add("C16", "lookup by name %q returned %s, expected %s", op["name"], js(res), js(want))
		}
	case "byID":
		var want any = "nil"
		for _, n := range asList(op["a"].(M)["nodes"]) {
			if asStr(n.(M)["id"]) == asStr(op["id"]) {
				want = n
				break
			}
		}
		if a.Nodup() && !Equal(want, res) {
			add("C16", "lookup by id %q returned %s, expected %s", op["id"], js(res), js(want))
		}
	case "byIdent":
		want := []any{}
		for _, n := range asList(op["a"].(M)["nodes"]) {
			for _, p := range asList(attrOf(n.(M), "Identifiers")) {
				q := p.([]any)
				if asInt(q[0]) == asInt(op["t"]) && asStr(q[1]) == asStr(op["v"]) {
					want = append(want, n)
				}
			}
		}
		if !Equal(want, res) {
			add("C16", "lookup by identifier (%v,%q) returned %s, expected %s", op["tstr"], op["v"], js(res), js(want))
		}
	case "rootNodes":
		want := []any{}
		for _, n := range asList(op["a"].(M)["nodes"]) {
			if a.Roots[asStr(n.(M)["id"])] {
				want = append(want, n)
			}
		}
		if a.Nodup() && !Equal(want, res) {
			add("C16", "root lookup returned %s, expected %s", js(res), js(want))
		}
		for _, x := range asList(res) {
			if x == "nil-node" {
				add("C16", "root lookup returned a nil element (roots %s)", js(op["a"].(M)["roots"]))
			}
		}
	case "match":
		out = append(out, oracleMatch(op, res, exec)...)
	}
	return out
}

func purlOf(n M) string {
	if asInt(n["type"]) == 1 {
		return ""
	}
	for _, p := range asList(attrOf(n, "Identifiers")) {
		q := p.([]any)
		if asInt(q[0]) == 1 {
			return asStr(q[1])
		}
	}
	return ""
}

// oracleExtract: C15 (bounded reachability) and the C08 clauses for extraction.
func oracleExtract(op M, res any, a *NLView) []Finding {
	var out []Finding
	add := func(p, f string, x ...any) { out = append(out, Finding{p, fmt.Sprintf(f, x...)}) }
	name := asStr(op["op"])
	start := ""
	if v, ok := op["id"]; ok {
		start = asStr(v)
	}
	succ := func(id string) []string {
		var l []string
		for _, e := range asList(a.raw["edges"]) {
			em := e.(M)
			if asStr(em["src"]) != id {
				continue
			}
			for _, t := range asList(em["tos"]) {
				if a.IDSet[asStr(t)] {
					l = append(l, asStr(t))
				}
			}
		}
		return l
	}
	exists := a.IDSet[start]
	if start == "" {
		return out // identifiers are non-empty (documented assumption; "" is a sentinel in NodeSiblings)
	}
	// the documented no-match answers
	if !exists {
		if isNL(res) {
			r := View(res)
			if len(r.IDs) != 0 {
				add("C15", "%s(%q): start node absent but nodes returned", name, start)
			}
		}
		return out
	}
	if !isNL(res) {
		add("C15", "%s(%q): start node exists but no node list returned: %v", name, start, res)
		return out
	}
	// identifiers must be non-empty for the traversal to pass through them (documented assumption)
	if a.IDSet[""] {
		return out
	}
	r := View(res)
	want := map[string]bool{start: true}
	expanded := map[string]bool{}
	switch name {
	case "nodeSiblings":
		expanded[start] = true
		for _, t := range succ(start) {
			want[t] = true
		}
	case "nodeGraph":
		queue := []string{start}
		for len(queue) > 0 {
			cur := queue[0]
			queue = queue[1:]
			expanded[cur] = true
			for _, t := range succ(cur) {
				if want[t] || a.Roots[t] {
					continue
				}
				want[t] = true
				queue = append(queue, t)
			}
		}
	case "nodeDescendants":
		depth := int(asInt(op["depth"]))
		if depth < 1 {
			return out // the property quantifies over depths of at least one level
		}
		level := []string{start}
		for d := 1; d < depth; d++ {
			var next []string
			for _, cur := range level {
				if a.Roots[cur] && cur != start {
					continue // reached, never traversed through
				}
				if expanded[cur] {
					continue
				}
				expanded[cur] = true
				for _, t := range succ(cur) {
					if !want[t] {
						want[t] = true
						next = append(next, t)
					}
				}
			}
			level = next
		}
	}
	if !setEq(r.IDSet, want) {
		add("C15", "%s(%q): returned nodes %v, reachable set is %v", name, start, keysOf(r.IDSet), keysOf(want))
	}
	if !r.Nodup() {
		add("C15", "%s(%q): a node is returned twice", name, start)
	}
	if !(len(r.Roots) == 1 && r.Roots[start]) {
		add("C15", "%s(%q): root elements are %v, expected the start node only", name, start, keysOf(r.Roots))
	}
	if !heSubset(r.HE, restrict(a.HE, r.IDSet)) {
		add("C15", "%s(%q): an edge is not an edge of the source among returned nodes", name, start)
	}
	for k := range a.HE {
		if expanded[k[0]] && want[k[2]] && r.IDSet[k[0]] && !r.HE[k] {
			add("C15", "%s(%q): followed edge %v is missing from the result", name, start, k)
		}
	}
	if a.WF() && (!r.WF() || !r.Normal()) {
		add("C08", "%s(%q) of a well-formed list is not well-formed and normalised", name, start)
	}
	return out
}

func hashesOf(n M) map[int64]string {
	m := map[int64]string{}
	for _, p := range asList(attrOf(n, "Hashes")) {
		q := p.([]any)
		m[asInt(q[0])] = asStr(q[1])
	}
	return m
}

// hashesMatch: the documented rule — every algorithm the two have in common agrees, and there
// is at least one common algorithm; no match when either side has no hashes.
func hashesMatch(nh, th map[int64]string) bool {
	if len(nh) == 0 || len(th) == 0 {
		return false
	}
	common := 0
	for k, v := range th {
		nv, ok := nh[k]
		if !ok {
			continue
		}
		if nv != v {
			return false
		}
		common++
	}
	return common > 0
}

// oracleMatch: the documented matching rule, written declaratively; plus membership and
// independence of node order (the operation is re-run on a reversed and a rotated list).
func oracleMatch(op M, res any, exec func(M) any) []Finding {
	var out []Finding
	add := func(f string, x ...any) { out = append(out, Finding{"C16", fmt.Sprintf(f, x...)}) }
	probe := op["n"].(M)
	nodes := asList(op["a"].(M)["nodes"])
	var byHash []M
	for _, n := range nodes {
		if hashesMatch(hashesOf(n.(M)), hashesOf(probe)) {
			byHash = append(byHash, n.(M))
		}
	}
	tp := purlOf(probe)
	var want any
	switch {
	case len(byHash) == 1:
		want = byHash[0]
	case len(byHash) == 0:
		var byPurl []M
		if tp != "" {
			for _, n := range nodes {
				if purlOf(n.(M)) == tp {
					byPurl = append(byPurl, n.(M))
				}
			}
		}
		switch len(byPurl) {
		case 0:
			want = "nil"
		case 1:
			want = byPurl[0]
		default:
			want = "ambiguous"
		}
	default:
		var tie []M
		if tp != "" {
			for _, n := range byHash {
				if purlOf(n) == tp {
					tie = append(tie, n)
				}
			}
		}
		if len(tie) == 1 {
			want = tie[0]
		} else {
			want = "ambiguous"
		}
	}
	if !Equal(want, res) {
		add("matching returned %s, the documented rule gives %s", js(res), js(want))
	}
	if m, ok := res.(M); ok {
		found := false
		for _, n := range nodes {
			if Equal(n, m) {
				found = true
			}
		}
		if !found {
			add("matching returned a node that is not in the list")
		}
	}
	// order independence
	if len(nodes) > 1 {
		rev := []any{}
		for i := len(nodes) - 1; i >= 0; i-- {
			rev = append(rev, nodes[i])
		}
		rot := append(append([]any{}, nodes[1:]...), nodes[0])
		for _, perm := range [][]any{rev, rot} {
			a2 := M{"nodes": perm, "edges": op["a"].(M)["edges"], "roots": op["a"].(M)["roots"]}
			r2 := Normalize(exec(M{"op": "match", "a": a2, "n": probe}))
			if !Equal(r2, res) {
				add("matching depends on node order: %s vs %s", js(res), js(r2))
			}
		}
	}
	return out
}
