package hx

import (
	"bufio"
	"bytes"
	"crypto/sha256"
	"encoding/json"
	"fmt"
	"os"
	"os/exec"
	"path/filepath"
	"sort"
	"strings"
	"time"
)

// Stream describes one correspondence stream: generation, the real code, the oracle.
type Stream struct {
	Name       string
	Gen        func(g *G, tier string) []M
	Exec       func(M) any
	Canon      func(any) any
	Oracle     func(op M, res any, exec func(M) any) []Finding
	Nontrivial func(op M) bool
	OpProps    func(op M) []string // properties a correspondence difference on this op concerns
	Reps       int
	NoModel    func(op M) bool     // operations that only the oracle judges
	ExecBatch  func(ops []M) []any // optional: executes all generated operations at once (child processes)
	Enrich     func(op M) M        // adds what the model needs (derived from the op alone) just before piping
	NoShrink   bool                // operations are opaque payloads: report them as generated
	Timeout    time.Duration       // watchdog per call of the real code (default 45 s)
}

type Case struct {
	Property string   `json:"property"`
	Kind     string   `json:"kind"` // oracle | correspondence | nondeterminism
	Stream   string   `json:"stream"`
	Op       M        `json:"op"`
	Impl     any      `json:"impl"`
	Model    any      `json:"model,omitempty"`
	Messages []string `json:"messages"`
	Replay   string   `json:"replay,omitempty"`
	Known    string   `json:"known,omitempty"` // id of the known finding covering this case
}

type Report struct {
	Stream             string            `json:"stream"`
	Tier               string            `json:"tier"`
	Seed               int64             `json:"seed"`
	Evaluations        int               `json:"evaluations"`
	ImplCalls          int               `json:"impl_calls"`
	DistinctNontrivial int               `json:"distinct_nontrivial"`
	Compared           int               `json:"compared_with_model"`
	Dist               map[string]int    `json:"distribution"`
	Samples            []any             `json:"samples"`
	Cases              []Case            `json:"cases"`
	ModelBad           int               `json:"model_rejected"`
	KnownStatus        map[string]string `json:"known_status"` // finding id -> "fails" | "passes"
}

// RunModel pipes the operations through the compiled Lean driver.
func RunModel(bin string, ops []M) ([]any, error) {
	var in bytes.Buffer
	for _, op := range ops {
		in.WriteString(js(op))
		in.WriteByte('\n')
	}
	cmd := exec.Command(bin)
	cmd.Stdin = &in
	var out, errb bytes.Buffer
	cmd.Stdout = &out
	cmd.Stderr = &errb
	if err := cmd.Run(); err != nil {
		return nil, fmt.Errorf("model driver: %v: %s", err, errb.String())
	}
	var res []any
	sc := bufio.NewScanner(&out)
	sc.Buffer(make([]byte, 1<<20), 1<<28)
	for sc.Scan() {
		var v any
		if err := json.Unmarshal(sc.Bytes(), &v); err != nil {
			return nil, fmt.Errorf("model output: %v: %s", err, sc.Text())
		}
		res = append(res, v)
	}
	if len(res) != len(ops) {
		return nil, fmt.Errorf("model answered %d lines for %d operations: %s", len(res), len(ops), errb.String())
	}
	return res, nil
}

func modelValue(v any) (any, bool) {
	m, ok := v.(M)
	if !ok {
		return v, false
	}
	if r, ok := m["r"]; ok {
		return r, true
	}
	return m, false
}

func caseClass(kind string, op M) string { return kind + "|" + asStr(op["op"]) }

func opKey(op M) string { return fmt.Sprintf("%x", sha256.Sum256([]byte(js(op))))[:16] }

// safeOracle evaluates the oracle; a panic (only malformed operations produced by the shrinker
// cause one) counts as "no finding".
func safeOracle(s *Stream, op M, res any, exec func(M) any) (out []Finding) {
	defer func() {
		if r := recover(); r != nil {
			out = nil
		}
	}()
	return s.Oracle(op, res, exec)
}

// Run executes a stream and returns its report. Corpus operations run first.
func Run(s *Stream, g *G, tier string, seed int64, modelBin string, corpus []M, replayDir string) (*Report, error) {
	rep := &Report{Stream: s.Name, Tier: tier, Seed: seed, Dist: map[string]int{}}
	ops := append(append([]M{}, corpus...), s.Gen(g, tier)...)
	// normalise ops through JSON once so that both sides see identical values
	for i := range ops {
		ops[i] = CanonOp(Normalize(ops[i]).(M))
	}
	canon := s.Canon
	if canon == nil {
		canon = CanonResult
	}
	reps := s.Reps
	if reps == 0 {
		reps = 3
	}
	// every call of the real code runs under a watchdog: an operation that does not return is a
	// finding of its own ("never hangs"), and it must not stall the check. After the first hang the
	// remaining operations of the run are not started (the stuck goroutine keeps a core busy).
	hung := false
	limit := s.Timeout
	if limit == 0 {
		limit = 45 * time.Second
	}
	guarded := func(op M) any {
		if hung {
			return "skipped-after-hang"
		}
		ch := make(chan any, 1)
		go func() { ch <- s.Exec(Normalize(op).(M)) }()
		select {
		case r := <-ch:
			return r
		case <-time.After(limit):
			hung = true
			for _, p := range s.OpProps(op) {
				rep.Cases = append(rep.Cases, Case{Property: p, Kind: "oracle", Stream: s.Name, Op: op, Impl: "hang",
					Messages: []string{fmt.Sprintf("the operation did not return within %v (hang)", limit)}})
			}
			return "hang"
		}
	}
	execC := func(op M) any { rep.ImplCalls++; return canon(guarded(op)) }
	impl := make([]any, len(ops))
	seen := map[string]bool{}
	var pre []any
	if s.ExecBatch != nil {
		pre = s.ExecBatch(ops)
	}
	for i, op := range ops {
		rep.Evaluations++
		rep.Dist["op:"+asStr(op["op"])]++
		if pre != nil && i < len(pre) {
			rep.ImplCalls++
			impl[i] = canon(pre[i])
		} else {
			impl[i] = execC(op)
		}
		for k := 1; k < reps; k++ {
			again := execC(op)
			if !Equal(impl[i], again) {
				for _, p := range s.OpProps(op) {
					rep.Cases = append(rep.Cases, Case{Property: p, Kind: "nondeterminism", Stream: s.Name, Op: op, Impl: impl[i], Model: again,
						Messages: []string{"two runs of the real code on the same input differ"}})
				}
				break
			}
		}
		if sres, ok := impl[i].(string); ok {
			rep.Dist["result:"+strings.SplitN(sres, ":", 2)[0]]++
		}
		if s.Nontrivial != nil && s.Nontrivial(op) {
			k := opKey(op)
			if !seen[k] {
				seen[k] = true
				rep.DistinctNontrivial++
			}
		}
		if len(rep.Samples) < 3 && (s.Nontrivial == nil || s.Nontrivial(op)) {
			rep.Samples = append(rep.Samples, M{"op": op, "impl": impl[i]})
		}
	}
	shrunk := map[string]int{}
	// model
	var mops []M
	var midx []int
	for i, op := range ops {
		if s.NoModel != nil && s.NoModel(op) {
			continue
		}
		if s.Enrich != nil {
			mops = append(mops, s.Enrich(op))
		} else {
			mops = append(mops, op)
		}
		midx = append(midx, i)
	}
	if modelBin != "" && len(mops) > 0 {
		mres, err := RunModel(modelBin, mops)
		if err != nil {
			return nil, err
		}
		for k, i := range midx {
			mv, ok := modelValue(mres[k])
			if !ok {
				rep.ModelBad++
				for _, p := range s.OpProps(ops[i]) {
					rep.Cases = append(rep.Cases, Case{Property: p, Kind: "correspondence", Stream: s.Name, Op: ops[i], Impl: impl[i], Model: mres[k],
						Messages: []string{"the model rejected the operation"}})
				}
				continue
			}
			if sres, isS := impl[i].(string); isS && (sres == "hang" || sres == "skipped-after-hang") {
				continue // reported by the watchdog
			}
			rep.Compared++
			mc := canon(mv)
			if !Equal(mc, impl[i]) {
				op := ops[i]
				// shrink while model and implementation still differ
				if s.NoShrink || shrunk[caseClass("correspondence", op)] >= 3 {
					for _, p := range s.OpProps(op) {
						rep.Cases = append(rep.Cases, Case{Property: p, Kind: "correspondence", Stream: s.Name, Op: op,
							Impl: impl[i], Model: mc, Messages: []string{"model and implementation disagree (not minimised)"}})
					}
					continue
				}
				shrunk[caseClass("correspondence", op)]++
				small := ShrinkBatch(op, func(cs []M) []bool {
					out := make([]bool, len(cs))
					r, err := RunModel(modelBin, cs)
					if err != nil {
						return out
					}
					for k, c := range cs {
						v, ok := modelValue(r[k])
						if !ok {
							continue
						}
						iv := canon(s.Exec(Normalize(c).(M)))
						if sv, isS := iv.(string); isS && sv == "unknown-op" {
							continue
						}
						out[k] = !Equal(canon(v), iv)
					}
					return out
				})
				r, _ := RunModel(modelBin, []M{small})
				mv2, _ := modelValue(r[0])
				for _, p := range s.OpProps(op) {
					rep.Cases = append(rep.Cases, Case{Property: p, Kind: "correspondence", Stream: s.Name, Op: small,
						Impl: canon(s.Exec(Normalize(small).(M))), Model: canon(mv2),
						Messages: []string{"model and implementation disagree"}})
				}
			}
		}
	}
	// oracles
	if s.Oracle != nil {
		for i, op := range ops {
			if sres, isS := impl[i].(string); isS && (sres == "hang" || sres == "skipped-after-hang") {
				continue // reported by the watchdog
			}
			fs := safeOracle(s, op, impl[i], execC)
			if len(fs) == 0 {
				continue
			}
			byProp := map[string][]string{}
			for _, f := range fs {
				byProp[f.Prop] = append(byProp[f.Prop], f.Msg)
			}
			props := []string{}
			for p := range byProp {
				props = append(props, p)
			}
			sort.Strings(props)
			for _, p := range props {
				// an operation that ended its child process is not run again in this process, so it is
				// not minimised either
				ended := false
				if sv, isS := impl[i].(string); isS && strings.HasPrefix(sv, "process-ended") {
					ended = true
				}
				if s.NoShrink || ended || shrunk[caseClass("oracle:"+p, op)] >= 3 {
					rep.Cases = append(rep.Cases, Case{Property: p, Kind: "oracle", Stream: s.Name, Op: op, Impl: impl[i],
						Messages: append([]string{"(not minimised)"}, byProp[p]...)})
					continue
				}
				shrunk[caseClass("oracle:"+p, op)]++
				small := Shrink(op, func(c M) bool {
					r := canon(s.Exec(Normalize(c).(M)))
					if sv, isS := r.(string); isS && sv == "unknown-op" {
						return false
					}
					for _, f := range safeOracle(s, c, r, func(o M) any { return canon(s.Exec(Normalize(o).(M))) }) {
						if f.Prop == p {
							return true
						}
					}
					return false
				})
				r := canon(s.Exec(Normalize(small).(M)))
				var msgs []string
				for _, f := range safeOracle(s, small, r, func(o M) any { return canon(s.Exec(Normalize(o).(M))) }) {
					if f.Prop == p {
						msgs = append(msgs, f.Msg)
					}
				}
				if len(msgs) == 0 {
					// the failure does not reproduce on the minimised operation (it depends on hidden
					// state or timing): report the operation as it was generated
					rep.Cases = append(rep.Cases, Case{Property: p, Kind: "oracle", Stream: s.Name, Op: op, Impl: impl[i],
						Messages: append([]string{"(not reproducible after minimisation: depends on earlier calls)"}, byProp[p]...)})
					continue
				}
				rep.Cases = append(rep.Cases, Case{Property: p, Kind: "oracle", Stream: s.Name, Op: small, Impl: r, Messages: msgs})
			}
		}
	}
	// de-duplicate cases by (property, kind, shrunk op) and write replay files
	uniq := map[string]bool{}
	var cases []Case
	for _, c := range rep.Cases {
		k := c.Property + "|" + c.Kind + "|" + js(c.Op)
		if uniq[k] {
			continue
		}
		uniq[k] = true
		if replayDir != "" {
			_ = os.MkdirAll(replayDir, 0o755)
			name := fmt.Sprintf("%s-%s-%s-%s.json", c.Property, s.Name, c.Kind, opKey(c.Op))
			c.Replay = filepath.Join(replayDir, name)
			b, _ := json.MarshalIndent(c, "", " ")
			_ = os.WriteFile(c.Replay, append(b, '\n'), 0o644)
		}
		cases = append(cases, c)
	}
	rep.Cases = cases
	return rep, nil
}

// ShrinkBatch is Shrink with a predicate evaluated on all candidates of a round at once (one
// model process per round instead of one per candidate).
func ShrinkBatch(op M, pred func([]M) []bool) M {
	cur := Normalize(op).(M)
	if r := pred([]M{cur}); len(r) != 1 || !r[0] {
		return cur
	}
	for round := 0; round < 60; round++ {
		var cands []M
		for _, c := range shrinkCandidates(cur) {
			cands = append(cands, c.(M))
			if len(cands) >= 300 {
				break
			}
		}
		if len(cands) == 0 {
			break
		}
		res := pred(cands)
		next := -1
		for i, ok := range res {
			if ok {
				next = i
				break
			}
		}
		if next < 0 {
			break
		}
		cur = cands[next]
	}
	return cur
}

// Shrink greedily deletes array elements and object members anywhere in the operation while
// `pred` (still failing) holds. The "op" member and scalar members are kept.
func Shrink(op M, pred func(M) bool) M {
	cur := Normalize(op).(M)
	if !pred(cur) {
		return cur
	}
	budget := 400
	for changed := true; changed && budget > 0; {
		changed = false
		for _, cand := range shrinkCandidates(cur) {
			budget--
			if budget <= 0 {
				break
			}
			c := cand.(M)
			if pred(c) {
				cur = c
				changed = true
				break
			}
		}
	}
	return cur
}

// shrinkCandidates returns copies of v with one array element or one object member removed.
func shrinkCandidates(v any) []any {
	var out []any
	switch x := v.(type) {
	case M:
		keys := make([]string, 0, len(x))
		for k := range x {
			keys = append(keys, k)
		}
		sort.Strings(keys)
		for _, k := range keys {
			if k == "op" {
				continue
			}
			// delete optional members inside attribute objects / persons / refs
			if _, isScalar := x[k].(string); !isScalar {
				if _, isNum := x[k].(float64); !isNum {
					for _, sub := range shrinkCandidates(x[k]) {
						c := M{}
						for kk, vv := range x {
							c[kk] = vv
						}
						c[k] = sub
						out = append(out, c)
					}
				}
			}
		}
		if _, isAttrs := v.(M); isAttrs {
			for _, k := range keys {
				if k == "op" || k == "id" || k == "nodes" || k == "edges" || k == "roots" || k == "a" || k == "b" || k == "c" ||
					k == "share" || k == "what" || k == "src" || k == "tos" || k == "ty" || k == "n" || k == "m" || k == "at" || k == "ids" || k == "depth" || k == "t" || k == "type" || k == "o" {
					continue
				}
				c := M{}
				for kk, vv := range x {
					if kk != k {
						c[kk] = vv
					}
				}
				out = append(out, c)
			}
		}
	case []any:
		for i := range x {
			c := append(append([]any{}, x[:i]...), x[i+1:]...)
			out = append(out, c)
		}
		for i := range x {
			for _, sub := range shrinkCandidates(x[i]) {
				c := append([]any{}, x...)
				c[i] = sub
				out = append(out, c)
			}
		}
	}
	return out
}
