package hx

// AllStreams lists every correspondence stream of the harness.
func AllStreams() []*Stream {
	return []*Stream{NLStream, HistStream, EqStream, DiffStream, AliasStream, SpdxStream, CdxStream, SniffStream, ParseStream, SerStream, OptsStream, StoreStream, CrashStream, ConcStream, TablesStream, BigStream}
}
