package hx

// Stream "big": size and count thresholds. Oracle-only (no model): the properties quantify over
// every document, so a document that is merely LARGE (megabytes of text, tens of thousands of
// nodes) must be detected, parsed, round-tripped and stored like a small one. The generators of
// the other streams keep documents small for the sake of the model driver; a limit reader, a fixed
// buffer or a 16-bit counter seeded into the code is invisible to them.

import (
	"bytes"
	"fmt"
	"io"
	"os"
	"path/filepath"
	"slices"
	"sort"
	"strings"
	"time"

	"github.com/protobom/protobom/pkg/formats"
	"github.com/protobom/protobom/pkg/native"
	"github.com/protobom/protobom/pkg/reader"
	"github.com/protobom/protobom/pkg/sbom"
	"github.com/protobom/protobom/pkg/storage"
	"github.com/protobom/protobom/pkg/writer"
	"google.golang.org/protobuf/proto"
)

// bigDoc: one root that contains n packages; every package carries a description of `desc` bytes,
// a version, a purl and a SHA-256 hash, so that attribute loss is visible as well as node loss.
func bigDoc(n, desc int) *sbom.Document {
	d := sbom.NewDocument()
	d.Metadata.Id = "urn:uuid:0b1e0000-0000-4000-8000-000000000001"
	d.Metadata.Version = "1"
	d.Metadata.Name = "big"
	root := &sbom.Node{Id: "big-root", Name: "big", Version: "1.0", Type: sbom.Node_PACKAGE,
		PrimaryPurpose: []sbom.Purpose{sbom.Purpose_APPLICATION}}
	d.NodeList.Nodes = append(d.NodeList.Nodes, root)
	d.NodeList.RootElements = []string{"big-root"}
	e := &sbom.Edge{Type: sbom.Edge_contains, From: "big-root"}
	pad := strings.Repeat("lorem ipsum dolor sit amet ", desc/27+1)
	for i := 0; i < n; i++ {
		id := fmt.Sprintf("p%06d", i)
		d.NodeList.Nodes = append(d.NodeList.Nodes, &sbom.Node{
			Id: id, Name: "pkg-" + id, Version: fmt.Sprintf("1.%d", i), Type: sbom.Node_PACKAGE,
			Description:    fmt.Sprintf("%06d:", i) + pad[:max(desc-7, 0)],
			Hashes:         map[int32]string{int32(sbom.HashAlgorithm_SHA256): fmt.Sprintf("%064x", i)},
			Identifiers:    map[int32]string{int32(sbom.SoftwareIdentifierType_PURL): "pkg:generic/" + id + "@1." + fmt.Sprint(i)},
			PrimaryPurpose: []sbom.Purpose{sbom.Purpose_LIBRARY},
		})
		e.To = append(e.To, id)
	}
	if n > 0 {
		d.NodeList.Edges = []*sbom.Edge{e}
	}
	return d
}

// bigSummary: what must survive, cheaply comparable
func bigSummary(d *sbom.Document) M {
	if d == nil || d.NodeList == nil {
		return M{"nil": true}
	}
	ids := map[string]int{}
	descBytes, hashes, purls, versions := 0, 0, 0, 0
	for _, n := range d.NodeList.Nodes {
		if n == nil {
			continue
		}
		ids[n.Id]++
		descBytes += len(n.Description)
		if n.Hashes[int32(sbom.HashAlgorithm_SHA256)] != "" {
			hashes++
		}
		if n.Identifiers[int32(sbom.SoftwareIdentifierType_PURL)] != "" {
			purls++
		}
		if n.Version != "" {
			versions++
		}
	}
	contained := map[string]bool{}
	for _, e := range d.NodeList.Edges {
		if e != nil && e.Type == sbom.Edge_contains && e.From == "big-root" {
			for _, t := range e.To {
				contained[t] = true
			}
		}
	}
	dup := 0
	for _, c := range ids {
		if c > 1 {
			dup++
		}
	}
	return M{"nodes": float64(len(d.NodeList.Nodes)), "distinct": float64(len(ids)), "dup": float64(dup),
		"desc": float64(descBytes), "hashes": float64(hashes), "purls": float64(purls), "versions": float64(versions),
		"contained": float64(len(contained)), "roots": strings.Join(d.NodeList.RootElements, ",")}
}

func bigGen(g *G, tier string) []M {
	// (packages, description bytes, formats): text volume first, then element count. The CycloneDX
	// reader is quadratic in the number of components (each one is grafted with a scan of the list
	// built so far: 8 000 components take 9 s here), which the property allows (polynomial), so its
	// counts stay small enough for the 45 s watchdog; SPDX is linear.
	type shape struct {
		n, desc int
		cdx     bool
	}
	shapes := []shape{{140, 8192, true}, {530, 8192, true}, {1100, 8192, true}, {3000, 16, true}, {70000, 0, false}}
	if tier == "thorough" {
		shapes = append(shapes, shape{2200, 8192, true}, shape{4300, 8192, true}, shape{8500, 8192, true}, shape{12000, 0, true},
			shape{140000, 0, false}, shape{3, 3000000, true}, shape{2, 20000000, true})
	}
	var ops []M
	for _, sh := range shapes {
		for _, f := range roundTripFormats {
			if !sh.cdx && !isSpdxFormat(string(f)) {
				continue
			}
			if sh.desc < 100 && tier != "thorough" && !isSpdxFormat(string(f)) && f != formats.CDX15JSON {
				continue // element counts: one CycloneDX version is enough on every change
			}
			indent := g.Pick2([]int{0, 2})
			ops = append(ops, M{"op": "sniffBig", "f": string(f), "indent": float64(indent), "n": float64(sh.n), "desc": float64(sh.desc)})
			ops = append(ops, M{"op": "rtBig", "f": string(f), "indent": float64(indent), "n": float64(sh.n), "desc": float64(sh.desc)})
		}
		ops = append(ops, M{"op": "storeBig", "n": float64(sh.n), "desc": float64(sh.desc)})
	}
	// sequences on the process-wide registries followed by ordinary use: removing a driver twice,
	// removing one that was never there, replacing one. Last, because a registry left locked stalls
	// everything after it (the watchdog reports the first stalled call).
	// the file and storage entry points are thin wrappers: they give what the stream entry points give
	for _, f := range roundTripFormats {
		ops = append(ops, M{"op": "filePaths", "f": string(f)})
	}
	ops = append(ops, M{"op": "storeWrappers"}, M{"op": "storeRevisions"})
	// one document object written, edited by replacing a node object, written again; and chains of
	// nested components
	for _, f := range roundTripFormats {
		ops = append(ops, M{"op": "rewriteAfterEdit", "f": string(f)})
	}
	ops = append(ops, M{"op": "deepChain"}, M{"op": "anonBig"})
	// copies of long node lists (sizes around and off the powers of two a chunked copy would use)
	ops = append(ops, M{"op": "copyBig"})
	// one options value without a format shared by calls on writers of different formats, and a
	// write to a stream that fails followed by ordinary writes
	ops = append(ops, M{"op": "sharedCallOptions"}, M{"op": "failedWriteThenWrite"})
	// one reader used for documents of different formats, with detection: each parse gives what a fresh
	// reader told the format gives
	ops = append(ops, M{"op": "readerReuse", "order": []any{"cdx", "spdx", "cdx", "spdx"}}, M{"op": "readerReuse", "order": []any{"spdx", "cdx", "cdx14", "spdx"}})
	// inputs that are no SBOM at all but long: detection answers, it does not search for ever
	for _, n := range []int{70000, 1<<20 + 1, 3 << 20} {
		for _, shape := range []string{"one-line", "line-between", "cut-json"} {
			ops = append(ops, M{"op": "sniffLong", "bytes": float64(n), "shape": shape})
		}
	}
	ops = append(ops, M{"op": "registryChurn", "side": "reader"}, M{"op": "registryChurn", "side": "writer"})
	// the check of one property runs only the operations that can concern it (VERIF_PROP is set by
	// /verif/check; without it every operation runs)
	if want := os.Getenv("VERIF_PROP"); want != "" {
		var keep []M
		for _, op := range ops {
			for _, p := range bigOpProps(op) {
				if p == want {
					keep = append(keep, op)
					break
				}
			}
		}
		ops = keep
	}
	return ops
}

func ExecBig(op M) (res any) {
	defer func() {
		if r := recover(); r != nil {
			res = fmt.Sprintf("panic: %v", r)
		}
	}()
	if asStr(op["op"]) == "registryChurn" {
		return registryChurn(asStr(op["side"]))
	}
	if asStr(op["op"]) == "filePaths" {
		return filePaths(formats.Format(asStr(op["f"])))
	}
	if asStr(op["op"]) == "storeWrappers" {
		return storeWrappers()
	}
	if asStr(op["op"]) == "storeRevisions" {
		return storeRevisions()
	}
	if asStr(op["op"]) == "sharedCallOptions" {
		return sharedCallOptions()
	}
	if asStr(op["op"]) == "rewriteAfterEdit" {
		return rewriteAfterEdit(formats.Format(asStr(op["f"])))
	}
	if asStr(op["op"]) == "anonBig" {
		return anonBig()
	}
	if asStr(op["op"]) == "deepChain" {
		return deepChain()
	}
	if asStr(op["op"]) == "copyBig" {
		return copyBig()
	}
	if asStr(op["op"]) == "failedWriteThenWrite" {
		return failedWriteThenWrite()
	}
	if asStr(op["op"]) == "readerReuse" {
		return readerReuse(asList(op["order"]))
	}
	if asStr(op["op"]) == "sniffLong" {
		return sniffLong(int(asInt(op["bytes"])), asStr(op["shape"]))
	}
	if op["n"] == nil || op["desc"] == nil {
		return "unknown-op"
	}
	n, desc := int(asInt(op["n"])), int(asInt(op["desc"]))
	if n < 0 || desc < 0 || n > 1000000 || desc > 100000000 {
		return "unknown-op"
	}
	d := bigDoc(n, desc)
	switch asStr(op["op"]) {
	case "sniffBig":
		b, err := WriteDoc(d, formats.Format(asStr(op["f"])), int(asInt(op["indent"])))
		if err != nil {
			return "unwritable: " + err.Error()
		}
		sn := &formats.Sniffer{}
		r := bytes.NewReader(b)
		f, err := sn.SniffReader(r)
		pos, _ := r.Seek(0, io.SeekCurrent)
		out := M{"bytes": float64(len(b)), "pos": float64(pos), "r": string(f)}
		if err != nil {
			out["r"] = "err"
		}
		return out
	case "rtBig":
		b, err := WriteDoc(d, formats.Format(asStr(op["f"])), int(asInt(op["indent"])))
		if err != nil {
			return "unwritable: " + err.Error()
		}
		back, err := reader.New().ParseStream(bytes.NewReader(b))
		if err != nil {
			return M{"bytes": float64(len(b)), "err": err.Error()}
		}
		s := bigSummary(back)
		s["bytes"] = float64(len(b))
		return s
	case "storeBig":
		dir, err := os.MkdirTemp("", "verif-big-")
		if err != nil {
			return "unknown-op"
		}
		defer os.RemoveAll(dir)
		fs := &storage.FileSystem{Options: storage.FileSystemOptions{Path: dir}}
		if err := fs.Store(d, nil); err != nil {
			return M{"err": "store: " + err.Error()}
		}
		back, err := fs.Retrieve(d.Metadata.Id, nil)
		if err != nil {
			return M{"err": "retrieve: " + err.Error()}
		}
		s := bigSummary(back)
		s["equal"] = proto.Equal(back, d)
		return s
	}
	return "unknown-op"
}

// registryChurn: register / replace / remove private drivers in every order a caller may use, then
// use the library normally; returns what the final ordinary call gave
func registryChurn(side string) any {
	fa, fb := formats.Format("verif/churn-a"), formats.Format("verif/churn-b")
	small := bigDoc(2, 16)
	switch side {
	case "reader":
		reader.UnregisterUnserializer(fb) // never registered
		reader.RegisterUnserializer(fa, &markDriver{"a1"})
		reader.RegisterUnserializer(fa, &markDriver{"a2"}) // replaced
		reader.UnregisterUnserializer(fa)
		reader.UnregisterUnserializer(fa) // twice
		if u, err := reader.GetFormatUnserializer(fa); err == nil || u != nil {
			return M{"err": "a removed driver is still found"}
		}
		b, err := WriteDoc(small, formats.CDX15JSON, 2)
		if err != nil {
			return M{"err": "write: " + err.Error()}
		}
		// a built-in driver is taken out: documents of every version then give a document or an
		// error (never a panic), and those of the format without driver an error
		inputs := map[formats.Format]string{
			formats.SPDX22JSON: `{"spdxVersion":"SPDX-2.2","dataLicense":"CC0-1.0","SPDXID":"SPDXRef-DOCUMENT","name":"d","documentNamespace":"https://example.com/d22","packages":[{"SPDXID":"SPDXRef-p","name":"p","downloadLocation":"NOASSERTION"}]}`,
			formats.SPDX23JSON: `{"spdxVersion":"SPDX-2.3","dataLicense":"CC0-1.0","SPDXID":"SPDXRef-DOCUMENT","name":"d","documentNamespace":"https://example.com/d23","packages":[{"SPDXID":"SPDXRef-p","name":"p","downloadLocation":"NOASSERTION"}]}`,
			formats.CDX15JSON:  string(b),
			formats.CDX14JSON:  `{"bomFormat":"CycloneDX","specVersion":"1.4","version":1,"components":[{"bom-ref":"c","type":"library","name":"c"}]}`,
			formats.CDX13JSON:  `{"bomFormat":"CycloneDX","specVersion":"1.3","version":1,"components":[{"bom-ref":"c","type":"library","name":"c"}]}`,
		}
		for _, gone := range []formats.Format{formats.SPDX23JSON, formats.CDX15JSON, formats.CDX14JSON} {
			drv, err := reader.GetFormatUnserializer(gone)
			if err != nil {
				continue
			}
			msg := func() (msg string) {
				reader.UnregisterUnserializer(gone)
				defer reader.RegisterUnserializer(gone, drv)
				for f, in := range inputs {
					for _, explicit := range []bool{false, true} {
						what := fmt.Sprintf("with the driver of %s removed, a %s document (format stated: %v)", gone, f, explicit)
						res := func() (res string) {
							defer func() {
								if r := recover(); r != nil {
									res = fmt.Sprintf("panics: %v", r)
								}
							}()
							var d *sbom.Document
							var err error
							if explicit {
								d, err = reader.New().ParseStreamWithOptions(strings.NewReader(in), &reader.Options{Format: f})
							} else {
								d, err = reader.New().ParseStream(strings.NewReader(in))
							}
							switch {
							case err == nil && d == nil:
								return "gives neither a document nor an error"
							case err == nil && f == gone:
								return "is parsed all the same"
							}
							return ""
						}()
						if res != "" {
							return what + " " + res
						}
					}
				}
				return ""
			}()
			if msg != "" {
				return M{"err": msg}
			}
		}
		back, err := reader.New().ParseStream(bytes.NewReader(b))
		if err != nil {
			return M{"err": "parse after registry changes: " + err.Error()}
		}
		return bigSummary(back)
	case "writer":
		writer.UnregisterSerializer(fb)
		writer.RegisterSerializer(fa, &markSerializer{"a1"})
		writer.RegisterSerializer(fa, &markSerializer{"a2"})
		writer.UnregisterSerializer(fa)
		writer.UnregisterSerializer(fa)
		if x, err := writer.GetFormatSerializer(fa); err == nil || x != nil {
			return M{"err": "a removed serializer is still found"}
		}
		b, err := WriteDoc(small, formats.SPDX23JSON, 2)
		if err != nil {
			return M{"err": "write after registry changes: " + err.Error()}
		}
		back, err := reader.New().ParseStream(bytes.NewReader(b))
		if err != nil {
			return M{"err": "parse: " + err.Error()}
		}
		return bigSummary(back)
	}
	return "unknown-op"
}

// filePaths: WriteFile / SniffFile / ParseFile against WriteStream / SniffReader / ParseStream, and a
// shorter document written over a longer file. Returns a list of disagreements.
func filePaths(f formats.Format) any {
	dir, err := os.MkdirTemp("", "verif-files-")
	if err != nil {
		return "unknown-op"
	}
	defer os.RemoveAll(dir)
	problems := []any{}
	bad := func(format string, a ...any) { problems = append(problems, fmt.Sprintf(format, a...)) }
	long, short := bigDoc(40, 200), bigDoc(2, 16)
	path := dir + "/doc.json"
	w := writer.New(writer.WithFormat(f), writer.WithRenderOptions(&native.RenderOptions{Indent: 2}))
	for i, d := range []*sbom.Document{long, short} {
		if err := w.WriteFile(d, path); err != nil {
			bad("WriteFile of document %d fails: %v", i, err)
			continue
		}
		onDisk, err := os.ReadFile(path)
		if err != nil {
			bad("the written file cannot be read: %v", err)
			continue
		}
		viaStream, err := WriteDoc(d, f, 2)
		if err != nil {
			bad("WriteStream fails where WriteFile succeeds: %v", err)
			continue
		}
		if outputDigest(onDisk) != outputDigest(viaStream) {
			bad("WriteFile and WriteStream give different output for document %d (%d / %d bytes)", i, len(onDisk), len(viaStream))
		}
		sf, serr := (&formats.Sniffer{}).SniffFile(path)
		rf, rerr := (&formats.Sniffer{}).SniffReader(bytes.NewReader(onDisk))
		if sf != rf || (serr == nil) != (rerr == nil) {
			bad("SniffFile gives (%q, %v), SniffReader on the same bytes (%q, %v)", sf, serr, rf, rerr)
		}
		if sf != f {
			bad("the file written as %s is detected as %q", f, sf)
		}
		fromFile, ferr := reader.New().ParseFile(path)
		fromStream, perr := reader.New().ParseStream(bytes.NewReader(onDisk))
		switch {
		case (ferr == nil) != (perr == nil):
			bad("ParseFile gives error %v, ParseStream on the same bytes %v", ferr, perr)
		case ferr == nil && !Equal(bigSummary(fromFile), bigSummary(fromStream)):
			bad("ParseFile gives %s, ParseStream on the same bytes %s", js(bigSummary(fromFile)), js(bigSummary(fromStream)))
		case ferr == nil && int(asInt(bigSummary(fromFile)["nodes"])) != len(d.NodeList.Nodes):
			bad("document %d has %d nodes, the file read back has %v", i, len(d.NodeList.Nodes), bigSummary(fromFile)["nodes"])
		}
		withFmt, oerr := reader.New().ParseFileWithOptions(path, &reader.Options{Format: f})
		if oerr != nil || !Equal(bigSummary(withFmt), bigSummary(fromStream)) {
			bad("ParseFileWithOptions with the format stated gives (%s, %v)", js(bigSummary(withFmt)), oerr)
		}
	}
	// a link to the written file is the written file
	link := dir + "/latest.json"
	_ = os.Remove(link)
	if err := os.Symlink(path, link); err == nil {
		sf, serr := (&formats.Sniffer{}).SniffFile(link)
		if serr != nil || sf != f {
			bad("SniffFile through a symbolic link to a %s document gives (%q, %v)", f, sf, serr)
		}
		if d, err := reader.New().ParseFile(link); err != nil || len(d.GetNodeList().GetNodes()) != len(short.NodeList.Nodes) {
			bad("ParseFile through a symbolic link gives %d nodes (error %v)", len(d.GetNodeList().GetNodes()), err)
		}
	}
	// a writer whose format is set after construction writes in the format it has now
	for _, first := range roundTripFormats {
		if first == f {
			continue
		}
		wc := writer.New(writer.WithFormat(first))
		b0 := nopCloser{&bytes.Buffer{}}
		_ = wc.WriteStream(short, b0)
		wc.Options.Format = f
		b1 := nopCloser{&bytes.Buffer{}}
		if err := wc.WriteStream(short, b1); err != nil {
			bad("a writer built for %s and then set to %s fails: %v", first, f, err)
			continue
		}
		if got, err := (&formats.Sniffer{}).SniffReader(bytes.NewReader(b1.Bytes())); err != nil || got != f {
			bad("a writer built for %s and then set to %s writes output detected as %q (%v)", first, f, got, err)
		}
	}
	// the options of a call override the writer's, in the file variant as in the stream variant:
	// writers of every other format, and one whose own format nothing is registered for
	for _, own := range append(append([]formats.Format{}, roundTripFormats...), "verif/none", "") {
		if own == f {
			continue
		}
		wo := writer.New(writer.WithFormat(own))
		call := &writer.Options{Format: f, RenderOptions: &native.RenderOptions{Indent: 2}}
		p2 := dir + "/call.json"
		_ = os.Remove(p2)
		ferr := wo.WriteFileWithOptions(short, p2, call)
		buf := nopCloser{&bytes.Buffer{}}
		serr := wo.WriteStreamWithOptions(short, buf, call)
		if (ferr == nil) != (serr == nil) {
			bad("a %q writer called with format %s: WriteFileWithOptions gives error %v, WriteStreamWithOptions %v", own, f, ferr, serr)
			continue
		}
		if ferr != nil {
			bad("a %q writer called with format %s fails: %v", own, f, ferr)
			continue
		}
		onDisk, _ := os.ReadFile(p2)
		if outputDigest(onDisk) != outputDigest(buf.Bytes()) {
			bad("a %q writer called with format %s: the file and the stream variant write different output", own, f)
		}
		if got, err := (&formats.Sniffer{}).SniffFile(p2); err != nil || got != f {
			bad("a %q writer called with format %s writes a file detected as %q (%v)", own, f, got, err)
		}
	}
	if _, err := reader.New().ParseFile(dir + "/missing.json"); err == nil {
		bad("ParseFile of a missing file returns no error")
	}
	if _, err := (&formats.Sniffer{}).SniffFile(dir + "/missing.json"); err == nil {
		bad("SniffFile of a missing file returns no error")
	}
	if err := w.WriteFile(short, dir+"/no/such/dir/doc.json"); err == nil {
		bad("WriteFile into a missing directory returns no error")
	}
	return M{"problems": problems}
}

// storeRevisions: what a store writes is a function of the document as it is at the time of the call.
// One document object is stored, edited (content, then identifier), stored again through the same
// backend value; every completed store leaves its own identifier's entry holding the document as
// it was stored, and the entries of other identifiers as they were (C19 round trip, C20 "other
// identifiers"). Read back through a fresh backend value on the same directory.
func storeRevisions() any {
	dir, err := os.MkdirTemp("", "verif-rev-")
	if err != nil {
		return "unknown-op"
	}
	defer os.RemoveAll(dir)
	problems := []any{}
	bad := func(format string, a ...any) { problems = append(problems, fmt.Sprintf(format, a...)) }
	for _, through := range []string{"backend", "writer"} {
		sub := filepath.Join(dir, through)
		backend := &storage.FileSystem{Options: storage.FileSystemOptions{Path: sub}}
		w := writer.New(writer.WithStoreRetriever(backend))
		store := func(d *sbom.Document) error {
			if through == "writer" {
				return w.Store(d)
			}
			return backend.Store(d, &storage.StoreOptions{})
		}
		want := map[string]*sbom.Document{}
		check := func(when string) {
			fresh := &storage.FileSystem{Options: storage.FileSystemOptions{Path: sub}}
			for id, d := range want {
				got, err := fresh.Retrieve(id, &storage.RetrieveOptions{})
				if err != nil {
					bad("(%s) %s: the entry of %s does not come back: %v", through, when, id, err)
				} else if !proto.Equal(got, d) {
					bad("(%s) %s: the entry of %s holds %q with %d nodes, stored was %q with %d nodes", through, when, id,
						got.GetMetadata().GetId(), len(got.GetNodeList().GetNodes()), d.Metadata.Id, len(d.NodeList.Nodes))
				}
			}
		}
		doc := bigDoc(2, 16)
		other := bigDoc(3, 16)
		doc.Metadata.Id, other.Metadata.Id = "urn:rev:1", "urn:rev:bystander"
		for _, d := range []*sbom.Document{other, doc} {
			if err := store(d); err != nil {
				bad("(%s) store fails: %v", through, err)
			}
			want[d.Metadata.Id] = proto.Clone(d).(*sbom.Document)
		}
		check("after the first stores")
		// the same object, same identifier, more content
		n := sbom.NewNode()
		n.Id, n.Name = "added-in-revision-2", "added"
		doc.NodeList.AddNode(n)
		if err := store(doc); err != nil {
			bad("(%s) store of the edited document fails: %v", through, err)
		}
		want["urn:rev:1"] = proto.Clone(doc).(*sbom.Document)
		check("after the same object was edited and stored again")
		// the same object under a new identifier (a new revision with its own serial number)
		doc.Metadata.Id = "urn:rev:2"
		doc.Metadata.Version = "2"
		if err := store(doc); err != nil {
			bad("(%s) store of the same object under a new identifier fails: %v", through, err)
		}
		want["urn:rev:2"] = proto.Clone(doc).(*sbom.Document)
		check("after the same object was stored under a new identifier")
		// and back, with the bystander's object stored in between
		if err := store(other); err != nil {
			bad("(%s) store fails: %v", through, err)
		}
		doc.Metadata.Id = "urn:rev:1"
		if err := store(doc); err != nil {
			bad("(%s) store fails: %v", through, err)
		}
		want["urn:rev:1"] = proto.Clone(doc).(*sbom.Document)
		check("after the object went back to its first identifier")
		// revisions that differ in letter case only, in a name and in the identifier of a node
		{
			d := bigDoc(3, 16)
			d.Metadata.Id = "urn:rev:letter-case"
			for pass, name := range []string{"OpenSSL", "openssl", "OPENSSL", "OpenSSL"} {
				d.NodeList.Nodes[1].Name = name
				d.Metadata.Comment = strings.ToUpper(d.Metadata.Comment)
				if pass%2 == 1 {
					d.Metadata.Comment = strings.ToLower(d.Metadata.Comment) + "c"
				}
				if err := store(d); err != nil {
					bad("(%s) store of a revision fails: %v", through, err)
					continue
				}
				fresh := &storage.FileSystem{Options: storage.FileSystemOptions{Path: sub}}
				if got, err := fresh.Retrieve(d.Metadata.Id, &storage.RetrieveOptions{}); err != nil || !proto.Equal(got, d) {
					bad("(%s) after a successful store of a revision that differs from the previous one in letter case (node name %q), the entry holds node name %q (error %v)", through, name, got.GetNodeList().GetNodes()[1].GetName(), err)
				}
			}
		}
		// documents of every size around the powers of two: what a completed store leaves is the
		// whole document, first store and overwrite alike
		for _, size := range []int{1, 2, 63, 64, 65, 127, 128, 129, 191, 192, 193, 255, 256, 257, 512, 1024} {
			d := bigDoc(1, 16)
			d.Metadata.Id = fmt.Sprintf("urn:rev:size-%d", size)
			for len(d.NodeList.Nodes) < size {
				n := sbom.NewNode()
				n.Id, n.Name = fmt.Sprintf("extra-%d", len(d.NodeList.Nodes)), "extra"
				d.NodeList.AddNode(n)
				d.NodeList.AddEdge(&sbom.Edge{Type: sbom.Edge_contains, From: d.NodeList.Nodes[0].Id, To: []string{n.Id}})
			}
			for pass := 0; pass < 2; pass++ {
				d.Metadata.Version = fmt.Sprint(pass + 1)
				if err := store(d); err != nil {
					bad("(%s) store of a document with %d nodes fails: %v", through, len(d.NodeList.Nodes), err)
					continue
				}
				fresh := &storage.FileSystem{Options: storage.FileSystemOptions{Path: sub}}
				got, err := fresh.Retrieve(d.Metadata.Id, &storage.RetrieveOptions{})
				if err != nil {
					bad("(%s) a stored document with %d nodes does not come back: %v", through, len(d.NodeList.Nodes), err)
				} else if !proto.Equal(got, d) {
					bad("(%s) a stored document with %d nodes and %d edges comes back with %d nodes and %d edges (store %d)", through, len(d.NodeList.Nodes), len(d.NodeList.Edges),
						len(got.GetNodeList().GetNodes()), len(got.GetNodeList().GetEdges()), pass+1)
				}
			}
		}
		check("after documents of many sizes were stored")
	}
	return M{"problems": problems}
}

// storeWrappers: Writer.Store / Reader.Retrieve against the backend they wrap
func storeWrappers() any {
	dir, err := os.MkdirTemp("", "verif-wrap-")
	if err != nil {
		return "unknown-op"
	}
	defer os.RemoveAll(dir)
	problems := []any{}
	bad := func(format string, a ...any) { problems = append(problems, fmt.Sprintf(format, a...)) }
	backend := &storage.FileSystem{Options: storage.FileSystemOptions{Path: dir}}
	w := writer.New(writer.WithStoreRetriever(backend))
	r := reader.New(reader.WithStoreRetriever(backend))
	a, b := bigDoc(3, 16), bigDoc(5, 16)
	a.Metadata.Id, b.Metadata.Id = "urn:wrap:a", "urn:wrap:b"
	for _, d := range []*sbom.Document{a, b} {
		if err := w.Store(d); err != nil {
			bad("Writer.Store fails: %v", err)
		}
	}
	for _, d := range []*sbom.Document{a, b} {
		got, err := r.Retrieve(d.Metadata.Id)
		direct, derr := backend.Retrieve(d.Metadata.Id, nil)
		switch {
		case err != nil || derr != nil:
			bad("Reader.Retrieve(%s) gives error %v, the backend %v", d.Metadata.Id, err, derr)
		case !proto.Equal(got, d):
			bad("Reader.Retrieve(%s) returns a document different from the one stored through Writer.Store", d.Metadata.Id)
		case !proto.Equal(got, direct):
			bad("Reader.Retrieve(%s) and the backend return different documents", d.Metadata.Id)
		}
	}
	// no-clobber through the writer's options: the existing entry is kept
	a2 := bigDoc(1, 16)
	a2.Metadata.Id = "urn:wrap:a"
	if err := w.StoreWithOptions(a2, &writer.Options{StoreOptions: &storage.StoreOptions{NoClobber: true}}); err == nil {
		bad("StoreWithOptions with NoClobber over an existing entry returns no error")
	}
	if got, err := r.Retrieve("urn:wrap:a"); err != nil || !proto.Equal(got, a) {
		bad("after a refused no-clobber store the entry is not the original one (error %v)", err)
	}
	// without no-clobber it is replaced
	if err := w.StoreWithOptions(a2, &writer.Options{StoreOptions: &storage.StoreOptions{NoClobber: false}}); err != nil {
		bad("StoreWithOptions without NoClobber over an existing entry fails: %v", err)
	} else if got, err := r.Retrieve("urn:wrap:a"); err != nil || !proto.Equal(got, a2) {
		bad("after an overwriting store the entry is not the new document (error %v)", err)
	}
	if got, err := r.Retrieve("urn:wrap:b"); err != nil || !proto.Equal(got, b) {
		bad("the entry of another identifier changed (error %v)", err)
	}
	// one reader, one identifier, two generations: each retrieve gives what was stored last
	{
		gen1, gen2 := bigDoc(2, 16), bigDoc(5, 16)
		gen1.Metadata.Id, gen2.Metadata.Id = "urn:wrap:generations", "urn:wrap:generations"
		gen1.Metadata.Name, gen2.Metadata.Name = "first", "second"
		if err := w.Store(gen1); err != nil {
			bad("store of the first generation fails: %v", err)
		}
		if got, err := r.Retrieve("urn:wrap:generations"); err != nil || !proto.Equal(got, gen1) {
			bad("retrieve after the first store does not give the stored document (error %v)", err)
		}
		if err := w.Store(gen2); err != nil {
			bad("store of the second generation fails: %v", err)
		}
		if got, err := r.Retrieve("urn:wrap:generations"); err != nil || !proto.Equal(got, gen2) {
			bad("the reader that retrieved the first generation returns %q after the second was stored (error %v)", got.GetMetadata().GetName(), err)
		}
		_ = os.Remove(entryPath(dir, "urn:wrap:generations"))
		if got, err := r.Retrieve("urn:wrap:generations"); err == nil {
			bad("the reader returns %q for an entry that was removed from the directory", got.GetMetadata().GetName())
		}
	}
	// readers put together by hand, with a backend and nothing else, called with options of the call
	// that leave the retrieve options out or give them: a stored entry comes back, an unknown and
	// a damaged one are errors
	{
		_ = os.WriteFile(entryPath(dir, "urn:wrap:damaged"), []byte{0xff, 0xff, 0xff, 0x07, 0x01}, 0o644)
		for _, rd := range []*reader.Reader{{Storage: backend}, {Storage: backend, Options: &reader.Options{}}} {
			for _, co := range []*reader.Options{{}, {RetrieveOptions: &storage.RetrieveOptions{}}} {
				for _, id := range []string{"urn:wrap:b", "urn:wrap:unknown", "urn:wrap:damaged"} {
					func() {
						defer func() {
							if rec := recover(); rec != nil {
								bad("RetrieveWithOptions(%s) on a hand-built reader (options present: %v, retrieve options of the call present: %v) panicked: %v", id, rd.Options != nil, co.RetrieveOptions != nil, rec)
							}
						}()
						got, err := rd.RetrieveWithOptions(id, co)
						switch {
						case id == "urn:wrap:b" && (err != nil || !proto.Equal(got, b)):
							bad("RetrieveWithOptions on a hand-built reader does not return the stored document (error %v)", err)
						case id != "urn:wrap:b" && err == nil:
							bad("RetrieveWithOptions(%s) on a hand-built reader returns no error", id)
						}
					}()
				}
			}
		}
		_ = os.Remove(entryPath(dir, "urn:wrap:damaged"))
	}
	// no-clobber configured on the writer (not on the call): the second store of an identifier is
	// refused and the entry stays what it was
	{
		wnc := writer.New(writer.WithStoreRetriever(backend), writer.WithStoreOptions(&storage.StoreOptions{NoClobber: true}))
		first, second := bigDoc(1, 16), bigDoc(4, 16)
		first.Metadata.Id, second.Metadata.Id = "urn:wrap:configured-no-clobber", "urn:wrap:configured-no-clobber"
		if err := wnc.Store(first); err != nil {
			bad("the first store through a no-clobber writer fails: %v", err)
		}
		if err := wnc.Store(second); err == nil {
			bad("a writer configured with no-clobber stores over an existing entry without error")
		}
		if got, err := r.Retrieve("urn:wrap:configured-no-clobber"); err != nil || !proto.Equal(got, first) {
			bad("after a store through a no-clobber writer over an existing entry, the entry is not the first document any more (error %v)", err)
		}
	}
	// documents that carry metadata only, or an empty node list: what comes back is what was stored
	for i, d := range []*sbom.Document{{Metadata: &sbom.Metadata{Id: "urn:wrap:metadata-only", Name: "m"}},
		{Metadata: &sbom.Metadata{Id: "urn:wrap:empty-list"}, NodeList: &sbom.NodeList{}}} {
		if err := w.Store(d); err != nil {
			bad("store of a document without nodes (%d) fails: %v", i, err)
			continue
		}
		if got, err := r.Retrieve(d.Metadata.Id); err != nil || !proto.Equal(got, d) {
			bad("a document without nodes (%d) retrieved through the reader differs from the stored one: node list present %v, stored with node list present %v (error %v)", i, got.GetNodeList() != nil, d.NodeList != nil, err)
		}
		if got, err := backend.Retrieve(d.Metadata.Id, &storage.RetrieveOptions{}); err != nil || !proto.Equal(got, d) {
			bad("a document without nodes (%d) retrieved through the backend differs from the stored one (error %v)", i, err)
		}
	}
	// a backend without a directory refuses, and creates nothing in the working directory
	{
		before, _ := filepath.Glob("*.protobom*")
		unset := storage.NewFileSystem()
		doc := bigDoc(1, 16)
		doc.Metadata.Id = "urn:wrap:unset-directory"
		err := unset.Store(doc, &storage.StoreOptions{})
		after, _ := filepath.Glob("*.protobom*")
		for _, f := range after {
			if !slices.Contains(before, f) {
				bad("a store through a backend without a directory created %q in the working directory", f)
				_ = os.Remove(f)
			}
		}
		if err == nil {
			if _, rerr := unset.Retrieve("urn:wrap:unset-directory", &storage.RetrieveOptions{}); rerr != nil {
				bad("a store through a backend without a directory reports success, the retrieve that follows fails: %v", rerr)
			}
		}
	}
	// the default backends of two readers and two writers point where each was told to
	dirA, dirB := dir+"/a", dir+"/b"
	wa, wb := writer.New(), writer.New()
	ra := reader.New()
	if fs, ok := wa.Storage.(*storage.FileSystem); ok {
		fs.Options.Path = dirA
	}
	if fs, ok := ra.Storage.(*storage.FileSystem); ok {
		fs.Options.Path = dirA
	}
	rb := reader.New()
	if fs, ok := wb.Storage.(*storage.FileSystem); ok {
		fs.Options.Path = dirB
	}
	if fs, ok := rb.Storage.(*storage.FileSystem); ok {
		fs.Options.Path = dirB
	}
	inA, inB, onlyA := bigDoc(1, 16), bigDoc(2, 16), bigDoc(3, 16)
	inA.Metadata.Id, inB.Metadata.Id, onlyA.Metadata.Id = "urn:wrap:shared", "urn:wrap:shared", "urn:wrap:only-a"
	if err := wa.Store(inA); err != nil {
		bad("store through the first default writer fails: %v", err)
	}
	if err := wa.Store(onlyA); err != nil {
		bad("store through the first default writer fails: %v", err)
	}
	if err := wb.Store(inB); err != nil {
		bad("store through the second default writer fails: %v", err)
	}
	if got, err := ra.Retrieve("urn:wrap:shared"); err != nil || !proto.Equal(got, inA) {
		bad("the reader configured for the first directory does not return the document stored there (error %v)", err)
	}
	if got, err := rb.Retrieve("urn:wrap:shared"); err != nil || !proto.Equal(got, inB) {
		bad("the reader configured for the second directory does not return the document stored there (error %v)", err)
	}
	if got, err := ra.Retrieve("urn:wrap:only-a"); err != nil || !proto.Equal(got, onlyA) {
		bad("a document stored only in the first directory is not found by its reader (error %v)", err)
	}
	if _, err := rb.Retrieve("urn:wrap:only-a"); err == nil {
		bad("a document stored only in the first directory is returned by the reader of the second")
	}
	// errors of the backend are errors of the wrapper, with and without no-clobber
	for _, nc := range []bool{false, true} {
		wn := writer.New(writer.WithStoreRetriever(backend), writer.WithStoreOptions(&storage.StoreOptions{NoClobber: nc}))
		noID := bigDoc(1, 16)
		noID.Metadata.Id = ""
		if err := wn.Store(noID); err == nil {
			bad("Writer.Store of a document without identifier returns no error (NoClobber %v)", nc)
		}
		noMeta := bigDoc(1, 16)
		noMeta.Metadata = nil
		if err := wn.Store(noMeta); err == nil {
			bad("Writer.Store of a document without metadata returns no error (NoClobber %v)", nc)
		}
	}
	for _, id := range []string{strings.Repeat("漢", 30), strings.Repeat("🙂", 20), "../" + strings.Repeat("я/", 25), strings.Repeat("é", 40)} {
		func() {
			defer func() {
				if rec := recover(); rec != nil {
					bad("Reader.Retrieve of an unknown identifier of %d bytes / %d characters panicked: %v", len(id), len([]rune(id)), rec)
				}
			}()
			if _, err := r.Retrieve(id); err == nil {
				bad("Reader.Retrieve of an unknown identifier returns no error")
			}
			d := bigDoc(1, 16)
			d.Metadata.Id = id
			if err := w.Store(d); err != nil {
				bad("store under an identifier of %d characters fails: %v", len([]rune(id)), err)
			} else if got, err := r.Retrieve(id); err != nil || !proto.Equal(got, d) {
				bad("a document stored under an identifier of %d characters does not come back (error %v)", len([]rune(id)), err)
			}
		}()
	}
	if _, err := r.Retrieve("urn:wrap:unknown"); err == nil {
		bad("Reader.Retrieve of an unknown identifier returns no error")
	}
	if _, err := r.Retrieve(""); err == nil {
		bad("Reader.Retrieve of the empty identifier returns no error")
	}
	if err := w.Store(nil); err == nil {
		bad("Writer.Store(nil) returns no error")
	}
	return M{"problems": problems}
}

// sharedCallOptions: the options of a call are the caller's: a call neither needs a format in them
// (the writer's is used) nor leaves one behind
func sharedCallOptions() any {
	problems := []any{}
	bad := func(format string, a ...any) { problems = append(problems, fmt.Sprintf(format, a...)) }
	doc := bigDoc(2, 16)
	shared := &writer.Options{RenderOptions: &native.RenderOptions{Indent: 2}}
	for round := 0; round < 2; round++ {
		for _, f := range []formats.Format{formats.CDX15JSON, formats.SPDX23JSON, formats.CDX14JSON, formats.CDX13JSON} {
			buf := nopCloser{&bytes.Buffer{}}
			if err := writer.New(writer.WithFormat(f)).WriteStreamWithOptions(doc, buf, shared); err != nil {
				bad("a %s writer fails with format-less call options: %v", f, err)
				continue
			}
			got, err := (&formats.Sniffer{}).SniffReader(bytes.NewReader(buf.Bytes()))
			if err != nil || got != f {
				bad("the output of the %s writer, called with options that carry no format, is detected as %q (%v)", f, got, err)
			}
			if shared.Format != "" {
				bad("the call wrote format %q into the caller's options", shared.Format)
				shared.Format = ""
			}
		}
	}
	return M{"problems": problems}
}

// rewriteAfterEdit: what a write produces is a function of the document as it is at the time of
// the call; a caller that swaps a node object for another one between two writes (same identifier,
// same list length) gets the new node written
func rewriteAfterEdit(f formats.Format) any {
	problems := []any{}
	bad := func(format string, a ...any) { problems = append(problems, fmt.Sprintf(format, a...)) }
	build := func(release string) *sbom.Document {
		d := sbom.NewDocument()
		d.Metadata.Id = "urn:uuid:0b1e0000-0000-4000-8000-000000000002"
		d.Metadata.Name = "doc"
		d.NodeList.AddRootNode(&sbom.Node{Id: "app", Name: "app", Version: release, Description: "release " + release,
			Identifiers: map[int32]string{1: "pkg:generic/app@" + release}})
		d.NodeList.AddNode(&sbom.Node{Id: "lib", Name: "lib", Version: release})
		d.NodeList.AddEdge(&sbom.Edge{Type: sbom.Edge_contains, From: "app", To: []string{"lib"}})
		return d
	}
	// the same with ONE writer for both writes and edits made in place that keep every size: fields of
	// the same length, an edge type, the root's identifier renamed everywhere
	for k, edit := range []func(d *sbom.Document){
		func(d *sbom.Document) { d.NodeList.Nodes[0].Version = "1.0.1" },
		func(d *sbom.Document) { d.NodeList.Edges[0].Type = sbom.Edge_dependsOn },
		func(d *sbom.Document) {
			d.NodeList.Nodes[0].Id = "ap2"
			d.NodeList.RootElements[0] = "ap2"
			d.NodeList.Edges[0].From = "ap2"
		},
		func(d *sbom.Document) { d.NodeList.Nodes[1].Name = "lic" },
	} {
		w := writer.New(writer.WithFormat(f), writer.WithRenderOptions(&native.RenderOptions{Indent: 2}))
		write := func(d *sbom.Document) ([]byte, error) {
			buf := nopCloser{&bytes.Buffer{}}
			err := w.WriteStream(d, buf)
			return buf.Bytes(), err
		}
		doc := build("1.0.0")
		if _, err := write(doc); err != nil {
			bad("write fails: %v", err)
			continue
		}
		edit(doc)
		want := build("1.0.0")
		edit(want)
		second, err := write(doc)
		fresh, err2 := WriteDoc(want, f, 2)
		if (err == nil) != (err2 == nil) {
			bad("%s, in-place edit %d: the edited document gives error %v through the writer that wrote it before, the same content written for the first time gives %v", f, k, err, err2)
			continue
		}
		if err == nil && outputDigest(second) != outputDigest(fresh) {
			bad("%s, in-place edit %d: a document written, edited in place and written again with the same writer differs from the same content written for the first time", f, k)
		}
	}
	for _, victim := range []int{0, 1} {
		doc := build("1.0.0")
		first, err := WriteDoc(doc, f, 2)
		if err != nil {
			bad("write fails: %v", err)
			continue
		}
		// lookups as callers make them between two writes
		_ = doc.NodeList.GetNodeByID("app")
		_ = doc.NodeList.GetNodeByID("lib")
		_ = doc.NodeList.GetRootNodes()
		other := build("2.0.0")
		doc.NodeList.Nodes[victim] = other.NodeList.Nodes[victim]
		want := build("1.0.0")
		want.NodeList.Nodes[victim] = build("2.0.0").NodeList.Nodes[victim]
		second, err := WriteDoc(doc, f, 2)
		fresh, err2 := WriteDoc(want, f, 2)
		if err != nil || err2 != nil {
			bad("write after the edit fails: %v / %v", err, err2)
			continue
		}
		if outputDigest(second) != outputDigest(fresh) {
			bad("%s: a document written, edited by replacing node object %d and written again differs from the same content written for the first time", f, victim)
		}
		if outputDigest(second) == outputDigest(first) {
			bad("%s: replacing node object %d between two writes does not change the output", f, victim)
		}
		back, err := reader.New().ParseStream(bytes.NewReader(second))
		if err != nil {
			bad("%s: the second output cannot be read back: %v", f, err)
			continue
		}
		id := []string{"app", "lib"}[victim]
		if n := back.NodeList.GetNodeByID(id); n == nil || n.Version != "2.0.0" {
			bad("%s: node %q was replaced by its 2.0.0 release before the second write, it reads back as %v", f, id, n.GetVersion())
		}
	}
	return M{"problems": problems}
}

// deepChain: chains of nested components, one child per level, well below every depth limit of the
// decoders: parsing is linear in the depth
func deepChain() any {
	problems := []any{}
	bad := func(format string, a ...any) { problems = append(problems, fmt.Sprintf(format, a...)) }
	for _, depth := range []int{4, 24, 64, 200} {
		var sb strings.Builder
		sb.WriteString(`{"bomFormat":"CycloneDX","specVersion":"1.5","version":1,"components":[`)
		for i := 0; i < depth; i++ {
			fmt.Fprintf(&sb, `{"bom-ref":"c%d","type":"library","name":"c%d","components":[`, i, i)
		}
		sb.WriteString(`{"bom-ref":"leaf","type":"library","name":"leaf"}`)
		for i := 0; i < depth; i++ {
			sb.WriteString(`]}`)
		}
		sb.WriteString(`]}`)
		t0 := time.Now()
		d, err := reader.New().ParseStream(strings.NewReader(sb.String()))
		if err != nil || d == nil {
			bad("a chain of %d nested components does not parse: %v", depth, err)
			continue
		}
		if n := len(d.NodeList.Nodes); n != depth+1 {
			bad("a chain of %d nested components gives %d nodes", depth, n)
		}
		if el := time.Since(t0); el > 20*time.Second {
			bad("a chain of %d nested components (%d bytes) takes %v to parse", depth, sb.Len(), el)
		}
	}
	// and the way round: a containment chain written and read back comes back whole
	for _, depth := range []int{10, 66, 81, 300} {
		doc := sbom.NewDocument()
		doc.Metadata.Id = "urn:uuid:3e671687-395b-41f5-a30f-a58921a69b79"
		for i := 0; i <= depth; i++ {
			n := sbom.NewNode()
			n.Id, n.Name, n.PrimaryPurpose = fmt.Sprintf("node-%03d", i), fmt.Sprintf("node-%03d", i), []sbom.Purpose{sbom.Purpose_LIBRARY}
			if i == 0 {
				doc.NodeList.AddRootNode(n)
			} else {
				doc.NodeList.AddNode(n)
				doc.NodeList.AddEdge(&sbom.Edge{Type: sbom.Edge_contains, From: fmt.Sprintf("node-%03d", i-1), To: []string{n.Id}})
			}
		}
		for _, f := range []formats.Format{formats.CDX15JSON, formats.CDX14JSON} {
			by, err := WriteDoc(doc, f, 0)
			if err != nil {
				bad("a containment chain of %d links is not written as %s: %v", depth, f, err)
				continue
			}
			back, err := reader.New().ParseStream(bytes.NewReader(by))
			if err != nil || back == nil {
				bad("the %s output of a containment chain of %d links does not parse: %v", f, depth, err)
				continue
			}
			if got := len(back.GetNodeList().GetNodes()); got != depth+1 {
				bad("a containment chain of %d nodes written as %s and read back has %d nodes", depth+1, f, got)
			}
		}
	}
	return M{"problems": problems}
}

// anonBig: a native CycloneDX document with more than a thousand components that carry no
// reference: every one gets an identifier of its own, the same at every parse
func anonBig() any {
	problems := []any{}
	bad := func(format string, a ...any) { problems = append(problems, fmt.Sprintf(format, a...)) }
	for _, n := range []int{1023, 1025, 2100} {
		var sb strings.Builder
		sb.WriteString(`{"bomFormat":"CycloneDX","specVersion":"1.4","version":1,"metadata":{"component":{"bom-ref":"main","type":"application","name":"main"}},"components":[`)
		for i := 0; i < n; i++ {
			if i > 0 {
				sb.WriteString(",")
			}
			fmt.Fprintf(&sb, `{"type":"library","name":"lib-%d","version":"1.%d"}`, i, i)
		}
		sb.WriteString(`]}`)
		var first []string
		for pass := 0; pass < 2; pass++ {
			d, err := reader.New().ParseStream(strings.NewReader(sb.String()))
			if err != nil || d == nil {
				bad("a document with %d components without reference does not parse: %v", n, err)
				break
			}
			ids := []string{}
			seen := map[string]bool{}
			for _, nd := range d.GetNodeList().GetNodes() {
				if seen[nd.Id] {
					bad("a document with %d components without reference: identifier %q is given twice", n, nd.Id)
					break
				}
				seen[nd.Id] = true
				ids = append(ids, nd.Id+"="+nd.Name)
			}
			if len(ids) != n+1 {
				bad("a document with %d components without reference and a main component gives %d nodes", n, len(ids))
			}
			sort.Strings(ids)
			if pass == 0 {
				first = ids
			} else if !slices.Equal(first, ids) {
				bad("a document with %d components without reference gets other identifiers at the second parse", n)
			}
		}
	}
	return M{"problems": problems}
}

// copyBig: a copy of a node list of any length shares no node, edge or nested value with its source
func copyBig() any {
	problems := []any{}
	bad := func(format string, a ...any) { problems = append(problems, fmt.Sprintf(format, a...)) }
	for _, n := range []int{1000, 4096, 4133, 5000, 9001} {
		src := bigDoc(n-1, 8).NodeList
		for i, nd := range src.Nodes {
			nd.Licenses = []string{"MIT"}
			nd.Hashes = map[int32]string{1: fmt.Sprint(i)}
			nd.Suppliers = []*sbom.Person{{Name: "s", Contacts: []*sbom.Person{{Name: "c"}}}}
		}
		cp := src.Copy()
		if len(cp.Nodes) != len(src.Nodes) || !cp.Equal(src) {
			bad("the copy of a list of %d nodes does not equal its source", n)
			continue
		}
		shared, deep := 0, 0
		for i := range src.Nodes {
			if cp.Nodes[i] == src.Nodes[i] {
				shared++
				continue
			}
			if len(cp.Nodes[i].Suppliers) > 0 && cp.Nodes[i].Suppliers[0] == src.Nodes[i].Suppliers[0] {
				deep++
			}
		}
		if shared > 0 || deep > 0 {
			bad("%d of the %d nodes of the copy are the source's own node objects, %d more share a supplier with it", shared, n, deep)
		}
		// and as behaviour: editing every node of the copy leaves the source as it was
		before := src.Nodes[len(src.Nodes)-1].Name
		for _, nd := range cp.Nodes {
			nd.Name = "edited"
			nd.Licenses[0] = "edited"
			nd.Hashes[1] = "edited"
		}
		for i, nd := range src.Nodes {
			if nd.Name == "edited" || nd.Licenses[0] != "MIT" || nd.Hashes[1] != fmt.Sprint(i) {
				bad("editing the copy of a list of %d nodes changed source node %d (its name was %q)", n, i, before)
				break
			}
		}
	}
	return M{"problems": problems}
}

type refusingStream struct{ accept int }

func (r *refusingStream) Write(p []byte) (int, error) {
	if r.accept <= 0 {
		return 0, fmt.Errorf("stream refuses the write")
	}
	n := min(r.accept, len(p))
	r.accept -= n
	if n < len(p) {
		return n, fmt.Errorf("stream is full")
	}
	return n, nil
}
func (r *refusingStream) Close() error { return nil }

// failedWriteThenWrite: a write to a stream that refuses or shortens it must be reported, and must
// not leak into what later writes produce
func failedWriteThenWrite() any {
	problems := []any{}
	bad := func(format string, a ...any) { problems = append(problems, fmt.Sprintf(format, a...)) }
	first, second := bigDoc(6, 64), bigDoc(2, 16)
	for _, f := range roundTripFormats {
		for _, accept := range []int{0, 1, 100} {
			for round := 0; round < 8; round++ { // pooled state is handed out at random: try a few times
				w := writer.New(writer.WithFormat(f))
				if err := w.WriteStream(first, &refusingStream{accept: accept}); err == nil {
					bad("%s: a write to a stream that accepts %d bytes reports success", f, accept)
				}
				// first in another format: what the failed write left must not reach any later output
				for _, g := range roundTripFormats {
					if g == f {
						continue
					}
					ob := nopCloser{&bytes.Buffer{}}
					if err := writer.New(writer.WithFormat(g)).WriteStream(second, ob); err != nil {
						bad("%s: a write in %s after a failed write fails: %v", f, g, err)
					} else if got, err := (&formats.Sniffer{}).SniffReader(bytes.NewReader(ob.Bytes())); err != nil || got != g {
						bad("%s: the output written as %s after a failed write is detected as %q (%v)", f, g, got, err)
					}
					break
				}
				buf := nopCloser{&bytes.Buffer{}}
				if err := writer.New(writer.WithFormat(f)).WriteStream(second, buf); err != nil {
					bad("%s: an ordinary write after a failed one fails: %v", f, err)
					continue
				}
				back, err := reader.New().ParseStream(bytes.NewReader(buf.Bytes()))
				if err != nil {
					bad("%s: the output written after a failed write cannot be read back: %v", f, err)
					break
				}
				if n := len(back.GetNodeList().GetNodes()); n != 3 {
					bad("%s: the document written after a failed write reads back with %d nodes, 3 were written", f, n)
					break
				}
			}
		}
	}
	return M{"problems": problems}
}

// readerReuse: one reader, several documents of different formats, auto-detection
func readerReuse(order []any) any {
	small := bigDoc(3, 16)
	docs := map[string][]byte{}
	fmts := map[string]formats.Format{"cdx": formats.CDX15JSON, "cdx14": formats.CDX14JSON, "spdx": formats.SPDX23JSON}
	for k, f := range fmts {
		b, err := WriteDoc(small, f, 2)
		if err != nil {
			return M{"err": "write: " + err.Error()}
		}
		docs[k] = b
	}
	r := reader.New()
	out := []any{}
	for _, o := range order {
		k := asStr(o)
		if docs[k] == nil {
			return "unknown-op"
		}
		got, err := r.ParseStream(bytes.NewReader(docs[k]))
		want, werr := reader.New().ParseStreamWithOptions(bytes.NewReader(docs[k]), &reader.Options{Format: fmts[k]})
		step := M{"doc": k}
		switch {
		case werr != nil:
			step["err"] = "a fresh reader told the format fails: " + werr.Error()
		case err != nil:
			step["err"] = "the shared reader fails: " + err.Error()
		default:
			step["got"] = bigSummary(got)
			step["want"] = bigSummary(want)
		}
		out = append(out, step)
	}
	return M{"steps": out}
}

// sniffLong: long inputs that are not an SBOM
func sniffLong(n int, shape string) any {
	if n < 0 || n > 64<<20 {
		return "unknown-op"
	}
	var b []byte
	switch shape {
	case "one-line":
		b = bytes.Repeat([]byte("A"), n)
	case "line-between":
		b = append(append([]byte("first line\n"), bytes.Repeat([]byte("z"), n)...), []byte("\nlast line\n")...)
	case "cut-json":
		b = append([]byte(`{"spdxVersion":"SPDX-2.3","name":"`), bytes.Repeat([]byte("q"), n)...) // the string never ends
	default:
		return "unknown-op"
	}
	rd := bytes.NewReader(b)
	f, err := (&formats.Sniffer{}).SniffReader(rd)
	pos, _ := rd.Seek(0, io.SeekCurrent)
	out := M{"r": string(f), "pos": float64(pos)}
	if err != nil {
		out["r"] = "err"
	}
	return out
}

func oracleBig(op M, res any, exec func(M) any) []Finding {
	var out []Finding
	name := asStr(op["op"])
	if name == "anonBig" || name == "filePaths" || name == "storeWrappers" || name == "storeRevisions" || name == "sharedCallOptions" || name == "failedWriteThenWrite" || name == "rewriteAfterEdit" || name == "deepChain" || name == "copyBig" {
		what := "file entry points (" + asStr(op["f"]) + ")"
		switch name {
		case "storeWrappers":
			what = "Writer.Store / Reader.Retrieve"
		case "storeRevisions":
			what = "revisions of a document stored through one backend"
		case "sharedCallOptions":
			what = "call options shared between writers"
		case "failedWriteThenWrite":
			what = "writes after a failed write"
		case "rewriteAfterEdit":
			what = "writes of an edited document (" + asStr(op["f"]) + ")"
		case "deepChain":
			what = "chains of nested components"
		case "anonBig":
			what = "many components without reference"
		case "copyBig":
			what = "copies of long node lists"
		}
		if s, ok := res.(string); ok {
			if s != "unknown-op" && s != "skipped-after-hang" {
				for _, p := range bigOpProps(op) {
					out = append(out, Finding{p, what + ": " + s})
				}
			}
			return out
		}
		r, _ := res.(M)
		for _, pr := range asList(r["problems"]) {
			for _, p := range bigOpProps(op) {
				out = append(out, Finding{p, what + ": " + asStr(pr)})
			}
		}
		return out
	}
	if name == "readerReuse" {
		r, _ := res.(M)
		if r == nil {
			if s, ok := res.(string); ok && s != "unknown-op" && s != "skipped-after-hang" {
				for _, p := range bigOpProps(op) {
					out = append(out, Finding{p, "one reader parsing documents of several formats: " + s})
				}
			}
			return out
		}
		msg := asStr(r["err"])
		for i, st := range asList(r["steps"]) {
			sm, _ := st.(M)
			if sm == nil || msg != "" {
				continue
			}
			if e := asStr(sm["err"]); e != "" {
				msg = fmt.Sprintf("parse %d (%s): %s", i+1, asStr(sm["doc"]), e)
			} else if !Equal(sm["got"], sm["want"]) {
				msg = fmt.Sprintf("parse %d (%s) with detection gives %s, a fresh reader told the format gives %s", i+1, asStr(sm["doc"]), js(sm["got"]), js(sm["want"]))
			}
		}
		if msg != "" {
			for _, p := range bigOpProps(op) {
				out = append(out, Finding{p, "one reader used for documents of several formats (" + js(op["order"]) + "): " + msg})
			}
		}
		return out
	}
	if name == "sniffLong" {
		what := fmt.Sprintf("detection on %d bytes that are no SBOM (%s)", asInt(op["bytes"]), asStr(op["shape"]))
		if s, ok := res.(string); ok {
			if s != "unknown-op" && s != "skipped-after-hang" {
				for _, p := range bigOpProps(op) {
					out = append(out, Finding{p, what + ": " + s})
				}
			}
			return out
		}
		r, _ := res.(M)
		if asStr(r["r"]) != "err" {
			out = append(out, Finding{"C06", fmt.Sprintf("%s reports %q", what, asStr(r["r"]))})
		}
		if asInt(r["pos"]) != 0 {
			out = append(out, Finding{"C06", fmt.Sprintf("%s leaves the stream at offset %d", what, asInt(r["pos"]))})
		}
		return out
	}
	if name == "registryChurn" {
		props := bigOpProps(op)
		r, _ := res.(M)
		msg := ""
		switch {
		case r == nil:
			if s, ok := res.(string); ok && s != "unknown-op" && s != "skipped-after-hang" {
				msg = s
			}
		case asStr(r["err"]) != "":
			msg = asStr(r["err"])
		case int(asInt(r["nodes"])) != 3:
			msg = fmt.Sprintf("%d nodes parsed, 3 written", asInt(r["nodes"]))
		}
		if msg != "" {
			for _, p := range props {
				out = append(out, Finding{p, fmt.Sprintf("after registering, replacing and removing private drivers (%s registry; one removed twice, one never registered) ordinary use gives: %s", asStr(op["side"]), msg)})
			}
		}
		return out
	}
	n, desc := int(asInt(op["n"])), int(asInt(op["desc"]))
	shape := fmt.Sprintf("%d packages with %d-byte descriptions", n, desc)
	if s, ok := res.(string); ok {
		if s == "unknown-op" || s == "skipped-after-hang" {
			return out
		}
		p := "C07"
		if name == "storeBig" {
			p = "C19"
		}
		return append(out, Finding{p, fmt.Sprintf("%s of a document of %s ends with %s", name, shape, s)})
	}
	r, _ := res.(M)
	switch name {
	case "sniffBig":
		if asStr(r["r"]) != asStr(op["f"]) {
			out = append(out, Finding{"C06", fmt.Sprintf("the writer's %s output of %d bytes (%s, indent %d) is detected as %q", asStr(op["f"]), asInt(r["bytes"]), shape, asInt(op["indent"]), asStr(r["r"]))})
		}
		if asInt(r["pos"]) != 0 {
			out = append(out, Finding{"C06", fmt.Sprintf("after detection on %d bytes the stream is at offset %d", asInt(r["bytes"]), asInt(r["pos"]))})
		}
	case "rtBig", "storeBig":
		props := []string{"C19"}
		what := "store / retrieve"
		if name == "rtBig" {
			what = "write / read as " + asStr(op["f"])
			if isSpdxFormat(asStr(op["f"])) {
				props = []string{"C01", "C03", "C04", "C05"}
			} else {
				props = []string{"C02", "C03", "C04", "C05"}
			}
		}
		add := func(f string, a ...any) {
			for _, p := range props {
				out = append(out, Finding{p, fmt.Sprintf("%s of a document of %s: ", what, shape) + fmt.Sprintf(f, a...)})
			}
		}
		if e := asStr(r["err"]); e != "" {
			add("%s", e)
			return out
		}
		if int(asInt(r["distinct"])) != n+1 || int(asInt(r["nodes"])) != n+1 {
			add("%d nodes (%d distinct) come back, %d were written", asInt(r["nodes"]), asInt(r["distinct"]), n+1)
		}
		if asStr(r["roots"]) != "big-root" {
			add("root elements are %q", asStr(r["roots"]))
		}
		if int(asInt(r["contained"])) != n {
			add("%d containment targets come back, %d were written", asInt(r["contained"]), n)
		}
		if int(asInt(r["desc"])) != n*desc && !(desc < 7 && int(asInt(r["desc"])) == n*7) {
			add("%d description bytes come back, %d were written", asInt(r["desc"]), n*desc)
		}
		if int(asInt(r["hashes"])) != n || int(asInt(r["purls"])) != n || int(asInt(r["versions"])) != n+1 {
			add("%d hashes, %d purls, %d versions come back for %d packages", asInt(r["hashes"]), asInt(r["purls"]), asInt(r["versions"]), n)
		}
		if name == "storeBig" && r["equal"] != true {
			add("the retrieved document is not equal to the stored one")
		}
	}
	return out
}

var BigStream = &Stream{
	// scenarios of many calls (child processes, large documents): the watchdog allows for a loaded machine;
	// a call that blocks is still reported (the children have their own, shorter limits)
	Timeout:    150 * time.Second,
	Name:       "big",
	Gen:        bigGen,
	Exec:       ExecBig,
	Oracle:     oracleBig,
	Canon:      func(v any) any { return Normalize(v) },
	Nontrivial: func(op M) bool { return true },
	OpProps:    bigOpProps,
	Reps:       1,
	NoModel:    func(op M) bool { return true },
	NoShrink:   true,
}

func isSpdxFormat(f string) bool { ff := formats.Format(f); return ff.Type() == formats.SPDXFORMAT }

func bigOpProps(op M) []string {
	switch asStr(op["op"]) {
	case "sniffBig":
		return []string{"C06"}
	case "storeBig":
		return []string{"C19"}
	case "filePaths":
		if isSpdxFormat(asStr(op["f"])) {
			return []string{"C01", "C03", "C04", "C06", "C07", "C18"}
		}
		return []string{"C02", "C03", "C04", "C06", "C07", "C18"}
	case "rewriteAfterEdit":
		if isSpdxFormat(asStr(op["f"])) {
			return []string{"C01", "C03", "C07"}
		}
		return []string{"C02", "C03", "C07"}
	case "deepChain":
		return []string{"C03", "C04", "C05"}
	case "anonBig":
		return []string{"C04", "C05"}
	case "copyBig":
		return []string{"C12"}
	case "storeWrappers":
		return []string{"C19"}
	case "storeRevisions":
		return []string{"C19", "C20"}
	case "sharedCallOptions":
		return []string{"C06", "C07", "C18"}
	case "failedWriteThenWrite":
		return []string{"C01", "C02", "C06", "C07"}
	case "readerReuse":
		return []string{"C01", "C02", "C05", "C18"}
	case "sniffLong":
		return []string{"C04", "C06"}
	case "registryChurn":
		if asStr(op["side"]) == "writer" {
			return []string{"C07", "C17"}
		}
		return []string{"C04", "C17"}
	}
	if isSpdxFormat(asStr(op["f"])) {
		return []string{"C01", "C03", "C04", "C05"}
	}
	return []string{"C02", "C03", "C04", "C05"}
}

func BigDocForTest(n, desc int) *sbom.Document { return bigDoc(n, desc) }
