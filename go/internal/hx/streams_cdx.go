package hx

import (
	"bytes"
	"encoding/json"
	"fmt"
	"sort"
	"strings"

	cdx "github.com/CycloneDX/cyclonedx-go"
	"github.com/protobom/protobom/pkg/formats"
	"github.com/protobom/protobom/pkg/sbom"
)

// The `cdx` stream (C02, C03, C05): CycloneDX write/read with the real writer and reader, the
// serializer's component tree after cyclonedx-go's conversion, and the parser on generated BOMs.

func cdxFormat(v int) formats.Format {
	switch v {
	case 3:
		return formats.CDX13JSON
	case 4:
		return formats.CDX14JSON
	}
	return formats.CDX15JSON
}

func hashesJ(hs *[]cdx.Hash) []any {
	out := []any{}
	if hs == nil {
		return out
	}
	for _, h := range *hs {
		out = append(out, []any{string(h.Algorithm), h.Value})
	}
	return out
}

func compJ(c *cdx.Component) M {
	lic := any(nil)
	if c.Licenses != nil {
		l := []any{}
		for _, lc := range *c.Licenses {
			var id any
			if lc.License != nil {
				id = lc.License.ID
			}
			l = append(l, M{"e": lc.Expression, "id": id})
		}
		lic = l
	}
	refs := []any{}
	if c.ExternalReferences != nil {
		for _, r := range *c.ExternalReferences {
			refs = append(refs, M{"u": r.URL, "c": r.Comment, "t": string(r.Type), "h": hashesJ(r.Hashes)})
		}
	}
	var sup any
	if c.Supplier != nil {
		cs := []any{}
		if c.Supplier.Contact != nil {
			for _, k := range *c.Supplier.Contact {
				cs = append(cs, []any{k.Name, k.Email, k.Phone})
			}
		}
		sup = []any{c.Supplier.Name, cs}
	}
	kids := []any{}
	if c.Components != nil {
		for i := range *c.Components {
			kids = append(kids, compJ(&(*c.Components)[i]))
		}
	}
	return M{"ref": c.BOMRef, "type": string(c.Type), "name": c.Name, "version": c.Version, "description": c.Description,
		"copyright": c.Copyright, "purl": c.PackageURL, "cpe": c.CPE, "licenses": lic, "hashes": hashesJ(c.Hashes),
		"refs": refs, "supplier": sup, "components": kids}
}

func bomJ(b *cdx.BOM) M {
	out := M{"serial": b.SerialNumber, "version": float64(b.Version), "meta": nil, "lifecycles": []any{}, "authors": []any{}, "tools": []any{}}
	if b.Metadata != nil {
		if b.Metadata.Component != nil {
			out["meta"] = compJ(b.Metadata.Component)
		}
		lcs := []any{}
		if b.Metadata.Lifecycles != nil {
			for _, l := range *b.Metadata.Lifecycles {
				lcs = append(lcs, []any{string(l.Phase), l.Name, l.Description})
			}
		}
		out["lifecycles"] = lcs
		as := []any{}
		if b.Metadata.Authors != nil {
			for _, a := range *b.Metadata.Authors {
				as = append(as, []any{a.Name, a.Email, a.Phone})
			}
		}
		out["authors"] = as
		ts := []any{}
		if b.Metadata.Tools != nil && b.Metadata.Tools.Tools != nil {
			for _, t := range *b.Metadata.Tools.Tools {
				ts = append(ts, []any{t.Name, t.Version})
			}
		}
		out["tools"] = ts
	}
	comps := []any{}
	if b.Components != nil {
		for i := range *b.Components {
			comps = append(comps, compJ(&(*b.Components)[i]))
		}
	}
	out["components"] = comps
	deps := []any{}
	if b.Dependencies != nil {
		for _, d := range *b.Dependencies {
			ts := []any{}
			if d.Dependencies != nil {
				for _, t := range *d.Dependencies {
					ts = append(ts, t)
				}
			}
			deps = append(deps, []any{d.Ref, ts})
		}
	}
	out["deps"] = deps
	return out
}

// compOfJ builds a cyclonedx-go component from the native JSON form (for the parser stream).
func compOfJ(v any) cdx.Component {
	m := v.(M)
	c := cdx.Component{BOMRef: asStr(m["ref"]), Type: cdx.ComponentType(asStr(m["type"])), Name: asStr(m["name"]),
		Version: asStr(m["version"]), Description: asStr(m["description"]), Copyright: asStr(m["copyright"]),
		PackageURL: asStr(m["purl"]), CPE: asStr(m["cpe"])}
	if l, ok := m["licenses"].([]any); ok {
		lics := cdx.Licenses{}
		for _, x := range l {
			xm := x.(M)
			lc := cdx.LicenseChoice{Expression: asStr(xm["e"])}
			if xm["id"] != nil {
				lc.License = &cdx.License{ID: asStr(xm["id"])}
			}
			lics = append(lics, lc)
		}
		c.Licenses = &lics
	}
	hs := func(v any) *[]cdx.Hash {
		l := asList(v)
		if len(l) == 0 {
			return nil
		}
		out := []cdx.Hash{}
		for _, h := range l {
			q := h.([]any)
			out = append(out, cdx.Hash{Algorithm: cdx.HashAlgorithm(asStr(q[0])), Value: asStr(q[1])})
		}
		return &out
	}
	c.Hashes = hs(m["hashes"])
	if l := asList(m["refs"]); len(l) > 0 {
		refs := []cdx.ExternalReference{}
		for _, r := range l {
			rm := r.(M)
			refs = append(refs, cdx.ExternalReference{URL: asStr(rm["u"]), Comment: asStr(rm["c"]),
				Type: cdx.ExternalReferenceType(asStr(rm["t"])), Hashes: hs(rm["h"])})
		}
		c.ExternalReferences = &refs
	}
	if l := asList(m["components"]); len(l) > 0 {
		kids := []cdx.Component{}
		for _, k := range l {
			kids = append(kids, compOfJ(k))
		}
		c.Components = &kids
	}
	return c
}

func encodeBOM(m M) ([]byte, error) {
	b := cdx.NewBOM()
	b.SerialNumber = asStr(m["serial"])
	if v, ok := m["version"]; ok {
		b.Version = int(asInt(v))
	}
	if m["meta"] != nil || len(asList(m["lifecycles"])) > 0 {
		md := cdx.Metadata{}
		if m["meta"] != nil {
			c := compOfJ(m["meta"])
			md.Component = &c
		}
		if l := asList(m["lifecycles"]); len(l) > 0 {
			lcs := []cdx.Lifecycle{}
			for _, x := range l {
				q := x.([]any)
				lcs = append(lcs, cdx.Lifecycle{Phase: cdx.LifecyclePhase(asStr(q[0])), Name: asStr(q[1]), Description: asStr(q[2])})
			}
			md.Lifecycles = &lcs
		}
		b.Metadata = &md
	}
	if l := asList(m["components"]); len(l) > 0 {
		comps := []cdx.Component{}
		for _, c := range l {
			comps = append(comps, compOfJ(c))
		}
		b.Components = &comps
	}
	// plain encoding/json of the structure: no down-conversion, the text is what a producer wrote
	b.SpecVersion = cdx.SpecVersion1_5
	return json.Marshal(b)
}

func ExecCdx(op M) (res any) {
	name := asStr(op["op"])
	ok := false
	func() {
		defer func() { recover() }()
		if name == "cdxUnser" {
			if _, err := encodeBOM(op["bom"].(M)); err != nil {
				return
			}
		} else {
			DocOf(op["doc"])
		}
		ok = true
	}()
	if !ok {
		return "unknown-op"
	}
	defer func() {
		if r := recover(); r != nil {
			res = fmt.Sprintf("panic: %v", r)
		}
	}()
	v := 5
	if x, has := op["v"]; has {
		v = int(asInt(x))
	}
	switch name {
	case "cdxRT":
		return roundTrip(DocOf(op["doc"]), cdxFormat(v), 2)
	case "cdxRT2":
		b, err := WriteDoc(DocOf(op["doc"]), cdxFormat(v), 2)
		if err != nil {
			return "err"
		}
		d2, err := ReadDoc(b)
		if err != nil {
			return "err"
		}
		return roundTrip(d2, cdxFormat(v), 2)
	case "cdxSer":
		raw, err := WriteDoc(DocOf(op["doc"]), cdxFormat(v), 2)
		if err != nil {
			return "err"
		}
		b := new(cdx.BOM)
		if err := cdx.NewBOMDecoder(bytes.NewReader(raw), cdx.BOMFileFormatJSON).Decode(b); err != nil {
			return "decode-err"
		}
		return bomJ(b)
	case "cdxUnser":
		raw, _ := encodeBOM(op["bom"].(M))
		d, err := ReadDoc(raw)
		if err != nil {
			return "err"
		}
		return DocJ(d)
	}
	return "unknown-op"
}

// ---------------------------------------------------------------------------------------------
// generation

var cdxNative15 = []int{1, 5, 6, 7, 8, 13, 14, 16, 17, 21, 24} // one purpose per CycloneDX 1.5 component type
var cdxNative14 = []int{1, 5, 7, 13, 14, 16, 21}               // ... and at 1.4 (no data, device-driver, ML model, platform)
var cdxHashAlgos = []int{1, 2, 3, 4, 5, 6, 7, 8, 9, 10, 11, 12}

// protobom reference types whose CycloneDX name exists since 1.1 / only since 1.5
var cdxRefTypes14 = []int{3, 5, 6, 8, 13, 14, 21, 22, 24, 31, 39, 44, 45, 52, 55, 56, 60}
var cdxRefTypes15 = []int{1, 7, 9, 10, 11, 12, 15, 17, 19, 23, 25, 28, 37, 40, 41, 43, 48, 51, 54, 57, 59}

func (g *G) cdxNode(id string, v int, inClass bool) M {
	attrs := M{}
	ty := 0.0
	if g.Chance(0.2) {
		ty = 1
	} else {
		pool := cdxNative15
		if v < 5 {
			pool = cdxNative14
		}
		ps := []any{float64(g.Pick2(pool))}
		if !inClass {
			if g.Chance(0.3) {
				ps = []any{float64(g.Pick2([]int{0, 2, 12, 20, 22, 26, 99}))}
			}
			if g.Chance(0.2) {
				ps = append(ps, float64(16))
			}
			if g.Chance(0.15) {
				ps = []any{float64(g.Pick2([]int{16, 14, 5, 1})), float64(g.Pick2([]int{1, 13, 16, 21})), float64(g.Pick2([]int{13, 5, 14}))}[:2+g.Int(2)]
			}
			if g.Chance(0.15) {
				ps = nil
			}
		}
		if ps != nil {
			attrs["PrimaryPurpose"] = ps
		}
	}
	if g.Chance(0.15) {
		// attributes CycloneDX has no member for: they are not written, and nothing else is written
		// in their place
		attrs[g.Pick([]string{"Summary", "SourceInfo", "Comment", "LicenseComments"})] = g.Pick([]string{"a library, in short", "built from source", "x"})
	}
	for _, f := range []string{"Name", "Version", "Description", "Copyright"} {
		if g.Chance(0.6) {
			attrs[f] = g.text()
		}
	}
	if g.Chance(0.5) {
		h := []any{}
		for _, a := range cdxHashAlgos {
			if g.Chance(0.2) {
				h = append(h, []any{float64(a), g.Pick([]string{"aa", "bb", "0f"})})
			}
		}
		if !inClass && g.Chance(0.3) {
			h = append(h, []any{float64(g.Pick2([]int{0, 13, 17, 99})), "zz"})
		}
		if len(h) > 0 {
			attrs["Hashes"] = h
		}
	}
	if g.Chance(0.5) {
		ids := []any{}
		if g.Chance(0.6) {
			ids = append(ids, []any{1.0, g.Pick(purlPool)})
		}
		switch g.Int(3) {
		case 0:
			ids = append(ids, []any{3.0, "cpe:2.3:a:x:y"})
		case 1:
			ids = append(ids, []any{2.0, "cpe:/a:x:y"})
		}
		if !inClass && g.Chance(0.3) {
			ids = append(ids, []any{float64(g.Pick2([]int{2, 3, 4, 0})), g.Pick([]string{"cpe:2.3:z", "cpe:/z", "gitoid:x"})})
			ids = mapToPairs(pairsToMap(ids))
		}
		if len(ids) > 0 {
			attrs["Identifiers"] = ids
		}
	}
	if g.Chance(0.3) {
		l := []any{g.Pick([]string{"MIT", "Apache-2.0", "GPL-2.0-only"})}
		if !inClass && g.Chance(0.5) {
			l = append(l, "BSD-3-Clause")
		}
		attrs["Licenses"] = l
	}
	if g.Chance(0.4) {
		refs := []any{}
		for k := 0; k <= g.Int(2); k++ {
			pool := cdxRefTypes14
			if v >= 5 && g.Chance(0.4) {
				pool = cdxRefTypes15
			}
			r := M{"t": float64(g.Pick2(pool)), "u": g.Pick([]string{"http://a", "https://b/c?d=e",
				// locators are text: nothing rewrites them
				"https://example.com/handbuch/überblick", "HTTP://EXAMPLE.com/x y", "just some text", "https://x/#", "git@host:org/repo.git"})}
			if g.Chance(0.4) {
				r["c"] = g.text()
			}
			if g.Chance(0.4) {
				r["h"] = []any{[]any{float64(g.Pick2(cdxHashAlgos)), "ab"}}
			}
			if !inClass && g.Chance(0.3) {
				r["t"] = float64(g.Pick2([]int{0, 4, 30, 46, 32, 99}))
			}
			refs = append(refs, r)
		}
		if g.Chance(0.25) {
			// a second reference with the type and URL of the first, told apart by comment and hashes
			twin := Normalize(refs[0]).(M)
			twin["c"] = "mirror"
			twin["h"] = []any{[]any{float64(g.Pick2(cdxHashAlgos)), "cd"}}
			refs = append(refs, twin)
			if g.Chance(0.3) {
				refs = append(refs, Normalize(refs[0])) // and an exact duplicate
			}
		}
		attrs["ExternalReferences"] = refs
	}
	if !inClass && g.Chance(0.2) {
		attrs["Suppliers"] = []any{M{"n": "ACME", "o": true, "c": []any{M{"n": "Jo", "o": false, "e": "jo@x"}}}}
	}
	return M{"id": id, "type": ty, "a": attrs}
}

// cdxTreeDoc: one root, the other nodes a containment tree under it; the edge list is a random
// permutation and a parent's children may be spread over several edges.
func (g *G) cdxTreeDoc(v int, inClass bool) M {
	n := 1 + g.Int(7)
	perm := g.R.Perm(len(spdxIDPool))
	ids := []string{}
	for i := 0; i < n; i++ {
		ids = append(ids, spdxIDPool[perm[i]])
	}
	nodes := []any{}
	for _, id := range ids {
		nodes = append(nodes, g.cdxNode(id, v, inClass))
	}
	g.R.Shuffle(len(nodes), func(i, j int) { nodes[i], nodes[j] = nodes[j], nodes[i] })
	edges := []any{}
	for i := 1; i < n; i++ {
		p := ids[g.Int(i)]
		if !inClass && g.Chance(0.2) {
			continue // leaves parts of the graph detached from the root
		}
		merged := false
		if g.Chance(0.5) {
			for _, e := range edges {
				em := e.(M)
				if asStr(em["src"]) == p {
					em["tos"] = append(asList(em["tos"]), ids[i])
					merged = true
					break
				}
			}
		}
		if !merged {
			edges = append(edges, M{"ty": 5.0, "src": p, "tos": []any{ids[i]}})
		}
	}
	if !inClass {
		for k := 0; k < g.Int(4); k++ {
			ty := g.Pick2([]int{5, 10, 10, 1, 0})
			tos := []any{}
			for t := 0; t <= g.Int(2); t++ {
				tos = append(tos, g.Pick(ids))
			}
			edges = append(edges, M{"ty": float64(ty), "src": g.Pick(ids), "tos": tos})
		}
	}
	if !inClass && n >= 3 && g.Chance(0.3) {
		// the shape a parsed SPDX document has: one single-target edge per relationship, so edges of
		// the same source and type repeat, interleaved with edges of other sources
		srcs := []string{g.Pick(ids), g.Pick(ids)}
		for k := 0; k < 3+g.Int(4); k++ {
			edges = append(edges, M{"ty": float64(g.Pick2([]int{10, 10, 10, 5})), "src": srcs[g.Int(2)], "tos": []any{g.Pick(ids)}})
		}
	}
	if !inClass && n >= 3 && g.Chance(0.15) {
		// a containment cycle that nothing outside it contains (detached from the root), or hanging off it
		k := 2
		if n >= 4 && g.Chance(0.5) {
			k = 3
		}
		cyc := ids[n-k:]
		inCyc := map[string]bool{}
		for _, c := range cyc {
			inCyc[c] = true
		}
		detached := g.Chance(0.6)
		kept := []any{}
		for _, e := range edges {
			em := e.(M)
			tos := []any{}
			for _, t := range asList(em["tos"]) {
				if !(detached && inCyc[asStr(t)] && asInt(em["ty"]) == 5) {
					tos = append(tos, t)
				}
			}
			if len(tos) > 0 {
				em["tos"] = tos
				kept = append(kept, em)
			}
		}
		edges = kept
		for i := range cyc {
			edges = append(edges, M{"ty": 5.0, "src": cyc[i], "tos": []any{cyc[(i+1)%k]}})
		}
	}
	g.R.Shuffle(len(edges), func(i, j int) { edges[i], edges[j] = edges[j], edges[i] })
	roots := []any{ids[0]}
	if !inClass && g.Chance(0.1) {
		roots = append(roots, ids[len(ids)-1])
	}
	if !inClass && g.Chance(0.05) {
		roots = []any{}
	}
	types := []any{}
	if g.Chance(0.4) {
		types = append(types, M{"t": float64(g.Pick2([]int{1, 2, 3, 4, 5, 7, 8}))})
	}
	if g.Chance(0.25) {
		// a named lifecycle after (or without) a typed one
		types = append(types, M{"n": "free", "d": "text"})
		if g.Chance(0.5) {
			types = append(types, M{"t": float64(g.Pick2([]int{1, 3, 4}))})
		}
	}
	if !inClass && g.Chance(0.3) {
		types = append(types, M{"t": float64(g.Pick2([]int{0, 6, 99})), "n": "Custom"})
	}
	if !inClass && g.Chance(0.2) {
		types = append(types, M{"n": "free", "d": "text"})
	}
	// a document name next to the root's own name (the class predicate excludes the documents whose
	// root has none: there the name is the fallback for it)
	name := ""
	if g.Chance(0.3) {
		name = "docname"
	}
	// serial numbers: canonical, and the spellings other tools write (upper case, no urn prefix, braces)
	meta := M{"id": g.Pick([]string{"urn:uuid:3e671687-395b-41f5-a30f-a58921a69b79", "urn:uuid:1", "urn:uuid:3E671687-395B-41F5-A30F-A58921A69B79",
		"3e671687-395b-41f5-a30f-a58921a69b79", "{3e671687-395b-41f5-a30f-a58921a69b79}", "urn:uuid:3e671687-395b-41f5-a30f-a58921a69b79"}), "version": g.Pick([]string{"1", "7", "42", "0"}),
		"name": name, "comment": "", "tools": []any{}, "authors": []any{}, "types": types}
	if !inClass && g.Chance(0.2) {
		meta["version"] = g.Pick([]string{"", "x", "-3"})
	}
	return M{"meta": meta, "nl": M{"nodes": nodes, "edges": edges, "roots": roots}}
}

// nativeBOM: a CycloneDX document as a producer could write it: nesting, missing and duplicate
// bom-refs, explicit refs that look like generated ones, absent metadata component.
func (g *G) nativeBOM() M {
	cnt := 0
	var comp func(depth int) M
	comp = func(depth int) M {
		cnt++
		ref := ""
		switch g.Int(7) {
		case 0, 1:
			ref = fmt.Sprintf("c%d", cnt)
		case 2:
			// references are free text: the characters a key built from them might be cut at
			ref = fmt.Sprintf("c%d", cnt) + g.Pick([]string{"", "+++core", "+++", ":x", "+y", " z", "|w", "+++DEPENDS_ON"})
		case 3:
			ref = g.Pick([]string{"dup", "c1", "protobom-auto--000000002"})
		case 6:
			// distinct from every other reference, and equal to the previous component's up to letter case
			ref = fmt.Sprintf("C%d", cnt-1)
		}
		c := M{"ref": ref, "type": g.Pick([]string{"library", "application", "file", "container", "weird", ""}), "name": g.text(),
			"version": g.Pick([]string{"", "1.0"}), "description": "", "copyright": "", "purl": g.Pick([]string{"", "pkg:npm/a@1"}),
			"cpe": g.Pick([]string{"", "cpe:2.3:a:b", "cpe:/a:b"}), "licenses": nil, "hashes": []any{}, "refs": []any{}, "supplier": nil}
		if g.Chance(0.3) {
			l := []any{}
			for k := 0; k <= g.Int(2); k++ {
				switch g.Int(4) {
				case 0:
					l = append(l, M{"e": "MIT OR GPL-2.0", "id": nil})
				case 1:
					l = append(l, M{"e": "", "id": nil})
				case 2:
					l = append(l, M{"e": "", "id": ""})
				default:
					l = append(l, M{"e": "", "id": g.Pick([]string{"MIT", "Apache-2.0"})})
				}
			}
			c["licenses"] = l
		}
		if g.Chance(0.3) {
			c["hashes"] = []any{[]any{g.Pick([]string{"SHA-1", "SHA-256", "MD5", "WEIRD"}), "ab"}, []any{g.Pick([]string{"SHA-1", "SHA-256"}), "cd"}}
		}
		if g.Chance(0.3) {
			c["refs"] = []any{M{"u": "http://x", "c": "", "t": g.Pick([]string{"vcs", "website", "nonsense", "model-card"}), "h": []any{[]any{g.Pick([]string{"SHA-1", "WEIRD"}), "ab"}}}}
		}
		kids := []any{}
		if depth < 4 {
			for k := 0; k < g.Int(4); k++ {
				if g.Chance(0.5) {
					kids = append(kids, comp(depth+1))
				}
			}
		}
		c["components"] = kids
		return c
	}
	var meta any
	if g.Chance(0.8) {
		meta = comp(1)
	}
	comps := []any{}
	for k := 0; k < g.Int(5); k++ {
		comps = append(comps, comp(1))
	}
	lcs := []any{}
	if g.Chance(0.3) {
		lcs = append(lcs, []any{g.Pick([]string{"build", "design", "operations", "weird"}), "", ""})
	}
	return M{"serial": "urn:uuid:1", "version": float64(g.Int(5)), "meta": meta, "lifecycles": lcs, "components": comps}
}

func cdxGen(g *G, tier string) []M {
	n := 700
	if tier == "thorough" {
		n = 40000
	}
	var ops []M
	for i := 0; i < n; i++ {
		v := g.Pick2([]int{4, 5, 5, 4, 3})
		in := g.Chance(0.55)
		d := g.cdxTreeDoc(v, in)
		switch g.Int(8) {
		case 0:
			ops = append(ops, M{"op": "cdxSer", "doc": d, "v": float64(v), "class": in})
		case 1:
			ops = append(ops, M{"op": "cdxRT2", "doc": d, "v": float64(v), "class": in})
		case 2, 3:
			ops = append(ops, M{"op": "cdxUnser", "bom": g.nativeBOM()})
		default:
			ops = append(ops, M{"op": "cdxRT", "doc": d, "v": float64(v), "class": in})
		}
	}
	return ops
}

// ---------------------------------------------------------------------------------------------
// oracles

func nativeType(n M) string {
	if asInt(n["type"]) == 1 {
		return "file"
	}
	ps := asList(attrOf(n, "PrimaryPurpose"))
	if len(ps) == 0 {
		return ""
	}
	names := map[int64]string{1: "application", 11: "application", 15: "application", 5: "container",
		6: "data", 3: "data", 4: "data", 9: "data", 10: "data", 18: "data", 22: "data", 25: "data", 27: "data", 28: "data",
		7: "device", 8: "device-driver", 12: "file", 23: "file", 26: "file", 2: "file", 13: "firmware", 14: "framework",
		16: "library", 20: "library", 17: "machine-learning-model", 19: "machine-learning-model", 21: "operating-system", 24: "platform"}
	return names[asInt(ps[0])]
}

func inCdxClass(d M, v int) bool {
	if d["meta"] == nil || !docWF(d) {
		return false
	}
	nl := d["nl"].(M)
	roots := asList(nl["roots"])
	if len(roots) != 1 {
		return false
	}
	root := asStr(roots[0])
	parent := map[string]string{}
	for _, e := range asList(nl["edges"]) {
		em := e.(M)
		if asInt(em["ty"]) != 5 {
			return false
		}
		for _, t := range asList(em["tos"]) {
			if _, dup := parent[asStr(t)]; dup || asStr(t) == root {
				return false
			}
			parent[asStr(t)] = asStr(em["src"])
		}
	}
	md := d["meta"].(M)
	for _, c := range asStr(md["version"]) {
		if c < '0' || c > '9' {
			return false
		}
	}
	if asStr(md["version"]) == "" {
		return false
	}
	for _, t := range asList(md["types"]) {
		tm := t.(M)
		if tm["t"] == nil {
			continue // a named lifecycle: no type is written, none comes back
		}
		k := asInt(tm["t"])
		if !(k >= 1 && k <= 8 && k != 6) {
			return false
		}
	}
	for _, x := range asList(nl["nodes"]) {
		n := x.(M)
		id := asStr(n["id"])
		if id == "" || strings.HasPrefix(id, "protobom-") {
			return false
		}
		if id != root {
			// reaches the root through parents
			cur, steps := id, 0
			for cur != root {
				p, ok := parent[cur]
				if !ok || steps > 50 {
					return false
				}
				cur = p
				steps++
			}
		}
		nt := nativeType(n)
		if nt == "" {
			return false
		}
		if asInt(n["type"]) == 0 {
			ps := asList(attrOf(n, "PrimaryPurpose"))
			if len(ps) != 1 {
				return false
			}
			if nt == "file" {
				return false // a package whose purpose maps to `file` comes back as a FILE node
			}
		}
		if v < 5 && (nt == "data" || nt == "device-driver" || nt == "machine-learning-model" || nt == "platform") {
			return false
		}
		for _, p := range asList(attrOf(n, "Hashes")) {
			k := asInt(p.([]any)[0])
			if k < 1 || k > 12 {
				return false
			}
		}
		idm := pairsToMap(attrOf(n, "Identifiers"))
		for k, val := range idm {
			switch k {
			case 1:
			case 3:
				if !strings.HasPrefix(val, "cpe:2.3") {
					return false
				}
			case 2:
				if strings.HasPrefix(val, "cpe:2.3") {
					return false
				}
				if _, both := idm[3]; both {
					return false
				}
			default:
				return false
			}
			if val == "" {
				return false
			}
		}
		for _, l := range asList(attrOf(n, "Licenses")) {
			if asStr(l) == "" {
				return false
			}
		}
		for _, r := range asList(attrOf(n, "ExternalReferences")) {
			rm := r.(M)
			t := asInt(rm["t"])
			ok14, ok15 := false, false
			for _, x := range cdxRefTypes14 {
				if t == int64(x) {
					ok14 = true
				}
			}
			for _, x := range cdxRefTypes15 {
				if t == int64(x) {
					ok15 = true
				}
			}
			if !(ok14 || (ok15 && v >= 5)) {
				return false
			}
			for _, p := range asList(rm["h"]) {
				k := asInt(p.([]any)[0])
				if k < 1 || k > 12 {
					return false
				}
			}
			if asStr(rm["a"]) != "" {
				return false
			}
		}
		if v < 4 && asStr(attrOf(n, "Version")) == "" {
			return false
		}
		for _, f := range []string{"Suppliers", "Originators"} {
			if attrOf(n, f) != nil {
				return false
			}
		}
	}
	if asStr(md["name"]) != "" {
		for _, x := range asList(nl["nodes"]) {
			if asStr(x.(M)["id"]) == root && asStr(attrOf(x.(M), "Name")) == "" {
				return false
			}
		}
	}
	return true
}

func parentMap(nl M) map[string]string {
	out := map[string]string{}
	for _, e := range asList(nl["edges"]) {
		em := e.(M)
		if asInt(em["ty"]) != 5 {
			continue
		}
		for _, t := range asList(em["tos"]) {
			out[asStr(t)] = asStr(em["src"])
		}
	}
	return out
}

func cdxEquiv(d, r M, v int) []string {
	var out []string
	add := func(f string, a ...any) { out = append(out, fmt.Sprintf(f, a...)) }
	dn, rn := View(d["nl"].(M)), View(r["nl"].(M))
	if !setEq(dn.IDSet, rn.IDSet) || len(rn.IDs) != len(rn.IDSet) {
		add("node set differs: %v vs %v", dn.IDs, rn.IDs)
	}
	pd, pr := parentMap(d["nl"].(M)), parentMap(r["nl"].(M))
	if !Equal(pd, pr) {
		add("containment tree differs: parents %v vs %v", pd, pr)
	}
	if !setEq(dn.Roots, rn.Roots) {
		add("root differs")
	}
	for _, k := range keysHE(rn.HE) {
		if k[1] != "5" {
			add("an edge of type %s appeared", k[1])
		}
	}
	md, mr := d["meta"].(M), r["meta"].(M)
	if asStr(md["id"]) != asStr(mr["id"]) {
		add("serial number differs: %q vs %q", md["id"], mr["id"])
	}
	if asStr(md["version"]) != asStr(mr["version"]) {
		add("document version differs: %q vs %q", md["version"], mr["version"])
	}
	if v >= 5 {
		ts := func(m M) []any {
			l := []any{}
			for _, t := range asList(m["types"]) {
				l = append(l, t.(M)["t"])
			}
			return l
		}
		if !Equal(ts(md), ts(mr)) {
			add("lifecycle types differ: %v vs %v", ts(md), ts(mr))
		}
	}
	for id, ns := range dn.Nodes {
		rs, ok := rn.Nodes[id]
		if !ok {
			continue
		}
		a, b := ns[0], rs[0]
		if !Equal(attrOf(a, "Licenses"), attrOf(b, "Licenses")) {
			add("licence list of node %q: wrote %s, read %s", id, js(attrOf(a, "Licenses")), js(attrOf(b, "Licenses")))
		}
		for _, f := range []string{"Name", "Version", "Description", "Copyright", "Hashes"} {
			if !Equal(attrOf(a, f), attrOf(b, f)) {
				add("node %q attribute %s: wrote %s, read %s", id, f, js(attrOf(a, f)), js(attrOf(b, f)))
			}
		}
		if asInt(a["type"]) != asInt(b["type"]) {
			add("node %q kind changes", id)
		}
		if nativeType(a) != nativeType(b) {
			add("node %q component type %q reads back as %q", id, nativeType(a), nativeType(b))
		}
		if !Equal(attrOf(a, "Identifiers"), attrOf(b, "Identifiers")) {
			add("node %q identifiers: wrote %s, read %s", id, js(attrOf(a, "Identifiers")), js(attrOf(b, "Identifiers")))
		}
		if !Equal(attrOf(a, "ExternalReferences"), attrOf(b, "ExternalReferences")) {
			add("node %q external references: wrote %s, read %s", id, js(attrOf(a, "ExternalReferences")), js(attrOf(b, "ExternalReferences")))
		}
	}
	return out
}

func keysHE(m map[[3]string]bool) [][3]string {
	out := [][3]string{}
	for k := range m {
		out = append(out, k)
	}
	sort.Slice(out, func(i, j int) bool { return fmt.Sprint(out[i]) < fmt.Sprint(out[j]) })
	return out
}

// cdxCompleteness (C03): the written bytes decoded with encoding/json only.
func cdxCompleteness(d M, raw []byte) []string {
	var out []string
	add := func(f string, a ...any) { out = append(out, fmt.Sprintf(f, a...)) }
	var top map[string]any
	if err := json.Unmarshal(raw, &top); err != nil {
		return []string{"output is not JSON"}
	}
	count := map[string]int{}
	parent := map[string]string{}
	var walk func(c map[string]any, par string)
	walk = func(c map[string]any, par string) {
		ref, _ := c["bom-ref"].(string)
		count[ref]++
		if par != "" {
			parent[ref] = par
		}
		if kids, ok := c["components"].([]any); ok {
			for _, k := range kids {
				if km, ok := k.(map[string]any); ok {
					walk(km, ref)
				}
			}
		}
	}
	rootRef := ""
	if md, ok := top["metadata"].(map[string]any); ok {
		if c, ok := md["component"].(map[string]any); ok {
			rootRef, _ = c["bom-ref"].(string)
			walk(c, "")
		}
	}
	if comps, ok := top["components"].([]any); ok {
		for _, c := range comps {
			if cm, ok := c.(map[string]any); ok {
				walk(cm, "")
			}
		}
	}
	nl := d["nl"].(M)
	dv := View(nl)
	// is containment a forest? (every node has at most one containing parent, no cycles)
	par := map[string]string{}
	forest := true
	for _, e := range asList(nl["edges"]) {
		em := e.(M)
		if asInt(em["ty"]) != 5 {
			continue
		}
		for _, t := range asList(em["tos"]) {
			if p, dup := par[asStr(t)]; dup && p != asStr(em["src"]) {
				forest = false
			}
			par[asStr(t)] = asStr(em["src"])
		}
	}
	for id := range par {
		cur, steps := id, 0
		for {
			p, ok := par[cur]
			if !ok {
				break
			}
			cur = p
			steps++
			if steps > 100 {
				forest = false
				break
			}
		}
	}
	auto := func(id string) bool { return strings.HasPrefix(id, "protobom-") }
	for id := range dv.IDSet {
		if auto(id) {
			continue // generated references are erased on purpose
		}
		if count[id] < 1 {
			add("node %q is missing from the CycloneDX output", id)
		} else if forest && dv.Nodup() && count[id] != 1 {
			add("node %q appears %d times in the CycloneDX output although containment is a forest", id, count[id])
		}
	}
	for ref := range count {
		if ref != "" && !dv.IDSet[ref] {
			add("the CycloneDX output invents component %q", ref)
		}
	}
	// containment and dependency pairs
	deps := map[[2]string]bool{}
	if dl, ok := top["dependencies"].([]any); ok {
		for _, x := range dl {
			xm, ok := x.(map[string]any)
			if !ok {
				continue
			}
			ref, _ := xm["ref"].(string)
			if ref != rootRef && count[ref] == 0 {
				add("dependency entry for %q refers to a component that was not emitted", ref)
			}
			if ts, ok := xm["dependsOn"].([]any); ok {
				for _, t := range ts {
					ts, _ := t.(string)
					deps[[2]string{ref, ts}] = true
					if count[ts] == 0 {
						add("dependency %q -> %q refers to a component that was not emitted", ref, ts)
					}
				}
			}
		}
	}
	for k := range dv.HE {
		switch k[1] {
		case "10":
			if !deps[[2]string{k[0], k[2]}] {
				add("dependency %s -> %s is missing from the CycloneDX output", k[0], k[2])
			}
		case "5":
			if forest && !auto(k[0]) && !auto(k[2]) {
				if k[0] == rootRef {
					if parent[k[2]] != "" {
						add("component %q contained in the root is nested elsewhere", k[2])
					}
				} else if parent[k[2]] != k[0] {
					add("containment %s -> %s is not expressed in the CycloneDX output", k[0], k[2])
				}
			}
		}
	}
	return out
}

func oracleCdx(op M, res any, exec func(M) any) []Finding {
	var out []Finding
	add := func(p, f string, a ...any) { out = append(out, Finding{p, fmt.Sprintf(f, a...)}) }
	if s, ok := res.(string); ok && strings.HasPrefix(s, "panic") {
		p := "C07"
		if asStr(op["op"]) == "cdxUnser" {
			p = "C04"
		}
		add(p, "CycloneDX %v panicked: %s", op["op"], s)
		return out
	}
	name := asStr(op["op"])
	if name == "cdxUnser" {
		if isDocJ(res) {
			out = append(out, parsedWellFormed(op, res.(M))...)
		}
		return out
	}
	d := op["doc"].(M)
	v := int(asInt(op["v"]))
	// C03 looks at the written bytes and at one write/read pass, whatever the operation was
	if docWF(d) && d["meta"] != nil {
		if raw, err := WriteDoc(DocOf(d), cdxFormat(v), 2); err == nil {
			for _, m := range cdxCompleteness(d, raw) {
				add("C03", "%s", m)
			}
		}
		r1 := res
		if name != "cdxRT" {
			r1 = exec(M{"op": "cdxRT", "doc": d, "v": op["v"]})
		}
		if isDocJ(r1) {
			dv, rv := View(d["nl"].(M)), View(r1.(M)["nl"].(M))
			for id, ns := range dv.Nodes {
				if rs, ok := rv.Nodes[id]; ok && dv.Nodup() {
					a, b := ns[0], rs[0]
					if !Equal(attrOf(a, "Name"), attrOf(b, "Name")) && !(asStr(d["meta"].(M)["name"]) != "" && attrOf(a, "Name") == nil) {
						add("C03", "name of node %q changes across CycloneDX", id)
					}
					if (v >= 4 || asStr(attrOf(a, "Version")) != "") && !Equal(attrOf(a, "Version"), attrOf(b, "Version")) {
						add("C03", "version of node %q changes across CycloneDX", id)
					}
					if !Equal(identityAttrs(a)["Hashes"], identityAttrs(b)["Hashes"]) {
						add("C03", "hashes of node %q change across CycloneDX", id)
					}
					// the native component type is that of the first primary purpose, however many follow
					if nt := nativeType(a); asInt(a["type"]) == 0 && len(asList(attrOf(a, "PrimaryPurpose"))) >= 2 && nt != "" && nt != "file" &&
						(v >= 5 || (nt != "data" && nt != "device-driver" && nt != "machine-learning-model" && nt != "platform")) && asInt(b["type"]) == 0 {
						if got := nativeType(b); got != nt {
							add("C02", "node %q has purposes %s, so its native component type is %q; read back it is %q (purposes %s)", id, js(attrOf(a, "PrimaryPurpose")), nt, got, js(attrOf(b, "PrimaryPurpose")))
						}
					}
					purl := func(n M) string {
						for _, p := range asList(attrOf(n, "Identifiers")) {
							if asInt(p.([]any)[0]) == 1 {
								return asStr(p.([]any)[1])
							}
						}
						return ""
					}
					if purl(a) != purl(b) {
						add("C03", "package URL of node %q changes across CycloneDX: %q vs %q", id, purl(a), purl(b))
					}
					// CycloneDX has one cpe member: the 2.3 name when there is one, else the 2.2 name
					cpe := func(n M) string {
						c22, c23 := "", ""
						for _, p := range asList(attrOf(n, "Identifiers")) {
							switch asInt(p.([]any)[0]) {
							case 2:
								c22 = asStr(p.([]any)[1])
							case 3:
								c23 = asStr(p.([]any)[1])
							}
						}
						if c23 != "" {
							return c23
						}
						return c22
					}
					if strings.HasPrefix(cpe(a), "cpe:") && cpe(a) != cpe(b) {
						add("C03", "CPE of node %q changes across CycloneDX: %q vs %q", id, cpe(a), cpe(b))
					}
				}
			}
		}
	}
	if name == "cdxSer" {
		return out
	}
	in := inCdxClass(d, v) && v >= 4
	if in && !isDocJ(res) {
		add("C02", "a single-rooted containment tree cannot be written and read back as CycloneDX 1.%d: %v", v, res)
		return out
	}
	if !isDocJ(res) {
		return out
	}
	r := res.(M)
	if in && name == "cdxRT" {
		for _, m := range cdxEquiv(d, r, v) {
			add("C02", "%s", m)
		}
		again := exec(M{"op": "cdxRT", "doc": r, "v": op["v"]})
		g := func(x any) any {
			if m, ok := CanonDoc(x).(M); ok {
				return m["nl"]
			}
			return x
		}
		if !Equal(g(again), g(r)) {
			// the one recorded way this happens: a licence list of two or more entries was truncated by the
			// first pass (known finding), so the concluded-licence text derived from it changes once more
			if ids := truncatedLicenceNodes(d); len(ids) > 0 && Equal(dropConcluded(g(again), ids), dropConcluded(g(r), ids)) {
				for _, id := range ids {
					add("C02", "licence list of node %q was truncated, so a second pass changes its concluded-licence text", id)
				}
			} else {
				add("C02", "a second write-then-read pass changes the document further")
			}
		}
		// every permutation of the stored edge list gives the same result
		d2 := Normalize(d).(M)
		es := asList(d2["nl"].(M)["edges"])
		for i, j := 0, len(es)-1; i < j; i, j = i+1, j-1 {
			es[i], es[j] = es[j], es[i]
		}
		rev := exec(M{"op": "cdxRT", "doc": d2, "v": op["v"]})
		if isDocJ(rev) && !Equal(cdxEquiv(d, rev.(M), v), cdxEquiv(d, r, v)) {
			add("C02", "the result depends on the order in which the edges are stored")
		}
	}
	return out
}

// parsedWellFormed (C05): closure and identifier clauses on a parsed CycloneDX document.
func parsedWellFormed(op M, r M) []Finding {
	var out []Finding
	add := func(f string, a ...any) { out = append(out, Finding{"C05", fmt.Sprintf(f, a...)}) }
	nl, ok := r["nl"].(M)
	if !ok {
		add("parsed document has no node list")
		return out
	}
	v := View(nl)
	for _, id := range v.IDs {
		if id == "" {
			add("a parsed node has an empty identifier")
		}
	}
	for k := range v.HE {
		if !v.IDSet[k[0]] || !v.IDSet[k[2]] {
			add("edge %v names a node that was not parsed", k)
		}
	}
	for r := range v.Roots {
		if !v.IDSet[r] {
			add("root element %q names no parsed node", r)
		}
	}
	// as unique as the input's: count components and explicit refs
	total, refs := 0, map[string]int{}
	var walk func(c M)
	walk = func(c M) {
		total++
		if ref := asStr(c["ref"]); ref != "" {
			refs[ref]++
		}
		for _, k := range asList(c["components"]) {
			walk(k.(M))
		}
	}
	b := op["bom"].(M)
	if b["meta"] != nil {
		walk(b["meta"].(M))
	}
	for _, c := range asList(b["components"]) {
		walk(c.(M))
	}
	uniqueInput := true
	reserved := false
	for ref, n := range refs {
		if n > 1 {
			uniqueInput = false
		}
		if strings.HasPrefix(ref, "protobom-") {
			reserved = true
		}
	}
	if uniqueInput && !reserved {
		if !v.Nodup() {
			add("parsed identifiers repeat although the input's references are unique")
		}
		if len(v.IDs) != total {
			add("parsed %d nodes from %d components with unique references", len(v.IDs), total)
		}
	}
	if uniqueInput && reserved && (len(v.IDs) != total || !v.Nodup()) {
		add("a component whose explicit reference equals a generated identifier is lost or duplicated (%d nodes from %d components)", len(v.IDs), total)
	}
	for _, id := range v.IDs {
		if strings.HasPrefix(id, "protobom-auto--") {
			for _, c := range id[len("protobom-auto--"):] {
				if c < '0' || c > '9' {
					add("generated identifier %q is not the prefix plus a counter", id)
				}
			}
		}
	}
	return out
}

var CdxStream = &Stream{
	Name:   "cdx",
	Gen:    cdxGen,
	Exec:   ExecCdx,
	Oracle: oracleCdx,
	Canon: func(v any) any {
		n := Normalize(v)
		if isDocJ(n) {
			return CanonDoc(n)
		}
		if m, ok := n.(M); ok {
			if _, isBom := m["components"]; isBom {
				var canonComp func(c M) M
				canonComp = func(c M) M {
					c["hashes"] = sortAny(asList(c["hashes"]))
					for _, r := range asList(c["refs"]) {
						rm := r.(M)
						rm["h"] = sortAny(asList(rm["h"]))
					}
					kids := []any{}
					for _, k := range asList(c["components"]) {
						kids = append(kids, canonComp(k.(M)))
					}
					c["components"] = kids
					return c
				}
				tops := []any{}
				for _, c := range asList(m["components"]) {
					tops = append(tops, canonComp(c.(M)))
				}
				m["components"] = sortAny(tops)
				if mc, ok := m["meta"].(M); ok {
					m["meta"] = canonComp(mc)
				}
			}
		}
		return n
	},
	OpProps: func(op M) []string {
		if asStr(op["op"]) == "cdxUnser" {
			return []string{"C05", "C04", "C02"}
		}
		return []string{"C02", "C03"}
	},
	Nontrivial: func(op M) bool {
		if b, ok := op["bom"].(M); ok {
			return len(asList(b["components"])) > 0
		}
		nl, ok := op["doc"].(M)["nl"].(M)
		return ok && len(asList(nl["nodes"])) >= 3
	},
	Reps: 2,
}

var _ = sbom.Node_FILE

// truncatedLicenceNodes: identifiers of the nodes of d that carry two or more licences
func truncatedLicenceNodes(d M) []string {
	var ids []string
	nl, _ := d["nl"].(M)
	for _, n := range asList(nl["nodes"]) {
		if len(asList(attrOf(n.(M), "Licenses"))) >= 2 {
			ids = append(ids, asStr(n.(M)["id"]))
		}
	}
	sort.Strings(ids)
	return ids
}

// dropConcluded: a copy of a canonical node list without the LicenseConcluded attribute of the named nodes
func dropConcluded(nl any, ids []string) any {
	m, ok := Normalize(nl).(M)
	if !ok {
		return nl
	}
	named := map[string]bool{}
	for _, id := range ids {
		named[id] = true
	}
	for _, n := range asList(m["nodes"]) {
		nm, _ := n.(M)
		if a, ok := nm["a"].(M); ok && named[asStr(nm["id"])] {
			delete(a, "LicenseConcluded")
		}
	}
	return m
}
