package hx

import (
	"bytes"
	"encoding/json"
	"fmt"
	"google.golang.org/protobuf/types/known/timestamppb"
	"io"
	"os"
	"os/exec"
	"strings"
	"sync"
	"sync/atomic"
	"time"

	"github.com/protobom/protobom/pkg/formats"
	"github.com/protobom/protobom/pkg/native"
	"github.com/protobom/protobom/pkg/reader"
	"github.com/protobom/protobom/pkg/sbom"
	"github.com/protobom/protobom/pkg/writer"
)

// The `conc` stream (C17): the package-level entry points hammered from many goroutines in a child
// process built with the race detector; every call's result is compared with the set of results a
// sequential order allows (registry) or with its own sequential result (independent documents).

type markDriver struct{ name string }

func (m *markDriver) Unserialize(io.Reader, *native.UnserializeOptions, interface{}) (*sbom.Document, error) {
	d := sbom.NewDocument()
	d.Metadata.Name = m.name
	return d, nil
}

type markSerializer struct{ name string }

// what a markSerializer serializes to: only the driver that made it can render it
type markDoc struct {
	by   *markSerializer
	text string
}

func (m *markSerializer) Serialize(*sbom.Document, *native.SerializeOptions, interface{}) (interface{}, error) {
	return &markDoc{m, m.name}, nil
}
func (m *markSerializer) Render(doc interface{}, w io.Writer, _ *native.RenderOptions, _ interface{}) error {
	md, ok := doc.(*markDoc)
	if !ok || md.by != m {
		return fmt.Errorf("driver %s asked to render a document it did not serialize", m.name)
	}
	_, err := w.Write([]byte(md.text))
	return err
}

// echoDriver reports the format options it was handed as the name of the document
type echoDriver struct{}

var echoKey = fmt.Sprintf("%T", &echoDriver{})

func (*echoDriver) Unserialize(_ io.Reader, _ *native.UnserializeOptions, fo interface{}) (*sbom.Document, error) {
	d := sbom.NewDocument()
	d.Metadata.Name = fmt.Sprint(fo)
	return d, nil
}

// envelopeDriver hands its input to the library's own reader (auto-detection and all)
type envelopeDriver struct{}

func (envelopeDriver) Unserialize(r io.Reader, _ *native.UnserializeOptions, _ interface{}) (*sbom.Document, error) {
	b, err := io.ReadAll(r)
	if err != nil {
		return nil, err
	}
	return reader.New().ParseStream(bytes.NewReader(b))
}

type violations struct {
	mu sync.Mutex
	l  []any
	n  int
}

func (v *violations) add(f string, a ...any) {
	v.mu.Lock()
	v.n++
	if len(v.l) < 8 {
		v.l = append(v.l, fmt.Sprintf(f, a...))
	}
	v.mu.Unlock()
}

func guard(v *violations, what string, f func()) {
	defer func() {
		if r := recover(); r != nil {
			v.add("%s panicked: %v", what, r)
		}
	}()
	f()
}

func runStress(op M) any {
	g := NewG(int64(asInt(op["seed"])))
	iters := int(asInt(op["iters"]))
	if iters == 0 {
		iters = 300
	}
	v := &violations{}
	var wg sync.WaitGroup
	calls := 0
	var cm sync.Mutex
	count := func(n int) { cm.Lock(); calls += n; cm.Unlock() }
	switch asStr(op["scenario"]) {
	case "registry":
		// register / unregister / lookup / parse / write with distinguishable drivers on private formats
		fmts := []formats.Format{"verif/conc-a", "verif/conc-b"}
		drivers := map[formats.Format]*markDriver{}
		sers := map[formats.Format]*markSerializer{}
		for _, f := range fmts {
			drivers[f] = &markDriver{string(f)}
			sers[f] = &markSerializer{string(f)}
		}
		for w := 0; w < 4; w++ {
			wg.Add(1)
			go func(w int) {
				defer wg.Done()
				for i := 0; i < iters; i++ {
					f := fmts[(i+w)%len(fmts)]
					guard(v, "RegisterUnserializer", func() { reader.RegisterUnserializer(f, drivers[f]) })
					guard(v, "RegisterSerializer", func() { writer.RegisterSerializer(f, sers[f]) })
					guard(v, "UnregisterUnserializer", func() { reader.UnregisterUnserializer(f) })
					guard(v, "UnregisterSerializer", func() { writer.UnregisterSerializer(f) })
				}
				count(4 * iters)
			}(w)
		}
		for w := 0; w < 12; w++ {
			wg.Add(1)
			go func(w int) {
				defer wg.Done()
				for i := 0; i < iters; i++ {
					f := fmts[(i+w)%len(fmts)]
					switch (i + w) % 4 {
					case 0:
						guard(v, "GetFormatUnserializer", func() {
							u, err := reader.GetFormatUnserializer(f)
							if !((u == drivers[f] && err == nil) || (u == nil && err != nil)) {
								v.add("GetFormatUnserializer(%s) returned (%v, %v): no sequential order of register/unregister gives that", f, u, err)
							}
						})
					case 1:
						guard(v, "ParseStreamWithOptions", func() {
							d, err := reader.New().ParseStreamWithOptions(bytes.NewReader([]byte("{}")), &reader.Options{Format: f})
							if !((d != nil && err == nil && d.Metadata.Name == string(f)) || (d == nil && err != nil)) {
								v.add("ParseStreamWithOptions with format %s returned (%v, %v)", f, d, err)
							}
						})
					case 2:
						guard(v, "GetFormatSerializer", func() {
							s, err := writer.GetFormatSerializer(f)
							if !((s == native.Serializer(sers[f]) && err == nil) || (s == nil && err != nil)) {
								v.add("GetFormatSerializer(%s) returned (%v, %v)", f, s, err)
							}
						})
					case 3:
						guard(v, "WriteStreamWithOptions", func() {
							buf := nopCloser{&bytes.Buffer{}}
							err := writer.New().WriteStreamWithOptions(tinyDoc, buf, &writer.Options{Format: f})
							if !((err == nil && buf.String() == string(f)) || err != nil) {
								v.add("WriteStreamWithOptions with format %s wrote %q", f, buf.String())
							}
						})
					}
				}
				count(iters)
			}(w)
		}
		// every goroutine registers formats of its own: after Register returns the driver is there,
		// after Unregister returns it is gone, whatever the others do to their formats meanwhile
		for w := 0; w < 16; w++ {
			wg.Add(1)
			go func(w int) {
				defer wg.Done()
				for i := 0; i < iters; i++ {
					f := formats.Format(fmt.Sprintf("verif/own-%d-%d", w, i%3))
					d := &markDriver{string(f)}
					sr := &markSerializer{string(f)}
					guard(v, "own registration", func() {
						reader.RegisterUnserializer(f, d)
						writer.RegisterSerializer(f, sr)
						if u, err := reader.GetFormatUnserializer(f); u != native.Unserializer(d) || err != nil {
							v.add("a driver registered for %s by this goroutine alone is not found after RegisterUnserializer returned: (%v, %v)", f, u, err)
						}
						if x, err := writer.GetFormatSerializer(f); x != native.Serializer(sr) || err != nil {
							v.add("a serializer registered for %s by this goroutine alone is not found after RegisterSerializer returned: (%v, %v)", f, x, err)
						}
						reader.UnregisterUnserializer(f)
						writer.UnregisterSerializer(f)
						if u, err := reader.GetFormatUnserializer(f); u != nil || err == nil {
							v.add("the driver for %s is still there after UnregisterUnserializer returned", f)
						}
					})
				}
				count(6 * iters)
			}(w)
		}
		// one owner registers and removes a format over and over while others keep looking that very
		// format up: once Unregister has returned, the owner's own lookups and writes must fail (in
		// every sequential order of these calls the removal comes before them)
		{
			watched := formats.Format("verif/watched")
			var stop atomic.Bool
			var lookers sync.WaitGroup
			for l := 0; l < 6; l++ {
				lookers.Add(1)
				go func() {
					defer lookers.Done()
					for !stop.Load() {
						_, _ = writer.GetFormatSerializer(watched)
						_, _ = reader.GetFormatUnserializer(watched)
					}
				}()
			}
			wg.Add(1)
			go func() {
				defer wg.Done()
				defer stop.Store(true)
				for i := 0; i < iters*4; i++ {
					name := fmt.Sprintf("watched-%d", i)
					guard(v, "watched registration", func() {
						writer.RegisterSerializer(watched, &markSerializer{name})
						reader.RegisterUnserializer(watched, &markDriver{name})
						writer.UnregisterSerializer(watched)
						reader.UnregisterUnserializer(watched)
						if x, err := writer.GetFormatSerializer(watched); x != nil || err == nil {
							v.add("round %d: the serializer for %s is still found after UnregisterSerializer returned (others were only looking it up)", i, watched)
						}
						if u, err := reader.GetFormatUnserializer(watched); u != nil || err == nil {
							v.add("round %d: the driver for %s is still found after UnregisterUnserializer returned (others were only looking it up)", i, watched)
						}
						buf := nopCloser{&bytes.Buffer{}}
						if err := writer.New().WriteStreamWithOptions(tinyDoc, buf, &writer.Options{Format: watched}); err == nil {
							v.add("round %d: a write in %s succeeded after its serializer was removed and wrote %q", i, watched, buf.String())
						}
					})
				}
				count(7 * iters * 4)
			}()
			wg.Wait()
			lookers.Wait()
		}
		// a driver that parses an inner document through the library (an envelope format), while
		// unrelated formats are registered and removed: every call returns
		{
			envelope := formats.Format("verif/envelope")
			reader.RegisterUnserializer(envelope, &envelopeDriver{})
			var stop atomic.Bool
			var churn sync.WaitGroup
			churn.Add(1)
			go func() {
				defer churn.Done()
				for i := 0; !stop.Load(); i++ {
					f := formats.Format(fmt.Sprintf("verif/churn-%d", i%4))
					reader.RegisterUnserializer(f, &markDriver{string(f)})
					reader.UnregisterUnserializer(f)
				}
			}()
			var users sync.WaitGroup
			for w := 0; w < 8; w++ {
				users.Add(1)
				go func() {
					defer users.Done()
					for i := 0; i < iters/4+1; i++ {
						guard(v, "envelope parse", func() {
							d, err := reader.New().ParseStreamWithOptions(bytes.NewReader([]byte(autoCDX)), &reader.Options{Format: envelope})
							if err != nil || d == nil || len(d.GetNodeList().GetNodes()) != 1 {
								v.add("a driver that parses its payload through the library returns (%v nodes, %v)", len(d.GetNodeList().GetNodes()), err)
							}
						})
					}
					count(iters/4 + 1)
				}()
			}
			finished := make(chan struct{})
			go func() { users.Wait(); close(finished) }()
			select {
			case <-finished:
			case <-time.After(60 * time.Second):
				v.add("parses through a driver that calls the library again do not return while formats are being registered: the calls block one another")
			}
			stop.Store(true)
			waited := make(chan struct{})
			go func() { churn.Wait(); close(waited) }()
			select {
			case <-waited:
				reader.UnregisterUnserializer(envelope)
			case <-time.After(10 * time.Second):
				v.add("a registration does not return while parses are in progress")
			}
		}
		// a format that is registered before anybody looks and is only ever registered again (with
		// one of two drivers), never removed: in every sequential order each lookup, parse and write
		// finds one of the two
		{
			steady := formats.Format("verif/steady")
			sa, sb := &markSerializer{"steady-a"}, &markSerializer{"steady-b"}
			da, db := &markDriver{"steady-a"}, &markDriver{"steady-b"}
			writer.RegisterSerializer(steady, sa)
			reader.RegisterUnserializer(steady, da)
			var stop atomic.Bool
			var again sync.WaitGroup
			for l := 0; l < 3; l++ {
				again.Add(1)
				go func(l int) {
					defer again.Done()
					for i := 0; !stop.Load(); i++ {
						if (i+l)%2 == 0 {
							writer.RegisterSerializer(steady, sa)
							reader.RegisterUnserializer(steady, db)
						} else {
							writer.RegisterSerializer(steady, sb)
							reader.RegisterUnserializer(steady, da)
						}
					}
				}(l)
			}
			var users sync.WaitGroup
			for w := 0; w < 8; w++ {
				users.Add(1)
				go func(w int) {
					defer users.Done()
					for i := 0; i < iters*2; i++ {
						guard(v, "steady format", func() {
							switch (i + w) % 4 {
							case 0:
								if x, err := writer.GetFormatSerializer(steady); err != nil || (x != native.Serializer(sa) && x != native.Serializer(sb)) {
									v.add("GetFormatSerializer(%s) returned (%v, %v) while the format was only being registered again, never removed", steady, x, err)
								}
							case 1:
								if u, err := reader.GetFormatUnserializer(steady); err != nil || (u != native.Unserializer(da) && u != native.Unserializer(db)) {
									v.add("GetFormatUnserializer(%s) returned (%v, %v) while the format was only being registered again, never removed", steady, u, err)
								}
							case 2:
								buf := nopCloser{&bytes.Buffer{}}
								err := writer.New().WriteStreamWithOptions(tinyDoc, buf, &writer.Options{Format: steady})
								if err != nil || (buf.String() != "steady-a" && buf.String() != "steady-b") {
									v.add("a write in %s, only ever registered again, gave %q, %v", steady, buf.String(), err)
								}
							case 3:
								d, err := reader.New().ParseStreamWithOptions(bytes.NewReader([]byte("{}")), &reader.Options{Format: steady})
								if err != nil || d == nil || (d.Metadata.Name != "steady-a" && d.Metadata.Name != "steady-b") {
									v.add("a parse in %s, only ever registered again, gave (%v, %v)", steady, d, err)
								}
							}
						})
					}
					count(iters * 2)
				}(w)
			}
			users.Wait()
			stop.Store(true)
			again.Wait()
			writer.UnregisterSerializer(steady)
			reader.UnregisterUnserializer(steady)
		}
	case "parse":
		// many parses at once, through readers of their own and through one shared reader, of documents
		// that use every member the parsers look at (licences, hashes, nested components, references):
		// each result equals the sequential one and nothing takes the process down
		var inputs [][]byte
		inputs = append(inputs, []byte(richCDX), []byte(richSPDX), []byte(autoCDX), []byte(autoSPDX))
		for i := 0; i < 4; i++ {
			if b, err := encodeBOM(g.nativeBOM()); err == nil {
				inputs = append(inputs, b)
			}
			d := g.cdxTreeDoc(g.Pick2([]int{3, 4, 5}), true)
			for k, n := range asList(d["nl"].(M)["nodes"]) {
				if at, ok := n.(M)["a"].(M); ok {
					at["Licenses"] = []any{fmt.Sprintf("LicenseRef-%d-%d", i, k), "MIT"}[:1+k%2]
					at["LicenseConcluded"] = fmt.Sprintf("LicenseRef-c-%d-%d", i, k)
				}
			}
			if b, err := WriteDoc(DocOf(d), formats.CDX15JSON, 0); err == nil {
				inputs = append(inputs, b)
			}
			if b, err := WriteDoc(DocOf(g.spdxDoc(true)), formats.SPDX23JSON, 0); err == nil {
				inputs = append(inputs, b)
			}
		}
		inputs = append(inputs, []byte(`{"bomFormat":"CycloneDX","specVersion":"1.5","components":[{"type":"library","name":"x","licenses":[{"license":{"id":null}},null,{"expression":"A OR B"}]}]}`),
			[]byte(`{"spdxVersion":"SPDX-2.3","packages":[null,{"SPDXID":"SPDXRef-p","licenseConcluded":"MIT"}]}`))
		skelOf := func(r *reader.Reader, in []byte) string {
			d, err := r.ParseStream(bytes.NewReader(in))
			if err != nil || d == nil {
				return "err"
			}
			return js(parseCanon(DocJ(d)))
		}
		// the documents meet the parsers for the first time while others are being parsed (whatever
		// a parser keeps between calls is first written then); the sequential parses that say what
		// each result has to be come afterwards
		got := make([][]string, 16)
		madeUp := make([][]string, 16)
		shared := reader.New()
		// meanwhile a driver for an unrelated format is registered and removed over and over
		var stopChurn atomic.Bool
		var churn sync.WaitGroup
		churn.Add(1)
		go func() {
			defer churn.Done()
			for i := 0; !stopChurn.Load(); i++ {
				f := formats.Format("verif/parse-churn")
				reader.RegisterUnserializer(f, &markDriver{"churn"})
				reader.UnregisterUnserializer(f)
			}
		}()
		for w := 0; w < 16; w++ {
			wg.Add(1)
			got[w] = make([]string, iters/2+1)
			go func(w int) {
				defer wg.Done()
				for i := 0; i < iters/2+1; i++ {
					k := (i*5 + w) % len(inputs)
					guard(v, "parse", func() {
						r := shared
						if (i+w)%2 == 0 {
							r = reader.New()
						}
						got[w][i] = skelOf(r, inputs[k])
						// and a document nobody has seen before: its licence texts are this goroutine's own
						lic := fmt.Sprintf("LicenseRef-own-%d-%d", w, i)
						own := fmt.Sprintf(`{"bomFormat":"CycloneDX","specVersion":"1.5","version":1,"components":[{"bom-ref":"c","type":"library","name":"c","licenses":[{"license":{"id":%q}}]},{"bom-ref":"d","type":"library","name":"d","licenses":[{"expression":%q}]}]}`, lic, lic+" OR MIT")
						d, err := r.ParseStream(bytes.NewReader([]byte(own)))
						if err != nil || d == nil || len(d.GetNodeList().GetNodes()) != 2 {
							v.add("a two-component document parsed next to others gives %v nodes, error %v", len(d.GetNodeList().GetNodes()), err)
							return
						}
						for _, n := range d.NodeList.Nodes {
							if len(n.Licenses) != 1 || !strings.HasPrefix(n.Licenses[0], lic) {
								v.add("a component parsed next to others has licences %q, its document says %q", n.Licenses, lic)
							}
						}
						// and an SPDX document that leaves its namespace out: the identifier made up for it
						// is this document's own
						bare := fmt.Sprintf(`{"spdxVersion":"SPDX-2.3","SPDXID":"SPDXRef-DOCUMENT","name":"bare-%d-%d","dataLicense":"CC0-1.0","packages":[{"SPDXID":"SPDXRef-p","name":"p","downloadLocation":"NOASSERTION"}]}`, w, i)
						if bd, err := r.ParseStream(bytes.NewReader([]byte(bare))); err == nil && bd != nil && bd.Metadata != nil {
							madeUp[w] = append(madeUp[w], bd.Metadata.Id)
						} else {
							v.add("an SPDX document without a namespace parsed next to others gives error %v", err)
						}
					})
				}
				count(2 * (iters/2 + 1))
			}(w)
		}
		parsed := make(chan struct{})
		go func() { wg.Wait(); close(parsed) }()
		select {
		case <-parsed:
		case <-time.After(90 * time.Second):
			v.add("parses next to registrations of an unrelated format do not return: the calls block one another")
			stopChurn.Store(true)
			return M{"calls": float64(calls), "violations": v.l, "count": float64(v.n)}
		}
		stopChurn.Store(true)
		churn.Wait()
		want := make([]string, len(inputs))
		for i, in := range inputs {
			want[i] = skelOf(reader.New(), in)
		}
		seenID := map[string]bool{}
		for w := range madeUp {
			for _, id := range madeUp[w] {
				if id != "" && seenID[id] {
					v.add("two independent documents without a namespace, parsed at the same time, were given the same identifier %q (parsed one after the other they never are)", id)
				}
				seenID[id] = true
			}
		}
		for w := range got {
			for i, g := range got[w] {
				if k := (i*5 + w) % len(inputs); g != "" && g != want[k] {
					v.add("a parse running next to others differs from the parse of the same document alone (input %d)", k)
				}
			}
		}
	case "firstuse":
		// a process of its own whose first use of the writer package is the removal of a built-in
		// driver (cmd/firstuse; the harness binary registers drivers when it starts)
		bin := os.Getenv("VERIF_FIRSTUSE_BIN")
		if bin == "" {
			return M{"calls": 0.0, "violations": v.l, "count": 0.0, "skipped": "no first-use binary"}
		}
		for _, which := range []string{"cdx", "spdx"} {
			cmd := exec.Command(bin, which)
			var out, errb bytes.Buffer
			cmd.Stdout, cmd.Stderr = &out, &errb
			if err := cmd.Run(); err != nil {
				tail := errb.String()
				if len(tail) > 600 {
					tail = tail[:600]
				}
				v.add("a process that removes a serializer before anything else ends abnormally: %v %s", err, tail)
				continue
			}
			var r struct{ Violations []string }
			if json.Unmarshal(bytes.TrimSpace(out.Bytes()), &r) != nil {
				v.add("the first-use process printed no result")
				continue
			}
			for _, m := range r.Violations {
				v.add("%s", m)
			}
			count(400)
		}
	case "shared":
		// C11, second sentence: read-only and value-returning operations run concurrently on one shared
		// document, its node list, nodes and edges. Every result equals the result of the same call
		// made alone, the operands' snapshots are what they were, and (in the binary built with the
		// race detector) no two calls touch the same memory with a write among them.
		o := g.Opts(true)
		o.AttrP = 0.9
		a, b := NLOf(g.NodeList(o)), NLOf(g.NodeList(o))
		mk := func(id string, k int) *sbom.Node {
			nd := g.Node(id, 0.9)
			at, _ := nd["a"].(M)
			if at == nil {
				at = M{}
				nd["a"] = at
			}
			// every node carries persons (one with contacts) and references of its own
			sup := []any{M{"n": "common corp", "e": "c@c", "o": true}, M{"n": fmt.Sprintf("supplier-%d", k), "o": true, "c": []any{M{"n": fmt.Sprintf("desk-%d", k)}, M{"n": "second desk"}}}}
			for j := 0; j < k%3; j++ {
				sup = append(sup, M{"n": fmt.Sprintf("extra-%d-%d", k, j)})
			}
			at["Suppliers"] = sup
			at["Originators"] = []any{M{"n": fmt.Sprintf("orig-%d", k)}, M{"n": "common orig"}}
			at["ExternalReferences"] = []any{M{"u": fmt.Sprintf("https://r/%d", k), "t": 3.0, "h": []any{[]any{2.0, fmt.Sprintf("%040d", k)}}}, M{"u": "https://common", "t": 1.0}}
			return NodeOf(nd)
		}
		base := mk("base", 0)
		others := []*sbom.Node{}
		for k := 1; k <= 6; k++ {
			others = append(others, mk(fmt.Sprintf("n%d", k), k))
		}
		others = append(others, base.Copy())
		doc := &sbom.Document{Metadata: &sbom.Metadata{Id: "urn:uuid:5e671f63-d1a2-4b6e-a2a1-2f0a3f0b7b10", Name: "shared", Version: "1", Date: &timestamppb.Timestamp{Seconds: 1700000000}}, NodeList: NLOf(g.cdxTreeDoc(4, true)["nl"])}
		for _, x := range []any{a, b, base, doc} {
			padCapacity(x, 2)
		}
		nj := func(n *sbom.Node) any {
			if n == nil {
				return "nil"
			}
			return NodeJ(n)
		}
		type call struct {
			name string
			f    func() string
		}
		var callsL []call
		add := func(name string, f func() string) { callsL = append(callsL, call{name, f}) }
		for k, ot := range others {
			ot, k := ot, k
			add(fmt.Sprintf("Node.Diff #%d", k), func() string {
				d := base.Diff(ot)
				if d == nil {
					return "nil"
				}
				return js(M{"a": nj(d.Added), "r": nj(d.Removed), "c": float64(d.DiffCount)})
			})
			add(fmt.Sprintf("Node.Diff (reversed) #%d", k), func() string {
				d := ot.Diff(base)
				if d == nil {
					return "nil"
				}
				return js(M{"a": nj(d.Added), "r": nj(d.Removed), "c": float64(d.DiffCount)})
			})
			add(fmt.Sprintf("Node.Equal #%d", k), func() string { return fmt.Sprint(base.Equal(ot)) })
			add(fmt.Sprintf("Node.Checksum #%d", k), func() string { return ot.Checksum() })
			add(fmt.Sprintf("Node.Copy #%d", k), func() string { return js(nj(ot.Copy())) })
			add(fmt.Sprintf("Node.HashesMatch #%d", k), func() string { return fmt.Sprint(base.HashesMatch(ot.Hashes)) })
		}
		add("NodeList.Equal", func() string { return fmt.Sprint(a.Equal(b), a.Equal(a), b.Equal(a)) })
		add("NodeList.Copy", func() string { return js(NLJ(a.Copy())) })
		add("NodeList.Union", func() string { return js(CanonNL(NLJ(a.Union(b)))) })
		add("NodeList.Intersect", func() string { return js(CanonNL(NLJ(a.Intersect(b)))) })
		add("GetRootNodes", func() string { return js(NodesJ(a.GetRootNodes())) })
		add("Document.GetRootNodes", func() string { return js(NodesJ(doc.GetRootNodes())) })
		add("GetNodesByName", func() string { return js(NodesJ(a.GetNodesByName("x"))) })
		add("GetNodesByIdentifier", func() string { return js(NodesJ(a.GetNodesByIdentifier("purl", "pkg:npm/a@1"))) })
		add("GetNodesByPurlType", func() string { return js(CanonNL(NLJ(a.GetNodesByPurlType("npm")))) })
		for _, n := range a.Nodes {
			n := n
			add("GetMatchingNode "+n.Id, func() string {
				r, err := b.GetMatchingNode(n)
				if err != nil {
					return "err"
				}
				return js(nj(r))
			})
			add("GetNodeByID "+n.Id, func() string { return js(nj(b.GetNodeByID(n.Id))) })
		}
		for _, id := range a.RootElements {
			id := id
			add("NodeGraph "+id, func() string { return js(CanonNL(NLJ(a.NodeGraph(id)))) })
			add("NodeDescendants "+id, func() string { return js(CanonNL(NLJ(a.NodeDescendants(id, 3)))) })
			add("NodeSiblings "+id, func() string { return js(CanonNL(NLJ(a.NodeSiblings(id)))) })
		}
		for i, e := range a.Edges {
			e, i := e, i
			add(fmt.Sprintf("Edge.Equal/Copy #%d", i), func() string { return fmt.Sprint(e.Equal(a.Edges[0]), e.Equal(e.Copy()), e.PointsTo("a")) })
		}
		for _, f := range []formats.Format{formats.CDX15JSON, formats.CDX14JSON, formats.SPDX23JSON} {
			f := f
			add("write "+string(f), func() string {
				by, err := WriteDoc(doc, f, 2)
				if err != nil {
					return "err"
				}
				// up to the creation date and the order of set-valued arrays (what C07 leaves open)
				return fmt.Sprint(len(by), " bytes, digest ", outputDigest(by))
			})
		}
		operands := []any{a, b, base, doc}
		for _, ot := range others {
			operands = append(operands, ot)
		}
		before := make([]string, len(operands))
		for i, x := range operands {
			before[i], _ = deepSnapshot(x)
		}
		// the calls meet for the first time while others are running; what each has to return is
		// established afterwards, by the same calls made alone
		rounds := iters / 30
		if rounds < 4 {
			rounds = 4
		}
		got := make([][]string, 12)
		for w := range got {
			wg.Add(1)
			got[w] = make([]string, rounds*len(callsL))
			go func(w int) {
				defer wg.Done()
				for r := 0; r < rounds; r++ {
					for i := range callsL {
						k := (i + w*7) % len(callsL)
						guard(v, callsL[k].name, func() { got[w][r*len(callsL)+k] = callsL[k].f() })
					}
				}
				count(rounds * len(callsL))
			}(w)
		}
		wg.Wait()
		want := make([]string, len(callsL))
		for k := range callsL {
			guard(v, callsL[k].name, func() { want[k] = callsL[k].f() })
		}
		bad := map[int]bool{}
		for w := range got {
			for j, s := range got[w] {
				if k := j % len(callsL); s != want[k] && !bad[k] {
					bad[k] = true
					at := 0
					for at < len(s) && at < len(want[k]) && s[at] == want[k][at] {
						at++
					}
					lo := at - 30
					if lo < 0 {
						lo = 0
					}
					cut := func(x string) string {
						if len(x) > at+40 {
							return x[lo : at+40]
						}
						if lo > len(x) {
							return ""
						}
						return x[lo:]
					}
					v.add("%s on shared operands, running next to other read-only calls, returns something else than the same call alone (…%s… against …%s…)", callsL[k].name, cut(s), cut(want[k]))
				}
			}
		}
		for i, x := range operands {
			if after, _ := deepSnapshot(x); after != before[i] {
				v.add("operand %d of the concurrent read-only calls is not what it was before them", i)
			}
		}
	case "io":
		// detection, parsing and writing of independent documents: each result equals its sequential result
		type item struct {
			in   []byte
			fmt  string
			skel string
		}
		var items []item
		docs := []M{}
		for i := 0; i < 6; i++ {
			if i%2 == 0 {
				docs = append(docs, g.spdxDoc(true))
			} else {
				docs = append(docs, g.cdxTreeDoc(5, true))
			}
		}
		for i, d := range docs {
			// every document names its own tools and authors
			if meta, ok := d["meta"].(M); ok {
				meta["tools"] = []any{M{"n": fmt.Sprintf("scanner-%d", i), "v": "1.0"}, M{"n": fmt.Sprintf("second-%d", i)}}[:1+i%2]
			}
			f := formats.SPDX23JSON
			if i%2 == 1 {
				f = formats.CDX15JSON
			}
			if b, err := WriteDoc(DocOf(d), f, 2); err == nil {
				items = append(items, item{in: b})
			}
		}
		for _, s := range []string{"SPDXVersion: SPDX-2.1\n", "prose mentioning \"SPDX-2.3\" in quotes", "SPDXVersion: SPDX-2.3\nDataLicense: CC0-1.0", "{\"spdxVersion\": \n\"SPDX-2.3\"", "SPDXVersion: x\nquoted \"SPDX-2.2\"", "\x00\x01garbage"} {
			items = append(items, item{in: []byte(s)})
		}
		seqOf := func(in []byte) (string, string) {
			f, err := (&formats.Sniffer{}).SniffReader(bytes.NewReader(in))
			fs := string(f)
			if err != nil {
				fs = "err"
			}
			d, err := reader.New().ParseStream(bytes.NewReader(in))
			sk := "err"
			if err == nil && d != nil {
				sk = js(parseCanon(DocJ(d)))
			}
			return fs, sk
		}
		for i := range items {
			items[i].fmt, items[i].skel = seqOf(items[i].in)
		}
		wdocs := []*sbom.Document{}
		wdig := []string{}
		for i, d := range docs {
			f := formats.SPDX23JSON
			if i%3 == 2 {
				f = formats.CDX14JSON
			}
			wdocs = append(wdocs, DocOf(d))
			wdig = append(wdig, runSer(DocOf(d), f, 2, false))
		}
		for w := 0; w < 16; w++ {
			wg.Add(1)
			go func(w int) {
				defer wg.Done()
				sn := &formats.Sniffer{}
				for i := 0; i < iters/4+1; i++ {
					it := items[(i*7+w)%len(items)]
					guard(v, "detection/parse", func() {
						f, sk := seqOf(it.in)
						if f != it.fmt {
							v.add("concurrent detection gives %q, alone it gives %q (input %q)", f, it.fmt, string(it.in[:min(40, len(it.in))]))
						}
						if sk != it.skel {
							v.add("concurrent parse differs from the sequential parse of the same document")
						}
						f2, err := sn.SniffReader(bytes.NewReader(it.in))
						if s := string(f2); (err != nil && it.fmt != "err") || (err == nil && s != it.fmt) {
							v.add("detection on a goroutine's own sniffer gives %q (%v), alone it gives %q", s, err, it.fmt)
						}
						// documents that declare versions nobody has seen before: each is refused
						for _, odd := range []string{fmt.Sprintf(`{"bomFormat":"CycloneDX","specVersion":"9.%d","version":1}`, w*100000+i),
							fmt.Sprintf(`{"spdxVersion":"SPDX-7.%d","SPDXID":"SPDXRef-DOCUMENT"}`, w*100000+i)} {
							if f3, err := sn.SniffReader(strings.NewReader(odd)); err == nil || f3 != "" {
								v.add("a document that declares an unsupported version is detected as %q (error %v) next to other detections", f3, err)
							}
						}
					})
					k := (i + w) % len(wdocs)
					f := formats.SPDX23JSON
					if k%3 == 2 {
						f = formats.CDX14JSON
					}
					guard(v, "write", func() {
						if dg := runSer(wdocs[k], f, 2, false); dg != wdig[k] {
							v.add("concurrent write of document %d gives %s, alone %s", k, dg, wdig[k])
						}
					})
				}
				count(2 * (iters/4 + 1))
			}(w)
		}
		wg.Wait()
		// detection by file name: files of different formats whose paths differ in letter case only, or
		// in the spelling of the directory, each asked about by several goroutines at once
		if dir, err := os.MkdirTemp("", "verif-conc-sniff-"); err == nil {
			defer os.RemoveAll(dir)
			_ = os.MkdirAll(dir+"/Release", 0o755)
			_ = os.MkdirAll(dir+"/release", 0o755)
			pad := strings.Repeat(" ", 200000) // large enough for two detections to overlap
			cdx := []byte(`{"bomFormat":"CycloneDX","specVersion":"1.4","version":1,` + pad + `"components":[]}`)
			spdx := []byte(`{"spdxVersion":"SPDX-2.3",` + pad + `"SPDXID":"SPDXRef-DOCUMENT","name":"n"}`)
			files := []struct {
				path string
				want string
			}{{dir + "/Bom.json", string(formats.CDX14JSON)}, {dir + "/bom.json", string(formats.SPDX23JSON)},
				{dir + "/Release/sbom.json", string(formats.SPDX23JSON)}, {dir + "/release/sbom.json", string(formats.CDX14JSON)}}
			usable := true
			for _, f := range files {
				b := cdx
				if f.want == string(formats.SPDX23JSON) {
					b = spdx
				}
				if os.WriteFile(f.path, b, 0o644) != nil {
					usable = false
				}
			}
			for _, f := range files {
				if got, err := (&formats.Sniffer{}).SniffFile(f.path); usable && (err != nil || string(got) != f.want) {
					usable = false // a file system that folds case: the files are not independent
				}
			}
			for w := 0; usable && w < 16; w++ {
				wg.Add(1)
				go func(w int) {
					defer wg.Done()
					sn := &formats.Sniffer{}
					f := files[w%len(files)]
					for i := 0; i < iters/15+3; i++ {
						guard(v, "SniffFile", func() {
							got, err := sn.SniffFile(f.path)
							if err != nil || string(got) != f.want {
								v.add("SniffFile(%s) next to detections of other files gives %q (%v), alone it gives %q", f.path[len(dir):], got, err, f.want)
							}
						})
					}
					count(iters/15 + 3)
				}(w)
			}
			wg.Wait()
		}
		// independent documents written to different files of ONE directory at the same time, each read back
		if dir, err := os.MkdirTemp("", "verif-conc-files-"); err == nil {
			defer os.RemoveAll(dir)
			for w := 0; w < 8; w++ {
				wg.Add(1)
				go func(w int) {
					defer wg.Done()
					for i := 0; i < iters/20+2; i++ {
						guard(v, "WriteFile", func() {
							k := (i + w) % len(wdocs)
							f := formats.SPDX23JSON
							if k%3 == 2 {
								f = formats.CDX14JSON
							}
							path := fmt.Sprintf("%s/doc-%d-%d.json", dir, w, i)
							if err := writer.New(writer.WithFormat(f), writer.WithRenderOptions(&native.RenderOptions{Indent: 2})).WriteFile(wdocs[k], path); err != nil {
								if wdig[k] != "err" {
									v.add("WriteFile next to other WriteFile calls into the same directory fails: %v (alone the document is written: %s)", err, wdig[k])
								}
								return
							}
							b, err := os.ReadFile(path)
							if err != nil {
								v.add("a file written next to others cannot be read: %v", err)
								return
							}
							if dg := "ok:" + outputDigest(b); dg != wdig[k] {
								v.add("document %d written to its own file next to other writers gives %s, alone %s", k, dg, wdig[k])
							}
						})
					}
					count(iters/20 + 2)
				}(w)
			}
			wg.Wait()
		}
	case "new":
		// construction with options: every instance has the configuration its own options give; the
		// option values every construction has in common are created once, as a caller with a slice
		// of common options does
		commonR := reader.WithFormatOptions("common", "c")
		commonW := writer.WithFormatOptions("common", "c")
		for w := 0; w < 16; w++ {
			wg.Add(1)
			go func(w int) {
				defer wg.Done()
				for i := 0; i < iters; i++ {
					guard(v, "New with common options", func() {
						key, val := fmt.Sprintf("own%d", w), fmt.Sprintf("o%d-%d", w, i)
						rd := reader.New(commonR, reader.WithFormatOptions(key, val))
						wr := writer.New(commonW, writer.WithFormatOptions(key, val))
						if rd.Options.GetFormatOptions("common") != "c" || rd.Options.GetFormatOptions(key) != val {
							v.add("a reader built with a common and an own format option has %v / %v", rd.Options.GetFormatOptions("common"), rd.Options.GetFormatOptions(key))
						}
						if wr.Options.GetFormatOptions("common") != "c" || wr.Options.GetFormatOptions(key) != val {
							v.add("a writer built with a common and an own format option has %v / %v", wr.Options.GetFormatOptions("common"), wr.Options.GetFormatOptions(key))
						}
						other := fmt.Sprintf("own%d", (w+1)%16)
						if x := rd.Options.GetFormatOptions(other); x != nil {
							v.add("a reader built by one goroutine holds the format option %q=%v of another goroutine's reader", other, x)
						}
						if x := wr.Options.GetFormatOptions(other); x != nil {
							v.add("a writer built by one goroutine holds the format option %q=%v of another goroutine's writer", other, x)
						}
					})
				}
				count(2 * iters)
			}(w)
		}
		// parses through readers with format options of their own while other goroutines build such
		// readers: every call returns, and every parse hands the driver its own reader's options
		{
			echo := formats.Format("verif/echo-options")
			reader.RegisterUnserializer(echo, &echoDriver{})
			// one call-options value for everybody: a call only reads the options it is given
			sharedCall := &reader.Options{Format: echo}
			var busy sync.WaitGroup
			for w := 0; w < 8; w++ {
				busy.Add(1)
				go func(w int) {
					defer busy.Done()
					for i := 0; i < iters/2+1; i++ {
						guard(v, "parse next to constructions", func() {
							if w%2 == 0 {
								_ = reader.New(reader.WithFormatOptions(fmt.Sprintf("k%d", w), i))
								return
							}
							val := fmt.Sprintf("p%d-%d", w, i)
							rd := reader.New(reader.WithFormatOptions(echoKey, val))
							d, err := rd.ParseStreamWithOptions(bytes.NewReader([]byte("{}")), sharedCall)
							if err != nil || d == nil || d.Metadata.Name != val {
								v.add("a parse through a reader built with format options %q handed its driver %q (error %v)", val, d.GetMetadata().GetName(), err)
							}
						})
					}
					count(iters/2 + 1)
				}(w)
			}
			finished := make(chan struct{})
			go func() { busy.Wait(); close(finished) }()
			select {
			case <-finished:
				reader.UnregisterUnserializer(echo)
			case <-time.After(60 * time.Second):
				v.add("parses and reader constructions running side by side do not return: the calls block one another")
			}
		}
		for w := 0; w < 16; w++ {
			wg.Add(1)
			go func(w int) {
				defer wg.Done()
				for i := 0; i < iters; i++ {
					guard(v, "New", func() {
						ind := 1 + (i+w)%7
						key, val := fmt.Sprintf("k%d", w), fmt.Sprintf("v%d-%d", w, i)
						wr := writer.New(writer.WithRenderOptions(&native.RenderOptions{Indent: ind}), writer.WithFormatOptions(key, val), writer.WithFormat(formats.SPDX23JSON))
						plain := writer.New()
						rd := reader.New(reader.WithFormatOptions(key, val))
						rplain := reader.New()
						if wr.Options.RenderOptions.Indent != ind || wr.Options.GetFormatOptions(key) != val || wr.Options.Format != formats.SPDX23JSON {
							v.add("a writer built with options does not have them")
						}
						if plain.Options.RenderOptions.Indent != 4 || plain.Options.Format != "" || plain.Options.GetFormatOptions(key) != nil {
							v.add("a writer built without options differs from the defaults: indent %d format %q", plain.Options.RenderOptions.Indent, plain.Options.Format)
						}
						if rd.Options.GetFormatOptions(key) != val || rplain.Options.GetFormatOptions(key) != nil {
							v.add("reader format options leak between instances")
						}
					})
				}
				count(4 * iters)
			}(w)
		}
		wg.Wait()
	default:
		return "unknown-op"
	}
	return M{"calls": float64(calls), "violations": v.l, "count": float64(v.n)}
}

func ExecConc(op M) (res any) {
	defer func() {
		if r := recover(); r != nil {
			res = "unknown-op"
		}
	}()
	if asStr(op["op"]) != "stress" {
		return "unknown-op"
	}
	bin := os.Getenv("VERIF_RACE_BIN")
	race := true
	if bin == "" {
		bin, _ = os.Executable()
		race = false
	}
	cmd := exec.Command(bin, "child")
	cmd.Env = append(os.Environ(), "GORACE=halt_on_error=1 exitcode=66")
	cmd.Stdin = strings.NewReader(js(op))
	var out, errb bytes.Buffer
	cmd.Stdout, cmd.Stderr = &out, &errb
	done := make(chan error, 1)
	if err := cmd.Start(); err != nil {
		return "harness: " + err.Error()
	}
	go func() { done <- cmd.Wait() }()
	select {
	case err := <-done:
		if err != nil {
			tail := errb.String()
			if i := strings.Index(tail, "WARNING: DATA RACE"); i >= 0 {
				tail = tail[i:]
			}
			if len(tail) > 1500 {
				tail = tail[:1500]
			}
			return M{"aborted": err.Error(), "stderr": tail, "race": race}
		}
	case <-time.After(300 * time.Second):
		_ = cmd.Process.Kill()
		return M{"aborted": "hang", "race": race}
	}
	var r any = "no-output"
	var pv any
	if err := json.Unmarshal(bytes.TrimSpace(out.Bytes()), &pv); err == nil {
		r = Normalize(pv)
	}
	if m, ok := r.(M); ok {
		m["race"] = race
	}
	return r
}

func concGen(g *G, tier string) []M {
	n, iters := 2, 300
	if tier == "thorough" {
		n, iters = 25, 3000
	}
	var ops []M
	scenarios := []string{"registry", "io", "new", "parse", "firstuse"}
	if os.Getenv("VERIF_PROP") == "C04" {
		scenarios = []string{"parse"} // the clause "never terminate the process" of C04
	}
	if os.Getenv("VERIF_PROP") == "C11" {
		scenarios = []string{"shared", "shared"} // read-only calls on one shared document
		if n > 10 {
			n = 10
		}
	}
	for i := 0; i < n; i++ {
		for _, sc := range scenarios {
			ops = append(ops, M{"op": "stress", "scenario": sc, "seed": float64(g.Int(1 << 30)), "iters": float64(iters)})
		}
	}
	return ops
}

func oracleConc(op M, res any, exec func(M) any) []Finding {
	var out []Finding
	r, ok := res.(M)
	if !ok {
		if s, isS := res.(string); isS && s != "unknown-op" {
			out = append(out, Finding{"C17", "the stress run could not be evaluated: " + s})
		}
		return out
	}
	for _, p := range concProps(op) {
		if a := asStr(r["aborted"]); a != "" {
			out = append(out, Finding{p, fmt.Sprintf("scenario %s: the process aborted (%s): %s", asStr(op["scenario"]), a, asStr(r["stderr"]))})
		}
		for _, m := range asList(r["violations"]) {
			out = append(out, Finding{p, fmt.Sprintf("scenario %s: %s", asStr(op["scenario"]), asStr(m))})
		}
	}
	return out
}

func concProps(op M) []string {
	if asStr(op["scenario"]) == "parse" {
		return []string{"C17", "C04"}
	}
	if asStr(op["scenario"]) == "shared" {
		return []string{"C11"}
	}
	return []string{"C17"}
}

var ConcStream = &Stream{
	// scenarios of many calls (child processes, large documents): the watchdog allows for a loaded machine;
	// a call that blocks is still reported (the children have their own, shorter limits)
	Timeout: 330 * time.Second,
	Name:    "conc",
	Gen:     concGen,
	Exec:    ExecConc,
	Oracle:  oracleConc,
	Canon: func(v any) any {
		// keep what the oracle needs; the number of calls and timing are not compared
		n := Normalize(v)
		if m, ok := n.(M); ok {
			return M{"aborted": m["aborted"], "stderr": m["stderr"], "violations": m["violations"], "race": m["race"]}
		}
		return n
	},
	Nontrivial: func(op M) bool { return true },
	OpProps:    concProps,
	Reps:       1,
	NoShrink:   true,
	NoModel:    func(op M) bool { return true },
}
