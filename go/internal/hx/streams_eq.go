package hx

import (
	"fmt"
	"reflect"
	"sort"
	"strings"

	"github.com/protobom/protobom/pkg/sbom"
)

// The `eq` stream (C13: equality, checksums, flattened strings) and the `diff` stream (C14).

func ExecEq(op M) (res any) {
	converted := false
	defer func() {
		if r := recover(); r != nil {
			if !converted {
				res = "unknown-op"
				return
			}
			res = fmt.Sprintf("panic: %v", r)
		}
	}()
	name := asStr(op["op"])
	var n, m *sbom.Node
	var e, f *sbom.Edge
	var a, b *sbom.NodeList
	if v, ok := op["n"]; ok {
		n = NodeOf(v)
	}
	if v, ok := op["m"]; ok {
		m = NodeOf(v)
	}
	if v, ok := op["e"]; ok {
		e = EdgeOf(v)
	}
	if v, ok := op["f"]; ok {
		f = EdgeOf(v)
	}
	if v, ok := op["a"]; ok {
		a = NLOf(v)
	}
	if v, ok := op["b"]; ok {
		b = NLOf(v)
	}
	need := map[string][]bool{"flatNode": {n != nil}, "flatEdge": {e != nil}, "equalNode": {n != nil, m != nil},
		"equalEdge": {e != nil, f != nil}, "equalNL": {a != nil, b != nil}, "diff": {n != nil, m != nil}, "apply": {n != nil, m != nil},
		"equalAfterEdit": {n != nil, m != nil}, "equalNLAfterEdit": {a != nil, b != nil}, "equalRaw": {n != nil, m != nil}, "diffAfterEdit": {n != nil, m != nil}}
	if req, ok := need[name]; ok {
		for _, r := range req {
			if !r {
				return "unknown-op"
			}
		}
	}
	var p *sbom.Person
	var r *sbom.ExternalReference
	if name == "flatPerson" {
		p = PersonOf(op["p"])
	}
	if name == "flatRef" {
		r = RefOf(op["r"])
	}
	if op["nilA"] == true && a != nil {
		// the first list with nil in place of its empty slices: the same content
		if len(a.Nodes) == 0 {
			a.Nodes = nil
		}
		if len(a.Edges) == 0 {
			a.Edges = nil
		}
		if len(a.RootElements) == 0 {
			a.RootElements = nil
		}
	}
	if op["intern"] == true {
		// persons with the same content inside one node are one object (a caller who builds the
		// contact tree from his address book), not separate objects with equal content
		for _, nd := range []*sbom.Node{n, m} {
			if nd != nil {
				internPersons(nd)
			}
		}
	}
	var m2, freshN, freshM2 *sbom.Node
	if name == "diffAfterEdit" {
		// operands are built before the call under test (the shrinker may hand in malformed ones)
		if _, ok := op["m2"].(M); !ok {
			return "unknown-op"
		}
		m2, freshN, freshM2 = NodeOf(op["m2"]), NodeOf(op["n"]), NodeOf(op["m2"])
	}
	var x, y *sbom.Node
	if _, ok := op["x"]; ok && name == "equalRaw" {
		x, y = NodeOf(op["x"]), NodeOf(op["y"])
	}
	converted = true
	switch name {
	case "flatNode":
		return sbom.VerifNodeFlatString(n)
	case "flatEdge":
		return sbom.VerifEdgeFlatString(e)
	case "flatPerson":
		return sbom.VerifPersonFlatString(p)
	case "flatRef":
		return sbom.VerifExtRefFlatString(r)
	case "equalNode":
		return n.Equal(m)
	case "equalEdge":
		return e.Equal(f)
	case "equalNL":
		return a.Equal(b)
	case "diff":
		d := n.Diff(m)
		if d == nil {
			return "nil"
		}
		return M{"added": NodeJ(d.Added), "removed": NodeJ(d.Removed), "count": float64(d.DiffCount)}
	case "apply":
		return NodeJ(ApplyDiff(n, n.Diff(m)))
	case "diffAfterEdit":
		// a difference is a function of the two nodes as they are at the time of the call: the caller
		// edits elements of the second node's lists in place (the same person and reference objects,
		// new content) between two calls
		dj := func(d *sbom.NodeDiff) any {
			if d == nil {
				return "nil"
			}
			return M{"added": NodeJ(d.Added), "removed": NodeJ(d.Removed), "count": float64(d.DiffCount)}
		}
		first := dj(n.Diff(m))
		editElementsInPlace(m, m2)
		after := dj(n.Diff(m))
		fresh := dj(freshN.Diff(freshM2))
		return M{"first": first, "after": after, "fresh": fresh, "edited": Equal(NodeJ(m), NodeJ(m2))}
	case "equalAfterEdit":
		// equality and checksum are functions of the current value: a caller that holds the pointer
		// and assigns fields between two comparisons gets the answer for the new value
		ref, fresh := NodeOf(op["n"]), NodeOf(op["m"]) // built a second time, not copied: the library's Copy is not trusted here
		before := n.Equal(ref)
		sumBefore := n.Checksum() == ref.Checksum()
		overwriteNode(n, m)
		return M{"before": before, "sumBefore": sumBefore, "afterVsOld": n.Equal(ref), "afterVsNew": n.Equal(fresh),
			"sumAfter": n.Checksum() == fresh.Checksum(), "fresh": fresh.Equal(ref)}
	case "equalNLAfterEdit":
		ref, fresh := NLOf(op["a"]), NLOf(op["b"])
		before := a.Equal(ref)
		if len(a.Nodes) == len(b.Nodes) {
			for i := range a.Nodes {
				overwriteNode(a.Nodes[i], b.Nodes[i])
			}
		} else {
			a.Nodes = b.Nodes
		}
		a.Edges, a.RootElements = b.Edges, b.RootElements
		return M{"before": before, "afterVsOld": a.Equal(ref), "afterVsNew": a.Equal(fresh), "fresh": fresh.Equal(ref)}
	case "equalRaw":
		// text that is not valid UTF-8 is still text the operands differ or agree in
		suffix := []string{"", "\xff\xfe", "\xff\xfd", "\xc3"}
		n.Name += suffix[asInt(op["sn"])%4]
		m.Name += suffix[asInt(op["sm"])%4]
		if x == nil {
			return M{"eq": n.Equal(m), "sum": n.Checksum() == m.Checksum()}
		}
		la := &sbom.NodeList{Nodes: []*sbom.Node{n, x}, RootElements: []string{n.Id}}
		lb := &sbom.NodeList{Nodes: []*sbom.Node{m, y}, RootElements: []string{m.Id}}
		return M{"eq": la.Equal(lb), "sum": true}
	}
	return "unknown-op"
}

// internPersons makes persons without contacts of their own that have the same content the same object
func internPersons(n *sbom.Node) {
	pool := map[string]*sbom.Person{}
	var walk func(l []*sbom.Person)
	walk = func(l []*sbom.Person) {
		for i, p := range l {
			if p == nil {
				continue
			}
			if len(p.Contacts) == 0 {
				k := js(PersonJ(p))
				if q, ok := pool[k]; ok {
					l[i] = q
				} else {
					pool[k] = p
				}
				continue
			}
			walk(p.Contacts)
		}
	}
	walk(n.Suppliers)
	walk(n.Originators)
}

// overwriteNode assigns every exported attribute of src to dst, leaving dst the same object
// editElementsInPlace gives dst the content of src while keeping dst's person and reference objects
// wherever the two lists have the same length (a caller correcting an address or a URL in place)
func editElementsInPlace(dst, src *sbom.Node) {
	var person func(d, s *sbom.Person)
	person = func(d, s *sbom.Person) {
		d.Name, d.Email, d.Url, d.Phone, d.IsOrg = s.Name, s.Email, s.Url, s.Phone, s.IsOrg
		if len(d.Contacts) == len(s.Contacts) {
			for i := range d.Contacts {
				if d.Contacts[i] != nil && s.Contacts[i] != nil {
					person(d.Contacts[i], s.Contacts[i])
				} else {
					d.Contacts[i] = s.Contacts[i]
				}
			}
		} else {
			d.Contacts = s.Contacts
		}
	}
	persons := func(d, s []*sbom.Person) []*sbom.Person {
		if len(d) != len(s) {
			return s
		}
		for i := range d {
			if d[i] != nil && s[i] != nil {
				person(d[i], s[i])
			} else {
				d[i] = s[i]
			}
		}
		return d
	}
	sup, orig, refs := dst.Suppliers, dst.Originators, dst.ExternalReferences
	overwriteNode(dst, src)
	dst.Suppliers, dst.Originators = persons(sup, src.Suppliers), persons(orig, src.Originators)
	if len(refs) == len(src.ExternalReferences) {
		for i := range refs {
			if refs[i] != nil && src.ExternalReferences[i] != nil {
				r, q := refs[i], src.ExternalReferences[i]
				r.Url, r.Type, r.Comment, r.Authority, r.Hashes = q.Url, q.Type, q.Comment, q.Authority, q.Hashes
			} else {
				refs[i] = src.ExternalReferences[i]
			}
		}
		dst.ExternalReferences = refs
	}
}

func overwriteNode(dst, src *sbom.Node) {
	dst.Id, dst.Type = src.Id, src.Type
	dv, sv := reflect.ValueOf(dst).Elem(), reflect.ValueOf(src).Elem()
	for _, f := range NodeAttrs {
		dv.Field(f.Index).Set(sv.Field(f.Index))
	}
}

// ApplyDiff rebuilds the second node's attributes from the first node and the reported
// difference: an added value wins, a removed value clears, otherwise the old value stays;
// sets: (old \ removed) ∪ added; maps: drop removed keys, overlay added entries.
func ApplyDiff(n *sbom.Node, d *sbom.NodeDiff) *sbom.Node {
	out := n.Copy()
	if d == nil {
		return out
	}
	oj, aj, rj := NodeJ(out), NodeJ(d.Added), NodeJ(d.Removed)
	if asStr(aj["id"]) != "" {
		oj["id"] = aj["id"]
	} else if asStr(rj["id"]) != "" {
		oj["id"] = ""
	}
	if asInt(aj["type"]) != 0 {
		oj["type"] = aj["type"]
	} else if asInt(rj["type"]) != 0 {
		oj["type"] = float64(0)
	}
	oa, aa, ra := oj["a"].(M), aj["a"].(M), rj["a"].(M)
	for _, f := range NodeAttrs {
		o, a, r := oa[f.GoName], aa[f.GoName], ra[f.GoName]
		switch f.Kind {
		case "str":
			if a != nil {
				oa[f.GoName] = a
			} else if r != nil {
				delete(oa, f.GoName)
			}
		case "date":
			if a != nil {
				oa[f.GoName] = a
			} else if r != nil {
				delete(oa, f.GoName)
			}
		case "strs", "enums":
			keep := []any{}
			for _, x := range asList(o) {
				if !containsJ(asList(r), x) {
					keep = append(keep, x)
				}
			}
			oa[f.GoName] = append(keep, asList(a)...)
		case "persons", "refs":
			flat := func(x any) string {
				if f.Kind == "persons" {
					return sbom.VerifPersonFlatString(PersonOf(x))
				}
				return sbom.VerifExtRefFlatString(RefOf(x))
			}
			rm := map[string]bool{}
			for _, x := range asList(r) {
				rm[flat(x)] = true
			}
			keep := []any{}
			for _, x := range asList(o) {
				if !rm[flat(x)] {
					keep = append(keep, x)
				}
			}
			oa[f.GoName] = append(keep, asList(a)...)
		case "imap":
			mm := pairsToMap(o)
			for k := range pairsToMap(r) {
				delete(mm, k)
			}
			for k, v := range pairsToMap(a) {
				mm[k] = v
			}
			oa[f.GoName] = mapToPairs(mm)
		}
	}
	return NodeOf(Normalize(oj))
}

func containsJ(l []any, x any) bool {
	for _, y := range l {
		if Equal(x, y) {
			return true
		}
	}
	return false
}

// attrEqual: the equivalence the diff property speaks about — sets for list- and map-valued
// attributes (persons and references by content), seconds for dates.
func attrEqual(f AttrField, a, b any) bool {
	switch f.Kind {
	case "str":
		return asStr(a) == asStr(b)
	case "date":
		if a == nil || b == nil {
			return a == nil && b == nil
		}
		return asInt(asList(a)[0]) == asInt(asList(b)[0])
	case "imap":
		ma, mb := pairsToMap(a), pairsToMap(b)
		if len(ma) != len(mb) {
			return false
		}
		for k, v := range ma {
			if w, ok := mb[k]; !ok || w != v {
				return false
			}
		}
		return true
	default:
		set := func(v any) map[string]bool {
			s := map[string]bool{}
			for _, x := range asList(v) {
				s[js(canonElem(f, x))] = true
			}
			return s
		}
		return setEq(set(a), set(b))
	}
}

// canonElem: persons and references compared by content (map entries sorted).
func canonElem(f AttrField, x any) any {
	if f.Kind == "refs" {
		m := M{}
		for k, v := range x.(M) {
			m[k] = v
		}
		if h, ok := m["h"]; ok {
			m["h"] = sortPairs(h)
		}
		return m
	}
	return x
}

func eqProps(op M) []string {
	switch asStr(op["op"]) {
	case "diff", "apply", "diffAfterEdit":
		return []string{"C14"}
	}
	return []string{"C13"}
}

// --- generation

// perturb returns a copy of the node with one attribute (or id / type) changed to a different
// value of the same kind; name of the changed field is returned too.
func (g *G) perturb(n M) (M, string) {
	c := Normalize(n).(M)
	attrs := c["a"].(M)
	k := g.Int(len(NodeAttrs) + 2)
	if k == len(NodeAttrs) {
		c["id"] = asStr(c["id"]) + "x"
		return c, "Id"
	}
	if k == len(NodeAttrs)+1 {
		c["type"] = float64(1 - asInt(c["type"]))
		return c, "Type"
	}
	f := NodeAttrs[k]
	old := attrs[f.GoName]
	// a change deep inside a nested value: the innermost contact of a person, a hash of a reference
	if (f.Kind == "persons" || f.Kind == "refs") && len(asList(old)) > 0 && g.Chance(0.35) {
		l := Normalize(old).([]any)
		e := l[g.Int(len(l))].(M)
		if f.Kind == "persons" {
			cur := e
			depth := 0
			for {
				cs := asList(cur["c"])
				if len(cs) == 0 {
					break
				}
				cur = cs[g.Int(len(cs))].(M)
				depth++
			}
			if depth == 0 && g.Chance(0.5) {
				// grow a chain of contacts two levels down, different only at the bottom
				cur["c"] = []any{M{"n": "mid", "o": false, "c": []any{M{"n": "leaf", "o": false}}}}
				cur = asList(asList(cur["c"])[0].(M)["c"])[0].(M)
			}
			cur["p"] = asStr(cur["p"]) + "7"
		} else {
			// one member of a reference: a hash, the URL, the comment, the authority or the type
			switch g.Int(5) {
			case 0:
				mm := pairsToMap(e["h"])
				mm[int32(1+g.Int(3))] = g.Pick([]string{"deep1", "deep2"})
				e["h"] = mapToPairs(mm)
			case 1:
				e["u"] = asStr(e["u"]) + "/x"
			case 2:
				e["c"] = asStr(e["c"]) + "!"
			case 3:
				e["a"] = map[string]any{"": "nvd", "auth": "osv"}[asStr(e["a"])]
				if e["a"] == nil {
					e["a"] = "nvd"
				}
			default:
				e["t"] = float64(asInt(e["t"]) + 1)
			}
		}
		cand := Normalize(M{"v": l}).(M)["v"]
		if !attrEqual(f, old, cand) {
			attrs[f.GoName] = cand
			return c, f.GoName
		}
	}
	for try := 0; try < 20; try++ {
		var nv any
		switch g.Int(6) {
		case 0:
			nv = nil // clear
		case 1, 2:
			// a small edit of the old value: one map entry / list element more or less
			switch f.Kind {
			case "imap":
				mm := pairsToMap(old)
				if len(mm) > 0 && g.Chance(0.3) {
					for k := range mm {
						delete(mm, k)
						break
					}
				} else {
					mm[int32(1+g.Int(6))] = g.Pick([]string{"", "", "aa", "zz"})
				}
				nv = mapToPairs(mm)
			case "strs", "enums", "persons", "refs":
				l := append([]any{}, asList(old)...)
				if len(l) > 0 && g.Chance(0.4) {
					l = l[1:]
				} else {
					l = append(l, asList(g.AttrValue(f))[0])
				}
				nv = l
			default:
				nv = g.AttrValue(f)
			}
		default:
			nv = g.AttrValue(f)
		}
		cand := Normalize(M{"v": nv}).(M)["v"]
		if !attrEqual(f, old, cand) {
			if cand == nil {
				delete(attrs, f.GoName)
			} else {
				attrs[f.GoName] = cand
			}
			return c, f.GoName
		}
	}
	c["id"] = asStr(c["id"]) + "y"
	return c, "Id"
}

func shuffleAny(g *G, l []any) []any {
	out := append([]any{}, l...)
	g.R.Shuffle(len(out), func(i, j int) { out[i], out[j] = out[j], out[i] })
	return out
}

// permuteNode shuffles every order-irrelevant collection of the node.
func (g *G) permuteNode(n M) M {
	c := Normalize(n).(M)
	attrs := c["a"].(M)
	for _, f := range NodeAttrs {
		v, ok := attrs[f.GoName]
		if !ok {
			continue
		}
		switch f.Kind {
		case "strs", "enums", "imap", "persons", "refs":
			attrs[f.GoName] = shuffleAny(g, asList(v))
		}
	}
	return c
}

func (g *G) permuteNL(nl M) M {
	es := []any{}
	for _, e := range shuffleAny(g, asList(nl["edges"])) {
		em := e.(M)
		es = append(es, M{"ty": em["ty"], "src": em["src"], "tos": shuffleAny(g, asList(em["tos"]))})
	}
	ns := []any{}
	for _, n := range shuffleAny(g, asList(nl["nodes"])) {
		ns = append(ns, g.permuteNode(n.(M)))
	}
	return M{"nodes": ns, "edges": es, "roots": shuffleAny(g, asList(nl["roots"]))}
}

func eqGen(g *G, tier string) []M {
	n := 2500
	if tier == "thorough" {
		n = 80000
	}
	var ops []M
	for i := 0; i < n; i++ {
		base := g.Node(g.Pick(idPoolAll), []float64{0.1, 0.3, 0.6, 0.9}[g.Int(4)])
		switch g.Int(10) {
		case 0:
			ops = append(ops, M{"op": "flatNode", "n": base})
		case 1:
			if g.Chance(0.2) {
				// a difference two or three levels down in a supplier's or originator's contacts
				leaf := M{"n": "leaf", "o": false, "p": "1"}
				chain := M{"n": g.Pick([]string{"ACME", "Bob"}), "o": true, "c": []any{M{"n": "mid", "o": false, "c": []any{leaf}}}}
				if g.Chance(0.5) {
					chain = M{"n": "top", "o": true, "c": []any{chain}}
				}
				at, _ := base["a"].(M)
				if at == nil {
					at = M{}
					base["a"] = at
				}
				fld := g.Pick([]string{"Suppliers", "Originators"})
				at[fld] = []any{chain}
				other := Normalize(base).(M)
				cur := asList(other["a"].(M)[fld])[0].(M)
				for len(asList(cur["c"])) > 0 {
					cur = asList(cur["c"])[0].(M)
				}
				switch g.Int(3) {
				case 0:
					cur["p"] = "2"
				case 1:
					cur["e"] = "x@y"
				default:
					cur["n"] = "leaf2"
				}
				ops = append(ops, M{"op": "equalNode", "n": base, "m": other, "kind": "perturbed"})
				break
			}
			if g.Chance(0.08) {
				// text of a reference that holds a per cent sign (percent-encoded locators): the characters
				// after it are part of the value
				at, _ := base["a"].(M)
				if at == nil {
					at = M{}
					base["a"] = at
				}
				pair := [][3]string{{"u", "https://example.com/a%2Fb.tgz", "https://example.com/a%5Fb.tgz"}, {"u", "https://x/my%20file", "https://x/my%21file"},
					{"c", "50% done", "50%  done"}, {"a", "reg%1x", "reg%2x"}, {"c", "100%d", "100%s"}, {"u", "%", "%%"}}[g.Int(6)]
				ref := M{"u": "https://example.com/r", "t": 3.0}
				ref[pair[0]] = pair[1]
				at["ExternalReferences"] = []any{ref}
				other := Normalize(base).(M)
				asList(other["a"].(M)["ExternalReferences"])[0].(M)[pair[0]] = pair[2]
				if g.Chance(0.5) {
					base, other = other, base
				}
				ops = append(ops, M{"op": "equalNode", "n": base, "m": other, "kind": "perturbed"})
				break
			}
			if g.Chance(0.06) {
				// the same text in sibling members: a reference's comment against its authority, a
				// person's phone against its URL, suppliers against originators
				at, _ := base["a"].(M)
				if at == nil {
					at = M{}
					base["a"] = at
				}
				other := Normalize(base).(M)
				oa := other["a"].(M)
				switch g.Int(3) {
				case 0:
					at["ExternalReferences"] = []any{M{"u": "https://nvd", "t": 3.0, "c": "NIST"}}
					oa["ExternalReferences"] = []any{M{"u": "https://nvd", "t": 3.0, "a": "NIST"}}
				case 1:
					fld := g.Pick([]string{"Suppliers", "Originators"})
					at[fld] = []any{M{"n": "ACME", "o": true, "p": "https://acme"}}
					oa[fld] = []any{M{"n": "ACME", "o": true, "u": "https://acme"}}
				default:
					delete(at, "Originators")
					delete(oa, "Suppliers")
					at["Suppliers"] = []any{M{"n": "ACME", "o": true}}
					oa["Originators"] = []any{M{"n": "ACME", "o": true}}
				}
				ops = append(ops, M{"op": "equalNode", "n": base, "m": other, "kind": "perturbed"})
				break
			}
			if g.Chance(0.08) {
				// one person object reachable twice under a supplier (a help desk two contacts share, a
				// contact listed twice): each occurrence is content
				at, _ := base["a"].(M)
				if at == nil {
					at = M{}
					base["a"] = at
				}
				desk := M{"n": "help desk", "o": true, "e": "desk@acme"}
				fld := g.Pick([]string{"Suppliers", "Originators"})
				other := Normalize(base).(M)
				if g.Chance(0.5) {
					at[fld] = []any{M{"n": "ACME", "o": true, "c": []any{M{"n": "Alice", "c": []any{desk}}, M{"n": "Bob", "c": []any{desk}}}}}
					other["a"].(M)[fld] = []any{M{"n": "ACME", "o": true, "c": []any{M{"n": "Alice", "c": []any{desk}}, M{"n": "Bob"}}}}
				} else {
					at[fld] = []any{M{"n": "ACME", "o": true, "c": []any{desk, desk}}}
					other["a"].(M)[fld] = []any{M{"n": "ACME", "o": true, "c": []any{desk}}}
				}
				if g.Chance(0.5) {
					base, other = other, base
				}
				ops = append(ops, M{"op": "equalNode", "n": base, "m": other, "kind": "perturbed", "intern": true})
				break
			}
			if g.Chance(0.1) {
				// a map entry whose value is empty is an entry: the node with it differs from the node without
				at, _ := base["a"].(M)
				if at == nil {
					at = M{}
					base["a"] = at
				}
				fld := g.Pick([]string{"Hashes", "Identifiers"})
				at[fld] = []any{[]any{1.0, "aa"}}
				other := Normalize(base).(M)
				other["a"].(M)[fld] = []any{[]any{1.0, "aa"}, []any{float64(2 + g.Int(2)), ""}}
				if g.Chance(0.5) {
					base, other = other, base
				}
				ops = append(ops, M{"op": "equalNode", "n": base, "m": other, "kind": "perturbed"})
				break
			}
			if g.Chance(0.12) {
				// two different instants far from today (never-expires dates, dates before 1677), or the
				// half second before the epoch against the epoch
				at, _ := base["a"].(M)
				if at == nil {
					at = M{}
					base["a"] = at
				}
				fld := g.Pick([]string{"ReleaseDate", "BuildDate", "ValidUntilDate"})
				pair := [][2][]any{{{253402214400.0, 0.0}, {32503593600.0, 0.0}}, {{10413792000.0, 0.0}, {13569465600.0, 0.0}},
					{{-62135596800.0, 0.0}, {-11676096000.0, 0.0}}, {{-1.0, 500000000.0}, {0.0, 0.0}}}[g.Int(4)]
				at[fld] = pair[0]
				other := Normalize(base).(M)
				other["a"].(M)[fld] = pair[1]
				if g.Chance(0.5) {
					base, other = other, base
				}
				ops = append(ops, M{"op": "equalNode", "n": base, "m": other, "kind": "perturbed"})
				break
			}
			if g.Chance(0.15) {
				// a date that is present against the same node without it, for the instants most easily
				// mistaken for "no date": the epoch and 0001-01-01T00:00:00Z
				at, _ := base["a"].(M)
				if at == nil {
					at = M{}
					base["a"] = at
				}
				fld := g.Pick([]string{"ReleaseDate", "BuildDate", "ValidUntilDate"})
				at[fld] = []any{float64(g.Pick2([]int{0, -62135596800, 1700000000})), 0.0}
				other := Normalize(base).(M)
				delete(other["a"].(M), fld)
				if g.Chance(0.5) {
					base, other = other, base
				}
				ops = append(ops, M{"op": "equalNode", "n": base, "m": other, "kind": "perturbed"})
				break
			}
			if g.Chance(0.15) {
				// both nodes carry the same date that protobuf calls invalid (nanos out of range, past
				// year 9999): every other attribute still counts
				at, _ := base["a"].(M)
				if at == nil {
					at = M{}
					base["a"] = at
				}
				at[g.Pick([]string{"ReleaseDate", "BuildDate", "ValidUntilDate"})] = [][]any{{1700080498.0, 1500000000.0}, {1700080498.0, -5.0}, {316582063200.0, 0.0}}[g.Int(3)]
			}
			p, _ := g.perturb(base)
			ops = append(ops, M{"op": "equalNode", "n": base, "m": p, "kind": "perturbed"})
		case 2:
			if g.Chance(0.3) {
				// dates compare to the second: the same instant with another sub-second part is the same value
				at, _ := base["a"].(M)
				if at == nil {
					at = M{}
					base["a"] = at
				}
				fld := g.Pick([]string{"ReleaseDate", "BuildDate", "ValidUntilDate"})
				secs := float64(g.Pick2([]int{0, 1, 1700000000, 1700086400, 253402214400, -11676096000}))
				at[fld] = []any{secs, float64(g.Pick2([]int{0, 1, 500, 500000000}))}
				other := g.permuteNode(base)
				other["a"].(M)[fld] = []any{secs, float64(g.Pick2([]int{0, 999, 70000, 999999999}))}
				ops = append(ops, M{"op": "equalNode", "n": base, "m": other, "kind": "permuted"})
				break
			}
			ops = append(ops, M{"op": "equalNode", "n": base, "m": g.permuteNode(base), "kind": "permuted"})
		case 3:
			ops = append(ops, M{"op": "equalNode", "n": base, "m": g.Node(asStr(base["id"]), 0.3), "kind": "random"})
		case 4:
			e := M{"ty": float64(g.Pick2([]int{5, 10, 0, 1, 44, 77, 45, 46, 1000, -1})), "src": g.Pick(idPoolAll), "tos": []any{}}
			for k := 0; k < g.Int(4); k++ {
				e["tos"] = append(e["tos"].([]any), g.Pick(idPoolAll))
			}
			f := Normalize(e).(M)
			switch g.Int(4) {
			case 3:
				// the same number of targets, drawn from the same identifiers, another one repeated
				ts := asList(e["tos"])
				if len(ts) >= 2 {
					a, b := ts[0], ts[1]
					e["tos"] = append([]any{a, a, b}, ts[2:]...)
					f = Normalize(e).(M)
					f["tos"] = shuffleAny(g, append([]any{a, b, b}, ts[2:]...))
				}
			case 0:
				f["tos"] = shuffleAny(g, asList(f["tos"]))
			case 1:
				f["tos"] = append(asList(f["tos"]), "q")
			case 2:
				// another type: a named one, or another number without a name
				f["ty"] = float64(g.Pick2([]int{5, 10, 0, 1, 44, 77, 45, 46, 1000, -1}))
			}
			if g.Chance(0.3) {
				ops = append(ops, M{"op": "flatEdge", "e": e})
			} else {
				ops = append(ops, M{"op": "equalEdge", "e": e, "f": f})
			}
		case 5, 6:
			o := g.Opts(g.Chance(0.7))
			o.AttrP = 0.2
			a := g.NodeList(o)
			var b M
			kind := ""
			switch g.Int(4) {
			case 0:
				b, kind = g.permuteNL(a), "permuted"
			case 1:
				b, kind = g.NodeList(o), "random"
			case 3:
				// same sizes, but one edge / root / node replaced by a duplicate of another
				b = Normalize(a).(M)
				kind = "perturbed"
				for _, key := range []string{"edges", "roots", "nodes"} {
					l := asList(b[key])
					if len(l) >= 2 && g.Chance(0.6) {
						i, j := g.Int(len(l)), g.Int(len(l))
						l[j] = l[i]
					}
				}
			case 2:
				b = Normalize(a).(M)
				kind = "perturbed"
				ns := asList(b["nodes"])
				if len(ns) > 0 {
					k := g.Int(len(ns))
					ns[k], _ = g.perturb(ns[k].(M))
				} else {
					b["roots"] = append(asList(b["roots"]), "r")
				}
			}
			if kind == "permuted" && g.Chance(0.4) && len(asList(a["nodes"])) >= 3 {
				// several edges with the same source and type, different targets, stored in another order
				ns := asList(a["nodes"])
				id := func(i int) any { return ns[i%len(ns)].(M)["id"] }
				extra := []any{M{"ty": 10.0, "src": id(0), "tos": []any{id(1)}}, M{"ty": 10.0, "src": id(0), "tos": []any{id(2)}}, M{"ty": 10.0, "src": id(0), "tos": []any{id(2), id(1)}}}
				a["edges"] = append(asList(a["edges"]), extra...)
				b = g.permuteNL(a)
				b["edges"] = append(asList(Normalize(a["edges"]))[:len(asList(a["edges"]))-3], extra[2], extra[1], extra[0])
			}
			ops = append(ops, M{"op": "equalNL", "a": a, "b": b, "kind": kind})
			if g.Chance(0.3) {
				ops[len(ops)-1]["nilA"] = true
			}
		case 7:
			ops = append(ops, M{"op": "flatPerson", "p": g.Person(2)})
		case 8:
			ops = append(ops, M{"op": "flatRef", "r": g.Ref()})
		case 9:
			// triples for transitivity: base, a permutation, a permutation of that
			ops = append(ops, M{"op": "equalNode", "n": g.permuteNode(base), "m": g.permuteNode(base), "kind": "permuted"})
		}
		// every tenth comparison also as "compare, edit the first operand in place, compare again", and
		// with names that are not valid UTF-8
		if last := ops[len(ops)-1]; i%10 == 3 {
			switch asStr(last["op"]) {
			case "equalNode":
				ops = append(ops, M{"op": "equalAfterEdit", "n": last["n"], "m": last["m"], "kind": last["kind"]})
				raw := M{"op": "equalRaw", "n": last["n"], "m": last["m"], "kind": last["kind"], "sn": float64(1 + g.Int(3)), "sm": float64(1 + g.Int(3))}
				if g.Chance(0.5) {
					raw["sm"] = raw["sn"]
				}
				if g.Chance(0.5) {
					raw["x"] = g.Node("x", 0.3)
					raw["y"] = raw["x"]
					if g.Chance(0.6) {
						raw["y"], _ = g.perturb(raw["x"].(M))
					}
				}
				ops = append(ops, raw)
			case "equalNL":
				ops = append(ops, M{"op": "equalNLAfterEdit", "a": last["a"], "b": last["b"], "kind": last["kind"]})
			}
		}
	}
	// fixed inputs, there at every seed and drawing nothing from the random stream (round 23): two
	// nodes that differ in exactly one field of one person who has no other optional field — a URL
	// without an e-mail address, a telephone number without a URL, … — as a supplier or an originator
	// and as that person's contact; each pair also as value against absent
	for _, fld := range []string{"Suppliers", "Originators"} {
		for _, key := range []string{"n", "e", "u", "p", "o"} {
			for _, nested := range []bool{false, true} {
				for _, absent := range []bool{false, true} {
					mk := func(second bool) M {
						per := M{"n": "P", "o": false}
						switch {
						case key == "o":
							per["o"] = second
						case key == "n" && second:
							per["n"] = "Q"
						case key != "n" && !second && !absent:
							per[key] = "v1"
						case key != "n" && second:
							per[key] = "v2"
						}
						if nested {
							per = M{"n": "top", "o": true, "c": []any{per}}
						}
						return M{"id": "fx", "type": 0.0, "a": M{fld: []any{per}}}
					}
					if absent && (key == "n" || key == "o") {
						continue
					}
					ops = append(ops, M{"op": "equalNode", "n": mk(false), "m": mk(true), "kind": "perturbed"})
					ops = append(ops, M{"op": "flatPerson", "p": asList(mk(true)["a"].(M)[fld])[0]})
				}
			}
		}
	}
	return ops
}

// RefFlatNode renders the flattened string of a node as the documented format prescribes (sorted
// "name:value" pairs joined by ':'). It is an independent re-statement used ONLY to decide
// whether a "differ but compare equal" report is the known separator collision (the format itself
// maps both operands to one string) or something new.
func RefFlatNode(n M) string {
	pairs := []string{}
	pre := "protobom.protobom.Node."
	if asStr(n["id"]) != "" {
		pairs = append(pairs, pre+"id:"+asStr(n["id"]))
	}
	if asInt(n["type"]) != 0 {
		pairs = append(pairs, fmt.Sprintf("%stype:%d", pre, asInt(n["type"])))
	}
	for _, f := range NodeAttrs {
		v := attrOf(n, f.GoName)
		if v == nil {
			continue
		}
		pn := protoName(f.GoName)
		switch f.Kind {
		case "str":
			pairs = append(pairs, pre+pn+":"+asStr(v))
		case "strs", "enums":
			vals := []string{}
			for _, x := range asList(v) {
				if f.Kind == "enums" {
					vals = append(vals, fmt.Sprint(asInt(x)))
				} else {
					vals = append(vals, asStr(x))
				}
			}
			sort.Strings(vals)
			p := ""
			for i, x := range vals {
				p += fmt.Sprintf("%s%s[%d]:%s", pre, pn, i, x)
			}
			pairs = append(pairs, p)
		case "imap":
			m := pairsToMap(v)
			if pn == "identifiers" {
				for _, kv := range mapToPairs(m) {
					q := kv.([]any)
					pairs = append(pairs, fmt.Sprintf("identifiers[%d]:%s", asInt(q[0]), asStr(q[1])))
				}
			} else {
				keys := []string{}
				vals := map[string]string{}
				for k, x := range m {
					keys = append(keys, fmt.Sprint(k))
					vals[fmt.Sprint(k)] = x
				}
				sort.Strings(keys)
				p := ""
				for _, k := range keys {
					p += k + ":" + vals[k]
				}
				pairs = append(pairs, pre+pn+":"+p)
			}
		case "date":
			pairs = append(pairs, fmt.Sprintf("%s%s:%d", pre, pn, asInt(asList(v)[0])))
		case "persons":
			word := map[string]string{"suppliers": "supplier", "originators": "originator"}[pn]
			for _, x := range asList(v) {
				pairs = append(pairs, word+":"+refFlatPerson(x.(M)))
			}
		case "refs":
			for _, x := range asList(v) {
				pairs = append(pairs, "extref:"+refFlatRef(x.(M)))
			}
		}
	}
	sort.Strings(pairs)
	return strings.Join(pairs, ":")
}

func protoName(goName string) string {
	var b strings.Builder
	for i, c := range goName {
		if c >= 'A' && c <= 'Z' {
			if i > 0 {
				b.WriteByte('_')
			}
			b.WriteRune(c - 'A' + 'a')
		} else {
			b.WriteRune(c)
		}
	}
	return b.String()
}

func refFlatPerson(p M) string {
	o, _ := p["o"].(bool)
	s := fmt.Sprintf("n(%s)o(%v)", asStr(p["n"]), o)
	if asStr(p["e"]) != "" {
		s += "email(" + asStr(p["e"]) + ")"
	}
	if asStr(p["u"]) != "" {
		s += "url(" + asStr(p["u"]) + ")"
	}
	if asStr(p["p"]) != "" {
		s += "p(" + asStr(p["p"]) + ")"
	}
	if cs := asList(p["c"]); len(cs) > 0 {
		s += "c("
		for _, c := range cs {
			s += refFlatPerson(c.(M))
		}
		s += ")"
	}
	return s
}

func refFlatRef(r M) string {
	t := int64(0)
	if v, ok := r["t"]; ok {
		t = asInt(v)
	}
	s := fmt.Sprintf("(t)%d", t)
	if asStr(r["u"]) != "" {
		s += "(u)" + asStr(r["u"])
	}
	if asStr(r["c"]) != "" {
		s += "(c)" + asStr(r["c"])
	}
	if asStr(r["a"]) != "" {
		s += "(a)" + asStr(r["a"])
	}
	if h := asList(r["h"]); len(h) > 0 {
		s += "(h)"
		for _, kv := range mapToPairs(pairsToMap(h)) {
			q := kv.([]any)
			s += fmt.Sprintf("[%d]%s", asInt(q[0]), asStr(q[1]))
		}
	}
	return s
}

func refFlatEdge(e M) string {
	tos := []string{}
	for _, t := range asList(e["tos"]) {
		tos = append(tos, asStr(t))
	}
	sort.Strings(tos)
	return fmt.Sprintf("%s:%s:%s", asStr(e["src"]), sbom.Edge_Type(asInt(e["ty"])).String(), strings.Join(tos, "+"))
}

// FormatCollision: the documented flattened-string format maps the two operands of the equality
// operation to the same strings although they differ (known finding KF-C13-separators).
func FormatCollision(op M) bool {
	switch asStr(op["op"]) {
	case "equalNode":
		return RefFlatNode(op["n"].(M)) == RefFlatNode(op["m"].(M))
	case "equalEdge":
		return refFlatEdge(op["e"].(M)) == refFlatEdge(op["f"].(M))
	case "equalNL":
		a, b := op["a"].(M), op["b"].(M)
		fl := func(m M) ([]string, []string) {
			ns, es := []string{}, []string{}
			for _, n := range asList(m["nodes"]) {
				ns = append(ns, RefFlatNode(n.(M)))
			}
			for _, e := range asList(m["edges"]) {
				es = append(es, refFlatEdge(e.(M)))
			}
			sort.Strings(ns)
			sort.Strings(es)
			return ns, es
		}
		na, ea := fl(a)
		nb, eb := fl(b)
		return Equal(na, nb) && Equal(ea, eb)
	}
	return false
}

// SeparatorRisk: the operands of an equality operation contain a value with one of the
// flattened-string separators, or a node whose hash map has two or more entries (its entries are
// concatenated without a separator). This is the predicate of known finding KF-C13-separators.
func SeparatorRisk(op M) bool {
	for _, k := range []string{"n", "m", "e", "f", "a", "b"} {
		v, ok := op[k]
		if !ok {
			continue
		}
		if !markerFree(v) || multiHash(v) {
			return true
		}
	}
	return false
}

func multiHash(v any) bool {
	switch x := v.(type) {
	case []any:
		for _, e := range x {
			if multiHash(e) {
				return true
			}
		}
	case M:
		if h, ok := x["Hashes"]; ok && len(asList(h)) >= 2 {
			return true
		}
		for _, e := range x {
			if multiHash(e) {
				return true
			}
		}
	}
	return false
}

func markerFree(v any) bool {
	bad := func(s string) bool {
		return strings.ContainsAny(s, ":+()[]") || strings.Contains(s, "protobom.")
	}
	switch x := v.(type) {
	case string:
		return !bad(x)
	case []any:
		for _, e := range x {
			if !markerFree(e) {
				return false
			}
		}
	case M:
		for _, e := range x {
			if !markerFree(e) {
				return false
			}
		}
	}
	return true
}

// nodeContentEqual: every attribute carries the same content (multisets for set-valued
// attributes, maps as maps, dates to the second, persons/references with their hashes).
func nodeContentEqual(a, b M) bool {
	if asStr(a["id"]) != asStr(b["id"]) || asInt(a["type"]) != asInt(b["type"]) {
		return false
	}
	for _, f := range NodeAttrs {
		x, y := attrOf(a, f.GoName), attrOf(b, f.GoName)
		switch f.Kind {
		case "strs", "enums", "persons", "refs":
			cx, cy := []any{}, []any{}
			for _, e := range asList(x) {
				cx = append(cx, canonElem(f, e))
			}
			for _, e := range asList(y) {
				cy = append(cy, canonElem(f, e))
			}
			if !Equal(sortAny(cx), sortAny(cy)) {
				return false
			}
		default:
			if !attrEqual(f, x, y) {
				return false
			}
		}
	}
	return true
}

func oracleEq(op M, res any, exec func(M) any) []Finding {
	var out []Finding
	add := func(p, f string, a ...any) { out = append(out, Finding{p, fmt.Sprintf(f, a...)}) }
	if s, ok := res.(string); ok && strings.HasPrefix(s, "panic") {
		add(eqProps(op)[0], "%v panicked: %s", op["op"], s)
		return out
	}
	switch asStr(op["op"]) {
	case "equalNode":
		n, m := op["n"].(M), op["m"].(M)
		eq, _ := res.(bool)
		// symmetric, reflexive
		if r, ok := exec(M{"op": "equalNode", "n": m, "m": n}).(bool); ok && r != eq {
			add("C13", "node equality is not symmetric")
		}
		if r, ok := exec(M{"op": "equalNode", "n": n, "m": n}).(bool); ok && !r {
			add("C13", "node equality is not reflexive")
		}
		same := nodeContentEqual(n, m)
		if same && !eq {
			add("C13", "nodes with the same content (collections reordered) compare unequal")
		}
		if !same && eq {
			add("C13", "nodes that differ in an attribute compare equal")
		}
		// agreement with checksums
		cn, cm := NodeOf(n).Checksum(), NodeOf(m).Checksum()
		if (cn == cm) != eq {
			add("C13", "node equality disagrees with checksum equality")
		}
	case "diffAfterEdit":
		r, ok := res.(M)
		if !ok || r["edited"] != true {
			break
		}
		if !Equal(r["after"], r["fresh"]) {
			add("C14", "after elements of the second node were edited in place diff reports %s; for fresh nodes with the same content it reports %s", js(r["after"]), js(r["fresh"]))
		}
	case "equalAfterEdit", "equalNLAfterEdit":
		r, ok := res.(M)
		if !ok {
			break
		}
		what := "node"
		if asStr(op["op"]) == "equalNLAfterEdit" {
			what = "node list"
		}
		if r["before"] != true || (what == "node" && r["sumBefore"] != true) {
			add("C13", "a %s does not compare equal to a value built from the same description", what)
		}
		if r["afterVsNew"] != true {
			add("C13", "a %s edited in place between two comparisons does not compare equal to a fresh value with the new content", what)
		}
		if what == "node" && r["sumAfter"] != true {
			add("C13", "the checksum of a node edited in place is not the checksum of a fresh node with the new content")
		}
		if r["afterVsOld"] != r["fresh"] {
			add("C13", "a %s edited in place compares %v with its old content, fresh values with the same two contents compare %v", what, r["afterVsOld"], r["fresh"])
		}
	case "equalRaw":
		r, ok := res.(M)
		if !ok {
			break
		}
		n, m := op["n"].(M), op["m"].(M)
		same := nodeContentEqual(n, m) && asInt(op["sn"]) == asInt(op["sm"])
		if _, isList := op["x"]; isList {
			same = same && asStr(n["id"]) == asStr(m["id"]) && nodeContentEqual(op["x"].(M), op["y"].(M))
			if same != (r["eq"] == true) {
				add("C13", "node lists whose names are not valid UTF-8 compare %v, their content is the same: %v", r["eq"], same)
			}
			break
		}
		if same != (r["eq"] == true) || same != (r["sum"] == true) {
			add("C13", "nodes whose names are not valid UTF-8 compare %v (checksums equal: %v), their content is the same: %v", r["eq"], r["sum"], same)
		}
	case "equalEdge":
		e, f := op["e"].(M), op["f"].(M)
		eq, _ := res.(bool)
		if r, ok := exec(M{"op": "equalEdge", "e": f, "f": e}).(bool); ok && r != eq {
			add("C13", "edge equality is not symmetric")
		}
		st := func(x M) string {
			t := []string{}
			for _, v := range asList(x["tos"]) {
				t = append(t, asStr(v))
			}
			sort.Strings(t)
			return js([]any{x["src"], x["ty"], t})
		}
		same := st(e) == st(f)
		if same && !eq {
			add("C13", "edges with the same source, type and target multiset compare unequal")
		}
		if !same && eq {
			add("C13", "edges that differ compare equal")
		}
	case "equalNL":
		a, b := op["a"].(M), op["b"].(M)
		eq, _ := res.(bool)
		if r, ok := exec(M{"op": "equalNL", "a": b, "b": a}).(bool); ok && r != eq {
			add("C13", "node-list equality is not symmetric")
		}
		if r, ok := exec(M{"op": "equalNL", "a": a, "b": a}).(bool); ok && !r {
			add("C13", "node-list equality is not reflexive")
		}
		va, vb := View(a), View(b)
		if va.Nodup() && vb.Nodup() {
			same := nlContentEqual(a, b)
			if same && !eq {
				add("C13", "node lists with the same content in a different order compare unequal")
			}
			if !same && eq {
				add("C13", "node lists that differ compare equal")
			}
		}
	case "diff":
		n, m := op["n"].(M), op["m"].(M)
		differing := 0
		if asStr(n["id"]) != asStr(m["id"]) {
			differing++
		}
		if asInt(n["type"]) != asInt(m["type"]) {
			differing++
		}
		for _, f := range NodeAttrs {
			if !attrEqual(f, attrOf(n, f.GoName), attrOf(m, f.GoName)) {
				differing++
			}
		}
		// "diffing with an equal node reports no difference": the two notions of sameness agree, up
		// to the recorded collisions of the flattened string
		if eq, ok := exec(M{"op": "equalNode", "n": n, "m": m}).(bool); ok && eq && differing > 0 && !FormatCollision(M{"op": "equalNode", "n": n, "m": m}) && !SeparatorRisk(M{"op": "equalNode", "n": n, "m": m}) {
			add("C14", "the nodes compare equal, yet %d attribute(s) differ and diff reports %s", differing, js(res))
		}
		if differing == 0 && !Equal(res, "nil") {
			add("C14", "diff of nodes whose attributes agree reports a difference: %s", js(res))
		}
		if differing > 0 {
			d, ok := res.(M)
			if !ok {
				add("C14", "diff reports no difference although %d attribute(s) differ", differing)
			} else if int(asInt(d["count"])) != differing {
				add("C14", "diff counts %d differing attributes, %d differ", asInt(d["count"]), differing)
			}
		}
		if r := exec(M{"op": "diff", "n": n, "m": n}); !Equal(r, "nil") {
			add("C14", "diff of a node with itself reports a difference")
		}
		// reconstruction
		rebuilt, ok := exec(M{"op": "apply", "n": n, "m": m}).(M)
		if ok {
			if asStr(rebuilt["id"]) != asStr(m["id"]) || asInt(rebuilt["type"]) != asInt(m["type"]) {
				add("C14", "identifier/type cannot be rebuilt from the reported difference")
			}
			for _, f := range NodeAttrs {
				if !attrEqual(f, attrOf(rebuilt, f.GoName), attrOf(m, f.GoName)) {
					add("C14", "attribute %s of the second node cannot be rebuilt from the first node and the reported difference", f.GoName)
				}
			}
		}
	}
	return out
}

func nlContentEqual(a, b M) bool {
	va, vb := View(a), View(b)
	if !Equal(sortAny(asList(a["roots"])), sortAny(asList(b["roots"]))) {
		return false
	}
	es := func(m M) []any {
		l := []any{}
		for _, e := range asList(m["edges"]) {
			em := e.(M)
			l = append(l, []any{em["src"], em["ty"], sortAny(asList(em["tos"]))})
		}
		return sortAny(l)
	}
	if !Equal(es(a), es(b)) {
		return false
	}
	if len(va.IDs) != len(vb.IDs) {
		return false
	}
	for id, ns := range va.Nodes {
		ms, ok := vb.Nodes[id]
		if !ok || !nodeContentEqual(ns[0], ms[0]) {
			return false
		}
	}
	return true
}

var EqStream = &Stream{
	Name:    "eq",
	Gen:     eqGen,
	Exec:    ExecEq,
	Oracle:  oracleEq,
	OpProps: eqProps,
	Canon:   func(v any) any { return CanonResult(v) },
	Nontrivial: func(op M) bool {
		k := asStr(op["kind"])
		return k == "perturbed" || k == "permuted" || strings.HasPrefix(asStr(op["op"]), "flat")
	},
	Reps: 2,
	NoModel: func(op M) bool {
		o := asStr(op["op"])
		return o == "equalAfterEdit" || o == "equalNLAfterEdit" || o == "equalRaw"
	},
}

func diffGen(g *G, tier string) []M {
	n := 2500
	if tier == "thorough" {
		n = 80000
	}
	var ops []M
	for i := 0; i < n; i++ {
		base := g.Node(g.Pick(idPoolAll), []float64{0.1, 0.3, 0.6, 0.9}[g.Int(4)])
		var other M
		if g.Chance(0.04) {
			// two nodes that differ in two scalar attributes but flatten to the same string (a value
			// that contains the separator and the next field's name): Diff compares attribute by
			// attribute and must still report them
			id := g.Pick(idPoolAll)
			x, y := g.Pick([]string{"a", "x y", "1.0"}), g.Pick([]string{"b", "z", "2"})
			pair := [][2]string{{"Comment", "copyright"}, {"Name", "summary"}, {"Description", "file_name"}}[g.Int(3)]
			second := map[string]string{"copyright": "Copyright", "summary": "Summary", "file_name": "FileName"}[pair[1]]
			base = M{"id": id, "type": 0.0, "a": M{pair[0]: x, second: y}}
			other = M{"id": id, "type": 0.0, "a": M{pair[0]: x + ":protobom.protobom.Node." + pair[1] + ":" + y}}
			if g.Chance(0.5) {
				base, other = other, base
			}
			ops = append(ops, M{"op": "diff", "n": base, "m": other})
			continue
		}
		if g.Chance(0.05) {
			// two nodes that differ in letter case only, in one attribute: different values
			at, _ := base["a"].(M)
			if at == nil {
				at = M{}
				base["a"] = at
			}
			other = Normalize(base).(M)
			oa := other["a"].(M)
			switch g.Int(4) {
			case 0:
				at["Name"], oa["Name"] = "OpenSSL", "openssl"
			case 1:
				at["Hashes"], oa["Hashes"] = []any{[]any{3.0, "ab12"}}, []any{[]any{3.0, "AB12"}}
			case 2:
				at["Licenses"], oa["Licenses"] = []any{"MIT", "apache-2.0"}, []any{"MIT", "Apache-2.0"}
			default:
				at["Identifiers"], oa["Identifiers"] = []any{[]any{1.0, "pkg:npm/Left-Pad@1"}}, []any{[]any{1.0, "pkg:npm/left-pad@1"}}
			}
			if g.Chance(0.5) {
				base, other = other, base
			}
			ops = append(ops, M{"op": "diff", "n": base, "m": other})
			continue
		}
		if g.Chance(0.04) {
			// two nodes that differ in one map entry only, under a key the schema has no name for (the
			// unknown type 0, numbers past the last defined one, a negative number)
			at, _ := base["a"].(M)
			if at == nil {
				at = M{}
				base["a"] = at
			}
			fld := g.Pick([]string{"Identifiers", "Hashes"})
			at[fld] = []any{[]any{1.0, "aa"}}
			other = Normalize(base).(M)
			key := float64(g.Pick2([]int{0, 5, 7, 99, -1, 18, 1000}))
			if g.Chance(0.5) {
				other["a"].(M)[fld] = []any{[]any{1.0, "aa"}, []any{key, "v"}}
			} else {
				at[fld] = []any{[]any{1.0, "aa"}, []any{key, "v"}}
				other["a"].(M)[fld] = []any{[]any{1.0, "aa"}, []any{key, "w"}}
			}
			if g.Chance(0.5) {
				base, other = other, base
			}
			ops = append(ops, M{"op": "diff", "n": base, "m": other})
			continue
		}
		if g.Chance(0.05) {
			// diff, an in-place edit of an element of a list of the second node, diff again
			at, _ := base["a"].(M)
			if at == nil {
				at = M{}
				base["a"] = at
			}
			at["Suppliers"] = []any{M{"n": "ACME", "o": true, "e": "info@acme", "c": []any{M{"n": "Jane Doe", "e": "jane@acme"}, M{"n": "desk"}}}}
			at["Originators"] = []any{M{"n": "John Doe", "e": "john@x"}, M{"n": "Org", "o": true}}
			at["ExternalReferences"] = []any{M{"u": "https://example.com/a", "t": 3.0, "h": []any{[]any{3.0, "aa"}}}, M{"u": "https://example.com/b", "t": 1.0}}
			twin := Normalize(base).(M)
			edited := Normalize(base).(M)
			ea := edited["a"].(M)
			switch g.Int(4) {
			case 0:
				asList(asList(ea["Suppliers"])[0].(M)["c"])[0].(M)["e"] = "j.doe@acme"
			case 1:
				asList(ea["Originators"])[0].(M)["n"] = "John Roe"
			case 2:
				asList(ea["ExternalReferences"])[0].(M)["u"] = "https://example.com/a2"
			default:
				asList(ea["ExternalReferences"])[0].(M)["h"] = []any{[]any{3.0, "bb"}}
			}
			if g.Chance(0.5) {
				// equal first, different after the edit
				ops = append(ops, M{"op": "diffAfterEdit", "n": base, "m": twin, "m2": edited})
			} else {
				// different first, equal after the edit
				ops = append(ops, M{"op": "diffAfterEdit", "n": base, "m": edited, "m2": twin})
			}
			continue
		}
		if g.Chance(0.06) {
			// collections that are there and empty against collections that are absent: no attribute
			// differs; with one text attribute changed as well, exactly one does
			other = Normalize(base).(M)
			for _, x := range []M{base, other} {
				if _, ok := x["a"].(M); !ok {
					x["a"] = M{}
				}
			}
			ba, oa := base["a"].(M), other["a"].(M)
			for _, f := range NodeAttrs {
				switch f.Kind {
				case "imap", "strs", "enums", "persons", "refs":
					switch g.Int(4) {
					case 0:
						delete(ba, f.GoName)
						oa[f.GoName] = []any{}
					case 1:
						delete(oa, f.GoName)
						ba[f.GoName] = []any{}
					case 2:
						ba[f.GoName], oa[f.GoName] = []any{}, []any{}
					}
				}
			}
			if g.Chance(0.5) {
				fld := g.Pick([]string{"Name", "Version", "Comment"})
				oa[fld] = asStr(oa[fld]) + "x"
			}
			ops = append(ops, M{"op": "diff", "n": base, "m": other})
			continue
		}
		switch g.Int(8) {
		case 7:
			// a supplier / originator (or one of its contacts) that differs from its twin in white
			// space only: a blank field against an absent one, a trailing or leading blank
			at, _ := base["a"].(M)
			if at == nil {
				at = M{}
				base["a"] = at
			}
			if g.Chance(0.5) {
				// or: an external reference that differs from its twin in one member only
				if len(asList(at["ExternalReferences"])) == 0 {
					at["ExternalReferences"] = []any{g.Ref()}
				}
				other = Normalize(base).(M)
				l := asList(other["a"].(M)["ExternalReferences"])
				e := l[g.Int(len(l))].(M)
				switch g.Int(5) {
				case 0:
					mm := pairsToMap(e["h"])
					mm[int32(1+g.Int(3))] = "twin"
					e["h"] = mapToPairs(mm)
				case 1:
					e["u"] = asStr(e["u"]) + "/x"
				case 2:
					e["c"] = asStr(e["c"]) + "!"
				case 3:
					e["a"] = asStr(e["a"]) + "nvd"
				default:
					e["t"] = float64(asInt(e["t"]) + 1)
				}
				if g.Chance(0.3) {
					// or the twin next to the original: one node has both, the other only the first
					other["a"].(M)["ExternalReferences"] = append(asList(Normalize(base).(M)["a"].(M)["ExternalReferences"]), e)
				}
				if g.Chance(0.5) {
					base, other = other, base
				}
				break
			}
			fld := g.Pick([]string{"Suppliers", "Originators"})
			if g.Chance(0.3) {
				// a contact of a contact that is also a direct contact (the same person object, see
				// "intern"): the two nodes differ in which of the direct contacts it is
				alice, dave := M{"n": "alice", "o": false, "e": "a@x"}, M{"n": "dave", "o": false, "e": "d@x"}
				mk := func(inner M) any {
					return []any{M{"n": "ACME", "o": true, "c": []any{alice, dave, M{"n": "bob", "o": false, "c": []any{inner}}}}}
				}
				at[fld] = mk(alice)
				other = Normalize(base).(M)
				other["a"].(M)[fld] = mk(dave)
				if g.Chance(0.5) {
					base, other = other, base
				}
				ops = append(ops, M{"op": "diff", "n": base, "m": other, "intern": true})
				continue
			}
			if len(asList(at[fld])) == 0 {
				at[fld] = []any{g.Person(2)}
			}
			other = Normalize(base).(M)
			l := asList(other["a"].(M)[fld])
			p := l[g.Int(len(l))].(M)
			if cs := asList(p["c"]); len(cs) > 0 && g.Chance(0.5) {
				p = cs[g.Int(len(cs))].(M)
			}
			k := g.Pick([]string{"e", "u", "p", "n"})
			switch cur := asStr(p[k]); {
			case cur == "":
				p[k] = g.Pick([]string{" ", "\t", "\u00a0"})
			case g.Chance(0.5):
				p[k] = cur + " "
			default:
				p[k] = " " + cur
			}
			if g.Chance(0.5) {
				base, other = other, base
			}
		case 5:
			// dates less than a second apart but in different seconds, and in the same second
			other = Normalize(base).(M)
			attrs, battrs := other["a"].(M), base["a"].(M)
			for _, f := range NodeAttrs {
				if f.Kind != "date" || !g.Chance(0.7) {
					continue
				}
				sec := float64(1700000000 + g.Int(3))
				switch g.Int(3) {
				case 0:
					battrs[f.GoName] = []any{sec, 900000000.0}
					attrs[f.GoName] = []any{sec + 1, 100000000.0}
				case 1:
					battrs[f.GoName] = []any{sec + 1, 0.0}
					attrs[f.GoName] = []any{sec, 999999999.0}
				default:
					battrs[f.GoName] = []any{sec, 100000000.0}
					attrs[f.GoName] = []any{sec, 900000000.0}
				}
			}
		case 6:
			// an element of a list replaced by a second copy of another element
			other = Normalize(base).(M)
			attrs := other["a"].(M)
			for _, f := range NodeAttrs {
				if !(f.Kind == "persons" || f.Kind == "refs" || f.Kind == "strs" || f.Kind == "enums") {
					continue
				}
				l := asList(attrs[f.GoName])
				if len(l) >= 2 {
					nl := append([]any{}, l...)
					i, j := g.Int(len(nl)), g.Int(len(nl))
					if i != j {
						nl[j] = nl[i]
						attrs[f.GoName] = nl
					}
				}
			}
			if g.Chance(0.5) {
				base, other = other, base
			}
		case 0:
			other = g.permuteNode(base)
		case 1:
			other, _ = g.perturb(base)
		case 2:
			other, _ = g.perturb(base)
			other, _ = g.perturb(other)
		case 3:
			other = g.Node(g.Pick(idPoolAll), 0.4)
		case 4:
			// duplicates and empty-valued map entries
			other = Normalize(base).(M)
			attrs := other["a"].(M)
			for _, f := range NodeAttrs {
				v, ok := attrs[f.GoName]
				if !ok || !g.Chance(0.4) {
					continue
				}
				switch f.Kind {
				case "strs", "enums", "persons", "refs":
					l := asList(v)
					attrs[f.GoName] = append(append([]any{}, l...), l[g.Int(len(l))])
				case "imap":
					mm := pairsToMap(v)
					mm[int32(8+g.Int(2))] = ""
					attrs[f.GoName] = mapToPairs(mm)
				}
			}
			if g.Chance(0.5) {
				base, other = other, base
			}
		}
		ops = append(ops, M{"op": "diff", "n": base, "m": other})
	}
	return ops
}

var DiffStream = &Stream{
	Name:       "diff",
	Gen:        diffGen,
	Exec:       ExecEq,
	Oracle:     oracleEq,
	OpProps:    eqProps,
	NoModel:    func(op M) bool { return asStr(op["op"]) == "diffAfterEdit" },
	Nontrivial: func(op M) bool { return !Equal(op["n"], op["m"]) },
	Reps:       2,
}
