package hx

import (
	"fmt"

	"github.com/protobom/protobom/pkg/sbom"
)

// The `hist` stream: sequences of editing operations over three registers, executed on the real
// objects. Results of Union/Intersect are kept as returned (so sharing with their operands shows
// up as later corruption); for the in-place operations the argument is deep-copied first and
// extraction results are deep-copied before being stored, because those operations share node
// pointers by design and the value-level model cannot (and the properties do not) speak about it.

func histExec(op M) (res any) {
	converted := false
	defer func() {
		if r := recover(); r != nil {
			if !converted {
				res = "unknown-op"
				return
			}
			res = fmt.Sprintf("panic: %v", r)
		}
	}()
	var regs []*sbom.NodeList
	for _, r := range asList(op["regs"]) {
		nl := NLOf(r)
		if op["spare"] == true {
			// slices with spare capacity, as lists built with AddNode / AddRootNode have: an append
			// that forgets to copy writes into storage an earlier result still uses
			padCapacity(nl, 2)
		}
		regs = append(regs, nl)
	}
	type step struct {
		i         string
		dst, a, b int
		ids       []string
		n         *sbom.Node
		at, id, t string
		ty        sbom.Edge_Type
		depth     int
	}
	var prog []step
	for _, p := range asList(op["prog"]) {
		m := p.(M)
		s := step{i: asStr(m["i"]), at: asStr(m["at"]), id: asStr(m["id"]), t: asStr(m["t"])}
		geti := func(k string) int {
			if v, ok := m[k]; ok {
				return int(asInt(v))
			}
			return 0
		}
		s.dst, s.a, s.b, s.depth = geti("dst"), geti("a"), geti("b"), geti("depth")
		s.ty = sbom.Edge_Type(geti("ty"))
		for _, x := range asList(m["ids"]) {
			s.ids = append(s.ids, asStr(x))
		}
		if v, ok := m["n"]; ok {
			s.n = NodeOf(v)
		}
		if s.dst < 0 || s.dst >= len(regs) || s.a < 0 || s.a >= len(regs) || s.b < 0 || s.b >= len(regs) {
			return "unknown-op"
		}
		switch s.i {
		case "union", "intersect", "add", "removeNodes", "relateList", "nodeGraph", "nodeSiblings", "nodeDescendants", "purlType", "setHash":
		case "relateNode", "match":
			if s.n == nil {
				return "unknown-op"
			}
		default:
			return "unknown-op"
		}
		prog = append(prog, s)
	}
	converted = true
	// "raw": the list an extraction returns is used as it is in the following steps (a caller that
	// goes on editing the sub-graph he extracted); otherwise a copy of it
	keep := func(r *sbom.NodeList) *sbom.NodeList {
		if op["raw"] == true {
			return r
		}
		return r.Copy()
	}
	states := []any{}
	for _, s := range prog {
		switch s.i {
		case "union":
			regs[s.dst] = regs[s.a].Union(regs[s.b])
		case "intersect":
			regs[s.dst] = regs[s.a].Intersect(regs[s.b])
		case "add":
			regs[s.a].Add(regs[s.b].Copy())
		case "removeNodes":
			regs[s.a].RemoveNodes(s.ids)
		case "relateNode":
			_ = regs[s.a].RelateNodeAtID(s.n.Copy(), s.at, s.ty)
		case "relateList":
			_ = regs[s.a].RelateNodeListAtID(regs[s.b].Copy(), s.at, s.ty)
		case "nodeGraph":
			if r := regs[s.a].NodeGraph(s.id); r != nil {
				regs[s.dst] = keep(r)
			}
		case "nodeSiblings":
			if r := regs[s.a].NodeSiblings(s.id); r != nil {
				regs[s.dst] = keep(r)
			}
		case "nodeDescendants":
			regs[s.dst] = keep(regs[s.a].NodeDescendants(s.id, s.depth))
		case "purlType":
			regs[s.dst] = regs[s.a].GetNodesByPurlType(s.t).Copy()
		case "setHash":
			// the caller edits a node of the list in place
			if nd := regs[s.a].GetNodeByID(s.id); nd != nil {
				if nd.Hashes == nil {
					nd.Hashes = map[int32]string{}
				}
				nd.Hashes[int32(s.ty)] = s.t
			}
		case "match":
			// the outcome of matching a probe against the list, kept as a list of its own: the node
			// found, nothing, or a node that says the match was ambiguous
			r, err := regs[s.a].GetMatchingNode(s.n)
			out := sbom.NewNodeList()
			switch {
			case err != nil:
				out.Nodes, out.RootElements = []*sbom.Node{{Id: "ambiguous"}}, []string{"ambiguous"}
			case r != nil:
				c := r.Copy()
				member := false
				for _, nd := range regs[s.a].Nodes {
					member = member || nd == r
				}
				if !member {
					c.Id = "not a node of the list: " + c.Id
				}
				out.Nodes, out.RootElements = []*sbom.Node{c}, []string{c.Id}
			}
			regs[s.dst] = out
		}
		snap := []any{}
		for _, r := range regs {
			snap = append(snap, NLJ(r))
		}
		states = append(states, snap)
	}
	return states
}

func histGen(g *G, tier string) []M {
	n := 400
	if tier == "thorough" {
		n = 20000
	}
	var ops []M
	for i := 0; i < n; i++ {
		o := g.Opts(true)
		o.AttrP = []float64{0, 0.1, 0.3}[g.Int(3)]
		regs := []any{g.NodeList(o), g.NodeList(o), g.NodeList(o)}
		anyID := func() string {
			if g.Chance(0.1) {
				return g.Pick([]string{"z", "", "nope"})
			}
			return g.Pick(o.Pool)
		}
		if g.Chance(0.15) {
			// directed: two value-returning merges from the same receiver, both results kept alive;
			// the receiver's root slice has spare capacity (3 roots -> capacity 4)
			pool := g.Pool(6)
			mk := func(ids []string, roots []string) M {
				ns, rs := []any{}, []any{}
				for _, id := range ids {
					ns = append(ns, g.Node(id, 0.1))
				}
				for _, r := range roots {
					rs = append(rs, r)
				}
				return M{"nodes": ns, "edges": []any{}, "roots": rs}
			}
			r0 := mk(pool[:3], pool[:3])
			r1 := mk(pool[3:4], pool[3:4])
			r2 := mk(pool[4:5], pool[4:5])
			opn := g.Pick([]string{"union", "union", "intersect"})
			prog := []any{M{"i": opn, "dst": 1.0, "a": 0.0, "b": 1.0}, M{"i": opn, "dst": 2.0, "a": 0.0, "b": 2.0}}
			ops = append(ops, M{"op": "hist", "regs": []any{r0, r1, r2}, "prog": prog, "spare": true})
			continue
		}
		if g.Chance(0.12) && len(asList(regs[0].(M)["nodes"])) >= 2 {
			// directed: extract, swap one node of the same list for a new one (the list keeps its
			// size), extract again
			ns := asList(regs[0].(M)["nodes"])
			start := asStr(ns[g.Int(len(ns))].(M)["id"])
			gone := asStr(ns[g.Int(len(ns))].(M)["id"])
			ext := func() M {
				switch g.Int(3) {
				case 0:
					return M{"i": "nodeGraph", "dst": 1.0, "a": 0.0, "id": start}
				case 1:
					return M{"i": "nodeSiblings", "dst": 1.0, "a": 0.0, "id": start}
				}
				return M{"i": "nodeDescendants", "dst": 1.0, "a": 0.0, "id": start, "depth": float64(1 + g.Int(4))}
			}
			prog := []any{ext()}
			if gone != start {
				prog = append(prog, M{"i": "removeNodes", "a": 0.0, "ids": []any{gone}})
			}
			prog = append(prog, M{"i": "relateNode", "a": 0.0, "n": g.Node("fresh-node", 0.1), "at": start, "ty": float64(EdgeTypes[g.Int(3)])}, ext(), ext())
			ops = append(ops, M{"op": "hist", "regs": regs, "prog": prog, "spare": g.Chance(0.5)})
			continue
		}
		prog := []any{}
		steps := 1 + g.Int(10)
		for k := 0; k < steps; k++ {
			dst, a, b := float64(g.Int(3)), float64(g.Int(3)), float64(g.Int(3))
			switch g.Int(11) {
			case 0, 1:
				prog = append(prog, M{"i": "union", "dst": dst, "a": a, "b": b})
			case 2:
				prog = append(prog, M{"i": "intersect", "dst": dst, "a": a, "b": b})
			case 3:
				prog = append(prog, M{"i": "add", "a": a, "b": b})
			case 4:
				ids := []any{}
				for j := 0; j <= g.Int(2); j++ {
					ids = append(ids, anyID())
				}
				prog = append(prog, M{"i": "removeNodes", "a": a, "ids": ids})
			case 5:
				prog = append(prog, M{"i": "relateNode", "a": a, "n": g.Node(anyID(), 0.15), "at": anyID(), "ty": float64(EdgeTypes[g.Int(3)])})
			case 6:
				prog = append(prog, M{"i": "relateList", "a": a, "b": b, "at": anyID(), "ty": float64(EdgeTypes[g.Int(3)])})
			case 7:
				prog = append(prog, M{"i": "nodeGraph", "dst": dst, "a": a, "id": anyID()})
			case 8:
				prog = append(prog, M{"i": "nodeSiblings", "dst": dst, "a": a, "id": anyID()})
			case 9:
				prog = append(prog, M{"i": "nodeDescendants", "dst": dst, "a": a, "id": anyID(), "depth": float64(g.Int(5))})
			case 10:
				prog = append(prog, M{"i": "purlType", "dst": dst, "a": a, "t": g.Pick([]string{"npm", "deb"})})
			}
		}
		ops = append(ops, M{"op": "hist", "regs": regs, "prog": prog, "spare": g.Chance(0.5)})
	}
	g2 := NewG(int64(g.Int(1 << 30)))
	for _, op := range ops {
		if g2.Chance(0.4) {
			op["raw"] = true
		}
	}
	// directed: a sub-graph is extracted and the caller goes on editing it (a node related at the
	// start node, with the type of an edge that is already there); the list it came from stays as it was
	extra := []M{}
	for _, op := range ops {
		if !g2.Chance(0.12) {
			continue
		}
		r0, _ := asList(op["regs"])[0].(M)
		es := asList(r0["edges"])
		if len(es) == 0 {
			continue
		}
		e := es[g2.Int(len(es))].(M)
		ext := M{"i": []string{"nodeGraph", "nodeSiblings", "nodeDescendants"}[g2.Int(3)], "dst": 1.0, "a": 0.0, "id": e["src"], "depth": 3.0}
		prog := []any{ext, M{"i": "relateNode", "a": 1.0, "n": M{"id": "fresh-node", "type": 0.0, "a": M{}}, "at": e["src"], "ty": e["ty"]},
			M{"i": ext["i"], "dst": 2.0, "a": 0.0, "id": e["src"], "depth": 3.0}}
		extra = append(extra, M{"op": "hist", "regs": Normalize(op["regs"]), "prog": prog, "raw": true})
	}
	// directed: the argument of a merge has, for an edge the receiver also has, one more target that
	// is not a node of the receiver; the receiver is looked at again afterwards
	for i := 0; i < len(ops)/25+1; i++ {
		ty := float64(EdgeTypes[g2.Int(3)])
		r0 := M{"nodes": []any{M{"id": "a", "type": 0.0, "a": M{}}, M{"id": "b", "type": 0.0, "a": M{}}},
			"edges": []any{M{"ty": ty, "src": "a", "tos": []any{"b"}}}, "roots": []any{"a"}}
		r1 := M{"nodes": []any{M{"id": "a", "type": 0.0, "a": M{}}, M{"id": "b", "type": 0.0, "a": M{}}, M{"id": "c", "type": 0.0, "a": M{}}},
			"edges": []any{M{"ty": ty, "src": "a", "tos": []any{"b", "c"}}}, "roots": []any{"a"}}
		first := g2.Pick([]string{"intersect", "union"})
		prog := []any{M{"i": first, "dst": 2.0, "a": 0.0, "b": 1.0}, M{"i": "nodeGraph", "dst": 2.0, "a": 0.0, "id": "a"},
			M{"i": g2.Pick([]string{"intersect", "union"}), "dst": 2.0, "a": 0.0, "b": 1.0}}
		extra = append(extra, M{"op": "hist", "regs": []any{r0, r1, M{"nodes": []any{}, "edges": []any{}, "roots": []any{}}}, "prog": prog})
	}
	// directed: a probe is matched against a list, the list is edited without changing its size (a
	// node leaves and another comes, a member gets one more hash, a second carrier of the probe's
	// hash replaces a bystander), and the probe is matched again
	for i := 0; i < len(ops)/12+2; i++ {
		h := func(k int) string { return fmt.Sprintf("%064d", 7000+k) }
		nd := func(id string, hashes ...any) M { return M{"id": id, "type": 0.0, "a": M{"Hashes": hashes}} }
		r0 := M{"nodes": []any{nd("x1", []any{3.0, h(1)}), nd("x2", []any{3.0, h(2)}), nd("x3", []any{3.0, h(3)})},
			"edges": []any{M{"ty": 5.0, "src": "x2", "tos": []any{"x1", "x3"}}}, "roots": []any{"x2"}}
		empty := func() M { return M{"nodes": []any{}, "edges": []any{}, "roots": []any{}} }
		probe := nd("probe", []any{3.0, h(1)})
		var prog []any
		switch i % 3 {
		case 0:
			prog = []any{M{"i": "match", "dst": 1.0, "a": 0.0, "n": probe}, M{"i": "removeNodes", "a": 0.0, "ids": []any{"x1"}},
				M{"i": "relateNode", "a": 0.0, "n": nd("x4", []any{3.0, h(4)}), "at": "x2", "ty": 5.0}, M{"i": "match", "dst": 2.0, "a": 0.0, "n": probe}}
		case 1:
			probe2 := nd("probe", []any{2.0, fmt.Sprintf("%040d", 9)})
			prog = []any{M{"i": "match", "dst": 1.0, "a": 0.0, "n": probe2}, M{"i": "setHash", "a": 0.0, "id": "x2", "ty": 2.0, "t": fmt.Sprintf("%040d", 9)},
				M{"i": "match", "dst": 2.0, "a": 0.0, "n": probe2}}
		default:
			prog = []any{M{"i": "match", "dst": 1.0, "a": 0.0, "n": probe}, M{"i": "removeNodes", "a": 0.0, "ids": []any{"x3"}},
				M{"i": "relateNode", "a": 0.0, "n": nd("x5", []any{3.0, h(1)}), "at": "x2", "ty": 5.0}, M{"i": "match", "dst": 2.0, "a": 0.0, "n": probe}}
		}
		if g2.Chance(0.5) {
			// and once more, to see the outcome of the first match again
			prog = append(prog, prog[len(prog)-1])
		}
		extra = append(extra, M{"op": "hist", "regs": []any{r0, empty(), empty()}, "prog": prog, "spare": g2.Chance(0.5)})
	}
	return append(ops, extra...)
}

// histHasLookup: histories with steps the executable model has no instruction for are judged by
// the oracles alone
func histHasLookup(op M) bool {
	for _, p := range asList(op["prog"]) {
		if m, ok := p.(M); ok {
			if i := asStr(m["i"]); i == "match" || i == "setHash" {
				return true
			}
		}
	}
	return false
}

// histOracle: every register stays well-formed along the sequence (C08), given well-formed
// initial registers.
func histOracle(op M, res any, exec func(M) any) []Finding {
	var out []Finding
	if s, ok := res.(string); ok {
		if len(s) > 5 && s[:5] == "panic" {
			out = append(out, Finding{"C08", "a sequence of editing operations panicked: " + s})
		}
		return out
	}
	for _, r := range asList(op["regs"]) {
		if !View(r).WF() {
			return out
		}
	}
	// a step may change only the register it writes: results of earlier calls and operands are
	// never altered by later calls (C11, C12; and the merged result stays what C09/C10 say it is)
	raw := op["raw"] == true
	view := func(r any) any {
		if raw {
			return structureOf(r)
		}
		return CanonResult(r)
	}
	prev := []any{}
	for _, r := range asList(op["regs"]) {
		prev = append(prev, view(r))
	}
	producer := map[int]string{}
	reported := false
	for k, st := range asList(res) {
		step := asList(op["prog"])[k].(M)
		written := int(asInt(step["a"]))
		switch asStr(step["i"]) {
		case "union", "intersect", "nodeGraph", "nodeSiblings", "nodeDescendants", "purlType", "match":
			written = int(asInt(step["dst"]))
		}
		cur := []any{}
		for _, r := range asList(st) {
			cur = append(cur, view(r))
		}
		for ri := range cur {
			if !reported && ri != written && ri < len(prev) && !Equal(prev[ri], cur[ri]) {
				props := []string{"C12", "C11"}
				switch asStr(step["i"]) {
				case "nodeGraph", "nodeSiblings", "nodeDescendants", "purlType":
					// an extraction that rewrites the list it walks: what later extractions return is no
					// longer the reachable set of the list the caller holds
					props = append(props, "C15")
				case "union", "add":
					// likewise for the merges: the property speaks about the lists the caller built, and the
					// next merge with the same receiver starts from something else
					props = append(props, "C09")
				case "intersect":
					props = append(props, "C10")
				}
				switch producer[ri] {
				case "union":
					props = append(props, "C09")
				case "intersect":
					props = append(props, "C10")
				}
				for _, p := range props {
					out = append(out, Finding{p, fmt.Sprintf("step %d (%v) changed register %d, which it neither returns nor edits in place (the register held %s)", k+1, step["i"], ri, map[bool]string{true: "the result of an earlier " + producer[ri], false: "an operand"}[producer[ri] != ""])})
				}
				reported = true // the first such step is reported; well-formedness below is judged independently
			}
		}
		producer[written] = asStr(step["i"])
		prev = cur
	}
	// what a value-returning step returns is a function of the lists as they are at the time of the
	// call: the same step on fresh lists with the same content gives the same result, whatever was
	// looked up, extracted or edited before
	states := asList(res)
	for k := 1; !raw && k < len(states) && k < len(asList(op["prog"])); k++ {
		step := asList(op["prog"])[k].(M)
		var props []string
		switch asStr(step["i"]) {
		case "nodeGraph", "nodeSiblings", "nodeDescendants":
			props = []string{"C15"}
		case "purlType", "match":
			props = []string{"C16"}
		case "union":
			props = []string{"C09"}
		case "intersect":
			props = []string{"C10"}
		default:
			continue
		}
		before := asList(states[k-1])
		usable := true
		for _, r := range before {
			usable = usable && isNL(r)
		}
		if !usable {
			continue
		}
		alone, ok := exec(M{"op": "hist", "regs": before, "prog": []any{step}}).([]any)
		dst := int(asInt(step["dst"]))
		if !ok || len(alone) != 1 || dst >= len(asList(alone[0])) || dst >= len(asList(states[k])) {
			continue
		}
		if got, want := CanonResult(asList(states[k])[dst]), CanonResult(asList(alone[0])[dst]); !Equal(got, want) {
			for _, p := range props {
				out = append(out, Finding{p, fmt.Sprintf("step %d (%v) returns %s after the earlier steps, and %s on fresh lists with the same content", k+1, step["i"], js(got), js(want))})
			}
			break
		}
	}
	for k, st := range asList(res) {
		for ri, r := range asList(st) {
			if isNL(r) && !View(r).WF() {
				step := asList(op["prog"])[k].(M)
				out = append(out, Finding{"C08", fmt.Sprintf("register %d is not well-formed after step %d (%v) of a sequence that started from well-formed lists", ri, k+1, step["i"])})
				return out
			}
		}
	}
	return out
}

// structureOf keeps identifiers and kinds of the nodes, the edges and the roots of a register
func structureOf(r any) any {
	m, ok := r.(M)
	if !ok {
		return r
	}
	ns := []any{}
	for _, n := range asList(m["nodes"]) {
		if nm, ok := n.(M); ok {
			ns = append(ns, M{"id": nm["id"], "type": nm["type"]})
		}
	}
	return CanonResult(M{"nodes": ns, "edges": m["edges"], "roots": m["roots"]})
}

var HistStream = &Stream{
	Name:   "hist",
	Gen:    histGen,
	Exec:   histExec,
	Oracle: histOracle,
	Nontrivial: func(op M) bool {
		kinds := map[string]bool{}
		for _, p := range asList(op["prog"]) {
			kinds[asStr(p.(M)["i"])] = true
		}
		return len(kinds) >= 2
	},
	OpProps: func(M) []string { return []string{"C08", "C09", "C10", "C12", "C15", "C16"} },
	// an extraction returns the node objects of the list it was taken from (that is the design: a
	// sub-graph view); when its result is used uncopied, later in-place merges show through in the
	// attributes of shared nodes, which the value model does not describe and no property forbids.
	// Such histories are judged on structure only: identifiers, edges, roots, well-formedness
	NoModel: func(op M) bool { return op["raw"] == true || histHasLookup(op) },
	Reps:    2,
}
