package hx

import "fmt"

// The `nl` stream: single operations of the graph algebra, lookups and matching.

func nlProps(op M) []string {
	switch asStr(op["op"]) {
	case "union", "add", "union3", "update", "augment":
		return []string{"C09", "C08"}
	case "intersect":
		return []string{"C10", "C08"}
	case "removeNodes", "relateNode", "relateList", "cleanEdges", "addBack":
		return []string{"C08"}
	case "nodeGraph", "nodeSiblings", "nodeDescendants":
		return []string{"C15", "C08"}
	case "purlType":
		return []string{"C16", "C08"}
	default:
		return []string{"C16"}
	}
}

var identTypeStrings = []struct {
	S string
	N int
}{{"purl", 1}, {"cpe22Type", 2}, {"cpe23Type", 3}, {"gitoid", 4}, {"cpe2.3", 3}, {" CPE22 ", 2}, {"nonsense", 0},
	{"cpe22", 2}, {"cpe23", 3}, {"cpe2.2", 2}, {"PURL", 0}, {"Gitoid ", 0}, {"CPE23TYPE", 0}}

func nlGen(g *G, tier string) []M {
	ops := nlGen0(g, tier)
	// a third of the operations run on operands that went through the library's own Copy()
	// (allocated empty slices and maps instead of nil); drawn from a separate generator so that the
	// operations themselves are the same as before
	g2 := NewG(int64(g.Int(1 << 30)))
	for _, op := range ops {
		if g2.Chance(0.33) {
			op["alloc"] = true
		}
	}
	// some merges with two edges of one source whose types are different numbers without a name, and
	// some intersections whose only common node refers to itself
	for _, op := range ops {
		switch asStr(op["op"]) {
		case "intersect", "union", "add":
		default:
			continue
		}
		if !g2.Chance(0.05) {
			continue
		}
		nd := func(id string) M { return M{"id": id, "type": 0.0, "a": M{}} }
		if g2.Chance(0.5) {
			e1 := M{"ty": 1001.0, "src": "a", "tos": []any{"b"}}
			e2 := M{"ty": 1002.0, "src": "a", "tos": []any{"c"}}
			e3 := M{"ty": 5.0, "src": "a", "tos": []any{"b"}}
			nodes := func() []any { return []any{nd("a"), nd("b"), nd("c")} }
			op["a"] = M{"nodes": nodes(), "edges": []any{e1, e3}, "roots": []any{"a"}}
			op["b"] = M{"nodes": nodes(), "edges": []any{e2, e1}, "roots": []any{"a"}}
			if g2.Chance(0.5) {
				op["a"] = M{"nodes": nodes(), "edges": []any{e1, e2, e3}, "roots": []any{"a"}}
			}
		} else {
			loop := M{"ty": 10.0, "src": "app", "tos": []any{"app"}}
			op["a"] = M{"nodes": []any{nd("app"), nd("lib")}, "edges": []any{M{"ty": 5.0, "src": "app", "tos": []any{"lib"}}, loop, M{"ty": 5.0, "src": "lib", "tos": []any{"app"}}}, "roots": []any{"app"}}
			op["b"] = M{"nodes": []any{nd("app"), nd("tool")}, "edges": []any{M{"ty": 5.0, "src": "app", "tos": []any{"tool"}}, loop}, "roots": []any{"app"}}
			if g2.Chance(0.3) {
				op["a"] = M{"nodes": []any{nd("app")}, "edges": []any{loop}, "roots": []any{"app"}}
				op["b"] = Normalize(op["a"])
			}
		}
	}
	// chains of several hops in lists whose root elements include identifiers that name no node:
	// what counts is what can be reached, not how many identifiers have been seen
	for _, op := range ops {
		switch asStr(op["op"]) {
		case "nodeGraph", "nodeDescendants":
		default:
			continue
		}
		if !g2.Chance(0.04) {
			continue
		}
		hops := 3 + g2.Int(4)
		nodes, edges := []any{}, []any{}
		for i := 0; i <= hops; i++ {
			nodes = append(nodes, M{"id": fmt.Sprintf("hop%d", i), "type": 0.0, "a": M{}})
			if i > 0 {
				edges = append(edges, M{"ty": float64(EdgeTypes[g2.Int(3)]), "src": fmt.Sprintf("hop%d", i-1), "tos": []any{fmt.Sprintf("hop%d", i)}})
			}
		}
		roots := []any{"hop0", "ghost-root"}
		if g2.Chance(0.5) {
			roots = append(roots, "second-ghost")
		}
		g2.R.Shuffle(len(edges), func(i, j int) { edges[i], edges[j] = edges[j], edges[i] })
		op["a"] = M{"nodes": nodes, "edges": edges, "roots": roots}
		op["id"] = "hop0"
		if asStr(op["op"]) == "nodeDescendants" {
			op["depth"] = float64(hops + 2)
		}
	}
	// a tenth of the extractions also as "extract, then add the fragment back to the list"
	var back []M
	for _, op := range ops {
		how := map[string]float64{"nodeGraph": 0, "nodeSiblings": 1, "nodeDescendants": 2, "purlType": 3}
		if h, ok := how[asStr(op["op"])]; ok && g2.Chance(0.1) {
			nb := M{"op": "addBack", "a": Normalize(op["a"]), "how": h, "id": op["id"], "t": op["t"]}
			if g2.Chance(0.15) {
				nb["how"] = 4.0
			}
			back = append(back, nb)
		}
	}
	ops = append(ops, back...)
	// matching: a list node that has the probe's package URL, agrees with it on one hash algorithm
	// and differs on another is no hash match and still a package-URL match; next to a second,
	// hash-less carrier of that URL the answer is the ambiguity error
	for _, op := range ops {
		if asStr(op["op"]) != "match" || !g2.Chance(0.08) {
			continue
		}
		purl := g2.Pick([]string{"pkg:npm/left-pad@1.3.0", "pkg:golang/example.com/m@v1"})
		nd := func(id string, typ float64, hashes []any, withPurl bool) M {
			a := M{}
			if hashes != nil {
				a["Hashes"] = hashes
			}
			if withPurl {
				a["Identifiers"] = []any{[]any{1.0, purl}}
			}
			return M{"id": id, "type": typ, "a": a}
		}
		nodes := []any{nd("conflicting", 0, []any{[]any{2.0, "aaaa"}, []any{3.0, "good"}}, true), nd("other", 0, []any{[]any{2.0, "bbbb"}}, false)}
		if g2.Chance(0.5) {
			nodes = append(nodes, nd("bare", 0, nil, true))
		}
		g2.R.Shuffle(len(nodes), func(i, j int) { nodes[i], nodes[j] = nodes[j], nodes[i] })
		op["a"] = M{"nodes": nodes, "edges": []any{}, "roots": []any{}}
		op["n"] = nd("probe", 0, []any{[]any{2.0, "aaaa"}, []any{3.0, "bad"}}, true)
		delete(op, "member")
	}
	// identifiers that contain the character edge targets are joined with when edges are compared:
	// an edge to "lib+ssl" and an edge to "lib" and "ssl" are different edges, in merges (one in
	// each operand) and in extractions (both in one list, in either order)
	for _, op := range ops {
		name := asStr(op["op"])
		nd := func(id string) M { return M{"id": id, "type": 0.0, "a": M{}} }
		ty := float64(EdgeTypes[g2.Int(3)])
		nodes := func() []any { return []any{nd("app"), nd("lib+ssl"), nd("lib"), nd("ssl"), nd("far")} }
		one := M{"ty": ty, "src": "app", "tos": []any{"lib+ssl"}}
		two := M{"ty": ty, "src": "app", "tos": []any{"lib", "ssl"}}
		tail := M{"ty": 5.0, "src": "lib+ssl", "tos": []any{"far"}}
		switch name {
		case "intersect", "union", "add":
			if !g2.Chance(0.04) {
				continue
			}
			op["a"] = M{"nodes": nodes(), "edges": []any{one, tail}, "roots": []any{"app"}}
			op["b"] = M{"nodes": nodes(), "edges": []any{two}, "roots": []any{"app"}}
			if g2.Chance(0.5) {
				op["a"], op["b"] = op["b"], op["a"]
			}
		case "nodeGraph", "nodeSiblings", "nodeDescendants":
			if !g2.Chance(0.04) {
				continue
			}
			es := []any{one, two, tail}
			if g2.Chance(0.5) {
				es = []any{two, one, tail}
			}
			op["a"] = M{"nodes": nodes(), "edges": es, "roots": []any{"app"}}
			op["id"] = "app"
		case "purlType":
			// a type that is empty or the separator itself, and purls that repeat the separator
			if !g2.Chance(0.3) {
				continue
			}
			op["t"] = g2.Pick([]string{"", "/", "npm"})
			a, _ := op["a"].(M)
			if a == nil {
				continue
			}
			have := map[string]bool{}
			for _, n := range asList(a["nodes"]) {
				have[asStr(n.(M)["id"])] = true
			}
			nl := asList(a["nodes"])
			for k, pu := range []string{"pkg://npm/x", "pkg:///npm/x", "pkg:/npm/y", "pkg:npm/z"} {
				if id := fmt.Sprintf("slash-%d", k); !have[id] && g2.Chance(0.7) {
					nl = append(nl, M{"id": id, "type": 0.0, "a": M{"Identifiers": []any{[]any{1.0, pu}}}})
				}
			}
			a["nodes"] = nl
		}
	}
	// dates at and past the ends of the range protobuf calls valid, in the second operand of a merge:
	// a date that is there is taken over like any other
	for _, op := range ops {
		switch asStr(op["op"]) {
		case "intersect", "union", "add", "update":
		default:
			continue
		}
		if !g2.Chance(0.05) {
			continue
		}
		far := [][]any{{253402300800.0, 0.0}, {-62135596801.0, 0.0}, {253402300799.0, 0.0}, {-62135596800.0, 0.0}}[g2.Int(4)]
		fld := g2.Pick([]string{"ReleaseDate", "BuildDate", "ValidUntilDate"})
		if asStr(op["op"]) == "update" {
			if m, ok := op["m"].(M); ok {
				if at, ok := m["a"].(M); ok {
					at[fld] = far
				}
			}
			continue
		}
		first := M{"id": "dated", "type": 0.0, "a": M{fld: []any{1893456000.0, 0.0}}}
		if g2.Chance(0.4) {
			first = M{"id": "dated", "type": 0.0, "a": M{}}
		}
		second := M{"id": "dated", "type": 0.0, "a": M{fld: far}}
		for k, nd := range []M{first, second} {
			l, _ := op[[]string{"a", "b"}[k]].(M)
			if l == nil {
				continue
			}
			keep := []any{}
			for _, n := range asList(l["nodes"]) {
				if asStr(n.(M)["id"]) != "dated" {
					keep = append(keep, n)
				}
			}
			l["nodes"] = append(keep, nd)
		}
	}
	// some extractions from a list with two edges of one source whose types are different numbers
	// without a name (in either order), and some lookups by software identifier on lists that hold
	// the value under the type asked for, under the unknown type and under another type
	for _, op := range ops {
		switch asStr(op["op"]) {
		case "nodeGraph", "nodeSiblings", "nodeDescendants":
			if !g2.Chance(0.05) {
				continue
			}
			nd := func(id string) M { return M{"id": id, "type": 0.0, "a": M{}} }
			es := []any{M{"ty": 45.0 + float64(g2.Int(3)), "src": "a", "tos": []any{"b"}}, M{"ty": 1002.0, "src": "a", "tos": []any{"b", "c"}},
				M{"ty": -1.0, "src": "a", "tos": []any{"c"}}, M{"ty": 5.0, "src": "b", "tos": []any{"c"}}}
			g2.R.Shuffle(len(es), func(i, j int) { es[i], es[j] = es[j], es[i] })
			op["a"] = M{"nodes": []any{nd("a"), nd("b"), nd("c")}, "edges": es[:2+g2.Int(3)], "roots": []any{"a"}}
			op["id"] = "a"
		case "byIdent":
			v := asStr(op["v"])
			if v == "" || !g2.Chance(0.6) {
				continue
			}
			a, _ := op["a"].(M)
			if a == nil {
				continue
			}
			t := asInt(op["t"])
			have := map[string]bool{}
			for _, n := range asList(a["nodes"]) {
				have[asStr(n.(M)["id"])] = true
			}
			nodes := asList(a["nodes"])
			for k, typ := range []int64{t, 0, t%4 + 1, 4} {
				id := fmt.Sprintf("held-%d", k)
				if have[id] || !g2.Chance(0.75) {
					continue
				}
				nodes = append(nodes, M{"id": id, "type": 0.0, "a": M{"Identifiers": []any{[]any{float64(typ), v}}}})
			}
			a["nodes"] = nodes
		}
	}
	// some merges of lists whose (source, type) pairs read the same when written one after the other
	// without a separator: ("a1", 0) and ("a", 10), ("n1", 1) and ("n", 11) ...
	for _, op := range ops {
		switch asStr(op["op"]) {
		case "intersect", "union", "add":
		default:
			continue
		}
		if !g2.Chance(0.04) {
			continue
		}
		stem := g2.Pick([]string{"a", "n", "lib-"})
		ids := []string{stem, stem + "1", "tgt"}
		mk := func(es []any) M {
			ns := []any{}
			for _, id := range ids {
				ns = append(ns, M{"id": id, "type": 0.0, "a": M{}})
			}
			return M{"nodes": ns, "edges": es, "roots": []any{}}
		}
		e1 := M{"ty": 0.0, "src": stem + "1", "tos": []any{"tgt"}} // stem+"1"+"0"
		e2 := M{"ty": 10.0, "src": stem, "tos": []any{stem + "1"}} // stem+"10"
		switch g2.Int(4) {
		case 0:
			op["a"], op["b"] = mk([]any{e1, e2}), mk([]any{e2, e1})
		case 1:
			op["a"], op["b"] = mk([]any{e1, e2}), mk([]any{e1})
		case 2: // the two pairs in different operands
			op["a"], op["b"] = mk([]any{e1}), mk([]any{e2})
		default:
			op["a"], op["b"] = mk([]any{e2}), mk([]any{e1})
		}
	}
	// some merges in which a shared node's two versions differ in nothing but the fraction of a
	// second of a date: the second operand's value is another value and wins all the same
	for _, op := range ops {
		switch asStr(op["op"]) {
		case "intersect", "union":
		default:
			continue
		}
		if !g2.Chance(0.1) {
			continue
		}
		an := map[string]M{}
		for _, n := range asList(op["a"].(M)["nodes"]) {
			an[asStr(n.(M)["id"])] = n.(M)
		}
		for _, n := range asList(op["b"].(M)["nodes"]) {
			nb := n.(M)
			na, ok := an[asStr(nb["id"])]
			if !ok {
				continue
			}
			// same content on both sides, then the date
			nb["a"] = Normalize(na["a"])
			nb["type"] = na["type"]
			for _, l := range []M{na, nb} {
				if l["a"] == nil {
					l["a"] = M{}
				}
			}
			fld := []string{"ReleaseDate", "BuildDate", "ValidUntilDate"}[g2.Int(3)]
			sec := float64(1700000000 + g2.Int(100))
			na["a"].(M)[fld] = []any{sec, 250000000.0}
			nb["a"].(M)[fld] = []any{sec, 750000000.0}
			break
		}
	}
	// some merges of lists that both hold a node without identifier which is a root element of one
	// of them (an ill-formed pair: the set clauses hold for those too)
	for _, op := range ops {
		switch asStr(op["op"]) {
		case "intersect", "union", "add":
		default:
			continue
		}
		if !g2.Chance(0.06) {
			continue
		}
		a, b := op["a"].(M), op["b"].(M)
		has := func(l M) bool {
			for _, n := range asList(l["nodes"]) {
				if asStr(n.(M)["id"]) == "" {
					return true
				}
			}
			return false
		}
		for _, l := range []M{a, b} {
			if !has(l) {
				l["nodes"] = append(asList(l["nodes"]), M{"id": "", "type": 0.0, "a": M{"Name": "anonymous"}})
			}
		}
		which := a
		if g2.Chance(0.5) {
			which = b
		}
		which["roots"] = append(asList(which["roots"]), "")
	}
	// some matching operations with a probe that has two hash algorithms and a package URL against
	// nodes that agree on both, on one (lacking the other), or on none; one of them carries the purl
	for _, op := range ops {
		if asStr(op["op"]) != "match" || !g2.Chance(0.15) {
			continue
		}
		purl := "pkg:npm/probe@1"
		node := func(id string, h []any, p string) M {
			at := M{}
			if len(h) > 0 {
				at["Hashes"] = h
			}
			if p != "" {
				at["Identifiers"] = []any{[]any{1.0, p}}
			}
			return M{"id": id, "type": 0.0, "a": at}
		}
		both := []any{[]any{1.0, "aa"}, []any{3.0, "bb"}}
		one := []any{[]any{1.0, "aa"}}
		var nodes []any
		switch g2.Int(3) {
		case 0: // two nodes agree on both algorithms, the purl decides
			nodes = []any{node("n0", both, purl), node("n1", both, ""), node("n2", []any{[]any{1.0, "cc"}}, "")}
		case 1: // the only candidate lacks one of the probe's algorithms: the common one agrees
			nodes = []any{node("n0", one, ""), node("n1", []any{[]any{1.0, "zz"}}, "")}
		default: // one node has both, one only the first: two hash matches, no purl on the probe's side to decide
			nodes = []any{node("n0", one, ""), node("n1", both, "")}
			purl = ""
		}
		op["a"] = M{"nodes": shuffleAny(g2, nodes), "edges": []any{}, "roots": []any{}}
		op["n"] = node("probe", both, purl)
		delete(op, "member")
	}
	// a fifth of the merges on operands in which persons with the same content are one object (a
	// contact listed under two teams)
	for _, op := range ops {
		switch asStr(op["op"]) {
		case "intersect", "union", "add":
			if g2.Chance(0.2) {
				op["intern"] = true
			}
		}
	}
	// a quarter of the matching operations with a probe that is an element of the list itself
	for _, op := range ops {
		if asStr(op["op"]) != "match" || !g2.Chance(0.25) {
			continue
		}
		if ns := asList(op["a"].(M)["nodes"]); len(ns) > 0 {
			k := g2.Int(len(ns))
			op["n"] = Normalize(ns[k])
			op["member"] = float64(k)
		}
	}
	// a fifth of the merging operations on operands some of whose absent collections are written
	// out as empty ones (allocated, length 0): to every operation an empty collection is no value
	for _, op := range ops {
		switch asStr(op["op"]) {
		case "union", "intersect", "add", "union3", "relateList":
		default:
			continue
		}
		if !g2.Chance(0.2) {
			continue
		}
		for _, k := range []string{"a", "b", "c"} {
			l, _ := op[k].(M)
			if l == nil {
				continue
			}
			for _, n := range asList(l["nodes"]) {
				at, _ := n.(M)["a"].(M)
				if at == nil {
					continue
				}
				for _, f := range NodeAttrs {
					switch f.Kind {
					case "strs", "enums", "imap", "persons", "refs":
						if _, has := at[f.GoName]; !has && g2.Chance(0.4) {
							at[f.GoName] = []any{}
						}
					}
				}
			}
		}
	}
	return ops
}

func nlGen0(g *G, tier string) []M {
	n := 6000
	if tier == "thorough" {
		n = 150000
	}
	var ops []M
	for i := 0; i < n; i++ {
		wf := g.Chance(0.5)
		o := g.Opts(wf)
		a := g.NodeList(o)
		// second operand over the same pool so that the lists overlap
		o2 := o
		o2.MaxNodes = 1 + g.Int(6)
		b := g.NodeList(o2)
		anyID := func() string {
			if g.Chance(0.12) {
				return g.Pick([]string{"z", "", "", "nope"})
			}
			return g.Pick(o.Pool)
		}
		if g.Chance(0.12) {
			// dense graphs for the extraction operations: more nodes, fan-out, several levels
			d := g.denseGraph()
			id := g.Pick(d.pool)
			switch g.Int(3) {
			case 0:
				ops = append(ops, M{"op": "nodeGraph", "a": d.nl, "id": id})
			case 1:
				ops = append(ops, M{"op": "nodeDescendants", "a": d.nl, "id": id, "depth": float64(1 + g.Int(6))})
			case 2:
				ops = append(ops, M{"op": "nodeSiblings", "a": d.nl, "id": id})
			}
			continue
		}
		if g.Chance(0.08) {
			l, probe := g.matchCase()
			ops = append(ops, M{"op": "match", "a": l, "n": probe})
			continue
		}
		switch g.Int(20) {
		case 0, 1, 2:
			ops = append(ops, M{"op": "union", "a": a, "b": b})
		case 3:
			ops = append(ops, M{"op": "union3", "a": a, "b": b, "c": g.NodeList(o2)})
		case 4, 5:
			ops = append(ops, M{"op": "intersect", "a": a, "b": b})
		case 6, 7:
			ops = append(ops, M{"op": "add", "a": a, "b": b})
		case 8:
			ids := []any{}
			for k := 0; k < g.Int(4); k++ {
				ids = append(ids, anyID())
			}
			ops = append(ops, M{"op": "removeNodes", "a": a, "ids": ids})
		case 9:
			ops = append(ops, M{"op": "relateNode", "a": a, "n": g.Node(anyID(), 0.2), "at": anyID(), "ty": float64(EdgeTypes[g.Int(4)])})
		case 10:
			ops = append(ops, M{"op": "relateList", "a": a, "b": b, "at": anyID(), "ty": float64(EdgeTypes[g.Int(4)])})
		case 11, 12:
			ops = append(ops, M{"op": "nodeGraph", "a": a, "id": anyID()})
		case 13:
			ops = append(ops, M{"op": "nodeSiblings", "a": a, "id": anyID()})
		case 14, 15:
			ops = append(ops, M{"op": "nodeDescendants", "a": a, "id": anyID(), "depth": float64(g.Int(7) - 1)})
		case 16:
			ops = append(ops, M{"op": "purlType", "a": a, "t": g.Pick([]string{"npm", "deb", "golang", "x", "go", "gem", "n", "", "n.m", "c++", "c+", "g.lang", "c*", "(npm", "[a-z]+"})})
		case 17:
			switch g.Int(4) {
			case 0:
				ops = append(ops, M{"op": "byName", "a": a, "name": g.Pick(strPool)})
			case 1:
				ops = append(ops, M{"op": "byID", "a": a, "id": anyID()})
			case 2:
				it := identTypeStrings[g.Int(len(identTypeStrings))]
				v := g.Pick(append(purlPool, "cpe:2.3:a:x", "v", "", ""))
				if g.Chance(0.5) {
					// a value of the kind the type names (the generator's own CPE strings, a purl)
					v = map[int]string{0: "v", 1: g.Pick(purlPool), 2: "cpe:/a:x", 3: "cpe:2.3:a:x", 4: "v"}[it.N]
				}
				ops = append(ops, M{"op": "byIdent", "a": a, "tstr": it.S, "t": float64(it.N), "v": v})
			case 3:
				ops = append(ops, M{"op": "rootNodes", "a": a})
			}
		case 18:
			ops = append(ops, M{"op": "cleanEdges", "a": a})
		case 19:
			if g.Chance(0.3) {
				// three to five nodes that all agree with the probe on the hash; the purl decides, and
				// its carriers stand anywhere in the list
				val := g.Pick([]string{"aa", "AA", "bb"})
				k := 3 + g.Int(3)
				nodes := []any{}
				for i := 0; i < k; i++ {
					at := M{"Hashes": []any{[]any{1.0, val}}}
					if g.Chance(0.5) {
						at["Identifiers"] = []any{[]any{1.0, g.Pick(purlPool[:2])}}
					}
					nodes = append(nodes, M{"id": fmtID(i), "type": 0.0, "a": at})
				}
				probe := M{"id": "probe", "type": 0.0, "a": M{"Hashes": []any{[]any{1.0, val}}, "Identifiers": []any{[]any{1.0, purlPool[0]}}}}
				if g.Chance(0.2) {
					delete(probe["a"].(M), "Identifiers")
				}
				ops = append(ops, M{"op": "match", "a": M{"nodes": shuffleAny(g, nodes), "edges": []any{}, "roots": []any{}}, "n": probe})
				break
			}
			ops = append(ops, M{"op": "match", "a": g.matchList(), "n": g.matchNode("probe")})
		}
	}
	return ops
}

// matchNode: nodes for the matching stream — 3 algorithms x 3 values incl. empty, purls from a
// pool of 3, FILE nodes, repeated ids.
func (g *G) matchNode(id string) M {
	attrs := M{}
	if g.Chance(0.75) {
		h := []any{}
		for _, k := range []int{1, 2, 3} {
			if g.Chance(0.45) {
				h = append(h, []any{float64(k), g.Pick([]string{"aa", "bb", "", "AA"})})
			}
		}
		if len(h) > 0 {
			attrs["Hashes"] = h
		}
	}
	if g.Chance(0.6) {
		attrs["Identifiers"] = []any{[]any{float64(1), g.Pick(purlPool[:3])}}
	}
	ty := 0.0
	if g.Chance(0.15) {
		ty = 1
	}
	if g.Chance(0.3) {
		attrs["Name"] = g.Pick(strPool[:3])
	}
	return M{"id": id, "type": ty, "a": attrs}
}

type dense struct {
	nl   M
	pool []string
}

// denseGraph: 4-9 nodes, 5-14 edges with 1-3 targets over 2 types, some roots, cycles allowed.
func (g *G) denseGraph() dense {
	n := 4 + g.Int(6)
	pool := g.Pool(n)
	nodes := []any{}
	for _, id := range pool {
		nodes = append(nodes, g.Node(id, 0.05))
	}
	edges := []any{}
	ne := 5 + g.Int(10)
	for i := 0; i < ne; i++ {
		tos := []any{}
		for k := 0; k <= g.Int(3); k++ {
			if g.Chance(0.05) {
				tos = append(tos, "z")
			} else {
				tos = append(tos, g.Pick(pool))
			}
		}
		edges = append(edges, M{"ty": float64(EdgeTypes[g.Int(2)]), "src": g.Pick(pool), "tos": tos})
	}
	roots := []any{}
	for i := 0; i < g.Int(3); i++ {
		roots = append(roots, g.Pick(pool))
	}
	return dense{M{"nodes": nodes, "edges": edges, "roots": roots}, pool}
}

// matchCase: list nodes derived from the probe — each carries a sub-map of the probe's hashes
// (sometimes with a conflicting or empty value, sometimes an extra algorithm) and a purl from a
// small pool, so that several candidates share hashes or purls with the probe.
func (g *G) matchCase() (M, M) {
	probe := g.matchNode("probe")
	ph := asList(attrOf(probe, "Hashes"))
	nodes := []any{}
	n := 1 + g.Int(4)
	for i := 0; i < n; i++ {
		id := fmtID(i)
		if g.Chance(0.1) {
			id = "n0"
		}
		nd := g.matchNode(id)
		attrs := nd["a"].(M)
		h := []any{}
		for _, p := range ph {
			q := p.([]any)
			if g.Chance(0.5) {
				v := q[1]
				if g.Chance(0.15) {
					v = g.Pick([]string{"aa", "bb", ""})
				}
				h = append(h, []any{q[0], v})
			}
		}
		if g.Chance(0.2) {
			h = append(h, []any{float64(7), "zz"})
		}
		if len(h) > 0 {
			attrs["Hashes"] = h
		} else {
			delete(attrs, "Hashes")
		}
		nodes = append(nodes, nd)
	}
	return M{"nodes": nodes, "edges": []any{}, "roots": []any{}}, probe
}

func (g *G) matchList() M {
	nodes := []any{}
	n := g.Int(5)
	for i := 0; i < n; i++ {
		id := fmtID(i)
		if g.Chance(0.15) {
			id = "n0"
		}
		nodes = append(nodes, g.matchNode(id))
	}
	return M{"nodes": nodes, "edges": []any{}, "roots": []any{}}
}

func nlNontrivial(op M) bool {
	a, ok := op["a"].(M)
	if !ok {
		return false
	}
	switch asStr(op["op"]) {
	case "union", "intersect", "add", "relateList", "union3":
		b := op["b"].(M)
		va, vb := View(a), View(b)
		return len(interSet(va.IDSet, vb.IDSet)) > 0 && len(va.HE)+len(vb.HE) > 0
	case "nodeGraph", "nodeDescendants", "nodeSiblings":
		va := View(a)
		id := asStr(op["id"])
		for k := range va.HE {
			if k[0] == id && va.IDSet[k[2]] {
				return true
			}
		}
		return false
	case "match":
		return len(asList(a["nodes"])) >= 2
	default:
		return len(asList(a["nodes"])) > 0
	}
}

var NLStream = &Stream{
	Name:       "nl",
	Gen:        nlGen,
	Exec:       ExecNL,
	Oracle:     OracleNL,
	Nontrivial: nlNontrivial,
	OpProps:    nlProps,
	Reps:       3,
	NoModel:    func(op M) bool { return asStr(op["op"]) == "addBack" },
}
