package hx

import (
	"bytes"
	"fmt"
	"io"
	"os"
	"sort"
	"strconv"
	"strings"

	"github.com/protobom/protobom/pkg/formats"
	"github.com/protobom/protobom/pkg/native"
	"github.com/protobom/protobom/pkg/reader"
	"github.com/protobom/protobom/pkg/sbom"
	"github.com/protobom/protobom/pkg/storage"
	"github.com/protobom/protobom/pkg/writer"
)

// The `opts` stream (C18): histories of constructor calls with every subset of the functional
// options, writes through the public option pointers of instances, and single calls with their own
// options — on real readers and writers; after every step the configuration of every live instance
// is read back and compared with the options-heap model.

type recUnser struct {
	name string
	got  *any
}

func (u *recUnser) Unserialize(_ io.Reader, _ *native.UnserializeOptions, fo interface{}) (*sbom.Document, error) {
	*u.got = fo
	return sbom.NewDocument(), nil
}

const recKey = "*hx.recUnser"

// failUnser records the format options it is handed and fails on the input "fail"
type failUnser struct{ got *any }

func (u *failUnser) Unserialize(r io.Reader, _ *native.UnserializeOptions, fo interface{}) (*sbom.Document, error) {
	*u.got = fo
	b, _ := io.ReadAll(r)
	if string(b) == "fail" {
		return nil, fmt.Errorf("driver refuses this input")
	}
	return sbom.NewDocument(), nil
}

var writerDefaults = []any{
	[]any{[]any{"Indent", "4"}},
	[]any{},
	[]any{[]any{"Backend", ""}, []any{"NoClobber", "false"}},
	[]any{},
}

var nilCell = []any{[]any{"<nil>", ""}}

var readerDefaults = []any{
	[]any{},
	nilCell, // the reader's defaults carry no retrieve options
	[]any{},
}

func cellGet(c any, key, dflt string) string {
	for _, kv := range asList(c) {
		p := asList(kv)
		if len(p) == 2 && asStr(p[0]) == key {
			return asStr(p[1])
		}
	}
	return dflt
}

func sortedCell(m map[string]string) []any {
	ks := []string{}
	for k := range m {
		ks = append(ks, k)
	}
	sort.Strings(ks)
	out := []any{}
	for _, k := range ks {
		out = append(out, []any{k, m[k]})
	}
	return out
}

var optKeys = []string{"k1", "k2", recKey, "serializers.CDX"}

func writerCfg(w *writer.Writer) any {
	o := w.Options
	if o == nil {
		return "nil-options"
	}
	cells := []any{}
	if o.RenderOptions == nil {
		cells = append(cells, "nil")
	} else {
		cells = append(cells, []any{[]any{"Indent", strconv.Itoa(o.RenderOptions.Indent)}})
	}
	if o.SerializeOptions == nil {
		cells = append(cells, "nil")
	} else {
		cells = append(cells, []any{})
	}
	if o.StoreOptions == nil {
		cells = append(cells, "nil")
	} else {
		cells = append(cells, []any{[]any{"Backend", fmt.Sprint(orEmpty(o.StoreOptions.BackendOptions))}, []any{"NoClobber", strconv.FormatBool(o.StoreOptions.NoClobber)}})
	}
	fm := map[string]string{}
	for _, k := range optKeys {
		if v := o.GetFormatOptions(k); v != nil {
			fm[k] = fmt.Sprint(v)
		}
	}
	cells = append(cells, sortedCell(fm))
	return M{"format": string(o.Format), "cells": cells}
}

func orEmpty(v any) any {
	if v == nil {
		return ""
	}
	return v
}

func readerCfg(r *reader.Reader) any {
	o := r.Options
	if o == nil {
		return "nil-options"
	}
	cells := []any{}
	if o.UnserializeOptions == nil {
		cells = append(cells, "nil")
	} else {
		cells = append(cells, []any{})
	}
	if o.RetrieveOptions == nil {
		cells = append(cells, nilCell)
	} else {
		cells = append(cells, []any{[]any{"Backend", fmt.Sprint(orEmpty(o.RetrieveOptions.BackendOptions))}})
	}
	fm := map[string]string{}
	for _, k := range optKeys {
		if v := o.GetFormatOptions(k); v != nil {
			fm[k] = fmt.Sprint(v)
		}
	}
	cells = append(cells, sortedCell(fm))
	return M{"format": string(o.Format), "cells": cells}
}

const autoSPDX = `{"spdxVersion":"SPDX-2.3","dataLicense":"CC0-1.0","SPDXID":"SPDXRef-DOCUMENT","name":"d","documentNamespace":"https://example.com/d","creationInfo":{"created":"2023-01-01T00:00:00Z","creators":["Tool: t"]},"packages":[{"SPDXID":"SPDXRef-a","name":"a","downloadLocation":"NOASSERTION"}]}`
const autoCDX = `{"bomFormat":"CycloneDX","specVersion":"1.5","version":1,"components":[{"bom-ref":"x","type":"library","name":"x"}]}`

var tinyDoc = func() *sbom.Document {
	d := sbom.NewDocument()
	d.Metadata.Id = "urn:x"
	d.NodeList.AddNode(&sbom.Node{Id: "r", Name: "r"})
	d.NodeList.RootElements = []string{"r"}
	return d
}()

func spdxIndentOf(b []byte) int {
	lines := strings.Split(string(b), "\n")
	if len(lines) < 2 {
		return 0
	}
	return len(lines[1]) - len(strings.TrimLeft(lines[1], " "))
}

func ExecOpts(op M) (res any) {
	defer func() {
		if r := recover(); r != nil {
			res = fmt.Sprintf("panic: %v", r)
		}
	}()
	if asStr(op["op"]) == "optsBackends" {
		return execBackends(asStr(op["kind"]) == "writer")
	}
	if asStr(op["op"]) == "optsNil" {
		return execNilOptions(asStr(op["kind"]) == "writer")
	}
	if asStr(op["op"]) == "optsSlice" {
		return execOptionSlices(asStr(op["kind"]) == "writer")
	}
	if asStr(op["op"]) != "optsHist" || !optsWellFormed(op) {
		return "unknown-op"
	}
	isWriter := asStr(op["kind"]) == "writer"
	var ws []*writer.Writer
	var rs []*reader.Reader
	sharedW, sharedR := map[string]writer.WriterOption{}, map[string]reader.ReaderOption{}
	// "shp": one options struct, kept by the caller, handed to several constructor calls
	sharedStruct := map[string]any{}
	structOf := func(xm M, fresh any) any {
		if xm["shp"] != true {
			return fresh
		}
		k := fmt.Sprintf("%v/%s", xm["k"], js(xm["cell"]))
		if p, ok := sharedStruct[k]; ok {
			return p
		}
		sharedStruct[k] = fresh
		return fresh
	}
	var gotA any
	recA := &recUnser{"a", &gotA}
	reader.RegisterUnserializer("verif/rec", recA)
	defer reader.UnregisterUnserializer("verif/rec")
	cfgs := func() []any {
		out := []any{}
		if isWriter {
			for _, w := range ws {
				out = append(out, writerCfg(w))
			}
		} else {
			for _, r := range rs {
				out = append(out, readerCfg(r))
			}
		}
		return out
	}
	outs := []any{}
	for _, st := range asList(op["steps"]) {
		sm, ok := st.(M)
		if !ok {
			return "unknown-op"
		}
		switch asStr(sm["s"]) {
		case "new":
			if isWriter {
				var opts []writer.WriterOption
				for _, x := range asList(sm["settings"]) {
					xm := x.(M)
					switch asStr(xm["t"]) {
					case "format":
						opts = append(opts, writer.WithFormat(formats.Format(asStr(xm["f"]))))
					case "replace":
						switch int(asInt(xm["k"])) {
						case 0:
							n, _ := strconv.Atoi(cellGet(xm["cell"], "Indent", "0"))
							opts = append(opts, writer.WithRenderOptions(structOf(xm, &native.RenderOptions{Indent: n}).(*native.RenderOptions)))
						case 1:
							opts = append(opts, writer.WithSerializeOptions(&native.SerializeOptions{}))
						case 2:
							opts = append(opts, writer.WithStoreOptions(structOf(xm, &storage.StoreOptions{NoClobber: cellGet(xm["cell"], "NoClobber", "false") == "true",
								BackendOptions: cellGet(xm["cell"], "Backend", "")}).(*storage.StoreOptions)))
						default:
							return "unknown-op"
						}
					case "setKey":
						// "sh": one option value used in several constructor calls (a caller keeping the
						// common options of his writers in a slice)
						kv := asStr(xm["key"]) + "\x00" + asStr(xm["val"])
						if _, shared := xm["sh"]; shared {
							if o, ok := sharedW[kv]; ok {
								opts = append(opts, o)
								break
							}
							sharedW[kv] = writer.WithFormatOptions(asStr(xm["key"]), asStr(xm["val"]))
							opts = append(opts, sharedW[kv])
							break
						}
						opts = append(opts, writer.WithFormatOptions(asStr(xm["key"]), asStr(xm["val"])))
					}
				}
				ws = append(ws, writer.New(opts...))
			} else {
				var opts []reader.ReaderOption
				for _, x := range asList(sm["settings"]) {
					xm := x.(M)
					switch asStr(xm["t"]) {
					case "replace":
						switch int(asInt(xm["k"])) {
						case 0:
							opts = append(opts, reader.WithUnserializeOptions(&native.UnserializeOptions{}))
						case 1:
							opts = append(opts, reader.WithRetrieveOptions(structOf(xm, &storage.RetrieveOptions{BackendOptions: cellGet(xm["cell"], "Backend", "")}).(*storage.RetrieveOptions)))
						default:
							return "unknown-op"
						}
					case "setKey":
						kv := asStr(xm["key"]) + "\x00" + asStr(xm["val"])
						if _, shared := xm["sh"]; shared {
							if o, ok := sharedR[kv]; ok {
								opts = append(opts, o)
								break
							}
							sharedR[kv] = reader.WithFormatOptions(asStr(xm["key"]), asStr(xm["val"]))
							opts = append(opts, sharedR[kv])
							break
						}
						opts = append(opts, reader.WithFormatOptions(asStr(xm["key"]), asStr(xm["val"])))
					default:
						return "unknown-op"
					}
				}
				rs = append(rs, reader.New(opts...))
			}
			outs = append(outs, M{"cfgs": cfgs()})
		case "mutate":
			i, k := int(asInt(sm["i"])), int(asInt(sm["k"]))
			key, val := asStr(sm["key"]), asStr(sm["val"])
			if isWriter && i < len(ws) {
				o := ws[i].Options
				switch k {
				case 0:
					n, _ := strconv.Atoi(val)
					o.RenderOptions.Indent = n
				case 2:
					if key == "NoClobber" {
						o.StoreOptions.NoClobber = val == "true"
					} else {
						o.StoreOptions.BackendOptions = val
					}
				case 3:
					o.SetFormatOptions(key, val)
				}
			} else if !isWriter && i < len(rs) {
				o := rs[i].Options
				switch k {
				case 1:
					o.RetrieveOptions.BackendOptions = val
				case 2:
					o.SetFormatOptions(key, val)
				}
			}
			outs = append(outs, M{"cfgs": cfgs()})
		case "call":
			i := int(asInt(sm["i"]))
			var eff any = "no-instance"
			if isWriter && i < len(ws) {
				co := &writer.Options{Format: formats.Format(asStr(sm["f"]))}
				if sm["cell"] != nil {
					n, _ := strconv.Atoi(cellGet(sm["cell"], "Indent", "0"))
					co.RenderOptions = &native.RenderOptions{Indent: n}
				}
				for _, kv := range asList(sm["fo"]) {
					if p := asList(kv); len(p) == 2 {
						co.SetFormatOptions(asStr(p[0]), asStr(p[1]))
					}
				}
				buf := nopCloser{&bytes.Buffer{}}
				if err := ws[i].WriteStreamWithOptions(tinyDoc, buf, co); err != nil {
					eff = M{"format": "err"}
				} else {
					f, _ := (&formats.Sniffer{}).SniffReader(bytes.NewReader(buf.Bytes()))
					e := M{"format": string(f)}
					if f == formats.SPDX23JSON {
						e["cell"] = []any{[]any{"Indent", strconv.Itoa(spdxIndentOf(buf.Bytes()))}}
					}
					eff = e
				}
			} else if !isWriter && i < len(rs) && sm["auto"] != nil {
				// ParseStream with auto-detection of a real document; only the configurations after it matter
				doc := autoSPDX
				if asStr(sm["auto"]) == "cdx" {
					doc = autoCDX
				}
				_, _ = rs[i].ParseStream(bytes.NewReader([]byte(doc)))
				eff = M{"format": ""}
			} else if !isWriter && i < len(rs) {
				co := &reader.Options{Format: formats.Format(asStr(sm["f"]))}
				if sm["cell"] != nil {
					for _, kv := range asList(sm["cell"]) {
						p := asList(kv)
						co.SetFormatOptions(asStr(p[0]), asStr(p[1]))
					}
				}
				gotA = nil
				if _, err := rs[i].ParseStreamWithOptions(bytes.NewReader([]byte("{}")), co); err != nil {
					eff = M{"format": "err"}
				} else {
					fm := map[string]string{}
					if gotA != nil {
						fm[recKey] = fmt.Sprint(gotA)
					}
					eff = M{"format": "verif/rec", "cell": sortedCell(fm)}
				}
			}
			outs = append(outs, M{"eff": eff, "cfgs": cfgs()})
		default:
			return "unknown-op"
		}
	}
	return outs
}

// optsWellFormed rejects operations the shrinker has cut below what the interpreter needs
func optsWellFormed(op M) bool {
	num := func(v any) bool { _, ok := v.(float64); return ok }
	if k := asStr(op["kind"]); k != "writer" && k != "reader" {
		return false
	}
	for _, st := range asList(op["steps"]) {
		sm, ok := st.(M)
		if !ok {
			return false
		}
		switch asStr(sm["s"]) {
		case "new":
			for _, x := range asList(sm["settings"]) {
				xm, ok := x.(M)
				if !ok {
					return false
				}
				switch asStr(xm["t"]) {
				case "format":
				case "replace":
					if !num(xm["k"]) {
						return false
					}
				case "setKey":
					if !num(xm["k"]) || asStr(xm["key"]) == "" {
						return false
					}
				default:
					return false
				}
			}
		case "mutate":
			if !num(sm["i"]) || !num(sm["k"]) || asStr(sm["key"]) == "" {
				return false
			}
		case "call":
			if !num(sm["i"]) {
				return false
			}
			for _, key := range []string{"cell", "fo"} {
				for _, kv := range asList(sm[key]) {
					if p, ok := kv.([]any); !ok || len(p) != 2 {
						return false
					}
				}
			}
		default:
			return false
		}
	}
	return true
}

func optsGen(g *G, tier string) []M {
	n := 250
	if tier == "thorough" {
		n = 8000
	}
	ops := []M{{"op": "optsBackends", "kind": "writer"}, {"op": "optsBackends", "kind": "reader"},
		{"op": "optsNil", "kind": "writer"}, {"op": "optsNil", "kind": "reader"},
		{"op": "optsSlice", "kind": "writer"}, {"op": "optsSlice", "kind": "reader"}}
	for i := 0; i < n; i++ {
		isWriter := g.Chance(0.6)
		steps := []any{}
		live := 0
		ns := 2 + g.Int(7)
		for s := 0; s < ns; s++ {
			c := g.Int(10)
			switch {
			case c < 5 || live == 0:
				settings := []any{}
				// every subset of the available options, some repeated
				if isWriter {
					if g.Chance(0.4) {
						settings = append(settings, M{"t": "format", "f": g.Pick([]string{string(formats.SPDX23JSON), string(formats.CDX15JSON), string(formats.CDX14JSON), ""})})
					}
					if g.Chance(0.4) {
						settings = append(settings, M{"t": "replace", "k": 0.0, "cell": []any{[]any{"Indent", strconv.Itoa(g.Pick2([]int{0, 1, 2, 7}))}}})
					}
					if g.Chance(0.2) {
						settings = append(settings, M{"t": "replace", "k": 1.0, "cell": []any{}})
					}
					if g.Chance(0.3) {
						settings = append(settings, M{"t": "replace", "k": 2.0, "cell": []any{[]any{"Backend", g.Pick([]string{"", "b1", "b2"})}, []any{"NoClobber", g.Pick([]string{"true", "false"})}}})
					}
					for g.Chance(0.35) {
						settings = append(settings, M{"t": "setKey", "k": 3.0, "key": g.Pick(optKeys[:2]), "val": g.Pick([]string{"v1", "v2", "v3"})})
						if g.Chance(0.4) {
							settings[len(settings)-1].(M)["sh"] = true
						}
					}
				} else {
					if g.Chance(0.3) {
						settings = append(settings, M{"t": "replace", "k": 0.0, "cell": []any{}})
					}
					if g.Chance(0.4) {
						settings = append(settings, M{"t": "replace", "k": 1.0, "cell": []any{[]any{"Backend", g.Pick([]string{"", "b1", "b2"})}}})
					}
					for g.Chance(0.4) {
						settings = append(settings, M{"t": "setKey", "k": 2.0, "key": g.Pick(optKeys[:3]), "val": g.Pick([]string{"v1", "v2", "v3"})})
						if g.Chance(0.4) {
							settings[len(settings)-1].(M)["sh"] = true
						}
					}
				}
				g.R.Shuffle(len(settings), func(a, b int) { settings[a], settings[b] = settings[b], settings[a] })
				steps = append(steps, M{"s": "new", "settings": settings})
				live++
			case c < 8:
				i := g.Int(live)
				if isWriter {
					switch g.Int(3) {
					case 0:
						steps = append(steps, M{"s": "mutate", "i": float64(i), "k": 0.0, "key": "Indent", "val": strconv.Itoa(g.Pick2([]int{0, 3, 9}))})
					case 1:
						steps = append(steps, M{"s": "mutate", "i": float64(i), "k": 2.0, "key": g.Pick([]string{"NoClobber", "Backend"}), "val": g.Pick([]string{"true", "false"})})
					default:
						steps = append(steps, M{"s": "mutate", "i": float64(i), "k": 3.0, "key": g.Pick(optKeys[:2]), "val": g.Pick([]string{"m1", "m2"})})
					}
				} else {
					steps = append(steps, M{"s": "mutate", "i": float64(i), "k": 2.0, "key": g.Pick(optKeys[:3]), "val": g.Pick([]string{"m1", "m2"})})
				}
			default:
				i := g.Int(live)
				if isWriter {
					var cell any
					if g.Chance(0.5) {
						cell = []any{[]any{"Indent", strconv.Itoa(g.Pick2([]int{0, 0, 1, 3, 5}))}}
					}
					st := M{"s": "call", "i": float64(i), "k": 0.0, "f": g.Pick([]string{"", string(formats.SPDX23JSON), string(formats.CDX15JSON), "verif/none"}), "cell": cell}
					if g.Chance(0.5) {
						// format options of the call only
						st["fo"] = []any{[]any{g.Pick(optKeys[:2]), g.Pick([]string{"call1", "call2"})}}
					}
					steps = append(steps, st)
				} else {
					var cell any
					if g.Chance(0.5) {
						cell = []any{[]any{recKey, g.Pick([]string{"c1", "c2"})}}
					}
					if g.Chance(0.4) {
						// a plain parse with detection: it must leave the reader's configuration alone
						steps = append(steps, M{"s": "call", "i": float64(i), "k": 2.0, "f": "", "cell": nil, "auto": g.Pick([]string{"spdx", "cdx"})})
					} else {
						steps = append(steps, M{"s": "call", "i": float64(i), "k": 2.0, "f": "verif/rec", "cell": cell})
					}
				}
			}
		}
		kind, dfl := "reader", readerDefaults
		if isWriter {
			kind, dfl = "writer", writerDefaults
		}
		if g.Chance(0.15) {
			// directed: one format-option value, kept by the caller, is the first option of several
			// constructor calls; later calls add options of their own and instances are reconfigured
			kk := 3.0
			if !isWriter {
				kk = 2.0
			}
			common := M{"t": "setKey", "k": kk, "key": optKeys[0], "val": g.Pick([]string{"v1", "v2"}), "sh": true}
			own := func() M { return M{"t": "setKey", "k": kk, "key": optKeys[1], "val": g.Pick([]string{"v2", "v3"})} }
			steps = []any{M{"s": "new", "settings": []any{common}}, M{"s": "new", "settings": []any{common, own()}}}
			if g.Chance(0.5) {
				steps = append(steps, M{"s": "mutate", "i": 1.0, "k": kk, "key": optKeys[0], "val": "m1"})
			}
			steps = append(steps, M{"s": "new", "settings": []any{common}}, M{"s": "new", "settings": []any{own(), common}})
		}
		if g.Chance(0.12) {
			// directed: one options struct, kept by the caller, is given to a first instance and then,
			// followed by another struct of the same kind, to a second one (and the other way round):
			// the later option decides for the instance it is given to, and the first instance keeps
			// what it was built with
			var a, b M
			if isWriter {
				if g.Chance(0.5) {
					a = M{"t": "replace", "k": 0.0, "cell": []any{[]any{"Indent", "3"}}, "shp": true}
					b = M{"t": "replace", "k": 0.0, "cell": []any{[]any{"Indent", "9"}}}
				} else {
					a = M{"t": "replace", "k": 2.0, "cell": []any{[]any{"NoClobber", "true"}, []any{"Backend", "b1"}}, "shp": true}
					b = M{"t": "replace", "k": 2.0, "cell": []any{[]any{"NoClobber", "false"}, []any{"Backend", "b2"}}}
				}
			} else {
				a = M{"t": "replace", "k": 1.0, "cell": []any{[]any{"Backend", "b1"}}, "shp": true}
				b = M{"t": "replace", "k": 1.0, "cell": []any{[]any{"Backend", "b2"}}}
			}
			if g.Chance(0.5) {
				// the second struct says what the library's defaults say: it is still what was asked for
				if isWriter {
					if asInt(b["k"]) == 0 {
						b["cell"] = []any{[]any{"Indent", "4"}}
					} else {
						b["cell"] = []any{[]any{"NoClobber", "false"}, []any{"Backend", ""}}
					}
				} else {
					b["cell"] = []any{[]any{"Backend", ""}}
				}
			}
			steps = []any{M{"s": "new", "settings": []any{a}}, M{"s": "new", "settings": []any{a, b}}, M{"s": "new", "settings": []any{b, a}}, M{"s": "new", "settings": []any{a}}}
		}
		ops = append(ops, M{"op": "optsHist", "kind": kind, "defaults": dfl, "steps": steps})
	}
	return ops
}

// canonical form of both sides: effective cell only where it can be observed
func optsCanon(v any) any {
	n := Normalize(v)
	l, ok := n.([]any)
	if !ok {
		return n
	}
	for _, st := range l {
		sm, ok := st.(M)
		if !ok {
			continue
		}
		if e, ok := sm["eff"].(M); ok {
			f := asStr(e["format"])
			if f == "" || f == "verif/none" {
				// no format on the call nor on the instance, or one nothing is registered for: refused
				e["format"] = "err"
				f = "err"
			}
			if f != string(formats.SPDX23JSON) && f != "verif/rec" {
				delete(e, "cell")
			}
			if f == "verif/rec" {
				// the reader hands the parser the value under the driver's key only
				keep := []any{}
				for _, kv := range asList(e["cell"]) {
					if p := asList(kv); len(p) == 2 && asStr(p[0]) == recKey {
						keep = append(keep, kv)
					}
				}
				e["cell"] = keep
			}
		}
	}
	return l
}

func oracleOpts(op M, res any, exec func(M) any) []Finding {
	var out []Finding
	if s, ok := res.(string); ok && strings.HasPrefix(s, "panic") {
		return []Finding{{"C18", "configuration history panicked: " + s}}
	}
	if asStr(op["op"]) == "optsNil" || asStr(op["op"]) == "optsSlice" {
		r, _ := res.(M)
		for _, p := range asList(r["problems"]) {
			out = append(out, Finding{"C18", asStr(p)})
		}
		return out
	}
	if asStr(op["op"]) == "optsBackends" {
		r, _ := res.(M)
		for i, v := range asList(r["before"]) {
			if asStr(v) != "" {
				out = append(out, Finding{"C18", fmt.Sprintf("a %s constructed without options has storage backend directory %q, the documented default is the empty path (instance %d)", asStr(op["kind"]), asStr(v), i)})
			}
		}
		for i, v := range asList(r["after"]) {
			if i > 0 && asStr(v) != "" {
				out = append(out, Finding{"C18", fmt.Sprintf("setting the storage directory of one %s changed it on another instance (instance %d now has %q)", asStr(op["kind"]), i, asStr(v))})
			}
		}
		return out
	}
	steps := asList(op["steps"])
	rl := asList(res)
	// options of a single call hold for that call only: the configurations after a call are those before it
	for si := 1; si < len(steps) && si < len(rl); si++ {
		sm, _ := steps[si].(M)
		a, _ := rl[si-1].(M)
		b, _ := rl[si].(M)
		if sm != nil && a != nil && b != nil && asStr(sm["s"]) == "call" && !Equal(Normalize(a["cfgs"]), Normalize(b["cfgs"])) {
			out = append(out, Finding{"C18", fmt.Sprintf("a call with its own options (step %d) changed the configuration of an instance: %s -> %s", si, js(a["cfgs"]), js(b["cfgs"]))})
		}
	}
	// constructing an instance changes no instance that exists already; writing through the option
	// pointers of one instance changes that instance only
	for si := 1; si < len(steps) && si < len(rl); si++ {
		sm, _ := steps[si].(M)
		a, _ := rl[si-1].(M)
		b, _ := rl[si].(M)
		if sm == nil || a == nil || b == nil {
			continue
		}
		ca, cb := asList(Normalize(a["cfgs"])), asList(Normalize(b["cfgs"]))
		switch asStr(sm["s"]) {
		case "new":
			for i := range ca {
				if i < len(cb) && !Equal(ca[i], cb[i]) {
					out = append(out, Finding{"C18", fmt.Sprintf("constructing instance %d (step %d) changed instance %d: %s -> %s", len(cb)-1, si, i, js(ca[i]), js(cb[i]))})
				}
			}
		case "mutate":
			for i := range ca {
				if i < len(cb) && i != int(asInt(sm["i"])) && !Equal(ca[i], cb[i]) {
					out = append(out, Finding{"C18", fmt.Sprintf("configuring instance %d (step %d) changed instance %d: %s -> %s", int(asInt(sm["i"])), si, i, js(ca[i]), js(cb[i]))})
				}
			}
		}
	}
	// an instance has what its constructor options say: of several options of one kind the last
	// decides, whatever the values are (also when they are what the library's defaults say)
	for si := 0; si < len(steps) && si < len(rl); si++ {
		sm, _ := steps[si].(M)
		b, _ := rl[si].(M)
		if sm == nil || b == nil || asStr(sm["s"]) != "new" {
			continue
		}
		cfgs := asList(Normalize(b["cfgs"]))
		if len(cfgs) == 0 {
			continue
		}
		inst, _ := cfgs[len(cfgs)-1].(M)
		cells := asList(inst["cells"])
		last := map[int][]any{}
		for _, x := range asList(sm["settings"]) {
			if xm, ok := x.(M); ok && asStr(xm["t"]) == "replace" {
				last[int(asInt(xm["k"]))] = asList(xm["cell"])
			}
		}
		for k, cell := range last {
			if k >= len(cells) {
				continue
			}
			for _, kv := range cell {
				p := asList(kv)
				if len(p) != 2 {
					continue
				}
				if got := cellGet(cells[k], asStr(p[0]), "<absent>"); got != asStr(p[1]) {
					out = append(out, Finding{"C18", fmt.Sprintf("step %d: the last option of its kind given to the constructor says %s=%s, the instance has %s", si, asStr(p[0]), asStr(p[1]), got)})
				}
			}
		}
	}
	// the render options of a call override the writer's for that call (observable in SPDX output)
	for si := 0; si < len(steps) && si < len(rl); si++ {
		sm, _ := steps[si].(M)
		b, _ := rl[si].(M)
		if sm == nil || b == nil || asStr(sm["s"]) != "call" || sm["cell"] == nil || asStr(op["kind"]) != "writer" {
			continue
		}
		if e, ok := b["eff"].(M); ok && asStr(e["format"]) == string(formats.SPDX23JSON) {
			if got, want := cellGet(e["cell"], "Indent", "?"), cellGet(sm["cell"], "Indent", "0"); got != want {
				out = append(out, Finding{"C18", fmt.Sprintf("step %d: the call asked for indent %s, the output is indented by %s: the options of the call did not override the writer's", si, want, got)})
			}
		}
	}
	// every write comes out in the format of the call, else in the format the instance reports
	for si := 0; si < len(steps) && si < len(rl); si++ {
		sm, _ := steps[si].(M)
		b, _ := rl[si].(M)
		if sm == nil || b == nil || asStr(sm["s"]) != "call" || asStr(op["kind"]) != "writer" {
			continue
		}
		i := int(asInt(sm["i"]))
		cfgs := asList(b["cfgs"])
		e, ok := b["eff"].(M)
		if !ok || i >= len(cfgs) {
			continue
		}
		want := asStr(sm["f"])
		if want == "" {
			if cm, ok := cfgs[i].(M); ok {
				want = asStr(cm["format"])
			}
		}
		if want == "" || want == "verif/none" {
			want = "err"
		}
		got := asStr(e["format"])
		if got == "" {
			got = "err"
		}
		if got != want {
			out = append(out, Finding{"C18", fmt.Sprintf("step %d: the write came out as %s; the call named %q and instance %d reports format %q", si, got, asStr(sm["f"]), i, want)})
		}
	}
	// the format of a call overrides the writer's for that call: one that nothing is registered for is refused
	for si := 0; si < len(steps) && si < len(rl); si++ {
		sm, _ := steps[si].(M)
		b, _ := rl[si].(M)
		if sm == nil || b == nil || asStr(sm["s"]) != "call" || asStr(op["kind"]) != "writer" || asStr(sm["f"]) != "verif/none" {
			continue
		}
		if e, ok := b["eff"].(M); ok && asStr(e["format"]) != "err" {
			out = append(out, Finding{"C18", fmt.Sprintf("step %d: the call named a format without a serializer, yet it succeeded and wrote %s: the writer's own format leaked into the call", si, asStr(e["format"]))})
		}
	}
	// ... and the format options of a call override the reader's: the driver receives the call's
	for si := 0; si < len(steps) && si < len(rl); si++ {
		sm, _ := steps[si].(M)
		b, _ := rl[si].(M)
		if sm == nil || b == nil || asStr(sm["s"]) != "call" || sm["cell"] == nil || asStr(op["kind"]) == "writer" || sm["auto"] != nil {
			continue
		}
		want := cellGet(sm["cell"], recKey, "\x00")
		if e, ok := b["eff"].(M); ok && asStr(e["format"]) == "verif/rec" && want != "\x00" {
			if got := cellGet(e["cell"], recKey, "<none>"); got != want {
				out = append(out, Finding{"C18", fmt.Sprintf("step %d: the call carried format options %q for the driver, the driver received %q: the options of the call did not override the reader's", si, want, got)})
			}
		}
	}
	// other instances are untouched by a constructor or by a write through one instance
	for si := 1; si < len(steps) && si < len(rl); si++ {
		sm, _ := steps[si].(M)
		a, _ := rl[si-1].(M)
		b, _ := rl[si].(M)
		if sm == nil || a == nil || b == nil {
			continue
		}
		ca, cb := asList(a["cfgs"]), asList(b["cfgs"])
		skip := -1
		if asStr(sm["s"]) == "mutate" {
			skip = int(asInt(sm["i"]))
		}
		for j := 0; j < len(ca) && j < len(cb); j++ {
			if j != skip && asStr(sm["s"]) != "call" && !Equal(Normalize(ca[j]), Normalize(cb[j])) {
				out = append(out, Finding{"C18", fmt.Sprintf("step %d (%s) changed the configuration of instance %d: %s -> %s", si, asStr(sm["s"]), j, js(ca[j]), js(cb[j]))})
			}
		}
	}
	// a constructor without options yields the documented defaults, wherever it stands in the history
	idx := -1
	for si, st := range steps {
		sm, _ := st.(M)
		if sm == nil || si >= len(rl) {
			break
		}
		if asStr(sm["s"]) == "new" {
			idx++
			if len(asList(sm["settings"])) == 0 {
				cfgs := asList(rl[si].(M)["cfgs"])
				if idx < len(cfgs) {
					dfl := readerDefaults
					if asStr(op["kind"]) == "writer" {
						dfl = writerDefaults
					}
					want := M{"format": "", "cells": dfl}
					if !Equal(Normalize(cfgs[idx]), Normalize(want)) {
						out = append(out, Finding{"C18", fmt.Sprintf("instance %d built without options does not have the documented defaults: %s", idx, js(cfgs[idx]))})
					}
				}
			}
		}
	}
	return out
}

// execBackends: the default storage backend is part of an instance's configuration too. Three
// instances built without a backend option; the first one's backend directory is set (the only way
// to point the default backend somewhere); what the others hold is read back, and so is a fourth
// instance built afterwards.
func execBackends(isWriter bool) any {
	pathOf := func(sr storage.StoreRetriever) any {
		if fs, ok := sr.(*storage.FileSystem); ok && fs != nil {
			return fs.Options.Path
		}
		return "<not the file-system backend>"
	}
	var backs []storage.StoreRetriever
	mk := func() storage.StoreRetriever {
		if isWriter {
			return writer.New().Storage
		}
		return reader.New().Storage
	}
	for i := 0; i < 3; i++ {
		backs = append(backs, mk())
	}
	before := []any{}
	for _, b := range backs {
		before = append(before, pathOf(b))
	}
	if fs, ok := backs[0].(*storage.FileSystem); ok && fs != nil {
		fs.Options.Path = "dir-of-the-first"
	}
	backs = append(backs, mk())
	after := []any{}
	for _, b := range backs {
		after = append(after, pathOf(b))
	}
	if fs, ok := backs[0].(*storage.FileSystem); ok && fs != nil {
		fs.Options.Path = "" // leave no trace for the rest of the run
	}
	return M{"before": before, "after": after}
}

// recSerializer writes out the format options its two phases were handed
type recSerializer struct{}

var recSerKey = fmt.Sprintf("%T", &recSerializer{})

func (*recSerializer) Serialize(_ *sbom.Document, _ *native.SerializeOptions, fo interface{}) (interface{}, error) {
	return fmt.Sprintf("serialize=%v", fo), nil
}

func (*recSerializer) Render(doc interface{}, w io.Writer, _ *native.RenderOptions, fo interface{}) error {
	_, err := fmt.Fprintf(w, "%v render=%v", doc, fo)
	return err
}

// recBackend records the options every store / retrieve call hands the backend
type recBackend struct{ seen []string }

func (b *recBackend) Store(_ *sbom.Document, o *storage.StoreOptions) error {
	if o == nil {
		b.seen = append(b.seen, "nil")
	} else {
		b.seen = append(b.seen, fmt.Sprintf("%v/%v", orEmpty(o.BackendOptions), o.NoClobber))
	}
	return nil
}

func (b *recBackend) Retrieve(id string, o *storage.RetrieveOptions) (*sbom.Document, error) {
	if o == nil {
		b.seen = append(b.seen, "nil")
	} else {
		b.seen = append(b.seen, fmt.Sprint(orEmpty(o.BackendOptions)))
	}
	d := sbom.NewDocument()
	d.Metadata.Id = id
	return d, nil
}

func (b *recBackend) last() string {
	if len(b.seen) == 0 {
		return "<no call>"
	}
	return b.seen[len(b.seen)-1]
}

// execNilOptions: constructors handed nil option values, store / retrieve calls, then one instance
// configured through its own option pointers: every other instance, older or newer, keeps the
// configuration its constructor gave it, and calls change nobody's configuration
func execNilOptions(isWriter bool) any {
	problems := []any{}
	bad := func(format string, a ...any) { problems = append(problems, fmt.Sprintf(format, a...)) }
	if isWriter {
		mk := func(b *recBackend, nils bool) *writer.Writer {
			if nils {
				return writer.New(writer.WithStoreRetriever(b), writer.WithRenderOptions(nil), writer.WithSerializeOptions(nil), writer.WithStoreOptions(nil))
			}
			return writer.New(writer.WithStoreRetriever(b))
		}
		backs := []*recBackend{{}, {}, {}, {}}
		ws := []*writer.Writer{mk(backs[0], true), mk(backs[1], true), mk(backs[2], false)}
		want := js(writerCfg(writer.New()))
		for i, w := range ws {
			if got := js(writerCfg(w)); got != want {
				bad("writer %d, constructed with nil option values, has configuration %s, a writer constructed without options has %s", i, got, want)
			}
		}
		for i, w := range ws {
			before := js(writerCfg(w))
			if err := w.Store(tinyDoc); err != nil {
				bad("Store through a recording backend fails: %v", err)
			}
			callOpts := &writer.Options{}
			_ = w.StoreWithOptions(tinyDoc, callOpts)
			if callOpts.StoreOptions != nil || callOpts.RenderOptions != nil || callOpts.SerializeOptions != nil || callOpts.Format != "" {
				bad("StoreWithOptions wrote into the options the caller passed: %+v", *callOpts)
			}
			if got := js(writerCfg(w)); got != before {
				bad("store calls changed the configuration of writer %d from %s to %s", i, before, got)
			}
		}
		// configure the first through its own pointers
		o := ws[0].Options
		var undo []func()
		if o.RenderOptions != nil {
			old := o.RenderOptions.Indent
			o.RenderOptions.Indent = 9
			undo = append(undo, func() { o.RenderOptions.Indent = old })
		}
		if o.StoreOptions != nil {
			ob, oc := o.StoreOptions.BackendOptions, o.StoreOptions.NoClobber
			o.StoreOptions.BackendOptions, o.StoreOptions.NoClobber = "bucket-1", !oc
			undo = append(undo, func() { o.StoreOptions.BackendOptions, o.StoreOptions.NoClobber = ob, oc })
		}
		ws = append(ws, mk(backs[3], false))
		for i := 1; i < len(ws); i++ {
			if got := js(writerCfg(ws[i])); got != want {
				bad("configuring writer 0 through its own option values changed writer %d (constructed %s) to %s", i, map[bool]string{true: "before", false: "afterwards"}[i < 3], got)
			}
			_ = ws[i].Store(tinyDoc)
			if got := backs[i].last(); strings.Contains(got, "bucket-1") {
				bad("the backend of writer %d was handed the store options configured on writer 0 (%s)", i, got)
			}
		}
		for _, u := range undo {
			u()
		}
		return M{"problems": problems}
	}
	mk := func(b *recBackend, nils bool) *reader.Reader {
		if nils {
			return reader.New(reader.WithStoreRetriever(b), reader.WithRetrieveOptions(nil), reader.WithUnserializeOptions(nil))
		}
		return reader.New(reader.WithStoreRetriever(b))
	}
	backs := []*recBackend{{}, {}, {}, {}}
	rs := []*reader.Reader{mk(backs[0], true), mk(backs[1], false), mk(backs[2], true)}
	want := js(readerCfg(reader.New()))
	for i, r := range rs {
		if got := js(readerCfg(r)); got != want {
			bad("reader %d, constructed with nil option values, has configuration %s, a reader constructed without options has %s", i, got, want)
		}
	}
	for i, r := range rs {
		before := js(readerCfg(r))
		if _, err := r.Retrieve("doc"); err != nil {
			bad("Retrieve through a recording backend fails: %v", err)
		}
		callOpts := &reader.Options{}
		_, _ = r.RetrieveWithOptions("doc", callOpts)
		if callOpts.RetrieveOptions != nil || callOpts.UnserializeOptions != nil || callOpts.Format != "" {
			bad("RetrieveWithOptions wrote into the options the caller passed: %+v", *callOpts)
		}
		if got := js(readerCfg(r)); got != before {
			bad("retrieve calls changed the configuration of reader %d from %s to %s", i, before, got)
		}
	}
	o := rs[0].Options
	var undo func()
	if o.RetrieveOptions == nil {
		o.RetrieveOptions = &storage.RetrieveOptions{BackendOptions: "bucket-1"}
	} else {
		old, ro := o.RetrieveOptions.BackendOptions, o.RetrieveOptions
		ro.BackendOptions = "bucket-1"
		undo = func() { ro.BackendOptions = old }
	}
	if _, err := rs[0].Retrieve("doc"); err != nil || backs[0].last() != "bucket-1" {
		bad("the backend of reader 0 was handed %q, its reader is configured with bucket-1 (error %v)", backs[0].last(), err)
	}
	rs = append(rs, mk(backs[3], false))
	for i := 1; i < len(rs); i++ {
		if got := js(readerCfg(rs[i])); got != want {
			bad("configuring reader 0 through its own option values changed reader %d to %s", i, got)
		}
		_, _ = rs[i].Retrieve("doc")
		if got := backs[i].last(); strings.Contains(got, "bucket-1") {
			bad("the backend of reader %d was handed the retrieve options configured on reader 0 (%s)", i, got)
		}
	}
	if undo != nil {
		undo()
	}
	return M{"problems": problems}
}

// execOptionSlices: a caller keeps his options in one slice (with room to grow) and builds instances
// from the whole list and from prefixes of it, in any order; and hand-built call options on which
// format options are set: none of it changes what a constructor without options gives
func execOptionSlices(isWriter bool) any {
	problems := []any{}
	bad := func(format string, a ...any) { problems = append(problems, fmt.Sprintf(format, a...)) }
	if isWriter {
		want := js(writerCfg(writer.New()))
		list := make([]writer.WriterOption, 0, 8)
		list = append(list, writer.WithFormatOptions("k1", "mine"), writer.WithRenderOptions(&native.RenderOptions{Indent: 7}), writer.WithFormat(formats.CDX15JSON))
		full := js(writerCfg(writer.New(list...)))
		for _, k := range []int{1, 2, 0, 3, 1} {
			_ = writer.New(list[:k]...)
			if got := js(writerCfg(writer.New(list...))); got != full {
				bad("a writer built from the caller's option list has %s after another writer was built from its first %d options, before it had %s", got, k, full)
				break
			}
		}
		// a driver that reports the format options each of its two phases is handed: the options of
		// the call reach both, whatever the writer itself was built with
		rec := &recSerializer{}
		writer.RegisterSerializer("verif/recw", rec)
		for _, own := range []any{nil, "writer-own"} {
			var wopts []writer.WriterOption
			if own != nil {
				wopts = append(wopts, writer.WithFormatOptions(recSerKey, own))
			}
			wr := writer.New(wopts...)
			co := &writer.Options{Format: "verif/recw"}
			co.SetFormatOptions(recSerKey, "call-only")
			buf := nopCloser{&bytes.Buffer{}}
			if err := wr.WriteStreamWithOptions(tinyDoc, buf, co); err != nil {
				bad("a write through the recording driver fails: %v", err)
			} else if got := buf.String(); got != "serialize=call-only render=call-only" {
				bad("a call with its own driver options on a writer built with %v handed the driver %q", own, got)
			}
			// the same call options, given another value and used again: every call is handed what the
			// options say at the time of the call
			for _, val := range []string{"second call", "third call"} {
				co.SetFormatOptions(recSerKey, val)
				buf = nopCloser{&bytes.Buffer{}}
				if err := wr.WriteStreamWithOptions(tinyDoc, buf, co); err != nil {
					bad("a write through the recording driver fails: %v", err)
				} else if got, exp := buf.String(), fmt.Sprintf("serialize=%s render=%s", val, val); got != exp {
					bad("call options that were set to %q before the call handed the driver %q", val, got)
				}
			}
			// a write without call options afterwards is handed the writer's own again, also when
			// these are set after the writer was built
			wr.Options.Format = "verif/recw"
			for _, later := range []any{own, "set later", "set again"} {
				if later != own {
					wr.Options.SetFormatOptions(recSerKey, later)
				}
				buf = nopCloser{&bytes.Buffer{}}
				if err := wr.WriteStream(tinyDoc, buf); err != nil {
					bad("a write through the recording driver fails: %v", err)
				} else if got, exp := buf.String(), fmt.Sprintf("serialize=%v render=%v", later, later); got != exp {
					bad("a writer whose own driver options are %v handed the driver %q", later, got)
				}
				if got := wr.Options.GetFormatOptions(recSerKey); got != later {
					bad("a writer whose driver options were set to %v answers %v when asked for them", later, got)
				}
			}
		}
		writer.UnregisterSerializer("verif/recw")
		// a constructor records the format it is given, whether or not something is registered for it yet
		for _, f := range []formats.Format{"verif/not-registered-yet", formats.SPDX23JSON} {
			if got := writer.New(writer.WithFormat(f)).Options.Format; got != f {
				bad("a writer built with format %q has format %q", f, got)
			}
		}
		call := &writer.Options{Format: formats.SPDX23JSON}
		call.SetFormatOptions("k2", "for-this-call-only")
		_ = call.GetFormatOptions("k2")
		buf := nopCloser{&bytes.Buffer{}}
		_ = writer.New().WriteStreamWithOptions(tinyDoc, buf, call)
		if got := js(writerCfg(writer.New())); got != want {
			bad("after format options were set on hand-built call options a writer constructed without options has %s, the defaults are %s", got, want)
		}
		if v := (&writer.Options{}).GetFormatOptions("k2"); v != nil {
			bad("an independent, empty options value has format option k2=%v after another options value was given it", v)
		}
		return M{"problems": problems}
	}
	want := js(readerCfg(reader.New()))
	list := make([]reader.ReaderOption, 0, 8)
	list = append(list, reader.WithFormatOptions("k1", "mine"), reader.WithRetrieveOptions(&storage.RetrieveOptions{BackendOptions: "b1"}), reader.WithFormatOptions("k2", "too"))
	full := js(readerCfg(reader.New(list...)))
	for _, k := range []int{1, 2, 0, 3, 1} {
		_ = reader.New(list[:k]...)
		if got := js(readerCfg(reader.New(list...))); got != full {
			bad("a reader built from the caller's option list has %s after another reader was built from its first %d options, before it had %s", got, k, full)
			break
		}
	}
	// a parse that fails inside the driver: the call's options are the caller's, before and after;
	// the next reader they are used with hands its driver its own format options
	{
		var got any
		fd := &failUnser{&got}
		reader.RegisterUnserializer("verif/failrec", fd)
		key := fmt.Sprintf("%T", fd)
		rA, rB, rC := reader.New(reader.WithFormatOptions(key, "options-of-A")), reader.New(reader.WithFormatOptions(key, "options-of-B")), reader.New()
		for _, shared := range []*reader.Options{{Format: "verif/failrec"}, rC.Options} {
			shared.Format = "verif/failrec"
			if _, err := rA.ParseStreamWithOptions(strings.NewReader("fail"), shared); err == nil {
				bad("a parse whose driver fails returns no error")
			} else if got != "options-of-A" {
				bad("a reader with its own driver options, called with options that have none, handed the driver %v", got)
			}
			if v := shared.GetFormatOptions(key); v != nil {
				bad("after a parse that failed in the driver the options of the call carry driver options %v they were not given", v)
			}
			if _, err := rB.ParseStreamWithOptions(strings.NewReader("ok"), shared); err != nil {
				bad("a parse through the recording driver fails: %v", err)
			} else if got != "options-of-B" {
				bad("a second reader, called with options an earlier failed call on another reader had used, handed its driver %v instead of its own options-of-B", got)
			}
			if _, err := rA.ParseStreamWithOptions(strings.NewReader("ok"), shared); err != nil || got != "options-of-A" {
				bad("the first reader, called again, handed its driver %v (error %v)", got, err)
			}
		}
		// the file entry point takes the options of the call as the stream entry point does
		if f, err := os.CreateTemp("", "verif-opts-*.txt"); err == nil {
			_, _ = f.WriteString("ok")
			_ = f.Close()
			co := &reader.Options{Format: "verif/failrec"}
			co.SetFormatOptions(key, "options-of-the-call")
			got = nil
			if _, err := rA.ParseFileWithOptions(f.Name(), co); err != nil {
				bad("ParseFileWithOptions with the format stated by the call fails: %v", err)
			} else if got != "options-of-the-call" {
				bad("ParseFileWithOptions handed the driver %v, the options of the call say options-of-the-call", got)
			}
			got = nil
			if _, err := rA.ParseStreamWithOptions(strings.NewReader("ok"), co); err != nil || got != "options-of-the-call" {
				bad("ParseStreamWithOptions handed the driver %v (error %v), the options of the call say options-of-the-call", got, err)
			}
			_ = os.Remove(f.Name())
		}
		rC.Options.Format = ""
		if v := rC.Options.GetFormatOptions(key); v != nil {
			bad("a reader whose options were lent to calls on other readers now has driver options %v", v)
		}
		reader.UnregisterUnserializer("verif/failrec")
	}
	call := &reader.Options{}
	call.SetFormatOptions("k2", "for-this-call-only")
	_ = call.GetFormatOptions("k2")
	_, _ = reader.New().ParseStreamWithOptions(bytes.NewReader([]byte(autoCDX)), call)
	if got := js(readerCfg(reader.New())); got != want {
		bad("after format options were set on hand-built call options a reader constructed without options has %s, the defaults are %s", got, want)
	}
	if v := (&reader.Options{}).GetFormatOptions("k2"); v != nil {
		bad("an independent, empty options value has format option k2=%v after another options value was given it", v)
	}
	return M{"problems": problems}
}

var OptsStream = &Stream{
	Name:       "opts",
	Gen:        optsGen,
	Exec:       ExecOpts,
	Oracle:     oracleOpts,
	Canon:      optsCanon,
	Nontrivial: func(op M) bool { return true },
	OpProps:    func(op M) []string { return []string{"C18"} },
	Reps:       1,
	NoModel: func(op M) bool {
		o := asStr(op["op"])
		return o == "optsBackends" || o == "optsNil" || o == "optsSlice"
	},
}
