package hx

import (
	"bytes"
	"encoding/base64"
	"fmt"
	"os"
	"path/filepath"
	"reflect"
	"regexp"
	"sort"
	"strings"
	"sync/atomic"
	"time"

	cdx "github.com/CycloneDX/cyclonedx-go"
	"github.com/protobom/protobom/pkg/formats"
	"github.com/protobom/protobom/pkg/reader"
	"github.com/protobom/protobom/pkg/sbom"
	spdxjson "github.com/spdx/tools-golang/json"
	"github.com/spdx/tools-golang/spdx"
)

// The `parse` stream (C04; also C05's explicit-format clause): systematic schema faults at every
// JSON path of representative documents, parsed with the real reader. The model gets what the
// third-party decoders make of the same bytes, with the nil pointers they leave recorded.

// nilSites walks a decoded native structure and reports, by type and field name, every nil
// pointer field and every nil element of a slice of pointers.
func nilSites(v any) []any {
	seen := map[string]bool{}
	var walk func(rv reflect.Value, depth int)
	walk = func(rv reflect.Value, depth int) {
		if depth > 200 {
			return
		}
		switch rv.Kind() {
		case reflect.Ptr, reflect.Interface:
			if !rv.IsNil() {
				walk(rv.Elem(), depth+1)
			}
		case reflect.Struct:
			t := rv.Type()
			for i := 0; i < rv.NumField(); i++ {
				f := rv.Field(i)
				ft := t.Field(i)
				if !ft.IsExported() {
					continue
				}
				name := t.Name() + "." + ft.Name
				switch f.Kind() {
				case reflect.Ptr:
					if f.IsNil() {
						seen[name] = true
					} else {
						walk(f, depth+1)
					}
				case reflect.Slice:
					for k := 0; k < f.Len(); k++ {
						e := f.Index(k)
						if e.Kind() == reflect.Ptr && e.IsNil() {
							seen[name+"[]"] = true
						} else {
							walk(e, depth+1)
						}
					}
				case reflect.Struct, reflect.Interface:
					walk(f, depth+1)
				}
			}
		case reflect.Slice:
			for k := 0; k < rv.Len(); k++ {
				walk(rv.Index(k), depth+1)
			}
		}
	}
	walk(reflect.ValueOf(v), 0)
	out := []string{}
	for k := range seen {
		out = append(out, k)
	}
	sort.Strings(out)
	r := []any{}
	for _, k := range out {
		r = append(r, k)
	}
	return r
}

// decodeNative: the third-party view of the bytes. kind "cdx": cyclonedx-go's decoder;
// kind "spdx": tools-golang's json.Read. Returns (native JSON or nil, nil sites, status).
func decodeNative(b []byte, kind string) (nat any, sites []any, status string) {
	defer func() {
		if r := recover(); r != nil {
			nat, sites, status = nil, nil, "panic"
		}
	}()
	if kind == "cdx" {
		bom := new(cdx.BOM)
		if err := cdx.NewBOMDecoder(bytes.NewReader(b), cdx.BOMFileFormatJSON).Decode(bom); err != nil {
			return nil, nil, "err"
		}
		return bomJ(bom), nilSites(bom), "ok"
	}
	doc, err := spdxjson.Read(bytes.NewReader(b))
	if err != nil {
		return nil, nil, "err"
	}
	return spdxNativeInJ(doc), nilSites(doc), "ok"
}

// spdxNativeInJ: the decoded SPDX document for the model's parser (nil elements dropped, as
// the guarded loops do; that they are guarded is what the nil-site list is for).
func spdxNativeInJ(doc *spdx.Document) any {
	d2 := *doc
	d2.Packages = nil
	for _, p := range doc.Packages {
		if p != nil {
			q := *p
			q.PackageExternalReferences = nil
			for _, r := range p.PackageExternalReferences {
				if r != nil {
					q.PackageExternalReferences = append(q.PackageExternalReferences, r)
				}
			}
			d2.Packages = append(d2.Packages, &q)
		}
	}
	d2.Files = nil
	for _, f := range doc.Files {
		if f != nil {
			d2.Files = append(d2.Files, f)
		}
	}
	d2.Relationships = nil
	for _, r := range doc.Relationships {
		if r != nil {
			d2.Relationships = append(d2.Relationships, r)
		}
	}
	m := spdxNativeJ(&d2).(M)
	m["ns"] = doc.DocumentNamespace
	cr := []any{}
	if doc.CreationInfo != nil {
		for _, c := range doc.CreationInfo.Creators {
			cr = append(cr, []any{c.CreatorType, c.Creator})
		}
	}
	m["creators"] = cr
	return m
}

func parseInput(b []byte, src, fault string) M {
	return M{"b64": base64.StdEncoding.EncodeToString(b), "src": src, "fault": fault}
}

// parseEnrich adds the third-party views of the bytes for the model
func parseEnrich(op M) M {
	in, ok := op["in"].(M)
	if !ok {
		return op
	}
	b, err := base64.StdEncoding.DecodeString(asStr(in["b64"]))
	if err != nil {
		return op
	}
	m := sniffInput(b, asStr(in["src"]), "")
	delete(m, "b64")
	m["fault"] = in["fault"]
	for _, kind := range []string{"cdx", "spdx"} {
		nat, sites, st := decodeNative(b, kind)
		m[kind] = M{"status": st, "native": nat, "nils": sites}
	}
	out := M{}
	for k, v := range op {
		out[k] = v
	}
	out["in"] = m
	return Normalize(out).(M)
}

// base documents: generated ones through the writer, native CycloneDX ones, and (thorough tier)
// the repository's own conformance files
func (g *G) parseBases(tier string) [][2]string {
	var out [][2]string
	add := func(b []byte, src string) {
		if len(b) > 0 {
			out = append(out, [2]string{string(b), src})
		}
	}
	n := 3
	if tier == "thorough" {
		n = 12
	}
	for i := 0; i < n; i++ {
		if b, err := WriteDoc(DocOf(g.spdxDoc(g.Chance(0.6))), formats.SPDX23JSON, 0); err == nil {
			add(b, "gen-spdx")
		}
		v := g.Pick2([]int{3, 4, 5})
		if b, err := WriteDoc(DocOf(g.cdxTreeDoc(v, g.Chance(0.6))), cdxFormat(v), 0); err == nil {
			add(b, fmt.Sprintf("gen-cdx1.%d", v))
		}
		if b, err := encodeBOM(g.nativeBOM()); err == nil {
			add(b, "native-cdx")
		}
	}
	add([]byte(richCDX), "rich-cdx")
	add([]byte(richSPDX), "rich-spdx")
	// documents that carry their declaration and nothing else
	add([]byte(`{"spdxVersion":"SPDX-2.3"}`), "bare-spdx")
	add([]byte(`{"bomFormat":"CycloneDX","specVersion":"1.5"}`), "bare-cdx")
	add([]byte(`{"spdxVersion":"SPDX-2.3","SPDXID":"SPDXRef-DOCUMENT","documentNamespace":null,"packages":[{"SPDXID":"SPDXRef-p","name":"p"}]}`), "spdx-null-namespace")
	// what other generators write: the described element stated twice (and once more in documentDescribes),
	// an organisation as originator without a supplier, files listed next to the package that contains them
	add([]byte(`{"spdxVersion":"SPDX-2.3","dataLicense":"CC0-1.0","SPDXID":"SPDXRef-DOCUMENT","name":"twice","documentNamespace":"https://example.com/twice",
"creationInfo":{"created":"2023-01-01T00:00:00Z","creators":["Tool: t"]},"documentDescribes":["SPDXRef-app"],
"packages":[{"SPDXID":"SPDXRef-app","name":"app","downloadLocation":"NOASSERTION","originator":"Organization: ACME","supplier":"NOASSERTION"},
{"SPDXID":"SPDXRef-lib","name":"lib","downloadLocation":"NOASSERTION","originator":"Organization: Upstream (up@example.com)"}],
"files":[{"SPDXID":"SPDXRef-f","fileName":"./bin/app","checksums":[{"algorithm":"SHA1","checksumValue":"aa"}]}],
"relationships":[{"spdxElementId":"SPDXRef-DOCUMENT","relationshipType":"DESCRIBES","relatedSpdxElement":"SPDXRef-app"},
{"spdxElementId":"SPDXRef-DOCUMENT","relationshipType":"DESCRIBES","relatedSpdxElement":"SPDXRef-app"},
{"spdxElementId":"SPDXRef-DOCUMENT","relationshipType":"DESCRIBES","relatedSpdxElement":"SPDXRef-lib"},
{"spdxElementId":"SPDXRef-app","relationshipType":"CONTAINS","relatedSpdxElement":"SPDXRef-f"},
{"spdxElementId":"SPDXRef-app","relationshipType":"DEPENDS_ON","relatedSpdxElement":"SPDXRef-lib"}]}`), "spdx-describes-twice")
	// two packages that each ship a file of the same name, one of the files also described by the
	// document directly, a file whose name is a package's identifier
	add([]byte(`{"spdxVersion":"SPDX-2.3","dataLicense":"CC0-1.0","SPDXID":"SPDXRef-DOCUMENT","name":"twins","documentNamespace":"https://example.com/twins",
"creationInfo":{"created":"2023-01-01T00:00:00Z","creators":["Tool: t"]},
"packages":[{"SPDXID":"SPDXRef-Package-app","name":"app","downloadLocation":"NOASSERTION"},{"SPDXID":"SPDXRef-Package-lib","name":"lib","downloadLocation":"NOASSERTION"}],
"files":[{"SPDXID":"SPDXRef-File-app-license","fileName":"./LICENSE","checksums":[{"algorithm":"SHA1","checksumValue":"aa"}]},
{"SPDXID":"SPDXRef-File-lib-license","fileName":"./LICENSE","checksums":[{"algorithm":"SHA1","checksumValue":"bb"}]},
{"SPDXID":"SPDXRef-File-firmware.bin","fileName":"Package-app","checksums":[{"algorithm":"SHA1","checksumValue":"cc"}]}],
"relationships":[{"spdxElementId":"SPDXRef-DOCUMENT","relationshipType":"DESCRIBES","relatedSpdxElement":"SPDXRef-Package-app"},
{"spdxElementId":"SPDXRef-DOCUMENT","relationshipType":"DESCRIBES","relatedSpdxElement":"SPDXRef-File-firmware.bin"},
{"spdxElementId":"SPDXRef-Package-app","relationshipType":"CONTAINS","relatedSpdxElement":"SPDXRef-File-app-license"},
{"spdxElementId":"SPDXRef-Package-lib","relationshipType":"CONTAINS","relatedSpdxElement":"SPDXRef-File-lib-license"},
{"spdxElementId":"SPDXRef-Package-app","relationshipType":"DEPENDS_ON","relatedSpdxElement":"SPDXRef-Package-lib"}]}`), "spdx-twin-files")
	if tier == "thorough" {
		repo := os.Getenv("VERIF_REPO")
		if repo == "" {
			repo = "/repo"
		}
		for _, f := range []string{"test/conformance/testdata/cyclonedx/1.4/json/bom-1.4.json", "test/conformance/testdata/cyclonedx/1.5/json/bom-1.5.json",
			"test/conformance/testdata/spdx/2.3/json/bom-v0.4.1_cirros-0.4.0.spdx.json", "pkg/formats/testdata/minified.cdx.json"} {
			if b, err := os.ReadFile(filepath.Join(repo, f)); err == nil {
				add(b, "repo:"+filepath.Base(f))
			}
		}
	}
	return out
}

// hand-made documents that use every member the parsers look at
const richCDX = `{"bomFormat":"CycloneDX","specVersion":"1.5","serialNumber":"urn:uuid:3e671687-395b-41f5-a30f-a58921a69b79","version":1,
"metadata":{"timestamp":"2023-01-01T00:00:00Z","lifecycles":[{"phase":"build"},{"name":"custom","description":"d"}],
"tools":[{"vendor":"v","name":"t","version":"1"}],"authors":[{"name":"a","email":"e","phone":"p"}],
"component":{"bom-ref":"root","type":"application","name":"app","version":"1.0","description":"d","copyright":"c","cpe":"cpe:2.3:a:b:c:1:*:*:*:*:*:*:*","purl":"pkg:npm/app@1.0",
"licenses":[{"license":{"id":"MIT"}}],"hashes":[{"alg":"SHA-256","content":"aa"}],
"externalReferences":[{"type":"website","url":"https://x","comment":"c","hashes":[{"alg":"SHA-1","content":"bb"}]}],
"supplier":{"name":"s","url":["u"],"contact":[{"name":"n","email":"e","phone":"p"}]},
"components":[{"bom-ref":"sub","type":"library","name":"sub","licenses":[{"expression":"MIT OR Apache-2.0"}]}]}},
"components":[{"bom-ref":"lib","type":"library","name":"lib","version":"2","licenses":[{"license":{"name":"Custom"}},{"license":{"id":"Apache-2.0"}}],
"hashes":[{"alg":"MD5","content":"cc"}],"cpe":"cpe:/a:b:c","purl":"pkg:npm/lib@2",
"components":[{"type":"file","name":"noref"},{"bom-ref":"deep","type":"file","name":"deep","components":[{"bom-ref":"deeper","type":"library","name":"deeper"}]}]},
{"type":"container","name":"noref2"}],
"dependencies":[{"ref":"root","dependsOn":["lib"]},{"ref":"lib","dependsOn":["sub","deep"]}]}`

const richSPDX = `{"spdxVersion":"SPDX-2.3","dataLicense":"CC0-1.0","SPDXID":"SPDXRef-DOCUMENT","name":"doc","documentNamespace":"https://example.com/doc",
"comment":"c","creationInfo":{"created":"2023-01-01T00:00:00Z","creators":["Tool: t-1","Organization: o","Person: p (e@x)"],"licenseListVersion":"3.20"},
"documentDescribes":["SPDXRef-root"],
"packages":[{"SPDXID":"SPDXRef-root","name":"root","versionInfo":"1","packageFileName":"f","downloadLocation":"https://x","homepage":"https://h","filesAnalyzed":false,
"sourceInfo":"s","licenseConcluded":"MIT","licenseDeclared":"MIT","licenseComments":"lc","copyrightText":"c","summary":"s","description":"d","comment":"c",
"primaryPackagePurpose":"APPLICATION","releaseDate":"2023-01-01T00:00:00Z","builtDate":"2023-01-02T00:00:00Z","validUntilDate":"2024-01-01T00:00:00Z",
"checksums":[{"algorithm":"SHA256","checksumValue":"aa"}],"attributionTexts":["a"],"supplier":"Organization: s (e@x)","originator":"Person: o",
"externalRefs":[{"referenceCategory":"PACKAGE-MANAGER","referenceType":"purl","referenceLocator":"pkg:npm/root@1","comment":"c"},
{"referenceCategory":"SECURITY","referenceType":"cpe23Type","referenceLocator":"cpe:2.3:a:b:c:1:*:*:*:*:*:*:*"},{"referenceCategory":"OTHER","referenceType":"x","referenceLocator":"y"}],
"packageVerificationCode":{"packageVerificationCodeValue":"vv"},"hasFiles":["SPDXRef-file"]},
{"SPDXID":"SPDXRef-lib","name":"lib","downloadLocation":"NOASSERTION"}],
"files":[{"SPDXID":"SPDXRef-file","fileName":"./a","fileTypes":["SOURCE"],"checksums":[{"algorithm":"SHA1","checksumValue":"bb"}],"licenseConcluded":"MIT",
"licenseInfoInFiles":["MIT"],"licenseComments":"c","copyrightText":"c","comment":"c","attributionTexts":["t"]}],
"relationships":[{"spdxElementId":"SPDXRef-root","relationshipType":"DEPENDS_ON","relatedSpdxElement":"SPDXRef-lib"},
{"spdxElementId":"SPDXRef-root","relationshipType":"CONTAINS","relatedSpdxElement":"NOASSERTION"},
{"spdxElementId":"SPDXRef-DOCUMENT","relationshipType":"DESCRIBES","relatedSpdxElement":"SPDXRef-root"},
{"spdxElementId":"SPDXRef-DOCUMENT","relationshipType":"DESCRIBES","relatedSpdxElement":"NONE"},
{"spdxElementId":"SPDXRef-DOCUMENT","relationshipType":"DESCRIBES","relatedSpdxElement":"NOASSERTION"},
{"spdxElementId":"SPDXRef-lib","relationshipType":"DEPENDS_ON","relatedSpdxElement":"NONE"}]}`

func parseGen(g *G, tier string) []M {
	var ops []M
	bases := g.parseBases(tier)
	budget := 5000
	if tier == "thorough" {
		budget = 250000
	}
	per := budget / len(bases)
	// input that is not JSON goes to the line detector: text in front of the tag whose length changes
	// under case mapping, bytes that are not text, a tag in other letter case
	for i, txt := range []string{"ȺȺȺȺȺȺȺȺȺȺȺȺ SPDXVersion: SPDX-2.3\n", "ȺȾ SPDXVersion:", "\xff\xfe\xff\xfe\xff\xfe\xff\xfeSPDXVersion: SPDX-2.2\nDataLicense: CC0-1.0\n",
		"İİİİİİİİİİ SPDXVersion: SPDX-2.3", "x\nẞẞẞẞ SPDXVERSION: spdx-2.2\n", "SPDXVersion: SPDX-2.3\nDocumentName: ȺȾİ\n"} {
		in := parseInput([]byte(txt), fmt.Sprintf("text-%d", i), "none")
		ops = append(ops, M{"op": "sniffPair", "in": in}, M{"op": "parse", "in": in})
	}
	// the shapes CycloneDX allows for metadata.tools: the list of 1.4, and the object of 1.5 with
	// components, with services only, with nothing
	for i, tools := range []string{`[{"vendor":"v","name":"t","version":"1"}]`, `{"components":[{"type":"application","name":"t","version":"1"}]}`,
		`{"services":[{"name":"s"}]}`, `{}`, `{"components":[]}`, `{"components":null,"services":null}`, `[]`, `null`} {
		for _, ver := range []string{"1.5", "1.4"} {
			doc := `{"bomFormat":"CycloneDX","specVersion":"` + ver + `","version":1,"metadata":{"tools":` + tools + `,"component":{"bom-ref":"app","type":"application","name":"app"}},"components":[{"bom-ref":"lib","type":"library","name":"lib"}]}`
			ops = append(ops, M{"op": "parse", "in": parseInput([]byte(doc), fmt.Sprintf("tools-%d-%s", i, ver), "none")})
		}
	}
	for _, bs := range bases {
		raw, src := []byte(bs[0]), bs[1]
		ops = append(ops, M{"op": "parse", "in": parseInput(raw, src, "none")})
		ops = append(ops, M{"op": "layouts", "in": parseInput(raw, src, "none")})
		ops = append(ops, M{"op": "sniffPair", "in": parseInput(raw, src, "none")}, M{"op": "parseEditParse", "in": parseInput(raw, src, "none")})
		for _, f := range []formats.Format{formats.SPDX23JSON, formats.CDX13JSON, formats.CDX15JSON, formats.SPDX22JSON, formats.CDX12JSON, "bogus"} {
			ops = append(ops, M{"op": "parseAs", "f": string(f), "in": parseInput(raw, src, "none")})
		}
		t, err := ParseJT(raw)
		if err != nil {
			continue
		}
		paths := t.Paths()
		type fk struct {
			p JPath
			k string
		}
		var all []fk
		for _, p := range paths {
			for _, k := range FaultKinds {
				all = append(all, fk{p, k})
			}
		}
		// quick: a random sample of the single faults; thorough: all of them. The faults at the
		// members of the top-level object of the hand-made documents are always kept: that is where
		// the document-wide values live (namespace, serial number, versions, creation info)
		if len(all) > per {
			g.R.Shuffle(len(all), func(i, j int) { all[i], all[j] = all[j], all[i] })
			keep := all[:per]
			if strings.HasPrefix(src, "rich-") {
				for _, f := range all[per:] {
					// also kept: text of unusual shape wherever a date is expected (dates are converted,
					// and what cannot be converted is reported)
					ps := strings.ToLower(t.PathString(f.p))
					if len(f.p) == 1 || ((f.k == "wide" || f.k == "freetext") && (strings.Contains(ps, "date") || strings.Contains(ps, "created") || strings.Contains(ps, "timestamp"))) {
						keep = append(keep, f)
					}
				}
			}
			all = keep
		}
		for _, f := range all {
			ft := t.ApplyFault(f.p, f.k)
			if ft == nil {
				continue
			}
			in := parseInput(ft.Bytes(), src, f.k+"@"+t.PathString(f.p))
			if len(f.p) == 1 {
				// faults at the declaration level also go to the detector on its own
				ops = append(ops, M{"op": "sniffPair", "in": in})
			}
			if g.Chance(0.15) {
				ops = append(ops, M{"op": "parseAs", "f": string(g.Pick2F()), "in": in})
			} else {
				ops = append(ops, M{"op": "parse", "in": in})
			}
		}
		// double faults in the upper three levels
		var top []JPath
		for _, p := range paths {
			if len(p) >= 1 && len(p) <= 3 {
				top = append(top, p)
			}
		}
		nd := per / 4
		for i := 0; i < nd && len(top) > 1; i++ {
			p1, p2 := top[g.Int(len(top))], top[g.Int(len(top))]
			k1, k2 := g.Pick(FaultKinds[:9]), g.Pick(FaultKinds[:9])
			// apply the deeper / later path first so the earlier one stays valid
			if len(p2) > len(p1) || (len(p2) == len(p1) && fmt.Sprint(p2) > fmt.Sprint(p1)) {
				p1, p2, k1, k2 = p2, p1, k2, k1
			}
			isPrefix := len(p2) <= len(p1)
			for j := range p2 {
				if p1[j] != p2[j] {
					isPrefix = false
					break
				}
			}
			if isPrefix {
				continue
			}
			f1 := t.ApplyFault(p1, k1)
			if f1 == nil {
				continue
			}
			// p2 is still valid unless it is a later sibling of something p1's fault removed
			func() {
				defer func() { recover() }()
				f2 := f1.ApplyFault(p2, k2)
				if f2 != nil {
					ops = append(ops, M{"op": "parse", "in": parseInput(f2.Bytes(), src, k1+"@"+t.PathString(p1)+"+"+k2+"@"+t.PathString(p2))})
				}
			}()
		}
	}
	// the public identifier generator on arbitrary seed bytes
	ni := 400
	if tier == "thorough" {
		ni = 20000
	}
	for i := 0; i < ni; i++ {
		seeds := []any{}
		for k := 0; k < g.Int(4); k++ {
			var sb []byte
			switch g.Int(7) {
			case 0:
				sb = []byte(g.Pick([]string{"auto", "node", "auto", "Auto", "node ", "", "Node", "NODE", "AUTO", "nOde", "ａｕｔｏ"}))
			case 1:
				sb = []byte(g.Pick([]string{"pkg:npm/@scope/name@1.0", "a/b:c d", "..", "-", "ünï", "日本", "a\x00b", "x y/z:w", "C47", "a--b", "\xff\xfe"}))
			default:
				n := g.Int(6)
				for j := 0; j < n; j++ {
					sb = append(sb, byte(g.Pick2([]int{47, 58, 32, 45, 46, 48, 57, 65, 90, 97, 122, 64, 95, 0, 127, 128, 195, 169, 255, g.Int(256)})))
				}
			}
			bl := []any{}
			for _, b := range sb {
				bl = append(bl, float64(b))
			}
			seeds = append(seeds, bl)
		}
		ops = append(ops, M{"op": "newId", "seeds": seeds})
	}
	// byte-level: truncations, garbage, near-miss declarations
	nb := 300
	if tier == "thorough" {
		nb = 5000
	}
	for i := 0; i < nb; i++ {
		if g.Chance(0.5) {
			bs := bases[g.Int(len(bases))]
			raw := []byte(bs[0])
			cut := g.Int(len(raw) + 1)
			ops = append(ops, M{"op": "parse", "in": parseInput(raw[:cut], bs[1], fmt.Sprintf("truncate@%d", cut))})
		} else {
			b, src := g.sniffBytes()
			ops = append(ops, M{"op": "parse", "in": parseInput(b, src, "bytes")})
		}
	}
	return ops
}

func (g *G) Pick2F() formats.Format {
	l := []formats.Format{formats.SPDX23JSON, formats.CDX13JSON, formats.CDX14JSON, formats.CDX15JSON, formats.CDX10JSON}
	return l[g.Int(len(l))]
}

var uuidRe = regexp.MustCompile(`[0-9a-f]{8}-[0-9a-f]{4}-[0-9a-f]{4}-[0-9a-f]{4}-[0-9a-f]{12}`)

// layoutsVerdict parses one document in several layouts, twice, and with the detected format
// stated explicitly; all results must be the same document.
func layoutsVerdict(b []byte) any {
	class0, d0 := runParse(b, "")
	if d0 == nil {
		return M{"class": class0}
	}
	// an SPDX document without a namespace is given a random one (uuid.NewString): the graph is what
	// the property compares, so the random part of the document identifier is masked
	canon := func(d *sbom.Document) any {
		c := CanonDoc(Normalize(DocJ(d)))
		if m, ok := c.(M); ok {
			if meta, ok := m["meta"].(M); ok {
				meta["id"] = uuidRe.ReplaceAllString(asStr(meta["id"]), "<uuid>")
			}
		}
		return c
	}
	ref := canon(d0)
	diffs := []any{}
	cmp := func(name string, bb []byte, f formats.Format) {
		class, d := runParse(bb, f)
		if d == nil {
			diffs = append(diffs, name+": "+class)
			return
		}
		if !Equal(canon(d), ref) {
			diffs = append(diffs, name+": different document")
		}
	}
	cmp("same bytes again", b, "")
	for how := 1; how <= 4; how++ {
		cmp(fmt.Sprintf("re-encoding %d", how), reencode(b, how), "")
	}
	if f, err := (&formats.Sniffer{}).SniffReader(bytes.NewReader(b)); err == nil {
		cmp("format stated explicitly", b, f)
		cmp("re-encoding 2 with the format stated explicitly", reencode(b, 2), f)
	} else {
		diffs = append(diffs, "parsed although detection fails")
	}
	return M{"class": "doc", "diffs": diffs, "doc": parseCanon(DocJ(d0))}
}

type parseResult struct {
	doc *sbom.Document
	err error
	pan string
}

var parseHung atomic.Bool

func runParse(b []byte, format formats.Format) (class string, doc *sbom.Document) {
	if parseHung.Load() {
		return "skipped-after-hang", nil
	}
	ch := make(chan parseResult, 1)
	go func() {
		var pr parseResult
		defer func() {
			if r := recover(); r != nil {
				pr.pan = fmt.Sprint(r)
			}
			ch <- pr
		}()
		rd := reader.New()
		if format == "" {
			pr.doc, pr.err = rd.ParseStream(bytes.NewReader(b))
		} else {
			pr.doc, pr.err = rd.ParseStreamWithOptions(bytes.NewReader(b), &reader.Options{Format: format})
		}
	}()
	select {
	case pr := <-ch:
		switch {
		case pr.pan != "":
			return "panic: " + pr.pan, nil
		case pr.doc != nil && pr.err != nil:
			return "both", nil
		case pr.doc == nil && pr.err == nil:
			return "neither", nil
		case pr.err != nil:
			return "err", nil
		case pr.doc.Metadata == nil || pr.doc.NodeList == nil:
			return "doc-incomplete", nil
		}
		return "doc", pr.doc
	case <-time.After(20 * time.Second):
		parseHung.Store(true)
		return "hang", nil
	}
}

func ExecParse(op M) (res any) {
	defer func() {
		if r := recover(); r != nil {
			res = fmt.Sprintf("panic: %v", r)
		}
	}()
	if asStr(op["op"]) == "newId" {
		var seeds []string
		for _, sd := range asList(op["seeds"]) {
			var sb []byte
			for _, x := range asList(sd) {
				sb = append(sb, byte(asInt(x)))
			}
			seeds = append(seeds, string(sb))
		}
		id := sbom.NewNodeIdentifier(seeds...)
		id2 := sbom.NewNodeIdentifier(seeds...)
		idc := uuidRe.ReplaceAllString(id, "<uuid>")
		return M{"id": idc, "stable": id == id2 || strings.Contains(idc, "<uuid>")}
	}
	in, ok := op["in"].(M)
	if !ok {
		return "unknown-op"
	}
	b, err := base64.StdEncoding.DecodeString(asStr(in["b64"]))
	if err != nil {
		return "unknown-op"
	}
	if n := maxLicences(b); n >= 25 {
		// KF-C04-licence-blowup: the concluded-licence string doubles with every entry; not run
		return fmt.Sprintf("known-blowup: %d licence entries", n)
	}
	switch asStr(op["op"]) {
	case "sniffPair":
		// format detection on its own: exactly one of a format and an error, through both entry points
		f, err := (&formats.Sniffer{}).SniffReader(bytes.NewReader(b))
		fw := sniffForwardOnly(b)
		return M{"format": string(f), "err": err != nil, "fwFormat": fw["format"], "fwErr": fw["err"]}
	case "parseEditParse":
		// what a parse returns belongs to the caller: editing it in place changes nothing for the
		// other nodes of the same result nor for the next parse of the same bytes
		c1, d1 := runParse(b, "")
		if d1 == nil {
			return M{"class": c1}
		}
		// the whole document, nodes / edges / roots in canonical order (the parsers' output order
		// follows Go map iteration in places and is not part of the comparison)
		whole := func(d *sbom.Document) string {
			j := DocJ(d)
			if m, ok := j.(M); ok {
				m["nl"] = CanonResult(m["nl"])
			}
			return uuidRe.ReplaceAllString(js(j), "<uuid>")
		}
		before := whole(d1)
		if len(d1.NodeList.Nodes) > 0 {
			first := d1.NodeList.Nodes[0]
			rest := &sbom.NodeList{Nodes: d1.NodeList.Nodes[1:]}
			restBefore := js(NLJ(rest))
			mutateEverywhere(first)
			if js(NLJ(rest)) != restBefore {
				return M{"class": "doc", "siblings": true}
			}
		}
		mutateEverywhere(d1)
		c2, d2 := runParse(b, "")
		if d2 == nil {
			return M{"class": "doc", "second": c2}
		}
		return M{"class": "doc", "same": whole(d2) == before}
	case "layouts":
		return layoutsVerdict(b)
	case "parse":
		class, doc := runParse(b, "")
		if doc != nil {
			dj := DocJ(doc)
			if outLen := len(js(dj)); outLen > 200*len(b)+1000000 {
				return fmt.Sprintf("known-blowup: result of %d bytes for an input of %d bytes", outLen, len(b))
			}
			return dj
		}
		return class
	case "parseAs":
		class, doc := runParse(b, formats.Format(asStr(op["f"])))
		if doc != nil {
			return DocJ(doc)
		}
		return class
	}
	return "unknown-op"
}

// maxLicences: the longest licence list of any component (third-party decode)
func maxLicences(b []byte) int {
	if !bytes.Contains(b, []byte("licenses")) {
		return 0
	}
	bom := new(cdx.BOM)
	if err := cdx.NewBOMDecoder(bytes.NewReader(b), cdx.BOMFileFormatJSON).Decode(bom); err != nil {
		return 0
	}
	best := 0
	var walk func(c *cdx.Component)
	walk = func(c *cdx.Component) {
		if c.Licenses != nil && len(*c.Licenses) > best {
			best = len(*c.Licenses)
		}
		if c.Components != nil {
			for i := range *c.Components {
				walk(&(*c.Components)[i])
			}
		}
	}
	if bom.Metadata != nil && bom.Metadata.Component != nil {
		walk(bom.Metadata.Component)
	}
	if bom.Components != nil {
		for i := range *bom.Components {
			walk(&(*bom.Components)[i])
		}
	}
	return best
}

// spdxRefsResolve: every relationship endpoint of the input names an element of the input
func spdxRefsResolve(b []byte) (ok bool) {
	defer func() {
		if recover() != nil {
			ok = false
		}
	}()
	doc, err := spdxjson.Read(bytes.NewReader(b))
	if err != nil {
		return false
	}
	ids := map[string]bool{"DOCUMENT": true}
	for _, p := range doc.Packages {
		if p != nil {
			ids[string(p.PackageSPDXIdentifier)] = true
		}
	}
	for _, f := range doc.Files {
		if f != nil {
			ids[string(f.FileSPDXIdentifier)] = true
		}
	}
	for _, r := range doc.Relationships {
		if r == nil || r.RefA.ElementRefID == "" || r.RefB.ElementRefID == "" {
			continue
		}
		if !ids[string(r.RefA.ElementRefID)] || !ids[string(r.RefB.ElementRefID)] || r.RefB.ElementRefID == "DOCUMENT" {
			return false
		}
		if r.RefA.ElementRefID == "DOCUMENT" && !strings.EqualFold(r.Relationship, "DESCRIBES") {
			return false
		}
	}
	return true
}

// spdxIDs: does every element of the document carry an SPDXID (the schema requires one), and is
// none given to two elements?
func spdxIDs(b []byte) (named, unique bool) {
	defer func() {
		if recover() != nil {
			named, unique = false, false
		}
	}()
	doc, err := spdxjson.Read(bytes.NewReader(b))
	if err != nil {
		return false, false
	}
	named, unique = true, true
	seen := map[string]bool{}
	note := func(id string) {
		if id == "" {
			named = false
		}
		if seen[id] {
			unique = false
		}
		seen[id] = true
	}
	for _, p := range doc.Packages {
		if p == nil {
			named = false
			continue
		}
		note(string(p.PackageSPDXIdentifier))
	}
	for _, f := range doc.Files {
		if f == nil {
			named = false
			continue
		}
		note(string(f.FileSPDXIdentifier))
	}
	return named, unique
}

func oracleParse(op M, res any, exec func(M) any) []Finding {
	var out []Finding
	switch asStr(op["op"]) {
	case "sniffPair":
		if r, ok := res.(M); ok {
			src := asStr(op["in"].(M)["src"]) + ", fault " + asStr(op["in"].(M)["fault"])
			switch f, e := asStr(r["format"]), r["err"] == true; {
			case f == "" && !e:
				for _, p := range []string{"C04", "C06"} {
					out = append(out, Finding{p, "format detection (" + src + ") returns neither a format nor an error"})
				}
			case f != "" && e:
				for _, p := range []string{"C04", "C06"} {
					out = append(out, Finding{p, "format detection (" + src + ") returns both a format (" + f + ") and an error"})
				}
			}
			if f, e := asStr(r["fwFormat"]), r["fwErr"] == true; (f != "") == e {
				for _, p := range []string{"C04", "C06"} {
					out = append(out, Finding{p, fmt.Sprintf("format detection on a stream that cannot be rewound (%s) returns format %q and error %v: not exactly one of the two", src, f, e)})
				}
			}
		} else if s, ok := res.(string); ok && strings.HasPrefix(s, "panic") {
			out = append(out, Finding{"C04", "format detection panicked: " + s})
		}
		return out
	case "parseEditParse":
		if r, ok := res.(M); ok {
			src := asStr(op["in"].(M)["src"]) + ", fault " + asStr(op["in"].(M)["fault"])
			if r["siblings"] == true {
				out = append(out, Finding{"C05", "editing one node of a parsed graph (" + src + ") in place changed other nodes of the same graph"})
			}
			if r["second"] != nil {
				out = append(out, Finding{"C05", fmt.Sprintf("the same bytes (%s) parse to a document, and after the caller edited that document to %v", src, r["second"])})
			}
			if r["same"] == false {
				out = append(out, Finding{"C05", "parsing the same bytes (" + src + ") again after the caller edited the first result in place gives another graph"})
			}
		}
		return out
	}
	if s, ok := res.(string); ok && strings.HasPrefix(s, "known-blowup") {
		return []Finding{{"C04", "licence expression grows exponentially: " + s}}
	}
	closure := func(sk M, what string) {
		ids := map[string]bool{}
		for _, n := range asList(sk["nodes"]) {
			id := asStr(asList(n)[0])
			if id == "" {
				out = append(out, Finding{"C05", what + ": a parsed node has an empty identifier"})
			}
			if ids[id] && (what == "cdx" || what == "spdx-unique") {
				out = append(out, Finding{"C05", what + ": parsed identifiers repeat although the input's do not: " + id})
			}
			ids[id] = true
		}
		for _, r := range asList(sk["roots"]) {
			if !ids[asStr(r)] {
				out = append(out, Finding{"C05", fmt.Sprintf("%s: root element %q names no parsed node", what, asStr(r))})
			}
		}
		for _, e := range asList(sk["edges"]) {
			em := e.(M)
			if !ids[asStr(em["src"])] {
				out = append(out, Finding{"C05", fmt.Sprintf("%s: edge source %q names no parsed node", what, asStr(em["src"]))})
			}
			for _, t := range asList(em["tos"]) {
				if !ids[asStr(t)] {
					out = append(out, Finding{"C05", fmt.Sprintf("%s: edge target %q names no parsed node", what, asStr(t))})
				}
			}
		}
	}
	in0, _ := op["in"].(M)
	isCdx := strings.Contains(asStr(in0["src"]), "cdx")
	switch asStr(op["op"]) {
	case "newId":
		if r, ok := res.(M); ok {
			id := asStr(r["id"])
			if id == "" {
				out = append(out, Finding{"C05", "NewNodeIdentifier returned an empty identifier"})
			}
			for _, c := range strings.ReplaceAll(id, "<uuid>", "") {
				if !(c >= 'a' && c <= 'z' || c >= 'A' && c <= 'Z' || c >= '0' && c <= '9' || c == '-' || c == '.') {
					out = append(out, Finding{"C05", fmt.Sprintf("NewNodeIdentifier returned %q with the character %q", id, c)})
					break
				}
			}
			// a usable seed: any non-empty seed that is not one of the two reserved words "auto" / "node"
			// standing before every usable seed (those are prefixes, exactly as spelled)
			usable := false
			for _, sd := range asList(op["seeds"]) {
				var sb []byte
				for _, x := range asList(sd) {
					sb = append(sb, byte(asInt(x)))
				}
				if s := string(sb); s != "" && !(s == "auto" || s == "node") {
					usable = true
				}
			}
			if usable && strings.Contains(id, "<uuid>") {
				out = append(out, Finding{"C05", fmt.Sprintf("NewNodeIdentifier fell back to a random identifier (%s) although a usable seed was given: not deterministic", id)})
			}
			if !strings.Contains(id, "<uuid>") && r["stable"] != true {
				out = append(out, Finding{"C05", "NewNodeIdentifier is not deterministic for usable seeds"})
			}
		}
		return out
	case "layouts":
		if r, ok := res.(M); ok {
			for _, d := range asList(r["diffs"]) {
				out = append(out, Finding{"C05", "layout / repetition / explicit format changes the parse: " + asStr(d)})
			}
			if sk, ok := r["doc"].(M); ok {
				if isCdx {
					closure(sk, "cdx")
				} else if b, err := base64.StdEncoding.DecodeString(asStr(in0["b64"])); err == nil && spdxRefsResolve(b) {
					closure(sk, "spdx")
				}
			}
		}
		return out
	case "parse", "parseAs":
		if sk, ok := res.(M); ok && isCdx && sk["nodes"] != nil {
			closure(sk, "cdx")
		} else if ok && !isCdx && sk["nodes"] != nil && strings.Contains(asStr(in0["src"]), "spdx") {
			// SPDX: closed whenever the input's own references resolve, identifiers as unique as the input's
			if b, err := base64.StdEncoding.DecodeString(asStr(in0["b64"])); err == nil && spdxRefsResolve(b) {
				if named, unique := spdxIDs(b); named {
					what := "spdx"
					if unique {
						what = "spdx-unique"
					}
					closure(sk, what)
				}
			}
		}
	}
	if s, ok := res.(string); ok && s != "err" && s != "unknown-op" && s != "skipped-after-hang" {
		in, _ := op["in"].(M)
		out = append(out, Finding{"C04", fmt.Sprintf("parsing (%s, fault %s) ends with %s", asStr(in["src"]), asStr(in["fault"]), s)})
	}
	return out
}

// graph skeleton of a parsed document: what the parse correspondence compares
func parseCanon(v any) any {
	n := Normalize(v)
	if !isDocJ(n) {
		if s, ok := n.(string); ok && strings.HasPrefix(s, "panic") {
			return "panic"
		}
		return n
	}
	d := CanonDoc(n).(M)
	nl, _ := d["nl"].(M)
	ids := []any{}
	for _, x := range asList(nl["nodes"]) {
		xm := x.(M)
		ids = append(ids, []any{xm["id"], xm["type"]})
	}
	// multiset of (identifier, kind): the attributes are not part of the skeleton, so they must not
	// decide the order either
	sort.SliceStable(ids, func(i, j int) bool { return js(ids[i]) < js(ids[j]) })
	return M{"nodes": ids, "edges": nl["edges"], "roots": nl["roots"]}
}

// parseBatch runs the operations in child processes, 400 at a time: an input that terminates the
// process (fatal stack overflow, os.Exit) costs one child, not the check. When a child dies, its
// operations are re-run one per child to find the one that kills it.
func parseBatch(ops []M) []any { return childBatch("parse", ops) }

// childBatch runs the operations of a stream in child processes, a few hundred at a time; when a
// child ends abnormally (a fatal error of the runtime cannot be recovered from) its operations are
// run again one per process, so that the one that ends the process is known
func childBatch(stream string, ops []M) []any {
	out := make([]any, len(ops))
	const chunk = 400
	type job struct{ lo, hi int }
	var jobs []job
	for lo := 0; lo < len(ops); lo += chunk {
		hi := lo + chunk
		if hi > len(ops) {
			hi = len(ops)
		}
		jobs = append(jobs, job{lo, hi})
	}
	run := func(lo, hi int) ([]any, string) {
		req := M{"op": "batch", "stream": stream, "ops": toAnyList(ops[lo:hi])}
		r, exit := runChild(req)
		l, _ := r.([]any)
		return l, exit
	}
	sem := make(chan struct{}, 8)
	done := make(chan struct{}, len(jobs))
	for _, j := range jobs {
		j := j
		go func() {
			sem <- struct{}{}
			defer func() { <-sem; done <- struct{}{} }()
			l, exit := run(j.lo, j.hi)
			if exit == "" && len(l) == j.hi-j.lo {
				copy(out[j.lo:j.hi], l)
				return
			}
			for i := j.lo; i < j.hi; i++ {
				l1, exit1 := run(i, i+1)
				if exit1 == "" && len(l1) == 1 {
					out[i] = l1[0]
				} else {
					out[i] = "process-ended: " + exit1
				}
			}
		}()
	}
	for range jobs {
		<-done
	}
	return out
}

func toAnyList(ops []M) []any {
	l := make([]any, len(ops))
	for i, o := range ops {
		l[i] = o
	}
	return l
}

var ParseStream = &Stream{
	Name:       "parse",
	Gen:        parseGen,
	Exec:       ExecParse,
	Oracle:     oracleParse,
	Canon:      parseCanon,
	Nontrivial: func(op M) bool { return true },
	OpProps: func(op M) []string {
		if o := asStr(op["op"]); o == "newId" || o == "layouts" || o == "parseEditParse" {
			return []string{"C05"}
		}
		if asStr(op["op"]) == "sniffPair" {
			return []string{"C04", "C06"}
		}
		return []string{"C04", "C05"}
	},
	Reps:      1,
	ExecBatch: parseBatch,
	Enrich:    parseEnrich,
	NoModel: func(op M) bool {
		// the model reproduces the exponential licence string too: keep such inputs from it
		if asStr(op["op"]) == "newId" {
			return false
		}
		if o := asStr(op["op"]); o == "layouts" || o == "sniffPair" || o == "parseEditParse" {
			return true
		}
		in, _ := op["in"].(M)
		b, err := base64.StdEncoding.DecodeString(asStr(in["b64"]))
		return err != nil || maxLicences(b) >= 16
	},
	NoShrink: true,
}
