package hx

import (
	"bytes"
	"crypto/sha256"
	"encoding/json"
	"fmt"
	"reflect"
	"sort"
	"strconv"
	"strings"
	"sync/atomic"
	"time"

	"github.com/protobom/protobom/pkg/formats"
	"github.com/protobom/protobom/pkg/native"
	_ "github.com/protobom/protobom/pkg/native/serializers/beta" // registers the SPDX 3 serializer
	"github.com/protobom/protobom/pkg/sbom"
	"github.com/protobom/protobom/pkg/writer"
	"google.golang.org/protobuf/proto"
)

// The `ser` stream (C07): every registered serializer on arbitrary Document values — generated
// ones with unknown and negative enum numbers, then every single nil fault (nil pointer field,
// nil element of a repeated message field) — in sequences on the shared registry, so that hidden
// state across serializations shows.

// SPDX3JSON: the experimental serializer of pkg/native/serializers/beta registers itself under this
// name when the package is linked in (the harness imports it for that reason)
const SPDX3JSON = formats.Format("text/spdx+json;version=3.0")

var serFormats = []formats.Format{formats.SPDX23JSON, formats.CDX10JSON, formats.CDX11JSON, formats.CDX12JSON,
	formats.CDX13JSON, formats.CDX14JSON, formats.CDX15JSON, SPDX3JSON}

// nilPaths lists the places of a document where a nil can be put: pointer-typed fields and the
// elements of slices of pointers (by path from the document).
func nilPaths(d *sbom.Document) []string {
	var out []string
	var walk func(rv reflect.Value, path string, depth int)
	walk = func(rv reflect.Value, path string, depth int) {
		if depth > 12 {
			return
		}
		switch rv.Kind() {
		case reflect.Ptr:
			if !rv.IsNil() {
				walk(rv.Elem(), path, depth+1)
			}
		case reflect.Struct:
			t := rv.Type()
			for i := 0; i < rv.NumField(); i++ {
				ft := t.Field(i)
				if !ft.IsExported() {
					continue
				}
				f := rv.Field(i)
				p := path + "." + ft.Name
				switch f.Kind() {
				case reflect.Ptr:
					if f.Type().Elem().Kind() == reflect.Struct {
						out = append(out, p)
						if !f.IsNil() {
							walk(f, p, depth+1)
						}
					}
				case reflect.Slice:
					if f.Type().Elem().Kind() == reflect.Ptr {
						for k := 0; k < f.Len(); k++ {
							pk := p + "[" + strconv.Itoa(k) + "]"
							out = append(out, pk)
							walk(f.Index(k), pk, depth+1)
						}
					}
				}
			}
		}
	}
	walk(reflect.ValueOf(d), "Document", 0)
	return out
}

// setNil puts a nil at the path (on a copy made by the caller).
func setNil(d *sbom.Document, path string) bool {
	parts := strings.Split(path, ".")[1:]
	rv := reflect.ValueOf(d).Elem()
	for i, part := range parts {
		name, idx := part, -1
		if j := strings.Index(part, "["); j >= 0 {
			name = part[:j]
			idx, _ = strconv.Atoi(part[j+1 : len(part)-1])
		}
		f := rv.FieldByName(name)
		if !f.IsValid() {
			return false
		}
		last := i == len(parts)-1
		if idx >= 0 {
			if idx >= f.Len() {
				return false
			}
			f = f.Index(idx)
		}
		if last {
			f.Set(reflect.Zero(f.Type()))
			return true
		}
		if f.Kind() != reflect.Ptr || f.IsNil() {
			return false
		}
		rv = f.Elem()
	}
	return false
}

func serDocOf(m M) *sbom.Document {
	if m["absent"] == true || m["doc"] == nil {
		return nil
	}
	d := DocOf(m["doc"])
	if d == nil {
		return nil
	}
	d = proto.Clone(d).(*sbom.Document)
	for _, p := range asList(m["nils"]) {
		setNil(d, asStr(p))
	}
	return d
}

// normalised digest of an output: creation timestamps removed, every array sorted
func outputDigest(b []byte) string {
	var v any
	if err := json.Unmarshal(b, &v); err != nil {
		return "not-json"
	}
	var norm func(x any) any
	norm = func(x any) any {
		switch t := x.(type) {
		case map[string]any:
			o := map[string]any{}
			for k, e := range t {
				if k == "created" || k == "timestamp" {
					continue
				}
				o[k] = norm(e)
			}
			return o
		case []any:
			l := make([]any, len(t))
			for i, e := range t {
				l[i] = norm(e)
			}
			sort.Slice(l, func(i, j int) bool { return js(l[i]) < js(l[j]) })
			return l
		}
		return x
	}
	h := sha256.Sum256([]byte(js(norm(v))))
	return fmt.Sprintf("%x", h[:8])
}

type serResult struct {
	out []byte
	err error
	pan string
}

// once a serialization has hung, its goroutine keeps a core busy for good: the first hang is the
// finding, later operations of the run are not started
var serHung atomic.Bool

func runSer(d *sbom.Document, f formats.Format, indent int, nilRender bool) string {
	return runSerWith(nil, d, f, indent, nilRender)
}

// runSerWith writes through the given writer (a caller that keeps one writer for all its documents),
// or through a new one
func runSerWith(keep *writer.Writer, d *sbom.Document, f formats.Format, indent int, nilRender bool) string {
	if serHung.Load() {
		return "skipped-after-hang"
	}
	ch := make(chan serResult, 1)
	go func() {
		var r serResult
		defer func() {
			if rec := recover(); rec != nil {
				r.pan = fmt.Sprint(rec)
			}
			ch <- r
		}()
		w := keep
		if w == nil {
			w = newSerWriter(f, indent, nilRender)
		}
		buf := nopCloser{&bytes.Buffer{}}
		r.err = w.WriteStream(d, buf)
		r.out = buf.Bytes()
	}()
	select {
	case r := <-ch:
		switch {
		case r.pan != "":
			return "panic: " + r.pan
		case r.err != nil:
			return "err"
		case len(r.out) == 0:
			return "neither"
		}
		return "ok:" + outputDigest(r.out)
	case <-time.After(20 * time.Second):
		serHung.Store(true)
		return "hang"
	}
}

func newSerWriter(f formats.Format, indent int, nilRender bool) *writer.Writer {
	if nilRender {
		return writer.New(writer.WithFormat(f))
	}
	return writer.New(writer.WithFormat(f), writer.WithRenderOptions(&native.RenderOptions{Indent: indent}))
}

func ExecSer(op M) (res any) {
	defer func() {
		// the serializers run under their own recover (runSer); a panic here is a malformed
		// operation made by the shrinker
		if r := recover(); r != nil {
			res = "unknown-op"
		}
	}()
	if asStr(op["op"]) != "serSeq" {
		return "unknown-op"
	}
	out := []any{}
	// "the same document" is the same object: an entry that repeats an earlier one of the sequence
	// is serialized from the very value that was serialized before (a serializer that edits its
	// input shows up as a different output the second time)
	objs := map[string]*sbom.Document{}
	writers := map[string]*writer.Writer{}
	for _, s := range asList(op["docs"]) {
		sm, ok := s.(M)
		if !ok {
			return "unknown-op"
		}
		indent := 0
		if sm["indent"] != nil {
			indent = int(asInt(sm["indent"]))
		}
		f := formats.Format(asStr(op["fmt"]))
		if sm["fmt"] != nil {
			f = formats.Format(asStr(sm["fmt"])) // cross-format histories
		}
		key := js(M{"doc": sm["doc"], "nils": sm["nils"], "absent": sm["absent"]})
		d, seen := objs[key]
		if !seen {
			d = serDocOf(sm)
			objs[key] = d
		}
		var keep *writer.Writer
		if op["oneWriter"] == true {
			// one writer per configuration for the whole sequence
			wk := fmt.Sprintf("%s|%d|%v", f, indent, sm["nilRender"] == true)
			if writers[wk] == nil {
				writers[wk] = newSerWriter(f, indent, sm["nilRender"] == true)
			}
			keep = writers[wk]
		}
		out = append(out, runSerWith(keep, d, f, indent, sm["nilRender"] == true))
	}
	return out
}

func (g *G) serDoc() M {
	var d M
	switch g.Int(4) {
	case 0:
		d = g.spdxDoc(g.Chance(0.5))
	default:
		d = g.cdxTreeDoc(g.Pick2([]int{3, 4, 5}), g.Chance(0.4))
	}
	// unknown and negative enum numbers, empty and duplicate identifiers
	nl := d["nl"].(M)
	nodes := asList(nl["nodes"])
	if len(nodes) > 0 && g.Chance(0.4) {
		n := nodes[g.Int(len(nodes))].(M)
		a, _ := n["a"].(M)
		if a == nil {
			a = M{}
			n["a"] = a
		}
		switch g.Int(6) {
		case 0:
			a["PrimaryPurpose"] = []any{float64(g.Pick2([]int{-1, -7, 29, 9999, 0}))}
		case 1:
			n["type"] = float64(g.Pick2([]int{-1, 2, 77}))
		case 2:
			n["id"] = ""
		case 3:
			n["id"] = nodes[0].(M)["id"]
		case 4:
			a["Hashes"] = []any{[]any{float64(g.Pick2([]int{-3, 0, 99, 1})), "aa"}}
		case 5:
			a["Identifiers"] = []any{[]any{float64(g.Pick2([]int{-1, 0, 42})), "x"}}
		}
	}
	if len(nodes) >= 2 && g.Chance(0.15) {
		// an identifier with the prefix and the flag of generated references but not their shape
		nodes[len(nodes)-1].(M)["id"] = g.Pick([]string{"protobom-auto", "protobom-auto-000000001", "protobom--auto"})
	}
	if len(nodes) >= 3 && g.Chance(0.3) {
		// a dependency edge that repeats a target before naming other ones
		id := func(i int) any { return nodes[i%len(nodes)].(M)["id"] }
		nl["edges"] = append(asList(nl["edges"]), M{"ty": 10.0, "src": id(0), "tos": []any{id(1), id(1), id(2), id(0)}})
	}
	if es := asList(nl["edges"]); len(es) > 0 && g.Chance(0.3) {
		e := es[g.Int(len(es))].(M)
		// an identifier that names nothing: short, and of many bytes in few characters
		ghost := g.Pick([]string{"ghost", "ghost", strings.Repeat("é", 40), strings.Repeat("漢", 25), strings.Repeat("g", 70)})
		switch g.Int(4) {
		case 0:
			e["ty"] = float64(g.Pick2([]int{-1, -44, 45, 9999}))
		case 1:
			e["tos"] = append(asList(e["tos"]), ghost)
		case 2:
			e["src"] = ghost
		case 3:
			e["tos"] = []any{}
		}
	}
	if g.Chance(0.1) {
		nl["roots"] = []any{}
	}
	if g.Chance(0.1) {
		nl["roots"] = append(asList(nl["roots"]), g.Pick([]string{"ghost-root", strings.Repeat("ü", 45)}))
	}
	if g.Chance(0.05) {
		nl["roots"] = []any{g.Pick([]string{strings.Repeat("漢", 30), strings.Repeat("é", 33)})}
	}
	if meta, ok := d["meta"].(M); ok && g.Chance(0.3) {
		meta["tools"] = []any{M{"n": "t", "v": "1"}, M{"n": "u"}}
		meta["authors"] = []any{g.Person(1)}
		meta["types"] = append(asList(meta["types"]), M{"t": float64(g.Pick2([]int{-1, 0, 3, 99}))})
	}
	return d
}

func serGen(g *G, tier string) []M {
	n := 60
	if tier == "thorough" {
		n = 1500
	}
	var ops []M
	// every place an enum number sits, with numbers below, above and between the defined ones, in
	// every format: always, not at random
	enumDoc := func(mut func(app, lib M, edge M)) M {
		app := M{"id": "app", "type": 0.0, "a": M{"Name": "app", "PrimaryPurpose": []any{1.0}}}
		lib := M{"id": "lib", "type": 0.0, "a": M{"Name": "lib", "Hashes": []any{[]any{3.0, "aa"}}, "Identifiers": []any{[]any{1.0, "pkg:npm/lib@1"}},
			"ExternalReferences": []any{M{"t": 4.0, "u": "http://a"}}}}
		edge := M{"ty": 5.0, "src": "app", "tos": []any{"lib"}}
		mut(app, lib, edge)
		return M{"meta": M{"id": "urn:uuid:1", "version": "1", "name": "enum", "types": []any{}}, "nl": M{"nodes": []any{app, lib}, "edges": []any{edge}, "roots": []any{"app"}}}
	}
	for _, v := range []float64{-1, -7, 0, 29, 45, 77, 9999, -2147483648, 2147483647} {
		for k, mut := range []func(app, lib, edge M){
			func(app, lib, edge M) { app["a"].(M)["PrimaryPurpose"] = []any{v} },
			func(app, lib, edge M) { lib["a"].(M)["PrimaryPurpose"] = []any{1.0, v} },
			func(app, lib, edge M) { lib["type"] = v },
			func(app, lib, edge M) { lib["a"].(M)["Hashes"] = []any{[]any{v, "aa"}} },
			func(app, lib, edge M) { lib["a"].(M)["Identifiers"] = []any{[]any{v, "x"}} },
			func(app, lib, edge M) { edge["ty"] = v },
			func(app, lib, edge M) {
				lib["a"].(M)["ExternalReferences"] = []any{M{"t": v, "u": "http://a", "h": []any{[]any{v, "bb"}}}}
			},
		} {
			d := enumDoc(mut)
			f := serFormats[len(ops)%len(serFormats)]
			docs := []any{M{"doc": d, "nils": []any{}, "indent": 2.0}}
			ops = append(ops, M{"op": "serSeq", "fmt": string(f), "docs": docs})
			if tier == "thorough" || k < 3 {
				for _, f2 := range serFormats {
					if f2 != f {
						ops = append(ops, M{"op": "serSeq", "fmt": string(f2), "docs": docs})
					}
				}
			}
		}
	}
	// document types: every number the enum defines, the one CycloneDX has no phase for, and numbers
	// no release defines, alone and next to a named entry, in every format
	for _, v := range []float64{0, 1, 6, 8, 9, 42, 99, 2147483647} {
		d := enumDoc(func(app, lib, edge M) {})
		d["meta"].(M)["types"] = []any{M{"t": v, "n": "custom"}, M{"n": "named", "d": "text"}}
		for _, f := range serFormats {
			ops = append(ops, M{"op": "serSeq", "fmt": string(f), "docs": []any{M{"doc": d, "nils": []any{}, "indent": 2.0}, M{"doc": d, "nils": []any{}, "indent": 2.0}}})
		}
	}
	// nodes without identifier, without name, without both (one and two of them): twice in a
	// sequence, in every format
	for k := 0; k < 4; k++ {
		d := enumDoc(func(app, lib, edge M) {
			if k%2 == 0 {
				lib["id"] = ""
				edge["tos"] = []any{""}
			}
			if k >= 1 {
				delete(lib["a"].(M), "Name")
			}
			if k == 3 {
				lib["id"] = ""
				edge["tos"] = []any{}
			}
		})
		if k == 3 {
			nl := d["nl"].(M)
			nl["nodes"] = append(asList(nl["nodes"]), M{"id": "", "type": 1.0, "a": M{}})
		}
		for _, f := range serFormats {
			ops = append(ops, M{"op": "serSeq", "fmt": string(f), "docs": []any{M{"doc": d, "nils": []any{}, "indent": 2.0}, M{"doc": d, "nils": []any{}, "indent": 2.0}}})
		}
	}
	// one document value written in every format in turn and six times in each CycloneDX version: a
	// dependency edge that repeats a target before naming another, a node with both CPE forms, two
	// hashes and two identifiers of other kinds (what a serializer reads from maps, or tidies up in
	// the document itself, shows as an output that depends on what was written before)
	{
		dia3 := M{"meta": M{"id": "urn:uuid:1", "version": "1", "name": "dia3", "types": []any{}}, "nl": M{
			"nodes": []any{M{"id": "app", "type": 0.0, "a": M{"Name": "app", "PrimaryPurpose": []any{1.0}}},
				M{"id": "lib", "type": 0.0, "a": M{"Name": "lib", "Identifiers": []any{[]any{2.0, "cpe:/a:x:y"}, []any{3.0, "cpe:2.3:a:x:y:*:*:*:*:*:*:*:*"}, []any{1.0, "pkg:npm/lib@1"}, []any{4.0, "gitoid:blob:sha1:ab"}},
					"Hashes": []any{[]any{2.0, "aa"}, []any{3.0, "bb"}, []any{5.0, "cc"}}}},
				M{"id": "extra", "type": 0.0, "a": M{"Name": "extra"}}},
			"edges": []any{M{"ty": 5.0, "src": "app", "tos": []any{"lib", "extra"}}, M{"ty": 10.0, "src": "app", "tos": []any{"lib", "lib", "extra"}},
				M{"ty": 10.0, "src": "lib", "tos": []any{"extra", "extra"}}},
			"roots": []any{"app"}}}
		in3 := func(ff formats.Format) M { return M{"doc": dia3, "nils": []any{}, "indent": 2.0, "fmt": string(ff)} }
		ops = append(ops, M{"op": "serSeq", "fmt": string(formats.SPDX23JSON), "docs": []any{in3(formats.SPDX23JSON), in3(formats.CDX15JSON), in3(formats.SPDX23JSON),
			in3(formats.CDX14JSON), in3(formats.CDX13JSON), in3(formats.SPDX23JSON), in3(SPDX3JSON), in3(formats.CDX15JSON)}})
		for _, ff := range []formats.Format{formats.CDX13JSON, formats.CDX14JSON, formats.CDX15JSON, formats.SPDX23JSON, SPDX3JSON} {
			ops = append(ops, M{"op": "serSeq", "fmt": string(ff), "docs": []any{in3(ff), in3(ff), in3(ff), in3(ff), in3(ff), in3(ff), in3(ff), in3(ff)}})
		}
	}
	// document types that are there and say nothing, or only describe: alone and after a typed one
	for _, types := range [][]any{{M{}}, {M{"d": "only a description"}}, {M{"t": 1.0}, M{}}, {M{}, M{"n": "named"}}} {
		d := enumDoc(func(app, lib, edge M) {})
		d["meta"].(M)["types"] = types
		for _, f := range serFormats {
			ops = append(ops, M{"op": "serSeq", "fmt": string(f), "docs": []any{M{"doc": d, "nils": []any{}, "indent": 2.0}, M{"doc": d, "nils": []any{}, "indent": 2.0}}})
		}
	}
	for i := 0; i < n; i++ {
		good := g.serDoc()
		gd := DocOf(good)
		paths := nilPaths(gd)
		// a failing document for the middle of the sequences: dangling edge + no root
		bad := g.serDoc()
		bnl := bad["nl"].(M)
		bnl["edges"] = append(asList(bnl["edges"]), M{"ty": 5.0, "src": asStr(asList(bnl["nodes"])[0].(M)["id"]), "tos": []any{"ghost"}},
			M{"ty": 10.0, "src": "ghost2", "tos": []any{"ghost3"}})
		f := serFormats[g.Int(len(serFormats))]
		mk := func(d M, nils ...string) M {
			nl := []any{}
			for _, p := range nils {
				nl = append(nl, p)
			}
			return M{"doc": d, "nils": nl, "indent": float64(g.Pick2([]int{0, 2, 4}))}
		}
		// history: good, bad, good again; and the same with the document absent / parts absent
		ops = append(ops, M{"op": "serSeq", "fmt": string(f), "docs": []any{mk(good), mk(bad), mk(good), M{"absent": true}, mk(good, "Document.Metadata"), mk(good, "Document.NodeList"), mk(good)}})
		for _, f2 := range serFormats {
			if f2 != f && g.Chance(0.3) {
				ops = append(ops, M{"op": "serSeq", "fmt": string(f2), "docs": []any{mk(good), mk(bad), mk(good)}})
			}
		}
		// every single nil fault of this document, in one format each (all formats in thorough)
		for _, p := range paths {
			fs := []formats.Format{serFormats[g.Int(len(serFormats))]}
			if tier == "thorough" || g.Chance(0.3) {
				fs = []formats.Format{formats.SPDX23JSON, formats.CDX14JSON, formats.CDX15JSON}
			}
			for _, ff := range fs {
				ops = append(ops, M{"op": "serSeq", "fmt": string(ff), "docs": []any{mk(good, p), mk(good)}})
			}
		}
		// double faults
		for k := 0; k < 6 && len(paths) > 1; k++ {
			p1, p2 := paths[g.Int(len(paths))], paths[g.Int(len(paths))]
			ops = append(ops, M{"op": "serSeq", "fmt": string(serFormats[g.Int(len(serFormats))]), "docs": []any{mk(good, p1, p2)}})
		}
		// nil render options
		ops = append(ops, M{"op": "serSeq", "fmt": string(f), "docs": []any{M{"doc": good, "nils": []any{}, "nilRender": true}}})
		// cross-format history over one document value: what a format gives must not depend on the
		// formats the same value was written in before
		if i%2 == 0 {
			in := func(ff formats.Format) M { m := mk(good); m["indent"] = 2.0; m["fmt"] = string(ff); return m }
			ops = append(ops, M{"op": "serSeq", "fmt": string(formats.SPDX23JSON), "docs": []any{in(formats.SPDX23JSON), in(formats.CDX15JSON), in(formats.SPDX23JSON),
				in(formats.CDX14JSON), in(formats.CDX15JSON), in(formats.SPDX23JSON), in(formats.CDX14JSON)}})
		}
		if i%4 == 0 {
			// a node contained in two others (and one on a containment cycle), serialized six times:
			// the placement must not depend on anything but the document
			dia := M{"meta": M{"id": "urn:uuid:1", "version": "1"}, "nl": M{
				"nodes": []any{M{"id": "r", "type": 0.0, "a": M{}}, M{"id": "pa", "type": 0.0, "a": M{}}, M{"id": "pb", "type": 0.0, "a": M{}},
					M{"id": "shared", "type": 0.0, "a": M{}}, M{"id": "c1", "type": 0.0, "a": M{}}, M{"id": "c2", "type": 0.0, "a": M{}}},
				"edges": []any{M{"ty": 5.0, "src": "r", "tos": []any{"pa", "pb"}}, M{"ty": 5.0, "src": "pa", "tos": []any{"shared"}},
					M{"ty": 5.0, "src": "pb", "tos": []any{"shared", "c1"}}, M{"ty": 5.0, "src": "c1", "tos": []any{"c2"}}, M{"ty": 5.0, "src": "c2", "tos": []any{"c1"}}},
				"roots": []any{"r"}}}
			for _, ff := range []formats.Format{formats.CDX14JSON, formats.CDX15JSON, formats.SPDX23JSON} {
				ops = append(ops, M{"op": "serSeq", "fmt": string(ff), "docs": []any{mk(dia), mk(dia), mk(dia), mk(dia), mk(dia), mk(dia)}})
			}
			// the same shape with the nodes stored in an order that is not the order of their identifiers,
			// written in every format in turn, the experimental one included: one value, one output per format
			dia2 := M{"meta": M{"id": "urn:uuid:1", "version": "1"}, "nl": M{
				"nodes": []any{M{"id": "root", "type": 0.0, "a": M{}}, M{"id": "zeta", "type": 0.0, "a": M{}}, M{"id": "alpha", "type": 0.0, "a": M{}},
					M{"id": "shared", "type": 0.0, "a": M{}}},
				"edges": []any{M{"ty": 5.0, "src": "root", "tos": []any{"zeta", "alpha"}}, M{"ty": 5.0, "src": "zeta", "tos": []any{"shared"}},
					M{"ty": 5.0, "src": "alpha", "tos": []any{"shared"}}},
				"roots": []any{"root"}}}
			in2 := func(ff formats.Format) M { m := mk(dia2); m["indent"] = 2.0; m["fmt"] = string(ff); return m }
			ops = append(ops, M{"op": "serSeq", "fmt": string(formats.CDX15JSON), "docs": []any{in2(formats.CDX15JSON), in2(SPDX3JSON), in2(formats.CDX15JSON),
				in2(formats.SPDX23JSON), in2(SPDX3JSON), in2(formats.CDX14JSON), in2(formats.SPDX23JSON)}})
		}
	}
	// every third history goes through one writer per format (same indentation for all its entries)
	// instead of a new writer per document
	for i, op := range ops {
		if i%3 != 1 {
			continue
		}
		ds := asList(op["docs"])
		if len(ds) < 2 {
			continue
		}
		var indent any
		for _, d := range ds {
			if dm, ok := d.(M); ok && dm["indent"] != nil {
				if indent == nil {
					indent = dm["indent"]
				}
				dm["indent"] = indent
			}
		}
		op["oneWriter"] = true
	}
	return ops
}

func oracleSer(op M, res any, exec func(M) any) []Finding {
	var out []Finding
	add := func(f string, a ...any) { out = append(out, Finding{"C07", fmt.Sprintf(f, a...)}) }
	if s, ok := res.(string); ok && strings.HasPrefix(s, "process-ended") {
		add("serializing this sequence ended the process (%s): a fatal error no caller can recover from", s)
		return out
	}
	if s, ok := res.(string); ok {
		if strings.HasPrefix(s, "panic") {
			add("serializing panicked outside the watchdog: %s", s)
		}
		return out
	}
	rl := asList(res)
	docs := asList(op["docs"])
	first := map[string]string{}
	for i, r := range rl {
		s := asStr(r)
		if i >= len(docs) {
			break
		}
		dm, _ := docs[i].(M)
		if s == "skipped-after-hang" {
			continue
		}
		if strings.HasPrefix(s, "panic") || s == "hang" || s == "neither" {
			add("serializer %s on document %d of the sequence (nil faults %v): %s", asStr(op["fmt"]), i, dm["nils"], s)
			continue
		}
		key := js(dm)
		if prev, seen := first[key]; seen {
			if prev != s {
				add("the same document serialized twice in one sequence gives %s then %s (format %s)", prev, s, asStr(op["fmt"]))
			}
		} else {
			first[key] = s
		}
	}
	// independent of history: each document alone gives what it gave inside the sequence
	if len(docs) > 1 {
		for i, d := range docs {
			if i >= len(rl) {
				break
			}
			alone := asList(exec(M{"op": "serSeq", "fmt": op["fmt"], "docs": []any{d}}))
			if len(alone) == 1 && asStr(alone[0]) != asStr(rl[i]) && !strings.HasPrefix(asStr(rl[i]), "panic") &&
				asStr(alone[0]) != "skipped-after-hang" && asStr(rl[i]) != "skipped-after-hang" && asStr(rl[i]) != "hang" {
				add("document %d of the sequence gives %s after earlier serializations and %s alone (format %s)", i, asStr(rl[i]), asStr(alone[0]), asStr(op["fmt"]))
			}
		}
	}
	return out
}

var SerStream = &Stream{
	Name:       "ser",
	Gen:        serGen,
	Exec:       ExecSer,
	Oracle:     oracleSer,
	Canon:      func(v any) any { return Normalize(v) },
	Nontrivial: func(op M) bool { return true },
	OpProps:    func(op M) []string { return []string{"C07"} },
	Reps:       1,
	NoModel:    func(op M) bool { return true },
	// in child processes: a serializer that ends the process (stack exhaustion, concurrent map
	// writes) must cost one finding, not the run
	ExecBatch: func(ops []M) []any { return childBatch("ser", ops) },
}
