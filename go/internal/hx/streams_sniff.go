package hx

import (
	"bufio"
	"bytes"
	"encoding/base64"
	"encoding/json"
	"fmt"
	"io"
	"os"
	"sort"
	"strings"

	"github.com/protobom/protobom/pkg/formats"
	"github.com/protobom/protobom/pkg/reader"
)

// The `sniff` stream (C06): format detection with the real formats.Sniffer on one sniffer per
// sequence of inputs, the Lean model on each input alone. The inputs come with what the two
// third-party readers the sniffer uses make of them (encoding/json into the three-field
// declaration struct; bufio.Scanner lines), computed here independently of protobom.

type declStruct struct {
	BomFormat       string `json:"bomFormat"`
	CDXSpecVersion  string `json:"specVersion"`
	SPDXSpecVersion string `json:"spdxVersion"`
}

func declOfBytes(b []byte) any {
	var d declStruct
	if err := json.NewDecoder(bytes.NewReader(b)).Decode(&d); err != nil {
		return nil
	}
	return []any{d.BomFormat, d.CDXSpecVersion, d.SPDXSpecVersion}
}

func linesOfBytes(b []byte) []any {
	sc := bufio.NewScanner(bytes.NewReader(b))
	sc.Split(bufio.ScanLines)
	out := []any{}
	for sc.Scan() {
		out = append(out, strings.ToValidUTF8(sc.Text(), "�"))
	}
	return out
}

func sniffInput(b []byte, src, want string) M { return sniffInputAt(b, src, want, 0) }

// sniffInputAt: the stream is handed over at offset `start`: the first (JSON) attempt sees what
// follows that offset, the line attempt starts over from the beginning; afterwards the stream is
// at its start all the same
func sniffInputAt(b []byte, src, want string, start int) M {
	if start < 0 || start > len(b) {
		start = 0
	}
	m := M{"b64": base64.StdEncoding.EncodeToString(b), "lines": linesOfBytes(b), "src": src}
	if start > 0 {
		m["start"] = float64(start)
		m["src"] = fmt.Sprintf("%s@%d", src, start)
	}
	if d := declOfBytes(b[start:]); d != nil {
		m["decl"] = d
	}
	if want != "" {
		m["want"] = want
	}
	return m
}

// recordingSeeker logs reads (collapsed) and seeks on the stream handed to the sniffer.
var devNull *os.File

// forwardOnly is a stream that can be read and not rewound (a pipe, a socket)
type forwardOnly struct{ r io.Reader }

func (f *forwardOnly) Read(p []byte) (int, error) { return f.r.Read(p) }
func (f *forwardOnly) Seek(int64, int) (int64, error) {
	return 0, fmt.Errorf("illegal seek")
}

// sniffForwardOnly: detection on a stream that cannot be rewound still answers with exactly one of
// a format and an error
func sniffForwardOnly(b []byte) M {
	// the library reports the failed rewind on standard output: not part of the harness's output
	if devNull == nil {
		devNull, _ = os.OpenFile(os.DevNull, os.O_WRONLY, 0)
	}
	if devNull != nil {
		saved := os.Stdout
		os.Stdout = devNull
		defer func() { os.Stdout = saved }()
	}
	f, err := (&formats.Sniffer{}).SniffReader(&forwardOnly{bytes.NewReader(b)})
	return M{"format": string(f), "err": err != nil}
}

type recordingSeeker struct {
	r  *bytes.Reader
	ev []any
}

func (s *recordingSeeker) Read(p []byte) (int, error) {
	if len(s.ev) == 0 || s.ev[len(s.ev)-1] != "read" {
		s.ev = append(s.ev, "read")
	}
	return s.r.Read(p)
}

func (s *recordingSeeker) Seek(off int64, whence int) (int64, error) {
	if off == 0 && whence == io.SeekStart {
		s.ev = append(s.ev, "seek0")
	} else {
		s.ev = append(s.ev, fmt.Sprintf("seek(%d,%d)", off, whence))
	}
	return s.r.Seek(off, whence)
}

// reencodings of a JSON document: same value, different layout
func reencode(b []byte, how int) []byte {
	var v any
	dec := json.NewDecoder(bytes.NewReader(b))
	dec.UseNumber()
	if err := dec.Decode(&v); err != nil {
		return b
	}
	switch how {
	case 1: // compact, members sorted
		out, _ := json.Marshal(v)
		return out
	case 2: // members in reverse order, odd whitespace
		var buf bytes.Buffer
		writeReversed(&buf, v, false)
		return buf.Bytes()
	case 4: // the same with every string fully \u-escaped
		var buf bytes.Buffer
		writeReversed(&buf, v, true)
		return buf.Bytes()
	case 3: // tabs
		out, _ := json.MarshalIndent(v, "\t", "\t\t")
		return append([]byte("\n\n  "), out...)
	}
	return b
}

func escAll(s string) string {
	var b strings.Builder
	b.WriteByte('"')
	for _, r := range s {
		if r > 0xFFFF {
			r -= 0x10000
			fmt.Fprintf(&b, "\\u%04x\\u%04x", 0xD800+(r>>10), 0xDC00+(r&0x3FF))
		} else {
			fmt.Fprintf(&b, "\\u%04x", r)
		}
	}
	b.WriteByte('"')
	return b.String()
}

func writeReversed(b *bytes.Buffer, v any, esc bool) {
	str := func(s string) string {
		if esc {
			return escAll(s)
		}
		o, _ := json.Marshal(s)
		return string(o)
	}
	switch x := v.(type) {
	case map[string]any:
		keys := make([]string, 0, len(x))
		for k := range x {
			keys = append(keys, k)
		}
		sort.Sort(sort.Reverse(sort.StringSlice(keys)))
		b.WriteString("{ \r\n")
		for i, k := range keys {
			if i > 0 {
				b.WriteString(" ,\t")
			}
			b.WriteString(str(k))
			b.WriteString(" :  ")
			writeReversed(b, x[k], esc)
		}
		b.WriteString("\n}")
	case []any:
		b.WriteString("[")
		for i, e := range x {
			if i > 0 {
				b.WriteString(",\n")
			}
			writeReversed(b, e, esc)
		}
		b.WriteString("]")
	case string:
		b.WriteString(str(x))
	case json.Number:
		b.WriteString(x.String())
	default:
		o, _ := json.Marshal(x)
		b.Write(o)
	}
}

var roundTripFormats = []formats.Format{formats.SPDX23JSON, formats.CDX13JSON, formats.CDX14JSON, formats.CDX15JSON}

var allFormatStrings = []string{
	string(formats.SPDX23JSON), string(formats.SPDX22JSON), string(formats.SPDX23TV), string(formats.SPDX22TV),
	string(formats.CDX10JSON), string(formats.CDX11JSON), string(formats.CDX12JSON), string(formats.CDX13JSON),
	string(formats.CDX14JSON), string(formats.CDX15JSON), "", "cyclonedx", "spdx", "text", "json", "xml",
}

func (g *G) nearMissFormat() string {
	switch g.Int(6) {
	case 0:
		return g.Pick(allFormatStrings)
	case 1:
		return g.Pick(allFormatStrings) + g.Pick([]string{";version=", ";version=1.2.3", ".", "+json", ";version=9", "x"})
	case 2:
		return g.Pick([]string{"a", "text/", "application/vnd.", ";version=", "+"}) + g.Pick(allFormatStrings)
	case 3:
		return g.Pick([]string{"text/spdx+json", "text/spdx+text;version=", "application/vnd.cyclonedx+xml;version=1.4",
			"a;version=1.2;version=3.4", ";version=..", ";version=1.", ";version=.5", "jsontext", "textjson", "cyclonedxspdx", "spdxcyclonedx"})
	case 4:
		s := g.Pick(allFormatStrings)
		if len(s) > 2 {
			i := g.Int(len(s))
			return s[:i] + s[i+1:]
		}
		return s
	default:
		return strings.ToUpper(g.Pick(allFormatStrings))
	}
}

// byte strings around the declarations: near misses, wrong types, duplicates, tag-value, garbage
func (g *G) sniffBytes() ([]byte, string) {
	ver := func() string {
		return g.Pick([]string{"1.3", "1.4", "1.5", "1.2", "1.6", "1.50", " 1.4", "1.4 ", "", "15", "2.3",
			// numerically equal to a readable version, textually not
			"1.04", "01.4", "+1.4", "1.+5", "1.4e0", "1.3.0", "１.４"})
	}
	sv := func() string {
		return g.Pick([]string{"SPDX-2.3", "SPDX-2.2", "SPDX-2.1", "SPDX-3.0", "spdx-2.3", "SPDX-2.3 ", "2.3", "", "SPDX-2.30"})
	}
	bf := func() string {
		return g.Pick([]string{"CycloneDX", "cyclonedx", "CYCLONEDX", "CycloneDx", "CycloneDX ", "Cyclone", "", "SPDX", "cyclonedX", "ſpdx", "CYCLONEDXK"})
	}
	q := func(s string) string { b, _ := json.Marshal(s); return string(b) }
	switch g.Int(13) {
	case 0:
		return []byte(fmt.Sprintf(`{"bomFormat":%s,"specVersion":%s}`, q(bf()), q(ver()))), "cdx-decl"
	case 1:
		return []byte(fmt.Sprintf(`{"spdxVersion":%s,"SPDXID":"SPDXRef-DOCUMENT"}`, q(sv()))), "spdx-decl"
	case 2:
		return []byte(fmt.Sprintf(`{"bomFormat":%s,"specVersion":%s,"spdxVersion":%s}`, q(bf()), q(ver()), q(sv()))), "both-decl"
	case 3: // wrong types / nulls / duplicates / case-variant keys
		return []byte(g.Pick([]string{
			`{"bomFormat":1,"specVersion":"1.4"}`, `{"bomFormat":"CycloneDX","specVersion":1.4}`, `{"bomFormat":null,"specVersion":"1.4"}`,
			`{"bomFormat":"CycloneDX","specVersion":null}`, `{"spdxVersion":null}`, `{"spdxVersion":["SPDX-2.3"]}`,
			`{"bomFormat":"CycloneDX","specVersion":"1.3","specVersion":"1.5"}`, `{"BOMFORMAT":"CycloneDX","SPECVERSION":"1.4"}`,
			`{"SpdxVersion":"SPDX-2.3"}`, `{"spdxVersion":"SPDX-2.2","spdxVersion":"SPDX-2.3"}`,
			`{"metadata":{"bomFormat":"CycloneDX","specVersion":"1.4"}}`, `[{"bomFormat":"CycloneDX","specVersion":"1.4"}]`,
			`"SPDX-2.3"`, `null`, ` null` + "\n", "\n\tnull", `null {"bomFormat":"CycloneDX","specVersion":"1.4"}`, `{}`, `[]`, `12`, `true`, `{"bomFormat":"CycloneDX","specVersion":"1.4"} trailing`,
			`{"bomFormat":"CycloneDX","specVersion":"1.4"}{"spdxVersion":"SPDX-2.3"}`,
		})), "json-fault"
	case 4: // truncated / broken JSON containing markers
		return []byte(g.Pick([]string{
			`{"spdxVersion":"SPDX-2.3",`, `{"spdxVersion": "SPDX-2.2"`, "{\n \"spdxVersion\":\n \"SPDX-2.3\"\n", `{"bomFormat":"CycloneDX","specVersion":"1.4"`,
			"{'spdxVersion': 'SPDX-2.3'}", "{'spdxVersion':\n'SPDX-2.2'}", `{"a": "SPDX-2.3"`, "SPDXVersion:\n{\"x\": \"SPDX-2.3\"",
		})), "broken-json"
	case 5, 6: // tag-value
		lines := []string{}
		for i := 0; i < g.Int(4); i++ {
			lines = append(lines, g.Pick([]string{"# comment", "", "DataLicense: CC0-1.0", "PackageName: x", "Text: 'SPDX-2.1'", "  "}))
		}
		lines = append(lines, g.Pick([]string{"SPDXVersion: SPDX-2.3", "SPDXVersion: SPDX-2.2", "SPDXVersion: SPDX-2.1", "SPDXVersion:", "SPDXVersion: SPDX-2.30",
			"SPDXVersion: spdx-2.3", "xSPDXVersion: SPDX-2.2", "SPDXVersion SPDX-2.3", "SPDXVersion:SPDX-2.2SPDX-2.3", "spdxversion: SPDX-2.3",
			// values cut short at every position of the version text
			"SPDXVersion: ", "SPDXVersion: S", "SPDXVersion: SPDX", "SPDXVersion: SPDX-", "SPDXVersion: SPDX-2", "SPDXVersion: SPDX-2.", "SPDXVersion: 2.3",
			"# SPDXVersion: ?", "SPDXVersion:\tSPDX-2.3", "SPDXVersion: SPDX-3",
			// text in front of the tag whose length changes under case mapping, and bytes that are not text
			"ȺȺȺȺȺȺȺȺȺȺȺȺ SPDXVersion: SPDX-2.3", "ȺȾ SPDXVersion:", "\xff\xfe\xff\xfe\xff\xfe\xff\xfeSPDXVersion: SPDX-2.2", "İİİİİİİİİİ SPDXVersion: SPDX-2.3", "ẞẞẞẞ SPDXVERSION: spdx-2.2"}))
		for i := 0; i < g.Int(4); i++ {
			lines = append(lines, g.Pick([]string{"Comment: \"SPDX-2.3\"", "Comment: 'SPDX-2.2'", "SPDX-2.3", "DocumentName: y", "Comment: \"SPDX-2.1\"", "SPDXVersion: SPDX-2.2"}))
		}
		sep := g.Pick([]string{"\n", "\r\n", "\n"})
		return []byte(strings.Join(lines, sep)), "tag-value"
	case 7: // long lines and large inputs around the scanner's token limit and the buffered reads
		n := g.Pick2([]int{10, 4095, 4096, 4097, 65535, 65536, 70000})
		pad := strings.Repeat(g.Pick([]string{"a", " ", "\""}), n)
		return []byte(g.Pick([]string{pad + "\nSPDXVersion: SPDX-2.3\n", "SPDXVersion: SPDX-2.3 " + pad, pad + "SPDXVersion: SPDX-2.2",
			"x\n" + pad + "\nSPDXVersion: SPDX-2.3", `{"bomFormat":"CycloneDX","specVersion":"1.5","x":"` + strings.Repeat("a", n) + `"}`})), "long"
	case 8: // binary
		n := g.Int(40)
		b := make([]byte, n)
		for i := range b {
			b[i] = byte(g.Int(256))
		}
		return b, "binary"
	case 9:
		return []byte(g.Pick([]string{"", " ", "\n", "\xff\xfe", "<?xml version=\"1.0\"?><bom xmlns=\"http://cyclonedx.org/schema/bom/1.4\"/>", "\xef\xbb\xbf{\"spdxVersion\":\"SPDX-2.3\"}"})), "tiny"
	case 10: // state-priming lines: a tag without a version, then a bare quoted version
		return []byte(g.Pick([]string{"SPDXVersion: SPDX-2.1\n", "SPDXVersion: none", "prose mentioning \"SPDX-2.3\" in quotes", "see 'SPDX-2.2' here",
			"SPDXVersion: x\nquoted \"SPDX-2.3\"", "quoted \"SPDX-2.3\"\nSPDXVersion: y", "{\"spdxVersion\": \n\"SPDX-2.3\""})), "priming"
	case 11:
		// valid JSON whose declaration is unsupported or missing while a string value quotes a
		// tag-value declaration: the declaration decides, the text inside a value does not
		inner := g.Pick([]string{"SPDXVersion: SPDX-2.3", "SPDXVersion: SPDX-2.2", "x\nSPDXVersion: SPDX-2.3\ny"})
		return []byte(g.Pick([]string{
			fmt.Sprintf(`{"bomFormat":"CycloneDX","specVersion":%s,"components":[{"description":%s}]}`, q(g.Pick([]string{"1.6", "1.2", "2.0", ""})), q(inner)),
			fmt.Sprintf("{\n \"spdxVersion\": \"SPDX-2.1\",\n \"comment\": %s\n}", q(inner)),
			fmt.Sprintf(`{"name":"no declaration","comment":%s}`, q(inner)),
			fmt.Sprintf("[\n%s\n]", q(inner)),
		})), "json-quoting-tag-value"
	default:
		return []byte(fmt.Sprintf(`{"specVersion":%s,"bomFormat":%s,"components":[]}`, q(ver()), q(bf()))), "cdx-decl-reordered"
	}
}

func sniffGen(g *G, tier string) []M {
	n := 500
	if tier == "thorough" {
		n = 20000
	}
	var ops []M
	for _, f := range allFormatStrings {
		ops = append(ops, M{"op": "fmtAcc", "f": f})
		if ff := formats.Format(f); !(ff.Type() == formats.CDXFORMAT && ff.Minor() < "3") {
			// the declaration contract matters for the formats detection lists (1.0–1.2 are not)
			ops = append(ops, M{"op": "declOf", "f": f})
		}
	}
	for i := 0; i < n; i++ {
		switch g.Int(6) {
		case 0:
			ops = append(ops, M{"op": "fmtAcc", "f": g.nearMissFormat()})
		default:
			k := 1 + g.Int(4)
			inputs := []any{}
			for j := 0; j < k; j++ {
				if g.Chance(0.35) {
					// the writer's output for a generated document, in a re-encoding
					f := roundTripFormats[g.Int(len(roundTripFormats))]
					var d M
					if f == formats.SPDX23JSON {
						d = g.spdxDoc(g.Chance(0.7))
					} else {
						d = g.cdxTreeDoc(g.Pick2([]int{3, 4, 5}), g.Chance(0.7))
					}
					indent := g.Pick2([]int{0, 1, 2, 4, 7})
					b, err := WriteDoc(DocOf(d), f, indent)
					if err != nil {
						continue
					}
					how := g.Int(5)
					inputs = append(inputs, sniffInput(reencode(b, how), fmt.Sprintf("writer:%s:indent%d:reenc%d", f, indent, how), string(f)))
				} else {
					b, src := g.sniffBytes()
					if g.Chance(0.2) && len(b) > 0 {
						inputs = append(inputs, sniffInputAt(b, src, "", g.Pick2([]int{1, 7, len(b) / 2, len(b)})))
					} else {
						inputs = append(inputs, sniffInput(b, src, ""))
					}
				}
			}
			if len(inputs) > 0 {
				ops = append(ops, M{"op": "sniffSeq", "inputs": inputs})
				if g.Chance(0.3) {
					// the same inputs through the reader: where nothing is detected, or nothing is registered
					// for what is detected, the caller's stream is where it was
					ops = append(ops, M{"op": "readerPos", "inputs": inputs})
				}
				if g.Chance(0.2) {
					ops = append(ops, M{"op": "sniffForward", "inputs": inputs})
				}
			}
		}
	}
	return ops
}

func ExecSniff(op M) (res any) {
	defer func() {
		if r := recover(); r != nil {
			res = fmt.Sprintf("panic: %v", r)
		}
	}()
	switch asStr(op["op"]) {
	case "fmtAcc":
		f := formats.Format(asStr(op["f"]))
		return []any{f.Type(), f.Version(), f.Major(), f.Minor(), f.Encoding()}
	case "declOf":
		f := formats.Format(asStr(op["f"]))
		b, err := WriteDoc(DocOf(M{"meta": M{"id": "urn:x", "version": "1"}, "nl": M{"nodes": []any{M{"id": "r", "type": 0.0, "a": M{}}}, "edges": []any{}, "roots": []any{"r"}}}), f, 2)
		if err != nil {
			return "unwritable"
		}
		if d := declOfBytes(b); d != nil {
			return d
		}
		return "undecodable"
	case "sniffForward":
		out := []any{}
		for _, i := range asList(op["inputs"]) {
			im, ok := i.(M)
			if !ok {
				return "unknown-op"
			}
			b, err := base64.StdEncoding.DecodeString(asStr(im["b64"]))
			if err != nil {
				return "unknown-op"
			}
			out = append(out, sniffForwardOnly(b))
		}
		return out
	case "readerPos":
		out := []any{}
		for _, i := range asList(op["inputs"]) {
			im, ok := i.(M)
			if !ok {
				return "unknown-op"
			}
			b, err := base64.StdEncoding.DecodeString(asStr(im["b64"]))
			if err != nil {
				return "unknown-op"
			}
			f, serr := (&formats.Sniffer{}).SniffReader(bytes.NewReader(b))
			parsable := serr == nil
			if parsable {
				if _, uerr := reader.GetFormatUnserializer(f); uerr != nil {
					parsable = false
				}
			}
			rs := bytes.NewReader(b)
			d, perr := reader.New().ParseStream(rs)
			pos, _ := rs.Seek(0, io.SeekCurrent)
			out = append(out, M{"parsable": parsable, "err": perr != nil, "doc": d != nil, "pos": float64(pos), "len": float64(len(b))})
		}
		return out
	case "sniffSeq":
		sn := &formats.Sniffer{}
		out := []any{}
		for _, i := range asList(op["inputs"]) {
			im, ok := i.(M)
			if !ok {
				return "unknown-op"
			}
			b, err := base64.StdEncoding.DecodeString(asStr(im["b64"]))
			if err != nil {
				return "unknown-op"
			}
			rs := &recordingSeeker{r: bytes.NewReader(b)}
			_, _ = rs.r.Seek(int64(min(7, len(b))), io.SeekStart) // detection must not depend on where the stream stood
			_, _ = rs.r.Seek(0, io.SeekStart)
			if st := int(asInt0(im["start"])); st > 0 && st <= len(b) {
				_, _ = rs.r.Seek(int64(st), io.SeekStart) // handed over in the middle
			}
			f, err := sn.SniffReader(rs)
			pos, _ := rs.r.Seek(0, io.SeekCurrent)
			rest, _ := io.ReadAll(rs.r)
			var r any = string(f)
			if err != nil {
				r = "err"
				if f != "" {
					r = "err+format"
				}
			} else if f == "" {
				r = "neither"
			}
			o := M{"r": r, "ev": rs.ev, "pos": float64(pos)}
			if len(rest) != len(b) {
				o["rest"] = float64(len(rest))
			}
			out = append(out, o)
		}
		return out
	}
	return "unknown-op"
}

func oracleSniff(op M, res any, exec func(M) any) []Finding {
	var out []Finding
	add := func(f string, a ...any) { out = append(out, Finding{"C06", fmt.Sprintf(f, a...)}) }
	if s, ok := res.(string); ok && strings.HasPrefix(s, "panic") {
		add("format detection panicked: %s", s)
		return out
	}
	if asStr(op["op"]) == "sniffForward" {
		for k, r := range asList(res) {
			rm, ok := r.(M)
			if !ok || k >= len(asList(op["inputs"])) {
				continue
			}
			src := asStr(asList(op["inputs"])[k].(M)["src"])
			switch f, e := asStr(rm["format"]), rm["err"] == true; {
			case f != "" && e:
				add("detection on a stream that cannot be rewound (%s) returns both a format (%s) and an error", src, f)
			case f == "" && !e:
				add("detection on a stream that cannot be rewound (%s) returns neither a format nor an error", src)
			}
		}
		return out
	}
	if asStr(op["op"]) == "readerPos" {
		for k, r := range asList(res) {
			rm, ok := r.(M)
			if !ok || rm["parsable"] == true || k >= len(asList(op["inputs"])) {
				continue
			}
			src := asStr(asList(op["inputs"])[k].(M)["src"])
			if rm["err"] != true || rm["doc"] == true {
				add("ParseStream of input no parser is found for (%s) returns no error, or a document", src)
			}
			if asInt(rm["pos"]) != 0 {
				add("ParseStream of input no parser is found for (%s) leaves the caller's stream at offset %d of %d: whoever reads it next does not see the document", src, asInt(rm["pos"]), asInt(rm["len"]))
			}
		}
		return out
	}
	if asStr(op["op"]) != "sniffSeq" {
		return out
	}
	rl := asList(res)
	for k, i := range asList(op["inputs"]) {
		im, ok := i.(M)
		if !ok || k >= len(rl) {
			continue
		}
		r, ok := rl[k].(M)
		if !ok {
			continue
		}
		got := asStr(r["r"])
		if want := asStr(im["want"]); want != "" && got != want {
			add("the writer's %s output (%s) is detected as %q", want, asStr(im["src"]), got)
		}
		if asInt(r["pos"]) != 0 || r["rest"] != nil {
			add("after detection the stream is at offset %d (input %s): the following parse does not see the whole document", asInt(r["pos"]), asStr(im["src"]))
		}
		if got == "neither" || got == "err+format" {
			add("detection returned %s", got)
		}
		if got != "err" && got != "neither" && got != "err+format" {
			// the reported format agrees with the declaration of the input
			f := formats.Format(got)
			if f.Major()+"."+f.Minor() != f.Version() {
				add("reported %q: its version accessors give major %q, minor %q and version %q", got, f.Major(), f.Minor(), f.Version())
			}
			if d, isDecl := im["decl"].([]any); isDecl {
				switch {
				case f.Type() == formats.CDXFORMAT:
					if !strings.EqualFold(asStr(d[0]), "cyclonedx") || f.Version() != asStr(d[1]) || f.Encoding() != formats.JSON {
						add("reported %q but the declaration says bomFormat=%q specVersion=%q", got, asStr(d[0]), asStr(d[1]))
					}
				case f.Type() == formats.SPDXFORMAT:
					if "SPDX-"+f.Version() != asStr(d[2]) || f.Encoding() != formats.JSON || strings.EqualFold(asStr(d[0]), "cyclonedx") {
						add("reported %q but the declaration says spdxVersion=%q bomFormat=%q", got, asStr(d[2]), asStr(d[0]))
					}
				default:
					add("reported %q whose type accessor is empty", got)
				}
			} else {
				tag, ver := false, false
				for _, l := range asList(im["lines"]) {
					if strings.Contains(asStr(l), "SPDXVersion:") {
						tag = true
					}
					if strings.Contains(asStr(l), "SPDX-"+f.Version()) {
						ver = true
					}
				}
				if !(f.Type() == formats.SPDXFORMAT && f.Encoding() == formats.TEXT && tag && ver) {
					add("reported %q for input without such a declaration (%s)", got, asStr(im["src"]))
				}
			}
		}
	}
	// detection depends on the input only: each input alone on a fresh sniffer gives the same answer
	if len(rl) > 1 {
		for k, i := range asList(op["inputs"]) {
			alone := exec(M{"op": "sniffSeq", "inputs": []any{i}})
			if al := asList(alone); len(al) == 1 && k < len(rl) {
				a, _ := al[0].(M)
				b, _ := rl[k].(M)
				if a != nil && b != nil && asStr(a["r"]) != asStr(b["r"]) {
					add("detection of input %d gives %q after earlier detections on the same sniffer and %q on a fresh one", k, asStr(b["r"]), asStr(a["r"]))
				}
			}
		}
	}
	return out
}

var SniffStream = &Stream{
	Name:   "sniff",
	Gen:    sniffGen,
	Exec:   ExecSniff,
	Oracle: oracleSniff,
	Canon:  func(v any) any { return Normalize(v) },
	Nontrivial: func(op M) bool {
		return true
	},
	OpProps: func(op M) []string { return []string{"C06"} },
	Reps:    1,
	NoModel: func(op M) bool { return asStr(op["op"]) == "readerPos" || asStr(op["op"]) == "sniffForward" },
}

func asInt0(v any) int64 {
	if v == nil {
		return 0
	}
	return asInt(v)
}
