package hx

import (
	"bytes"
	"encoding/json"
	"fmt"
	"regexp"
	"sort"
	"strings"
	"time"

	"github.com/protobom/protobom/pkg/formats"
	"github.com/protobom/protobom/pkg/native"
	"github.com/protobom/protobom/pkg/native/serializers"
	"github.com/protobom/protobom/pkg/reader"
	"github.com/protobom/protobom/pkg/sbom"
	"github.com/protobom/protobom/pkg/writer"
	"github.com/spdx/tools-golang/spdx"
)

// The `spdx` stream (C01, C03): write as SPDX 2.3 JSON with the real writer, read back with the
// real reader; the serializer's native structure; an independent decoding of the written bytes.

type nopCloser struct{ *bytes.Buffer }

func (nopCloser) Close() error { return nil }

// WriteDoc writes the document in the given format (indentation as given).
func WriteDoc(d *sbom.Document, f formats.Format, indent int) (out []byte, err error) {
	w := writer.New(writer.WithFormat(f), writer.WithRenderOptions(&native.RenderOptions{Indent: indent}))
	buf := nopCloser{&bytes.Buffer{}}
	if err := w.WriteStream(d, buf); err != nil {
		return nil, err
	}
	return buf.Bytes(), nil
}

func ReadDoc(b []byte) (*sbom.Document, error) {
	return reader.New().ParseStream(bytes.NewReader(b))
}

func roundTrip(d *sbom.Document, f formats.Format, indent int) any {
	b, err := WriteDoc(d, f, indent)
	if err != nil {
		return "err"
	}
	d2, err := ReadDoc(b)
	if err != nil {
		return "err"
	}
	return DocJ(d2)
}

func dateSecs(s string) any {
	if s == "" {
		return nil
	}
	t, err := time.Parse(time.RFC3339Nano, s)
	if err != nil {
		return float64(-1)
	}
	return float64(t.Unix())
}

func spdxNativeJ(doc *spdx.Document) any {
	pk, fl, rl := []any{}, []any{}, []any{}
	cs := func(l []spdx.Checksum) []any {
		out := []any{}
		for _, c := range l {
			out = append(out, []any{string(c.Algorithm), c.Value})
		}
		sort.SliceStable(out, func(i, j int) bool { return js(out[i]) < js(out[j]) })
		return out
	}
	strs := func(l []string) []any {
		out := []any{}
		for _, s := range l {
			out = append(out, s)
		}
		return out
	}
	for _, p := range doc.Packages {
		refs := []any{}
		for _, r := range p.PackageExternalReferences {
			refs = append(refs, []any{r.Category, r.RefType, r.Locator, r.ExternalRefComment})
		}
		var sup, orig any
		if p.PackageSupplier != nil {
			sup = []any{p.PackageSupplier.SupplierType, p.PackageSupplier.Supplier}
		}
		if p.PackageOriginator != nil {
			orig = []any{p.PackageOriginator.OriginatorType, p.PackageOriginator.Originator}
		}
		pk = append(pk, M{"id": string(p.PackageSPDXIdentifier), "name": p.PackageName, "version": p.PackageVersion,
			"fileName": p.PackageFileName, "download": p.PackageDownloadLocation, "home": p.PackageHomePage,
			"sourceInfo": p.PackageSourceInfo, "licenseConcluded": p.PackageLicenseConcluded,
			"licenseComments": p.PackageLicenseComments, "copyright": p.PackageCopyrightText,
			"summary": p.PackageSummary, "description": p.PackageDescription, "comment": p.PackageComment,
			"purpose": p.PrimaryPackagePurpose, "release": dateSecs(p.ReleaseDate), "built": dateSecs(p.BuiltDate),
			"validUntil": dateSecs(p.ValidUntilDate), "checksums": cs(p.PackageChecksums), "extRefs": refs,
			"attribution": strs(p.PackageAttributionTexts), "supplier": sup, "originator": orig})
	}
	for _, f := range doc.Files {
		fl = append(fl, M{"id": string(f.FileSPDXIdentifier), "name": f.FileName, "fileTypes": strs(f.FileTypes),
			"checksums": cs(f.Checksums), "licenseConcluded": f.LicenseConcluded, "licenseComments": f.LicenseComments,
			"copyright": f.FileCopyrightText, "comment": f.FileComment, "attribution": strs(f.FileAttributionTexts)})
	}
	for _, r := range doc.Relationships {
		rl = append(rl, []any{string(r.RefA.ElementRefID), r.Relationship, string(r.RefB.ElementRefID)})
	}
	return M{"name": doc.DocumentName, "comment": doc.DocumentComment, "packages": pk, "files": fl, "rels": rl}
}

func ExecSpdx(op M) (res any) {
	ok := false
	func() {
		defer func() { recover() }()
		DocOf(op["doc"])
		ok = true
	}()
	if !ok {
		return "unknown-op"
	}
	defer func() {
		if r := recover(); r != nil {
			res = fmt.Sprintf("panic: %v", r)
		}
	}()
	indent := 2
	if v, has := op["indent"]; has {
		indent = int(asInt(v))
	}
	switch asStr(op["op"]) {
	case "spdxRT":
		return roundTrip(DocOf(op["doc"]), formats.SPDX23JSON, indent)
	case "spdxRT2":
		b, err := WriteDoc(DocOf(op["doc"]), formats.SPDX23JSON, indent)
		if err != nil {
			return "err"
		}
		d2, err := ReadDoc(b)
		if err != nil {
			return "err"
		}
		return roundTrip(d2, formats.SPDX23JSON, indent)
	case "spdxSer":
		n, err := serializers.NewSPDX23().Serialize(DocOf(op["doc"]), &native.SerializeOptions{}, nil)
		if err != nil {
			return "err"
		}
		return spdxNativeJ(n.(*spdx.Document))
	}
	return "unknown-op"
}

// ---------------------------------------------------------------------------------------------
// generation

var spdxIDPool = []string{"a", "b", "c", "pkg-1.0", "lib.so", "A-b.C", "n1", "n11", "x0", "aSPDXRef-b",
	// ordinary identifiers that merely contain the marker of generated references
	"lib-autoconf", "gnu-automake--m4",
	// identifiers with the prefix of generated references but not their shape (no "--", no flags)
	// ("protobom-auto" itself is erased by the CycloneDX writer and re-generated by its reader with
	// a number that depends on the writer's map order: only stream ser uses it)
	"protobom-v0.4.1", "protobom-",
	// identifiers that are words SPDX reserves for the other end of a relationship
	"NONE", "NOASSERTION"}
var textPool = []string{"x", "Y z", "v1.2.3", "é ü 漢字", "a:b+c", "tab\tsep", "q\"uote", "back\\slash", "<html>&amp;", "line\nbreak", "  padded  ", "\u2028ls", "🙂",
	// values that look like the placeholders some format versions write for a missing version
	"0.0.0", "0"}
var plainNames = []string{"ACME", "Bob Builder", "Org (x)", "Jo: the one", "é-corp",
	// white space inside a name is part of the name
	"Bob  Builder", "Jo\u00a0Doe", "A\u2003B Ltd"}
var sharedHashAlgos = []int{1, 2, 3, 4, 5, 6, 7, 8, 9, 10, 11, 12, 14, 15, 16, 17}
var spdxNativePurposes = []int{1, 2, 5, 7, 12, 13, 14, 15, 16, 21, 22, 26}
var spdxRefTypes = []int{4, 26, 29, 30, 31, 44, 46, 47}

func (g *G) text() string { return g.Pick(textPool) }

func (g *G) spdxNode(id string, inClass bool) M {
	attrs := M{}
	ty := 0.0
	if g.Chance(0.25) {
		ty = 1
	}
	put := func(f string, v any) {
		if g.Chance(0.5) {
			attrs[f] = v
		}
	}
	for _, f := range []string{"Name", "Version", "FileName", "UrlHome", "UrlDownload", "LicenseConcluded", "LicenseComments", "SourceInfo", "Comment", "Summary", "Description"} {
		put(f, g.text())
	}
	if g.Chance(0.5) {
		c := g.text()
		if inClass {
			c = strings.TrimSpace(c)
		}
		if c != "" {
			attrs["Copyright"] = c
		}
	}
	if g.Chance(0.5) {
		h := []any{}
		for _, a := range sharedHashAlgos {
			if g.Chance(0.2) {
				// a checksum whose value is empty is still a checksum entry
				h = append(h, []any{float64(a), g.Pick([]string{"aa", "bb", "0f", "aa", "bb", "0f", "aa", ""})})
			}
		}
		if !inClass && g.Chance(0.3) {
			h = append(h, []any{float64(g.Pick2([]int{0, 13, 20, 99})), "zz"})
		}
		if len(h) > 0 {
			attrs["Hashes"] = h
		}
	}
	if g.Chance(0.5) {
		ids := []any{}
		for _, k := range []int{1, 2, 3, 4} {
			if g.Chance(0.4) {
				ids = append(ids, []any{float64(k), g.Pick(append(purlPool, "cpe:2.3:a:x:y", "gitoid:blob:sha1:ab"))})
			}
		}
		if !inClass && g.Chance(0.3) {
			ids = append(ids, []any{float64(g.Pick2([]int{0, 5, 9})), "v"})
		}
		if len(ids) > 0 {
			attrs["Identifiers"] = ids
		}
	}
	if g.Chance(0.4) {
		refs := []any{}
		for k := 0; k <= g.Int(2); k++ {
			r := M{"t": float64(g.Pick2(spdxRefTypes)), "u": g.Pick([]string{"http://a", "https://b/c?d=e", "git+https://c"})}
			if g.Chance(0.4) {
				r["c"] = g.text()
			}
			if !inClass {
				if g.Chance(0.2) {
					delete(r, "u")
				}
				if g.Chance(0.2) {
					r["t"] = float64(g.Pick2([]int{1, 21, 56, 99}))
				}
				if g.Chance(0.2) {
					r["h"] = []any{[]any{1.0, "aa"}}
				}
			}
			refs = append(refs, r)
		}
		attrs["ExternalReferences"] = refs
	}
	if g.Chance(0.4) {
		ps := []any{float64(g.Pick2(spdxNativePurposes))}
		if !inClass {
			if g.Chance(0.4) {
				ps = append(ps, float64(g.Pick2([]int{3, 16, 99})))
			}
			if g.Chance(0.3) {
				ps[0] = float64(g.Pick2([]int{0, 3, 4, 8, 99}))
			}
		}
		attrs["PrimaryPurpose"] = ps
	}
	for _, f := range []string{"ReleaseDate", "BuildDate", "ValidUntilDate"} {
		if g.Chance(0.3) {
			attrs[f] = []any{float64(g.Pick2([]int{0, 1, 1700000000, 951782400, 4102444800})) + float64(g.Int(3)), float64(g.Pick2([]int{0, 0, 999999999, 500}))}
		}
	}
	person := func() M {
		p := M{"n": g.Pick(plainNames), "o": g.Chance(0.5)}
		if g.Chance(0.3) {
			p["e"] = "a@b.c"
		}
		if !inClass && g.Chance(0.2) {
			p["n"] = g.Pick([]string{"", "NOASSERTION", " lead", "q\"uote"})
		}
		return p
	}
	if g.Chance(0.4) {
		l := []any{person()}
		if g.Chance(0.3) {
			l = append(l, person())
		}
		attrs["Suppliers"] = l
	}
	if g.Chance(0.4) {
		l := []any{person()}
		if g.Chance(0.3) {
			l = append(l, person())
		}
		attrs["Originators"] = l
	}
	if g.Chance(0.3) {
		attrs["Attribution"] = []any{g.text()}
	}
	if ty == 1 && g.Chance(0.4) {
		attrs["FileTypes"] = []any{g.Pick([]string{"TEXT", "BINARY", "SOURCE"})}
	}
	if !inClass && g.Chance(0.1) {
		ty = float64(g.Pick2([]int{2, 7}))
	}
	return M{"id": id, "type": ty, "a": attrs}
}

// spdxDoc: a document of (inClass) or around (not inClass) the SPDX-representable class: every
// graph shape — cycles, self loops, several edges per source/type, several roots, isolated nodes.
func (g *G) spdxDoc(inClass bool) M {
	n := 1 + g.Int(6)
	perm := g.R.Perm(len(spdxIDPool))
	ids := []string{}
	for i := 0; i < n; i++ {
		ids = append(ids, spdxIDPool[perm[i]])
	}
	nodes := []any{}
	for _, id := range ids {
		nodes = append(nodes, g.spdxNode(id, inClass))
	}
	if !inClass && g.Chance(0.15) {
		nodes = append(nodes, g.spdxNode(ids[0], false)) // duplicate id
	}
	edges := []any{}
	for i := 0; i < g.Int(7); i++ {
		tos := []any{}
		for k := 0; k <= g.Int(3); k++ {
			tos = append(tos, g.Pick(ids))
		}
		if !inClass && g.Chance(0.15) {
			tos = append(tos, g.Pick([]string{"ghost", ""}))
		}
		ty := 1 + g.Int(44)
		if !inClass && g.Chance(0.15) {
			ty = g.Pick2([]int{0, 45, 99})
		}
		src := g.Pick(ids)
		if !inClass && g.Chance(0.08) {
			src = "ghost"
		}
		edges = append(edges, M{"ty": float64(ty), "src": src, "tos": tos})
	}
	roots := []any{}
	seen := map[string]bool{}
	for i := 0; i < g.Int(4); i++ {
		r := g.Pick(ids)
		if seen[r] && inClass {
			continue
		}
		seen[r] = true
		roots = append(roots, r)
	}
	if !inClass && g.Chance(0.1) {
		roots = append(roots, "ghost")
	}
	tools := []any{}
	if g.Chance(0.4) {
		tools = append(tools, M{"n": "syft", "v": "1.0"})
	}
	meta := M{"id": "urn:uuid:1", "version": "1", "name": g.Pick([]string{"", "doc", "é doc"}), "comment": g.Pick([]string{"", "c"}), "tools": tools, "authors": []any{}, "types": []any{}}
	return M{"meta": meta, "nl": M{"nodes": nodes, "edges": edges, "roots": roots}}
}

func spdxGen(g *G, tier string) []M {
	n := 700
	if tier == "thorough" {
		n = 40000
	}
	var ops []M
	// every relationship type, algorithm, purpose at least once
	for t := 1; t <= 44; t++ {
		d := g.spdxDoc(true)
		nl := d["nl"].(M)
		ids := []any{}
		for _, x := range asList(nl["nodes"]) {
			ids = append(ids, x.(M)["id"])
		}
		nl["edges"] = append(asList(nl["edges"]), M{"ty": float64(t), "src": ids[0], "tos": []any{ids[len(ids)-1]}})
		ops = append(ops, M{"op": "spdxRT", "doc": d, "class": true, "indent": float64(g.Int(9))})
	}
	for i := 0; i < n; i++ {
		in := g.Chance(0.6)
		d := g.spdxDoc(in)
		switch g.Int(6) {
		case 0:
			ops = append(ops, M{"op": "spdxSer", "doc": d, "class": in})
		case 1:
			ops = append(ops, M{"op": "spdxRT2", "doc": d, "class": in, "indent": float64(g.Int(9))})
		default:
			ops = append(ops, M{"op": "spdxRT", "doc": d, "class": in, "indent": float64(g.Int(9))})
		}
	}
	return ops
}

// ---------------------------------------------------------------------------------------------
// oracles

var spdxIDRe = regexp.MustCompile(`^[A-Za-z0-9.-]+$`)

func docWF(d M) bool {
	nl, ok := d["nl"].(M)
	if !ok {
		return false
	}
	return View(nl).WF()
}

// inSpdxClass: the SPDX-representable class of C01 (explicit, decidable).
func inSpdxClass(d M) bool {
	if d["meta"] == nil || !docWF(d) {
		return false
	}
	for _, x := range asList(d["nl"].(M)["nodes"]) {
		n := x.(M)
		id := asStr(n["id"])
		if !spdxIDRe.MatchString(id) || id == "DOCUMENT" || strings.HasPrefix(id, "SPDXRef-") {
			return false
		}
		if t := asInt(n["type"]); t != 0 && t != 1 {
			return false
		}
		for _, p := range asList(attrOf(n, "Hashes")) {
			k := asInt(p.([]any)[0])
			if k < 1 || k > 17 || k == 13 {
				return false
			}
		}
		for _, p := range asList(attrOf(n, "Identifiers")) {
			k := asInt(p.([]any)[0])
			if k < 1 || k > 4 {
				return false
			}
		}
		for _, f := range []string{"Suppliers", "Originators"} {
			l := asList(attrOf(n, f))
			if len(l) > 0 {
				nm := asStr(l[0].(M)["n"])
				if nm == "" || nm == "NOASSERTION" || strings.ContainsAny(nm, "\"\\<>&\n\t\u2028\u2029") || strings.TrimLeft(nm, " \t") != nm {
					return false
				}
				if e := asStr(l[0].(M)["e"]); strings.ContainsAny(e, "\"\\<>&\n\t") {
					return false
				}
			}
		}
		for _, r := range asList(attrOf(n, "ExternalReferences")) {
			rm := r.(M)
			if asStr(rm["u"]) == "" {
				return false
			}
			okT := false
			for _, t := range spdxRefTypes {
				if asInt(rm["t"]) == int64(t) {
					okT = true
				}
			}
			if !okT {
				return false
			}
		}
		if c := asStr(attrOf(n, "Copyright")); strings.TrimSpace(c) != c {
			return false
		}
		if ps := asList(attrOf(n, "PrimaryPurpose")); len(ps) > 0 {
			okP := false
			for _, t := range spdxNativePurposes {
				if asInt(ps[0]) == int64(t) {
					okP = true
				}
			}
			if !okP {
				return false
			}
		}
		for _, f := range []string{"ReleaseDate", "BuildDate", "ValidUntilDate"} {
			if v := attrOf(n, f); v != nil {
				s := asInt(asList(v)[0])
				nn := asInt(asList(v)[1])
				if s < -62135596800 || s >= 253402300800 || nn < 0 || nn > 999999999 {
					return false
				}
			}
		}
	}
	for _, e := range asList(d["nl"].(M)["edges"]) {
		t := asInt(e.(M)["ty"])
		if t < 1 || t > 44 {
			return false
		}
	}
	return true
}

func personClient(p M) string {
	if asStr(p["e"]) != "" {
		return asStr(p["n"]) + " (" + asStr(p["e"]) + ")"
	}
	return asStr(p["n"])
}

// spdxEquiv: what the round trip must preserve (C01), as a list of differences.
func spdxEquiv(d, r M) []string {
	var out []string
	add := func(f string, a ...any) { out = append(out, fmt.Sprintf(f, a...)) }
	dn, rn := View(d["nl"].(M)), View(r["nl"].(M))
	kinds := func(v *NLView) map[string]bool {
		s := map[string]bool{}
		for id, ns := range v.Nodes {
			for _, n := range ns {
				s[id+"\x00"+fmt.Sprint(asInt(n["type"]))] = true
			}
		}
		return s
	}
	if !setEq(kinds(dn), kinds(rn)) {
		add("node set (identifier, kind) differs: %v vs %v", keysOf(kinds(dn)), keysOf(kinds(rn)))
	}
	if !heEq(dn.HE, rn.HE) {
		add("typed edge set differs")
	}
	if !setEq(dn.Roots, rn.Roots) {
		add("root elements differ: %v vs %v", keysOf(dn.Roots), keysOf(rn.Roots))
	}
	for id, ns := range dn.Nodes {
		rs, ok := rn.Nodes[id]
		if !ok {
			continue
		}
		a, b := ns[0], rs[0]
		file := asInt(a["type"]) == 1
		cmp := func(f string, want any) {
			if !Equal(want, attrOf(b, f)) {
				add("node %q attribute %s: wrote %s, read %s", id, f, js(attrOf(a, f)), js(attrOf(b, f)))
			}
		}
		s := func(f string) any { return attrOf(a, f) }
		cmp("Name", s("Name"))
		cmp("LicenseComments", s("LicenseComments"))
		cmp("Comment", s("Comment"))
		cmp("Hashes", s("Hashes"))
		if file {
			cmp("LicenseConcluded", s("LicenseConcluded"))
			c := asStr(s("Copyright"))
			if c == "" {
				c = "NONE"
			}
			cmp("Copyright", c)
			continue
		}
		for _, f := range []string{"Version", "FileName", "UrlHome", "SourceInfo", "Summary", "Description", "Copyright", "Identifiers"} {
			cmp(f, s(f))
		}
		dl := asStr(s("UrlDownload"))
		if dl == "" {
			dl = "NOASSERTION"
		}
		cmp("UrlDownload", dl)
		lc := s("LicenseConcluded")
		if asStr(lc) == "NOASSERTION" {
			lc = nil
		}
		cmp("LicenseConcluded", lc)
		if ps := asList(s("PrimaryPurpose")); len(ps) > 0 {
			cmp("PrimaryPurpose", []any{ps[0]})
		} else {
			cmp("PrimaryPurpose", nil)
		}
		for _, f := range []string{"ReleaseDate", "BuildDate", "ValidUntilDate"} {
			if v := s(f); v != nil {
				cmp(f, []any{asList(v)[0], float64(0)})
			} else {
				cmp(f, nil)
			}
		}
		refs := []any{}
		for _, x := range asList(s("ExternalReferences")) {
			xm := x.(M)
			r := M{"t": xm["t"], "u": xm["u"]}
			if asStr(xm["c"]) != "" {
				r["c"] = xm["c"]
			}
			refs = append(refs, r)
		}
		var wantRefs any = refs
		if len(refs) == 0 {
			wantRefs = nil
		}
		cmp("ExternalReferences", wantRefs)
		for _, f := range []string{"Suppliers", "Originators"} {
			if l := asList(s(f)); len(l) > 0 {
				p := l[0].(M)
				o, _ := p["o"].(bool)
				cmp(f, []any{M{"n": personClient(p), "o": o}})
			} else {
				cmp(f, nil)
			}
		}
	}
	return out
}

// spdxCompleteness (C03): the written bytes, decoded with encoding/json only.
func spdxCompleteness(d M, raw []byte) []string {
	var out []string
	add := func(f string, a ...any) { out = append(out, fmt.Sprintf(f, a...)) }
	var top map[string]any
	if err := json.Unmarshal(raw, &top); err != nil {
		return []string{"output is not JSON: " + err.Error()}
	}
	strip := func(s string) string { return strings.TrimPrefix(s, "SPDXRef-") }
	emitted := map[string]int{}
	for _, k := range []string{"packages", "files"} {
		l, _ := top[k].([]any)
		for _, e := range l {
			if em, ok := e.(map[string]any); ok {
				id, _ := em["SPDXID"].(string)
				emitted[strip(id)]++
			}
		}
	}
	dv := View(d["nl"].(M))
	for id, ns := range dv.Nodes {
		want := 0
		for _, n := range ns {
			t := asInt(n["type"])
			if t == 0 || t == 1 {
				want++
			} else {
				want += 2 // neither PACKAGE nor FILE: the serializer emits it in both lists
			}
		}
		if emitted[id] < 1 {
			add("node %q is missing from the SPDX output", id)
		} else if dv.Nodup() && asInt(ns[0]["type"]) <= 1 && emitted[id] != 1 {
			add("node %q appears %d times in the SPDX output", id, emitted[id])
		}
		_ = want
	}
	for id := range emitted {
		if !dv.IDSet[id] {
			add("the SPDX output invents element %q", id)
		}
	}
	rels := map[[3]string]bool{}
	l, _ := top["relationships"].([]any)
	for _, e := range l {
		em, ok := e.(map[string]any)
		if !ok {
			continue
		}
		a, _ := em["spdxElementId"].(string)
		b, _ := em["relatedSpdxElement"].(string)
		t, _ := em["relationshipType"].(string)
		// an endpoint is a reference (SPDXRef-...) or one of SPDX's special values (NONE,
		// NOASSERTION): the special value NONE is not the element SPDXRef-NONE
		ref := func(s string) string {
			if strings.HasPrefix(s, "SPDXRef-") {
				return strip(s)
			}
			return "(special value " + s + ")"
		}
		rels[[3]string{ref(a), t, ref(b)}] = true
		for _, x := range []string{ref(a), ref(b)} {
			if x != "DOCUMENT" && emitted[x] == 0 {
				add("relationship %s %s %s refers to an element that was not emitted", a, t, b)
			}
		}
	}
	for k := range dv.HE {
		var ty int
		fmt.Sscan(k[1], &ty)
		name := sbom.Edge_Type(ty).ToSPDX2()
		if !rels[[3]string{k[0], name, k[2]}] {
			add("edge %s -%s-> %s is missing from the SPDX relationships", k[0], name, k[2])
		}
	}
	for r := range dv.Roots {
		if !rels[[3]string{"DOCUMENT", "DESCRIBES", r}] {
			add("root element %q is not described by the document", r)
		}
	}
	for k := range rels {
		if k[0] == "DOCUMENT" && k[1] == "DESCRIBES" {
			if !dv.Roots[k[2]] {
				add("the SPDX output invents a described element %q", k[2])
			}
			continue
		}
		found := false
		for e := range dv.HE {
			var ty int
			fmt.Sscan(e[1], &ty)
			if e[0] == k[0] && e[2] == k[2] && sbom.Edge_Type(ty).ToSPDX2() == k[1] {
				found = true
			}
		}
		if !found {
			add("the SPDX output invents relationship %v", k)
		}
	}
	return out
}

func identityAttrs(n M) M {
	out := M{"Name": attrOf(n, "Name")}
	if asInt(n["type"]) == 0 {
		out["Version"] = attrOf(n, "Version")
	}
	h := []any{}
	for _, p := range asList(attrOf(n, "Hashes")) {
		k := asInt(p.([]any)[0])
		// the algorithms both formats support
		if k >= 1 && k <= 12 {
			h = append(h, p)
		}
	}
	if len(h) > 0 {
		out["Hashes"] = sortPairs(h)
	}
	// the package identifiers both formats support: purl, CPE 2.2, CPE 2.3 (packages only)
	ids := []any{}
	if asInt(n["type"]) == 0 {
		for _, p := range asList(attrOf(n, "Identifiers")) {
			if k := asInt(p.([]any)[0]); k >= 1 && k <= 3 {
				ids = append(ids, p)
			}
		}
	}
	if len(ids) > 0 {
		out["Identifiers"] = sortPairs(ids)
	}
	return out
}

func oracleSpdx(op M, res any, exec func(M) any) []Finding {
	var out []Finding
	add := func(p, f string, a ...any) { out = append(out, Finding{p, fmt.Sprintf(f, a...)}) }
	if s, ok := res.(string); ok && strings.HasPrefix(s, "panic") {
		add("C07", "SPDX write/read panicked: %s", s)
		add("C01", "SPDX write/read panicked: %s", s)
		return out
	}
	d := op["doc"].(M)
	name := asStr(op["op"])
	if name == "spdxSer" {
		return out
	}
	in := inSpdxClass(d)
	if in && !isDocJ(res) {
		add("C01", "a document of the SPDX-representable class cannot be written and read back: %v", res)
		return out
	}
	if !isDocJ(res) {
		return out
	}
	r := res.(M)
	if in && name == "spdxRT" {
		for _, m := range spdxEquiv(d, r) {
			add("C01", "%s", m)
		}
		// a second pass changes nothing further
		graph := func(v any) any {
			if m, ok := CanonDoc(v).(M); ok {
				name := ""
				if md, ok := m["meta"].(M); ok {
					name = asStr(md["name"])
				}
				return []any{m["nl"], name}
			}
			return v
		}
		again := exec(M{"op": "spdxRT", "doc": r, "indent": op["indent"]})
		if !Equal(graph(again), graph(r)) {
			add("C01", "a second write-then-read pass changes the document further")
		}
		// indentation does not matter
		other := exec(M{"op": "spdxRT", "doc": d, "indent": float64((asInt(op["indent"]) + 3) % 9)})
		if !Equal(graph(other), graph(r)) {
			add("C01", "the result depends on the render indentation")
		}
	}
	if name == "spdxRT" && docWF(d) && d["meta"] != nil {
		if raw, err := WriteDoc(DocOf(d), formats.SPDX23JSON, int(asInt(op["indent"]))); err == nil {
			for _, m := range spdxCompleteness(d, raw) {
				add("C03", "%s", m)
			}
		}
		// identity attributes survive for every node that was written
		dv, rv := View(d["nl"].(M)), View(r["nl"].(M))
		for id, ns := range dv.Nodes {
			if rs, ok := rv.Nodes[id]; ok && dv.Nodup() && asInt(ns[0]["type"]) <= 1 {
				if !Equal(identityAttrs(ns[0]), identityAttrs(rs[0])) {
					add("C03", "identity attributes of node %q change across SPDX: %s vs %s", id, js(identityAttrs(ns[0])), js(identityAttrs(rs[0])))
				}
				// "per node the same purl / CPE / gitoid identifiers", whatever else the identifier map holds
				if asInt(ns[0]["type"]) == 0 {
					ids := func(n M) any {
						l := []any{}
						for _, p := range asList(attrOf(n, "Identifiers")) {
							if q := p.([]any); asInt(q[0]) >= 1 && asInt(q[0]) <= 4 && asStr(q[1]) != "" {
								l = append(l, p)
							}
						}
						return sortPairs(l)
					}
					if w, g := ids(ns[0]), ids(rs[0]); !Equal(w, g) {
						add("C01", "node %q: identifiers written %s (next to %s), read back %s", id, js(w), js(attrOf(ns[0], "Identifiers")), js(g))
					}
				}
			} else if !ok && dv.Nodup() && asInt(ns[0]["type"]) <= 1 && spdxIDRe.MatchString(id) && id != "DOCUMENT" && !strings.HasPrefix(id, "SPDXRef-") && !strings.HasPrefix(id, "protobom-") {
				add("C03", "node %q (name %s) was written and is not among the nodes read back", id, js(attrOf(ns[0], "Name")))
			}
		}
	}
	return out
}

func isDocJ(v any) bool {
	m, ok := v.(M)
	if !ok {
		return false
	}
	_, has := m["nl"]
	return has
}

var SpdxStream = &Stream{
	Name:   "spdx",
	Gen:    spdxGen,
	Exec:   ExecSpdx,
	Oracle: oracleSpdx,
	Canon: func(v any) any {
		n := Normalize(v)
		if isDocJ(n) {
			return CanonDoc(n)
		}
		if m, ok := n.(M); ok {
			// native SPDX structure: checksum and external-reference arrays come out of Go maps
			for _, k := range []string{"packages", "files"} {
				for _, e := range asList(m[k]) {
					em := e.(M)
					for _, f := range []string{"checksums", "extRefs"} {
						if l, ok := em[f].([]any); ok {
							em[f] = sortAny(l)
						}
					}
				}
			}
		}
		return n
	},
	OpProps: func(op M) []string {
		return []string{"C01", "C03"}
	},
	Nontrivial: func(op M) bool {
		nl, ok := op["doc"].(M)["nl"].(M)
		return ok && len(asList(nl["nodes"])) >= 3
	},
	Reps: 1,
}
