package hx

import (
	"bytes"
	"crypto/sha256"
	"encoding/base64"
	"encoding/json"
	"fmt"
	"os"
	"os/exec"
	"path/filepath"
	"strings"
	"syscall"
	"time"
	"unsafe"

	"github.com/protobom/protobom/pkg/sbom"
	"github.com/protobom/protobom/pkg/storage"
	"google.golang.org/protobuf/proto"
)

// The `store` stream (C19) and the `crash` stream (C20). Histories run in a child process (the
// harness binary re-executed with the argument `child`), so that a process exit inside the library
// is an observation, not the end of the check. Crash points are made with RLIMIT_FSIZE (the kernel
// persists exactly N bytes of a write and kills the process inside the write call) and with
// strace's signal injection on entry of chmod and rename.

func storeDoc(id string, body int) *sbom.Document {
	d := sbom.NewDocument()
	d.Metadata.Id = id
	d.Metadata.Name = fmt.Sprintf("body-%d", body)
	for i := 0; i < body%5; i++ {
		d.NodeList.AddNode(&sbom.Node{Id: fmt.Sprintf("n%d", i), Name: strings.Repeat("x", body%17)})
	}
	return d
}

func entryPath(dir, id string) string {
	return filepath.Join(dir, fmt.Sprintf("%x.protobom", sha256.Sum256([]byte(id))))
}

func docView(d *sbom.Document, want *sbom.Document) any {
	if d == nil {
		return "nil-document"
	}
	if want != nil && proto.Equal(d, want) {
		return M{"id": d.GetMetadata().GetId(), "name": d.GetMetadata().GetName()}
	}
	return M{"id": d.GetMetadata().GetId(), "name": d.GetMetadata().GetName(), "nodes": float64(len(d.GetNodeList().GetNodes())), "differs": want != nil}
}

// runStoreHist executes a history in this process (called in the child).
func runStoreHist(op M) any {
	root, err := os.MkdirTemp("", "verif-store-")
	if err != nil {
		return "harness: " + err.Error()
	}
	defer os.RemoveAll(root)
	_ = os.WriteFile(filepath.Join(root, "sentinel"), []byte("s"), 0o644)
	// the temporary directory of the process is not the configured directory: nothing is created
	// there (it is aged, so that a file that came and went shows), and a store does not need it
	tmpOut := filepath.Join(root, "sentinel-tmp")
	aged := time.Now().Add(-72 * time.Hour)
	if asStr(op["tmp"]) != "missing" {
		_ = os.Mkdir(tmpOut, 0o755)
		_ = os.Chtimes(tmpOut, aged, aged)
	}
	_ = os.Setenv("TMPDIR", tmpOut)
	dir := filepath.Join(root, filepath.FromSlash(asStr(op["sub"])))
	fs := &storage.FileSystem{Options: storage.FileSystemOptions{Path: dir}}
	stored := map[string]*sbom.Document{}
	outs := []any{}
	// "shareOpts": the caller keeps one options value per setting and passes it to every store
	sharedNC, sharedPlain := &storage.StoreOptions{NoClobber: true}, &storage.StoreOptions{NoClobber: false}
	for _, st := range asList(op["steps"]) {
		sm, ok := st.(M)
		if !ok {
			return "unknown-op"
		}
		id := asStr(sm["id"])
		switch asStr(sm["s"]) {
		case "store":
			d := storeDoc(id, int(asInt(sm["body"])))
			if sm["noMeta"] == true {
				d.Metadata = nil
			}
			var o *storage.StoreOptions
			if sm["nilOpts"] != true {
				o = &storage.StoreOptions{NoClobber: sm["nc"] == true}
				if op["shareOpts"] == true {
					o = sharedPlain
					if sm["nc"] == true {
						o = sharedNC
					}
				}
			}
			if err := fs.Store(d, o); err != nil {
				outs = append(outs, "err")
			} else {
				stored[id] = d
				outs = append(outs, "ok")
			}
		case "retrieve":
			d, err := fs.Retrieve(id, nil)
			switch {
			case err != nil && d != nil:
				outs = append(outs, "both")
			case err != nil:
				outs = append(outs, "err")
			case d == nil:
				outs = append(outs, "neither")
			default:
				outs = append(outs, docView(d, stored[id]))
			}
		case "corrupt":
			p := entryPath(dir, id)
			switch asStr(sm["how"]) {
			case "truncate0":
				if _, err := os.Stat(p); err == nil {
					_ = os.WriteFile(p, nil, 0o644)
				}
			case "garbage":
				if data, err := os.ReadFile(p); err == nil {
					cut := 0
					if c, ok := sm["cut"].(float64); ok {
						cut = int(c)
					}
					if cut > 0 && len(data) > cut {
						// the entry loses its last bytes (a torn tail): its head, with the identifier, is intact
						_ = os.WriteFile(p, data[:len(data)-cut], 0o644)
					} else {
						_ = os.WriteFile(p, []byte{0xff, 0xff, 0xff, 0x07, 0x01}, 0o644)
					}
				}
			case "foreign":
				if _, err := os.Stat(p); err == nil {
					b, _ := proto.Marshal(storeDoc("some other identifier", 3))
					_ = os.WriteFile(p, b, 0o644)
				}
			case "delete":
				_ = os.Remove(p)
			case "dir":
				_ = os.Remove(p)
				_ = os.MkdirAll(p, 0o755) // also when the store directory does not exist yet
			}
			delete(stored, id)
			outs = append(outs, "done")
		case "rmdir":
			_ = os.RemoveAll(dir)
			stored = map[string]*sbom.Document{}
			outs = append(outs, "done")
		case "filedir":
			// the configured path is a regular file
			_ = os.RemoveAll(dir)
			_ = os.MkdirAll(filepath.Dir(dir), 0o755)
			_ = os.WriteFile(dir, []byte("x"), 0o644)
			stored = map[string]*sbom.Document{}
			outs = append(outs, "done")
		default:
			return "unknown-op"
		}
	}
	// confinement: nothing but the store directory chain and the sentinel under the root, and
	// only entry files (and leftovers of failed stores) directly inside the directory
	var stray []any
	if !sharedNC.NoClobber || sharedPlain.NoClobber {
		stray = append(stray, "(not a file: the options value the caller passes to its stores was changed by a store)")
	}
	if st, err := os.Stat(tmpOut); err == nil && st.ModTime().Unix() != aged.Unix() {
		stray = append(stray, "(something was created in the temporary directory of the process, "+tmpOut+")")
	}
	_ = filepath.Walk(root, func(p string, info os.FileInfo, err error) error {
		if err != nil || p == root {
			return nil
		}
		rel, _ := filepath.Rel(root, p)
		if rel == "sentinel" || rel == "sentinel-tmp" {
			return nil
		}
		if info.IsDir() {
			if strings.HasPrefix(filepath.Clean(dir)+string(filepath.Separator), filepath.Clean(p)+string(filepath.Separator)) || filepath.Dir(p) == filepath.Clean(dir) {
				return nil
			}
			stray = append(stray, rel)
			return nil
		}
		if filepath.Dir(p) != filepath.Clean(dir) && filepath.Clean(p) != filepath.Clean(dir) {
			stray = append(stray, rel)
		}
		return nil
	})
	return M{"steps": outs, "stray": stray}
}

// ChildMain serves one request read from stdin and writes the result to stdout.
func ChildMain() {
	// the result goes to the descriptor the parent reads; whatever the library prints goes to stderr
	protocol := os.Stdout
	os.Stdout = os.Stderr
	defer func() { os.Stdout = protocol }()
	// a child whose parent is gone (a check that was interrupted) has nobody to report to
	go func() {
		parent := os.Getppid()
		for {
			time.Sleep(2 * time.Second)
			if os.Getppid() != parent {
				os.Exit(3)
			}
		}
	}()
	var req M
	if err := json.NewDecoder(os.Stdin).Decode(&req); err != nil {
		fmt.Println(`"harness: bad request"`)
		return
	}
	req = Normalize(req).(M)
	var res any
	switch asStr(req["op"]) {
	case "storeHist":
		res = runStoreHist(req)
	case "stress":
		res = runStress(req)
	case "batch":
		var l []any
		for _, o := range asList(req["ops"]) {
			if om, ok := o.(M); ok && asStr(req["stream"]) == "parse" {
				l = append(l, ExecParse(om))
			} else if ok && asStr(req["stream"]) == "ser" {
				l = append(l, ExecSer(om))
			} else {
				l = append(l, "unknown-op")
			}
		}
		res = l
	case "storeOnce":
		// one Store with an optional file-size limit: the crash subject
		if req["fsize"] != nil {
			lim := int(asInt(req["fsize"]))
			_ = syscall.Setrlimit(syscall.RLIMIT_FSIZE, &syscall.Rlimit{Cur: uint64(lim), Max: uint64(lim)})
			// the Go runtime ignores SIGXFSZ; give it back its default action (terminate), so
			// that the process dies inside the write that crosses the limit
			type sigactionT struct {
				handler  uintptr
				flags    uint64
				restorer uintptr
				mask     uint64
			}
			sa := sigactionT{}
			if req["soft"] != true {
				_, _, _ = syscall.RawSyscall6(syscall.SYS_RT_SIGACTION, uintptr(syscall.SIGXFSZ), uintptr(unsafe.Pointer(&sa)), 0, 8, 0, 0)
			}
			// "soft": the signal stays ignored (the Go runtime's choice), so the write that crosses
			// the limit is cut short and returns an error instead of killing the process: a full disk
			// or a quota, after which the process lives on
		}
		fs := &storage.FileSystem{Options: storage.FileSystemOptions{Path: asStr(req["dir"])}}
		if asStr(req["prelude"]) == "refused" {
			// the same backend value has just refused a store (no-clobber over the bystander's entry):
			// what it keeps from that call must not reach the entry written next
			_ = fs.Store(storeDoc(asStr(req["refuse"]), 9), &storage.StoreOptions{NoClobber: true})
		}
		err := fs.Store(storeDoc(asStr(req["id"]), int(asInt(req["body"]))), &storage.StoreOptions{NoClobber: req["nc"] == true})
		if err != nil {
			res = "err"
		} else {
			res = "ok"
		}
	default:
		res = "unknown-op"
	}
	b, _ := json.Marshal(res)
	protocol.Write(append(b, '\n'))
}

func runChild(req M, pre ...string) (res any, exit string) {
	self, err := os.Executable()
	if err != nil {
		return nil, "harness: " + err.Error()
	}
	args := append(append([]string{}, pre...), self, "child")
	cmd := exec.Command(args[0], args[1:]...)
	if env, ok := req["env"].(M); ok {
		cmd.Env = os.Environ()
		for k, v := range env {
			cmd.Env = append(cmd.Env, k+"="+asStr(v))
		}
	}
	cmd.Stdin = strings.NewReader(js(req))
	var out bytes.Buffer
	cmd.Stdout = &out
	done := make(chan error, 1)
	if err := cmd.Start(); err != nil {
		return nil, "harness: " + err.Error()
	}
	go func() { done <- cmd.Wait() }()
	select {
	case err := <-done:
		if err != nil {
			exit = err.Error()
		}
	case <-time.After(60 * time.Second):
		_ = cmd.Process.Kill()
		exit = "hang"
	}
	var v any
	if json.Unmarshal(bytes.TrimSpace(out.Bytes()), &v) == nil {
		res = Normalize(v)
	}
	return res, exit
}

func ExecStore(op M) (res any) {
	defer func() {
		if r := recover(); r != nil {
			res = "unknown-op"
		}
	}()
	switch asStr(op["op"]) {
	case "storeHist":
		for _, st := range asList(op["steps"]) {
			sm, ok := st.(M)
			if !ok {
				return "unknown-op"
			}
			switch asStr(sm["s"]) {
			case "store":
				if _, ok := sm["body"].(float64); !ok {
					return "unknown-op"
				}
				if _, ok := sm["id"].(string); !ok {
					return "unknown-op"
				}
			case "retrieve", "corrupt":
				if _, ok := sm["id"].(string); !ok {
					return "unknown-op"
				}
			case "rmdir", "filedir":
			default:
				return "unknown-op"
			}
		}
		if _, ok := op["sub"].(string); !ok {
			return "unknown-op"
		}
		r, exit := runChild(op)
		if exit != "" {
			return "process ended: " + exit
		}
		return r
	case "crash":
		return crashExplore(op)
	}
	return "unknown-op"
}

var storeIDs = []string{"a", "b", "urn:uuid:3e671687-395b-41f5-a30f-a58921a69b79", "../escape", "../../etc/passwd", "/abs/olute", "a/b", "a//b", "a/../b", "./c", "c",
	"日本語/ünï", "with space", "x\x00y", "..", ".", "\\win\\path", "https://example.com/doc#1", "https://example.com/doc#1/",
	// identifiers that are blank but not empty
	" ", "\t", "\n", "\u00a0",
	// long namespace-like identifiers that differ in their tail only
	longNS + "3e671687-395b-41f5-a30f-a58921a69b79", longNS + "3e671687-395b-41f5-a30f-a58921a69b7a", longNS}

var longNS = "https://example.com/spdxdocs/" + strings.Repeat("team-a/project-b/", 8) + "release-"

func (g *G) storeID() string {
	switch g.Int(12) {
	case 0:
		return ""
	case 1:
		return strings.Repeat("L", 5000+g.Int(3000))
	default:
		return g.Pick(storeIDs)
	}
}

func storeGen(g *G, tier string) []M {
	n := 120
	if tier == "thorough" {
		n = 3000
	}
	var ops []M
	for i := 0; i < n; i++ {
		steps := []any{}
		for s := 0; s < 3+g.Int(10); s++ {
			id := g.storeID()
			switch c := g.Int(20); {
			case c < 9:
				st := M{"s": "store", "id": id, "body": float64(g.Int(40)), "nc": g.Chance(0.4)}
				if g.Chance(0.05) {
					st["noMeta"] = true
				}
				if g.Chance(0.1) {
					st["nilOpts"] = true
				}
				steps = append(steps, st)
			case c < 16:
				steps = append(steps, M{"s": "retrieve", "id": id})
			case c < 18:
				steps = append(steps, M{"s": "corrupt", "id": id, "how": g.Pick([]string{"truncate0", "garbage", "foreign", "delete", "dir"})})
				if g.Chance(0.5) {
					steps[len(steps)-1].(M)["cut"] = 1.0 // for "garbage": the entry's last byte is lost instead
				}
			case c < 19:
				steps = append(steps, M{"s": "rmdir"})
			default:
				steps = append(steps, M{"s": "filedir"})
			}
		}
		if g.Chance(0.5) {
			// directed: store, damage that very entry, retrieve it, store again, retrieve
			id := g.Pick(storeIDs)
			how := M{"s": "corrupt", "id": id, "how": g.Pick([]string{"truncate0", "garbage", "garbage", "foreign", "delete", "dir"})}
			if g.Chance(0.6) {
				how["cut"] = 1.0
			}
			steps = append(steps, M{"s": "store", "id": id, "body": float64(g.Int(40)), "nc": false}, how,
				M{"s": "retrieve", "id": id},
				M{"s": "store", "id": id, "body": float64(g.Int(40)), "nc": g.Chance(0.5)},
				M{"s": "retrieve", "id": id})
		}
		if g.Chance(0.5) {
			// directed: identifiers that are equal as paths but not as strings
			pair := [][2]string{{"a/b", "a//b"}, {"c", "./c"}, {"b", "a/../b"}, {"https://example.com/doc#1", "https://example.com/doc#1/"}, {"a", "a/"}, {"x", "x/."}}[g.Int(6)]
			steps = append(steps, M{"s": "store", "id": pair[0], "body": 1.0, "nc": false}, M{"s": "store", "id": pair[1], "body": 2.0, "nc": g.Chance(0.5)},
				M{"s": "retrieve", "id": pair[0]}, M{"s": "retrieve", "id": pair[1]})
		}
		ops = append(ops, M{"op": "storeHist", "sub": g.Pick([]string{"store", "a/b/store", "s p/dir"}), "steps": steps})
		if i%3 == 1 {
			ops[len(ops)-1]["tmp"] = "missing" // the process has no usable temporary directory
		}
		if i%2 == 1 {
			ops[len(ops)-1]["shareOpts"] = true
		}
		if i%8 == 3 {
			// directed: a no-clobber store into a directory that is not there yet, then the same
			// identifier again with the same options value: the second store is refused
			id := g.Pick(storeIDs)
			ops[len(ops)-1]["steps"] = []any{M{"s": "store", "id": id, "body": 1.0, "nc": true}, M{"s": "store", "id": id, "body": 2.0, "nc": true},
				M{"s": "retrieve", "id": id}, M{"s": "rmdir"}, M{"s": "store", "id": id, "body": 3.0, "nc": true}, M{"s": "store", "id": id, "body": 4.0, "nc": true}, M{"s": "retrieve", "id": id}}
			ops[len(ops)-1]["shareOpts"] = true
		}
	}
	return ops
}

func oracleStore(op M, res any, exec func(M) any) []Finding {
	var out []Finding
	add := func(p, f string, a ...any) { out = append(out, Finding{p, fmt.Sprintf(f, a...)}) }
	if s, ok := res.(string); ok {
		if s != "unknown-op" {
			add("C19", "a history of stores and retrieves ended the process or could not run: %s", s)
		}
		return out
	}
	r, ok := res.(M)
	if !ok {
		return out
	}
	if asStr(op["op"]) == "crash" {
		for _, m := range asList(r["violations"]) {
			add("C20", "%s", asStr(m))
		}
		return out
	}
	for _, s := range asList(r["stray"]) {
		if t := asStr(s); strings.HasPrefix(t, "(not a file: ") {
			add("C19", "%s", strings.TrimSuffix(strings.TrimPrefix(t, "(not a file: "), ")"))
			continue
		}
		add("C19", "a file or directory was created outside the configured directory: %s", asStr(s))
	}
	steps := asList(op["steps"])
	// reference: the abstract map from identifiers to the last stored body
	ref := map[string]int{}
	exists := map[string]bool{}  // an entry file is present (intact or not): no-clobber refuses
	damaged := map[string]bool{} // entry replaced by a directory: later stores of it are refused
	blocked := false
	for i, o := range asList(r["steps"]) {
		if i >= len(steps) {
			break
		}
		sm, _ := steps[i].(M)
		id := asStr(sm["id"])
		switch asStr(sm["s"]) {
		case "store":
			refuse := blocked || id == "" || sm["noMeta"] == true || (sm["nc"] == true && sm["nilOpts"] != true && exists[id]) || damaged[id]
			if refuse && asStr(o) != "err" {
				add("C19", "step %d: store of %q must be refused but returned %v", i, id, o)
			}
			if !refuse && asStr(o) != "ok" {
				add("C19", "step %d: store of %q failed although nothing stands in its way", i, id)
			}
			if asStr(o) == "ok" {
				ref[id] = int(asInt(sm["body"]))
				exists[id] = true
			}
		case "retrieve":
			body, have := ref[id]
			if om, isDoc := o.(M); isDoc {
				if !have || blocked {
					add("C19", "step %d: retrieve of %q, which holds no (intact) entry, returned a document: %s", i, id, js(om))
				} else if asStr(om["name"]) != fmt.Sprintf("body-%d", body) {
					add("C19", "step %d: retrieve of %q returned %s, but the last document stored under it was body-%d", i, id, js(om), body)
				}
			} else if have && !blocked && asStr(o) == "err" {
				add("C19", "step %d: retrieve of %q fails although body-%d was stored under it and nothing touched that entry", i, id, body)
			}
		case "corrupt":
			delete(ref, id)
			switch asStr(sm["how"]) {
			case "dir":
				damaged[id], exists[id] = true, true
			case "delete":
				delete(damaged, id)
				delete(exists, id)
			}
		case "rmdir":
			ref, exists, damaged, blocked = map[string]int{}, map[string]bool{}, map[string]bool{}, false
		case "filedir":
			ref, exists, damaged, blocked = map[string]int{}, map[string]bool{}, map[string]bool{}, true
		}
		switch v := o.(type) {
		case string:
			if v == "both" || v == "neither" || v == "nil-document" {
				add("C19", "step %d (%s %q) returned %s", i, asStr(sm["s"]), asStr(sm["id"]), v)
			}
		case M:
			if v["differs"] == true {
				add("C19", "retrieve of %q returned a document different from the stored one: %s", asStr(sm["id"]), js(v))
			}
			if asStr(v["id"]) != asStr(sm["id"]) {
				add("C19", "retrieve of %q returned the document %q", asStr(sm["id"]), asStr(v["id"]))
			}
		}
	}
	return out
}

// canonical view for the model comparison: ok / err / retrieved (id, name)
func storeCanon(v any) any {
	n := Normalize(v)
	var steps, stray []any
	switch t := n.(type) {
	case []any: // the model: the list of step results
		steps = t
	case M:
		if t["steps"] == nil {
			return n
		}
		steps = asList(t["steps"])
		stray = asList(t["stray"])
	default:
		return n
	}
	outs := []any{}
	for _, o := range steps {
		if om, ok := o.(M); ok {
			c := M{"id": om["id"], "name": om["name"]}
			if om["differs"] == true {
				c["differs"] = true
			}
			outs = append(outs, c)
		} else {
			outs = append(outs, o)
		}
	}
	if stray == nil {
		stray = []any{}
	}
	return M{"steps": outs, "stray": stray}
}

var StoreStream = &Stream{
	Name:       "store",
	Gen:        storeGen,
	Exec:       ExecStore,
	Oracle:     oracleStore,
	Canon:      storeCanon,
	Nontrivial: func(op M) bool { return true },
	OpProps:    func(op M) []string { return []string{"C19"} },
	Reps:       1,
	NoShrink:   true, // histories are short; cut-down steps change their meaning
	NoModel: func(op M) bool {
		// an entry replaced by a directory is outside the model (judged by the oracle only)
		for _, st := range asList(op["steps"]) {
			if sm, ok := st.(M); ok && asStr(sm["how"]) == "dir" {
				return true
			}
		}
		return false
	},
}

// ---------------------------------------------------------------------------------------------
// crash points (C20)

func crashExplore(op M) any {
	id := asStr(op["id"])
	bodyNew := int(asInt(op["bodyNew"]))
	hasOld := op["bodyOld"] != nil
	nc := op["nc"] == true
	newDoc := storeDoc(id, bodyNew)
	var oldDoc *sbom.Document
	if hasOld {
		oldDoc = storeDoc(id, int(asInt(op["bodyOld"])))
	}
	// "long": every identifier of the scenario is a long namespace-like string, all with the same
	// first 150 bytes
	pre := ""
	if op["long"] == true {
		pre = longNS
		id = pre + id
		newDoc = storeDoc(id, bodyNew)
		if hasOld {
			oldDoc = storeDoc(id, int(asInt(op["bodyOld"])))
		}
	}
	by := storeDoc(pre+"bystander", 7)
	enc, _ := proto.Marshal(newDoc)
	root, err := os.MkdirTemp("", "verif-crash-")
	if err != nil {
		return "unknown-op"
	}
	defer os.RemoveAll(root)
	dir := filepath.Join(root, "store")
	noDir := op["nodir"] == true && oldDoc == nil
	reset := func() {
		_ = os.RemoveAll(dir)
		if noDir {
			return // the crashing store is the one that creates the directory
		}
		fs := &storage.FileSystem{Options: storage.FileSystemOptions{Path: dir}}
		_ = fs.Store(by, nil)
		if op["aged"] == true {
			// the other identifier's entry was stored long ago
			old := time.Now().Add(-26 * time.Hour)
			_ = os.Chtimes(entryPath(dir, pre+"bystander"), old, old)
		}
		if oldDoc != nil {
			_ = fs.Store(oldDoc, nil)
			if op["linked"] == true {
				// the operator moved the entry to another volume and left a symbolic link in its place
				p := entryPath(dir, id)
				tgt := filepath.Join(root, "moved-"+filepath.Base(p))
				_ = os.Remove(tgt)
				if os.Rename(p, tgt) == nil {
					_ = os.Symlink(tgt, p)
				}
			}
		}
	}
	var violations, seq []any
	points := 0
	// a later, uninterrupted store of a shorter document with the same identifier: what it leaves
	// must be exactly that document, whatever the crashed store left behind
	follow := storeDoc(id, 10+5*(bodyNew%5)) // no nodes, metadata as long as the new document's
	observe := func(what string, mustDie bool, exit string) {
		if mustDie && exit == "" {
			// the call this crash point waits for is not issued by this implementation: no such point
			return
		}
		points++
		fs := &storage.FileSystem{Options: storage.FileSystemOptions{Path: dir}}
		d, err := fs.Retrieve(id, nil)
		kind := ""
		switch {
		case err != nil:
			kind = "err"
		case d != nil && proto.Equal(d, newDoc):
			kind = "new"
		case d != nil && oldDoc != nil && proto.Equal(d, oldDoc):
			kind = "old"
		default:
			kind = "torn"
			violations = append(violations, fmt.Sprintf("crash at %s: retrieve returns neither the previous nor the new document nor an error: %v", what, docView(d, nil)))
		}
		if kind == "err" && oldDoc != nil {
			violations = append(violations, fmt.Sprintf("crash at %s: the previously stored document is lost (retrieve fails: %v)", what, err))
		}
		if len(seq) == 0 || seq[len(seq)-1] != kind {
			seq = append(seq, kind)
		}
		if b, err := fs.Retrieve(pre+"bystander", nil); !noDir && (err != nil || !proto.Equal(b, by)) {
			violations = append(violations, fmt.Sprintf("crash at %s: the entry of another identifier is damaged", what))
		}
		if what != "completion" {
			// a later store under ANOTHER identifier must not change what the crashed identifier
			// gives: still an error, the complete previous or the complete new document
			if err := fs.Store(storeDoc(pre+"neighbour", 3), nil); err != nil {
				violations = append(violations, fmt.Sprintf("crash at %s: a later store under another identifier fails: %v", what, err))
			} else if d3, err := fs.Retrieve(id, nil); err == nil && !(d3 != nil && (proto.Equal(d3, newDoc) || (oldDoc != nil && proto.Equal(d3, oldDoc)))) {
				violations = append(violations, fmt.Sprintf("crash at %s, then a store under another identifier: retrieve of the crashed identifier returns neither the previous nor the new document nor an error: %v", what, docView(d3, nil)))
			} else if err != nil && kind != "err" {
				violations = append(violations, fmt.Sprintf("crash at %s, then a store under another identifier: retrieve of the crashed identifier now fails (%v), before it gave the %s document", what, err, kind))
			}
			if err := fs.Store(follow, nil); err != nil {
				violations = append(violations, fmt.Sprintf("crash at %s: a later store of the same identifier fails: %v", what, err))
			} else if d2, err := fs.Retrieve(id, nil); err != nil || !proto.Equal(d2, follow) {
				violations = append(violations, fmt.Sprintf("crash at %s: after a later complete store, retrieve returns %v (error %v) instead of the stored document", what, docView(d2, nil), err))
			} else if err := fs.Store(storeDoc(pre+"neighbour-2", 4), nil); err != nil {
				violations = append(violations, fmt.Sprintf("crash at %s: a store under another identifier after the recovery fails: %v", what, err))
			} else if d4, err := fs.Retrieve(id, nil); err != nil || !proto.Equal(d4, follow) {
				// whatever the crash left behind, stores under other identifiers leave a complete entry alone
				violations = append(violations, fmt.Sprintf("crash at %s, a complete store of the same identifier, then a store under another identifier: retrieve returns %v (error %v) instead of the stored document", what, docView(d4, nil), err))
			}
			// and the restarted application stores the very document again whose store was interrupted
			if err := fs.Store(newDoc, nil); err != nil {
				violations = append(violations, fmt.Sprintf("crash at %s: storing the same document again later fails: %v", what, err))
			} else if d5, err := fs.Retrieve(id, nil); err != nil || !proto.Equal(d5, newDoc) {
				violations = append(violations, fmt.Sprintf("crash at %s, then the same document stored again without interruption: retrieve returns %v (error %v) instead of it", what, docView(d5, nil), err))
			}
		}
	}
	req := M{"op": "storeOnce", "dir": dir, "id": id, "body": float64(bodyNew), "nc": nc}
	if asStr(op["prelude"]) == "refused" && !noDir {
		req["prelude"] = "refused"
		req["refuse"] = pre + "bystander"
	}
	if asStr(op["tmpdir"]) == "missing" {
		// the storing process runs with a temporary directory that does not exist: atomicity must not
		// depend on the environment
		req["env"] = M{"TMPDIR": filepath.Join(root, "no-such-tmp")}
	}
	// inside the write: every torn prefix
	step := 1
	if len(enc) > 400 {
		step = len(enc) / 200
	}
	for k := 0; k < len(enc); k += step {
		reset()
		req["fsize"] = float64(k)
		_, exit := runChild(req)
		observe(fmt.Sprintf("write after %d of %d bytes", k, len(enc)), !(nc && hasOld), exit)
	}
	delete(req, "fsize")
	if op["soft"] == true {
		// the same limits with the signal ignored: the write is cut short and fails, the process goes
		// on and ends normally; whatever it reports, the entry is the old document, the new one or unreadable
		req["soft"] = true
		for k := 0; k < len(enc); k += step {
			reset()
			req["fsize"] = float64(k)
			r, exit := runChild(req)
			observe(fmt.Sprintf("write cut short after %d of %d bytes (the store returned %v)", k, len(enc), r), false, exit)
		}
		delete(req, "fsize")
		delete(req, "soft")
	}
	// between the calls: on entry of chmod and of rename
	for _, sc := range []string{"fchmodat,chmod,fchmod", "renameat,renameat2,rename"} {
		reset()
		_, exit := runChild(req, "strace", "-f", "-qq", "-o", "/dev/null", "-e", "trace="+sc, "-e", "inject="+sc+":signal=SIGKILL:when=1")
		observe("entry of "+strings.Split(sc, ",")[0], !(nc && hasOld), exit)
	}
	// no crash
	reset()
	r, exit := runChild(req)
	observe("completion", false, exit)
	want := "ok"
	if nc && hasOld {
		want = "err"
	}
	if exit != "" || asStr(r) != want {
		violations = append(violations, fmt.Sprintf("the uninterrupted store gave %v (exit %q), expected %s", r, exit, want))
	}
	return M{"points": float64(points), "outcomes": seq, "violations": violations}
}

func crashGen(g *G, tier string) []M {
	n := 9
	if tier == "thorough" {
		n = 49
	}
	var ops []M
	for i := 0; i < n; i++ {
		bn := 11 + g.Int(28)
		if bn%5 == 0 {
			bn++ // the new document has nodes
		}
		op := M{"op": "crash", "id": g.Pick([]string{"doc-1", "urn:uuid:1", "a/b"}), "bodyNew": float64(bn), "nc": false}
		switch i % 8 {
		case 7:
			// the storing process has just been refused a store on the same backend value
			op["prelude"] = "refused"
			if g.Chance(0.5) {
				op["bodyOld"] = float64(40 + g.Int(30))
			}
		case 1:
			op["bodyOld"] = float64(40 + g.Int(30))
		case 2:
			op["bodyOld"] = float64(40 + g.Int(30))
			op["nc"] = true
			if i%16 == 2 {
				// instead: an overwrite of an entry that is a symbolic link to a file elsewhere
				op["nc"] = false
				op["linked"] = true
			}
		case 3:
			op["nc"] = true // first-time store with no-clobber
		case 4:
			// the previous document encodes to exactly as many bytes as the new one (same number of
			// nodes, same name lengths): only the document name differs
			bn = 11 + g.Int(4)
			op["bodyNew"] = float64(bn)
			op["bodyOld"] = float64(bn + 85)
		case 5:
			op["tmpdir"] = "missing"
			if g.Chance(0.5) {
				op["bodyOld"] = float64(40 + g.Int(30))
			}
		case 6:
			op["nodir"] = true // first-time store into a directory that does not exist yet
		case 0:
			op["long"] = i > 0 // the first scenario keeps short identifiers
			op["soft"] = i == 0
		}
		if i%2 == 1 {
			op["aged"] = true
		}
		if i%8 == 1 {
			op["soft"] = true // an overwrite with writes that are cut short
		}
		ops = append(ops, op)
	}
	return ops
}

var CrashStream = &Stream{
	// scenarios of many calls (child processes, large documents): the watchdog allows for a loaded machine;
	// a call that blocks is still reported (the children have their own, shorter limits)
	Timeout: 240 * time.Second,
	Name:    "crash",
	Gen:     crashGen,
	Exec:    ExecStore,
	Oracle:  oracleStore,
	Canon: func(v any) any {
		n := Normalize(v)
		if m, ok := n.(M); ok && m["outcomes"] != nil {
			vs := m["violations"]
			if vs == nil {
				vs = []any{}
			}
			return M{"outcomes": m["outcomes"], "violations": vs}
		}
		if l, ok := n.([]any); ok {
			return M{"outcomes": l, "violations": []any{}} // the model: a list of outcomes, nothing else
		}
		return n
	},
	Nontrivial: func(op M) bool { return true },
	OpProps:    func(op M) []string { return []string{"C20"} },
	Reps:       1,
	NoShrink:   true,
}

var _ = base64.StdEncoding
