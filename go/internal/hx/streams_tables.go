package hx

import (
	"fmt"
	"strings"

	cdx "github.com/CycloneDX/cyclonedx-go"
	"github.com/protobom/protobom/pkg/sbom"
	"github.com/spdx/tools-golang/spdx/v2/common"
)

// The `tables` stream: translator validation. Every enum table the extractor regenerates for the
// Lean model and that has a public function behind it is compared, key by key and on keys around
// and outside the table, with what the running function returns.

var tableFuncs = map[string]func(k any) any{
	"edgeToSPDX2":             func(k any) any { return sbom.Edge_Type(asInt(k)).ToSPDX2() },
	"edgeFromSPDX2":           func(k any) any { return float64(sbom.EdgeTypeFromSPDX2(asStr(k))) },
	"edgeFromSPDX":            func(k any) any { return float64(sbom.EdgeTypeFromSPDX(asStr(k))) },
	"hashToSPDX":              func(k any) any { return string(sbom.HashAlgorithm(asInt(k)).ToSPDX()) },
	"hashFromSPDX":            func(k any) any { return float64(sbom.HashAlgorithmFromSPDX(common.ChecksumAlgorithm(asStr(k)))) },
	"hashFromCDX":             func(k any) any { return float64(sbom.HashAlgorithmFromCDX(cdx.HashAlgorithm(asStr(k)))) },
	"hashFromCycloneDX":       func(k any) any { return float64(sbom.HashAlgorithmFromCycloneDX(cdx.HashAlgorithm(asStr(k)))) },
	"identToSPDX2Type":        func(k any) any { return sbom.SoftwareIdentifierType(asInt(k)).ToSPDX2Type() },
	"identFromSPDXExtRefType": func(k any) any { return float64(sbom.SoftwareIdentifierTypeFromSPDXExtRefType(asStr(k))) },
}

var intKeyed = map[string]bool{"edgeToSPDX2": true, "hashToSPDX": true, "identToSPDX2Type": true}

func tablesGen(g *G, tier string) []M {
	var ops []M
	strKeys := []string{}
	for _, m := range []map[int32]string{sbom.Edge_Type_name, sbom.HashAlgorithm_name} {
		for _, n := range m {
			strKeys = append(strKeys, n, strings.ToUpper(n), strings.ToLower(n), strings.ReplaceAll(strings.ToUpper(n), "_", "-"))
		}
	}
	for _, e := range []sbom.Edge_Type{} {
		_ = e
	}
	// the names the formats themselves use
	for i := range sbom.Edge_Type_name {
		strKeys = append(strKeys, sbom.Edge_Type(i).ToSPDX2())
	}
	for i := range sbom.HashAlgorithm_name {
		strKeys = append(strKeys, string(sbom.HashAlgorithm(i).ToSPDX()))
	}
	strKeys = append(strKeys, "", "x", "purl", "cpe22Type", "cpe23Type", "gitoid", "swh", "swid", "MD5", "SHA-1", "SHA-256", "SHA-384", "SHA-512",
		"SHA3-256", "SHA3-384", "SHA3-512", "BLAKE2b-256", "BLAKE2b-384", "BLAKE2b-512", "BLAKE3", "sha256", "Sha-256", "md5 ")
	for name := range tableFuncs {
		if intKeyed[name] {
			for k := -3; k <= 60; k++ {
				ops = append(ops, M{"op": "table", "name": name, "k": float64(k)})
			}
			ops = append(ops, M{"op": "table", "name": name, "k": 9999.0})
		} else {
			for _, k := range strKeys {
				ops = append(ops, M{"op": "table", "name": name, "k": k})
			}
		}
	}
	return ops
}

func ExecTables(op M) (res any) {
	defer func() {
		if r := recover(); r != nil {
			res = fmt.Sprintf("panic: %v", r)
		}
	}()
	f, ok := tableFuncs[asStr(op["name"])]
	if !ok || op["k"] == nil {
		return "unknown-op"
	}
	return f(op["k"])
}

var TablesStream = &Stream{
	Name:       "tables",
	Gen:        tablesGen,
	Exec:       ExecTables,
	Canon:      func(v any) any { return Normalize(v) },
	Nontrivial: func(op M) bool { return true },
	OpProps:    func(op M) []string { return []string{"C01", "C02", "C03"} },
	Reps:       1,
	NoShrink:   true,
}
