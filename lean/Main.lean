/-
  Line-protocol driver for the executable model (lean_exe `pbmodel`).
  One JSON operation per input line, one JSON result per output line. Core + Lean.Data.Json only.
-/
import Lean.Data.Json
import Protobom.Model.Driver

open Lean Protobom

partial def loop (h : IO.FS.Stream) (out : IO.FS.Stream) : IO Unit := do
  let line ← h.getLine
  if line.isEmpty then return ()
  let l := line.trimAscii.toString
  if l.isEmpty then loop h out else
  let res := match Json.parse l with
    | .error e => Json.mkObj [("bad", Json.str e)]
    | .ok j => Driver.step j
  out.putStrLn res.compress
  loop h out

def main : IO Unit := do
  let out ← IO.getStdout
  loop (← IO.getStdin) out
  out.flush
