import Protobom.Model.Types
import Protobom.Model.NodeOps
import Protobom.Model.Graph
import Protobom.Model.Driver
import Protobom.Props.C09
