/-
  L2 identity layer. A value is a tree of *boxes* (mutable containers: a slice's backing array, a
  map, a pointed-to message), each carrying the allocation tag of its storage, over immutable
  leaves (strings, numbers, booleans). Fresh tags come from a counter threaded through every
  function (`Nat → α × Nat`).

  The `Copy` functions of the four message types are modelled field by field from the regenerated
  tables `Gen.NodeFields.*CopyTable`: `alias` keeps the field's tree (and therefore its tags),
  `clone` (`slices.Clone`, `maps.Clone`) and `newtime` (`timestamppb.New(x.AsTime())`) allocate one
  new box around the same children, `elemcopy` allocates a new box and copies every element with
  the element type's own `Copy` (a deep copy when that type's table obligation holds).
-/
import Protobom.Gen.NodeFields
import Protobom.Gen.Schema

namespace Protobom.L2

inductive Obj where
  | leaf (v : String)
  | box (tag : Nat) (kids : List Obj)
deriving Repr, Inhabited

mutual
  /-- all allocation tags reachable from a value -/
  def Obj.tags : Obj → List Nat
    | .leaf _ => []
    | .box t ks => t :: tagsL ks
  def tagsL : List Obj → List Nat
    | [] => []
    | o :: os => o.tags ++ tagsL os
end

/-- the value with every tag erased (what the L1 layer sees) -/
inductive Shape where
  | leaf (v : String)
  | node (kids : List Shape)
deriving Repr, Inhabited

mutual
  def Obj.erase : Obj → Shape
    | .leaf v => .leaf v
    | .box _ ks => .node (eraseL ks)
  def eraseL : List Obj → List Shape
    | [] => []
    | o :: os => o.erase :: eraseL os
end

mutual
  /-- deep copy: every box is re-allocated with a fresh tag -/
  def Obj.refresh : Obj → Nat → Obj × Nat
    | .leaf v, s => (.leaf v, s)
    | .box _ ks, s =>
      let r := refreshL ks (s + 1)
      (.box s r.1, r.2)
  def refreshL : List Obj → Nat → List Obj × Nat
    | [], s => ([], s)
    | o :: os, s =>
      let r := o.refresh s
      let rs := refreshL os r.2
      (r.1 :: rs.1, rs.2)
end

def Obj.isLeaf : Obj → Bool
  | .leaf _ => true
  | .box _ _ => false

/-- one field of a `Copy` function, by the form the extractor found; a leaf (immutable scalar,
    or a nil slice / map / date) has nothing to allocate; an unknown form shares (like `alias`) -/
def copyField (form : String) (o : Obj) (s : Nat) : Obj × Nat :=
  match o with
  | .leaf v => (.leaf v, s)
  | .box t ks =>
    if form = "clone" ∨ form = "newtime" then (.box s ks, s + 1)
    else if form = "elemcopy" then (let r := refreshL ks (s + 1); (.box s r.1, r.2))
    else (.box t ks, s)

/-- a message copy: a fresh message box whose fields are copied one by one -/
def copyFields : List String → List Obj → Nat → List Obj × Nat
  | f :: fs, o :: os, s =>
    let r := copyField f o s
    let rs := copyFields fs os r.2
    (r.1 :: rs.1, rs.2)
  | _, os, s => (os, s)

def copyMsg (forms : List String) (o : Obj) (s : Nat) : Obj × Nat :=
  match o with
  | .box _ ks => let r := copyFields forms ks (s + 1); (.box s r.1, r.2)
  | .leaf v => (.leaf v, s)

/-- does this form give the field storage of its own? `alias` does only for immutable leaves;
    `clone`/`newtime` only when the children are leaves (a cloned slice of pointers shares them) -/
def formFresh (form : String) (o : Obj) : Bool :=
  match o with
  | .leaf _ => true
  | .box _ ks =>
    if form = "clone" ∨ form = "newtime" then ks.all Obj.isLeaf
    else decide (form = "elemcopy")

def formsFresh : List String → List Obj → Bool
  | f :: fs, o :: os => formFresh f o && formsFresh fs os
  | [], [] => true
  | _, _ => false

/-- `Node.Update` at this layer: each field is taken from the argument (by alias) or kept -/
def updateFields (takes : List Bool) (n m : List Obj) : List Obj :=
  match takes, n, m with
  | t :: ts, a :: as, b :: bs => (if t then b else a) :: updateFields ts as bs
  | _, as, _ => as

end Protobom.L2
