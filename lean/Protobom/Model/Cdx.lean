/-
  L1 model of the CycloneDX translators:
    `serCDX`   — pkg/native/serializers/serializer_cdx.go (Serialize, componentsMaps, dependencies
                 with the two-pass hierarchy builder, nodeToComponent, clearAutoRefs)
    `codecCDX` — cyclonedx-go 0.9.0 `EncodeVersion` (copyAndConvert for the spec version) followed
                 by decoding, at structure level (a modelled contract, itself under correspondence)
    `unserCDX` — pkg/native/unserializers/unserializer_cdx.go (Unserialize, componentToNodeList,
                 componentToNode, licence helpers, unserializeExternalReferences)
-/
import Protobom.Model.Spdx

namespace Protobom.Cdx
open Protobom Gen

structure Hash where
  algo : String
  value : String
deriving Repr, BEq, DecidableEq, Inhabited

structure CRef where
  url : String := ""
  comment : String := ""
  typ : String := ""
  hashes : List Hash := []
deriving Repr, BEq, DecidableEq, Inhabited

/-- a licence choice: `expression`, and the `license` object (absent, or with an id) -/
structure LicChoice where
  expression : String := ""
  license : Option String := none
deriving Repr, BEq, DecidableEq, Inhabited

structure Contact where
  name : String := ""
  email : String := ""
  phone : String := ""
deriving Repr, BEq, DecidableEq, Inhabited

inductive Component where
  | mk (bomRef typ name version description copyright purl cpe : String)
       (licenses : Option (List LicChoice)) (hashes : List Hash) (extRefs : List CRef)
       (supplier : Option (String × List Contact)) (components : List Component)
deriving Repr, Inhabited

def Component.bomRef : Component → String | .mk r _ _ _ _ _ _ _ _ _ _ _ _ => r
def Component.typ : Component → String | .mk _ t _ _ _ _ _ _ _ _ _ _ _ => t
def Component.name : Component → String | .mk _ _ n _ _ _ _ _ _ _ _ _ _ => n
def Component.kids : Component → List Component | .mk _ _ _ _ _ _ _ _ _ _ _ _ k => k

def Component.withKids : Component → List Component → Component
  | .mk r t n v d c p e l h x s _, ks => .mk r t n v d c p e l h x s ks
def Component.withRef : Component → String → Component
  | .mk _ t n v d c p e l h x s k, r => .mk r t n v d c p e l h x s k
def Component.withName : Component → String → Component
  | .mk r t _ v d c p e l h x s k, n => .mk r t n v d c p e l h x s k

structure Lifecycle where
  phase : String := ""
  name : String := ""
  description : String := ""
deriving Repr, BEq, DecidableEq, Inhabited

structure Bom where
  serial : String := ""
  version : Int := 1
  metaComponent : Option Component := none
  lifecycles : List Lifecycle := []
  authors : List Contact := []
  tools : List (String × String) := []
  components : List Component := []
  deps : List (String × List String) := []
deriving Repr, Inhabited

def lookupD {κ β} [BEq κ] (tbl : List (κ × β)) (d : β) (k : κ) : β := (tbl.lookup k).getD d

/-! ### serializer -/

def hashOut (a : Int) : Option String := Tables.cdxHashOut.lookup a
def refTypeOut (t : Int) : String := lookupD Tables.cdxExtRefTypeOut Tables.cdxExtRefTypeOut_default t
def purposeOut (p : Int) : Option String := Tables.cdxPurposeOut.lookup p

def hashesOut (m : List (Int × String)) : List Hash :=
  (sortedByKey m).filterMap (fun kv => (hashOut kv.1).map (fun a => { algo := a, value := kv.2 }))

/-- `nodeToComponent` -/
def nodeToComponent (n : Node) : Component :=
  let typ :=
    if n.typ = 1 then "file"
    else match Spdx.Node.enums n "PrimaryPurpose" with
      | p :: _ => (purposeOut p).getD ""
      | [] => ""
  let lic := match Spdx.Node.strs n "Licenses" with
    | [] => none
    | ls => some (ls.map (fun l => { license := some l }))
  let refs := (Spdx.Node.refs n "ExternalReferences").map (fun r =>
      { url := r.url, comment := r.comment, typ := refTypeOut r.typ, hashes := hashesOut r.hashes })
  let ids := n.identifiers
  let purl := (ids.lookup 1).getD ""
  let cpe := match ids.lookup 3 with
    | some c => c
    | none => (ids.lookup 2).getD ""
  let supplier := match Spdx.Node.persons n "Suppliers" with
    | (.mk name _ _ _ _ contacts) :: _ =>
      some (name, contacts.map (fun c => match c with
        | .mk cn _ ce _ cp _ => ({ name := cn, email := ce, phone := cp } : Contact)))
    | [] => none
  .mk n.id typ (Spdx.Node.str n "Name") (Spdx.Node.str n "Version") (Spdx.Node.str n "Description")
      (Spdx.Node.str n "Copyright") purl cpe lic (hashesOut n.hashes) refs supplier []

/-- `componentsDict`: keyed by bom-ref, a later node with the same identifier replaces the earlier -/
def dictOf (nodes : List Node) : List (String × Component) :=
  nodes.foldl (fun d n =>
    let c := nodeToComponent n
    if d.any (·.1 = n.id) then d.map (fun kv => if kv.1 = n.id then (n.id, c) else kv) else d ++ [(n.id, c)]) []

/-- the first pass over the edges: validation, the children map (in edge order), the dependencies -/
structure Pass1 where
  children : List (String × List String) := []
  deps : List (String × List String) := []

def addChildren (m : List (String × List String)) (k : String) (vs : List String) : List (String × List String) :=
  if m.any (·.1 = k) then m.map (fun kv => if kv.1 = k then (k, kv.2 ++ vs) else kv) else m ++ [(k, vs)]

def pass1 (known : String → Bool) (edges : List Edge) : Outcome Pass1 :=
  edges.foldl (fun (acc : Outcome Pass1) e =>
    acc.bind fun st =>
      if !known e.src then .err
      else if e.ty = 5 then
        if e.tos.all known then .ok { st with children := addChildren st.children e.src e.tos } else .err
      else if e.ty = 10 then
        -- targets are taken in order; a repeated one is skipped before it is looked up
        let r := e.tos.foldl (fun (a : Option (List String)) t =>
          a.bind fun ts => if t ∈ ts then some ts else if known t then some (ts ++ [t]) else none) (some [])
        match r with
        | some ts => .ok { st with deps := st.deps ++ [(e.src, ts)] }
        | none => .err
      else .ok st) (.ok {})

/-- state of the second pass -/
structure NestSt where
  placed : List String
  built : List String
  comps : List (String × Component)

def NestSt.comp (st : NestSt) (id : String) : Option Component := st.comps.lookup id

def setComp (m : List (String × Component)) (k : String) (c : Component) : List (String × Component) :=
  if m.any (·.1 = k) then m.map (fun kv => if kv.1 = k then (k, c) else kv) else m ++ [(k, c)]

/-- `nest`: depth-first assembly of the hierarchy. `fuel` bounds the depth; a path never repeats
    an identifier, so `number of identifiers + 1` is always enough (the driver passes that). -/
def nest (children : String → List String) : Nat → String → List String → NestSt → NestSt
  | 0, _, _, st => st
  | fuel + 1, id, path, st =>
    if id ∈ st.built then st else
    let st := { st with built := id :: st.built }
    let r := (children id).foldl (fun (acc : NestSt × List Component) t =>
        let st := acc.1
        if t ∈ id :: path ∨ t ∈ st.placed then acc
        else
          let st := { st with placed := t :: st.placed }
          let st := nest children fuel t (id :: path) st
          match st.comp t with
          | some c => (st, acc.2 ++ [c])
          | none => (st, acc.2)) (st, [])
    match r.1.comp id with
    | some c => { r.1 with comps := setComp r.1.comps id (c.withKids (c.kids ++ r.2)) }
    | none => r.1

/-- `clearAutoRefs` -/
def isAutoRef (r : String) : Bool :=
  Str.hasPrefix r "protobom-" &&
    (match Str.splitFirst r "--" with
     | some (flags, _) => Str.containsSub flags "-auto"
     | none => Str.containsSub r "-auto")

mutual
  def clearAuto : Component → Component
    | .mk r t n v d c p e l h x s ks => .mk (if isAutoRef r then "" else r) t n v d c p e l h x s (clearAutoL ks)
  def clearAutoL : List Component → List Component
    | [] => []
    | c :: cs => clearAuto c :: clearAutoL cs
end

def phaseOut (dt : DocType) : Outcome Lifecycle :=
  match dt.typ with
  | none => .ok { name := dt.name.getD "", description := dt.desc.getD "" }
  | some t =>
    match Tables.cdxPhaseOut.lookup t with
    | some p =>
      -- the one clause whose result is not a constant is DocumentType_OTHER: the lower-cased name
      if p = "<?>" then .ok { phase := String.mk ((dt.name.getD "").toList.map Str.lowerChar) }
      else .ok { phase := p }
    | none => .err

def versionInt (s : String) : Int :=
  -- strconv.Atoi: optional sign, digits only; anything else leaves the default 1
  match s.toList with
  | [] => 1
  | '-' :: ds => if ds ≠ [] ∧ ds.all Char.isDigit then -(Spdx.digitsVal ds : Int) else 1
  | '+' :: ds => if ds ≠ [] ∧ ds.all Char.isDigit then (Spdx.digitsVal ds : Int) else 1
  | ds => if ds.all Char.isDigit then (Spdx.digitsVal ds : Int) else 1

/-- `CDX.Serialize` -/
def serCDX (d : Document) : Outcome Bom :=
  match d.metadata, d.nodeList with
  | none, _ => .err
  | some _, none => .err
  | some md, some nl =>
    let base : Bom := { serial := md.id, version := versionInt md.version }
    if nl.roots.isEmpty then (if nl.nodes.isEmpty then .ok base else .err)
    else if nl.roots.length > 1 then .err
    else
      let rootID := nl.roots.head!
      match nl.getNodeByID rootID with
      | none => .err
      | some rootNode =>
        let dict := dictOf nl.nodes
        let known (id : String) : Bool := dict.any (·.1 = id)
        (mapLifecycles md.docTypes).bind fun lcs =>
        (pass1 known nl.edges).bind fun p1 =>
          let children (id : String) : List String := (p1.children.lookup id).getD []
          let fuel := dict.length + 2
          let st0 : NestSt := { placed := [rootNode.id], built := [], comps := dict }
          let st := nl.nodes.foldl (fun st n => if n.id = rootID then st else nest children fuel n.id [] st) st0
          let top := (dict.filter (fun kv => kv.1 ∉ st.placed)).filterMap (fun kv => st.comp kv.1)
          let rootC := nodeToComponent rootNode
          let rootC := if md.name ≠ "" ∧ rootC.name = "" then rootC.withName md.name else rootC
          .ok { base with
                metaComponent := some rootC
                lifecycles := lcs
                authors := md.authors.map (fun a => match a with
                  | .mk n _ e _ p _ => ({ name := n, email := e, phone := p } : Contact))
                tools := md.tools.map (fun t => (t.name, t.version))
                components := clearAutoL top
                deps := p1.deps }
where
  mapLifecycles (dts : List DocType) : Outcome (List Lifecycle) :=
    dts.foldl (fun acc dt => acc.bind fun l => (phaseOut dt).map (fun x => l ++ [x])) (.ok [])

/-! ### cyclonedx-go: convert for the spec version, encode, decode -/

/-- spec versions as numbers: 1.3 ↦ 3, 1.4 ↦ 4, 1.5 ↦ 5 -/
def supportsType (v : Nat) (t : String) : Bool :=
  if t ∈ ["application", "device", "framework", "library", "operating-system", "file", "container", "firmware"] then true
  else if t ∈ ["data", "device-driver", "machine-learning-model", "platform"] then v ≥ 5
  else false

def refTypes15 : List String :=
  ["adversary-model", "attestation", "certification-report", "codified-infrastructure", "component-analysis-report",
   "configuration", "distribution-intake", "dynamic-analysis-report", "evidence", "exploitability-statement",
   "formulation", "log", "maturity-report", "model-card", "pentest-report", "quality-metrics", "risk-assessment",
   "runtime-analysis-report", "static-analysis-report", "threat-model", "vulnerability-assertion"]

def convRef (v : Nat) (r : CRef) : CRef :=
  { r with typ := if r.typ ∈ refTypes15 ∧ v < 5 then "other" else r.typ }

mutual
  def convComp (v : Nat) : Component → Component
    | .mk r t n ver d c p e l h x s ks =>
      .mk r (if supportsType v t then t else "application") n (if v < 4 ∧ ver = "" then "0.0.0" else ver)
          d c p e l h (x.map (convRef v)) s (convCompL v ks)
  def convCompL (v : Nat) : List Component → List Component
    | [] => []
    | c :: cs => convComp v c :: convCompL v cs
end

def codecCDX (v : Nat) (b : Bom) : Bom :=
  { b with metaComponent := b.metaComponent.map (convComp v)
           lifecycles := if v < 5 then [] else b.lifecycles
           components := convCompL v b.components }

/-! ### parser -/

def purposeIn (t : String) : Int := lookupD Tables.cdxPurposeIn Tables.cdxPurposeIn_default t
def hashIn (a : String) : Int := lookupD Tables.cdxHashIn Tables.cdxHashIn_default a
def hashFromCDX (a : String) : Int := lookupD Tables.hashFromCDX Tables.hashFromCDX_default a
def refTypeIn (t : String) : Int := lookupD Tables.cdxExtRefTypeIn Tables.cdxExtRefTypeIn_default t

def licenseID (lc : LicChoice) : String := lc.license.getD ""

/-- `licenseChoicesToLicenseList`: returns after the first usable entry -/
def licenseList (l : Option (List LicChoice)) : List String :=
  match l with
  | none => []
  | some lcs =>
    match lcs.find? (fun lc => !(lc.expression = "" ∧ licenseID lc = "")) with
    | some lc => [if lc.expression ≠ "" then lc.expression else licenseID lc]
    | none => []

/-- `licenseChoicesToLicenseString` -/
def licenseString (l : Option (List LicChoice)) : String :=
  match l with
  | none => ""
  | some lcs =>
    lcs.foldl (fun s lc =>
      if lc.expression = "" ∧ licenseID lc = "" then s else
      let s := if s ≠ "" then s ++ "(" ++ s ++ ") OR " else s
      let nl := if lc.expression ≠ "" then lc.expression else licenseID lc
      if s = "" then nl else s ++ " (" ++ nl ++ ")") ""

def autoId (cc : Nat) : String := "protobom-auto--" ++ Str.pad9 cc

/-- hashes of a component: unknown algorithms are skipped, the first entry per algorithm wins -/
def compHashes (hashes : List Hash) : List (Int × String) :=
  hashes.foldl (fun m h =>
    let a := hashFromCDX h.algo
    if a = 0 then m else if m.any (·.1 = a) then m else m ++ [(a, h.value)]) ([] : List (Int × String))

def compRefs (refs : List CRef) : List Protobom.ExtRef :=
  refs.map (fun x =>
    ({ url := x.url, comment := x.comment, typ := refTypeIn x.typ,
       hashes := x.hashes.foldl (fun m h => Spdx.mapStore m (hashIn h.algo) h.value) [] } : Protobom.ExtRef))

def compIds (purl cpe : String) : List (Int × String) :=
  (if cpe = "" then [] else [((if Str.hasPrefix cpe "cpe:2.3" then 3 else 2 : Int), cpe)])
    ++ (if purl = "" then [] else [(1, purl)])

/-- the attribute with Go field name `f` that `componentToNode` gives the node of a component -/
def compAttr (c : Component) (f : String) (k : Kind) : Val :=
  match c with
  | .mk _ t n v d cp purl cpe lic hashes refs _ _ =>
    if f = "Name" then .str n
    else if f = "Version" then .str v
    else if f = "Licenses" then .strs (licenseList lic)
    else if f = "LicenseConcluded" then .str (licenseString lic)
    else if f = "Copyright" then .str cp
    else if f = "Hashes" then .imap (compHashes hashes)
    else if f = "Description" then .str d
    else if f = "ExternalReferences" then .refs (compRefs refs)
    else if f = "Identifiers" then .imap (compIds purl cpe)
    else if f = "PrimaryPurpose" then .enums [purposeIn t]
    else k.zero

def componentToNode (c : Component) (cc : Nat) : Node :=
  match c with
  | .mk r t n v d cp purl cpe lic hashes refs s ks =>
    { id := if r = "" then autoId cc else r
      typ := if purposeIn t = 12 then 1 else 0     -- Purpose_FILE
      attrs := Schema.nodeAttrs.map (fun fk => compAttr (.mk r t n v d cp purl cpe lic hashes refs s ks) fk.1 fk.2) }

mutual
  /-- `componentToNodeList`: the node list of a component subtree and the updated counter -/
  def compToNL : Component → Nat → NodeList × Nat
    | .mk r t n v d cp purl cpe lic hashes refs s ks, cc =>
      let cc := cc + 1
      let node := componentToNode (.mk r t n v d cp purl cpe lic hashes refs s ks) cc
      let nl0 : NodeList := { nodes := [node], edges := [], roots := [node.id] }
      compsToNL ks cc nl0 node.id
  /-- grafting the sub-lists of the children below `anchor`, in order -/
  def compsToNL : List Component → Nat → NodeList → String → NodeList × Nat
    | [], cc, acc, _ => (acc, cc)
    | k :: ks, cc, acc, anchor =>
      let r := compToNL k cc
      let acc := (acc.relateNodeListAtID r.1 anchor 5).getD acc
      compsToNL ks r.2 acc anchor
end

def phaseIn (p : String) : Option Int :=
  match Tables.cdxPhaseIn.lookup p with
  | some v => if v = -999 then none else some v
  | none => none

/-- `CDX.Unserialize` after decoding -/
def unserCDX (b : Bom) : Document :=
  let md : Metadata :=
    { id := b.serial, version := toString b.version
      docTypes := b.lifecycles.map (fun lc =>
        { typ := phaseIn lc.phase, name := some (if lc.name = "" then lc.phase else lc.name),
          desc := some lc.description }) }
  let st0 : NodeList × Nat := ({}, 0)
  let st1 := match b.metaComponent with
    | some c => let r := compToNL c st0.2; (st0.1.add r.1, r.2)
    | none => st0
  let st2 := b.components.foldl (fun (st : NodeList × Nat) c =>
      let r := compToNL c st.2
      match st.1.roots with
      | [] => (st.1.add r.1, r.2)
      | root :: _ => ((st.1.relateNodeListAtID r.1 root 5).getD st.1, r.2)) st1
  { metadata := some md, nodeList := some st2.1 }

def rtCDX (v : Nat) (d : Document) : Outcome Document :=
  (serCDX d).map fun b => unserCDX (codecCDX v b)

end Protobom.Cdx
