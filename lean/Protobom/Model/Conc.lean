/- Threads, reader/writer locks and shared variables: the L3 model behind C17.
   A thread is a list of events; a configuration maps thread ids to (locks held, events left);
   any thread whose next event is enabled may take a step. -/
namespace Protobom.Conc

inductive Mode where
  | R | W
deriving Repr, DecidableEq

inductive Ev where
  | lock (l : String) (m : Mode)
  | unlock (l : String) (m : Mode)
  | read (x : String)
  | write (x : String)
deriving Repr, DecidableEq

structure T where
  held : List (String × Mode) := []
  rem : List Ev := []
deriving Repr

abbrev Cfg := Nat → T

def upd (c : Cfg) (i : Nat) (t : T) : Cfg := fun j => if j = i then t else c j

/-- RWMutex semantics: a write lock needs the lock free, a read lock needs no writer -/
def enabled (c : Cfg) (i : Nat) : Ev → Prop
  | .lock l .W => ∀ j, j ≠ i → ∀ m, (l, m) ∉ (c j).held
  | .lock l .R => ∀ j, j ≠ i → (l, Mode.W) ∉ (c j).held
  | _ => True

/-- thread `i` takes its next event -/
inductive Step : Cfg → Cfg → Prop
  | lock (c : Cfg) (i : Nat) (l : String) (m : Mode) (r : List Ev) :
      (c i).rem = .lock l m :: r → enabled c i (.lock l m) →
      Step c (upd c i { held := (l, m) :: (c i).held, rem := r })
  | unlock (c : Cfg) (i : Nat) (l : String) (m : Mode) (r : List Ev) :
      (c i).rem = .unlock l m :: r →
      Step c (upd c i { held := (c i).held.erase (l, m), rem := r })
  | read (c : Cfg) (i : Nat) (x : String) (r : List Ev) :
      (c i).rem = .read x :: r → Step c (upd c i { (c i) with rem := r })
  | write (c : Cfg) (i : Nat) (x : String) (r : List Ev) :
      (c i).rem = .write x :: r → Step c (upd c i { (c i) with rem := r })

inductive Reach (c0 : Cfg) : Cfg → Prop
  | refl : Reach c0 c0
  | step {c c'} : Reach c0 c → Step c c' → Reach c0 c'

/-- a data race: two different threads are about to touch the same variable, one of them writing -/
def Race (c : Cfg) : Prop :=
  ∃ i j x, i ≠ j ∧ (∃ r, (c i).rem = .write x :: r) ∧
    ((∃ r, (c j).rem = .read x :: r) ∨ (∃ r, (c j).rem = .write x :: r))

/-- the locking discipline of one thread, checked statically along its event list:
    `prot x` is the lock that guards variable `x` -/
def WL (prot : String → String) : List (String × Mode) → List Ev → Prop
  | _, [] => True
  | held, .lock l m :: r => (∀ m', (l, m') ∉ held) ∧ WL prot ((l, m) :: held) r
  | held, .unlock l m :: r => (l, m) ∈ held ∧ WL prot (held.erase (l, m)) r
  | held, .read x :: r => (∃ m, (prot x, m) ∈ held) ∧ WL prot held r
  | held, .write x :: r => (prot x, Mode.W) ∈ held ∧ WL prot held r

/-- the initial configuration of a set of thread programs -/
def initCfg (progs : List (List Ev)) : Cfg := fun i => { held := [], rem := progs.getD i [] }

end Protobom.Conc
