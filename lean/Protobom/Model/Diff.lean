/-
  L1 model of pkg/sbom/diff.go: `Node.Diff` and its helpers, driven by the regenerated
  `Gen.NodeFields.diffTable`; plus `apply`, the reconstruction the property speaks about.
-/
import Protobom.Model.Flat

namespace Protobom
open Gen

/-- `diff[T comparable]` on strings -/
def diffStr (a b : String) : String × String × Nat :=
  if a = b then ("", "", 0) else if b = "" then ("", a, 1) else (b, "", 1)

/-- `diff[T comparable]` on enum numbers (the node type) -/
def diffInt (a b : Int) : Int × Int × Nat :=
  if a = b then (0, 0, 0) else if b = 0 then (0, a, 1) else (b, 0, 1)

/-- `diffSlice`: set differences in list order -/
def diffSliceL {α} [DecidableEq α] (a b : List α) : List α × List α × Nat :=
  let added := b.filter (· ∉ a)
  let removed := a.filter (· ∉ b)
  (added, removed, if added.isEmpty ∧ removed.isEmpty then 0 else 1)

/-- `diffList`: set differences by flattened string -/
def diffListBy {α} (flat : α → String) (a b : List α) : List α × List α × Nat :=
  let added := b.filter (fun x => flat x ∉ a.map flat)
  let removed := a.filter (fun x => flat x ∉ b.map flat)
  (added, removed, if added.isEmpty ∧ removed.isEmpty then 0 else 1)

/-- `diffDates`: compared to the second -/
def diffDate (a b : Option (Int × Int)) : Option (Int × Int) × Option (Int × Int) × Nat :=
  match a, b with
  | some x, some y => if x.1 ≠ y.1 then (some y, none, 1) else (none, none, 0)
  | none, some y => (some y, none, 1)
  | some x, none => (none, some x, 1)
  | none, none => (none, none, 0)

/-- `diffMap` on key-unique association lists: a changed or new entry is added, a vanished key removed -/
def diffMapL (a b : List (Int × String)) : List (Int × String) × List (Int × String) × Nat :=
  let added := b.filter (fun kv => a.lookup kv.1 ≠ some kv.2)
  let removed := a.filter (fun kv => (b.lookup kv.1).isNone)
  (added, removed, if added.isEmpty ∧ removed.isEmpty then 0 else 1)

/-- the helper `Node.Diff` is expected to use for each kind -/
def Kind.diffHelper : Kind → String
  | .str => "diff"
  | .strs => "diffSlice"
  | .enums => "diffSlice"
  | .imap => "diffMap"
  | .date => "diffDates"
  | .persons => "diffList"
  | .refs => "diffList"

def diffHandles (f : String) (k : Kind) : Bool := NodeFields.diffTable.contains (f, k.diffHelper)

/-- difference of one attribute: (added, removed, 0 or 1) -/
def diffVal (k : Kind) (a b : Val) : Val × Val × Nat :=
  match k, a, b with
  | .str, .str x, .str y => let r := diffStr x y; (.str r.1, .str r.2.1, r.2.2)
  | .strs, .strs x, .strs y => let r := diffSliceL x y; (.strs r.1, .strs r.2.1, r.2.2)
  | .enums, .enums x, .enums y => let r := diffSliceL x y; (.enums r.1, .enums r.2.1, r.2.2)
  | .imap, .imap x, .imap y => let r := diffMapL x y; (.imap r.1, .imap r.2.1, r.2.2)
  | .date, .date x, .date y => let r := diffDate x y; (.date r.1, .date r.2.1, r.2.2)
  | .persons, .persons x, .persons y => let r := diffListBy Person.flat x y; (.persons r.1, .persons r.2.1, r.2.2)
  | .refs, .refs x, .refs y => let r := diffListBy ExtRef.flat x y; (.refs r.1, .refs r.2.1, r.2.2)
  | k, _, _ => (k.zero, k.zero, 0)

structure NodeDiff where
  added : Node
  removed : Node
  count : Nat
deriving Repr, Inhabited

/-- per-attribute results along the schema; an attribute `Node.Diff` does not handle (with the
    helper its kind calls for) contributes nothing -/
def diffAttrs : List (String × Kind) → List Val → List Val → List (Val × Val × Nat)
  | (f, k) :: fs, a :: as, b :: bs =>
    (if diffHandles f k then diffVal k a b else (k.zero, k.zero, 0)) :: diffAttrs fs as bs
  | _, _, _ => []

/-- `Node.Diff` before the final nil test -/
def Node.diffRaw (n m : Node) : NodeDiff :=
  let i := if NodeFields.diffTable.contains ("Id", "diff") then diffStr n.id m.id else ("", "", 0)
  let t := if NodeFields.diffTable.contains ("Type", "diff") then diffInt n.typ m.typ else (0, 0, 0)
  let rs := diffAttrs Schema.nodeAttrs n.attrs m.attrs
  { added := { id := i.1, typ := t.1, attrs := rs.map (·.1) }
    removed := { id := i.2.1, typ := t.2.1, attrs := rs.map (·.2.1) }
    count := i.2.2 + t.2.2 + (rs.map (·.2.2)).sum }

/-- `Node.Diff`: nil when nothing differs -/
def Node.diff (n m : Node) : Option NodeDiff :=
  let d := n.diffRaw m
  if d.count > 0 then some d else none

/-! ### reconstruction -/

def applyVal (k : Kind) (old added removed : Val) : Val :=
  match k, old, added, removed with
  | .str, .str o, .str a, .str r => .str (if a ≠ "" then a else if r ≠ "" then "" else o)
  | .strs, .strs o, .strs a, .strs r => .strs (o.filter (· ∉ r) ++ a)
  | .enums, .enums o, .enums a, .enums r => .enums (o.filter (· ∉ r) ++ a)
  | .imap, .imap o, .imap a, .imap r =>
    .imap (a ++ o.filter (fun kv => (a.lookup kv.1).isNone ∧ (r.lookup kv.1).isNone))
  | .date, .date o, .date a, .date r => .date (if a.isSome then a else if r.isSome then none else o)
  | .persons, .persons o, .persons a, .persons r =>
    .persons (o.filter (fun x => x.flat ∉ r.map Person.flat) ++ a)
  | .refs, .refs o, .refs a, .refs r =>
    .refs (o.filter (fun x => x.flat ∉ r.map ExtRef.flat) ++ a)
  | _, o, _, _ => o

def applyAttrs : List (String × Kind) → List Val → List Val → List Val → List Val
  | (_, k) :: fs, o :: os, a :: as, r :: rs => applyVal k o a r :: applyAttrs fs os as rs
  | _, os, _, _ => os

/-- rebuild the second node's attributes from the first node and the reported difference -/
def Node.applyDiff (n : Node) (d : Option NodeDiff) : Node :=
  match d with
  | none => n
  | some d =>
    { id := if d.added.id ≠ "" then d.added.id else if d.removed.id ≠ "" then "" else n.id
      typ := if d.added.typ ≠ 0 then d.added.typ else if d.removed.typ ≠ 0 then 0 else n.typ
      attrs := applyAttrs Schema.nodeAttrs n.attrs d.added.attrs d.removed.attrs }

end Protobom
