/-
  The `sbom.Document` message with every optional part as `Option`, and `Outcome`:
  how a call of the real API can end (value, error return, panic).
-/
import Protobom.Model.Graph

namespace Protobom

inductive Outcome (α : Type) where
  | ok (a : α)
  | err
  | panic (site : String)
deriving Repr, Inhabited, DecidableEq

def Outcome.bind {α β} (o : Outcome α) (f : α → Outcome β) : Outcome β :=
  match o with
  | .ok a => f a
  | .err => .err
  | .panic s => .panic s

def Outcome.map {α β} (o : Outcome α) (f : α → β) : Outcome β := o.bind (fun a => .ok (f a))

def Outcome.isPanic {α} : Outcome α → Bool
  | .panic _ => true
  | _ => false

structure Tool where
  name : String := ""
  version : String := ""
  vendor : String := ""
deriving Repr, Inhabited, BEq

/-- `DocumentType`: all three fields are `optional` in the schema -/
structure DocType where
  typ : Option Int := none
  name : Option String := none
  desc : Option String := none
deriving Repr, Inhabited, BEq

structure Metadata where
  id : String := ""
  version : String := ""
  name : String := ""
  comment : String := ""
  date : Option (Int × Int) := none
  tools : List Tool := []
  authors : List Person := []
  docTypes : List DocType := []
deriving Repr, Inhabited

structure Document where
  metadata : Option Metadata := none
  nodeList : Option NodeList := none
deriving Repr, Inhabited

end Protobom
