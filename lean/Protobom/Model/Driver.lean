/-
  JSON codecs for the model values and the operation dispatcher of the line protocol.
  Unknown or malformed operations answer {"bad": ...}; nothing is defaulted.
-/
import Lean.Data.Json
import Protobom.Model.Graph
import Protobom.Model.Diff

namespace Protobom.Driver
open Lean Protobom

abbrev R := Except String

def arrOf (j : Json) : R (Array Json) := j.getArr?

def strList (j : Json) : R (List String) := do
  let a ← j.getArr?
  a.toList.mapM (·.getStr?)

def intList (j : Json) : R (List Int) := do
  let a ← j.getArr?
  a.toList.mapM (·.getInt?)

def pairList (j : Json) : R (List (Int × String)) := do
  let a ← j.getArr?
  a.toList.mapM fun p => do
    let q ← p.getArr?
    if q.size ≠ 2 then throw "pair" else
    pure ((← q[0]!.getInt?), (← q[1]!.getStr?))

def optStr (j : Json) (k : String) : String :=
  match j.getObjVal? k with
  | .ok v => (v.getStr?.toOption).getD ""
  | _ => ""

partial def personOf (j : Json) : R Person := do
  let cs ← match j.getObjVal? "c" with
    | .ok v => do let a ← v.getArr?; a.toList.mapM personOf
    | _ => pure []
  let o := match j.getObjVal? "o" with
    | .ok (Json.bool b) => b
    | _ => false
  pure (Person.mk (optStr j "n") o (optStr j "e") (optStr j "u") (optStr j "p") cs)

def refOf (j : Json) : R ExtRef := do
  let h ← match j.getObjVal? "h" with
    | .ok v => pairList v
    | _ => pure []
  let t ← match j.getObjVal? "t" with
    | .ok v => v.getInt?
    | _ => pure 0
  pure { url := optStr j "u", typ := t, comment := optStr j "c", authority := optStr j "a", hashes := h }

def valOf (k : Kind) (j : Json) : R Val :=
  match k with
  | .str => do pure (.str (← j.getStr?))
  | .strs => do pure (.strs (← strList j))
  | .enums => do pure (.enums (← intList j))
  | .imap => do pure (.imap (← pairList j))
  | .date => do
      let l ← intList j
      match l with
      | [s, n] => pure (.date (some (s, n)))
      | _ => throw "date"
  | .persons => do let a ← j.getArr?; pure (.persons (← a.toList.mapM personOf))
  | .refs => do let a ← j.getArr?; pure (.refs (← a.toList.mapM refOf))

def nodeOf (j : Json) : R Node := do
  let id ← (← j.getObjVal? "id").getStr?
  let typ ← match j.getObjVal? "type" with
    | .ok v => v.getInt?
    | _ => pure 0
  let a := (j.getObjVal? "a").toOption.getD (Json.mkObj [])
  let attrs ← Gen.Schema.nodeAttrs.mapM fun (f, k) =>
    match a.getObjVal? f with
    | .ok v => valOf k v
    | _ => pure k.zero
  pure { id := id, typ := typ, attrs := attrs }

def edgeOf (j : Json) : R Edge := do
  pure { ty := (← (← j.getObjVal? "ty").getInt?), src := (← (← j.getObjVal? "src").getStr?),
         tos := (← strList (← j.getObjVal? "tos")) }

def nlOf (j : Json) : R NodeList := do
  let ns ← (← arrOf (← j.getObjVal? "nodes")).toList.mapM nodeOf
  let es ← (← arrOf (← j.getObjVal? "edges")).toList.mapM edgeOf
  let rs ← strList (← j.getObjVal? "roots")
  pure { nodes := ns, edges := es, roots := rs }

/-! ### rendering -/

def jStrs (l : List String) : Json := Json.arr (l.map Json.str).toArray
def jInts (l : List Int) : Json := Json.arr (l.map (fun i => toJson i)).toArray
def jPairs (l : List (Int × String)) : Json :=
  Json.arr (l.map (fun p => Json.arr #[toJson p.1, Json.str p.2])).toArray

partial def jPerson : Person → Json
  | .mk n o e u p cs =>
    Json.mkObj ([("n", Json.str n), ("o", Json.bool o)]
      ++ (if e = "" then [] else [("e", Json.str e)])
      ++ (if u = "" then [] else [("u", Json.str u)])
      ++ (if p = "" then [] else [("p", Json.str p)])
      ++ (if cs.isEmpty then [] else [("c", Json.arr (cs.map jPerson).toArray)]))

def jRef (r : ExtRef) : Json :=
  Json.mkObj ([("t", toJson r.typ)]
    ++ (if r.url = "" then [] else [("u", Json.str r.url)])
    ++ (if r.comment = "" then [] else [("c", Json.str r.comment)])
    ++ (if r.authority = "" then [] else [("a", Json.str r.authority)])
    ++ (if r.hashes.isEmpty then [] else [("h", jPairs r.hashes)]))

def jVal : Val → Json
  | .str s => Json.str s
  | .strs l => jStrs l
  | .enums l => jInts l
  | .imap m => jPairs m
  | .date (some (s, n)) => jInts [s, n]
  | .date none => Json.null
  | .persons l => Json.arr (l.map jPerson).toArray
  | .refs l => Json.arr (l.map jRef).toArray

def jNode (n : Node) : Json :=
  let fields := (Gen.Schema.nodeAttrs.zip n.attrs).filterMap fun ((f, _), v) =>
    if v.isEmpty then none else some (f, jVal v)
  Json.mkObj [("id", Json.str n.id), ("type", toJson n.typ), ("a", Json.mkObj fields)]

def jEdge (e : Edge) : Json :=
  Json.mkObj [("ty", toJson e.ty), ("src", Json.str e.src), ("tos", jStrs e.tos)]

def jNL (nl : NodeList) : Json :=
  Json.mkObj [("nodes", Json.arr (nl.nodes.map jNode).toArray),
              ("edges", Json.arr (nl.edges.map jEdge).toArray),
              ("roots", jStrs nl.roots)]

def jOptNL : Option NodeList → Json
  | some nl => jNL nl
  | none => Json.str "nil"

def jNodes (l : List Node) : Json := Json.arr (l.map jNode).toArray

/-! ### dispatcher -/

def getS (j : Json) (k : String) : R String := do (← j.getObjVal? k).getStr?
def getI (j : Json) (k : String) : R Int := do (← j.getObjVal? k).getInt?
def getNL (j : Json) (k : String) : R NodeList := do nlOf (← j.getObjVal? k)

def getN (j : Json) (k : String) : R Nat := do
  let i ← getI j k
  pure i.toNat

def instrOf (j : Json) : R Instr := do
  let i ← getS j "i"
  match i with
  | "union" => pure (.union (← getN j "dst") (← getN j "a") (← getN j "b"))
  | "intersect" => pure (.intersect (← getN j "dst") (← getN j "a") (← getN j "b"))
  | "add" => pure (.add (← getN j "a") (← getN j "b"))
  | "removeNodes" => pure (.removeNodes (← getN j "a") (← strList (← j.getObjVal? "ids")))
  | "relateNode" => pure (.relateNode (← getN j "a") (← nodeOf (← j.getObjVal? "n")) (← getS j "at") (← getI j "ty"))
  | "relateList" => pure (.relateList (← getN j "a") (← getN j "b") (← getS j "at") (← getI j "ty"))
  | "nodeGraph" => pure (.nodeGraph (← getN j "dst") (← getN j "a") (← getS j "id"))
  | "nodeSiblings" => pure (.nodeSiblings (← getN j "dst") (← getN j "a") (← getS j "id"))
  | "nodeDescendants" => pure (.nodeDescendants (← getN j "dst") (← getN j "a") (← getS j "id") (← getI j "depth"))
  | "purlType" => pure (.purlType (← getN j "dst") (← getN j "a") (← getS j "t"))
  | _ => throw s!"unknown instruction {i}"

def run (j : Json) : R Json := do
  let op ← getS j "op"
  match op with
  | "cleanEdges" => do pure (jNL (← getNL j "a").cleanEdges)
  | "union" => do pure (jNL ((← getNL j "a").union (← getNL j "b")))
  | "union3" => do
      let a ← getNL j "a"; let b ← getNL j "b"; let c ← getNL j "c"
      pure (Json.arr #[jNL ((a.union b).union c), jNL (a.union (b.union c))])
  | "intersect" => do pure (jNL ((← getNL j "a").intersect (← getNL j "b")))
  | "add" => do pure (jNL ((← getNL j "a").add (← getNL j "b")))
  | "removeNodes" => do pure (jNL ((← getNL j "a").removeNodes (← strList (← j.getObjVal? "ids"))))
  | "relateNode" => do
      let r := (← getNL j "a").relateNodeAtID (← nodeOf (← j.getObjVal? "n")) (← getS j "at") (← getI j "ty")
      pure (match r with | some nl => jNL nl | none => Json.str "err")
  | "relateList" => do
      let r := (← getNL j "a").relateNodeListAtID (← getNL j "b") (← getS j "at") (← getI j "ty")
      pure (match r with | some nl => jNL nl | none => Json.str "err")
  | "nodeGraph" => do pure (jOptNL ((← getNL j "a").nodeGraph (← getS j "id")))
  | "nodeSiblings" => do pure (jOptNL ((← getNL j "a").nodeSiblings (← getS j "id")))
  | "nodeDescendants" => do pure (jNL ((← getNL j "a").nodeDescendants (← getS j "id") (← getI j "depth")))
  | "purlType" => do pure (jNL ((← getNL j "a").getNodesByPurlType (← getS j "t")))
  | "byName" => do pure (jNodes ((← getNL j "a").getNodesByName (← getS j "name")))
  | "byID" => do
      pure (match (← getNL j "a").getNodeByID (← getS j "id") with
            | some n => jNode n | none => Json.str "nil")
  | "byIdent" => do pure (jNodes ((← getNL j "a").getNodesByIdentifierNum (← getI j "t") (← getS j "v")))
  | "rootNodes" => do pure (jNodes (← getNL j "a").getRootNodes)
  | "match" => do
      pure (match (← getNL j "a").getMatchingNode (← nodeOf (← j.getObjVal? "n")) with
            | .none => Json.str "nil"
            | .ambiguous => Json.str "ambiguous"
            | .found n => jNode n)
  | "hist" => do
      let regs ← (← arrOf (← j.getObjVal? "regs")).toList.mapM nlOf
      let prog ← (← arrOf (← j.getObjVal? "prog")).toList.mapM instrOf
      -- the registers after every step
      let states := (prog.foldl (fun (st : List NodeList × List (List NodeList)) i =>
          let r := exec st.1 i; (r, st.2 ++ [r])) (regs, [])).2
      pure (Json.arr (states.map (fun rs => Json.arr (rs.map jNL).toArray)).toArray)
  | "flatNode" => do pure (Json.str (← nodeOf (← j.getObjVal? "n")).flat)
  | "flatEdge" => do pure (Json.str (← edgeOf (← j.getObjVal? "e")).flat)
  | "flatPerson" => do pure (Json.str (← personOf (← j.getObjVal? "p")).flat)
  | "flatRef" => do pure (Json.str (← refOf (← j.getObjVal? "r")).flat)
  | "equalNode" => do
      pure (Json.bool ((← nodeOf (← j.getObjVal? "n")).equal (← nodeOf (← j.getObjVal? "m"))))
  | "equalEdge" => do
      pure (Json.bool ((← edgeOf (← j.getObjVal? "e")).equal (← edgeOf (← j.getObjVal? "f"))))
  | "equalNL" => do pure (Json.bool (NodeList.equalWith id (← getNL j "a") (← getNL j "b")))
  | "diff" => do
      let n ← nodeOf (← j.getObjVal? "n"); let m ← nodeOf (← j.getObjVal? "m")
      pure (match n.diff m with
            | none => Json.str "nil"
            | some d => Json.mkObj [("added", jNode d.added), ("removed", jNode d.removed), ("count", toJson d.count)])
  | "apply" => do
      let n ← nodeOf (← j.getObjVal? "n"); let m ← nodeOf (← j.getObjVal? "m")
      pure (jNode (n.applyDiff (n.diff m)))
  | "update" => do pure (jNode ((← nodeOf (← j.getObjVal? "n")).update (← nodeOf (← j.getObjVal? "m"))))
  | "augment" => do pure (jNode ((← nodeOf (← j.getObjVal? "n")).augment (← nodeOf (← j.getObjVal? "m"))))
  | _ => throw s!"unknown op {op}"

def step (j : Json) : Json :=
  match run j with
  | .ok r => Json.mkObj [("r", r)]
  | .error e => Json.mkObj [("bad", Json.str e)]

end Protobom.Driver
