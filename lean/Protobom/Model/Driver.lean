/-
  JSON codecs for the model values and the operation dispatcher of the line protocol.
  Unknown or malformed operations answer {"bad": ...}; nothing is defaulted.
-/
import Lean.Data.Json
import Protobom.Model.Graph
import Protobom.Model.Diff
import Protobom.Model.Spdx
import Protobom.Model.Cdx
import Protobom.Model.Sniff
import Protobom.Model.Parse
import Protobom.Model.Ident
import Protobom.Model.Opts
import Protobom.Model.Store

namespace Protobom.Driver
open Lean Protobom

abbrev R := Except String

def arrOf (j : Json) : R (Array Json) := j.getArr?

def strList (j : Json) : R (List String) := do
  let a ← j.getArr?
  a.toList.mapM (·.getStr?)

def intList (j : Json) : R (List Int) := do
  let a ← j.getArr?
  a.toList.mapM (·.getInt?)

def pairList (j : Json) : R (List (Int × String)) := do
  let a ← j.getArr?
  a.toList.mapM fun p => do
    let q ← p.getArr?
    if q.size ≠ 2 then throw "pair" else
    pure ((← q[0]!.getInt?), (← q[1]!.getStr?))

def optStr (j : Json) (k : String) : String :=
  match j.getObjVal? k with
  | .ok v => (v.getStr?.toOption).getD ""
  | _ => ""

partial def personOf (j : Json) : R Person := do
  let cs ← match j.getObjVal? "c" with
    | .ok v => do let a ← v.getArr?; a.toList.mapM personOf
    | _ => pure []
  let o := match j.getObjVal? "o" with
    | .ok (Json.bool b) => b
    | _ => false
  pure (Person.mk (optStr j "n") o (optStr j "e") (optStr j "u") (optStr j "p") cs)

def refOf (j : Json) : R ExtRef := do
  let h ← match j.getObjVal? "h" with
    | .ok v => pairList v
    | _ => pure []
  let t ← match j.getObjVal? "t" with
    | .ok v => v.getInt?
    | _ => pure 0
  pure { url := optStr j "u", typ := t, comment := optStr j "c", authority := optStr j "a", hashes := h }

def valOf (k : Kind) (j : Json) : R Val :=
  match k with
  | .str => do pure (.str (← j.getStr?))
  | .strs => do pure (.strs (← strList j))
  | .enums => do pure (.enums (← intList j))
  | .imap => do pure (.imap (← pairList j))
  | .date => do
      let l ← intList j
      match l with
      | [s, n] => pure (.date (some (s, n)))
      | _ => throw "date"
  | .persons => do let a ← j.getArr?; pure (.persons (← a.toList.mapM personOf))
  | .refs => do let a ← j.getArr?; pure (.refs (← a.toList.mapM refOf))

def nodeOf (j : Json) : R Node := do
  let id ← (← j.getObjVal? "id").getStr?
  let typ ← match j.getObjVal? "type" with
    | .ok v => v.getInt?
    | _ => pure 0
  let a := (j.getObjVal? "a").toOption.getD (Json.mkObj [])
  let attrs ← Gen.Schema.nodeAttrs.mapM fun (f, k) =>
    match a.getObjVal? f with
    | .ok v => valOf k v
    | _ => pure k.zero
  pure { id := id, typ := typ, attrs := attrs }

def edgeOf (j : Json) : R Edge := do
  pure { ty := (← (← j.getObjVal? "ty").getInt?), src := (← (← j.getObjVal? "src").getStr?),
         tos := (← strList (← j.getObjVal? "tos")) }

def nlOf (j : Json) : R NodeList := do
  let ns ← (← arrOf (← j.getObjVal? "nodes")).toList.mapM nodeOf
  let es ← (← arrOf (← j.getObjVal? "edges")).toList.mapM edgeOf
  let rs ← strList (← j.getObjVal? "roots")
  pure { nodes := ns, edges := es, roots := rs }

/-! ### rendering -/

def jStrs (l : List String) : Json := Json.arr (l.map Json.str).toArray
def jInts (l : List Int) : Json := Json.arr (l.map (fun i => toJson i)).toArray
def jPairs (l : List (Int × String)) : Json :=
  Json.arr (l.map (fun p => Json.arr #[toJson p.1, Json.str p.2])).toArray

partial def jPerson : Person → Json
  | .mk n o e u p cs =>
    Json.mkObj ([("n", Json.str n), ("o", Json.bool o)]
      ++ (if e = "" then [] else [("e", Json.str e)])
      ++ (if u = "" then [] else [("u", Json.str u)])
      ++ (if p = "" then [] else [("p", Json.str p)])
      ++ (if cs.isEmpty then [] else [("c", Json.arr (cs.map jPerson).toArray)]))

def jRef (r : ExtRef) : Json :=
  Json.mkObj ([("t", toJson r.typ)]
    ++ (if r.url = "" then [] else [("u", Json.str r.url)])
    ++ (if r.comment = "" then [] else [("c", Json.str r.comment)])
    ++ (if r.authority = "" then [] else [("a", Json.str r.authority)])
    ++ (if r.hashes.isEmpty then [] else [("h", jPairs r.hashes)]))

def jVal : Val → Json
  | .str s => Json.str s
  | .strs l => jStrs l
  | .enums l => jInts l
  | .imap m => jPairs m
  | .date (some (s, n)) => jInts [s, n]
  | .date none => Json.null
  | .persons l => Json.arr (l.map jPerson).toArray
  | .refs l => Json.arr (l.map jRef).toArray

def jNode (n : Node) : Json :=
  let fields := (Gen.Schema.nodeAttrs.zip n.attrs).filterMap fun ((f, _), v) =>
    if v.isEmpty then none else some (f, jVal v)
  Json.mkObj [("id", Json.str n.id), ("type", toJson n.typ), ("a", Json.mkObj fields)]

def jEdge (e : Edge) : Json :=
  Json.mkObj [("ty", toJson e.ty), ("src", Json.str e.src), ("tos", jStrs e.tos)]

def jNL (nl : NodeList) : Json :=
  Json.mkObj [("nodes", Json.arr (nl.nodes.map jNode).toArray),
              ("edges", Json.arr (nl.edges.map jEdge).toArray),
              ("roots", jStrs nl.roots)]

def jOptNL : Option NodeList → Json
  | some nl => jNL nl
  | none => Json.str "nil"

def jNodes (l : List Node) : Json := Json.arr (l.map jNode).toArray

/-! ### documents -/

def optStrJ (j : Json) (k : String) : Option String :=
  match j.getObjVal? k with
  | .ok (Json.str s) => some s
  | _ => none

def toolOf (j : Json) : Tool := { name := optStr j "n", version := optStr j "v", vendor := optStr j "vendor" }

def docTypeOf (j : Json) : DocType :=
  { typ := (match j.getObjVal? "t" with | .ok v => v.getInt?.toOption | _ => none)
    name := optStrJ j "n", desc := optStrJ j "d" }

def metaOf (j : Json) : R Metadata := do
  let tools := match j.getObjVal? "tools" with
    | .ok (Json.arr a) => a.toList.map toolOf
    | _ => []
  let authors ← match j.getObjVal? "authors" with
    | .ok (Json.arr a) => a.toList.mapM personOf
    | _ => pure []
  let types := match j.getObjVal? "types" with
    | .ok (Json.arr a) => a.toList.map docTypeOf
    | _ => []
  let date ← match j.getObjVal? "date" with
    | .ok v => do
        let l ← intList v
        match l with
        | [s, n] => pure (some (s, n))
        | _ => throw "date"
    | _ => pure none
  pure { id := optStr j "id", version := optStr j "version", name := optStr j "name", comment := optStr j "comment"
         date := date, tools := tools, authors := authors, docTypes := types }

def docOf (j : Json) : R Document := do
  let md ← match j.getObjVal? "meta" with
    | .ok Json.null => pure none
    | .ok v => do pure (some (← metaOf v))
    | _ => pure none
  let nl ← match j.getObjVal? "nl" with
    | .ok Json.null => pure none
    | .ok v => do pure (some (← nlOf v))
    | _ => pure none
  pure { metadata := md, nodeList := nl }

def jTool (t : Tool) : Json :=
  Json.mkObj ([("n", Json.str t.name)] ++ (if t.version = "" then [] else [("v", Json.str t.version)])
    ++ (if t.vendor = "" then [] else [("vendor", Json.str t.vendor)]))

def jDocType (t : DocType) : Json :=
  Json.mkObj ((match t.typ with | some v => [("t", toJson v)] | none => [])
    ++ (match t.name with | some v => [("n", Json.str v)] | none => [])
    ++ (match t.desc with | some v => [("d", Json.str v)] | none => []))

def jMeta (m : Metadata) : Json :=
  Json.mkObj [("id", Json.str m.id), ("version", Json.str m.version), ("name", Json.str m.name),
              ("comment", Json.str m.comment),
              ("tools", Json.arr (m.tools.map jTool).toArray),
              ("authors", Json.arr (m.authors.map jPerson).toArray),
              ("types", Json.arr (m.docTypes.map jDocType).toArray)]

def jDoc (d : Document) : Json :=
  Json.mkObj [("meta", match d.metadata with | some m => jMeta m | none => Json.null),
              ("nl", match d.nodeList with | some nl => jNL nl | none => Json.null)]

def jOutcome {α} (f : α → Json) : Outcome α → Json
  | .ok a => f a
  | .err => Json.str "err"
  | .panic s => Json.str ("panic: " ++ s)

def jChecksum (c : Spdx.Checksum) : Json := Json.arr #[Json.str c.algo, Json.str c.value]
def jSpdxRef (r : Spdx.ExtRef) : Json := Json.arr #[Json.str r.category, Json.str r.refType, Json.str r.locator, Json.str r.comment]
def jAgent : Option Spdx.Agent → Json
  | some a => Json.arr #[Json.str a.typ, Json.str a.name]
  | none => Json.null
def jOptInt : Option Int → Json
  | some i => toJson i
  | none => Json.null

def jSpdxPackage (p : Spdx.Package) : Json :=
  Json.mkObj [("id", Json.str p.id), ("name", Json.str p.name), ("version", Json.str p.version),
    ("fileName", Json.str p.fileName), ("download", Json.str p.download), ("home", Json.str p.home),
    ("sourceInfo", Json.str p.sourceInfo), ("licenseConcluded", Json.str p.licenseConcluded),
    ("licenseComments", Json.str p.licenseComments), ("copyright", Json.str p.copyright),
    ("summary", Json.str p.summary), ("description", Json.str p.description), ("comment", Json.str p.comment),
    ("purpose", Json.str p.purpose), ("release", jOptInt p.release), ("built", jOptInt p.built),
    ("validUntil", jOptInt p.validUntil), ("checksums", Json.arr (p.checksums.map jChecksum).toArray),
    ("extRefs", Json.arr (p.extRefs.map jSpdxRef).toArray), ("attribution", jStrs p.attribution),
    ("supplier", jAgent p.supplier), ("originator", jAgent p.originator)]

def jSpdxFile (f : Spdx.File) : Json :=
  Json.mkObj [("id", Json.str f.id), ("name", Json.str f.name), ("fileTypes", jStrs f.fileTypes),
    ("checksums", Json.arr (f.checksums.map jChecksum).toArray), ("licenseConcluded", Json.str f.licenseConcluded),
    ("licenseComments", Json.str f.licenseComments), ("copyright", Json.str f.copyright),
    ("comment", Json.str f.comment), ("attribution", jStrs f.attribution)]

def jSpdxDoc (d : Spdx.Doc) : Json :=
  Json.mkObj [("name", Json.str d.name), ("comment", Json.str d.comment),
    ("packages", Json.arr (d.packages.map jSpdxPackage).toArray),
    ("files", Json.arr (d.files.map jSpdxFile).toArray),
    ("rels", Json.arr (d.rels.map (fun r => Json.arr #[Json.str r.a, Json.str r.rel, Json.str r.b])).toArray)]

/-! ### CycloneDX native structures -/

def jHashL (l : List Cdx.Hash) : Json := Json.arr (l.map (fun h => Json.arr #[Json.str h.algo, Json.str h.value])).toArray

def jCRef (r : Cdx.CRef) : Json :=
  Json.mkObj [("u", Json.str r.url), ("c", Json.str r.comment), ("t", Json.str r.typ), ("h", jHashL r.hashes)]

def jLic (l : Cdx.LicChoice) : Json :=
  Json.mkObj [("e", Json.str l.expression), ("id", match l.license with | some i => Json.str i | none => Json.null)]

def jContact (c : Cdx.Contact) : Json := Json.arr #[Json.str c.name, Json.str c.email, Json.str c.phone]

partial def jComp : Cdx.Component → Json
  | .mk r t n v d c p e l h x s ks =>
    Json.mkObj [("ref", Json.str r), ("type", Json.str t), ("name", Json.str n), ("version", Json.str v),
      ("description", Json.str d), ("copyright", Json.str c), ("purl", Json.str p), ("cpe", Json.str e),
      ("licenses", match l with | some ls => Json.arr (ls.map jLic).toArray | none => Json.null),
      ("hashes", jHashL h), ("refs", Json.arr (x.map jCRef).toArray),
      ("supplier", match s with
        | some (nm, cs) => Json.arr #[Json.str nm, Json.arr (cs.map jContact).toArray]
        | none => Json.null),
      ("components", Json.arr (ks.map jComp).toArray)]

def jBom (b : Cdx.Bom) : Json :=
  Json.mkObj [("serial", Json.str b.serial), ("version", toJson b.version),
    ("meta", match b.metaComponent with | some c => jComp c | none => Json.null),
    ("lifecycles", Json.arr (b.lifecycles.map (fun l => Json.arr #[Json.str l.phase, Json.str l.name, Json.str l.description])).toArray),
    ("authors", Json.arr (b.authors.map jContact).toArray),
    ("tools", Json.arr (b.tools.map (fun t => Json.arr #[Json.str t.1, Json.str t.2])).toArray),
    ("components", Json.arr (b.components.map jComp).toArray),
    ("deps", Json.arr (b.deps.map (fun d => Json.arr #[Json.str d.1, jStrs d.2])).toArray)]

def hashLOf (j : Json) : R (List Cdx.Hash) := do
  let a ← j.getArr?
  a.toList.mapM fun p => do
    let q ← p.getArr?
    if q.size ≠ 2 then throw "hash" else pure { algo := (← q[0]!.getStr?), value := (← q[1]!.getStr?) }

partial def compOf (j : Json) : R Cdx.Component := do
  let lic ← match j.getObjVal? "licenses" with
    | .ok (Json.arr a) => do
        let ls ← a.toList.mapM fun l => do
          pure ({ expression := optStr l "e", license := optStrJ l "id" } : Cdx.LicChoice)
        pure (some ls)
    | _ => pure none
  let hashes ← match j.getObjVal? "hashes" with
    | .ok v => hashLOf v
    | _ => pure []
  let refs ← match j.getObjVal? "refs" with
    | .ok (Json.arr a) => a.toList.mapM fun r => do
        let h ← match r.getObjVal? "h" with
          | .ok v => hashLOf v
          | _ => pure []
        pure ({ url := optStr r "u", comment := optStr r "c", typ := optStr r "t", hashes := h } : Cdx.CRef)
    | _ => pure []
  let kids ← match j.getObjVal? "components" with
    | .ok (Json.arr a) => a.toList.mapM compOf
    | _ => pure []
  pure (.mk (optStr j "ref") (optStr j "type") (optStr j "name") (optStr j "version") (optStr j "description")
    (optStr j "copyright") (optStr j "purl") (optStr j "cpe") lic hashes refs none kids)

def bomOf (j : Json) : R Cdx.Bom := do
  let mc ← match j.getObjVal? "meta" with
    | .ok Json.null => pure none
    | .ok v => do pure (some (← compOf v))
    | _ => pure none
  let comps ← match j.getObjVal? "components" with
    | .ok (Json.arr a) => a.toList.mapM compOf
    | _ => pure []
  let lcs ← match j.getObjVal? "lifecycles" with
    | .ok (Json.arr a) => a.toList.mapM fun l => do
        let q ← l.getArr?
        if q.size ≠ 3 then throw "lifecycle" else
        pure ({ phase := (← q[0]!.getStr?), name := (← q[1]!.getStr?), description := (← q[2]!.getStr?) } : Cdx.Lifecycle)
    | _ => pure []
  let ver ← match j.getObjVal? "version" with
    | .ok v => v.getInt?
    | _ => pure 1
  pure { serial := optStr j "serial", version := ver, metaComponent := mc, lifecycles := lcs, components := comps }

/-! ### decoded SPDX documents (parser input) -/

def optIntJ (j : Json) (k : String) : Option Int :=
  match j.getObjVal? k with
  | .ok v => match v.getInt? with | .ok i => some i | _ => none
  | _ => none

def strsOfKey (j : Json) (k : String) : List String :=
  match j.getObjVal? k with
  | .ok (Json.arr a) => a.toList.filterMap (fun x => match x with | Json.str s => some s | _ => none)
  | _ => []

def pairsOfKey (j : Json) (k : String) : List (String × String) :=
  match j.getObjVal? k with
  | .ok (Json.arr a) => a.toList.filterMap (fun x => match x with
      | Json.arr #[Json.str p, Json.str q] => some (p, q) | _ => none)
  | _ => []

def agentOfKey (j : Json) (k : String) : Option Spdx.Agent :=
  match j.getObjVal? k with
  | .ok (Json.arr #[Json.str t, Json.str n]) => some { typ := t, name := n }
  | _ => none

def spdxPackageOf (j : Json) : Spdx.Package :=
  { id := optStr j "id", name := optStr j "name", version := optStr j "version", fileName := optStr j "fileName",
    download := optStr j "download", home := optStr j "home", sourceInfo := optStr j "sourceInfo",
    licenseConcluded := optStr j "licenseConcluded", licenseComments := optStr j "licenseComments",
    copyright := optStr j "copyright", summary := optStr j "summary", description := optStr j "description",
    comment := optStr j "comment", purpose := optStr j "purpose", release := optIntJ j "release",
    built := optIntJ j "built", validUntil := optIntJ j "validUntil",
    checksums := (pairsOfKey j "checksums").map (fun p => { algo := p.1, value := p.2 }),
    extRefs := match j.getObjVal? "extRefs" with
      | .ok (Json.arr a) => a.toList.filterMap (fun x => match x with
          | Json.arr #[Json.str c, Json.str t, Json.str l, Json.str m] =>
              some { category := c, refType := t, locator := l, comment := m }
          | _ => none)
      | _ => [],
    attribution := strsOfKey j "attribution", supplier := agentOfKey j "supplier",
    originator := agentOfKey j "originator" }

def spdxFileOf (j : Json) : Spdx.File :=
  { id := optStr j "id", name := optStr j "name", fileTypes := strsOfKey j "fileTypes",
    checksums := (pairsOfKey j "checksums").map (fun p => { algo := p.1, value := p.2 }),
    licenseConcluded := optStr j "licenseConcluded", licenseComments := optStr j "licenseComments",
    copyright := optStr j "copyright", comment := optStr j "comment", attribution := strsOfKey j "attribution" }

def spdxDocOf (j : Json) : Spdx.Doc :=
  { name := optStr j "name", ns := optStr j "ns", comment := optStr j "comment",
    creators := pairsOfKey j "creators",
    packages := match j.getObjVal? "packages" with
      | .ok (Json.arr a) => a.toList.map spdxPackageOf | _ => [],
    files := match j.getObjVal? "files" with
      | .ok (Json.arr a) => a.toList.map spdxFileOf | _ => [],
    rels := match j.getObjVal? "rels" with
      | .ok (Json.arr a) => a.toList.filterMap (fun x => match x with
          | Json.arr #[Json.str p, Json.str r, Json.str q] => some { a := p, rel := r, b := q } | _ => none)
      | _ => [] }

def decodedOf {α} (j : Json) (k : String) (f : Json → R α) : R (Parse.Decoded α) := do
  let d ← j.getObjVal? k
  match optStr d "status" with
  | "ok" => do
      let v ← f (← d.getObjVal? "native")
      pure (.ok (strsOfKey d "nils") v)
  | "panic" => pure .panic
  | _ => pure .err

def sniffInputOf (i : Json) : R Sniff.Input := do
  let lines ← strList (← i.getObjVal? "lines")
  let decl : Option Sniff.Decl := match i.getObjVal? "decl" with
    | .ok (Json.arr #[Json.str a, Json.str b, Json.str c]) => some ⟨a, b, c⟩
    | _ => none
  pure ⟨decl, lines⟩

/-! ### option histories (C18) -/

def cellOf (j : Json) : Opts.Cell :=
  match j with
  | Json.arr a => a.toList.filterMap (fun x => match x with
      | Json.arr #[Json.str k, Json.str v] => some (k, v) | _ => none)
  | _ => []

def jCell (c : Opts.Cell) : Json :=
  -- canonical: keys sorted
  let ks := (c.map (·.1)).eraseDups.mergeSort (fun a b => decide (a ≤ b))
  Json.arr (ks.map (fun k => Json.arr #[Json.str k, Json.str ((c.lookup k).getD "")])).toArray

def settingOf (j : Json) : R Opts.Setting := do
  match optStr j "t" with
  | "format" => pure (.format (optStr j "f"))
  | "replace" => pure (.replace (← getNatD j "k") (cellOf ((j.getObjVal? "cell").toOption.getD Json.null)))
  | "setKey" => pure (.setKey (← getNatD j "k") (optStr j "key") (optStr j "val"))
  | t => throw s!"setting {t}"
where getNatD (j : Json) (k : String) : R Nat := do
  match j.getObjVal? k with
  | .ok v => v.getNat?
  | _ => pure 0

def jCfg (c : Opts.Cfg) : Json := Json.mkObj [("format", Json.str c.1), ("cells", Json.arr (c.2.map jCell).toArray)]

/-! ### dispatcher -/

def getS (j : Json) (k : String) : R String := do (← j.getObjVal? k).getStr?
def getI (j : Json) (k : String) : R Int := do (← j.getObjVal? k).getInt?
def getNL (j : Json) (k : String) : R NodeList := do nlOf (← j.getObjVal? k)

def getN (j : Json) (k : String) : R Nat := do
  let i ← getI j k
  pure i.toNat

def instrOf (j : Json) : R Instr := do
  let i ← getS j "i"
  match i with
  | "union" => pure (.union (← getN j "dst") (← getN j "a") (← getN j "b"))
  | "intersect" => pure (.intersect (← getN j "dst") (← getN j "a") (← getN j "b"))
  | "add" => pure (.add (← getN j "a") (← getN j "b"))
  | "removeNodes" => pure (.removeNodes (← getN j "a") (← strList (← j.getObjVal? "ids")))
  | "relateNode" => pure (.relateNode (← getN j "a") (← nodeOf (← j.getObjVal? "n")) (← getS j "at") (← getI j "ty"))
  | "relateList" => pure (.relateList (← getN j "a") (← getN j "b") (← getS j "at") (← getI j "ty"))
  | "nodeGraph" => pure (.nodeGraph (← getN j "dst") (← getN j "a") (← getS j "id"))
  | "nodeSiblings" => pure (.nodeSiblings (← getN j "dst") (← getN j "a") (← getS j "id"))
  | "nodeDescendants" => pure (.nodeDescendants (← getN j "dst") (← getN j "a") (← getS j "id") (← getI j "depth"))
  | "purlType" => pure (.purlType (← getN j "dst") (← getN j "a") (← getS j "t"))
  | _ => throw s!"unknown instruction {i}"

def run (j : Json) : R Json := do
  let op ← getS j "op"
  match op with
  | "cleanEdges" => do pure (jNL (← getNL j "a").cleanEdges)
  | "union" => do pure (jNL ((← getNL j "a").union (← getNL j "b")))
  | "union3" => do
      let a ← getNL j "a"; let b ← getNL j "b"; let c ← getNL j "c"
      pure (Json.arr #[jNL ((a.union b).union c), jNL (a.union (b.union c))])
  | "intersect" => do pure (jNL ((← getNL j "a").intersect (← getNL j "b")))
  | "add" => do pure (jNL ((← getNL j "a").add (← getNL j "b")))
  | "removeNodes" => do pure (jNL ((← getNL j "a").removeNodes (← strList (← j.getObjVal? "ids"))))
  | "relateNode" => do
      let r := (← getNL j "a").relateNodeAtID (← nodeOf (← j.getObjVal? "n")) (← getS j "at") (← getI j "ty")
      pure (match r with | some nl => jNL nl | none => Json.str "err")
  | "relateList" => do
      let r := (← getNL j "a").relateNodeListAtID (← getNL j "b") (← getS j "at") (← getI j "ty")
      pure (match r with | some nl => jNL nl | none => Json.str "err")
  | "nodeGraph" => do pure (jOptNL ((← getNL j "a").nodeGraph (← getS j "id")))
  | "nodeSiblings" => do pure (jOptNL ((← getNL j "a").nodeSiblings (← getS j "id")))
  | "nodeDescendants" => do pure (jNL ((← getNL j "a").nodeDescendants (← getS j "id") (← getI j "depth")))
  | "purlType" => do pure (jNL ((← getNL j "a").getNodesByPurlType (← getS j "t")))
  | "byName" => do pure (jNodes ((← getNL j "a").getNodesByName (← getS j "name")))
  | "byID" => do
      pure (match (← getNL j "a").getNodeByID (← getS j "id") with
            | some n => jNode n | none => Json.str "nil")
  | "byIdent" => do pure (jNodes ((← getNL j "a").getNodesByIdentifierNum (← getI j "t") (← getS j "v")))
  | "rootNodes" => do pure (jNodes (← getNL j "a").getRootNodes)
  | "match" => do
      pure (match (← getNL j "a").getMatchingNode (← nodeOf (← j.getObjVal? "n")) with
            | .none => Json.str "nil"
            | .ambiguous => Json.str "ambiguous"
            | .found n => jNode n)
  | "hist" => do
      let regs ← (← arrOf (← j.getObjVal? "regs")).toList.mapM nlOf
      let prog ← (← arrOf (← j.getObjVal? "prog")).toList.mapM instrOf
      -- the registers after every step
      let states := (prog.foldl (fun (st : List NodeList × List (List NodeList)) i =>
          let r := exec st.1 i; (r, st.2 ++ [r])) (regs, [])).2
      pure (Json.arr (states.map (fun rs => Json.arr (rs.map jNL).toArray)).toArray)
  | "sniffSeq" => do
      -- every input is detected on its own: the model has no state across calls
      let inputs ← arrOf (← j.getObjVal? "inputs")
      let rs ← inputs.toList.mapM (fun (i : Json) => do
        let lines ← strList (← i.getObjVal? "lines")
        let decl : Option Sniff.Decl := match i.getObjVal? "decl" with
          | .ok (Json.arr #[Json.str a, Json.str b, Json.str c]) => some ⟨a, b, c⟩
          | _ => none
        let r := Sniff.sniffReader ⟨decl, lines⟩
        let ev := Json.arr (r.2.map (fun e => match e with
          | .read => Json.str "read" | .seek0 => Json.str "seek0")).toArray
        pure (Json.mkObj [("r", jOutcome Json.str r.1), ("ev", ev),
                          ("pos", toJson (Sniff.posAfter (fun p => p + 4096) 7 r.2))]))
      pure (Json.arr rs.toArray)
  | "parse" => do
      let i ← j.getObjVal? "in"
      let c ← decodedOf i "cdx" bomOf
      let sp ← decodedOf i "spdx" (fun v => pure (spdxDocOf v))
      pure (jOutcome jDoc (Parse.parse (← sniffInputOf i) none c sp))
  | "parseAs" => do
      let i ← j.getObjVal? "in"
      let c ← decodedOf i "cdx" bomOf
      let sp ← decodedOf i "spdx" (fun v => pure (spdxDocOf v))
      pure (jOutcome jDoc (Parse.parse (← sniffInputOf i) (some (← getS j "f")) c sp))
  | "optsHist" => do
      let cells := (← arrOf (← j.getObjVal? "defaults")).toList.map cellOf
      let steps ← arrOf (← j.getObjVal? "steps")
      let st0 := { store := fun p => cells.getD p [], next := cells.length,
                   defaults := { format := "", ptrs := List.range cells.length }, insts := [] : Opts.St }
      let natD (x : Json) (k : String) : Nat := match x.getObjVal? k with
        | .ok v => (v.getNat?.toOption).getD 0 | _ => 0
      let (_, outs) ← steps.toList.foldlM (fun (acc : Opts.St × List Json) (x : Json) => do
        let st := acc.1
        match optStr x "s" with
        | "new" => do
            let settings ← (← arrOf (← x.getObjVal? "settings")).toList.mapM settingOf
            let st' := Opts.step st (.new settings)
            pure (st', acc.2 ++ [Json.mkObj [("cfgs", Json.arr ((st'.insts.map (Opts.deref st'.store)).map jCfg).toArray)]])
        | "mutate" => do
            let st' := Opts.step st (.mutate (natD x "i") (natD x "k") (optStr x "key") (optStr x "val"))
            pure (st', acc.2 ++ [Json.mkObj [("cfgs", Json.arr ((st'.insts.map (Opts.deref st'.store)).map jCfg).toArray)]])
        | "call" => do
            -- a single call with its own options: effective format and cell k; the state is unchanged
            let i := natD x "i"
            let k := natD x "k"
            let inst := (st.insts.map (Opts.deref st.store))[i]?
            let callFmt := optStr x "f"
            let callCell : Option Opts.Cell := match x.getObjVal? "cell" with
              | .ok Json.null => none
              | .ok v => some (cellOf v)
              | _ => none
            let eff := match inst with
              | some c =>
                let f := if callFmt = "" then c.1 else callFmt
                let cell := match callCell with | some cc => cc | none => (c.2[k]?).getD []
                Json.mkObj [("format", Json.str f), ("cell", jCell cell)]
              | none => Json.str "no-instance"
            pure (st, acc.2 ++ [Json.mkObj [("eff", eff),
              ("cfgs", Json.arr ((st.insts.map (Opts.deref st.store)).map jCfg).toArray)]])
        | s => throw s!"step {s}") (st0, [])
      pure (Json.arr outs.toArray)
  | "storeHist" => do
      let steps ← arrOf (← j.getObjVal? "steps")
      let C := Store.demoCodec
      let N := Store.demoNaming
      let natD (x : Json) (k : String) : Nat := match x.getObjVal? k with
        | .ok v => (v.getNat?.toOption).getD 0 | _ => 0
      let flag (x : Json) (k : String) : Bool := match x.getObjVal? k with
        | .ok (Json.bool b) => b | _ => false
      -- state: directory content, and whether the configured path is a regular file
      let (_, outs) := steps.toList.foldl (fun (acc : (Store.Files × Bool) × List Json) (x : Json) =>
        let fs := acc.1.1
        let blocked := acc.1.2
        let id := optStr x "id"
        match optStr x "s" with
        | "store" =>
          let d : Store.SDoc := ⟨if flag x "noMeta" then "" else id, [natD x "body"]⟩
          let nc := flag x "nc" && !flag x "nilOpts"
          if blocked then (acc.1, acc.2 ++ [Json.str "err"]) else
          let r := Store.store C N fs d nc "tmp"
          ((r.2, false), acc.2 ++ [match r.1 with | .ok _ => Json.str "ok" | _ => Json.str "err"])
        | "retrieve" =>
          if blocked then (acc.1, acc.2 ++ [Json.str "err"]) else
          (acc.1, acc.2 ++ [match Store.retrieve C N fs id with
            | .ok d => Json.mkObj [("id", Json.str d.id), ("name", Json.str ("body-" ++ toString (d.body.headD 0)))]
            | _ => Json.str "err"])
        | "corrupt" =>
          let e := N.entry id
          let fs' : Store.Files := match optStr x "how" with
            | "truncate0" => if (fs e).isSome then Store.fput fs e [] else fs
            | "garbage" => if (fs e).isSome then Store.fput fs e [0] else fs
            | "foreign" => if (fs e).isSome then Store.fput fs e (C.enc ⟨"some other identifier", [3]⟩) else fs
            | _ => Store.fdel fs e
          ((fs', blocked), acc.2 ++ [Json.str "done"])
        | "rmdir" => (((fun _ => none), false), acc.2 ++ [Json.str "done"])
        | "filedir" => (((fun _ => none), true), acc.2 ++ [Json.str "done"])
        | _ => (acc.1, acc.2 ++ [Json.str "bad-step"])) ((((fun _ => none) : Store.Files), false), [])
      pure (Json.arr outs.toArray)
  | "crash" => do
      let C := Store.demoCodec
      let N := Store.demoNaming
      let id := optStr j "id"
      let natD (k : String) : Option Nat := match j.getObjVal? k with
        | .ok v => v.getNat?.toOption | _ => none
      let nc := match j.getObjVal? "nc" with | .ok (Json.bool b) => b | _ => false
      let newDoc : Store.SDoc := ⟨id, [(natD "bodyNew").getD 0]⟩
      let oldDoc : Option Store.SDoc := (natD "bodyOld").map (fun b => ⟨id, [b, b]⟩)
      let fs0 : Store.Files := match oldDoc with
        | some o => (Store.store C N (fun _ => none) o false "tmp0").2
        | none => fun _ => none
      let states : List Store.Files :=
        if nc && oldDoc.isSome then [fs0] else Store.crashStates fs0 (Store.storeOps C N newDoc "tmp")
      let kinds := states.map (fun s => match Store.retrieve C N s id with
        | .ok d => if d = newDoc then "new" else if some d = oldDoc then "old" else "torn"
        | _ => "err")
      let dedup := kinds.foldl (fun (acc : List String) k => if acc.getLast? = some k then acc else acc ++ [k]) []
      pure (jStrs dedup)
  | "table" => do
      -- the regenerated tables as the compiled model sees them (translator validation)
      let name ← getS j "name"
      let kInt : Int := match j.getObjVal? "k" with | .ok v => (v.getInt?.toOption).getD 0 | _ => 0
      let kStr : String := optStr j "k"
      let iS (t : List (Int × String)) (d : String) : Json := Json.str ((t.lookup kInt).getD d)
      let sI (t : List (String × Int)) (d : Int) : Json := toJson ((t.lookup kStr).getD d)
      pure (match name with
        | "edgeToSPDX2" => Json.str (Spdx.edgeToSPDX2 kInt)
        | "edgeFromSPDX2" => toJson (Spdx.edgeFromSPDX2 kStr)
        | "edgeFromSPDX" => sI Gen.Tables.edgeFromSPDX Gen.Tables.edgeFromSPDX_default
        | "hashToSPDX" => Json.str (Spdx.hashToSPDX kInt)
        | "hashFromSPDX" => toJson (Spdx.hashFromSPDX kStr)
        | "hashFromCDX" => toJson (Cdx.hashFromCDX kStr)
        | "hashFromCycloneDX" => sI Gen.Tables.hashFromCycloneDX Gen.Tables.hashFromCycloneDX_default
        | "identToSPDX2Type" => Json.str (Spdx.identType kInt)
        | "identFromSPDXExtRefType" => sI Gen.Tables.identFromSPDXExtRefType Gen.Tables.identFromSPDXExtRefType_default
        | _ => Json.str "no-such-table")
  | "newId" => do
      let seeds ← (← arrOf (← j.getObjVal? "seeds")).toList.mapM (fun (sd : Json) => do
        let bs ← arrOf sd
        bs.toList.mapM (fun (b : Json) => do pure (UInt8.ofNat (← b.getNat?))))
      let st := seeds.foldl Ident.step {}
      let id := String.ofList (Ident.newNodeIdentifier seeds "<uuid>".toList)
      pure (Json.mkObj [("id", Json.str id), ("stable", Json.bool true)])
  | "fmtAcc" => do
      let f ← getS j "f"
      pure (Json.arr #[Json.str (Sniff.typ f), Json.str (Sniff.version f), Json.str (Sniff.major f),
                       Json.str (Sniff.minor f), Json.str (Sniff.encoding f)])
  | "declOf" => do
      let f ← getS j "f"
      pure (match (if Gen.Formats.writerFormats.contains f then Sniff.declOfFormat f else none) with
            | some d => Json.arr #[Json.str d.bomFormat, Json.str d.specVersion, Json.str d.spdxVersion]
            | none => Json.str "unwritable")
  | "spdxRT" => do pure (jOutcome jDoc (Spdx.rtSPDX (← docOf (← j.getObjVal? "doc"))))
  | "spdxRT2" => do
      -- two passes: the second must change nothing further
      let d ← docOf (← j.getObjVal? "doc")
      pure (jOutcome jDoc ((Spdx.rtSPDX d).bind Spdx.rtSPDX))
  | "spdxSer" => do pure (jOutcome jSpdxDoc (Spdx.serSPDX (← docOf (← j.getObjVal? "doc"))))
  | "cdxRT" => do
      pure (jOutcome jDoc (Cdx.rtCDX (← getN j "v") (← docOf (← j.getObjVal? "doc"))))
  | "cdxRT2" => do
      let v ← getN j "v"
      pure (jOutcome jDoc ((Cdx.rtCDX v (← docOf (← j.getObjVal? "doc"))).bind (Cdx.rtCDX v)))
  | "cdxSer" => do
      pure (jOutcome jBom ((Cdx.serCDX (← docOf (← j.getObjVal? "doc"))).map (Cdx.codecCDX (← getN j "v"))))
  | "cdxUnser" => do pure (jDoc (Cdx.unserCDX (← bomOf (← j.getObjVal? "bom"))))
  | "flatNode" => do pure (Json.str (← nodeOf (← j.getObjVal? "n")).flat)
  | "flatEdge" => do pure (Json.str (← edgeOf (← j.getObjVal? "e")).flat)
  | "flatPerson" => do pure (Json.str (← personOf (← j.getObjVal? "p")).flat)
  | "flatRef" => do pure (Json.str (← refOf (← j.getObjVal? "r")).flat)
  | "equalNode" => do
      pure (Json.bool ((← nodeOf (← j.getObjVal? "n")).equal (← nodeOf (← j.getObjVal? "m"))))
  | "equalEdge" => do
      pure (Json.bool ((← edgeOf (← j.getObjVal? "e")).equal (← edgeOf (← j.getObjVal? "f"))))
  | "equalNL" => do pure (Json.bool (NodeList.equalWith id (← getNL j "a") (← getNL j "b")))
  | "diff" => do
      let n ← nodeOf (← j.getObjVal? "n"); let m ← nodeOf (← j.getObjVal? "m")
      pure (match n.diff m with
            | none => Json.str "nil"
            | some d => Json.mkObj [("added", jNode d.added), ("removed", jNode d.removed), ("count", toJson d.count)])
  | "apply" => do
      let n ← nodeOf (← j.getObjVal? "n"); let m ← nodeOf (← j.getObjVal? "m")
      pure (jNode (n.applyDiff (n.diff m)))
  | "update" => do pure (jNode ((← nodeOf (← j.getObjVal? "n")).update (← nodeOf (← j.getObjVal? "m"))))
  | "augment" => do pure (jNode ((← nodeOf (← j.getObjVal? "n")).augment (← nodeOf (← j.getObjVal? "m"))))
  | _ => throw s!"unknown op {op}"

def step (j : Json) : Json :=
  match run j with
  | .ok r => Json.mkObj [("r", r)]
  | .error e => Json.mkObj [("bad", Json.str e)]

end Protobom.Driver
