/-
  L1 model of the flattened strings behind equality and checksums:
  `Person.flatString`, `ExternalReference.flatString`, `Edge.flatString`, `Node.flatString`,
  `NodeList.Equal`. The per-field treatment of `Node.flatString` comes from the regenerated
  `Gen.NodeFields.flatTable`; a field without a special case falls to the scalar default clause.
-/
import Protobom.Model.Graph

namespace Protobom
open Gen

/-- Go's `sort.Strings` (byte order; for valid UTF-8 this is code-point order) -/
def sortStrings (l : List String) : List String := l.mergeSort (fun a b => decide (a ≤ b))

def sortInts (l : List Int) : List Int := l.mergeSort (fun a b => decide (a ≤ b))

def concatStrings (l : List String) : String := l.foldl (· ++ ·) ""

mutual
  /-- `Person.flatString` -/
  def Person.flat : Person → String
    | .mk name isOrg email url phone contacts =>
      "n(" ++ name ++ ")o(" ++ toString isOrg ++ ")"
        ++ (if email = "" then "" else "email(" ++ email ++ ")")
        ++ (if url = "" then "" else "url(" ++ url ++ ")")
        ++ (if phone = "" then "" else "p(" ++ phone ++ ")")
        ++ (match contacts with
            | [] => ""
            | c :: cs => "c(" ++ Person.flatList (c :: cs) ++ ")")
  def Person.flatList : List Person → String
    | [] => ""
    | p :: ps => p.flat ++ Person.flatList ps
end

/-- entries of a Go map in ascending key order (`sort.Ints` over the keys) -/
def sortedByKey (m : List (Int × String)) : List (Int × String) :=
  (sortInts (m.map (·.1))).filterMap (fun k => (m.lookup k).map (fun v => (k, v)))

/-- `ExternalReference.flatString` -/
def ExtRef.flat (r : ExtRef) : String :=
  "(t)" ++ toString r.typ
    ++ (if r.url = "" then "" else "(u)" ++ r.url)
    ++ (if r.comment = "" then "" else "(c)" ++ r.comment)
    ++ (if r.authority = "" then "" else "(a)" ++ r.authority)
    ++ (if r.hashes.isEmpty then "" else
          "(h)" ++ concatStrings ((sortedByKey r.hashes).map (fun kv => "[" ++ toString kv.1 ++ "]" ++ kv.2)))

/-- `Edge_Type.String()`: the enum name, or the decimal number when it has none -/
def edgeTypeName (t : Int) : String :=
  match Schema.edgeTypes.find? (·.2 = t) with
  | some (name, _) => name
  | none => toString t

/-- `Edge.flatString` -/
def Edge.flat (e : Edge) : String :=
  e.src ++ ":" ++ edgeTypeName e.ty ++ ":" ++ "+".intercalate (sortStrings e.tos)

def nodeFieldPrefix (protoName : String) : String := "protobom.protobom.Node." ++ protoName

/-- `flatStringStrSlice`: values sorted as strings, `name[i]:value` concatenated -/
def flatStrSlice (full : String) (vals : List String) : String :=
  concatStrings ((sortStrings vals).zipIdx.map (fun (v, i) => full ++ "[" ++ toString i ++ "]:" ++ v))

/-- `flatStringMap`: keys rendered in decimal, sorted as strings, `key:value` concatenated -/
def flatMap' (m : List (Int × String)) : String :=
  let entries := m.map (fun kv => (toString kv.1, kv.2))
  let keys := sortStrings (entries.map (·.1))
  concatStrings (keys.map (fun k => k ++ ":" ++ (entries.lookup k).getD ""))

/-- proto field name of a Go field name of `Node` (regenerated from the descriptors) -/
def protoNameOf (goName : String) : String := (Schema.nodeProtoNames.lookup goName).getD goName

/-- the literal prefixes of the element-wise cases of `Node.flatString` -/
def elemPrefix (protoName : String) : String :=
  if protoName = "suppliers" then "supplier:"
  else if protoName = "originators" then "originator:"
  else if protoName = "external_references" then "extref:"
  else protoName ++ ":"

/-- the pairs one populated attribute contributes -/
def attrPairs (goName : String) (v : Val) : List String :=
  let pn := protoNameOf goName
  let full := nodeFieldPrefix pn
  let form := (NodeFields.flatTable.lookup pn).getD (if NodeFields.flatHasScalarDefault then "scalar" else "none")
  let bad := ["<unmodelled:" ++ pn ++ ">"]
  if v.isEmpty then [] else
  match v with
  | .str s => if form = "scalar" then [full ++ ":" ++ s] else bad
  | .strs l => if form = "slice" then [flatStrSlice full l] else bad
  | .enums l => if form = "slice" then [flatStrSlice full (l.map toString)] else bad
  | .imap m =>
    if form = "map" then [full ++ ":" ++ flatMap' m]
    else if form = "sortedkeys" then (sortedByKey m).map (fun kv => pn ++ "[" ++ toString kv.1 ++ "]:" ++ kv.2)
    else bad
  | .date d =>
    if form = "unixdate" then (match d with | some (s, _) => [full ++ ":" ++ toString s] | none => []) else bad
  | .persons l => if form = "elemflat" then l.map (fun p => elemPrefix pn ++ p.flat) else bad
  | .refs l => if form = "elemflat" then l.map (fun r => elemPrefix pn ++ r.flat) else bad

def Node.flatPairs (n : Node) : List String :=
  (if n.id = "" then [] else [nodeFieldPrefix "id" ++ ":" ++ n.id])
    ++ (if n.typ = 0 then [] else [nodeFieldPrefix "type" ++ ":" ++ toString n.typ])
    ++ (Schema.nodeAttrs.zip n.attrs).flatMap (fun ((f, _), v) => attrPairs f v)

/-- `Node.flatString` -/
def Node.flat (n : Node) : String := ":".intercalate (sortStrings n.flatPairs)

def Node.equal (a b : Node) : Bool := a.flat = b.flat
def Edge.equal (a b : Edge) : Bool := a.flat = b.flat

/-- the id → checksum map `NodeList.Equal` compares (last node wins for a repeated id) -/
def nodeIndex (H : String → String) (nl : NodeList) : List (String × String) :=
  (nl.ids.eraseDups).filterMap (fun id => (nl.indexed id).map (fun n => (id, H n.flat)))

/-- `NodeList.Equal`; `H` is the checksum function (SHA-256 in the implementation): the three
    length checks, the sorted root lists, the sorted edge strings, then the id → checksum maps
    (each early `return false` of the Go code is a conjunct here). -/
def NodeList.equalWith (H : String → String) (a b : NodeList) : Bool :=
  decide (a.edges.length = b.edges.length ∧ a.nodes.length = b.nodes.length ∧ a.roots.length = b.roots.length) &&
  decide (sortStrings a.roots = sortStrings b.roots) &&
  decide (sortStrings (a.edges.map Edge.flat) = sortStrings (b.edges.map Edge.flat)) &&
  (decide ((nodeIndex H a).length = (nodeIndex H b).length) &&
   (nodeIndex H a).all (fun kv => (nodeIndex H b).lookup kv.1 = some kv.2))

end Protobom
