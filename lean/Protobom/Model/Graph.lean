/-
  L1 model of pkg/sbom/nodelist.go: the graph algebra on `NodeList`.
  Every function mirrors the Go function of the same name (see DESIGN.md appendix A for the code
  facts reproduced here: stale indexes, first-match lookups, last-wins node indexes).
  Go maps whose iteration order is unspecified are modelled by a canonical order; every property
  theorem is stated on sets, so the chosen order cannot matter.
-/
import Protobom.Model.NodeOps
import Protobom.Model.Util

namespace Protobom

abbrev Key := String × Int

def Edge.key (e : Edge) : Key := (e.src, e.ty)

/-- modify the first element satisfying `p` (Go: `index[k][0]`, `GetEdgeByType`) -/
def modifyFirst (p : α → Bool) (f : α → α) : List α → List α
  | [] => []
  | x :: xs => if p x then f x :: xs else x :: modifyFirst p f xs

/-- modify the last element satisfying `p` (Go: `indexNodes` keeps the last node per id) -/
def modifyLast (p : α → Bool) (f : α → α) (l : List α) : List α :=
  (modifyFirst p f l.reverse).reverse

/-- `append` of the elements not already present (Go: `AddDestinationById`, the `PointsTo` loop) -/
def addNew (ts : List String) (xs : List String) : List String :=
  xs.foldl (fun acc t => if t ∈ acc then acc else acc ++ [t]) ts

/-! ### cleanEdges -/

/-- `cleanEdges` on the edge list, given the identifiers of the present nodes. -/
def cleanEdgesL (ids : List String) (es : List Edge) : List Edge :=
  let es' := es.filter (fun e => e.src ∈ ids)
  let keys := (es'.map Edge.key).eraseDups
  let mk (k : Key) : Edge :=
    { src := k.1, ty := k.2,
      tos := (((es'.filter (fun e => e.key = k)).flatMap (·.tos)).filter (· ∈ ids)).eraseDups }
  (keys.map mk).filter (fun e => !e.tos.isEmpty)

def NodeList.cleanEdges (nl : NodeList) : NodeList :=
  { nl with edges := cleanEdgesL nl.ids nl.edges }

/-! ### lookups -/

def NodeList.getNodeByID (nl : NodeList) (id : String) : Option Node :=
  nl.nodes.find? (·.id = id)

/-- the node `indexNodes()[id]` (last one wins) -/
def NodeList.indexed (nl : NodeList) (id : String) : Option Node :=
  nl.nodes.reverse.find? (·.id = id)

def NodeList.getNodesByName (nl : NodeList) (name : String) : List Node :=
  nl.nodes.filter (·.name = name)

def NodeList.getEdgeByType (nl : NodeList) (src : String) (ty : Int) : Option Edge :=
  nl.edges.find? (fun e => e.src = src ∧ e.ty = ty)

/-- `GetRootNodes`: stops after as many hits as there are distinct root identifiers. -/
def NodeList.getRootNodes (nl : NodeList) : List Node :=
  (nl.nodes.filter (·.id ∈ nl.roots)).take nl.roots.eraseDups.length

/-- `GetNodesByIdentifier` after the type string was resolved to the enum number `t`. -/
def NodeList.getNodesByIdentifierNum (nl : NodeList) (t : Int) (v : String) : List Node :=
  nl.nodes.filter (fun n => (n.identifiers.lookup t) = some v)

/-! ### Add (in place), Union, Intersect, RemoveNodes -/

/-- the node loop shared by `Add` and `Union`: a node whose identifier is in the (stale) index
    `ids0` modifies the indexed (last) node with `f`, any other node is appended -/
def mergeNodes (f : Node → Node → Node) (ids0 : List String) (st : List Node × List Node)
    (ns2 : List Node) : List Node × List Node :=
  ns2.foldl (fun st n2 =>
      if n2.id ∈ ids0 then (modifyLast (·.id = n2.id) (fun n => f n n2) st.1, st.2)
      else (st.1, st.2 ++ [n2])) st

def addNodes (base : List Node) (ns2 : List Node) : List Node :=
  let r := mergeNodes Node.augment (base.map (·.id)) (base, []) ns2
  r.1 ++ r.2

def addEdgeStep (keys0 : List Key) (st : List Edge × List Edge) (e2 : Edge) : List Edge × List Edge :=
  if e2.key ∈ keys0 then
    (modifyFirst (·.key = e2.key) (fun e => { e with tos := e.tos ++ e2.tos }) st.1, st.2)
  else (st.1, st.2 ++ [e2])

def addEdges (base : List Edge) (es2 : List Edge) : List Edge :=
  let r := es2.foldl (addEdgeStep (base.map Edge.key)) (base, [])
  r.1 ++ r.2

def NodeList.add (nl nl2 : NodeList) : NodeList :=
  ({ nodes := addNodes nl.nodes nl2.nodes
     edges := addEdges nl.edges nl2.edges
     roots := nl.roots ++ nl2.roots.filter (· ∉ nl.roots) } : NodeList).cleanEdges

def unionNodes (base : List Node) (ns2 : List Node) : List Node :=
  let r := mergeNodes Node.update (base.map (·.id)) (base, []) ns2
  r.1 ++ r.2

/-- the edge loop shared by `Union` (live `GetEdgeByType`, `PointsTo` de-duplication) -/
def unionEdgeStep (acc : List Edge) (e2 : Edge) : List Edge :=
  if acc.any (·.key = e2.key) then
    modifyFirst (·.key = e2.key) (fun e => { e with tos := addNew e.tos e2.tos }) acc
  else acc ++ [e2]

def unionEdges (base : List Edge) (es2 : List Edge) : List Edge := es2.foldl unionEdgeStep base

def NodeList.union (nl nl2 : NodeList) : NodeList :=
  let r := ({ nodes := unionNodes nl.nodes nl2.nodes
              edges := unionEdges nl.edges nl2.edges
              roots := nl.roots } : NodeList).cleanEdges
  { r with roots := nl.roots ++ nl2.roots.filter (· ∉ nl.roots) }

/-- the edge loop of `Intersect` (de-duplication against the targets present before the append) -/
def intersectEdgeStep (acc : List Edge) (e2 : Edge) : List Edge :=
  if acc.any (·.key = e2.key) then
    modifyFirst (·.key = e2.key)
      (fun e => { e with tos := e.tos ++ e2.tos.filter (· ∉ e.tos) }) acc
  else acc ++ [e2]

def intersectEdges (base : List Edge) (es2 : List Edge) : List Edge := es2.foldl intersectEdgeStep base

def NodeList.intersect (nl nl2 : NodeList) : NodeList :=
  let shared := nl.ids.eraseDups.filter (· ∈ nl2.ids)
  let nodes := shared.filterMap (fun id =>
      match nl.indexed id, nl2.indexed id with
      | some a, some b => some (a.update b)
      | _, _ => none)
  ({ nodes := nodes
     edges := intersectEdges nl.edges nl2.edges
     roots := shared.filter (fun id => id ∈ nl.roots ∨ id ∈ nl2.roots) } : NodeList).cleanEdges

def NodeList.removeNodes (nl : NodeList) (ids : List String) : NodeList :=
  ({ nodes := nl.nodes.filter (·.id ∉ ids)
     edges := nl.edges
     roots := nl.roots.filter (· ∉ ids) } : NodeList).cleanEdges

/-! ### RelateNodeAtID, RelateNodeListAtID (error = `none`) -/

def NodeList.relateNodeAtID (nl : NodeList) (n : Node) (nodeID : String) (ty : Int) : Option NodeList :=
  if nodeID ∈ nl.ids then
    let k : Key := (nodeID, ty)
    let edges :=
      if nl.edges.any (·.key = k) then
        modifyFirst (·.key = k) (fun e => { e with tos := e.tos ++ [n.id] }) nl.edges
      else nl.edges ++ [{ ty := ty, src := nodeID, tos := [n.id] }]
    let nodes := if n.id ∈ nl.ids then nl.nodes else nl.nodes ++ [n]
    some { nl with nodes := nodes, edges := edges }
  else none

def relateEdgeStep (keys0 : List Key) (acc : List Edge) (e : Edge) : List Edge :=
  if e.key ∈ keys0 then
    modifyFirst (·.key = e.key) (fun x => { x with tos := addNew x.tos e.tos }) acc
  else acc ++ [e]

def NodeList.relateNodeListAtID (nl nl2 : NodeList) (nodeID : String) (ty : Int) : Option NodeList :=
  if nodeID ∈ nl.ids then
    let k : Key := (nodeID, ty)
    let keys0 := nl.edges.map Edge.key
    let edges1 :=
      if k ∈ keys0 then
        modifyFirst (·.key = k) (fun e => { e with tos := addNew e.tos nl2.roots }) nl.edges
      else nl.edges ++ [{ ty := ty, src := nodeID, tos := nl2.roots }]
    let nodes := nl.nodes ++ nl2.nodes.filter (·.id ∉ nl.ids)
    let edges := nl2.edges.foldl (relateEdgeStep keys0) edges1
    some { nl with nodes := nodes, edges := edges }
  else none

/-! ### extraction -/

/-- existing targets of the edges leaving `id` (what `NodeSiblings(id).Nodes` adds to `id`);
    `NodeSiblings("")` is nil, so the empty identifier has no successors. -/
def NodeList.succ (nl : NodeList) (id : String) : List String :=
  if id = "" then [] else
  ((nl.edges.filter (·.src = id)).flatMap (·.tos)).filter (· ∈ nl.ids)

/-- first node with each of the given identifiers (`GetNodeByID`), absent ones skipped -/
def NodeList.nodesOf (nl : NodeList) (ids : List String) : List Node :=
  ids.filterMap nl.getNodeByID

def NodeList.nodeSiblings (nl : NodeList) (id : String) : Option NodeList :=
  if id = "" then none
  else if id ∈ nl.ids then
    let es := nl.edges.filter (·.src = id)
    let ns := nl.nodesOf (id :: es.flatMap (·.tos)).eraseDups
    some ({ nodes := ns, edges := es, roots := [id] } : NodeList).cleanEdges
  else some {}

/-- `connectedIndexRecursion` as a worklist: visit `x` unless seen, a boundary, or absent. The
    measure (number of identifiers not yet seen, then stack length) is what makes every call
    terminate on cyclic and ill-formed graphs. -/
def NodeList.reach (nl : NodeList) (bnd : List String) : List String → List String → List String
  | [], seen => seen
  | x :: stack, seen =>
    if h : x ∈ seen ∨ x ∈ bnd ∨ x ∉ nl.ids then nl.reach bnd stack seen
    else nl.reach bnd (nl.succ x ++ stack) (x :: seen)
termination_by stack seen => ((nl.ids.filter (· ∉ seen)).length, stack.length)
decreasing_by
  · apply Prod.Lex.right'
    · exact Nat.le_refl _
    · simp
  · apply Prod.Lex.left
    have h' : x ∉ seen ∧ x ∈ nl.ids := by
      constructor
      · intro hh; exact h (Or.inl hh)
      · exact Classical.byContradiction (fun hh => h (Or.inr (Or.inr hh)))
    exact unseen_lt nl.ids seen x h'.2 h'.1

/-- identifiers in `indexConnectedNodes(id)` -/
def NodeList.connected (nl : NodeList) (id : String) : List String :=
  nl.reach nl.roots (nl.succ id) [id]

def NodeList.nodeGraph (nl : NodeList) (id : String) : Option NodeList :=
  if id ∈ nl.ids then
    let cs := nl.connected id
    some ({ nodes := nl.nodesOf cs
            edges := nl.edges.filter (·.src ∈ cs)
            roots := [id] } : NodeList).cleanEdges
  else none

/-- one level of `NodeDescendants`: returns the new seen set and the next frontier -/
def NodeList.descStep (nl : NodeList) (start : String) (st : List String × List String) (n : String) :
    List String × List String :=
  if n ∈ st.1 then st else
  let seen1 := n :: st.1
  if (n ∈ nl.roots ∧ n ≠ start) then (seen1, st.2)
  else (seen1, st.2 ++ ((nl.edges.filter (·.src = n)).flatMap (·.tos)).filter
                          (fun t => t ∉ seen1 ∧ t ∈ nl.ids))

def NodeList.descLoop (nl : NodeList) (start : String) : Nat → List String → List String → List String
  | 0, _, seen => seen
  | d + 1, frontier, seen =>
    let r := frontier.foldl (nl.descStep start) (seen, [])
    nl.descLoop start d r.2 r.1

def NodeList.nodeDescendants (nl : NodeList) (id : String) (maxDepth : Int) : NodeList :=
  if id ∈ nl.ids then
    let seen := nl.descLoop id maxDepth.toNat [id] []
    ({ nodes := nl.nodesOf seen
       edges := nl.edges
       roots := if id ∈ seen then [id] else [] } : NodeList).cleanEdges
  else {}

/-- `GetNodesByPurlType` (the receiver is non-nil here) -/
def NodeList.getNodesByPurlType (nl : NodeList) (purlType : String) : NodeList :=
  let ns := nl.nodes.filter (fun n =>
      ("pkg:" ++ purlType ++ "/").isPrefixOf n.purl || ("pkg:/" ++ purlType ++ "/").isPrefixOf n.purl)
  let ids := ns.map (·.id)
  let es := nl.edges.filter (·.src ∈ ids)
  -- reconnectOrphanNodes: nodes without outgoing edge become roots (root index is not updated)
  let roots := (ns.filter (fun n => ¬ (es.any (·.src = n.id)))).map (·.id)
  ({ nodes := ns, edges := es, roots := roots } : NodeList).cleanEdges

/-! ### GetMatchingNode -/

inductive MatchResult where
  | none | found (n : Node) | ambiguous
deriving Repr, BEq, Inhabited

/-- `GetMatchingNode`. The hash candidates are the nodes indexed under one of the probe's
    `(algorithm, value)` pairs that satisfy `HashesMatch`; each node counts once. -/
def NodeList.getMatchingNode (nl : NodeList) (p : Node) : MatchResult :=
  let cands := nl.nodes.filter (fun n =>
      (p.hashes.any (fun kv => n.hashes.lookup kv.1 = some kv.2)) ∧ n.hashesMatch p.hashes)
  let tp := p.purl
  match cands with
  | [n] => .found n
  | [] =>
    if tp = "" then .none else
    match nl.nodes.filter (fun n => n.purl = tp) with
    | [] => .none
    | [n] => .found n
    | _ => .ambiguous
  | _ =>
    if tp = "" then .ambiguous else
    match cands.filter (fun n => n.purl ≠ "" ∧ n.purl = tp) with
    | [n] => .found n
    | _ => .ambiguous

/-! ### sequences of operations: a register machine over node lists -/

/-- instructions of a register machine whose registers hold node lists; arguments are arbitrary -/
inductive Instr where
  | union (dst a b : Nat)
  | intersect (dst a b : Nat)
  | add (a b : Nat)
  | removeNodes (a : Nat) (ids : List String)
  | relateNode (a : Nat) (n : Node) (at_ : String) (ty : Int)
  | relateList (a b : Nat) (at_ : String) (ty : Int)
  | nodeGraph (dst a : Nat) (id : String)
  | nodeSiblings (dst a : Nat) (id : String)
  | nodeDescendants (dst a : Nat) (id : String) (depth : Int)
  | purlType (dst a : Nat) (t : String)

def reg (regs : List NodeList) (i : Nat) : NodeList := regs.getD i {}

/-- one step; an operation that reports an error or returns nil leaves the registers alone -/
def exec (regs : List NodeList) : Instr → List NodeList
  | .union dst a b => regs.set dst ((reg regs a).union (reg regs b))
  | .intersect dst a b => regs.set dst ((reg regs a).intersect (reg regs b))
  | .add a b => regs.set a ((reg regs a).add (reg regs b))
  | .removeNodes a ids => regs.set a ((reg regs a).removeNodes ids)
  | .relateNode a n at_ ty =>
    match (reg regs a).relateNodeAtID n at_ ty with
    | some r => regs.set a r
    | none => regs
  | .relateList a b at_ ty =>
    match (reg regs a).relateNodeListAtID (reg regs b) at_ ty with
    | some r => regs.set a r
    | none => regs
  | .nodeGraph dst a id =>
    match (reg regs a).nodeGraph id with
    | some r => regs.set dst r
    | none => regs
  | .nodeSiblings dst a id =>
    match (reg regs a).nodeSiblings id with
    | some r => regs.set dst r
    | none => regs
  | .nodeDescendants dst a id depth => regs.set dst ((reg regs a).nodeDescendants id depth)
  | .purlType dst a t => regs.set dst ((reg regs a).getNodesByPurlType t)

def run (regs : List NodeList) (prog : List Instr) : List NodeList := prog.foldl exec regs

end Protobom
