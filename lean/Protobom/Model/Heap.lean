/-
  L2/L3 write-log model for "operations leave their operands unchanged" (C11).
  Storage is a map from allocation tags to contents. A call is a list of events; `alloc` takes
  the next free tag. An operation is *operand-pure* when every write it performs goes to a tag the
  call itself allocated.
-/
namespace Protobom.Heap

abbrev Store := Nat → List String

inductive Event where
  | read (tag : Nat)
  | write (tag : Nat) (v : List String)
  | alloc (v : List String)
deriving Repr

structure St where
  store : Store
  next : Nat

def step (s : St) : Event → St
  | .read _ => s
  | .write t v => { s with store := fun x => if x = t then v else s.store x }
  | .alloc v => { store := fun x => if x = s.next then v else s.store x, next := s.next + 1 }

def run (s : St) (es : List Event) : St := es.foldl step s

/-- every write of the trace goes to a tag at or above `base` (allocated by the call) -/
def WritesFresh (base : Nat) (es : List Event) : Prop :=
  ∀ e ∈ es, match e with
    | .write t _ => base ≤ t
    | _ => True

/-! ### threads -/

/-- two events conflict when they touch the same tag and at least one writes it -/
def conflict : Event → Event → Prop
  | .write t _, .write u _ => t = u
  | .write t _, .read u => t = u
  | .read t, .write u _ => t = u
  | _, _ => False

/-- the tags an event touches -/
def Event.tag? : Event → Option Nat
  | .read t => some t
  | .write t _ => some t
  | .alloc _ => none

end Protobom.Heap
