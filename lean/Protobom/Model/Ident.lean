/- `sbom.NewNodeIdentifier` (pkg/sbom/functions.go) over bytes. -/
namespace Protobom.Ident

abbrev Bytes := List UInt8

def isSafeByte (b : UInt8) : Bool :=
  (97 ≤ b && b ≤ 122) || (65 ≤ b && b ≤ 90) || (48 ≤ b && b ≤ 57) || b = 45 || b = 46

/-- `strings.ReplaceAll` of "/", ":" and " " by "-" -/
def replSep (b : UInt8) : UInt8 := if b = 47 || b = 58 || b = 32 then 45 else b

/-- the replacement function of `invalidIDCharsRe`: every byte of a run of characters outside
    `[a-zA-Z0-9-.]` becomes `C` followed by its decimal value -/
def encodeByte (b : UInt8) : List Char :=
  if isSafeByte b then [Char.ofNat b.toNat] else 'C' :: Nat.toDigits 10 b.toNat

def sanitize (s : Bytes) : List Char := (s.map replSep).flatMap encodeByte

def kwAuto : Bytes := [97, 117, 116, 111]
def kwNode : Bytes := [110, 111, 100, 101]

structure St where
  known : List (List Char) := ["protobom".toList]
  valid : List (List Char) := []

def step (st : St) (s : Bytes) : St :=
  if (s = kwAuto ∨ s = kwNode) ∧ st.valid = [] then
    { st with known := st.known ++ [s.map (fun b => Char.ofNat b.toNat)] }
  else
    let s' := sanitize s
    if s' = [] then st else { st with valid := st.valid ++ [s'] }

def joinDash : List (List Char) → List Char
  | [] => []
  | [x] => x
  | x :: y :: rest => x ++ '-' :: joinDash (y :: rest)

def finish (st : St) (uuid : List Char) : List Char :=
  let valid := if st.valid = [] then [uuid] else st.valid
  match valid with
  | [] => joinDash st.known
  | v :: vs => joinDash (st.known ++ ('-' :: v) :: vs)

def newNodeIdentifier (seeds : List Bytes) (uuid : List Char) : List Char :=
  finish (seeds.foldl step {}) uuid

/-- some seed survives: it is neither consumed as a known prefix nor empty after sanitising -/
def usable (seeds : List Bytes) : Bool := (seeds.foldl step {}).valid ≠ []

end Protobom.Ident
