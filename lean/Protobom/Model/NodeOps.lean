/-
  L1 model of the value operations on `Node` that the graph algebra needs:
  attribute access by Go field name, `Update`, `Augment`, `HashesMatch`, `Purl`.
  `update`/`augment` are *defined by* the regenerated tables `Gen.NodeFields.updateTable` /
  `augmentTable`: a field the Go function does not handle (or handles with an unexpected guard)
  is left untouched by the model too.
-/
import Protobom.Model.Types
import Protobom.Gen.Schema
import Protobom.Gen.NodeFields

namespace Protobom
open Gen

/-- position of a Go field name in the attribute list -/
def attrIdx (f : String) : Option Nat := Schema.nodeAttrs.findIdx? (·.1 = f)

def Node.attr (n : Node) (f : String) : Option Val :=
  match attrIdx f with
  | some i => n.attrs[i]?
  | none => none

def Node.strAttr (n : Node) (f : String) : String :=
  match n.attr f with
  | some (.str s) => s
  | _ => ""

def Node.mapAttr (n : Node) (f : String) : List (Int × String) :=
  match n.attr f with
  | some (.imap m) => m
  | _ => []

def Node.name (n : Node) : String := n.strAttr "Name"
def Node.hashes (n : Node) : List (Int × String) := n.mapAttr "Hashes"
def Node.identifiers (n : Node) : List (Int × String) := n.mapAttr "Identifiers"

/-- `Node.Purl`: empty for FILE nodes, else the PURL identifier (key 1) -/
def Node.purl (n : Node) : String :=
  if n.typ = 1 then "" else (n.identifiers.lookup 1).getD ""

/-- the guard the Go code is expected to use for each kind -/
def Kind.updateGuard : Kind → String
  | .str => "nestr"
  | .date => "nenil"
  | _ => "lenpos"

def Kind.augmentGuard : Kind → String
  | .str => "eqstr&nestr"
  | .date => "eqnil&nenil"
  | _ => "lenzero&lenpos"

/-- is field `f` of kind `k` handled by `Update` with the guard that means "argument non-empty"? -/
def updateHandles (f : String) (k : Kind) : Bool :=
  NodeFields.updateTable.contains (f, k.updateGuard)

def augmentHandles (f : String) (k : Kind) : Bool :=
  NodeFields.augmentTable.contains (f, k.augmentGuard)

/-- field-wise combination of two attribute lists along the schema -/
def zipAttrs (g : String → Kind → Val → Val → Val) : List (String × Kind) → List Val → List Val → List Val
  | (f, k) :: fs, a :: as, b :: bs => g f k a b :: zipAttrs g fs as bs
  | _, as, _ => as

/-- `Node.Update`: every handled attribute takes the argument's value when that is non-empty. -/
def Node.update (n m : Node) : Node :=
  { n with attrs := zipAttrs (fun f k a b => if updateHandles f k && !b.isEmpty then b else a)
                      Schema.nodeAttrs n.attrs m.attrs }

/-- `Node.Augment`: every handled attribute that is empty in the receiver is filled from the argument. -/
def Node.augment (n m : Node) : Node :=
  { n with attrs := zipAttrs (fun f k a b => if augmentHandles f k && a.isEmpty && !b.isEmpty then b else a)
                      Schema.nodeAttrs n.attrs m.attrs }

/-- `Node.HashesMatch` on key-unique association lists -/
def hashesMatchL (nh th : List (Int × String)) : Bool :=
  if nh.isEmpty || th.isEmpty then false else
  let common := th.filter (fun kv => (nh.lookup kv.1).isSome)
  common.all (fun kv => nh.lookup kv.1 = some kv.2) && !common.isEmpty

def Node.hashesMatch (n : Node) (th : List (Int × String)) : Bool := hashesMatchL n.hashes th

/-- a node is well-shaped when its attribute list follows the schema -/
def Node.shaped (n : Node) : Bool := n.attrs.length = Schema.nodeAttrs.length

end Protobom
