/- Reader / writer configuration objects (pkg/reader, pkg/writer: defaultOptions, Options.clone, New,
   the With… functional options, public option fields) as a small heap: an options object holds a
   value field (Format) and pointers to option structs / the format-options map, which live in cells. -/
namespace Protobom.Opts

abbrev Cell := List (String × String)

structure Opt where
  format : String
  ptrs : List Nat
deriving Repr, DecidableEq

structure St where
  store : Nat → Cell
  next : Nat
  defaults : Opt
  insts : List Opt

def upd (s : Nat → Cell) (p : Nat) (c : Cell) : Nat → Cell := fun q => if q = p then c else s q

def put (c : Cell) (k v : String) : Cell := (k, v) :: c.filter (·.1 ≠ k)

/-- `Options.clone`: a new options object whose structs and map are copies in fresh cells -/
def clonePtrs (s : Nat → Cell) (next : Nat) : List Nat → (Nat → Cell) × Nat × List Nat
  | [] => (s, next, [])
  | p :: ps =>
    let r := clonePtrs (upd s next (s p)) (next + 1) ps
    (r.1, r.2.1, next :: r.2.2)

/-- functional options of a constructor -/
inductive Setting where
  | format (f : String)                      -- WithFormat
  | replace (k : Nat) (c : Cell)             -- WithRenderOptions &c.: point field k at the caller's struct
  | setKey (k : Nat) (key val : String)      -- WithFormatOptions: write into the instance's own map
deriving Repr

def setNth (l : List Nat) (k v : Nat) : List Nat := l.set k v

def applySetting (s : Nat → Cell) (next : Nat) (o : Opt) : Setting → (Nat → Cell) × Nat × Opt
  | .format f => (s, next, { o with format := f })
  | .replace k c => if k < o.ptrs.length then (upd s next c, next + 1, { o with ptrs := setNth o.ptrs k next }) else (s, next, o)
  | .setKey k key val =>
    match o.ptrs[k]? with
    | some p => (upd s p (put (s p) key val), next, o)
    | none => (s, next, o)

def applySettings (s : Nat → Cell) (next : Nat) (o : Opt) : List Setting → (Nat → Cell) × Nat × Opt
  | [] => (s, next, o)
  | x :: xs => let r := applySetting s next o x; applySettings r.1 r.2.1 r.2.2 xs

inductive Op where
  | new (settings : List Setting)                  -- reader.New / writer.New
  | mutate (i k : Nat) (key val : String)          -- a write through instance i's public option pointer k
deriving Repr

def step (st : St) : Op → St
  | .new settings =>
    let c := clonePtrs st.store st.next st.defaults.ptrs
    let r := applySettings c.1 c.2.1 { format := st.defaults.format, ptrs := c.2.2 } settings
    { st with store := r.1, next := r.2.1, insts := st.insts ++ [r.2.2] }
  | .mutate i k key val =>
    match st.insts[i]? with
    | some o =>
      match o.ptrs[k]? with
      | some p => { st with store := upd st.store p (put (st.store p) key val) }
      | none => st
    | none => st

def run (st : St) (ops : List Op) : St := ops.foldl step st

/-- what a caller can read: the configuration value behind an options object -/
def deref (s : Nat → Cell) (o : Opt) : String × List Cell := (o.format, o.ptrs.map s)

/-! ### the specification: configurations are values -/

abbrev Cfg := String × List Cell

def specSetting (c : Cfg) : Setting → Cfg
  | .format f => (f, c.2)
  | .replace k cell => if k < c.2.length then (c.1, c.2.set k cell) else c
  | .setKey k key val =>
    match c.2[k]? with
    | some cell => (c.1, c.2.set k (put cell key val))
    | none => c

def specStep (d : Cfg) (insts : List Cfg) : Op → List Cfg
  | .new settings => insts ++ [settings.foldl specSetting d]
  | .mutate i k key val =>
    match insts[i]? with
    | some c =>
      match c.2[k]? with
      | some cell => insts.set i (c.1, c.2.set k (put cell key val))
      | none => insts
    | none => insts

def specRun (d : Cfg) (insts : List Cfg) (ops : List Op) : List Cfg := ops.foldl (specStep d) insts

end Protobom.Opts
