/- The reader's parse path (pkg/reader/reader.go: ParseStreamWithOptions) over decoded native
   structures that keep their nil pointers: detection, registry dispatch, third-party decode
   (a parameter), conversion. Every place where the conversion code reaches through a pointer
   the decoder can leave nil is a `Site`; whether the source guards it is read from the
   regenerated `Gen.Guards.table`. -/
import Protobom.Model.Sniff
import Protobom.Model.Cdx
import Protobom.Model.Spdx
import Protobom.Gen.Guards

namespace Protobom.Parse
open Gen

structure Site where
  fn : String      -- function that dereferences
  guard : String   -- expression it must compare with nil first (or `recover()` / a named result)
deriving Repr, DecidableEq

def guardPresent (s : Site) : Bool :=
  match Guards.table.lookup s.fn with
  | some gs => gs.contains s.guard
  | none => false

/-- nil pointers cyclonedx-go's decoder can leave (by type and field) that protobom's CycloneDX
    parser reaches, and the guards that protect them -/
def cdxSites : List (String × List Site) := [
  ("BOM.Metadata", [⟨"unserializers.CDX.Unserialize", "bom.Metadata"⟩]),
  ("Metadata.Lifecycles", [⟨"unserializers.CDX.Unserialize", "bom.Metadata.Lifecycles"⟩]),
  ("Metadata.Component", [⟨"unserializers.CDX.Unserialize", "bom.Metadata.Component"⟩]),
  ("BOM.Components", [⟨"unserializers.CDX.Unserialize", "bom.Components"⟩]),
  ("Component.Components", [⟨"unserializers.CDX.componentToNodeList", "component.Components"⟩]),
  ("Component.Hashes", [⟨"unserializers.CDX.componentToNode", "c.Hashes"⟩]),
  ("Component.Licenses", [⟨"unserializers.CDX.licenseChoicesToLicenseList", "lcs"⟩,
                          ⟨"unserializers.CDX.licenseChoicesToLicenseString", "lcs"⟩]),
  ("Component.ExternalReferences", [⟨"unserializers.CDX.unserializeExternalReferences", "cdxReferences"⟩]),
  ("ExternalReference.Hashes", [⟨"unserializers.CDX.unserializeExternalReferences", "extRef.Hashes"⟩]),
  ("LicenseChoice.License", [⟨"unserializers.licenseChoiceID", "lc.License"⟩])]

/-- the same for tools-golang's SPDX 2.3 document -/
def spdxSites : List (String × List Site) := [
  ("Document.CreationInfo", [⟨"unserializers.SPDX23.Unserialize", "spdxDoc.CreationInfo"⟩]),
  ("Document.Packages[]", [⟨"unserializers.SPDX23.Unserialize", "p"⟩]),
  ("Document.Files[]", [⟨"unserializers.SPDX23.Unserialize", "f"⟩]),
  ("Document.Relationships[]", [⟨"unserializers.SPDX23.Unserialize", "r"⟩]),
  ("Package.PackageSupplier", [⟨"unserializers.SPDX23.packageToNode", "p.PackageSupplier"⟩]),
  ("Package.PackageOriginator", [⟨"unserializers.SPDX23.packageToNode", "p.PackageOriginator"⟩]),
  ("Package.PackageExternalReferences[]", [⟨"unserializers.SPDX23.packageToNode", "r"⟩])]

/-- tools-golang's decoder dereferences null array elements in its post-pass; protobom turns
    that panic into an error with a deferred recover that assigns the named results -/
def recoverSites : List Site := [
  ⟨"unserializers.readSPDXJSON", "recover()"⟩, ⟨"unserializers.readSPDXJSON", "result:doc"⟩,
  ⟨"unserializers.readSPDXJSON", "result:err"⟩]

/-- the first dereference of a nil that the source does not guard -/
def unguarded (tbl : List (String × List Site)) (nils : List String) : Option Site :=
  (nils.flatMap (fun n => (tbl.lookup n).getD [])).find? (fun s => !guardPresent s)

/-- what a third-party decoder made of the bytes -/
inductive Decoded (α : Type) where
  | ok (nils : List String) (v : α)
  | err
  | panic
deriving Repr

def unserCDXn (nils : List String) (b : Cdx.Bom) : Outcome Document :=
  match unguarded cdxSites nils with
  | some s => .panic (s.fn ++ ": " ++ s.guard)
  | none => .ok (Cdx.unserCDX b)

def unserSPDXn (nils : List String) (d : Spdx.Doc) : Outcome Document :=
  match unguarded spdxSites nils with
  | some s => .panic (s.fn ++ ": " ++ s.guard)
  | none => .ok (Spdx.unserSPDX d)

def parseCDX : Decoded Cdx.Bom → Outcome Document
  | .ok nils b => unserCDXn nils b
  | .err => .err
  | .panic => .panic "cyclonedx-go decoder"

def parseSPDX : Decoded Spdx.Doc → Outcome Document
  | .ok nils d => unserSPDXn nils d
  | .err => .err
  | .panic => if recoverSites.all guardPresent then .err else .panic "tools-golang decoder"

/-- registry dispatch: the driver registered for a format -/
def driverOf (f : Sniff.Format) : Option String :=
  if Formats.readerFormats.contains f then
    (if Sniff.typ f = "cyclonedx" then some "cdx" else if Sniff.typ f = "spdx" then some "spdx" else none)
  else none

/-- `ParseStreamWithOptions`: an explicit format skips detection -/
def parse (i : Sniff.Input) (explicit : Option Sniff.Format) (c : Decoded Cdx.Bom) (s : Decoded Spdx.Doc) :
    Outcome Document :=
  let fmt : Outcome Sniff.Format := match explicit with
    | some f => if f = "" then (Sniff.sniffReader i).1 else .ok f
    | none => (Sniff.sniffReader i).1
  fmt.bind fun f =>
    match driverOf f with
    | some "cdx" => parseCDX c
    | some _ => parseSPDX s
    | none => .err

end Protobom.Parse
