/- Format detection (pkg/formats/sniffer.go, formats.go).

   Inputs are abstracted through the two third-party readers the sniffer uses:
   * `decl`  — what `json.Decoder.Decode` stored in the three-field declaration struct, or
               `none` when it returned an error;
   * `lines` — the tokens `bufio.Scanner` with `ScanLines` yields after the rewind.
   The harness computes both with the same library calls, independently of protobom. -/
import Protobom.Model.Str
import Protobom.Model.Doc
import Protobom.Gen.Tables
import Protobom.Gen.Formats

namespace Protobom.Sniff
open Gen Str

abbrev Format := String

def constOf (n : String) : String := (Formats.consts.lookup n).getD ""

structure Decl where
  bomFormat : String
  specVersion : String
  spdxVersion : String
deriving Repr, DecidableEq

/-- simple case folding, restricted to the orbits that contain an ASCII letter -/
def foldChar (c : Char) : Char :=
  if 'A' ≤ c ∧ c ≤ 'Z' then Char.ofNat (c.toNat + 32)
  else if c.toNat = 0x212A then 'k'
  else if c.toNat = 0x17F then 's'
  else c

/-- `strings.EqualFold` against an ASCII lower-case constant -/
def equalFold (a b : String) : Bool := a.toList.map foldChar == b.toList.map foldChar

/-- the JSON branch of `SniffReader` -/
def sniffDecl (d : Decl) : Option Format :=
  if equalFold d.bomFormat (constOf "CDXFORMAT") then Tables.sniffCdxVersion.lookup d.specVersion
  else Tables.sniffSpdxVersion.lookup d.spdxVersion

structure SniffState where
  typ : String := ""
  ver : String := ""
  enc : String := ""
deriving Repr, DecidableEq

def SniffState.format (s : SniffState) : Format :=
  if s.typ ≠ "" ∧ s.enc ≠ "" ∧ s.ver ≠ "" then s.typ ++ "+" ++ s.enc ++ ";version=" ++ s.ver else ""

def spdxVersions : List String := ["2.2", "2.3"]

/-- `spdxSniff.sniff`: the state is saved only when no version was recognised on the line -/
def sniffLine (st : SniffState) (line : String) : SniffState × Format :=
  let tagged := containsSub line "SPDXVersion:"
  let st1 : SniffState := if tagged then { st with typ := "text/spdx", enc := "text" } else st
  match (if tagged then spdxVersions.find? (fun v => containsSub line ("SPDX-" ++ v)) else none) with
  | some v => (st, { st1 with ver := v }.format)
  | none =>
    match spdxVersions.find? (fun v => containsSub line ("'SPDX-" ++ v ++ "'") ||
                                        containsSub line ("\"SPDX-" ++ v ++ "\"")) with
    | some v => (st, { st1 with ver := v }.format)
    | none => (st1, st1.format)

def sniffLines (st : SniffState) : List String → Format
  | [] => ""
  | l :: ls =>
    let r := sniffLine st l
    if r.2 ≠ "" then r.2 else sniffLines r.1 ls

structure Input where
  decl : Option Decl
  lines : List String

/-- stream operations `SniffReader` performs, reads collapsed -/
inductive Ev | read | seek0
deriving Repr, DecidableEq

def sniffReader (i : Input) : Outcome Format × List Ev :=
  match i.decl with
  | some d =>
    (match sniffDecl d with
     | some f => .ok f
     | none => .err, [.read, .seek0])
  | none =>
    let f := sniffLines {} i.lines
    (if f ≠ "" then .ok f else .err, [.read, .seek0, .read, .seek0])

/-- stream offset after a sequence of operations; `adv` is whatever the reads consumed -/
def posAfter (adv : Nat → Nat) : Nat → List Ev → Nat
  | p, [] => p
  | p, .read :: es => posAfter adv (adv p) es
  | _, .seek0 :: es => posAfter adv 0 es

/-! Format accessors -/

def splitL (sep : List Char) : (acc : List Char) → (skip : Nat) → List Char → List (List Char)
  | acc, _, [] => [acc.reverse]
  | acc, skip+1, _ :: cs => splitL sep acc skip cs
  | acc, 0, c :: cs =>
    if sep ≠ [] ∧ sep.isPrefixOf (c :: cs) then acc.reverse :: splitL sep [] (sep.length - 1) cs
    else splitL sep (c :: acc) 0 cs

/-- `strings.Split` for a non-empty separator -/
def split (s sep : String) : List String := (splitL sep.toList [] 0 s.toList).map String.ofList

def version (f : Format) : String :=
  match split f ";version=" with
  | _ :: b :: _ => b
  | _ => ""

def major (f : Format) : String :=
  match split (version f) "." with
  | [a, _] => a
  | _ => ""

def minor (f : Format) : String :=
  match split (version f) "." with
  | [_, b] => b
  | _ => ""

def encoding (f : Format) : String :=
  if containsSub f (constOf "JSON") then constOf "JSON"
  else if containsSub f (constOf "TEXT") then constOf "TEXT"
  else ""

def typ (f : Format) : String :=
  if containsSub f (constOf "SPDXFORMAT") then constOf "SPDXFORMAT"
  else if containsSub f (constOf "CDXFORMAT") then constOf "CDXFORMAT"
  else ""

/-- the declaration a document written for `f` carries: `spdxVersion` is the constant
    `spdx.Version` of tools-golang v2_3; CycloneDX's encoder writes `bomFormat` "CycloneDX"
    and the `specVersion` of the version it was asked for (third-party contract, checked by
    the `sniff` stream on every writer output) -/
def declOfFormat (f : Format) : Option Decl :=
  if typ f = "spdx" ∧ encoding f = "json" then some ⟨"", "", "SPDX-" ++ version f⟩
  else if typ f = "cyclonedx" ∧ encoding f = "json" then some ⟨"CycloneDX", version f, ""⟩
  else none

end Protobom.Sniff
