/-
  L1 model of the SPDX 2.3 translators:
    `serSPDX`   — pkg/native/serializers/serializer_spdx23.go (Serialize, buildPackages, buildFiles,
                  buildRelationships)
    `codecSPDX` — tools-golang 0.5.5 "marshal to JSON, unmarshal again" at structure level (a
                  modelled contract, itself under correspondence)
    `unserSPDX` — pkg/native/unserializers/unserializer_spdx23.go (Unserialize, packageToNode,
                  fileToNode, relationshipToEdge)
  Enum mappings come from the regenerated `Gen.Tables`. Date strings are abstract: a date field of
  the native document is `Option Int` ("the Unix second the RFC 3339 string denotes"); Go's
  `time.Format`/`time.Parse` pair is assumed to round-trip seconds in years 1–9999.
-/
import Protobom.Model.Doc
import Protobom.Model.Flat
import Protobom.Model.Str
import Protobom.Gen.Tables

namespace Protobom.Spdx
open Protobom Gen

structure Checksum where
  algo : String
  value : String
deriving Repr, BEq, DecidableEq, Inhabited

structure ExtRef where
  category : String
  refType : String
  locator : String
  comment : String := ""
deriving Repr, BEq, DecidableEq, Inhabited

/-- supplier / originator: (name string, type) -/
structure Agent where
  name : String
  typ : String
deriving Repr, BEq, DecidableEq, Inhabited

structure Package where
  id : String
  name : String := ""
  version : String := ""
  fileName : String := ""
  download : String := ""
  home : String := ""
  sourceInfo : String := ""
  licenseConcluded : String := ""
  licenseComments : String := ""
  copyright : String := ""
  summary : String := ""
  description : String := ""
  comment : String := ""
  purpose : String := ""
  release : Option Int := none
  built : Option Int := none
  validUntil : Option Int := none
  checksums : List Checksum := []
  extRefs : List ExtRef := []
  attribution : List String := []
  supplier : Option Agent := none
  originator : Option Agent := none
deriving Repr, Inhabited

structure File where
  id : String
  name : String := ""
  fileTypes : List String := []
  checksums : List Checksum := []
  licenseConcluded : String := ""
  licenseInfo : List String := []
  licenseComments : String := ""
  copyright : String := ""
  comment : String := ""
  attribution : List String := []
deriving Repr, Inhabited

structure Rel where
  a : String
  rel : String
  b : String
deriving Repr, BEq, DecidableEq, Inhabited

structure Doc where
  name : String := ""
  ns : String := ""
  comment : String := ""
  creators : List (String × String) := []      -- (type, name)
  packages : List Package := []
  files : List File := []
  rels : List Rel := []
deriving Repr, Inhabited

/-! ### table access -/

def lookupD {κ β} [BEq κ] (tbl : List (κ × β)) (d : β) (k : κ) : β := (tbl.lookup k).getD d

def edgeToSPDX2 (t : Int) : String := lookupD Tables.edgeToSPDX2 Tables.edgeToSPDX2_default t
def edgeFromSPDX2 (s : String) : Int := lookupD Tables.edgeFromSPDX2 Tables.edgeFromSPDX2_default (Str.toUpper s)
def hashToSPDX (a : Int) : String := lookupD Tables.hashToSPDX Tables.hashToSPDX_default a
def hashFromSPDX (s : String) : Int := lookupD Tables.hashFromSPDX Tables.hashFromSPDX_default s
def identType (k : Int) : String := lookupD Tables.identToSPDX2Type Tables.identToSPDX2Type_default k
def identCategory (k : Int) : String :=
  lookupD Tables.identToSPDX2Category Tables.identToSPDX2Category_default (identType k)
def refCategory (t : Int) : String := lookupD Tables.spdxExtRefCategory Tables.spdxExtRefCategory_default t
def refType (t : Int) : String := lookupD Tables.spdxExtRefType Tables.spdxExtRefType_default t

/-- purpose string written for the first primary purpose ("" when none applies) -/
def purposeOut (ps : List Int) : String :=
  match ps with
  | p :: _ =>
    if p = 0 then "" else
    let r := lookupD Tables.spdxPurposeOut Tables.spdxPurposeOut_default p
    if r = "<none>" then "" else r
  | [] => ""

/-- purposes read from a purpose string -/
def purposeIn (s : String) : List Int :=
  match Tables.spdxPurposeIn.lookup s with
  | some v => if v = -999 then [] else [v]
  | none => []

/-- is the enum number one the schema names? (`sbom.HashAlgorithm_name[algo]`) -/
def knownHash (a : Int) : Bool := Schema.hashAlgorithms.any (·.2 = a)

/-! ### serializer -/

def clientString (p : Person) : String :=
  match p with
  | .mk name _ email _ _ _ => if email = "" then name else name ++ " (" ++ email ++ ")"

def clientOrg (p : Person) : String :=
  match p with
  | .mk _ isOrg _ _ _ _ => if isOrg then "Organization" else "Person"

def Node.str (n : Node) (f : String) : String := n.strAttr f

def Node.strs (n : Node) (f : String) : List String :=
  match n.attr f with | some (.strs l) => l | _ => []

def Node.enums (n : Node) (f : String) : List Int :=
  match n.attr f with | some (.enums l) => l | _ => []

def Node.persons (n : Node) (f : String) : List Person :=
  match n.attr f with | some (.persons l) => l | _ => []

def Node.refs (n : Node) (f : String) : List Protobom.ExtRef :=
  match n.attr f with | some (.refs l) => l | _ => []

def Node.dateSecs (n : Node) (f : String) : Option Int :=
  match n.attr f with | some (.date (some (s, _))) => some s | _ => none

/-- checksums: every hash whose algorithm number the schema names and SPDX can express, in key order -/
def checksumsOf (n : Node) : List Checksum :=
  (sortedByKey n.hashes).filterMap (fun kv =>
    if knownHash kv.1 then
      let a := hashToSPDX kv.1
      if a = "" then none else some { algo := a, value := kv.2 }
    else none)

def packageOf (n : Node) : Package :=
  { id := n.id
    name := Node.str n "Name", version := Node.str n "Version", fileName := Node.str n "FileName"
    download := if Node.str n "UrlDownload" = "" then "NOASSERTION" else Node.str n "UrlDownload"
    home := Node.str n "UrlHome", sourceInfo := Node.str n "SourceInfo"
    licenseConcluded := Node.str n "LicenseConcluded", licenseComments := Node.str n "LicenseComments"
    copyright := Str.trimSpace (Node.str n "Copyright")
    summary := Node.str n "Summary", description := Node.str n "Description", comment := Node.str n "Comment"
    purpose := purposeOut (Node.enums n "PrimaryPurpose")
    release := Node.dateSecs n "ReleaseDate", built := Node.dateSecs n "BuildDate"
    validUntil := Node.dateSecs n "ValidUntilDate"
    checksums := checksumsOf n
    extRefs :=
      ((Node.refs n "ExternalReferences").filter (·.url ≠ "")).map (fun e =>
          { category := refCategory e.typ, refType := refType e.typ, locator := e.url, comment := e.comment })
      ++ (sortedByKey n.identifiers).map (fun kv =>
          { category := identCategory kv.1, refType := identType kv.1, locator := kv.2 })
    attribution := Node.strs n "Attribution"
    supplier := (Node.persons n "Suppliers").head?.map (fun p => { name := clientString p, typ := clientOrg p })
    originator := (Node.persons n "Originators").head?.map (fun p => { name := clientString p, typ := clientOrg p }) }

/-- a file's copyright text: trimmed, `NONE` when nothing is left -/
def fileCopyright (s : String) : String :=
  let c := Str.trimSpace s
  if c = "" then "NONE" else c

def fileOf (n : Node) : File :=
  { id := n.id, name := Node.str n "Name", fileTypes := Node.strs n "FileTypes"
    checksums := checksumsOf n
    licenseConcluded := Node.str n "LicenseConcluded", licenseComments := Node.str n "LicenseComments"
    copyright := fileCopyright (Node.str n "Copyright")
    comment := Node.str n "Comment", attribution := Node.strs n "Attribution" }

def relsOf (nl : NodeList) : List Rel :=
  nl.edges.flatMap (fun e => e.tos.map (fun d => { a := e.src, rel := edgeToSPDX2 e.ty, b := d }))
    ++ nl.roots.map (fun r => { a := "DOCUMENT", rel := "DESCRIBES", b := r })

def toolName (t : Tool) : String := if t.version = "" then t.name else t.name ++ "-" ++ t.version

/-- `SPDX23.Serialize` -/
def serSPDX (d : Document) : Outcome Doc :=
  match d.metadata, d.nodeList with
  | none, _ => .err
  | some _, none => .err
  | some md, some nl =>
    .ok { name := md.name, ns := "https://spdx.org/spdxdocs/", comment := md.comment
          creators := ("Tool", "protobom") :: md.tools.map (fun t => ("Tool", toolName t))
          -- a node that is not a FILE becomes a package, a node that is not a PACKAGE becomes a file
          packages := (nl.nodes.filter (·.typ ≠ 1)).map packageOf
          files := (nl.nodes.filter (·.typ ≠ 0)).map fileOf
          rels := relsOf nl }

/-! ### tools-golang write-then-read, at structure level -/

/-- element identifiers are written with the `SPDXRef-` prefix (unless they already carry it)
    and read back as everything after the first `SPDXRef-` -/
def codecId (s : String) : String :=
  let w := if Str.hasPrefix s "SPDXRef-" then s else "SPDXRef-" ++ s
  match Str.splitFirst w "SPDXRef-" with
  | some (_, rest) => rest
  | none => s

def codecSupplier (a : Agent) : Outcome Agent :=
  if a.name = "NOASSERTION" then .ok { name := "NOASSERTION", typ := "" }
  else if a.name = "" ∨ a.typ = "" then .err
  -- the reader works on the raw bytes of the JSON string token: escapes are not decoded
  else match Str.splitFirst (Str.trimQuotes (Str.jsonEscape (a.typ ++ ": " ++ a.name))) ": " with
    | some (t, n) => .ok { name := n, typ := t }
    | none => .err

def codecOriginator (a : Agent) : Outcome Agent :=
  if a.name = "NOASSERTION" then .ok { name := "NOASSERTION", typ := "" }
  else if a.name = "" ∨ a.typ = "" then .err
  else match Str.splitFirst (Str.trimQuotes (Str.jsonEscape (a.typ ++ ": " ++ a.name))) ":" with
    | some (t, n) => .ok { name := String.mk (n.toList.dropWhile (fun c => c = ' ' ∨ c = '\t')), typ := t }
    | none => .err

def optOutcome {α} (f : α → Outcome α) : Option α → Outcome (Option α)
  | none => .ok none
  | some a => (f a).map some

def mapOutcome {α β} (f : α → Outcome β) : List α → Outcome (List β)
  | [] => .ok []
  | a :: as => (f a).bind (fun b => (mapOutcome f as).map (fun bs => b :: bs))

def codecPackage (p : Package) : Outcome Package :=
  (optOutcome codecSupplier p.supplier).bind fun s =>
  (optOutcome codecOriginator p.originator).map fun o =>
    { p with id := codecId p.id, supplier := s, originator := o
             extRefs := p.extRefs.map (fun r => { r with category := Str.replaceChar r.category '_' '-' }) }

def codecRel (r : Rel) : Outcome Rel :=
  if r.a = "" ∨ r.b = "" then .err
  else .ok { r with a := codecId r.a, b := codecId r.b }

def codecSPDX (d : Doc) : Outcome Doc :=
  if d.creators.any (fun c => c.2 = "") then .err else
  (mapOutcome codecPackage d.packages).bind fun ps =>
  (mapOutcome codecRel d.rels).map fun rs =>
    { d with packages := ps, files := d.files.map (fun f => { f with id := codecId f.id }), rels := rs }

/-! ### parser -/

def extRefKey (category refType : String) : List String :=
  match Tables.spdxExtRefIn_cols.lookup (category ++ ";" ++ refType) with
  | some cols => cols
  | none =>
    match Tables.spdxExtRefIn_cols.lookup (category ++ ";*") with
    | some cols => cols
    | none => Tables.spdxExtRefIn_defaultCols

def digitsVal (cs : List Char) : Nat := cs.foldl (fun acc c => acc * 10 + (c.toNat - 48)) 0

/-- the integer of a rendered constant `i:<decimal>` -/
def colInt (s : String) : Int :=
  match s.toList with
  | 'i' :: ':' :: '-' :: ds => -(digitsVal ds : Int)
  | 'i' :: ':' :: ds => (digitsVal ds : Int)
  | _ => 0

def identIn (refType : String) : Int := lookupD Tables.spdxIdentIn Tables.spdxIdentIn_default refType

/-- Go map store: a later value for the same key replaces the earlier one (position of the first) -/
def mapStore (m : List (Int × String)) (k : Int) (v : String) : List (Int × String) :=
  if m.any (·.1 = k) then m.map (fun kv => if kv.1 = k then (k, v) else kv) else m ++ [(k, v)]

def hashesOfChecksums (cs : List Checksum) : List (Int × String) :=
  cs.foldl (fun m c => let a := hashFromSPDX c.algo; if a = 0 then m else mapStore m a c.value) []

def dateVal (d : Option Int) : Val := .date (d.map (fun s => (s, 0)))

def agentPerson (a : Agent) : Person := .mk a.name (a.typ = "Organization") "" "" "" []

/-- external references and identifiers read from the package's reference list -/
def refsIn (rs : List ExtRef) : List Protobom.ExtRef × List (Int × String) :=
  rs.foldl (fun (st : List Protobom.ExtRef × List (Int × String)) r =>
      match extRefKey r.category r.refType with
      | [t, isId, err] =>
        if err = "err" then st
        else if isId = "true" then
          let it := identIn r.refType
          if it = 0 then st else (st.1, mapStore st.2 it r.locator)
        else (st.1 ++ [{ url := r.locator, typ := colInt t, comment := r.comment }], st.2)
      | _ => st) ([], [])

def supplierPersons (a : Option Agent) : List Person :=
  match a with
  | some s => if s.name = "NOASSERTION" then [] else [agentPerson s]
  | none => []

def originatorPersons (a : Option Agent) : List Person :=
  match a with
  | some s => if s.name = "NOASSERTION" ∨ s.name = "" then [] else [agentPerson s]
  | none => []

/-- the value `packageToNode` gives the attribute with Go field name `f` -/
def pkgAttr (p : Package) (f : String) (k : Kind) : Val :=
  if f = "Name" then .str p.name
  else if f = "Version" then .str p.version
  else if f = "FileName" then .str p.fileName
  else if f = "UrlHome" then .str p.home
  else if f = "UrlDownload" then .str p.download
  else if f = "LicenseComments" then .str p.licenseComments
  else if f = "Copyright" then .str p.copyright
  else if f = "SourceInfo" then .str p.sourceInfo
  else if f = "Comment" then .str p.comment
  else if f = "Summary" then .str p.summary
  else if f = "Description" then .str p.description
  else if f = "Attribution" then .strs p.attribution
  else if f = "PrimaryPurpose" then .enums (purposeIn p.purpose)
  else if f = "LicenseConcluded" then .str (if p.licenseConcluded = "NOASSERTION" then "" else p.licenseConcluded)
  else if f = "Hashes" then .imap (hashesOfChecksums p.checksums)
  else if f = "ExternalReferences" then .refs (refsIn p.extRefs).1
  else if f = "Identifiers" then .imap (refsIn p.extRefs).2
  else if f = "ValidUntilDate" then dateVal p.validUntil
  else if f = "ReleaseDate" then dateVal p.release
  else if f = "BuildDate" then dateVal p.built
  else if f = "Suppliers" then .persons (supplierPersons p.supplier)
  else if f = "Originators" then .persons (originatorPersons p.originator)
  else k.zero

def packageToNode (p : Package) : Node :=
  { id := p.id, typ := 0, attrs := Schema.nodeAttrs.map (fun fk => pkgAttr p fk.1 fk.2) }

def fileAttr (f : File) (g : String) (k : Kind) : Val :=
  if g = "Name" then .str f.name
  else if g = "Licenses" then .strs f.licenseInfo
  else if g = "LicenseConcluded" then .str f.licenseConcluded
  else if g = "LicenseComments" then .str f.licenseComments
  else if g = "Copyright" then .str f.copyright
  else if g = "Comment" then .str f.comment
  else if g = "FileTypes" then .strs f.fileTypes
  else if g = "Hashes" then .imap (hashesOfChecksums f.checksums)
  else k.zero

def fileToNode (f : File) : Node :=
  { id := f.id, typ := 1, attrs := Schema.nodeAttrs.map (fun fk => fileAttr f fk.1 fk.2) }

def equalFoldAscii (a b : String) : Bool := Str.toUpper a = Str.toUpper b

/-- `SPDX23.Unserialize` after decoding -/
def unserSPDX (d : Doc) : Document :=
  let rels := d.rels.filter (fun r => r.a ≠ "" ∧ r.b ≠ "")
  let isRoot (r : Rel) : Bool := r.a = "DOCUMENT" ∧ equalFoldAscii r.rel "DESCRIBES"
  { metadata := some { id := d.ns ++ "#DOCUMENT", version := "0", name := d.name
                       tools := (d.creators.filter (·.1 = "Tool")).map (fun c => { name := c.2 })
                       authors := (d.creators.filter (·.1 ≠ "Tool")).map
                                    (fun c => Person.mk c.2 (c.1 = "Organization") "" "" "" []) }
    nodeList := some
      { nodes := d.packages.map packageToNode ++ d.files.map fileToNode
        edges := (rels.filter (fun r => !isRoot r)).map
                   (fun r => { ty := edgeFromSPDX2 r.rel, src := r.a, tos := [r.b] })
        roots := (rels.filter isRoot).map (·.b) } }

/-- write as SPDX 2.3 JSON, read the output back -/
def rtSPDX (d : Document) : Outcome Document :=
  (serSPDX d).bind fun s => (codecSPDX s).map unserSPDX

end Protobom.Spdx
