/- The filesystem store (pkg/storage/filesystem.go): a directory as a map from file names to
   bytes, Store as the sequence of file operations it issues, Retrieve, and every state a crash
   can leave behind. Protobuf's codec and SHA-256 are parameters with the only properties used:
   decoding an encoding gives the document back; entry names of different identifiers differ. -/
import Protobom.Model.Doc

namespace Protobom.Store

/-- file contents; the unit of a torn write (an abstract byte) -/
abbrev Bytes := List Nat

structure SDoc where
  id : String
  body : List Nat
deriving Repr, DecidableEq

structure Codec where
  enc : SDoc → Bytes
  dec : Bytes → Option SDoc
  rt : ∀ d, dec (enc d) = some d

structure Naming where
  entry : String → String
  inj : ∀ a b, entry a = entry b → a = b

/-- the content of the store directory -/
abbrev Files := String → Option Bytes

def fput (fs : Files) (n : String) (b : Bytes) : Files := fun m => if m = n then some b else fs m
def fdel (fs : Files) (n : String) : Files := fun m => if m = n then none else fs m

inductive FsOp where
  | create (n : String)                 -- os.CreateTemp
  | write (n : String) (b : Bytes)      -- (*File).Write
  | chmod (n : String)
  | rename (a b : String)
  | remove (n : String)
deriving Repr

def apply (fs : Files) : FsOp → Files
  | .create n => fput fs n []
  | .write n b => fput fs n ((fs n).getD [] ++ b)
  | .chmod _ => fs
  | .rename a b => match fs a with
    | some x => fput (fdel fs a) b x
    | none => fs
  | .remove n => fdel fs n

/-- the file operations of a successful `Store` after the directory and clobber checks -/
def storeOps (C : Codec) (N : Naming) (d : SDoc) (tmp : String) : List FsOp :=
  [.create tmp, .write tmp (C.enc d), .chmod tmp, .rename tmp (N.entry d.id)]

/-- `Retrieve` -/
def retrieve (C : Codec) (N : Naming) (fs : Files) (id : String) : Outcome SDoc :=
  if id = "" then .err else
  match fs (N.entry id) with
  | none => .err
  | some b =>
    match C.dec b with
    | none => .err
    | some d => if d.id = id then .ok d else .err

/-- every directory content a crash can leave: before or after any operation, and with any
    prefix of the bytes of a write -/
def crashStates (fs : Files) : List FsOp → List Files
  | [] => [fs]
  | op :: ops =>
    let torn : List Files := match op with
      | .write n b => (List.range b.length).map (fun k => apply fs (.write n (b.take k)))
      | _ => []
    fs :: torn ++ crashStates (apply fs op) ops

/-- `Store` -/
def store (C : Codec) (N : Naming) (fs : Files) (d : SDoc) (noClobber : Bool) (tmp : String) : Outcome Unit × Files :=
  if d.id = "" then (.err, fs)
  else if noClobber ∧ (fs (N.entry d.id)).isSome then (.err, fs)
  else (.ok (), (storeOps C N d tmp).foldl apply fs)

inductive Op where
  | store (d : SDoc) (noClobber : Bool) (tmp : String)
  | retrieve (id : String)

def step (C : Codec) (N : Naming) (fs : Files) : Op → Files
  | .store d nc tmp => (store C N fs d nc tmp).2
  | .retrieve _ => fs

/-! ### a concrete codec and naming for the executable driver -/

def demoCodec : Codec where
  enc d := d.id.length :: (d.id.toList.map Char.toNat ++ d.body)
  dec
    | [] => none
    | n :: rest => some ⟨String.ofList ((rest.take n).map Char.ofNat), rest.drop n⟩
  rt d := by
    cases d with
    | mk ident body =>
      have hlen : ident.length = (ident.toList.map Char.toNat).length := by
        rw [List.length_map]; exact String.length_toList.symm
      simp only [Option.some.injEq, SDoc.mk.injEq]
      refine ⟨?_, ?_⟩
      · rw [hlen, List.take_left', List.map_map]
        · have h2 : (Char.ofNat ∘ Char.toNat) = fun c => c := by funext c; simp
          rw [h2, List.map_id']
          exact String.ofList_toList
        · rfl
      · rw [hlen, List.drop_left']
        rfl

def demoNaming : Naming where
  entry i := i ++ ".protobom"
  inj a b h := by
    have := congrArg String.toList h
    simp only [String.toList_append] at this
    exact String.toList_inj.mp (List.append_cancel_right this)

/-! ### entry names -/

def hexDigit (n : Nat) : Char := if n < 10 then Char.ofNat (48 + n) else Char.ofNat (87 + n)

def hex (bs : List UInt8) : List Char := bs.flatMap (fun b => [hexDigit (b.toNat / 16), hexDigit (b.toNat % 16)])

/-- `generateDocFileName`: `%x` of the digest plus the extension -/
def entryName (digest : List UInt8) : List Char := hex digest ++ ".protobom".toList

end Protobom.Store
