/- Small string library for the places where the Go code inspects text. Core only. -/
namespace Protobom.Str

/-- Go's `unicode.IsSpace` -/
def goIsSpace (c : Char) : Bool :=
  c = ' ' || c = '\t' || c = '\n' || c.toNat = 0x0B || c.toNat = 0x0C || c = '\r' ||
  c.toNat = 0x85 || c.toNat = 0xA0 || c.toNat = 0x1680 || (0x2000 ≤ c.toNat && c.toNat ≤ 0x200A) ||
  c.toNat = 0x2028 || c.toNat = 0x2029 || c.toNat = 0x202F || c.toNat = 0x205F || c.toNat = 0x3000

/-- `strings.TrimSpace` -/
def trimSpace (s : String) : String :=
  String.mk ((s.toList.dropWhile goIsSpace).reverse.dropWhile goIsSpace).reverse

/-- `strings.ToUpper` restricted to what can turn into ASCII: ASCII letters plus the two
    non-ASCII letters whose upper case is ASCII (dotless i, long s) -/
def upperChar (c : Char) : Char :=
  if 'a' ≤ c ∧ c ≤ 'z' then Char.ofNat (c.toNat - 32)
  else if c.toNat = 0x131 then 'I'
  else if c.toNat = 0x17F then 'S'
  else c

def toUpper (s : String) : String := String.mk (s.toList.map upperChar)

def lowerChar (c : Char) : Char :=
  if 'A' ≤ c ∧ c ≤ 'Z' then Char.ofNat (c.toNat + 32)
  else if c.toNat = 0x130 then 'i'      -- İ lower-cases to i̇ in Go? (kept out: see Sniff)
  else if c.toNat = 0x212A then 'k'     -- Kelvin sign
  else c

/-- split at the first occurrence of `sep` (as `strings.SplitN(s, sep, 2)`) -/
def splitFirstL (sep : List Char) : List Char → List Char → Option (List Char × List Char)
  | acc, [] => if sep.isEmpty then some (acc.reverse, []) else none
  | acc, c :: cs =>
    if sep.isPrefixOf (c :: cs) then some (acc.reverse, (c :: cs).drop sep.length)
    else splitFirstL sep (c :: acc) cs

def splitFirst (s sep : String) : Option (String × String) :=
  (splitFirstL sep.toList [] s.toList).map (fun (a, b) => (String.mk a, String.mk b))

def hasPrefix (s p : String) : Bool := p.toList.isPrefixOf s.toList

def containsSub (s sub : String) : Bool :=
  let rec go : List Char → Bool
    | [] => sub.toList.isEmpty
    | c :: cs => sub.toList.isPrefixOf (c :: cs) || go cs
  go s.toList

/-- `strings.ReplaceAll` for a single-character pattern -/
def replaceChar (s : String) (a b : Char) : String := String.mk (s.toList.map (fun c => if c = a then b else c))

def hexDigit (n : Nat) : Char := if n < 10 then Char.ofNat (48 + n) else Char.ofNat (87 + n)

def u4 (n : Nat) : List Char :=
  ['\\', 'u', hexDigit (n / 4096 % 16), hexDigit (n / 256 % 16), hexDigit (n / 16 % 16), hexDigit (n % 16)]

/-- the text of a Go string inside a JSON string token as `encoding/json` writes it with HTML
    escaping on (the default of `json.NewEncoder`) -/
def jsonEscape (s : String) : String :=
  String.mk (s.toList.flatMap (fun c =>
    if c = '"' then ['\\', '"']
    else if c = '\\' then ['\\', '\\']
    else if c = '\n' then ['\\', 'n']
    else if c = '\r' then ['\\', 'r']
    else if c = '\t' then ['\\', 't']
    else if c.toNat = 8 then ['\\', 'b']
    else if c.toNat = 12 then ['\\', 'f']
    else if c.toNat < 0x20 ∨ c = '<' ∨ c = '>' ∨ c = '&' ∨ c.toNat = 0x2028 ∨ c.toNat = 0x2029 ∨ c.toNat = 0x7f then u4 c.toNat
    else [c]))

/-- `strings.Trim(s, "\"")` -/
def trimQuotes (s : String) : String :=
  String.mk ((s.toList.dropWhile (· = '"')).reverse.dropWhile (· = '"')).reverse

def pad9 (n : Nat) : String :=
  let d := toString n
  String.mk (List.replicate (9 - d.length) '0') ++ d

end Protobom.Str
