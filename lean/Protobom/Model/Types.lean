/-
  L1 value layer: immutable values for the protobom graph model.
  Core Lean only (this file is imported by the compiled driver).
-/
namespace Protobom

/-- `sbom.Person`; contacts nest arbitrarily deep, as in the proto schema. -/
inductive Person where
  | mk (name : String) (isOrg : Bool) (email url phone : String) (contacts : List Person)
deriving Repr, BEq, Inhabited

/-- `sbom.ExternalReference`. -/
structure ExtRef where
  url : String := ""
  typ : Int := 0
  comment : String := ""
  authority : String := ""
  hashes : List (Int × String) := []
deriving Repr, BEq, Inhabited, DecidableEq

/-- The kinds of attribute the `Node` message has (every field except `id` and `type`). -/
inductive Kind where
  | str | strs | enums | imap | date | persons | refs
deriving Repr, BEq, DecidableEq, Inhabited

/-- The value of one node attribute. Go `nil` and empty collections coincide at this layer
    (they are told apart only in the identity layer). -/
inductive Val where
  | str (s : String)
  | strs (l : List String)
  | enums (l : List Int)
  | imap (m : List (Int × String))      -- key-unique association list, Go `map[int32]string`
  | date (d : Option (Int × Int))        -- seconds, nanos
  | persons (l : List Person)
  | refs (l : List ExtRef)
deriving Repr, BEq, Inhabited

/-- Go's emptiness guards: `!= ""`, `len(x) > 0`, `!= nil`. -/
def Val.isEmpty : Val → Bool
  | .str s => s == ""
  | .strs l => l.isEmpty
  | .enums l => l.isEmpty
  | .imap m => m.isEmpty
  | .date d => d.isNone
  | .persons l => l.isEmpty
  | .refs l => l.isEmpty

def Kind.zero : Kind → Val
  | .str => .str ""
  | .strs => .strs []
  | .enums => .enums []
  | .imap => .imap []
  | .date => .date none
  | .persons => .persons []
  | .refs => .refs []

/-- `sbom.Node`: identifier, kind (0 = PACKAGE, 1 = FILE, any int32), and the attribute values in
    the order of `Gen.Schema.nodeAttrs`. -/
structure Node where
  id : String
  typ : Int := 0
  attrs : List Val := []
deriving Repr, BEq, Inhabited

/-- `sbom.Edge`. `ty` is the enum number (any int32). -/
structure Edge where
  ty : Int
  src : String
  tos : List String
deriving Repr, BEq, Inhabited, DecidableEq

/-- `sbom.NodeList`. -/
structure NodeList where
  nodes : List Node := []
  edges : List Edge := []
  roots : List String := []
deriving Repr, BEq, Inhabited

def NodeList.empty : NodeList := {}

def NodeList.ids (nl : NodeList) : List String := nl.nodes.map (·.id)

end Protobom
