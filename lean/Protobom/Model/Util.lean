/- Small list lemmas needed by model definitions themselves (termination proofs). Core only. -/
namespace Protobom

theorem filter_len_le {α} (p q : α → Bool) (l : List α) (h : ∀ a, q a = true → p a = true) :
    (l.filter q).length ≤ (l.filter p).length := by
  induction l with
  | nil => simp
  | cons a as ih =>
    simp only [List.filter_cons]
    cases hq : q a <;> cases hp : p a <;> simp <;> try omega
    · have := h a hq; simp [hp] at this

theorem filter_len_lt {α} (p q : α → Bool) (l : List α) (h : ∀ a, q a = true → p a = true)
    (x : α) (hx : x ∈ l) (hpx : p x = true) (hqx : q x = false) :
    (l.filter q).length < (l.filter p).length := by
  induction l with
  | nil => cases hx
  | cons a as ih =>
    simp only [List.filter_cons]
    cases hx with
    | head => simp [hpx, hqx]; have := filter_len_le p q as h; omega
    | tail _ hx' =>
      have := ih hx'
      cases hq : q a <;> cases hp : p a <;> simp <;> try omega
      · have := h a hq; simp [hp] at this

theorem unseen_lt (u seen : List String) (x : String) (hx : x ∈ u) (hs : x ∉ seen) :
    (u.filter (· ∉ x :: seen)).length < (u.filter (· ∉ seen)).length := by
  apply filter_len_lt _ _ u _ x hx
  · simp [hs]
  · simp
  · intro a; simp

theorem nodup_eraseDups {α} [BEq α] [LawfulBEq α] (l : List α) : l.eraseDups.Nodup := by
  match l with
  | [] => simp
  | a :: as =>
    rw [List.eraseDups_cons]
    have : (as.filter fun b => !b == a).length < as.length + 1 :=
      Nat.lt_succ_of_le (List.length_filter_le _ _)
    refine List.nodup_cons.mpr ⟨?_, nodup_eraseDups _⟩
    simp [List.mem_eraseDups]
termination_by l.length

end Protobom
