/- The writer's path (pkg/writer/writer.go: WriteStreamWithOptions → Serialize → Render) over
   Document values that keep their nil pointers and nil list elements. As in `Model/Parse.lean`,
   each place where a serializer reaches through a pointer that can be nil is a `Site` whose guard
   (a nil comparison or a nil-safe getter) is looked up in the regenerated `Gen.Guards.table`. -/
import Protobom.Model.Parse

namespace Protobom.Write
open Gen Parse

/-- nil pointers of a Document value (by type and field; `[]` = a nil element of a repeated
    field) that the SPDX 2.3 serializer reaches -/
def spdxSites : List (String × List Site) := [
  ("Document.Metadata", [⟨"serializers.SPDX23.Serialize", "bom.Metadata"⟩]),
  ("Document.NodeList", [⟨"serializers.SPDX23.Serialize", "bom.NodeList"⟩]),
  ("Metadata.Tools[]", [⟨"serializers.SPDX23.Serialize", "t"⟩]),
  ("NodeList.Nodes[]", [⟨"serializers.SPDX23.buildPackages", "node"⟩, ⟨"serializers.buildFiles", "node"⟩]),
  ("NodeList.Edges[]", [⟨"serializers.buildRelationships", "e"⟩]),
  ("Node.ExternalReferences[]", [⟨"serializers.SPDX23.buildPackages", "e"⟩]),
  ("Node.Suppliers[]", [⟨"serializers.SPDX23.buildPackages", "node.Suppliers[]"⟩]),
  ("Node.Originators[]", [⟨"serializers.SPDX23.buildPackages", "node.Originators[]"⟩]),
  ("Node.ReleaseDate", [⟨"serializers.SPDX23.buildPackages", "node.ReleaseDate"⟩]),
  ("Node.BuildDate", [⟨"serializers.SPDX23.buildPackages", "node.BuildDate"⟩]),
  ("Node.ValidUntilDate", [⟨"serializers.SPDX23.buildPackages", "node.ValidUntilDate"⟩]),
  ("RenderOptions", [⟨"serializers.SPDX23.Render", "o"⟩])]

/-- … and the CycloneDX serializer -/
def cdxSites : List (String × List Site) := [
  ("Document.Metadata", [⟨"serializers.CDX.Serialize", "bom.Metadata"⟩]),
  ("Document.NodeList", [⟨"serializers.CDX.Serialize", "bom.NodeList"⟩]),
  ("Metadata.DocumentTypes[]", [⟨"serializers.CDX.Serialize", "dt"⟩]),
  ("DocumentType.Type", [⟨"serializers.CDX.Serialize", "dt.Type"⟩]),
  ("DocumentType.Name", [⟨"serializers.CDX.Serialize", "dt.GetName()"⟩]),
  ("DocumentType.Description", [⟨"serializers.CDX.Serialize", "dt.GetDescription()"⟩]),
  ("Metadata.Authors[]", [⟨"serializers.CDX.Serialize", "bomauthor.GetName()"⟩,
                          ⟨"serializers.CDX.Serialize", "bomauthor.GetEmail()"⟩,
                          ⟨"serializers.CDX.Serialize", "bomauthor.GetPhone()"⟩]),
  ("Metadata.Tools[]", [⟨"serializers.CDX.Serialize", "bomtool.GetName()"⟩,
                        ⟨"serializers.CDX.Serialize", "bomtool.GetVersion()"⟩]),
  ("NodeList.Nodes[]", [⟨"serializers.CDX.componentsMaps", "n"⟩, ⟨"serializers.CDX.dependencies", "n"⟩]),
  ("NodeList.Edges[]", [⟨"serializers.CDX.dependencies", "e"⟩]),
  ("Node.ExternalReferences[]", [⟨"serializers.CDX.nodeToComponent", "er"⟩]),
  ("Node.Suppliers[]", [⟨"serializers.CDX.nodeToComponent", "nodesupplier.GetName()"⟩,
                        ⟨"serializers.CDX.nodeToComponent", "nodesupplier.GetContacts()"⟩]),
  ("Person.Contacts[]", [⟨"serializers.CDX.nodeToComponent", "nodecontact.GetName()"⟩,
                         ⟨"serializers.CDX.nodeToComponent", "nodecontact.GetEmail()"⟩,
                         ⟨"serializers.CDX.nodeToComponent", "nodecontact.GetPhone()"⟩]),
  ("root node", [⟨"serializers.CDX.Serialize", "rootNode"⟩])]

/-- the writer itself -/
def writerSites : List (String × List Site) := [
  ("Document", [⟨"writer.Writer.WriteStreamWithOptions", "bom"⟩]),
  ("Options", [⟨"writer.Writer.WriteStreamWithOptions", "o"⟩]),
  ("SerializeOptions", [⟨"writer.Writer.WriteStreamWithOptions", "so"⟩]),
  ("RenderOptions", [⟨"writer.Writer.WriteStreamWithOptions", "ro"⟩])]

inductive Output where
  | spdx (d : Spdx.Doc)
  | cdx (b : Cdx.Bom)

def serSPDXn (nils : List String) (d : Document) : Outcome Output :=
  match unguarded spdxSites nils with
  | some s => .panic (s.fn ++ ": " ++ s.guard)
  | none => (Spdx.serSPDX d).map .spdx

def serCDXn (v : Nat) (nils : List String) (d : Document) : Outcome Output :=
  match unguarded cdxSites nils with
  | some s => .panic (s.fn ++ ": " ++ s.guard)
  | none => (Cdx.serCDX d).map (fun b => .cdx (Cdx.codecCDX v b))

def minorOf (f : Sniff.Format) : Nat := (Sniff.minor f).toNat?.getD 0

/-- `WriteStreamWithOptions`: `d = none` is a nil document -/
def writeStream (f : Sniff.Format) (nils : List String) (d : Option Document) : Outcome Output :=
  match unguarded writerSites nils with
  | some s => .panic (s.fn ++ ": " ++ s.guard)
  | none =>
    match d with
    | none => .err
    | some d =>
      if !Formats.writerFormats.contains f then .err
      else if Sniff.typ f = "spdx" then serSPDXn nils d
      else serCDXn (minorOf f) nils d

/-- a history of serializations on the shared registry: the model keeps no state between them -/
def writeSeq (f : Sniff.Format) (hist : List (List String × Option Document)) : List (Outcome Output) :=
  hist.map (fun h => writeStream f h.1 h.2)

end Protobom.Write
