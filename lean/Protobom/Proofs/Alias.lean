/- L2: freshness of deep copies and of the table-driven `Copy` functions. -/
import Protobom.Model.Alias

namespace Protobom.L2

mutual
  theorem refresh_spec : ∀ (o : Obj) (s : Nat),
      (∀ t ∈ (o.refresh s).1.tags, s ≤ t ∧ t < (o.refresh s).2) ∧ s ≤ (o.refresh s).2 ∧
      (o.refresh s).1.erase = o.erase
    | .leaf v, s => by simp [Obj.refresh, Obj.tags, Obj.erase]
    | .box t ks, s => by
      have h := refreshL_spec ks (s + 1)
      simp only [Obj.refresh, Obj.tags, Obj.erase]
      refine ⟨?_, by omega, by rw [h.2.2]⟩
      intro x hx
      cases hx with
      | head => omega
      | tail _ hx' => have := h.1 x hx'; omega
  theorem refreshL_spec : ∀ (l : List Obj) (s : Nat),
      (∀ t ∈ tagsL (refreshL l s).1, s ≤ t ∧ t < (refreshL l s).2) ∧ s ≤ (refreshL l s).2 ∧
      eraseL (refreshL l s).1 = eraseL l
    | [], s => by simp [refreshL, tagsL, eraseL]
    | o :: os, s => by
      have h1 := refresh_spec o s
      have h2 := refreshL_spec os (o.refresh s).2
      simp only [refreshL, tagsL, eraseL]
      refine ⟨?_, by omega, by rw [h1.2.2, h2.2.2]⟩
      intro x hx
      rcases List.mem_append.mp hx with hx' | hx'
      · have := h1.1 x hx'; omega
      · have := h2.1 x hx'; omega
end

theorem tags_of_leaves (ks : List Obj) (h : ks.all Obj.isLeaf = true) : tagsL ks = [] := by
  induction ks with
  | nil => rfl
  | cons k ks ih =>
    simp only [List.all_cons, Bool.and_eq_true] at h
    cases k with
    | leaf v => simp [tagsL, Obj.tags, ih h.2]
    | box t l => simp [Obj.isLeaf] at h

/-- a field copied with a fresh form has only fresh tags and the same erasure -/
theorem copyField_spec (form : String) (o : Obj) (s : Nat) (hf : formFresh form o = true) :
    (∀ t ∈ (copyField form o s).1.tags, s ≤ t ∧ t < (copyField form o s).2) ∧
    s ≤ (copyField form o s).2 ∧ (copyField form o s).1.erase = o.erase := by
  cases o with
  | leaf v => simp [copyField, Obj.tags]
  | box t ks =>
    simp only [formFresh] at hf
    by_cases h1 : form = "clone" ∨ form = "newtime"
    · simp only [h1, if_true] at hf
      simp only [copyField, h1, if_true, Obj.tags, Obj.erase, tags_of_leaves ks hf]
      refine ⟨?_, by omega, trivial⟩
      intro x hx; simp at hx; omega
    · simp only [h1, if_false, decide_eq_true_eq] at hf
      have h := refreshL_spec ks (s + 1)
      subst hf
      have h2 : ¬ ("elemcopy" = "clone" ∨ "elemcopy" = "newtime") := by decide
      simp only [copyField, h2, if_false, if_true, Obj.tags, Obj.erase]
      refine ⟨?_, by omega, by rw [h.2.2]⟩
      intro x hx
      cases hx with
      | head => omega
      | tail _ hx' => have := h.1 x hx'; omega

theorem copyFields_spec (forms : List String) (os : List Obj) (s : Nat) (hf : formsFresh forms os = true) :
    (∀ t ∈ tagsL (copyFields forms os s).1, s ≤ t ∧ t < (copyFields forms os s).2) ∧
    s ≤ (copyFields forms os s).2 ∧ eraseL (copyFields forms os s).1 = eraseL os := by
  induction forms generalizing os s with
  | nil =>
    cases os with
    | nil => simp [copyFields, tagsL]
    | cons o os => simp [formsFresh] at hf
  | cons f fs ih =>
    cases os with
    | nil => simp [formsFresh] at hf
    | cons o os =>
      simp only [formsFresh, Bool.and_eq_true] at hf
      have h1 := copyField_spec f o s hf.1
      have h2 := ih os (copyField f o s).2 hf.2
      simp only [copyFields, tagsL, eraseL]
      refine ⟨?_, by omega, by rw [h1.2.2, h2.2.2]⟩
      intro x hx
      rcases List.mem_append.mp hx with hx' | hx'
      · have := h1.1 x hx'; omega
      · have := h2.1 x hx'; omega

/-- a message copied field by field with fresh forms: every tag reachable from the copy is fresh
    (allocated by the call), at every nesting level, and the copy has the same value -/
theorem copyMsg_spec (forms : List String) (t : Nat) (ks : List Obj) (s : Nat)
    (hf : formsFresh forms ks = true) :
    (∀ x ∈ (copyMsg forms (.box t ks) s).1.tags, s ≤ x) ∧
    (copyMsg forms (.box t ks) s).1.erase = (Obj.box t ks).erase := by
  have h := copyFields_spec forms ks (s + 1) hf
  simp only [copyMsg, Obj.tags, Obj.erase]
  refine ⟨?_, by rw [h.2.2]⟩
  intro x hx
  cases hx with
  | head => omega
  | tail _ hx' => have := h.1 x hx'; omega

/-- updating fields from another value introduces no tag that is in neither value -/
theorem updateFields_tags (takes : List Bool) (n m : List Obj) :
    ∀ t ∈ tagsL (updateFields takes n m), t ∈ tagsL n ∨ t ∈ tagsL m := by
  induction takes generalizing n m with
  | nil => intro t ht; exact Or.inl (by simpa [updateFields] using ht)
  | cons b bs ih =>
    cases n with
    | nil => intro t ht; simp [updateFields, tagsL] at ht
    | cons a as =>
      cases m with
      | nil => intro t ht; exact Or.inl (by simpa [updateFields] using ht)
      | cons c cs =>
        intro t ht
        simp only [updateFields, tagsL, List.mem_append] at ht ⊢
        rcases ht with h | h
        · cases b
          · exact Or.inl (Or.inl (by simpa using h))
          · exact Or.inr (Or.inl (by simpa using h))
        · rcases ih as cs t h with h' | h'
          · exact Or.inl (Or.inr h')
          · exact Or.inr (Or.inr h')

end Protobom.L2
