/- CycloneDX: table lemmas, the edge relation of `RelateNodeListAtID`, serializer completeness facts. -/
import Protobom.Model.Cdx
import Protobom.Proofs.Union

namespace Protobom.Cdx
open Protobom Gen

/-! ### tables (regenerated; checked by evaluation) -/

/-- the twelve CycloneDX hash algorithms survive writer and reader tables exactly -/
def cdxHashes : List Int := (Schema.hashAlgorithms.map (·.2)).filter (fun a => (hashOut a).isSome)

theorem cdx_hash_count : cdxHashes.length = 12 := by decide

theorem cdx_hash_roundtrip :
    ∀ a ∈ cdxHashes, (hashOut a).map hashFromCDX = some a ∧ (hashOut a).map hashIn = some a ∧ a ≠ 0 := by decide

/-- component types: one purpose per CycloneDX component type comes back as itself -/
def nativePurposes15 : List Int := [1, 5, 6, 7, 8, 13, 14, 16, 17, 21, 24]
def nativePurposes14 : List Int := [1, 5, 7, 13, 14, 16, 21]

theorem purposes_roundtrip_15 :
    ∀ p ∈ nativePurposes15, (purposeOut p).map (fun t => purposeIn (if supportsType 5 t then t else "application")) = some p := by
  decide

theorem purposes_roundtrip_14 :
    ∀ p ∈ nativePurposes14, (purposeOut p).map (fun t => purposeIn (if supportsType 4 t then t else "application")) = some p := by
  decide

/-- at 1.4 the four component types introduced by 1.5 are rewritten to `application` by cyclonedx-go -/
theorem types_rewritten_at_14 :
    ∀ t ∈ ["data", "device-driver", "machine-learning-model", "platform"], supportsType 4 t = false := by decide

/-- FILE nodes: written as component type `file`, read back as FILE -/
theorem file_type_roundtrip : purposeIn "file" = 12 ∧ supportsType 4 "file" = true ∧ supportsType 5 "file" = true := by
  decide

/-- reference types whose CycloneDX name exists in the vocabulary of every version ≥ 1.1 -/
def refTypesAll : List Int := [3, 5, 6, 8, 13, 14, 21, 22, 24, 31, 39, 44, 45, 52, 55, 56, 60]
/-- … and those introduced by 1.5 -/
def refTypes15only : List Int := [1, 7, 9, 10, 11, 12, 15, 17, 19, 23, 25, 28, 37, 40, 41, 43, 48, 51, 54, 57, 59]

theorem reftypes_roundtrip_all (v : Nat) :
    ∀ t ∈ refTypesAll, refTypeIn (convRef v { typ := refTypeOut t }).typ = t := by
  intro t ht
  have h1 : refTypeOut t ∉ refTypes15 := by revert t; decide
  have h2 : refTypeIn (refTypeOut t) = t := by revert t; decide
  simp [convRef, h1, h2]

theorem reftypes_roundtrip_15 :
    ∀ t ∈ refTypes15only, refTypeIn (convRef 5 { typ := refTypeOut t }).typ = t := by decide

/-- lifecycle phases of the seven mapped document types -/
theorem phases_roundtrip :
    ∀ t ∈ [1, 2, 3, 4, 5, 7, 8], (Tables.cdxPhaseOut.lookup t).bind phaseIn = some t := by decide

/-! ### `RelateNodeListAtID`: identifiers and edge relation -/

theorem relateEdges_rel (keys0 : List Key) (acc es : List Edge)
    (hk : ∀ k ∈ keys0, ∃ e ∈ acc, e.key = k) (s : String) (t : Int) (d : String) :
    HasEdgeL (es.foldl (relateEdgeStep keys0) acc) s t d ↔ HasEdgeL acc s t d ∨ HasEdgeL es s t d := by
  induction es generalizing acc with
  | nil => simp [HasEdgeL]
  | cons e es ih =>
    simp only [List.foldl_cons]
    have hstep : HasEdgeL (relateEdgeStep keys0 acc e) s t d ↔ HasEdgeL acc s t d ∨ HasEdgeL [e] s t d := by
      unfold relateEdgeStep
      split
      · rename_i hin
        rw [hasEdge_modifyFirst e.key (fun ts => addNew ts e.tos) e.tos (fun ts d => mem_addNew ts e.tos d) acc
          (hk e.key hin), hasEdgeL_single]
      · exact hasEdgeL_append acc [e] s t d
    have hk' : ∀ k ∈ keys0, ∃ x ∈ relateEdgeStep keys0 acc e, x.key = k := by
      intro k hkin
      obtain ⟨x, hx, hxk⟩ := hk k hkin
      unfold relateEdgeStep
      split
      · have : (modifyFirst (fun y => decide (y.key = e.key)) (fun y => { y with tos := addNew y.tos e.tos }) acc).map Edge.key
            = acc.map Edge.key := keys_modifyFirst _ _ acc
        have hm : k ∈ (modifyFirst (fun y => decide (y.key = e.key)) (fun y => { y with tos := addNew y.tos e.tos }) acc).map Edge.key := by
          rw [this]; exact List.mem_map.mpr ⟨x, hx, hxk⟩
        obtain ⟨y, hy, hyk⟩ := List.mem_map.mp hm
        exact ⟨y, hy, hyk⟩
      · exact ⟨x, List.mem_append.mpr (Or.inl hx), hxk⟩
    rw [ih _ hk', hstep, hasEdgeL_cons e es, or_assoc]

/-- grafting a node list below `anchor`: the result has the edges of both lists plus one edge from
    the anchor to every root of the grafted list — whatever the shape of the two lists -/
theorem relate_edges (a b : NodeList) (anchor : String) (ty : Int) (r : NodeList)
    (h : a.relateNodeListAtID b anchor ty = some r) (s : String) (t : Int) (d : String) :
    r.HasEdge s t d ↔ a.HasEdge s t d ∨ ((s, t) = (anchor, ty) ∧ d ∈ b.roots) ∨ b.HasEdge s t d := by
  unfold NodeList.relateNodeListAtID at h
  split at h
  · simp only [Option.some.injEq] at h
    subst h
    simp only [NodeList.HasEdge]
    -- the anchor edge
    have h1 : ∀ s t d, HasEdgeL (if (anchor, ty) ∈ a.edges.map Edge.key then
          modifyFirst (fun e => decide (e.key = (anchor, ty))) (fun e => { e with tos := addNew e.tos b.roots }) a.edges
        else a.edges ++ [{ ty := ty, src := anchor, tos := b.roots }]) s t d ↔
        HasEdgeL a.edges s t d ∨ ((s, t) = (anchor, ty) ∧ d ∈ b.roots) := by
      intro s t d
      split
      · rename_i hin
        obtain ⟨e, he, hek⟩ := List.mem_map.mp hin
        exact hasEdge_modifyFirst (anchor, ty) (fun ts => addNew ts b.roots) b.roots
          (fun ts d => mem_addNew ts b.roots d) a.edges ⟨e, he, hek⟩ s t d
      · rw [hasEdgeL_append, hasEdgeL_single]; rfl
    have hk : ∀ k ∈ a.edges.map Edge.key, ∃ e ∈ (if (anchor, ty) ∈ a.edges.map Edge.key then
          modifyFirst (fun e => decide (e.key = (anchor, ty))) (fun e => { e with tos := addNew e.tos b.roots }) a.edges
        else a.edges ++ [{ ty := ty, src := anchor, tos := b.roots }]), e.key = k := by
      intro k hkin
      split
      · have := keys_modifyFirst (fun e => decide (e.key = (anchor, ty))) (fun e => addNew e.tos b.roots) a.edges
        rw [← this] at hkin
        obtain ⟨y, hy, hyk⟩ := List.mem_map.mp hkin
        exact ⟨y, hy, hyk⟩
      · obtain ⟨y, hy, hyk⟩ := List.mem_map.mp hkin
        exact ⟨y, List.mem_append.mpr (Or.inl hy), hyk⟩
    rw [relateEdges_rel _ _ _ hk, h1, or_assoc]
  · cases h

theorem relate_ids (a b : NodeList) (anchor : String) (ty : Int) (r : NodeList)
    (h : a.relateNodeListAtID b anchor ty = some r) (x : String) : x ∈ r.ids ↔ x ∈ a.ids ∨ x ∈ b.ids := by
  unfold NodeList.relateNodeListAtID at h
  split at h
  · simp only [Option.some.injEq] at h
    subst h
    have : ({ a with nodes := a.nodes ++ b.nodes.filter (·.id ∉ a.ids) } : NodeList).ids =
        a.nodes.map (·.id) ++ (b.nodes.filter (·.id ∉ a.nodes.map (·.id))).map (·.id) := by
      simp [NodeList.ids]
    show x ∈ ({ a with nodes := a.nodes ++ b.nodes.filter (·.id ∉ a.ids) } : NodeList).ids ↔ _
    rw [this]
    exact mem_merged_ids a.nodes b.nodes x
  · cases h

theorem relate_roots (a b : NodeList) (anchor : String) (ty : Int) (r : NodeList)
    (h : a.relateNodeListAtID b anchor ty = some r) : r.roots = a.roots := by
  unfold NodeList.relateNodeListAtID at h
  split at h
  · simp only [Option.some.injEq] at h; subst h; rfl
  · cases h

theorem relate_defined (a b : NodeList) (anchor : String) (ty : Int) (h : anchor ∈ a.ids) :
    ∃ r, a.relateNodeListAtID b anchor ty = some r := by
  unfold NodeList.relateNodeListAtID
  simp [h]

end Protobom.Cdx

namespace Protobom.Cdx
open Protobom Gen

/-! ### the parser on a component tree with pairwise distinct, non-empty references -/

mutual
  /-- references of a component subtree in preorder -/
  def Component.refs : Component → List String
    | .mk r _ _ _ _ _ _ _ _ _ _ _ ks => r :: refsL ks
  def refsL : List Component → List String
    | [] => []
    | c :: cs => c.refs ++ refsL cs
end

mutual
  /-- `d` is a direct sub-component of the component with reference `s`, somewhere in the tree -/
  def ChildIn : Component → String → String → Prop
    | .mk r _ _ _ _ _ _ _ _ _ _ _ ks, s, d => (s = r ∧ d ∈ ks.map Component.bomRef) ∨ ChildInL ks s d
  def ChildInL : List Component → String → String → Prop
    | [], _, _ => False
    | c :: cs, s, d => ChildIn c s d ∨ ChildInL cs s d
end

theorem relate_ids_list (a b : NodeList) (anchor : String) (ty : Int) (r : NodeList)
    (h : a.relateNodeListAtID b anchor ty = some r) (hd : ∀ x ∈ b.ids, x ∉ a.ids) :
    r.ids = a.ids ++ b.ids := by
  unfold NodeList.relateNodeListAtID at h
  split at h
  · simp only [Option.some.injEq] at h
    subst h
    have hf : b.nodes.filter (fun n => decide (n.id ∉ a.ids)) = b.nodes := by
      apply List.filter_eq_self.mpr
      intro n hn
      simpa using hd n.id (List.mem_map.mpr ⟨n, hn, rfl⟩)
    show (a.nodes ++ b.nodes.filter (fun n => decide (n.id ∉ a.ids))).map (·.id) = a.ids ++ b.ids
    rw [hf, List.map_append]; rfl
  · cases h

theorem componentToNode_id (c : Component) (cc : Nat) (h : c.bomRef ≠ "") :
    (componentToNode c cc).id = c.bomRef := by
  cases c
  simp only [componentToNode, Component.bomRef] at *
  simp [h]

/-- what the parser produces for one component subtree / for the children of a component -/
def TreeSpec (c : Component) (nl : NodeList) : Prop :=
  nl.ids = c.refs ∧ nl.roots = [c.bomRef] ∧
  ∀ s t d, nl.HasEdge s t d ↔ t = 5 ∧ ChildIn c s d

def ForestSpec (ks : List Component) (acc : NodeList) (anchor : String) (nl : NodeList) : Prop :=
  nl.ids = acc.ids ++ refsL ks ∧ nl.roots = acc.roots ∧
  ∀ s t d, nl.HasEdge s t d ↔
    acc.HasEdge s t d ∨ (s = anchor ∧ t = 5 ∧ d ∈ ks.map Component.bomRef) ∨ (t = 5 ∧ ChildInL ks s d)

mutual
  theorem compToNL_spec : ∀ (c : Component) (cc : Nat), (∀ x ∈ c.refs, x ≠ "") → c.refs.Nodup →
      TreeSpec c (compToNL c cc).1
    | .mk r t n v d cp purl cpe lic hashes refs s ks, cc, hne, hnd => by
      have hr : r ≠ "" := hne r (by simp [Component.refs])
      have hid : (componentToNode (.mk r t n v d cp purl cpe lic hashes refs s ks) (cc + 1)).id = r :=
        componentToNode_id _ _ (by simpa [Component.bomRef] using hr)
      simp only [compToNL]
      have hnd' : (r :: refsL ks).Nodup := by simpa [Component.refs] using hnd
      have h := compsToNL_spec ks (cc + 1)
        { nodes := [componentToNode (.mk r t n v d cp purl cpe lic hashes refs s ks) (cc + 1)], edges := [],
          roots := [(componentToNode (.mk r t n v d cp purl cpe lic hashes refs s ks) (cc + 1)).id] }
        (componentToNode (.mk r t n v d cp purl cpe lic hashes refs s ks) (cc + 1)).id
        (by simp [NodeList.ids])
        (fun x hx => hne x (by simp [Component.refs, hx]))
        (by simpa [NodeList.ids, hid] using hnd')
      obtain ⟨h1, h2, h3⟩ := h
      refine ⟨?_, ?_, ?_⟩
      · rw [h1]; simp [NodeList.ids, hid, Component.refs]
      · rw [h2, hid]; rfl
      · intro s' t' d'
        rw [h3 s' t' d', hid]
        simp only [NodeList.HasEdge, HasEdgeL, List.not_mem_nil, false_and, exists_false, false_or, ChildIn]
        constructor
        · rintro (⟨h4, h5, h6⟩ | ⟨h5, h6⟩)
          · exact ⟨h5, Or.inl ⟨h4, h6⟩⟩
          · exact ⟨h5, Or.inr h6⟩
        · rintro ⟨h5, (⟨h4, h6⟩ | h6)⟩
          · exact Or.inl ⟨h4, h5, h6⟩
          · exact Or.inr ⟨h5, h6⟩
  theorem compsToNL_spec : ∀ (ks : List Component) (cc : Nat) (acc : NodeList) (anchor : String),
      anchor ∈ acc.ids → (∀ x ∈ refsL ks, x ≠ "") → (acc.ids ++ refsL ks).Nodup →
      ForestSpec ks acc anchor (compsToNL ks cc acc anchor).1
    | [], cc, acc, anchor, _, _, _ => by
      simp only [compsToNL, ForestSpec, refsL, List.append_nil, List.map_nil, List.not_mem_nil, and_false,
        ChildInL, or_false, true_and]
      intro s t d; trivial
    | k :: ks, cc, acc, anchor, hanc, hne, hnd => by
      simp only [compsToNL]
      have hk_ne : ∀ x ∈ k.refs, x ≠ "" := fun x hx => hne x (by simp [refsL, hx])
      have hnd1 : (acc.ids ++ (k.refs ++ refsL ks)).Nodup := by simpa [refsL] using hnd
      have hk_nd : k.refs.Nodup := by
        have := (List.nodup_append.mp hnd1).2.1
        exact (List.nodup_append.mp this).1
      obtain ⟨t1, t2, t3⟩ := compToNL_spec k cc hk_ne hk_nd
      obtain ⟨r', hr'⟩ := relate_defined acc (compToNL k cc).1 anchor 5 hanc
      have hdisj : ∀ x ∈ (compToNL k cc).1.ids, x ∉ acc.ids := by
        intro x hx hxa
        rw [t1] at hx
        exact (List.nodup_append.mp hnd1).2.2 x hxa x (List.mem_append.mpr (Or.inl hx)) rfl
      have hids := relate_ids_list acc _ anchor 5 r' hr' hdisj
      have hroots := relate_roots acc _ anchor 5 r' hr'
      simp only [hr', Option.getD_some]
      have hanc' : anchor ∈ r'.ids := by rw [hids]; exact List.mem_append.mpr (Or.inl hanc)
      have hnd2 : (r'.ids ++ refsL ks).Nodup := by
        rw [hids, t1, List.append_assoc]; exact hnd1
      obtain ⟨f1, f2, f3⟩ := compsToNL_spec ks (compToNL k cc).2 r' anchor hanc'
        (fun x hx => hne x (by simp [refsL, hx])) hnd2
      refine ⟨?_, ?_, ?_⟩
      · rw [f1, hids, t1, List.append_assoc]; rfl
      · rw [f2, hroots]
      · intro s t d
        rw [f3 s t d, relate_edges acc _ anchor 5 r' hr' s t d, t3 s t d, t2]
        simp only [List.map_cons, List.mem_cons, List.mem_singleton, List.not_mem_nil, or_false, ChildInL, Prod.mk.injEq]
        constructor
        · rintro ((h1 | ⟨⟨h2, h3⟩, h4⟩ | ⟨h5, h6⟩) | ⟨h7, h8, h9⟩ | ⟨h10, h11⟩)
          · exact Or.inl h1
          · exact Or.inr (Or.inl ⟨h2, h3, Or.inl h4⟩)
          · exact Or.inr (Or.inr ⟨h5, Or.inl h6⟩)
          · exact Or.inr (Or.inl ⟨h7, h8, Or.inr h9⟩)
          · exact Or.inr (Or.inr ⟨h10, Or.inr h11⟩)
        · rintro (h1 | ⟨h2, h3, (h4 | h9)⟩ | ⟨h5, (h6 | h11)⟩)
          · exact Or.inl (Or.inl h1)
          · exact Or.inl (Or.inr (Or.inl ⟨⟨h2, h3⟩, h4⟩))
          · exact Or.inr (Or.inl ⟨h2, h3, h9⟩)
          · exact Or.inl (Or.inr (Or.inr ⟨h5, h6⟩))
          · exact Or.inr (Or.inr ⟨h5, h11⟩)
end

end Protobom.Cdx

namespace Protobom.Cdx
open Protobom Gen

mutual
  theorem childIn_refs : ∀ (c : Component) (s d : String), ChildIn c s d → s ∈ c.refs ∧ d ∈ c.refs
    | .mk r t n v dd cp purl cpe lic hashes refs sup ks, s, d, h => by
      simp only [ChildIn] at h
      simp only [Component.refs, List.mem_cons]
      rcases h with ⟨h1, h2⟩ | h
      · refine ⟨Or.inl h1, Or.inr (bomRef_mem_refsL ks d h2)⟩
      · have := childInL_refs ks s d h
        exact ⟨Or.inr this.1, Or.inr this.2⟩
  theorem childInL_refs : ∀ (ks : List Component) (s d : String), ChildInL ks s d → s ∈ refsL ks ∧ d ∈ refsL ks
    | [], _, _, h => by cases h
    | k :: ks, s, d, h => by
      simp only [ChildInL] at h
      simp only [refsL, List.mem_append]
      rcases h with h | h
      · have := childIn_refs k s d h; exact ⟨Or.inl this.1, Or.inl this.2⟩
      · have := childInL_refs ks s d h; exact ⟨Or.inr this.1, Or.inr this.2⟩
  theorem bomRef_mem_refsL : ∀ (ks : List Component) (d : String), d ∈ ks.map Component.bomRef → d ∈ refsL ks
    | [], _, h => by cases h
    | k :: ks, d, h => by
      simp only [List.map_cons, List.mem_cons] at h
      simp only [refsL, List.mem_append]
      rcases h with h | h
      · left
        cases k
        simp only [Component.bomRef] at h
        simp [Component.refs, h]
      · exact Or.inr (bomRef_mem_refsL ks d h)
end

/-- the fold of `Unserialize` over the top-level components, once the root exists -/
def topFold (tops : List Component) (st : NodeList × Nat) : NodeList × Nat :=
  tops.foldl (fun (st : NodeList × Nat) c =>
      let r := compToNL c st.2
      match st.1.roots with
      | [] => (st.1.add r.1, r.2)
      | root :: _ => ((st.1.relateNodeListAtID r.1 root 5).getD st.1, r.2)) st

theorem topFold_spec (tops : List Component) (acc : NodeList) (cc : Nat) (root : String)
    (hroots : acc.roots = [root]) (hanc : root ∈ acc.ids) (hne : ∀ x ∈ refsL tops, x ≠ "")
    (hnd : (acc.ids ++ refsL tops).Nodup) :
    ForestSpec tops acc root (topFold tops (acc, cc)).1 := by
  induction tops generalizing acc cc with
  | nil =>
    simp only [topFold, List.foldl_nil, ForestSpec, refsL, List.append_nil, List.map_nil, List.not_mem_nil,
      and_false, ChildInL, or_false, true_and]
    intro s t d; trivial
  | cons k ks ih =>
    simp only [topFold, List.foldl_cons, hroots]
    have hk_ne : ∀ x ∈ k.refs, x ≠ "" := fun x hx => hne x (by simp [refsL, hx])
    have hnd1 : (acc.ids ++ (k.refs ++ refsL ks)).Nodup := by simpa [refsL] using hnd
    have hk_nd : k.refs.Nodup := (List.nodup_append.mp (List.nodup_append.mp hnd1).2.1).1
    obtain ⟨t1, t2, t3⟩ := compToNL_spec k cc hk_ne hk_nd
    obtain ⟨r', hr'⟩ := relate_defined acc (compToNL k cc).1 root 5 hanc
    have hdisj : ∀ x ∈ (compToNL k cc).1.ids, x ∉ acc.ids := by
      intro x hx hxa
      rw [t1] at hx
      exact (List.nodup_append.mp hnd1).2.2 x hxa x (List.mem_append.mpr (Or.inl hx)) rfl
    have hids := relate_ids_list acc _ root 5 r' hr' hdisj
    have hr'roots := relate_roots acc _ root 5 r' hr'
    simp only [hr', Option.getD_some]
    have hnd2 : (r'.ids ++ refsL ks).Nodup := by rw [hids, t1, List.append_assoc]; exact hnd1
    have := ih r' (compToNL k cc).2 (hr'roots.trans hroots)
      (by rw [hids]; exact List.mem_append.mpr (Or.inl hanc)) (fun x hx => hne x (by simp [refsL, hx])) hnd2
    obtain ⟨f1, f2, f3⟩ := this
    refine ⟨?_, ?_, ?_⟩
    · show (topFold ks (r', (compToNL k cc).2)).1.ids = _
      rw [f1, hids, t1, List.append_assoc]; rfl
    · show (topFold ks (r', (compToNL k cc).2)).1.roots = _
      rw [f2, hr'roots]
    · intro s t d
      show (topFold ks (r', (compToNL k cc).2)).1.HasEdge s t d ↔ _
      rw [f3 s t d, relate_edges acc _ root 5 r' hr' s t d, t3 s t d, t2]
      simp only [List.map_cons, List.mem_cons, List.mem_singleton, List.not_mem_nil, or_false, ChildInL, Prod.mk.injEq]
      constructor
      · rintro ((h1 | ⟨⟨h2, h3⟩, h4⟩ | ⟨h5, h6⟩) | ⟨h7, h8, h9⟩ | ⟨h10, h11⟩)
        · exact Or.inl h1
        · exact Or.inr (Or.inl ⟨h2, h3, Or.inl h4⟩)
        · exact Or.inr (Or.inr ⟨h5, Or.inl h6⟩)
        · exact Or.inr (Or.inl ⟨h7, h8, Or.inr h9⟩)
        · exact Or.inr (Or.inr ⟨h10, Or.inr h11⟩)
      · rintro (h1 | ⟨h2, h3, (h4 | h9)⟩ | ⟨h5, (h6 | h11)⟩)
        · exact Or.inl (Or.inl h1)
        · exact Or.inl (Or.inr (Or.inl ⟨⟨h2, h3⟩, h4⟩))
        · exact Or.inr (Or.inl ⟨h2, h3, h9⟩)
        · exact Or.inl (Or.inr (Or.inr ⟨h5, h6⟩))
        · exact Or.inr (Or.inr ⟨h5, h11⟩)

/-- **the parser returns the component tree it was given**: for a BOM whose metadata component and
    top-level components carry pairwise distinct, non-empty references, the parsed node list has
    exactly those identifiers (in preorder), the metadata component as sole root, and exactly the
    containment edges of the tree in which the top-level components are children of the root —
    at any nesting depth and fan-out -/
theorem unserCDX_tree (b : Bom) (rootC : Component) (hm : b.metaComponent = some rootC)
    (hne : ∀ x ∈ rootC.refs ++ refsL b.components, x ≠ "")
    (hnd : (rootC.refs ++ refsL b.components).Nodup) :
    ∃ nl, (unserCDX b).nodeList = some nl ∧ nl.ids = rootC.refs ++ refsL b.components ∧
      nl.roots = [rootC.bomRef] ∧
      ∀ s t d, nl.HasEdge s t d ↔ t = 5 ∧
        (ChildIn rootC s d ∨ (s = rootC.bomRef ∧ d ∈ b.components.map Component.bomRef) ∨ ChildInL b.components s d) := by
  have hrne : ∀ x ∈ rootC.refs, x ≠ "" := fun x hx => hne x (List.mem_append.mpr (Or.inl hx))
  have hrnd : rootC.refs.Nodup := (List.nodup_append.mp hnd).1
  obtain ⟨t1, t2, t3⟩ := compToNL_spec rootC 0 hrne hrnd
  -- adding the root sub-list to the empty list
  let a0 : NodeList := ({} : NodeList).add (compToNL rootC 0).1
  have ha_ids : a0.ids = rootC.refs := by
    show (({} : NodeList).add (compToNL rootC 0).1).ids = _
    rw [add_ids_eq]
    simp [NodeList.ids] at t1 ⊢
    rw [List.filter_eq_self.mpr (fun _ _ => rfl)]
    exact t1
  have ha_roots : a0.roots = [rootC.bomRef] := by
    show (({} : NodeList).add (compToNL rootC 0).1).roots = _
    simp [NodeList.add, NodeList.cleanEdges, t2]
  have ha_edges : ∀ s t d, a0.HasEdge s t d ↔ t = 5 ∧ ChildIn rootC s d := by
    intro s t d
    show (({} : NodeList).add (compToNL rootC 0).1).HasEdge s t d ↔ _
    rw [add_edges, add_ids, add_ids, t3 s t d]
    simp only [NodeList.HasEdge, HasEdgeL, NodeList.ids, List.map_nil, List.not_mem_nil, false_and,
      exists_false, false_or]
    constructor
    · rintro ⟨h, _, _⟩; exact h
    · intro h
      have := childIn_refs rootC s d h.2
      refine ⟨h, ?_, ?_⟩
      · have e : (compToNL rootC 0).1.ids = rootC.refs := t1
        simp only [NodeList.ids] at e; rw [e]; exact this.1
      · have e : (compToNL rootC 0).1.ids = rootC.refs := t1
        simp only [NodeList.ids] at e; rw [e]; exact this.2
  have hroot_in : rootC.bomRef ∈ a0.ids := by
    rw [ha_ids]; cases rootC; simp [Component.refs, Component.bomRef]
  have hspec := topFold_spec b.components a0 (compToNL rootC 0).2 rootC.bomRef ha_roots hroot_in
    (fun x hx => hne x (List.mem_append.mpr (Or.inr hx))) (by rw [ha_ids]; exact hnd)
  refine ⟨(topFold b.components (a0, (compToNL rootC 0).2)).1, ?_, ?_, ?_, ?_⟩
  · simp only [unserCDX, hm]; rfl
  · rw [hspec.1, ha_ids]
  · rw [hspec.2.1, ha_roots]
  · intro s t d
    rw [hspec.2.2 s t d, ha_edges s t d]
    constructor
    · rintro (⟨h1, h2⟩ | ⟨h1, h2, h3⟩ | ⟨h1, h2⟩)
      · exact ⟨h1, Or.inl h2⟩
      · exact ⟨h2, Or.inr (Or.inl ⟨h1, h3⟩)⟩
      · exact ⟨h1, Or.inr (Or.inr h2)⟩
    · rintro ⟨h1, (h2 | ⟨h2, h3⟩ | h2)⟩
      · exact Or.inl ⟨h1, h2⟩
      · exact Or.inr (Or.inl ⟨h2, h1, h3⟩)
      · exact Or.inr (Or.inr ⟨h1, h2⟩)

end Protobom.Cdx
