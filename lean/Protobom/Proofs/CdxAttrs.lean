/- Per-node attributes across the CycloneDX round trip: what `componentToNode` reads back from the
   version-converted component `nodeToComponent` writes for a node. -/
import Protobom.Proofs.Cdx
import Protobom.Proofs.Spdx
import Protobom.Proofs.Flat
import Protobom.Proofs.SortedByKey

namespace Protobom.Cdx
open Protobom Gen

/-- a node written as a component, converted for spec version 1.`v`, and read back -/
def rtNode (v : Nat) (n : Node) : Node := componentToNode (convComp v (nodeToComponent n)) 0

theorem rtNode_attr (v : Nat) (n : Node) (f : String) (k : Kind) (h : (f, k) ∈ Schema.nodeAttrs) :
    (rtNode v n).attr f = some (compAttr (convComp v (nodeToComponent n)) f k) := by
  unfold rtNode
  cases hc : convComp v (nodeToComponent n) with
  | mk r t nm ver d cp purl cpe lic hashes refs s ks =>
    simp only [componentToNode]
    exact Spdx.attr_of_schema_map _ _ _ f k h Spdx.schema_keys_nodup

theorem rtNode_id (v : Nat) (n : Node) (h : n.id ≠ "") : (rtNode v n).id = n.id := by
  simp [rtNode, nodeToComponent, convComp, componentToNode, h]

/-! ### hash maps -/

/-- the parser's hash loop on what the serializer writes for a key-unique list of CycloneDX
    algorithms: every entry comes back, in order -/
theorem compHashes_filterMap (L acc : List (Int × String))
    (hk : ∀ kv ∈ L, kv.1 ∈ cdxHashes) (hnd : (L.map (·.1)).Nodup) (hdis : ∀ kv ∈ L, ∀ a ∈ acc, a.1 ≠ kv.1) :
    (L.filterMap (fun kv => (hashOut kv.1).map (fun a => ({ algo := a, value := kv.2 } : Hash)))).foldl (fun m h =>
      let a := hashFromCDX h.algo
      if a = 0 then m else if m.any (·.1 = a) then m else m ++ [(a, h.value)]) acc = acc ++ L := by
  induction L generalizing acc with
  | nil => simp
  | cons kv rest ih =>
    obtain ⟨k, val⟩ := kv
    have hk1 := cdx_hash_roundtrip k (hk (k, val) List.mem_cons_self)
    cases ho : hashOut k with
    | none => rw [ho] at hk1; simp at hk1
    | some name =>
      rw [ho] at hk1
      simp only [Option.map_some, Option.some.injEq] at hk1
      have hnd' : k ∉ rest.map (·.1) ∧ (rest.map (·.1)).Nodup :=
        List.nodup_cons.mp (by rw [List.map_cons] at hnd; exact hnd)
      have hnot : acc.any (fun x => decide (x.1 = k)) = false := by
        rw [List.any_eq_false]
        intro a ha
        simpa using hdis (k, val) List.mem_cons_self a ha
      simp only [List.filterMap_cons, ho, Option.map_some, List.foldl_cons, hk1.1, hk1.2.2, if_false, hnot,
        Bool.false_eq_true]
      rw [ih (acc ++ [(k, val)]) (fun kv h => hk kv (List.mem_cons_of_mem _ h)) hnd'.2]
      · simp
      · intro kv hkv a ha
        rcases List.mem_append.mp ha with h | h
        · exact hdis kv (List.mem_cons_of_mem _ hkv) a h
        · simp only [List.mem_singleton] at h
          rw [h]
          intro e
          exact hnd'.1 (List.mem_map.mpr ⟨kv, hkv, e.symm⟩)

theorem compHashes_hashesOut (m : List (Int × String)) (hk : ∀ kv ∈ m, kv.1 ∈ cdxHashes) (hnd : (m.map (·.1)).Nodup) :
    compHashes (hashesOut m) = sortedByKey m := by
  unfold compHashes hashesOut
  have := compHashes_filterMap (sortedByKey m) []
    (by
      intro kv hkv
      have : kv.1 ∈ m.map (·.1) := (sortedByKey_keys_mem m kv.1).mp (List.mem_map.mpr ⟨kv, hkv, rfl⟩)
      obtain ⟨kv', h', e⟩ := List.mem_map.mp this
      rw [← e]; exact hk kv' h')
    (sortedByKey_keys_nodup m hnd) (by intro _ _ a ha; cases ha)
  simpa using this

/-- the same for the hashes of an external reference (stored with `mapStore`) -/
theorem refHashes_filterMap (L acc : List (Int × String))
    (hk : ∀ kv ∈ L, kv.1 ∈ cdxHashes) (hnd : (L.map (·.1)).Nodup) (hdis : ∀ kv ∈ L, ∀ a ∈ acc, a.1 ≠ kv.1) :
    (L.filterMap (fun kv => (hashOut kv.1).map (fun a => ({ algo := a, value := kv.2 } : Hash)))).foldl
      (fun m h => Spdx.mapStore m (hashIn h.algo) h.value) acc = acc ++ L := by
  induction L generalizing acc with
  | nil => simp
  | cons kv rest ih =>
    obtain ⟨k, val⟩ := kv
    have hk1 := cdx_hash_roundtrip k (hk (k, val) List.mem_cons_self)
    cases ho : hashOut k with
    | none => rw [ho] at hk1; simp at hk1
    | some name =>
      rw [ho] at hk1
      simp only [Option.map_some, Option.some.injEq] at hk1
      have hnd' : k ∉ rest.map (·.1) ∧ (rest.map (·.1)).Nodup :=
        List.nodup_cons.mp (by rw [List.map_cons] at hnd; exact hnd)
      have hnot : acc.any (fun x => decide (x.1 = k)) = false := by
        rw [List.any_eq_false]
        intro a ha
        simpa using hdis (k, val) List.mem_cons_self a ha
      have hst : Spdx.mapStore acc k val = acc ++ [(k, val)] := by simp [Spdx.mapStore, hnot]
      simp only [List.filterMap_cons, ho, Option.map_some, List.foldl_cons, hk1.2.1, hst]
      rw [ih (acc ++ [(k, val)]) (fun kv h => hk kv (List.mem_cons_of_mem _ h)) hnd'.2]
      · simp
      · intro kv hkv a ha
        rcases List.mem_append.mp ha with h | h
        · exact hdis kv (List.mem_cons_of_mem _ hkv) a h
        · simp only [List.mem_singleton] at h
          rw [h]
          intro e
          exact hnd'.1 (List.mem_map.mpr ⟨kv, hkv, e.symm⟩)

theorem refHashes_hashesOut (m : List (Int × String)) (hk : ∀ kv ∈ m, kv.1 ∈ cdxHashes) (hnd : (m.map (·.1)).Nodup) :
    (hashesOut m).foldl (fun acc h => Spdx.mapStore acc (hashIn h.algo) h.value) [] = sortedByKey m := by
  unfold hashesOut
  have := refHashes_filterMap (sortedByKey m) []
    (by
      intro kv hkv
      have : kv.1 ∈ m.map (·.1) := (sortedByKey_keys_mem m kv.1).mp (List.mem_map.mpr ⟨kv, hkv, rfl⟩)
      obtain ⟨kv', h', e⟩ := List.mem_map.mp this
      rw [← e]; exact hk kv' h')
    (sortedByKey_keys_nodup m hnd) (by intro _ _ a ha; cases ha)
  simpa using this

end Protobom.Cdx
