/-
  The nodes the CycloneDX parser returns, position by position: for a BOM whose references are
  pairwise distinct and non-empty, the parsed node list is, in preorder, `componentToNode` applied
  to every component of the tree (complements `unserCDX_tree`, which gives identifiers and edges).
-/
import Protobom.Proofs.Cdx

namespace Protobom.Cdx
open Protobom Gen

mutual
  /-- the components of a subtree in preorder -/
  def Component.flat : Component → List Component
    | .mk r t n v d c p e l h x s ks => .mk r t n v d c p e l h x s ks :: flatL ks
  def flatL : List Component → List Component
    | [] => []
    | c :: cs => c.flat ++ flatL cs
end

/-- `nodes` are the images of `cs`, position by position -/
def NodesFrom : List Component → List Node → Prop
  | [], [] => True
  | c :: cs, n :: ns => (∃ cc, n = componentToNode c cc) ∧ NodesFrom cs ns
  | _, _ => False

theorem NodesFrom.append : ∀ {a b : List Component} {x y : List Node}, NodesFrom a x → NodesFrom b y →
    NodesFrom (a ++ b) (x ++ y)
  | [], _, [], _, _, h2 => by simpa using h2
  | [], _, _ :: _, _, h1, _ => by simp [NodesFrom] at h1
  | _ :: _, _, [], _, h1, _ => by simp [NodesFrom] at h1
  | _ :: as, _, _ :: xs, _, h1, h2 => by
    simp only [NodesFrom, List.cons_append] at h1 ⊢
    exact ⟨h1.1, NodesFrom.append h1.2 h2⟩

theorem NodesFrom.length : ∀ {a : List Component} {x : List Node}, NodesFrom a x → a.length = x.length
  | [], [], _ => rfl
  | [], _ :: _, h => by simp [NodesFrom] at h
  | _ :: _, [], h => by simp [NodesFrom] at h
  | _ :: as, _ :: xs, h => by
    simp only [NodesFrom] at h
    simp [NodesFrom.length h.2]

/-- every node is the image of a component of the list (the position-free reading) -/
theorem NodesFrom.mem : ∀ {a : List Component} {x : List Node}, NodesFrom a x → ∀ n ∈ x, ∃ c ∈ a, ∃ cc, n = componentToNode c cc
  | [], [], _, n, hn => by cases hn
  | [], _ :: _, h, _, _ => by simp [NodesFrom] at h
  | _ :: _, [], h, _, _ => by simp [NodesFrom] at h
  | c :: as, m :: xs, h, n, hn => by
    simp only [NodesFrom] at h
    rcases List.mem_cons.mp hn with rfl | hn
    · exact ⟨c, List.mem_cons_self, h.1⟩
    · obtain ⟨c', hc', hcc⟩ := NodesFrom.mem h.2 n hn
      exact ⟨c', List.mem_cons_of_mem _ hc', hcc⟩

theorem relate_nodes_list (a b : NodeList) (anchor : String) (ty : Int) (r : NodeList)
    (h : a.relateNodeListAtID b anchor ty = some r) (hd : ∀ x ∈ b.ids, x ∉ a.ids) :
    r.nodes = a.nodes ++ b.nodes := by
  unfold NodeList.relateNodeListAtID at h
  split at h
  · simp only [Option.some.injEq] at h
    subst h
    have hf : b.nodes.filter (fun n => decide (n.id ∉ a.ids)) = b.nodes := by
      apply List.filter_eq_self.mpr
      intro n hn
      simpa using hd n.id (List.mem_map.mpr ⟨n, hn, rfl⟩)
    show a.nodes ++ b.nodes.filter (fun n => decide (n.id ∉ a.ids)) = _
    rw [hf]
  · cases h

mutual
  theorem compToNL_nodes : ∀ (c : Component) (cc : Nat), (∀ x ∈ c.refs, x ≠ "") → c.refs.Nodup →
      NodesFrom c.flat (compToNL c cc).1.nodes
    | .mk r t n v d cp purl cpe lic hashes refs s ks, cc, hne, hnd => by
      have hr : r ≠ "" := hne r (by simp [Component.refs])
      have hid : (componentToNode (.mk r t n v d cp purl cpe lic hashes refs s ks) (cc + 1)).id = r :=
        componentToNode_id _ _ (by simpa [Component.bomRef] using hr)
      simp only [compToNL, Component.flat]
      have hnd' : (r :: refsL ks).Nodup := by simpa [Component.refs] using hnd
      obtain ⟨X, hX, hF⟩ := compsToNL_nodes ks (cc + 1)
        { nodes := [componentToNode (.mk r t n v d cp purl cpe lic hashes refs s ks) (cc + 1)], edges := [],
          roots := [(componentToNode (.mk r t n v d cp purl cpe lic hashes refs s ks) (cc + 1)).id] }
        (componentToNode (.mk r t n v d cp purl cpe lic hashes refs s ks) (cc + 1)).id
        (by simp [NodeList.ids])
        (fun x hx => hne x (by simp [Component.refs, hx]))
        (by simpa [NodeList.ids, hid] using hnd')
      rw [hX]
      exact ⟨⟨cc + 1, rfl⟩, hF⟩
  theorem compsToNL_nodes : ∀ (ks : List Component) (cc : Nat) (acc : NodeList) (anchor : String),
      anchor ∈ acc.ids → (∀ x ∈ refsL ks, x ≠ "") → (acc.ids ++ refsL ks).Nodup →
      ∃ X, (compsToNL ks cc acc anchor).1.nodes = acc.nodes ++ X ∧ NodesFrom (flatL ks) X
    | [], cc, acc, anchor, _, _, _ => ⟨[], by simp [compsToNL], by simp [flatL, NodesFrom]⟩
    | k :: ks, cc, acc, anchor, hanc, hne, hnd => by
      simp only [compsToNL]
      have hk_ne : ∀ x ∈ k.refs, x ≠ "" := fun x hx => hne x (by simp [refsL, hx])
      have hnd1 : (acc.ids ++ (k.refs ++ refsL ks)).Nodup := by simpa [refsL] using hnd
      have hk_nd : k.refs.Nodup := by
        have := (List.nodup_append.mp hnd1).2.1
        exact (List.nodup_append.mp this).1
      obtain ⟨t1, _, _⟩ := compToNL_spec k cc hk_ne hk_nd
      have tn := compToNL_nodes k cc hk_ne hk_nd
      obtain ⟨r', hr'⟩ := relate_defined acc (compToNL k cc).1 anchor 5 hanc
      have hdisj : ∀ x ∈ (compToNL k cc).1.ids, x ∉ acc.ids := by
        intro x hx hxa
        rw [t1] at hx
        exact (List.nodup_append.mp hnd1).2.2 x hxa x (List.mem_append.mpr (Or.inl hx)) rfl
      have hids := relate_ids_list acc _ anchor 5 r' hr' hdisj
      have hnodes := relate_nodes_list acc _ anchor 5 r' hr' hdisj
      simp only [hr', Option.getD_some]
      have hanc' : anchor ∈ r'.ids := by rw [hids]; exact List.mem_append.mpr (Or.inl hanc)
      have hnd2 : (r'.ids ++ refsL ks).Nodup := by
        rw [hids, t1, List.append_assoc]; exact hnd1
      obtain ⟨X, hX, hF⟩ := compsToNL_nodes ks (compToNL k cc).2 r' anchor hanc'
        (fun x hx => hne x (by simp [refsL, hx])) hnd2
      refine ⟨(compToNL k cc).1.nodes ++ X, ?_, ?_⟩
      · rw [hX, hnodes, List.append_assoc]
      · simp only [flatL]; exact tn.append hF
end

theorem topFold_nodes (tops : List Component) (acc : NodeList) (cc : Nat) (root : String)
    (hroots : acc.roots = [root]) (hanc : root ∈ acc.ids) (hne : ∀ x ∈ refsL tops, x ≠ "")
    (hnd : (acc.ids ++ refsL tops).Nodup) :
    ∃ X, (topFold tops (acc, cc)).1.nodes = acc.nodes ++ X ∧ NodesFrom (flatL tops) X := by
  induction tops generalizing acc cc with
  | nil => exact ⟨[], by simp [topFold], by simp [flatL, NodesFrom]⟩
  | cons k ks ih =>
    simp only [topFold, List.foldl_cons, hroots]
    have hk_ne : ∀ x ∈ k.refs, x ≠ "" := fun x hx => hne x (by simp [refsL, hx])
    have hnd1 : (acc.ids ++ (k.refs ++ refsL ks)).Nodup := by simpa [refsL] using hnd
    have hk_nd : k.refs.Nodup := (List.nodup_append.mp (List.nodup_append.mp hnd1).2.1).1
    obtain ⟨t1, _, _⟩ := compToNL_spec k cc hk_ne hk_nd
    have tn := compToNL_nodes k cc hk_ne hk_nd
    obtain ⟨r', hr'⟩ := relate_defined acc (compToNL k cc).1 root 5 hanc
    have hdisj : ∀ x ∈ (compToNL k cc).1.ids, x ∉ acc.ids := by
      intro x hx hxa
      rw [t1] at hx
      exact (List.nodup_append.mp hnd1).2.2 x hxa x (List.mem_append.mpr (Or.inl hx)) rfl
    have hids := relate_ids_list acc _ root 5 r' hr' hdisj
    have hnodes := relate_nodes_list acc _ root 5 r' hr' hdisj
    have hr'roots := relate_roots acc _ root 5 r' hr'
    simp only [hr', Option.getD_some]
    have hnd2 : (r'.ids ++ refsL ks).Nodup := by rw [hids, t1, List.append_assoc]; exact hnd1
    obtain ⟨X, hX, hF⟩ := ih r' (compToNL k cc).2 (hr'roots.trans hroots)
      (by rw [hids]; exact List.mem_append.mpr (Or.inl hanc)) (fun x hx => hne x (by simp [refsL, hx])) hnd2
    refine ⟨(compToNL k cc).1.nodes ++ X, ?_, ?_⟩
    · show (topFold ks (r', (compToNL k cc).2)).1.nodes = _
      rw [hX, hnodes, List.append_assoc]
    · simp only [flatL]; exact tn.append hF

theorem mergeNodes_nil (f : Node → Node → Node) (ns2 : List Node) (st : List Node × List Node) :
    mergeNodes f [] st ns2 = (st.1, st.2 ++ ns2) := by
  induction ns2 generalizing st with
  | nil => simp [mergeNodes]
  | cons n ns ih =>
    have := ih (st.1, st.2 ++ [n])
    simp only [mergeNodes, List.foldl_cons, List.not_mem_nil, if_false] at this ⊢
    rw [this]; simp

theorem add_empty_nodes (b : NodeList) : (({} : NodeList).add b).nodes = b.nodes := by
  simp only [NodeList.add, NodeList.cleanEdges, addNodes, List.map_nil]
  rw [mergeNodes_nil]; simp

/-- **every parsed node is the image of the component at the same preorder position** -/
theorem unserCDX_nodes (b : Bom) (rootC : Component) (hm : b.metaComponent = some rootC)
    (hne : ∀ x ∈ rootC.refs ++ refsL b.components, x ≠ "")
    (hnd : (rootC.refs ++ refsL b.components).Nodup) :
    ∃ nl, (unserCDX b).nodeList = some nl ∧ NodesFrom (rootC.flat ++ flatL b.components) nl.nodes := by
  have hrne : ∀ x ∈ rootC.refs, x ≠ "" := fun x hx => hne x (List.mem_append.mpr (Or.inl hx))
  have hrnd : rootC.refs.Nodup := (List.nodup_append.mp hnd).1
  obtain ⟨t1, t2, _⟩ := compToNL_spec rootC 0 hrne hrnd
  have tn := compToNL_nodes rootC 0 hrne hrnd
  let a0 : NodeList := ({} : NodeList).add (compToNL rootC 0).1
  have ha_nodes : a0.nodes = (compToNL rootC 0).1.nodes := add_empty_nodes _
  have ha_ids : a0.ids = rootC.refs := by
    show a0.nodes.map (·.id) = _
    rw [ha_nodes]; exact t1
  have ha_roots : a0.roots = [rootC.bomRef] := by
    show (({} : NodeList).add (compToNL rootC 0).1).roots = _
    simp [NodeList.add, NodeList.cleanEdges, t2]
  have hroot_in : rootC.bomRef ∈ a0.ids := by
    rw [ha_ids]; cases rootC; simp [Component.refs, Component.bomRef]
  obtain ⟨X, hX, hF⟩ := topFold_nodes b.components a0 (compToNL rootC 0).2 rootC.bomRef ha_roots hroot_in
    (fun x hx => hne x (List.mem_append.mpr (Or.inr hx))) (by rw [ha_ids]; exact hnd)
  refine ⟨(topFold b.components (a0, (compToNL rootC 0).2)).1, ?_, ?_⟩
  · simp only [unserCDX, hm]; rfl
  · rw [hX, ha_nodes]; exact tn.append hF

end Protobom.Cdx
