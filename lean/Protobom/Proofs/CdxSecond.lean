/- A second CycloneDX write-then-read pass changes nothing further, at the level of a node:
   `rtNode v (rtNode v n) = rtNode v n` for the nodes of the round-trip class. -/
import Protobom.Proofs.CdxAttrs

namespace Protobom.Cdx
open Protobom Gen

/-! ### reading the attributes of a node that was read back -/

section
variable (v : Nat) (n : Node)

theorem rtNode_str (f : String) (h : (f, Kind.str) ∈ Schema.nodeAttrs) :
    Spdx.Node.str (rtNode v n) f = (match compAttr (convComp v (nodeToComponent n)) f .str with | .str s => s | _ => "") := by
  simp only [Spdx.Node.str, Node.strAttr, rtNode_attr v n f .str h]
  cases compAttr (convComp v (nodeToComponent n)) f .str <;> rfl

theorem rtNode_strs (f : String) (h : (f, Kind.strs) ∈ Schema.nodeAttrs) :
    Spdx.Node.strs (rtNode v n) f = (match compAttr (convComp v (nodeToComponent n)) f .strs with | .strs s => s | _ => []) := by
  simp only [Spdx.Node.strs, rtNode_attr v n f .strs h]
  cases compAttr (convComp v (nodeToComponent n)) f .strs <;> rfl

theorem rtNode_enums (f : String) (h : (f, Kind.enums) ∈ Schema.nodeAttrs) :
    Spdx.Node.enums (rtNode v n) f = (match compAttr (convComp v (nodeToComponent n)) f .enums with | .enums s => s | _ => []) := by
  simp only [Spdx.Node.enums, rtNode_attr v n f .enums h]
  cases compAttr (convComp v (nodeToComponent n)) f .enums <;> rfl

theorem rtNode_refs (f : String) (h : (f, Kind.refs) ∈ Schema.nodeAttrs) :
    Spdx.Node.refs (rtNode v n) f = (match compAttr (convComp v (nodeToComponent n)) f .refs with | .refs s => s | _ => []) := by
  simp only [Spdx.Node.refs, rtNode_attr v n f .refs h]
  cases compAttr (convComp v (nodeToComponent n)) f .refs <;> rfl

theorem rtNode_persons (f : String) (h : (f, Kind.persons) ∈ Schema.nodeAttrs) :
    Spdx.Node.persons (rtNode v n) f = (match compAttr (convComp v (nodeToComponent n)) f .persons with | .persons s => s | _ => []) := by
  simp only [Spdx.Node.persons, rtNode_attr v n f .persons h]
  cases compAttr (convComp v (nodeToComponent n)) f .persons <;> rfl

theorem rtNode_imap (f : String) (h : (f, Kind.imap) ∈ Schema.nodeAttrs) :
    (rtNode v n).mapAttr f = (match compAttr (convComp v (nodeToComponent n)) f .imap with | .imap s => s | _ => []) := by
  simp only [Node.mapAttr, rtNode_attr v n f .imap h]
  cases compAttr (convComp v (nodeToComponent n)) f .imap <;> rfl

end

/-! ### component types: the table fixpoint for the types a spec version has -/

def supList (v : Nat) : List String :=
  ["application", "device", "framework", "library", "operating-system", "file", "container", "firmware"] ++
    (if v ≥ 5 then ["data", "device-driver", "machine-learning-model", "platform"] else [])

def convType (v : Nat) (t : String) : String := if supportsType v t then t else "application"

theorem convType_mem (v : Nat) (t : String) : convType v t ∈ supList v := by
  unfold convType supportsType supList
  by_cases h1 : t ∈ ["application", "device", "framework", "library", "operating-system", "file", "container", "firmware"]
  · simp only [h1, if_true]; exact List.mem_append.mpr (Or.inl h1)
  · by_cases h2 : t ∈ ["data", "device-driver", "machine-learning-model", "platform"]
    · by_cases hv : v ≥ 5
      · simp only [h1, if_false, h2, if_true, hv, decide_true]
        exact List.mem_append.mpr (Or.inr h2)
      · simp [h1, h2, hv]
    · simp [h1, h2]

/-- the type written for a node that was read back (`file` for FILE nodes, else the table entry of
    its single purpose) reads back as the same purpose -/
def typeFix (v : Nat) (s : String) : Bool :=
  let p := purposeIn s
  purposeIn (convType v (if (if p = 12 then (1 : Int) else 0) = 1 then "file" else (purposeOut p).getD "")) = p

theorem typeFix_4 : ∀ s ∈ supList 4, typeFix 4 s = true := by decide
theorem typeFix_5 : ∀ s ∈ supList 5, typeFix 5 s = true := by decide

/-! ### the fixpoint -/

/-- the nodes of the round-trip class -/
structure CdxNode (n : Node) : Prop where
  id : n.id ≠ ""
  lic : (Spdx.Node.strs n "Licenses").length ≤ 1
  hk : ∀ kv ∈ n.hashes, kv.1 ∈ cdxHashes
  hnd : (n.hashes.map (·.1)).Nodup
  refs : ∀ r ∈ Spdx.Node.refs n "ExternalReferences", r.typ ∈ refTypesAll ∧
    (∀ kv ∈ r.hashes, kv.1 ∈ cdxHashes) ∧ (r.hashes.map (·.1)).Nodup

theorem sortedByKey_class (m : List (Int × String)) (hk : ∀ kv ∈ m, kv.1 ∈ cdxHashes) :
    ∀ kv ∈ sortedByKey m, kv.1 ∈ cdxHashes := by
  intro kv hkv
  have : kv.1 ∈ m.map (·.1) := (sortedByKey_keys_mem m kv.1).mp (List.mem_map.mpr ⟨kv, hkv, rfl⟩)
  obtain ⟨kv', h', e⟩ := List.mem_map.mp this
  rw [← e]; exact hk kv' h'

theorem licenseList_short (ls : List String) :
    ls.length ≤ 1 →
    let lic : Option (List LicChoice) := match ls with | [] => none | ls => some (ls.map (fun l => { license := some l }))
    let lic' : Option (List LicChoice) := match licenseList lic with | [] => none | ls => some (ls.map (fun l => { license := some l }))
    licenseList lic' = licenseList lic ∧ licenseString lic' = licenseString lic := by
  intro h
  match ls, h with
  | [], _ => simp [licenseList, licenseString]
  | [l], _ =>
    by_cases hl : l = ""
    · simp [licenseList, licenseString, licenseID, hl]
    · simp [licenseList, licenseString, licenseID, hl]

end Protobom.Cdx

namespace Protobom.Cdx
open Protobom Gen

theorem componentToNode_congr (C C' : Component) (cc : Nat) (h1 : C.bomRef = C'.bomRef)
    (h2 : purposeIn C.typ = purposeIn C'.typ) (h3 : ∀ f k, compAttr C f k = compAttr C' f k) :
    componentToNode C cc = componentToNode C' cc := by
  cases C; cases C'
  simp only [Component.bomRef, Component.typ] at h1 h2
  simp only [componentToNode, h1, h2]
  congr 1
  apply List.map_congr_left
  intro fk _
  exact h3 fk.1 fk.2

/-- what `compAttr` looks at -/
theorem compAttr_congr (r r' t t' n v v' d cp purl purl' cpe cpe' : String) (lic lic' : Option (List LicChoice))
    (hs hs' : List Hash) (xs xs' : List CRef) (s s' : Option (String × List Contact)) (ks ks' : List Component)
    (hvv : v = v') (ht : purposeIn t = purposeIn t') (hl1 : licenseList lic = licenseList lic') (hl2 : licenseString lic = licenseString lic')
    (hh : compHashes hs = compHashes hs') (hx : compRefs xs = compRefs xs') (hi : compIds purl cpe = compIds purl' cpe') :
    ∀ f k, compAttr (.mk r t n v d cp purl cpe lic hs xs s ks) f k = compAttr (.mk r' t' n v' d cp purl' cpe' lic' hs' xs' s' ks') f k := by
  intro f k
  simp only [compAttr, hvv, ht, hl1, hl2, hh, hx, hi]

theorem type_fix (v : Nat) (hv : v = 4 ∨ v = 5) (t0 : String) :
    purposeIn (convType v (if (if purposeIn (convType v t0) = 12 then (1 : Int) else 0) = 1 then "file"
      else (purposeOut (purposeIn (convType v t0))).getD "")) = purposeIn (convType v t0) := by
  have hm := convType_mem v t0
  rcases hv with rfl | rfl
  · have := typeFix_4 _ hm
    simpa [typeFix] using this
  · have := typeFix_5 _ hm
    simpa [typeFix] using this

theorem ver_fix (v : Nat) (s : String) :
    (if v < 4 ∧ (if v < 4 ∧ s = "" then "0.0.0" else s) = "" then "0.0.0" else if v < 4 ∧ s = "" then "0.0.0" else s) =
      if v < 4 ∧ s = "" then "0.0.0" else s := by
  by_cases h1 : v < 4 <;> by_cases h2 : s = "" <;> simp [h1, h2]

theorem ids_fix (purl cpe : String) :
    compIds ((List.lookup 1 (compIds purl cpe)).getD "")
      (match List.lookup 3 (compIds purl cpe) with
       | some c => c
       | none => (List.lookup 2 (compIds purl cpe)).getD "") = compIds purl cpe := by
  by_cases h1 : cpe = "" <;> by_cases h2 : purl = "" <;> by_cases h3 : Str.hasPrefix cpe "cpe:2.3" = true <;>
    simp [compIds, h1, h2, h3, List.lookup]

theorem hashes_fix (m : List (Int × String)) (hk : ∀ kv ∈ m, kv.1 ∈ cdxHashes) (hnd : (m.map (·.1)).Nodup) :
    compHashes (hashesOut (compHashes (hashesOut m))) = compHashes (hashesOut m) := by
  rw [compHashes_hashesOut m hk hnd,
    compHashes_hashesOut _ (sortedByKey_class m hk) (sortedByKey_keys_nodup m hnd), sortedByKey_idem m hnd]

/-- what one pass makes of the references of the class -/
theorem refs_pass (v : Nat) (refs : List ExtRef)
    (h : ∀ r ∈ refs, r.typ ∈ refTypesAll ∧ (∀ kv ∈ r.hashes, kv.1 ∈ cdxHashes) ∧ (r.hashes.map (·.1)).Nodup) :
    compRefs (List.map (convRef v) (List.map
      (fun r => ({ url := r.url, comment := r.comment, typ := refTypeOut r.typ, hashes := hashesOut r.hashes } : CRef)) refs)) =
    refs.map (fun r => { r with authority := "", hashes := sortedByKey r.hashes }) := by
  simp only [compRefs, List.map_map]
  apply List.map_congr_left
  intro r hr
  obtain ⟨h1, h2, h3⟩ := h r hr
  have ht := reftypes_roundtrip_all v r.typ h1
  simp only [Function.comp, convRef] at ht ⊢
  rw [ht, refHashes_hashesOut r.hashes h2 h3]

theorem refs_fix (v : Nat) (refs : List ExtRef)
    (h : ∀ r ∈ refs, r.typ ∈ refTypesAll ∧ (∀ kv ∈ r.hashes, kv.1 ∈ cdxHashes) ∧ (r.hashes.map (·.1)).Nodup) :
    let pass := fun (rs : List ExtRef) => compRefs (List.map (convRef v) (List.map
      (fun r => ({ url := r.url, comment := r.comment, typ := refTypeOut r.typ, hashes := hashesOut r.hashes } : CRef)) rs))
    pass (pass refs) = pass refs := by
  intro pass
  have e1 : pass refs = refs.map (fun r => { r with authority := "", hashes := sortedByKey r.hashes }) := refs_pass v refs h
  have h' : ∀ r ∈ refs.map (fun r => ({ r with authority := "", hashes := sortedByKey r.hashes } : ExtRef)),
      r.typ ∈ refTypesAll ∧ (∀ kv ∈ r.hashes, kv.1 ∈ cdxHashes) ∧ (r.hashes.map (·.1)).Nodup := by
    intro r hr
    obtain ⟨r0, hr0, rfl⟩ := List.mem_map.mp hr
    obtain ⟨h1, h2, h3⟩ := h r0 hr0
    exact ⟨h1, sortedByKey_class _ h2, sortedByKey_keys_nodup _ h3⟩
  have e2 : pass (refs.map (fun r => ({ r with authority := "", hashes := sortedByKey r.hashes } : ExtRef))) = _ :=
    refs_pass v _ h'
  rw [e1, e2, List.map_map]
  apply List.map_congr_left
  intro r hr
  simp only [Function.comp]
  rw [sortedByKey_idem _ (h r hr).2.2]

theorem second_pass_node (v : Nat) (hv : v = 4 ∨ v = 5) (n : Node) (c : CdxNode n) :
    rtNode v (rtNode v n) = rtNode v n := by
  have hid : (rtNode v n).id = n.id := rtNode_id v n c.id
  show componentToNode (convComp v (nodeToComponent (rtNode v n))) 0 = componentToNode (convComp v (nodeToComponent n)) 0
  have hName := rtNode_str v n "Name" (by simp [Schema.nodeAttrs])
  have hVer := rtNode_str v n "Version" (by simp [Schema.nodeAttrs])
  have hDesc := rtNode_str v n "Description" (by simp [Schema.nodeAttrs])
  have hCp := rtNode_str v n "Copyright" (by simp [Schema.nodeAttrs])
  have hLic := rtNode_strs v n "Licenses" (by simp [Schema.nodeAttrs])
  have hPur := rtNode_enums v n "PrimaryPurpose" (by simp [Schema.nodeAttrs])
  have hRefs := rtNode_refs v n "ExternalReferences" (by simp [Schema.nodeAttrs])
  have hSup := rtNode_persons v n "Suppliers" (by simp [Schema.nodeAttrs])
  have hIds : (rtNode v n).identifiers = _ := rtNode_imap v n "Identifiers" (by simp [Schema.nodeAttrs])
  have hHs : (rtNode v n).hashes = _ := rtNode_imap v n "Hashes" (by simp [Schema.nodeAttrs])
  simp only [compAttr, nodeToComponent, convComp] at hName hVer hDesc hCp hLic hPur hRefs hSup hIds hHs
  simp only [String.reduceEq, if_false, if_true] at hName hVer hDesc hCp hLic hPur hRefs hSup hIds hHs
  have hSup' : Spdx.Node.persons (rtNode v n) "Suppliers" = [] := by rw [hSup]; rfl
  have hTyp : (rtNode v n).typ = if purposeIn (convType v (if n.typ = 1 then "file" else
      match Spdx.Node.enums n "PrimaryPurpose" with | p :: _ => (purposeOut p).getD "" | [] => "")) = 12 then 1 else 0 := by
    rfl
  simp only [nodeToComponent, convComp, hid, hName, hVer, hDesc, hCp, hLic, hPur, hRefs, hSup', hIds, hHs, hTyp]
  apply componentToNode_congr
  · rfl
  · exact type_fix v hv _
  · apply compAttr_congr
    · exact ver_fix v _
    · exact type_fix v hv _
    · exact (licenseList_short (Spdx.Node.strs n "Licenses") c.lic).1
    · exact (licenseList_short (Spdx.Node.strs n "Licenses") c.lic).2
    · exact hashes_fix n.hashes c.hk c.hnd
    · exact refs_fix v _ c.refs
    · exact ids_fix _ _

end Protobom.Cdx

namespace Protobom.Cdx
open Protobom Gen

theorem licenseList_length (l : Option (List LicChoice)) : (licenseList l).length ≤ 1 := by
  unfold licenseList
  split
  · simp
  · split <;> simp

/-- the class is closed under the round trip, so every further pass is a fixpoint too -/
theorem rtNode_class (v : Nat) (n : Node) (c : CdxNode n) : CdxNode (rtNode v n) := by
  have hLic := rtNode_strs v n "Licenses" (by simp [Schema.nodeAttrs])
  have hRefs := rtNode_refs v n "ExternalReferences" (by simp [Schema.nodeAttrs])
  have hHs : (rtNode v n).hashes = _ := rtNode_imap v n "Hashes" (by simp [Schema.nodeAttrs])
  simp only [compAttr, nodeToComponent, convComp] at hLic hRefs hHs
  simp only [String.reduceEq, if_false, if_true] at hLic hRefs hHs
  rw [compHashes_hashesOut n.hashes c.hk c.hnd] at hHs
  rw [refs_pass v _ c.refs] at hRefs
  refine ⟨?_, ?_, ?_, ?_, ?_⟩
  · rw [rtNode_id v n c.id]; exact c.id
  · rw [hLic]; exact licenseList_length _
  · rw [hHs]; exact sortedByKey_class _ c.hk
  · rw [hHs]; exact sortedByKey_keys_nodup _ c.hnd
  · rw [hRefs]
    intro r hr
    obtain ⟨r0, hr0, rfl⟩ := List.mem_map.mp hr
    obtain ⟨h1, h2, h3⟩ := c.refs r0 hr0
    exact ⟨h1, sortedByKey_class _ h2, sortedByKey_keys_nodup _ h3⟩

end Protobom.Cdx
