/-
  Set-level vocabulary (ids, HasEdge, WF, Normal, ≃) and the two central lemmas about
  `cleanEdges`: it refines "restrict the edge relation to present nodes" and it normalises.
-/
import Protobom.Model.Graph

namespace Protobom

/-- `(s, t, d)` is in the edge relation of the edge list -/
def HasEdgeL (es : List Edge) (s : String) (t : Int) (d : String) : Prop :=
  ∃ e ∈ es, e.src = s ∧ e.ty = t ∧ d ∈ e.tos

def NodeList.HasEdge (nl : NodeList) (s : String) (t : Int) (d : String) : Prop :=
  HasEdgeL nl.edges s t d

/-- every edge source, edge target and root names a present node; identifiers are unique -/
structure NodeList.WF (nl : NodeList) : Prop where
  nodup : nl.ids.Nodup
  src : ∀ e ∈ nl.edges, e.src ∈ nl.ids
  dst : ∀ e ∈ nl.edges, ∀ d ∈ e.tos, d ∈ nl.ids
  roots : ∀ r ∈ nl.roots, r ∈ nl.ids

/-- at most one edge per source and type, no repeated targets -/
structure NormalL (es : List Edge) : Prop where
  keys : (es.map Edge.key).Nodup
  tos : ∀ e ∈ es, e.tos.Nodup

def NodeList.Normal (nl : NodeList) : Prop := NormalL nl.edges

/-- same identifier set, same root set, same edge relation -/
structure NodeList.Equiv (a b : NodeList) : Prop where
  ids : ∀ x, x ∈ a.ids ↔ x ∈ b.ids
  roots : ∀ x, x ∈ a.roots ↔ x ∈ b.roots
  edges : ∀ s t d, a.HasEdge s t d ↔ b.HasEdge s t d

infix:50 " ≃ₙ " => NodeList.Equiv

theorem hasEdgeL_append (es fs : List Edge) (s t d) :
    HasEdgeL (es ++ fs) s t d ↔ HasEdgeL es s t d ∨ HasEdgeL fs s t d := by
  simp only [HasEdgeL, List.mem_append]
  constructor
  · rintro ⟨e, he | he, h⟩
    · exact Or.inl ⟨e, he, h⟩
    · exact Or.inr ⟨e, he, h⟩
  · rintro (⟨e, he, h⟩ | ⟨e, he, h⟩)
    · exact ⟨e, Or.inl he, h⟩
    · exact ⟨e, Or.inr he, h⟩

theorem cleanEdgesL_rel (ids : List String) (es : List Edge) (s : String) (t : Int) (d : String) :
    HasEdgeL (cleanEdgesL ids es) s t d ↔ HasEdgeL es s t d ∧ s ∈ ids ∧ d ∈ ids := by
  unfold cleanEdgesL HasEdgeL
  simp only [List.mem_filter, List.mem_map, List.mem_eraseDups, List.mem_flatMap,
    decide_eq_true_eq, Bool.not_eq_true', List.isEmpty_eq_false_iff_exists_mem]
  constructor
  · rintro ⟨e, ⟨⟨k, ⟨e0, ⟨he0, hs0⟩, hk⟩, rfl⟩, _⟩, rfl, rfl, hd⟩
    simp only [List.mem_eraseDups, List.mem_filter, List.mem_flatMap, decide_eq_true_eq] at hd
    obtain ⟨⟨e1, ⟨⟨he1, _⟩, hk1⟩, hd1⟩, hdi⟩ := hd
    refine ⟨⟨e1, he1, ?_, ?_, hd1⟩, ?_, hdi⟩
    · rw [← hk1] ; rfl
    · rw [← hk1] ; rfl
    · rw [← hk]; exact hs0
  · rintro ⟨⟨e, he, rfl, rfl, hd⟩, hs, hdi⟩
    refine ⟨_, ⟨⟨e.key, ⟨e, ⟨he, hs⟩, rfl⟩, rfl⟩, ⟨d, ?_⟩⟩, rfl, rfl, ?_⟩
    all_goals
      simp only [List.mem_eraseDups, List.mem_filter, List.mem_flatMap, decide_eq_true_eq]
      exact ⟨⟨e, ⟨⟨he, hs⟩, rfl⟩, hd⟩, hdi⟩

theorem cleanEdgesL_normal (ids : List String) (es : List Edge) : NormalL (cleanEdgesL ids es) := by
  unfold cleanEdgesL
  constructor
  · have h : ∀ (ks : List Key) (mk : Key → Edge), (∀ k, (mk k).key = k) → ks.Nodup →
        (((ks.map mk).filter (fun e => !e.tos.isEmpty)).map Edge.key).Nodup := by
      intro ks mk hmk hnd
      induction ks with
      | nil => simp
      | cons k ks ih =>
        have hnd' := List.nodup_cons.mp hnd
        simp only [List.map_cons, List.filter_cons]
        split
        · simp only [List.map_cons, List.nodup_cons]
          refine ⟨?_, ih hnd'.2⟩
          simp only [List.mem_map, List.mem_filter]
          rintro ⟨e, ⟨⟨k', hk', rfl⟩, _⟩, he⟩
          rw [hmk, hmk] at he
          exact hnd'.1 (he ▸ hk')
        · exact ih hnd'.2
    apply h
    · intro k; rfl
    · exact nodup_eraseDups _
  · intro e he
    simp only [List.mem_filter, List.mem_map] at he
    obtain ⟨⟨k, _, rfl⟩, _⟩ := he
    exact nodup_eraseDups _

theorem cleanEdges_rel (nl : NodeList) (s t d) :
    nl.cleanEdges.HasEdge s t d ↔ nl.HasEdge s t d ∧ s ∈ nl.ids ∧ d ∈ nl.ids :=
  cleanEdgesL_rel nl.ids nl.edges s t d

theorem cleanEdges_normal (nl : NodeList) : nl.cleanEdges.Normal := cleanEdgesL_normal _ _

@[simp] theorem cleanEdges_ids (nl : NodeList) : nl.cleanEdges.ids = nl.ids := rfl
@[simp] theorem cleanEdges_nodes (nl : NodeList) : nl.cleanEdges.nodes = nl.nodes := rfl
@[simp] theorem cleanEdges_roots (nl : NodeList) : nl.cleanEdges.roots = nl.roots := rfl

/-- every edge of a cleaned list has its source and all its targets among the identifiers -/
theorem cleanEdgesL_closed (ids : List String) (es : List Edge) :
    ∀ e ∈ cleanEdgesL ids es, e.src ∈ ids ∧ ∀ d ∈ e.tos, d ∈ ids := by
  intro e he
  have hne : ∃ d, d ∈ e.tos := by
    unfold cleanEdgesL at he
    simp only [List.mem_filter, Bool.not_eq_true', List.isEmpty_eq_false_iff_exists_mem] at he
    exact he.2
  constructor
  · obtain ⟨d, hd⟩ := hne
    exact ((cleanEdgesL_rel ids es e.src e.ty d).mp ⟨e, he, rfl, rfl, hd⟩).2.1
  · intro d hd
    exact ((cleanEdgesL_rel ids es e.src e.ty d).mp ⟨e, he, rfl, rfl, hd⟩).2.2

end Protobom
