/- Lockset theorem: a well-locked program has no data race in any reachable configuration. -/
import Protobom.Model.Conc

namespace Protobom.Conc

/-- mutual exclusion: a lock held for writing by one thread is held by no other thread -/
def Excl (c : Cfg) : Prop :=
  ∀ i j, i ≠ j → ∀ l, (l, Mode.W) ∈ (c i).held → ∀ m, (l, m) ∉ (c j).held

structure Inv (prot : String → String) (c : Cfg) : Prop where
  wl : ∀ i, WL prot (c i).held (c i).rem
  excl : Excl c

theorem upd_same (c : Cfg) (i : Nat) (t : T) : upd c i t i = t := by simp [upd]
theorem upd_other (c : Cfg) (i j : Nat) (t : T) (h : j ≠ i) : upd c i t j = c j := by simp [upd, h]

theorem mem_erase_of (held : List (String × Mode)) (a b : String × Mode) (h : a ∈ held.erase b) : a ∈ held :=
  List.mem_of_mem_erase h

theorem step_inv (prot : String → String) (c c' : Cfg) (h : Inv prot c) (hs : Step c c') : Inv prot c' := by
  cases hs with
  | lock i l m r hrem hen =>
    have hwl := h.wl i
    rw [hrem] at hwl
    simp only [WL] at hwl
    refine ⟨?_, ?_⟩
    · intro k
      by_cases hk : k = i
      · subst hk; rw [upd_same]; exact hwl.2
      · rw [upd_other _ _ _ _ hk]; exact h.wl k
    · intro a b hab l' hW m' hm'
      by_cases ha : a = i
      · subst ha
        have hb : b ≠ a := fun e => hab e.symm
        rw [upd_same] at hW
        rw [upd_other _ _ _ _ hb] at hm'
        simp only [List.mem_cons, Prod.mk.injEq] at hW
        rcases hW with ⟨rfl, rfl⟩ | hW
        · exact hen b hb m' hm'
        · exact h.excl a b hab l' hW m' hm'
      · rw [upd_other _ _ _ _ ha] at hW
        by_cases hb : b = i
        · subst hb
          rw [upd_same] at hm'
          simp only [List.mem_cons, Prod.mk.injEq] at hm'
          rcases hm' with ⟨rfl, rfl⟩ | hm'
          · -- a holds l' for writing while b acquires it: not enabled
            cases m' with
            | W => exact hen a ha Mode.W hW
            | R => exact hen a ha hW
          · exact h.excl a b hab l' hW m' hm'
        · rw [upd_other _ _ _ _ hb] at hm'
          exact h.excl a b hab l' hW m' hm'
  | unlock i l m r hrem =>
    have hwl := h.wl i
    rw [hrem] at hwl
    simp only [WL] at hwl
    refine ⟨?_, ?_⟩
    · intro k
      by_cases hk : k = i
      · subst hk; rw [upd_same]; exact hwl.2
      · rw [upd_other _ _ _ _ hk]; exact h.wl k
    · intro a b hab l' hW m' hm'
      have hW' : (l', Mode.W) ∈ (c a).held := by
        by_cases ha : a = i
        · subst ha; rw [upd_same] at hW; exact mem_erase_of _ _ _ hW
        · rw [upd_other _ _ _ _ ha] at hW; exact hW
      have hm'' : (l', m') ∈ (c b).held := by
        by_cases hb : b = i
        · subst hb; rw [upd_same] at hm'; exact mem_erase_of _ _ _ hm'
        · rw [upd_other _ _ _ _ hb] at hm'; exact hm'
      exact h.excl a b hab l' hW' m' hm''
  | read i x r hrem =>
    have hwl := h.wl i
    rw [hrem] at hwl
    simp only [WL] at hwl
    refine ⟨?_, ?_⟩
    · intro k
      by_cases hk : k = i
      · subst hk; rw [upd_same]; exact hwl.2
      · rw [upd_other _ _ _ _ hk]; exact h.wl k
    · intro a b hab l' hW m' hm'
      have hW' : (l', Mode.W) ∈ (c a).held := by
        by_cases ha : a = i
        · subst ha; rw [upd_same] at hW; exact hW
        · rw [upd_other _ _ _ _ ha] at hW; exact hW
      have hm'' : (l', m') ∈ (c b).held := by
        by_cases hb : b = i
        · subst hb; rw [upd_same] at hm'; exact hm'
        · rw [upd_other _ _ _ _ hb] at hm'; exact hm'
      exact h.excl a b hab l' hW' m' hm''
  | write i x r hrem =>
    have hwl := h.wl i
    rw [hrem] at hwl
    simp only [WL] at hwl
    refine ⟨?_, ?_⟩
    · intro k
      by_cases hk : k = i
      · subst hk; rw [upd_same]; exact hwl.2
      · rw [upd_other _ _ _ _ hk]; exact h.wl k
    · intro a b hab l' hW m' hm'
      have hW' : (l', Mode.W) ∈ (c a).held := by
        by_cases ha : a = i
        · subst ha; rw [upd_same] at hW; exact hW
        · rw [upd_other _ _ _ _ ha] at hW; exact hW
      have hm'' : (l', m') ∈ (c b).held := by
        by_cases hb : b = i
        · subst hb; rw [upd_same] at hm'; exact hm'
        · rw [upd_other _ _ _ _ hb] at hm'; exact hm'
      exact h.excl a b hab l' hW' m' hm''

theorem reach_inv (prot : String → String) (c0 c : Cfg) (h0 : Inv prot c0) (hr : Reach c0 c) : Inv prot c := by
  induction hr with
  | refl => exact h0
  | step _ hs ih => exact step_inv prot _ _ ih hs

theorem inv_no_race (prot : String → String) (c : Cfg) (h : Inv prot c) : ¬ Race c := by
  rintro ⟨i, j, x, hij, ⟨r, hw⟩, hacc⟩
  have hi := h.wl i
  rw [hw] at hi
  simp only [WL] at hi
  rcases hacc with ⟨r', hr⟩ | ⟨r', hr⟩
  · have hj := h.wl j
    rw [hr] at hj
    simp only [WL] at hj
    obtain ⟨m, hm⟩ := hj.1
    exact h.excl i j hij (prot x) hi.1 m hm
  · have hj := h.wl j
    rw [hr] at hj
    simp only [WL] at hj
    exact h.excl i j hij (prot x) hi.1 Mode.W hj.1

/-- **lockset theorem**: if every thread follows the locking discipline, no reachable
    configuration — under any interleaving, with any number of threads — has a data race -/
theorem well_locked_race_free (prot : String → String) (progs : List (List Ev))
    (hwl : ∀ p ∈ progs, WL prot [] p) (c : Cfg) (hr : Reach (initCfg progs) c) : ¬ Race c := by
  apply inv_no_race prot
  apply reach_inv prot _ _ _ hr
  refine ⟨?_, ?_⟩
  · intro i
    simp only [initCfg]
    by_cases hi : i < progs.length
    · have : progs.getD i [] = progs[i] := by simp [List.getD_eq_getElem?_getD, hi]
      rw [this]; exact hwl _ (List.getElem_mem hi)
    · have : progs.getD i [] = [] := by simp [List.getD_eq_getElem?_getD, Nat.not_lt.mp hi]
      rw [this]; trivial
  · intro i j _ l hW
    simp [initCfg] at hW

/-- and in every reachable configuration a write lock is exclusive: the body of a critical section
    runs without interference from any other thread's critical section on the same lock -/
theorem critical_sections_exclusive (prot : String → String) (progs : List (List Ev))
    (hwl : ∀ p ∈ progs, WL prot [] p) (c : Cfg) (hr : Reach (initCfg progs) c) : Excl c := by
  have : Inv prot (initCfg progs) := by
    refine ⟨?_, ?_⟩
    · intro i
      simp only [initCfg]
      by_cases hi : i < progs.length
      · have : progs.getD i [] = progs[i] := by simp [List.getD_eq_getElem?_getD, hi]
        rw [this]; exact hwl _ (List.getElem_mem hi)
      · have : progs.getD i [] = [] := by simp [List.getD_eq_getElem?_getD, Nat.not_lt.mp hi]
        rw [this]; trivial
    · intro i j _ l hW
      simp [initCfg] at hW
  exact (reach_inv prot _ _ this hr).excl

end Protobom.Conc
