/- Identity attributes of a node across a change of format: a node that was written as SPDX 2.3
   and read back (`rtPkg`), then written as CycloneDX 1.`v` and read back (`rtNode v`), and the other
   way round. Identity attributes are the ones C03 names: identifier, name, version, the hashes and
   the package identifiers both formats support. -/
import Protobom.Proofs.SpdxAttrs
import Protobom.Proofs.CdxSecond

namespace Protobom

/-! ### lookups in key-unique association lists -/

theorem lookup_of_mem_nodup {m : List (Int × String)} {k : Int} {v : String}
    (h : (k, v) ∈ m) (hnd : (m.map (·.1)).Nodup) : m.lookup k = some v := by
  induction m with
  | nil => cases h
  | cons x xs ih =>
    obtain ⟨xk, xv⟩ := x
    rw [List.map_cons, List.nodup_cons] at hnd
    simp only [List.lookup_cons]
    rcases List.mem_cons.mp h with e | h'
    · cases e; simp
    · have hne : k ≠ xk := by
        intro e
        exact hnd.1 (List.mem_map.mpr ⟨(k, v), h', e⟩)
      have e' : (k == xk) = false := by simpa using hne
      simp only [e']
      exact ih h' hnd.2

theorem lookup_none_of_not_key {m : List (Int × String)} {k : Int} (h : k ∉ m.map (·.1)) : m.lookup k = none := by
  induction m with
  | nil => rfl
  | cons x xs ih =>
    obtain ⟨xk, xv⟩ := x
    simp only [List.map_cons, List.mem_cons, not_or] at h
    have e' : (k == xk) = false := by simpa using h.1
    simp only [List.lookup_cons, e']
    exact ih h.2

theorem key_of_lookup_some {m : List (Int × String)} {k : Int} {v : String} (h : m.lookup k = some v) :
    k ∈ m.map (·.1) :=
  List.mem_map.mpr ⟨(k, v), mem_of_lookup_some h, rfl⟩

/-- sorting a key-unique map by key does not change what a key is bound to -/
theorem lookup_sortedByKey (m : List (Int × String)) (hnd : (m.map (·.1)).Nodup) (k : Int) :
    (sortedByKey m).lookup k = m.lookup k := by
  cases h : m.lookup k with
  | some v =>
    have hm : (k, v) ∈ sortedByKey m := (sortedByKey_perm_self m hnd).mem_iff.mpr (mem_of_lookup_some h)
    exact lookup_of_mem_nodup hm (sortedByKey_keys_nodup m hnd)
  | none =>
    apply lookup_none_of_not_key
    intro hk
    have hk' : k ∈ m.map (·.1) := (sortedByKey_keys_mem m k).mp hk
    obtain ⟨kv, hkv, e⟩ := List.mem_map.mp hk'
    have := lookup_of_mem_nodup (k := kv.1) (v := kv.2) hkv hnd
    rw [e, h] at this
    cases this

end Protobom

namespace Protobom.Cross
open Protobom Protobom.Spdx Protobom.Cdx Gen

/-! ### what one SPDX pass does to the identity attributes of a package node -/

theorem rtPkg_id (n : Node) : (rtPkg n).id = n.id := rfl

theorem rtPkg_typ (n : Node) : (rtPkg n).typ = 0 := rfl

theorem rtPkg_name (n : Node) : Node.str (rtPkg n) "Name" = Node.str n "Name" := by
  rw [rtPkg_str n "Name" (by simp [Schema.nodeAttrs])]; rfl

theorem rtPkg_version (n : Node) : Node.str (rtPkg n) "Version" = Node.str n "Version" := by
  rw [rtPkg_str n "Version" (by simp [Schema.nodeAttrs])]; rfl

theorem rtPkg_hashes (n : Node) (hk : ∀ kv ∈ n.hashes, kv.1 ∈ spdxHashes) (hnd : (n.hashes.map (·.1)).Nodup) :
    (rtPkg n).hashes = sortedByKey n.hashes := by
  show (rtPkg n).mapAttr "Hashes" = _
  rw [rtPkg_imap n "Hashes" (by simp [Schema.nodeAttrs])]
  show hashesOfChecksums (checksumsOf n) = _
  exact hashes_roundtrip n hk hnd

end Protobom.Cross

namespace Protobom.Cross
open Protobom Protobom.Spdx Protobom.Cdx Gen

theorem rtPkg_identifiers (n : Node)
    (hr : ∀ e ∈ Node.refs n "ExternalReferences", e.typ ∈ spdxRefTypes ∧ e.url ≠ "")
    (hk : ∀ kv ∈ n.identifiers, kv.1 ∈ [1, 2, 3, 4]) (hnd : (n.identifiers.map (·.1)).Nodup) :
    (rtPkg n).identifiers = sortedByKey n.identifiers := by
  show (rtPkg n).mapAttr "Identifiers" = _
  rw [rtPkg_imap n "Identifiers" (by simp [Schema.nodeAttrs])]
  have h := refs_ids_roundtrip (Node.refs n "ExternalReferences") n.identifiers (fun e he => (hr e he).1) hk hnd
  have hx : (packageOf n).extRefs = (Node.refs n "ExternalReferences").map refOut ++ (sortedByKey n.identifiers).map idOut := by
    show List.map _ (List.filter _ _) ++ _ = _
    rw [filter_url_self _ (fun e he => (hr e he).2)]
    rfl
  show (refsIn (packageOf n).extRefs).2 = _
  rw [hx, h]

/-! ### SPDX first, CycloneDX second -/

/-- identifier, name and version of a package node that went through SPDX 2.3 and then through
    CycloneDX 1.`v` (`0.0.0` is what cyclonedx-go writes for a missing version below 1.4) -/
theorem spdx_then_cdx_scalars (v : Nat) (n : Node) (hid : n.id ≠ "") :
    (rtNode v (rtPkg n)).id = n.id ∧
    Node.str (rtNode v (rtPkg n)) "Name" = Node.str n "Name" ∧
    Node.str (rtNode v (rtPkg n)) "Version" =
      (if v < 4 ∧ Node.str n "Version" = "" then "0.0.0" else Node.str n "Version") := by
  refine ⟨?_, ?_, ?_⟩
  · rw [rtNode_id v (rtPkg n) (by rw [rtPkg_id]; exact hid), rtPkg_id]
  · rw [rtNode_str v (rtPkg n) "Name" (by simp [Schema.nodeAttrs])]
    simp only [compAttr, nodeToComponent, convComp]
    simp [rtPkg_name]
  · rw [rtNode_str v (rtPkg n) "Version" (by simp [Schema.nodeAttrs])]
    simp only [compAttr, nodeToComponent, convComp]
    simp [rtPkg_version]

/-- the hash map over the algorithms both formats have comes back entry for entry -/
theorem spdx_then_cdx_hashes (v : Nat) (n : Node)
    (hs : ∀ kv ∈ n.hashes, kv.1 ∈ spdxHashes) (hc : ∀ kv ∈ n.hashes, kv.1 ∈ cdxHashes)
    (hnd : (n.hashes.map (·.1)).Nodup) :
    (rtNode v (rtPkg n)).hashes = sortedByKey n.hashes := by
  show (rtNode v (rtPkg n)).mapAttr "Hashes" = _
  rw [rtNode_imap v (rtPkg n) "Hashes" (by simp [Schema.nodeAttrs])]
  simp only [compAttr, nodeToComponent, convComp]
  rw [rtPkg_hashes n hs hnd]
  have := compHashes_hashesOut (sortedByKey n.hashes) (sortedByKey_in _ _ hc) (sortedByKey_keys_nodup _ hnd)
  simp [this, sortedByKey_idem n.hashes hnd]

end Protobom.Cross

namespace Protobom.Cross
open Protobom Protobom.Spdx Protobom.Cdx Gen

/-- package URL and CPE: the identifier map that comes back holds the purl under key 1 and the
    CPE (2.3 before 2.2, CycloneDX has one member for it) under its key -/
theorem spdx_then_cdx_identifiers (v : Nat) (n : Node)
    (hr : ∀ e ∈ Node.refs n "ExternalReferences", e.typ ∈ spdxRefTypes ∧ e.url ≠ "")
    (hk : ∀ kv ∈ n.identifiers, kv.1 ∈ [1, 2, 3, 4]) (hnd : (n.identifiers.map (·.1)).Nodup) :
    (rtNode v (rtPkg n)).identifiers = compIds ((n.identifiers.lookup 1).getD "")
      ((n.identifiers.lookup 3).getD ((n.identifiers.lookup 2).getD "")) := by
  show (rtNode v (rtPkg n)).mapAttr "Identifiers" = _
  rw [rtNode_imap v (rtPkg n) "Identifiers" (by simp [Schema.nodeAttrs])]
  simp only [compAttr, nodeToComponent, convComp]
  rw [rtPkg_identifiers n hr hk hnd]
  simp only [lookup_sortedByKey n.identifiers hnd]
  cases n.identifiers.lookup 3 <;> simp

/-! ### CycloneDX first, SPDX second -/

theorem rtNode_hashes (v : Nat) (n : Node) (hc : ∀ kv ∈ n.hashes, kv.1 ∈ cdxHashes)
    (hnd : (n.hashes.map (·.1)).Nodup) : (rtNode v n).hashes = sortedByKey n.hashes := by
  show (rtNode v n).mapAttr "Hashes" = _
  rw [rtNode_imap v n "Hashes" (by simp [Schema.nodeAttrs])]
  simp only [compAttr, nodeToComponent, convComp]
  simp [compHashes_hashesOut n.hashes hc hnd]

theorem cdx_then_spdx_scalars (v : Nat) (n : Node) (hid : n.id ≠ "") :
    (rtPkg (rtNode v n)).id = n.id ∧
    Node.str (rtPkg (rtNode v n)) "Name" = Node.str n "Name" ∧
    Node.str (rtPkg (rtNode v n)) "Version" =
      (if v < 4 ∧ Node.str n "Version" = "" then "0.0.0" else Node.str n "Version") := by
  refine ⟨?_, ?_, ?_⟩
  · rw [rtPkg_id, rtNode_id v n hid]
  · rw [rtPkg_name, rtNode_str v n "Name" (by simp [Schema.nodeAttrs])]
    simp [compAttr, nodeToComponent, convComp]
  · rw [rtPkg_version, rtNode_str v n "Version" (by simp [Schema.nodeAttrs])]
    simp [compAttr, nodeToComponent, convComp]

theorem cdx_then_spdx_hashes (v : Nat) (n : Node)
    (hs : ∀ kv ∈ n.hashes, kv.1 ∈ spdxHashes) (hc : ∀ kv ∈ n.hashes, kv.1 ∈ cdxHashes)
    (hnd : (n.hashes.map (·.1)).Nodup) :
    (rtPkg (rtNode v n)).hashes = sortedByKey n.hashes := by
  have h1 := rtNode_hashes v n hc hnd
  rw [rtPkg_hashes (rtNode v n) (by rw [h1]; exact sortedByKey_in _ _ hs) (by rw [h1]; exact sortedByKey_keys_nodup _ hnd), h1]
  exact sortedByKey_idem n.hashes hnd

end Protobom.Cross
