/- `NodeDescendants`: level-bounded reachability. -/
import Protobom.Proofs.Reach

namespace Protobom

/-- existing targets of the edges leaving `x` (no special case for the empty identifier here) -/
def NodeList.targets (nl : NodeList) (x : String) : List String :=
  ((nl.edges.filter (·.src = x)).flatMap (·.tos)).filter (· ∈ nl.ids)

/-- `ReachIn nl s k z`: `z` is reached from `s` by `k` hops; a hop leaves `x` only if `x` is the
    start node or not a root element (another root is reached but never traversed through) -/
inductive ReachIn (nl : NodeList) (s : String) : Nat → String → Prop
  | zero : ReachIn nl s 0 s
  | succ {k x z} : ReachIn nl s k x → (x = s ∨ x ∉ nl.roots) → z ∈ nl.targets x → ReachIn nl s (k + 1) z

def Within (nl : NodeList) (s : String) (j : Nat) (z : String) : Prop := ∃ k, k ≤ j ∧ ReachIn nl s k z

theorem Within.mono {nl : NodeList} {s : String} {j j' : Nat} {z : String} (h : Within nl s j z)
    (hj : j ≤ j') : Within nl s j' z := let ⟨k, hk, hr⟩ := h; ⟨k, Nat.le_trans hk hj, hr⟩

/-- soundness of one level: seen nodes stay within `j` hops, the next frontier within `j + 1` -/
theorem descStep_sound (nl : NodeList) (s : String) (j : Nat) (st : List String × List String) (n : String)
    (hn : Within nl s j n) (h1 : ∀ z ∈ st.1, Within nl s j z) (h2 : ∀ z ∈ st.2, Within nl s (j + 1) z) :
    (∀ z ∈ (nl.descStep s st n).1, Within nl s j z) ∧
    (∀ z ∈ (nl.descStep s st n).2, Within nl s (j + 1) z) := by
  unfold NodeList.descStep
  split
  · exact ⟨h1, h2⟩
  · have hs1 : ∀ z ∈ n :: st.1, Within nl s j z := by
      intro z hz
      cases hz with
      | head => exact hn
      | tail _ h => exact h1 z h
    split
    · exact ⟨hs1, h2⟩
    · rename_i hroot
      refine ⟨hs1, ?_⟩
      intro z hz
      rcases List.mem_append.mp hz with h | h
      · exact h2 z h
      · obtain ⟨k, hk, hr⟩ := hn
        have hexp : n = s ∨ n ∉ nl.roots := by
          by_cases hns : n = s
          · exact Or.inl hns
          · exact Or.inr (fun hr' => hroot ⟨hr', hns⟩)
        have hz' : z ∈ nl.targets n := by
          simp only [List.mem_filter, decide_eq_true_eq] at h
          unfold NodeList.targets
          simp only [List.mem_filter, decide_eq_true_eq]
          exact ⟨h.1, h.2.2⟩
        exact ⟨k + 1, Nat.succ_le_succ hk, ReachIn.succ hr hexp hz'⟩

theorem descFold_sound (nl : NodeList) (s : String) (j : Nat) (frontier : List String)
    (st : List String × List String) (hf : ∀ n ∈ frontier, Within nl s j n)
    (h1 : ∀ z ∈ st.1, Within nl s j z) (h2 : ∀ z ∈ st.2, Within nl s (j + 1) z) :
    (∀ z ∈ (frontier.foldl (nl.descStep s) st).1, Within nl s j z) ∧
    (∀ z ∈ (frontier.foldl (nl.descStep s) st).2, Within nl s (j + 1) z) := by
  induction frontier generalizing st with
  | nil => exact ⟨h1, h2⟩
  | cons n ns ih =>
    simp only [List.foldl_cons]
    obtain ⟨a, b⟩ := descStep_sound nl s j st n (hf n List.mem_cons_self) h1 h2
    exact ih _ (fun m hm => hf m (List.mem_cons_of_mem _ hm)) a b

/-- after `d` levels starting at level `j`, everything seen is within `j + d - 1` hops -/
theorem descLoop_sound (nl : NodeList) (s : String) (d j : Nat) (frontier seen : List String)
    (hf : ∀ n ∈ frontier, Within nl s j n) (hs : ∀ z ∈ seen, ∃ k, k < j ∧ ReachIn nl s k z) :
    ∀ z ∈ nl.descLoop s d frontier seen, ∃ k, k < j + d ∧ ReachIn nl s k z := by
  induction d generalizing j frontier seen with
  | zero => intro z hz; obtain ⟨k, hk, hr⟩ := hs z hz; exact ⟨k, by omega, hr⟩
  | succ d ih =>
    simp only [NodeList.descLoop]
    have hs' : ∀ z ∈ seen, Within nl s j z := fun z hz =>
      let ⟨k, hk, hr⟩ := hs z hz; ⟨k, Nat.le_of_lt hk, hr⟩
    obtain ⟨a, b⟩ := descFold_sound nl s j frontier (seen, []) hf hs' (by simp)
    intro z hz
    have := ih (j + 1) _ _ b (fun z hz => let ⟨k, hk, hr⟩ := a z hz; ⟨k, Nat.lt_succ_of_le hk, hr⟩) z hz
    obtain ⟨k, hk, hr⟩ := this
    exact ⟨k, by omega, hr⟩

/-- every node returned by `NodeDescendants(id, depth)` is reached within fewer than `depth` hops -/
theorem nodeDescendants_sound (nl : NodeList) (id : String) (depth : Int) (z : String)
    (hz : z ∈ (nl.nodeDescendants id depth).ids) : ∃ k, k < depth.toNat ∧ ReachIn nl id k z := by
  unfold NodeList.nodeDescendants at hz
  split at hz
  · have hz' : z ∈ (nl.nodesOf (nl.descLoop id depth.toNat [id] [])).map (·.id) := hz
    rw [nodesOf_ids] at hz'
    have := descLoop_sound nl id depth.toNat 0 [id] []
      (fun n hn => by simp only [List.mem_singleton] at hn; subst hn; exact ⟨0, Nat.le_refl _, ReachIn.zero⟩)
      (by simp) z (List.mem_filter.mp hz').1
    simpa using this
  · simp [NodeList.ids] at hz

theorem nodeDescendants_roots (nl : NodeList) (id : String) (depth : Int) (r : String)
    (h : r ∈ (nl.nodeDescendants id depth).roots) : r = id := by
  unfold NodeList.nodeDescendants at h
  split at h
  · simp only [cleanEdges_roots] at h
    split at h
    · simpa using h
    · cases h
  · simp at h

theorem nodeDescendants_edges (nl : NodeList) (id : String) (depth : Int) (s : String) (t : Int) (d : String) :
    (nl.nodeDescendants id depth).HasEdge s t d ↔
      nl.HasEdge s t d ∧ s ∈ (nl.nodeDescendants id depth).ids ∧ d ∈ (nl.nodeDescendants id depth).ids := by
  unfold NodeList.nodeDescendants
  split
  · exact cleanEdges_rel _ s t d
  · simp [NodeList.HasEdge, HasEdgeL, NodeList.ids]

end Protobom

namespace Protobom

/-! ### completeness: everything within the depth is returned -/

def Expandable (nl : NodeList) (s x : String) : Prop := x = s ∨ x ∉ nl.roots

theorem reachIn_zero {nl : NodeList} {s z : String} (h : ReachIn nl s 0 z) : z = s := by
  cases h; rfl

theorem reachIn_succ {nl : NodeList} {s z : String} {k : Nat} (h : ReachIn nl s (k + 1) z) :
    ∃ x, ReachIn nl s k x ∧ Expandable nl s x ∧ z ∈ nl.targets x := by
  cases h with
  | succ hr he ht => exact ⟨_, hr, he, ht⟩

theorem reachIn_mem_ids {nl : NodeList} {s z : String} {k : Nat} (hs : s ∈ nl.ids) (h : ReachIn nl s k z) :
    z ∈ nl.ids := by
  cases h with
  | zero => exact hs
  | succ _ _ ht =>
    unfold NodeList.targets at ht
    simpa using (List.mem_filter.mp ht).2

/-- closure of the seen set relative to what is still pending at this level -/
def DescClosed (nl : NodeList) (s : String) (st : List String × List String) (F : List String) : Prop :=
  ∀ x ∈ st.1, Expandable nl s x → ∀ z ∈ nl.targets x, z ∈ st.1 ∨ z ∈ st.2 ∨ z ∈ F

theorem descStep_mono (nl : NodeList) (s : String) (st : List String × List String) (n : String) :
    (∀ z ∈ st.1, z ∈ (nl.descStep s st n).1) ∧ (∀ z ∈ st.2, z ∈ (nl.descStep s st n).2) ∧
    n ∈ (nl.descStep s st n).1 := by
  unfold NodeList.descStep
  split
  · rename_i h; exact ⟨fun _ h' => h', fun _ h' => h', h⟩
  · split
    · exact ⟨fun z hz => List.mem_cons_of_mem _ hz, fun _ h' => h', List.mem_cons_self⟩
    · exact ⟨fun z hz => List.mem_cons_of_mem _ hz, fun z hz => List.mem_append.mpr (Or.inl hz),
             List.mem_cons_self⟩

theorem descStep_closed (nl : NodeList) (s : String) (st : List String × List String) (n : String)
    (F : List String) (h : DescClosed nl s st F) : DescClosed nl s (nl.descStep s st n) F := by
  unfold NodeList.descStep
  split
  · exact h
  · split
    · rename_i hroot
      intro x hx hexp z hz
      cases hx with
      | head =>
        exfalso
        rcases hexp with h1 | h1
        · exact hroot.2 h1
        · exact h1 hroot.1
      | tail _ hx' =>
        rcases h x hx' hexp z hz with h1 | h1 | h1
        · exact Or.inl (List.mem_cons_of_mem _ h1)
        · exact Or.inr (Or.inl h1)
        · exact Or.inr (Or.inr h1)
    · intro x hx hexp z hz
      cases hx with
      | head =>
        by_cases hzs : z ∈ n :: st.1
        · exact Or.inl hzs
        · refine Or.inr (Or.inl (List.mem_append.mpr (Or.inr ?_)))
          unfold NodeList.targets at hz
          simp only [List.mem_filter, decide_eq_true_eq] at hz ⊢
          exact ⟨hz.1, hzs, hz.2⟩
      | tail _ hx' =>
        rcases h x hx' hexp z hz with h1 | h1 | h1
        · exact Or.inl (List.mem_cons_of_mem _ h1)
        · exact Or.inr (Or.inl (List.mem_append.mpr (Or.inl h1)))
        · exact Or.inr (Or.inr h1)

theorem descFold_complete (nl : NodeList) (s : String) (F : List String) (front : List String)
    (st : List String × List String) (h : DescClosed nl s st F) :
    DescClosed nl s (front.foldl (nl.descStep s) st) F ∧
    (∀ z ∈ st.1, z ∈ (front.foldl (nl.descStep s) st).1) ∧
    (∀ n ∈ front, n ∈ (front.foldl (nl.descStep s) st).1) := by
  induction front generalizing st with
  | nil => exact ⟨h, fun _ hz => hz, by simp⟩
  | cons n ns ih =>
    simp only [List.foldl_cons]
    obtain ⟨m1, _, m3⟩ := descStep_mono nl s st n
    obtain ⟨c, a, b⟩ := ih (nl.descStep s st n) (descStep_closed nl s st n F h)
    refine ⟨c, fun z hz => a z (m1 z hz), ?_⟩
    intro m hm
    cases hm with
    | head => exact a _ m3
    | tail _ hm' => exact b m hm'

theorem descLoop_complete (nl : NodeList) (s : String) (d j : Nat) (frontier seen : List String)
    (hI : DescClosed nl s (seen, []) frontier)
    (hA : ∀ k, k < j → ∀ z, ReachIn nl s k z → z ∈ seen)
    (hB : ∀ z, ReachIn nl s j z → z ∈ seen ∨ z ∈ frontier) :
    ∀ k, k < j + d → ∀ z, ReachIn nl s k z → z ∈ nl.descLoop s d frontier seen := by
  induction d generalizing j frontier seen with
  | zero => intro k hk z hz; exact hA k (by omega) z hz
  | succ d ih =>
    simp only [NodeList.descLoop]
    obtain ⟨c, a, b⟩ := descFold_complete nl s frontier frontier (seen, []) hI
    -- invariants at the next level
    have hA' : ∀ k, k < j + 1 → ∀ z, ReachIn nl s k z →
        z ∈ (frontier.foldl (nl.descStep s) (seen, [])).1 := by
      intro k hk z hz
      by_cases hkj : k < j
      · exact a z (hA k hkj z hz)
      · have : k = j := by omega
        subst this
        rcases hB z hz with h1 | h1
        · exact a z h1
        · exact b z h1
    have hI' : DescClosed nl s ((frontier.foldl (nl.descStep s) (seen, [])).1, [])
        (frontier.foldl (nl.descStep s) (seen, [])).2 := by
      intro x hx hexp z hz
      rcases c x hx hexp z hz with h1 | h1 | h1
      · exact Or.inl h1
      · exact Or.inr (Or.inr h1)
      · exact Or.inl (b z h1)
    have hB' : ∀ z, ReachIn nl s (j + 1) z →
        z ∈ (frontier.foldl (nl.descStep s) (seen, [])).1 ∨
        z ∈ (frontier.foldl (nl.descStep s) (seen, [])).2 := by
      intro z hz
      obtain ⟨x, hx, hexp, hzt⟩ := reachIn_succ hz
      rcases hI' x (hA' j (Nat.lt_succ_self j) x hx) hexp z hzt with h1 | h1 | h1
      · exact Or.inl h1
      · cases h1
      · exact Or.inr h1
    intro k hk z hz
    exact ih (j + 1) _ _ hI' hA' hB' k (by omega) z hz

/-- the nodes returned by `NodeDescendants(id, depth)` are exactly those reached within fewer
    than `depth` hops (the start node is level one) -/
theorem nodeDescendants_ids (nl : NodeList) (id : String) (depth : Int) (hin : id ∈ nl.ids) (z : String) :
    z ∈ (nl.nodeDescendants id depth).ids ↔ ∃ k, k < depth.toNat ∧ ReachIn nl id k z := by
  constructor
  · exact nodeDescendants_sound nl id depth z
  · rintro ⟨k, hk, hr⟩
    unfold NodeList.nodeDescendants
    simp only [hin, if_true]
    show z ∈ (nl.nodesOf _).map (·.id)
    rw [nodesOf_ids, List.mem_filter]
    refine ⟨?_, decide_eq_true (reachIn_mem_ids hin hr)⟩
    have := descLoop_complete nl id depth.toNat 0 [id] []
      (by intro x hx; cases hx) (by intro k hk; omega)
      (by intro z hz; exact Or.inr (by rw [reachIn_zero hz]; exact List.mem_singleton.mpr rfl))
    exact this k (by omega) z hr

end Protobom
