/- `NodeDescendants`: level-bounded reachability. -/
import Protobom.Proofs.Reach

namespace Protobom

/-- existing targets of the edges leaving `x` (no special case for the empty identifier here) -/
def NodeList.targets (nl : NodeList) (x : String) : List String :=
  ((nl.edges.filter (·.src = x)).flatMap (·.tos)).filter (· ∈ nl.ids)

/-- `ReachIn nl s k z`: `z` is reached from `s` by `k` hops; a hop leaves `x` only if `x` is the
    start node or not a root element (another root is reached but never traversed through) -/
inductive ReachIn (nl : NodeList) (s : String) : Nat → String → Prop
  | zero : ReachIn nl s 0 s
  | succ {k x z} : ReachIn nl s k x → (x = s ∨ x ∉ nl.roots) → z ∈ nl.targets x → ReachIn nl s (k + 1) z

def Within (nl : NodeList) (s : String) (j : Nat) (z : String) : Prop := ∃ k, k ≤ j ∧ ReachIn nl s k z

theorem Within.mono {nl : NodeList} {s : String} {j j' : Nat} {z : String} (h : Within nl s j z)
    (hj : j ≤ j') : Within nl s j' z := let ⟨k, hk, hr⟩ := h; ⟨k, Nat.le_trans hk hj, hr⟩

/-- soundness of one level: seen nodes stay within `j` hops, the next frontier within `j + 1` -/
theorem descStep_sound (nl : NodeList) (s : String) (j : Nat) (st : List String × List String) (n : String)
    (hn : Within nl s j n) (h1 : ∀ z ∈ st.1, Within nl s j z) (h2 : ∀ z ∈ st.2, Within nl s (j + 1) z) :
    (∀ z ∈ (nl.descStep s st n).1, Within nl s j z) ∧
    (∀ z ∈ (nl.descStep s st n).2, Within nl s (j + 1) z) := by
  unfold NodeList.descStep
  split
  · exact ⟨h1, h2⟩
  · have hs1 : ∀ z ∈ n :: st.1, Within nl s j z := by
      intro z hz
      cases hz with
      | head => exact hn
      | tail _ h => exact h1 z h
    split
    · exact ⟨hs1, h2⟩
    · rename_i hroot
      refine ⟨hs1, ?_⟩
      intro z hz
      rcases List.mem_append.mp hz with h | h
      · exact h2 z h
      · obtain ⟨k, hk, hr⟩ := hn
        have hexp : n = s ∨ n ∉ nl.roots := by
          by_cases hns : n = s
          · exact Or.inl hns
          · exact Or.inr (fun hr' => hroot ⟨hr', hns⟩)
        have hz' : z ∈ nl.targets n := by
          simp only [List.mem_filter, decide_eq_true_eq] at h
          unfold NodeList.targets
          simp only [List.mem_filter, decide_eq_true_eq]
          exact ⟨h.1, h.2.2⟩
        exact ⟨k + 1, Nat.succ_le_succ hk, ReachIn.succ hr hexp hz'⟩

theorem descFold_sound (nl : NodeList) (s : String) (j : Nat) (frontier : List String)
    (st : List String × List String) (hf : ∀ n ∈ frontier, Within nl s j n)
    (h1 : ∀ z ∈ st.1, Within nl s j z) (h2 : ∀ z ∈ st.2, Within nl s (j + 1) z) :
    (∀ z ∈ (frontier.foldl (nl.descStep s) st).1, Within nl s j z) ∧
    (∀ z ∈ (frontier.foldl (nl.descStep s) st).2, Within nl s (j + 1) z) := by
  induction frontier generalizing st with
  | nil => exact ⟨h1, h2⟩
  | cons n ns ih =>
    simp only [List.foldl_cons]
    obtain ⟨a, b⟩ := descStep_sound nl s j st n (hf n List.mem_cons_self) h1 h2
    exact ih _ (fun m hm => hf m (List.mem_cons_of_mem _ hm)) a b

/-- after `d` levels starting at level `j`, everything seen is within `j + d - 1` hops -/
theorem descLoop_sound (nl : NodeList) (s : String) (d j : Nat) (frontier seen : List String)
    (hf : ∀ n ∈ frontier, Within nl s j n) (hs : ∀ z ∈ seen, ∃ k, k < j ∧ ReachIn nl s k z) :
    ∀ z ∈ nl.descLoop s d frontier seen, ∃ k, k < j + d ∧ ReachIn nl s k z := by
  induction d generalizing j frontier seen with
  | zero => intro z hz; obtain ⟨k, hk, hr⟩ := hs z hz; exact ⟨k, by omega, hr⟩
  | succ d ih =>
    simp only [NodeList.descLoop]
    have hs' : ∀ z ∈ seen, Within nl s j z := fun z hz =>
      let ⟨k, hk, hr⟩ := hs z hz; ⟨k, Nat.le_of_lt hk, hr⟩
    obtain ⟨a, b⟩ := descFold_sound nl s j frontier (seen, []) hf hs' (by simp)
    intro z hz
    have := ih (j + 1) _ _ b (fun z hz => let ⟨k, hk, hr⟩ := a z hz; ⟨k, Nat.lt_succ_of_le hk, hr⟩) z hz
    obtain ⟨k, hk, hr⟩ := this
    exact ⟨k, by omega, hr⟩

/-- every node returned by `NodeDescendants(id, depth)` is reached within fewer than `depth` hops -/
theorem nodeDescendants_sound (nl : NodeList) (id : String) (depth : Int) (z : String)
    (hz : z ∈ (nl.nodeDescendants id depth).ids) : ∃ k, k < depth.toNat ∧ ReachIn nl id k z := by
  unfold NodeList.nodeDescendants at hz
  split at hz
  · have hz' : z ∈ (nl.nodesOf (nl.descLoop id depth.toNat [id] [])).map (·.id) := hz
    rw [nodesOf_ids] at hz'
    have := descLoop_sound nl id depth.toNat 0 [id] []
      (fun n hn => by simp only [List.mem_singleton] at hn; subst hn; exact ⟨0, Nat.le_refl _, ReachIn.zero⟩)
      (by simp) z (List.mem_filter.mp hz').1
    simpa using this
  · simp [NodeList.ids] at hz

theorem nodeDescendants_roots (nl : NodeList) (id : String) (depth : Int) (r : String)
    (h : r ∈ (nl.nodeDescendants id depth).roots) : r = id := by
  unfold NodeList.nodeDescendants at h
  split at h
  · simp only [cleanEdges_roots] at h
    split at h
    · simpa using h
    · cases h
  · simp at h

theorem nodeDescendants_edges (nl : NodeList) (id : String) (depth : Int) (s : String) (t : Int) (d : String) :
    (nl.nodeDescendants id depth).HasEdge s t d ↔
      nl.HasEdge s t d ∧ s ∈ (nl.nodeDescendants id depth).ids ∧ d ∈ (nl.nodeDescendants id depth).ids := by
  unfold NodeList.nodeDescendants
  split
  · exact cleanEdges_rel _ s t d
  · simp [NodeList.HasEdge, HasEdgeL, NodeList.ids]

end Protobom
