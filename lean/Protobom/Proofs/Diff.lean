/- `Node.Diff`: soundness, completeness, count and reconstruction, helper by helper. -/
import Protobom.Proofs.Equal

namespace Protobom
open Gen

def Val.hasKind : Kind → Val → Prop
  | .str, .str _ | .strs, .strs _ | .enums, .enums _ | .imap, .imap m => True
  | .date, .date _ | .persons, .persons _ | .refs, .refs _ => True
  | _, _ => False

/-- the attribute equivalence of the property: sets for list-valued attributes (persons and
    references by flattened content), maps as maps, dates to the second -/
def attrEq : Kind → Val → Val → Prop
  | .str, .str a, .str b => a = b
  | .strs, .strs a, .strs b => ∀ x, x ∈ a ↔ x ∈ b
  | .enums, .enums a, .enums b => ∀ x, x ∈ a ↔ x ∈ b
  | .imap, .imap a, .imap b => ∀ k, a.lookup k = b.lookup k
  | .date, .date a, .date b => a.map (·.1) = b.map (·.1)
  | .persons, .persons a, .persons b => ∀ s, s ∈ a.map Person.flat ↔ s ∈ b.map Person.flat
  | .refs, .refs a, .refs b => ∀ s, s ∈ a.map ExtRef.flat ↔ s ∈ b.map ExtRef.flat
  | _, _, _ => False

def KeyUnique (m : List (Int × String)) : Prop := (m.map (·.1)).Nodup

/-- maps are key-unique (they model Go maps) -/
def Val.wellFormed : Val → Prop
  | .imap m => KeyUnique m
  | _ => True

/-! ### scalar -/

theorem diffStr_zero (a b : String) : (diffStr a b).2.2 = 0 ↔ a = b := by
  unfold diffStr
  by_cases h : a = b
  · simp [h]
  · by_cases hb : b = ""
    · subst hb; simp [h]
    · simp [h, hb]

theorem diffStr_le (a b : String) : (diffStr a b).2.2 ≤ 1 := by
  unfold diffStr
  by_cases h : a = b
  · simp [h]
  · by_cases hb : b = ""
    · subst hb; simp [h]
    · simp [h, hb]

theorem diffStr_apply (a b : String) :
    (if (diffStr a b).1 ≠ "" then (diffStr a b).1 else if (diffStr a b).2.1 ≠ "" then "" else a) = b := by
  unfold diffStr
  by_cases h : a = b
  · simp [h]
  · by_cases hb : b = ""
    · subst hb; simp [h]
    · simp [h, hb]

theorem diffInt_zero (a b : Int) : (diffInt a b).2.2 = 0 ↔ a = b := by
  unfold diffInt
  by_cases h : a = b
  · simp [h]
  · by_cases hb : b = 0
    · subst hb; simp [h]
    · simp [h, hb]

theorem diffInt_apply (a b : Int) :
    (if (diffInt a b).1 ≠ 0 then (diffInt a b).1 else if (diffInt a b).2.1 ≠ 0 then 0 else a) = b := by
  unfold diffInt
  by_cases h : a = b
  · simp [h]
  · by_cases hb : b = 0
    · subst hb; simp [h]
    · simp [h, hb]

/-! ### sets -/

theorem filter_isEmpty_iff {α} (p : α → Bool) (l : List α) : (l.filter p).isEmpty = true ↔ ∀ x ∈ l, p x = false := by
  rw [List.isEmpty_iff, List.filter_eq_nil_iff]
  constructor
  · intro h x hx; simpa using h x hx
  · intro h x hx; simp [h x hx]

theorem diffListBy_zero {α} (flat : α → String) (a b : List α) :
    (diffListBy flat a b).2.2 = 0 ↔ ∀ s, s ∈ a.map flat ↔ s ∈ b.map flat := by
  unfold diffListBy
  simp only
  split
  · rename_i h
    simp only [List.isEmpty_iff] at h
    simp only [true_iff]
    have h1 := List.filter_eq_nil_iff.mp h.1
    have h2 := List.filter_eq_nil_iff.mp h.2
    intro s
    constructor
    · intro hs
      obtain ⟨x, hx, rfl⟩ := List.mem_map.mp hs
      have := h2 x hx; simpa using this
    · intro hs
      obtain ⟨x, hx, rfl⟩ := List.mem_map.mp hs
      have := h1 x hx; simpa using this
  · rename_i h
    simp only [Nat.succ_ne_zero, false_iff, reduceCtorEq]
    intro hs
    apply h
    simp only [List.isEmpty_iff, List.filter_eq_nil_iff]
    constructor
    · intro x hx
      simpa using (hs (flat x)).mpr (List.mem_map.mpr ⟨x, hx, rfl⟩)
    · intro x hx
      simpa using (hs (flat x)).mp (List.mem_map.mpr ⟨x, hx, rfl⟩)

theorem diffListBy_le {α} (flat : α → String) (a b : List α) : (diffListBy flat a b).2.2 ≤ 1 := by
  unfold diffListBy; simp only; split <;> simp

theorem diffListBy_apply {α} (flat : α → String) (a b : List α) (s : String) :
    s ∈ (a.filter (fun x => flat x ∉ (diffListBy flat a b).2.1.map flat) ++ (diffListBy flat a b).1).map flat ↔
      s ∈ b.map flat := by
  unfold diffListBy
  simp only [List.map_append, List.mem_append, List.mem_map, List.mem_filter, decide_eq_true_eq]
  constructor
  · rintro (⟨x, ⟨hx, hnr⟩, rfl⟩ | ⟨x, ⟨hx, _⟩, rfl⟩)
    · apply Classical.byContradiction
      intro hnb
      exact hnr ⟨x, ⟨hx, by simpa using hnb⟩, rfl⟩
    · exact ⟨x, hx, rfl⟩
  · rintro ⟨x, hx, rfl⟩
    by_cases hin : ∃ y ∈ a, flat y = flat x
    · obtain ⟨y, hy, hyx⟩ := hin
      left
      refine ⟨y, ⟨hy, ?_⟩, hyx⟩
      rintro ⟨z, ⟨_, hz⟩, hzy⟩
      apply hz
      rw [hzy, hyx]; exact ⟨x, hx, rfl⟩
    · right
      exact ⟨x, ⟨hx, fun h => hin (by obtain ⟨y, hy, e⟩ := h; exact ⟨y, hy, e⟩)⟩, rfl⟩

theorem diffSliceL_eq {α} [DecidableEq α] (a b : List α) :
    diffSliceL a b = ((b.filter (· ∉ a)), (a.filter (· ∉ b)),
      if (b.filter (· ∉ a)).isEmpty ∧ (a.filter (· ∉ b)).isEmpty then 0 else 1) := rfl

theorem diffSliceL_zero {α} [DecidableEq α] (a b : List α) :
    (diffSliceL a b).2.2 = 0 ↔ ∀ x, x ∈ a ↔ x ∈ b := by
  unfold diffSliceL
  simp only
  split
  · rename_i h
    simp only [List.isEmpty_iff] at h
    have h1 := List.filter_eq_nil_iff.mp h.1
    have h2 := List.filter_eq_nil_iff.mp h.2
    simp only [true_iff]
    intro x
    exact ⟨fun hx => by simpa using h2 x hx, fun hx => by simpa using h1 x hx⟩
  · rename_i h
    simp only [Nat.succ_ne_zero, false_iff, reduceCtorEq]
    intro hs
    apply h
    simp only [List.isEmpty_iff, List.filter_eq_nil_iff]
    exact ⟨fun x hx => by simpa using (hs x).mpr hx, fun x hx => by simpa using (hs x).mp hx⟩

theorem diffSliceL_le {α} [DecidableEq α] (a b : List α) : (diffSliceL a b).2.2 ≤ 1 := by
  unfold diffSliceL; simp only; split <;> simp

theorem diffSliceL_apply {α} [DecidableEq α] (a b : List α) (x : α) :
    x ∈ a.filter (· ∉ (diffSliceL a b).2.1) ++ (diffSliceL a b).1 ↔ x ∈ b := by
  unfold diffSliceL
  simp only [List.mem_append, List.mem_filter, decide_eq_true_eq]
  constructor
  · rintro (⟨hx, hnr⟩ | ⟨hx, _⟩)
    · apply Classical.byContradiction
      intro hnb; exact hnr ⟨hx, hnb⟩
    · exact hx
  · intro hx
    by_cases hin : x ∈ a
    · left; exact ⟨hin, fun h => h.2 hx⟩
    · right; exact ⟨hx, hin⟩

/-! ### dates -/

theorem diffDate_zero (a b : Option (Int × Int)) : (diffDate a b).2.2 = 0 ↔ a.map (·.1) = b.map (·.1) := by
  unfold diffDate
  cases a <;> cases b <;> simp
  rename_i x y
  split <;> simp [*]

theorem diffDate_le (a b : Option (Int × Int)) : (diffDate a b).2.2 ≤ 1 := by
  unfold diffDate
  cases a <;> cases b <;> simp
  split <;> simp

theorem diffDate_apply (a b : Option (Int × Int)) :
    (if (diffDate a b).1.isSome then (diffDate a b).1 else if (diffDate a b).2.1.isSome then none else a).map (·.1)
      = b.map (·.1) := by
  unfold diffDate
  cases a <;> cases b <;> simp
  rename_i x y
  obtain ⟨x1, x2⟩ := x
  obtain ⟨y1, y2⟩ := y
  by_cases h : x1 = y1 <;> simp [h]

/-! ### maps -/

theorem lookup_filter_none {β} (l : List (Int × β)) (p : Int × β → Bool) (k : Int)
    (h : ∀ kv ∈ l, kv.1 = k → p kv = false) : (l.filter p).lookup k = none := by
  induction l with
  | nil => rfl
  | cons x xs ih =>
    obtain ⟨xk, xv⟩ := x
    simp only [List.filter_cons]
    by_cases hp : p (xk, xv) = true
    · simp only [hp, if_true, List.lookup_cons]
      have : ¬ k = xk := fun e => by
        have := h (xk, xv) List.mem_cons_self e.symm
        rw [hp] at this; cases this
      have e : (k == xk) = false := by simpa using this
      simp only [e]
      exact ih (fun kv hkv => h kv (List.mem_cons_of_mem _ hkv))
    · simp only [hp, Bool.false_eq_true, if_false]
      exact ih (fun kv hkv => h kv (List.mem_cons_of_mem _ hkv))

theorem lookup_filter_key {β} (l : List (Int × β)) (q : Int → Bool) (k : Int) (hq : q k = true) :
    (l.filter (fun kv => q kv.1)).lookup k = l.lookup k := by
  induction l with
  | nil => rfl
  | cons x xs ih =>
    obtain ⟨xk, xv⟩ := x
    simp only [List.filter_cons, List.lookup_cons]
    by_cases e : k = xk
    · subst e
      simp [hq]
    · have e' : (k == xk) = false := by simpa using e
      by_cases hx : q xk = true
      · simp only [hx, if_true, List.lookup_cons, e']; exact ih
      · simp only [hx, Bool.false_eq_true, if_false, e']; exact ih

theorem lookup_append {β} (l₁ l₂ : List (Int × β)) (k : Int) :
    (l₁ ++ l₂).lookup k = (l₁.lookup k).or (l₂.lookup k) := by
  induction l₁ with
  | nil => simp
  | cons x xs ih =>
    obtain ⟨xk, xv⟩ := x
    simp only [List.cons_append, List.lookup_cons]
    split <;> simp [ih]

theorem lookup_some_of_mem_unique (m : List (Int × String)) (h : KeyUnique m) (kv : Int × String) (hm : kv ∈ m) :
    m.lookup kv.1 = some kv.2 := lookup_of_mem m h kv hm

theorem diffMapL_zero (a b : List (Int × String)) (ha : KeyUnique a) (hb : KeyUnique b) :
    (diffMapL a b).2.2 = 0 ↔ ∀ k, a.lookup k = b.lookup k := by
  unfold diffMapL
  simp only
  split
  · rename_i h
    simp only [List.isEmpty_iff] at h
    have h1 := List.filter_eq_nil_iff.mp h.1
    have h2 := List.filter_eq_nil_iff.mp h.2
    simp only [true_iff]
    intro k
    cases hbk : b.lookup k with
    | some v =>
      have := h1 (k, v) (mem_of_lookup b k v hbk)
      simpa using this
    | none =>
      cases hak : a.lookup k with
      | none => rfl
      | some w =>
        have := h2 (k, w) (mem_of_lookup a k w hak)
        simp [hbk] at this
  · rename_i h
    simp only [Nat.succ_ne_zero, false_iff, reduceCtorEq]
    intro hs
    apply h
    simp only [List.isEmpty_iff, List.filter_eq_nil_iff]
    constructor
    · intro kv hkv
      have := lookup_of_mem b hb kv hkv
      simp [hs, this]
    · intro kv hkv
      have := lookup_of_mem a ha kv hkv
      rw [hs] at this
      simp [this]

theorem diffMapL_le (a b : List (Int × String)) : (diffMapL a b).2.2 ≤ 1 := by
  unfold diffMapL; simp only; split <;> simp

theorem diffMapL_apply (a b : List (Int × String)) (ha : KeyUnique a) (hb : KeyUnique b) (k : Int) :
    ((diffMapL a b).1 ++ a.filter (fun kv => ((diffMapL a b).1.lookup kv.1).isNone ∧
        ((diffMapL a b).2.1.lookup kv.1).isNone)).lookup k = b.lookup k := by
  unfold diffMapL
  simp only
  rw [lookup_append]
  -- the added entries are a key-unique sub-map of b
  have hadd_unique : KeyUnique (b.filter (fun kv => a.lookup kv.1 ≠ some kv.2)) :=
    List.Nodup.sublist (List.Sublist.map _ List.filter_sublist) hb
  have hrem_unique : KeyUnique (a.filter (fun kv => (b.lookup kv.1).isNone)) :=
    List.Nodup.sublist (List.Sublist.map _ List.filter_sublist) ha
  cases hbk : b.lookup k with
  | some v =>
    by_cases hav : a.lookup k = some v
    · -- unchanged entry: not added, not removed, kept from the old map
      have hadd : (b.filter (fun kv => a.lookup kv.1 ≠ some kv.2)).lookup k = none := by
        apply lookup_filter_none
        intro kv hkv hk
        have := lookup_of_mem b hb kv hkv
        rw [hk, hbk] at this
        cases this
        simp [hk ▸ hav]
      have hrem : (a.filter (fun kv => (b.lookup kv.1).isNone)).lookup k = none := by
        apply lookup_filter_none
        intro kv _ hk
        simp [hk, hbk]
      rw [hadd, Option.none_or]
      have := lookup_filter_key a (fun k' => decide (((b.filter (fun kv => a.lookup kv.1 ≠ some kv.2)).lookup k').isNone = true ∧
            ((a.filter (fun kv => (b.lookup kv.1).isNone)).lookup k').isNone = true)) k
            (decide_eq_true ⟨by rw [hadd]; rfl, by rw [hrem]; rfl⟩)
      rw [this]
      exact hav
    · have hmem : (k, v) ∈ b.filter (fun kv => a.lookup kv.1 ≠ some kv.2) := by
        simp only [List.mem_filter, decide_eq_true_eq]
        exact ⟨mem_of_lookup b k v hbk, hav⟩
      rw [lookup_of_mem _ hadd_unique (k, v) hmem]
      rfl
  | none =>
    have hadd : (b.filter (fun kv => a.lookup kv.1 ≠ some kv.2)).lookup k = none := by
      apply lookup_filter_none
      intro kv hkv hk
      have := lookup_of_mem b hb kv hkv
      rw [hk, hbk] at this
      cases this
    rw [hadd, Option.none_or]
    apply lookup_filter_none
    intro kv hkv hk
    have hrem : (a.filter (fun kv => (b.lookup kv.1).isNone)).lookup kv.1 = some kv.2 := by
      apply lookup_of_mem _ hrem_unique kv
      simp only [List.mem_filter]
      exact ⟨hkv, by simp [hk, hbk]⟩
    simp [hrem]

end Protobom

namespace Protobom
open Gen

/-! ### one attribute -/

theorem diffVal_zero (k : Kind) (a b : Val) (ha : a.hasKind k) (hb : b.hasKind k)
    (wa : a.wellFormed) (wb : b.wellFormed) : (diffVal k a b).2.2 = 0 ↔ attrEq k a b := by
  cases k <;> cases a <;> cases b <;> simp only [Val.hasKind] at ha hb <;>
    simp only [diffVal, attrEq]
  · exact diffStr_zero _ _
  · exact diffSliceL_zero _ _
  · exact diffSliceL_zero _ _
  · exact diffMapL_zero _ _ wa wb
  · exact diffDate_zero _ _
  · exact diffListBy_zero _ _ _
  · exact diffListBy_zero _ _ _

theorem diffVal_le (k : Kind) (a b : Val) : (diffVal k a b).2.2 ≤ 1 := by
  cases k <;> cases a <;> cases b <;> simp only [diffVal] <;>
    first
      | exact diffStr_le _ _
      | exact diffSliceL_le _ _
      | exact diffMapL_le _ _
      | exact diffDate_le _ _
      | exact diffListBy_le _ _ _
      | simp

theorem diffVal_apply (k : Kind) (a b : Val) (ha : a.hasKind k) (hb : b.hasKind k)
    (wa : a.wellFormed) (wb : b.wellFormed) :
    attrEq k (applyVal k a (diffVal k a b).1 (diffVal k a b).2.1) b := by
  cases k <;> cases a <;> cases b <;> simp only [Val.hasKind] at ha hb <;>
    simp only [diffVal, applyVal, attrEq]
  · exact diffStr_apply _ _
  · exact diffSliceL_apply _ _
  · exact diffSliceL_apply _ _
  · exact diffMapL_apply _ _ wa wb
  · exact diffDate_apply _ _
  · exact diffListBy_apply Person.flat _ _
  · exact diffListBy_apply ExtRef.flat _ _

/-! ### all attributes of a node -/

/-- the attribute list follows the schema: right length, right kinds, key-unique maps -/
def AttrsTyped : List (String × Kind) → List Val → Prop
  | [], [] => True
  | (_, k) :: fs, v :: vs => v.hasKind k ∧ v.wellFormed ∧ AttrsTyped fs vs
  | _, _ => False

def Node.typed (n : Node) : Prop := AttrsTyped Schema.nodeAttrs n.attrs

def AttrsEq : List (String × Kind) → List Val → List Val → Prop
  | [], [], [] => True
  | (_, k) :: fs, a :: as, b :: bs => attrEq k a b ∧ AttrsEq fs as bs
  | _, _, _ => False

/-- `cs` holds, per attribute, 0 when the attribute agrees and 1 when it differs -/
def CountsSpec : List (String × Kind) → List Val → List Val → List Nat → Prop
  | [], [], [], [] => True
  | (_, k) :: fs, a :: as, b :: bs, c :: cs => (c ≤ 1 ∧ (c = 0 ↔ attrEq k a b)) ∧ CountsSpec fs as bs cs
  | _, _, _, _ => False

theorem diffAttrs_counts (fs : List (String × Kind)) (as bs : List Val)
    (hcov : ∀ fk ∈ fs, diffHandles fk.1 fk.2 = true) (ha : AttrsTyped fs as) (hb : AttrsTyped fs bs) :
    CountsSpec fs as bs ((diffAttrs fs as bs).map (·.2.2)) := by
  induction fs generalizing as bs with
  | nil =>
    cases as <;> cases bs <;> simp_all [AttrsTyped, CountsSpec, diffAttrs]
  | cons f fs ih =>
    obtain ⟨fn, k⟩ := f
    cases as with
    | nil => simp [AttrsTyped] at ha
    | cons a as =>
      cases bs with
      | nil => simp [AttrsTyped] at hb
      | cons b bs =>
        simp only [AttrsTyped] at ha hb
        have hc : diffHandles fn k = true := hcov (fn, k) List.mem_cons_self
        simp only [diffAttrs, hc, if_true, List.map_cons, CountsSpec]
        exact ⟨⟨diffVal_le k a b, diffVal_zero k a b ha.1 hb.1 ha.2.1 hb.2.1⟩,
               ih as bs (fun fk h => hcov fk (List.mem_cons_of_mem _ h)) ha.2.2 hb.2.2⟩

theorem counts_sum_zero (fs : List (String × Kind)) (as bs : List Val) (cs : List Nat)
    (h : CountsSpec fs as bs cs) : cs.sum = 0 ↔ AttrsEq fs as bs := by
  induction fs generalizing as bs cs with
  | nil => cases as <;> cases bs <;> cases cs <;> simp_all [CountsSpec, AttrsEq]
  | cons f fs ih =>
    obtain ⟨fn, k⟩ := f
    cases as with
    | nil => simp [CountsSpec] at h
    | cons a as =>
      cases bs with
      | nil => simp [CountsSpec] at h
      | cons b bs =>
        cases cs with
        | nil => simp [CountsSpec] at h
        | cons c cs =>
          simp only [CountsSpec] at h
          simp only [List.sum_cons, AttrsEq]
          rw [← ih as bs cs h.2, ← h.1.2]
          omega

theorem diffAttrs_apply (fs : List (String × Kind)) (as bs : List Val)
    (hcov : ∀ fk ∈ fs, diffHandles fk.1 fk.2 = true) (ha : AttrsTyped fs as) (hb : AttrsTyped fs bs) :
    AttrsEq fs (applyAttrs fs as ((diffAttrs fs as bs).map (·.1)) ((diffAttrs fs as bs).map (·.2.1))) bs := by
  induction fs generalizing as bs with
  | nil => cases as <;> cases bs <;> simp_all [AttrsTyped, AttrsEq, applyAttrs, diffAttrs]
  | cons f fs ih =>
    obtain ⟨fn, k⟩ := f
    cases as with
    | nil => simp [AttrsTyped] at ha
    | cons a as =>
      cases bs with
      | nil => simp [AttrsTyped] at hb
      | cons b bs =>
        simp only [AttrsTyped] at ha hb
        have hc : diffHandles fn k = true := hcov (fn, k) List.mem_cons_self
        simp only [diffAttrs, hc, if_true, List.map_cons, applyAttrs, AttrsEq]
        exact ⟨diffVal_apply k a b ha.1 hb.1 ha.2.1 hb.2.1,
               ih as bs (fun fk h => hcov fk (List.mem_cons_of_mem _ h)) ha.2.2 hb.2.2⟩

theorem attrsEq_refl_of_typed (fs : List (String × Kind)) (as : List Val) (h : AttrsTyped fs as) :
    AttrsEq fs as as := by
  induction fs generalizing as with
  | nil => cases as <;> simp_all [AttrsTyped, AttrsEq]
  | cons f fs ih =>
    obtain ⟨fn, k⟩ := f
    cases as with
    | nil => simp [AttrsTyped] at h
    | cons a as =>
      simp only [AttrsTyped] at h
      simp only [AttrsEq]
      refine ⟨?_, ih as h.2.2⟩
      have hk := h.1
      cases k <;> cases a <;> simp only [Val.hasKind] at hk <;> simp [attrEq]

end Protobom
