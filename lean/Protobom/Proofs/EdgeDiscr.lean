/- Edge equality discriminates: for identifiers free of the two separator characters the flattened
   string of an edge determines its source, its type and the multiset of its targets. (For node
   flattening the corresponding statement is false — the recorded separator finding.) -/
import Protobom.Proofs.Flat

namespace Protobom

/-! ### splitting a character list at a separator that occurs in neither prefix -/

theorem split_at_unique {c : Char} : ∀ (a1 a2 b1 b2 : List Char), c ∉ a1 → c ∉ a2 →
    a1 ++ c :: b1 = a2 ++ c :: b2 → a1 = a2 ∧ b1 = b2
  | [], [], _, _, _, _, h => by simpa using h
  | [], y :: ys, b1, b2, _, h2, h => by
    simp only [List.nil_append, List.cons_append, List.cons.injEq] at h
    exact absurd (h.1 ▸ List.mem_cons_self) h2
  | x :: xs, [], b1, b2, h1, _, h => by
    simp only [List.nil_append, List.cons_append, List.cons.injEq] at h
    exact absurd (h.1 ▸ List.mem_cons_self) h1
  | x :: xs, y :: ys, b1, b2, h1, h2, h => by
    simp only [List.cons_append, List.cons.injEq] at h
    have := split_at_unique xs ys b1 b2 (fun m => h1 (List.mem_cons_of_mem _ m)) (fun m => h2 (List.mem_cons_of_mem _ m)) h.2
    exact ⟨by rw [h.1, this.1], this.2⟩

theorem intercalate_cons_cons' (c : Char) (x y : List Char) (l : List (List Char)) :
    [c].intercalate (x :: y :: l) = x ++ c :: [c].intercalate (y :: l) := by
  simp [List.intercalate, List.intersperse]

theorem intercalate_single' (c : Char) (x : List Char) : [c].intercalate [x] = x := by
  simp [List.intercalate, List.intersperse]

/-- joining separator-free, non-empty pieces with the separator is injective -/
theorem intercalate_inj (c : Char) : ∀ (L1 L2 : List (List Char)),
    (∀ x ∈ L1, c ∉ x ∧ x ≠ []) → (∀ x ∈ L2, c ∉ x ∧ x ≠ []) →
    [c].intercalate L1 = [c].intercalate L2 → L1 = L2
  | [], [], _, _, _ => rfl
  | [], [y], _, h2, h => by
    rw [intercalate_single'] at h
    exact absurd h.symm (h2 y List.mem_cons_self).2
  | [], y :: y2 :: ys, _, h2, h => by
    rw [intercalate_cons_cons'] at h
    have : y = [] := by
      cases y with
      | nil => rfl
      | cons a as => simp [List.intercalate] at h
    exact absurd this (h2 y List.mem_cons_self).2
  | [x], [], h1, _, h => by
    rw [intercalate_single'] at h
    exact absurd h (h1 x List.mem_cons_self).2
  | x :: x2 :: xs, [], h1, _, h => by
    rw [intercalate_cons_cons'] at h
    have : x = [] := by
      cases x with
      | nil => rfl
      | cons a as => simp [List.intercalate] at h
    exact absurd this (h1 x List.mem_cons_self).2
  | [x], [y], _, _, h => by
    rw [intercalate_single', intercalate_single'] at h
    rw [h]
  | [x], y :: y2 :: ys, h1, _, h => by
    rw [intercalate_single', intercalate_cons_cons'] at h
    have : c ∈ x := by rw [h]; simp
    exact absurd this (h1 x List.mem_cons_self).1
  | x :: x2 :: xs, [y], _, h2, h => by
    rw [intercalate_single', intercalate_cons_cons'] at h
    have : c ∈ y := by rw [← h]; simp
    exact absurd this (h2 y List.mem_cons_self).1
  | x :: x2 :: xs, y :: y2 :: ys, h1, h2, h => by
    rw [intercalate_cons_cons', intercalate_cons_cons'] at h
    obtain ⟨e1, e2⟩ := split_at_unique x y _ _ (h1 x List.mem_cons_self).1 (h2 y List.mem_cons_self).1 h
    have := intercalate_inj c (x2 :: xs) (y2 :: ys)
      (fun z hz => h1 z (List.mem_cons_of_mem _ hz)) (fun z hz => h2 z (List.mem_cons_of_mem _ hz)) e2
    rw [e1, this]

end Protobom

namespace Protobom
open Gen

/-- the names of the edge types the schema defines contain no separator and are pairwise distinct -/
theorem edgeTypeNames_clean : ∀ p ∈ Schema.edgeTypes, ':' ∉ p.1.toList := by decide

theorem edgeTypeNames_inj : ∀ p ∈ Schema.edgeTypes, ∀ q ∈ Schema.edgeTypes, p.1 = q.1 → p.2 = q.2 := by decide

theorem edgeTypeName_known (t : Int) (h : t ∈ Schema.edgeTypes.map (·.2)) :
    ∃ p ∈ Schema.edgeTypes, p.2 = t ∧ edgeTypeName t = p.1 := by
  unfold edgeTypeName
  cases hf : Schema.edgeTypes.find? (·.2 = t) with
  | some p =>
    have hp := List.find?_some hf
    have hm := List.mem_of_find?_eq_some hf
    exact ⟨p, hm, by simpa using hp, rfl⟩
  | none =>
    obtain ⟨p, hp, e⟩ := List.mem_map.mp h
    have := List.find?_eq_none.mp hf p hp
    simp [e] at this

theorem sortStrings_perm_self (l : List String) : (sortStrings l).Perm l := List.mergeSort_perm _ _

/-- **edge equality discriminates** on separator-free identifiers: equal flattened strings force the
    same source, the same type and the same multiset of targets -/
theorem edge_flat_discriminates (e f : Edge)
    (hs : ':' ∉ e.src.toList) (hs' : ':' ∉ f.src.toList)
    (ht : e.ty ∈ Schema.edgeTypes.map (·.2)) (ht' : f.ty ∈ Schema.edgeTypes.map (·.2))
    (hto : ∀ t ∈ e.tos, t ≠ "" ∧ '+' ∉ t.toList) (hto' : ∀ t ∈ f.tos, t ≠ "" ∧ '+' ∉ t.toList)
    (h : e.flat = f.flat) : e.src = f.src ∧ e.ty = f.ty ∧ e.tos.Perm f.tos := by
  obtain ⟨p, hp, hp2, hpn⟩ := edgeTypeName_known e.ty ht
  obtain ⟨q, hq, hq2, hqn⟩ := edgeTypeName_known f.ty ht'
  have hl := congrArg String.toList h
  simp only [Edge.flat, String.toList_append, String.toList_intercalate, hpn, hqn] at hl
  have hc : ":".toList = [':'] := rfl
  have hplus : "+".toList = ['+'] := rfl
  rw [hc, hplus] at hl
  simp only [List.append_assoc, List.singleton_append] at hl
  obtain ⟨e1, r1⟩ := split_at_unique _ _ _ _ hs hs' hl
  obtain ⟨e2, r2⟩ := split_at_unique _ _ _ _ (edgeTypeNames_clean p hp) (edgeTypeNames_clean q hq) r1
  have hname : p.1 = q.1 := String.toList_injective e2
  have hty : e.ty = f.ty := by rw [← hp2, ← hq2]; exact edgeTypeNames_inj p hp q hq hname
  have hmem : ∀ (g : Edge), (∀ t ∈ g.tos, t ≠ "" ∧ '+' ∉ t.toList) →
      ∀ x ∈ (sortStrings g.tos).map String.toList, '+' ∉ x ∧ x ≠ [] := by
    intro g hg x hx
    obtain ⟨t, htm, rfl⟩ := List.mem_map.mp hx
    have := hg t ((sortStrings_perm_self g.tos).mem_iff.mp htm)
    refine ⟨this.2, ?_⟩
    intro hnil
    exact this.1 (String.toList_injective (by rw [hnil]; rfl))
  have hlists := intercalate_inj '+' _ _ (hmem e hto) (hmem f hto') r2
  have hsorted : sortStrings e.tos = sortStrings f.tos :=
    (List.map_inj_right (fun _ _ => String.toList_injective)).mp hlists
  refine ⟨String.toList_injective e1, hty, ?_⟩
  exact (sortStrings_perm_self e.tos).symm.trans (hsorted ▸ sortStrings_perm_self f.tos)

end Protobom
