/- Node, edge and node-list equality: equivalence relation and order-insensitivity. -/
import Protobom.Proofs.Flat
import Protobom.Proofs.Intersect

namespace Protobom
open Gen

/-! ### nodes and edges -/

/-- same identifier and kind, every attribute with the same content up to the order of
    set-valued collections and map entries -/
inductive AttrsPermEq : List Val → List Val → Prop
  | nil : AttrsPermEq [] []
  | cons {v w vs ws} : Val.PermEq v w → AttrsPermEq vs ws → AttrsPermEq (v :: vs) (w :: ws)

structure Node.PermEq (a b : Node) : Prop where
  id : a.id = b.id
  typ : a.typ = b.typ
  attrs : AttrsPermEq a.attrs b.attrs

theorem zip_flatMap_perm (fs : List (String × Kind)) (as bs : List Val) (h : AttrsPermEq as bs) :
    ((fs.zip as).flatMap (fun ((f, _), v) => attrPairs f v)).Perm
      ((fs.zip bs).flatMap (fun ((f, _), v) => attrPairs f v)) := by
  induction h generalizing fs with
  | nil => simp
  | cons hv _ ih =>
    cases fs with
    | nil => simp
    | cons f fs =>
      simp only [List.zip_cons_cons, List.flatMap_cons]
      exact (attrPairs_permEq f.1 hv).append (ih fs)

theorem flat_permEq {a b : Node} (h : Node.PermEq a b) : a.flat = b.flat := by
  unfold Node.flat Node.flatPairs
  rw [h.id, h.typ]
  apply congrArg
  apply sortStrings_perm
  exact (List.Perm.refl _).append (zip_flatMap_perm _ _ _ h.attrs)

theorem edge_flat_perm {e f : Edge} (hs : e.src = f.src) (ht : e.ty = f.ty) (hp : e.tos.Perm f.tos) :
    e.flat = f.flat := by
  unfold Edge.flat
  rw [hs, ht, sortStrings_perm hp]

/-! ### node lists -/

theorem nodeIndex_keys (H : String → String) (nl : NodeList) :
    (nodeIndex H nl).map (·.1) = nl.ids.eraseDups := by
  unfold nodeIndex
  have : ∀ (l : List String), (∀ x ∈ l, x ∈ nl.ids) →
      (l.filterMap (fun id => (nl.indexed id).map (fun n => (id, H n.flat)))).map (·.1) = l := by
    intro l hl
    induction l with
    | nil => rfl
    | cons x xs ih =>
      obtain ⟨n, hn, _, _⟩ := indexed_some nl x (hl x List.mem_cons_self)
      simp only [List.filterMap_cons, hn, Option.map_some, List.map_cons]
      rw [ih (fun y hy => hl y (List.mem_cons_of_mem _ hy))]
  exact this _ (fun x hx => by simpa using hx)

theorem nodeIndex_nodup (H : String → String) (nl : NodeList) : ((nodeIndex H nl).map (·.1)).Nodup := by
  rw [nodeIndex_keys]; exact nodup_eraseDups _

/-- in a key-unique association list every entry is found under its key -/
theorem lookup_of_mem {κ β} [DecidableEq κ] (l : List (κ × β)) (hnd : (l.map (·.1)).Nodup) (kv : κ × β)
    (h : kv ∈ l) : l.lookup kv.1 = some kv.2 := by
  induction l with
  | nil => cases h
  | cons x xs ih =>
    obtain ⟨xk, xv⟩ := x
    rw [List.map_cons] at hnd
    have hnd' := List.nodup_cons.mp hnd
    simp only [List.lookup_cons]
    cases h with
    | head => simp
    | tail _ h' =>
      have : ¬ kv.1 = xk := by
        intro e; apply hnd'.1; rw [← e]; exact List.mem_map.mpr ⟨kv, h', rfl⟩
      have e : (kv.1 == xk) = false := by simpa using this
      simp only [e]
      exact ih hnd'.2 h'

theorem mem_of_lookup {κ β} [DecidableEq κ] (l : List (κ × β)) (k : κ) (v : β)
    (h : l.lookup k = some v) : (k, v) ∈ l := by
  induction l with
  | nil => cases h
  | cons x xs ih =>
    obtain ⟨xk, xv⟩ := x
    simp only [List.lookup_cons] at h
    by_cases e : k = xk
    · have e' : (k == xk) = true := by simpa using e
      simp only [e'] at h
      cases h
      rw [e]; exact List.mem_cons_self
    · have e' : (k == xk) = false := by simpa using e
      simp only [e'] at h
      exact List.mem_cons_of_mem _ (ih h)

/-- a duplicate-free list contained in a list that is no longer contains it -/
theorem subset_of_nodup_length {α} [DecidableEq α] (l₁ l₂ : List α) (hnd : l₁.Nodup)
    (hsub : ∀ x ∈ l₁, x ∈ l₂) (hlen : l₂.length ≤ l₁.length) : ∀ x ∈ l₂, x ∈ l₁ := by
  induction l₁ generalizing l₂ with
  | nil =>
    intro x hx
    have : l₂ = [] := List.eq_nil_of_length_eq_zero (by simpa using hlen)
    rw [this] at hx; cases hx
  | cons a as ih =>
    have hnd' := List.nodup_cons.mp hnd
    have ha : a ∈ l₂ := hsub a List.mem_cons_self
    intro x hx
    by_cases hxa : x = a
    · rw [hxa]; exact List.mem_cons_self
    · refine List.mem_cons_of_mem _ (ih (l₂.erase a) hnd'.2 ?_ ?_ x ((List.mem_erase_of_ne hxa).mpr hx))
      · intro y hy
        have hya : y ≠ a := fun h => hnd'.1 (h ▸ hy)
        exact (List.mem_erase_of_ne hya).mpr (hsub y (List.mem_cons_of_mem _ hy))
      · rw [List.length_erase_of_mem ha]
        simp only [List.length_cons] at hlen
        omega

/-- inclusion of key-unique maps of equal size is equality of maps -/
theorem maps_eq_of_incl (ia ib : List (String × String)) (ha : (ia.map (·.1)).Nodup)
    (hb : (ib.map (·.1)).Nodup) (hlen : ia.length = ib.length)
    (hincl : ∀ kv ∈ ia, ib.lookup kv.1 = some kv.2) : ∀ k, ia.lookup k = ib.lookup k := by
  have hkeys : ∀ k ∈ ib.map (·.1), k ∈ ia.map (·.1) := by
    apply subset_of_nodup_length _ _ ha
    · intro k hk
      obtain ⟨kv, hkv, rfl⟩ := List.mem_map.mp hk
      exact List.mem_map.mpr ⟨(kv.1, kv.2), mem_of_lookup ib kv.1 kv.2 (hincl kv hkv), rfl⟩
    · simp [hlen]
  intro k
  cases hia : ia.lookup k with
  | some v =>
    exact (hincl (k, v) (mem_of_lookup ia k v hia)).symm
  | none =>
    cases hib : ib.lookup k with
    | none => rfl
    | some w =>
      exfalso
      have hk : k ∈ ia.map (·.1) := hkeys k (List.mem_map.mpr ⟨(k, w), mem_of_lookup ib k w hib, rfl⟩)
      obtain ⟨kv, hkv, hkk⟩ := List.mem_map.mp hk
      have := lookup_of_mem ia ha kv hkv
      rw [hkk, hia] at this
      cases this

theorem length_eq_of_lookup_eq (ia ib : List (String × String)) (ha : (ia.map (·.1)).Nodup)
    (hb : (ib.map (·.1)).Nodup) (h : ∀ k, ia.lookup k = ib.lookup k) : ia.length = ib.length := by
  have h1 : (ia.map (·.1)).length ≤ (ib.map (·.1)).length := by
    apply List.Nodup.length_le_of_subset ha
    intro k hk
    obtain ⟨kv, hkv, rfl⟩ := List.mem_map.mp hk
    have := lookup_of_mem ia ha kv hkv
    rw [h] at this
    exact List.mem_map.mpr ⟨(kv.1, kv.2), mem_of_lookup ib _ _ this, rfl⟩
  have h2 : (ib.map (·.1)).length ≤ (ia.map (·.1)).length := by
    apply List.Nodup.length_le_of_subset hb
    intro k hk
    obtain ⟨kv, hkv, rfl⟩ := List.mem_map.mp hk
    have := lookup_of_mem ib hb kv hkv
    rw [← h] at this
    exact List.mem_map.mpr ⟨(kv.1, kv.2), mem_of_lookup ia _ _ this, rfl⟩
  simp only [List.length_map] at h1 h2
  omega

/-- `NodeList.Equal`, characterised: same lengths, same sorted roots, same sorted edge strings,
    same id → checksum map -/
theorem equalWith_iff (H : String → String) (a b : NodeList) :
    NodeList.equalWith H a b = true ↔
      (a.edges.length = b.edges.length ∧ a.nodes.length = b.nodes.length ∧ a.roots.length = b.roots.length) ∧
      sortStrings a.roots = sortStrings b.roots ∧
      sortStrings (a.edges.map Edge.flat) = sortStrings (b.edges.map Edge.flat) ∧
      ∀ k, (nodeIndex H a).lookup k = (nodeIndex H b).lookup k := by
  unfold NodeList.equalWith
  simp only [Bool.and_eq_true, decide_eq_true_eq]
  constructor
  · rintro ⟨⟨⟨hl, h2⟩, h3⟩, hlen, hall⟩
    refine ⟨hl, h2, h3, ?_⟩
    apply maps_eq_of_incl _ _ (nodeIndex_nodup H a) (nodeIndex_nodup H b) hlen
    intro kv hkv
    have := List.all_eq_true.mp hall kv hkv
    simpa using this
  · rintro ⟨hl, h2, h3, hk⟩
    refine ⟨⟨⟨hl, h2⟩, h3⟩, length_eq_of_lookup_eq _ _ (nodeIndex_nodup H a) (nodeIndex_nodup H b) hk, ?_⟩
    rw [List.all_eq_true]
    intro kv hkv
    rw [decide_eq_true_eq, ← hk]
    exact lookup_of_mem _ (nodeIndex_nodup H a) kv hkv

theorem equalWith_refl (H : String → String) (a : NodeList) : NodeList.equalWith H a a = true :=
  (equalWith_iff H a a).mpr ⟨⟨rfl, rfl, rfl⟩, rfl, rfl, fun _ => rfl⟩

theorem equalWith_symm (H : String → String) (a b : NodeList) (h : NodeList.equalWith H a b = true) :
    NodeList.equalWith H b a = true := by
  obtain ⟨⟨e1, e2, e3⟩, r, e, n⟩ := (equalWith_iff H a b).mp h
  exact (equalWith_iff H b a).mpr ⟨⟨e1.symm, e2.symm, e3.symm⟩, r.symm, e.symm, fun k => (n k).symm⟩

theorem equalWith_trans (H : String → String) (a b c : NodeList) (h1 : NodeList.equalWith H a b = true)
    (h2 : NodeList.equalWith H b c = true) : NodeList.equalWith H a c = true := by
  obtain ⟨⟨e1, e2, e3⟩, r, e, n⟩ := (equalWith_iff H a b).mp h1
  obtain ⟨⟨f1, f2, f3⟩, r', e', n'⟩ := (equalWith_iff H b c).mp h2
  exact (equalWith_iff H a c).mpr ⟨⟨e1.trans f1, e2.trans f2, e3.trans f3⟩, r.trans r', e.trans e',
    fun k => (n k).trans (n' k)⟩

end Protobom

namespace Protobom

/-! ### order-insensitivity of node-list equality -/

/-- pointwise: same source and type, targets permuted -/
inductive EdgeListEq : List Edge → List Edge → Prop
  | nil : EdgeListEq [] []
  | cons {e f es fs} : e.src = f.src → e.ty = f.ty → e.tos.Perm f.tos → EdgeListEq es fs →
      EdgeListEq (e :: es) (f :: fs)

theorem edgeListEq_flat {es fs : List Edge} (h : EdgeListEq es fs) : es.map Edge.flat = fs.map Edge.flat := by
  induction h with
  | nil => rfl
  | cons hs ht hp _ ih => simp only [List.map_cons, edge_flat_perm hs ht hp, ih]

theorem edgeListEq_length {es fs : List Edge} (h : EdgeListEq es fs) : es.length = fs.length := by
  induction h with
  | nil => rfl
  | cons _ _ _ _ ih => simp [ih]

theorem nodeIndex_lookup (H : String → String) (nl : NodeList) (k : String) :
    (nodeIndex H nl).lookup k = (nl.indexed k).map (fun n => H n.flat) := by
  by_cases hk : k ∈ nl.ids
  · obtain ⟨n, hn, _, _⟩ := indexed_some nl k hk
    have hmem : (k, H n.flat) ∈ nodeIndex H nl := by
      unfold nodeIndex
      rw [List.mem_filterMap]
      exact ⟨k, by simpa using hk, by simp [hn]⟩
    rw [hn]
    exact lookup_of_mem _ (nodeIndex_nodup H nl) (k, H n.flat) hmem
  · have h1 : nl.indexed k = none := by
      unfold NodeList.indexed
      rw [List.find?_eq_none]
      intro n hn
      simp only [decide_eq_true_eq]
      intro hnk
      exact hk (List.mem_map.mpr ⟨n, List.mem_reverse.mp hn, hnk⟩)
    rw [h1]
    cases hl : (nodeIndex H nl).lookup k with
    | none => rfl
    | some v =>
      exfalso
      have := mem_of_lookup _ k v hl
      have hk' : k ∈ (nodeIndex H nl).map (·.1) := List.mem_map.mpr ⟨(k, v), this, rfl⟩
      rw [nodeIndex_keys] at hk'
      exact hk (by simpa using hk')

theorem indexed_perm (a b : NodeList) (hn : a.nodes.Perm b.nodes) (hnd : a.ids.Nodup) (k : String) :
    a.indexed k = b.indexed k := by
  have hndb : b.ids.Nodup := (hn.map (fun (x : Node) => x.id)).nodup_iff.mp hnd
  by_cases hk : k ∈ a.ids
  · obtain ⟨p, hp, rfl⟩ := List.mem_map.mp hk
    rw [indexed_eq_of_nodup a hnd p hp, indexed_eq_of_nodup b hndb p (hn.mem_iff.mp hp)]
  · have hkb : k ∉ b.ids := fun h => hk ((hn.map (fun (x : Node) => x.id)).mem_iff.mpr h)
    have none_of : ∀ (nl : NodeList), k ∉ nl.ids → nl.indexed k = none := by
      intro nl hnl
      unfold NodeList.indexed
      rw [List.find?_eq_none]
      intro n hn'
      simp only [decide_eq_true_eq]
      intro hnk
      exact hnl (List.mem_map.mpr ⟨n, List.mem_reverse.mp hn', hnk⟩)
    rw [none_of a hk, none_of b hkb]

/-- node-list equality ignores the order of nodes (unique identifiers), edges, edge targets and
    root elements -/
theorem equalWith_perm (H : String → String) (a b : NodeList) (hn : a.nodes.Perm b.nodes)
    (hnd : a.ids.Nodup) (es : List Edge) (he1 : a.edges.Perm es) (he2 : EdgeListEq es b.edges)
    (hr : a.roots.Perm b.roots) : NodeList.equalWith H a b = true := by
  rw [equalWith_iff]
  refine ⟨⟨?_, hn.length_eq, hr.length_eq⟩, sortStrings_perm hr, ?_, ?_⟩
  · rw [he1.length_eq, edgeListEq_length he2]
  · rw [← edgeListEq_flat he2]
    exact sortStrings_perm (he1.map Edge.flat)
  · intro k
    rw [nodeIndex_lookup, nodeIndex_lookup, indexed_perm a b hn hnd k]

end Protobom
