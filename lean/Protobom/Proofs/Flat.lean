/- Equality by flattened strings: equivalence, order-insensitivity, table coverage. -/
import Protobom.Model.Diff
import Protobom.Proofs.ListLemmas

namespace Protobom
open Gen

theorem sortStrings_perm {l l' : List String} (h : l.Perm l') : sortStrings l = sortStrings l' := by
  unfold sortStrings
  have tr : ∀ (a b c : String), decide (a ≤ b) = true → decide (b ≤ c) = true → decide (a ≤ c) = true := by
    intro a b c h1 h2
    exact decide_eq_true (String.le_trans (of_decide_eq_true h1) (of_decide_eq_true h2))
  have tot : ∀ (a b : String), (decide (a ≤ b) || decide (b ≤ a)) = true := by
    intro a b
    rw [Bool.or_eq_true]
    rcases String.le_total a b with h1 | h1
    · exact Or.inl (decide_eq_true h1)
    · exact Or.inr (decide_eq_true h1)
  apply List.Perm.eq_of_pairwise (le := fun a b => decide (a ≤ b) = true)
  · intro a b _ _ h1 h2
    exact String.le_antisymm (of_decide_eq_true h1) (of_decide_eq_true h2)
  · exact List.pairwise_mergeSort tr tot l
  · exact List.pairwise_mergeSort tr tot l'
  · exact ((List.mergeSort_perm l _).trans h).trans (List.mergeSort_perm l' _).symm

theorem sortInts_perm {l l' : List Int} (h : l.Perm l') : sortInts l = sortInts l' := by
  unfold sortInts
  have tr : ∀ (a b c : Int), decide (a ≤ b) = true → decide (b ≤ c) = true → decide (a ≤ c) = true := by
    intro a b c h1 h2
    exact decide_eq_true (Int.le_trans (of_decide_eq_true h1) (of_decide_eq_true h2))
  have tot : ∀ (a b : Int), (decide (a ≤ b) || decide (b ≤ a)) = true := by
    intro a b
    rw [Bool.or_eq_true]
    rcases Int.le_total a b with h1 | h1
    · exact Or.inl (decide_eq_true h1)
    · exact Or.inr (decide_eq_true h1)
  apply List.Perm.eq_of_pairwise (le := fun a b => decide (a ≤ b) = true)
  · intro a b _ _ h1 h2
    exact Int.le_antisymm (of_decide_eq_true h1) (of_decide_eq_true h2)
  · exact List.pairwise_mergeSort tr tot l
  · exact List.pairwise_mergeSort tr tot l'
  · exact ((List.mergeSort_perm l _).trans h).trans (List.mergeSort_perm l' _).symm

/-- lookup in a key-unique association list does not depend on the order of the entries -/
theorem lookup_perm {κ β} [DecidableEq κ] {m m' : List (κ × β)} (h : m.Perm m')
    (hnd : (m.map (·.1)).Nodup) (k : κ) : m.lookup k = m'.lookup k := by
  induction h with
  | nil => rfl
  | cons x _ ih =>
    obtain ⟨xk, xv⟩ := x
    rw [List.map_cons] at hnd
    have hnd' := List.nodup_cons.mp hnd
    simp only [List.lookup_cons]
    split
    · rfl
    · exact ih hnd'.2
  | swap x y l =>
    obtain ⟨xk, xv⟩ := x
    obtain ⟨yk, yv⟩ := y
    simp only [List.map_cons] at hnd
    have h1 := List.nodup_cons.mp hnd
    have hxy : yk ≠ xk := by
      intro h; apply h1.1; rw [h]; exact List.mem_cons_self
    simp only [List.lookup_cons]
    by_cases hk1 : k = yk
    · have hk2 : ¬ k = xk := fun h => hxy (hk1 ▸ h)
      have e1 : (k == yk) = true := by simpa using hk1
      have e2 : (k == xk) = false := by simpa using hk2
      simp only [e1, e2]
    · by_cases hk2 : k = xk
      · have e1 : (k == yk) = false := by simpa using hk1
        have e2 : (k == xk) = true := by simpa using hk2
        simp only [e1, e2]
      · have e1 : (k == yk) = false := by simpa using hk1
        have e2 : (k == xk) = false := by simpa using hk2
        simp only [e1, e2]
  | trans h1 _ ih1 ih2 =>
    rw [ih1 hnd]
    apply ih2
    exact (h1.map (·.1)).nodup_iff.mp hnd

theorem flatMap'_perm {m m' : List (Int × String)} (h : m.Perm m')
    (hnd : (m.map (fun kv => toString kv.1)).Nodup) : flatMap' m = flatMap' m' := by
  unfold flatMap'
  simp only
  have he := h.map (fun kv => (toString kv.1, kv.2))
  rw [sortStrings_perm (he.map (·.1))]
  congr 1
  apply List.map_congr_left
  intro k _
  rw [lookup_perm he (by simpa [List.map_map, Function.comp_def] using hnd) k]

theorem filterMap_congr' {α β} {f g : α → Option β} {l : List α} (h : ∀ x ∈ l, f x = g x) :
    l.filterMap f = l.filterMap g := by
  induction l with
  | nil => rfl
  | cons x xs ih =>
    simp only [List.filterMap_cons, h x List.mem_cons_self]
    rw [ih (fun y hy => h y (List.mem_cons_of_mem _ hy))]

theorem sortedByKey_perm {m m' : List (Int × String)} (h : m.Perm m') (hnd : (m.map (·.1)).Nodup) :
    sortedByKey m = sortedByKey m' := by
  unfold sortedByKey
  rw [sortInts_perm (h.map (·.1))]
  apply filterMap_congr'
  intro k _
  rw [lookup_perm h hnd k]

/-- two attribute values with the same content in a different order -/
inductive Val.PermEq : Val → Val → Prop
  | str (s) : Val.PermEq (.str s) (.str s)
  | strs {l l'} : l.Perm l' → Val.PermEq (.strs l) (.strs l')
  | enums {l l'} : l.Perm l' → Val.PermEq (.enums l) (.enums l')
  | imap {m m'} : m.Perm m' → (m.map (·.1)).Nodup → (m.map (fun kv => toString kv.1)).Nodup →
      Val.PermEq (.imap m) (.imap m')
  | date (d) : Val.PermEq (.date d) (.date d)
  | persons {l l'} : l.Perm l' → Val.PermEq (.persons l) (.persons l')
  | refs {l l'} : l.Perm l' → Val.PermEq (.refs l) (.refs l')

theorem isEmpty_permEq {v w : Val} (h : Val.PermEq v w) : v.isEmpty = w.isEmpty := by
  cases h with
  | str | date => rfl
  | strs h | enums h | persons h | refs h =>
    simp only [Val.isEmpty]
    rw [Bool.eq_iff_iff, List.isEmpty_iff, List.isEmpty_iff]
    exact ⟨fun e => List.Perm.eq_nil (e ▸ h.symm), fun e => List.Perm.eq_nil (e ▸ h)⟩
  | imap h _ _ =>
    simp only [Val.isEmpty]
    rw [Bool.eq_iff_iff, List.isEmpty_iff, List.isEmpty_iff]
    exact ⟨fun e => List.Perm.eq_nil (e ▸ h.symm), fun e => List.Perm.eq_nil (e ▸ h)⟩

/-- the pairs an attribute contributes are the same up to order -/
theorem attrPairs_permEq (f : String) {v w : Val} (h : Val.PermEq v w) :
    (attrPairs f v).Perm (attrPairs f w) := by
  unfold attrPairs
  simp only
  rw [isEmpty_permEq h]
  generalize (List.lookup (protoNameOf f) NodeFields.flatTable).getD
    (if NodeFields.flatHasScalarDefault = true then "scalar" else "none") = form
  by_cases hemp : w.isEmpty = true
  · simp only [hemp, if_true]; exact List.Perm.refl _
  · simp only [hemp]
    cases h with
    | str | date => exact List.Perm.refl _
    | strs h =>
      simp only [flatStrSlice]; rw [sortStrings_perm h]
    | enums h =>
      simp only [flatStrSlice]; rw [sortStrings_perm (h.map toString)]
    | imap h hnd hnd' =>
      simp only
      rw [flatMap'_perm h hnd', sortedByKey_perm h hnd]
    | persons h =>
      by_cases hf : form = "elemflat"
      · simp only [hf, if_true]; exact h.map _
      · simp only [hf, if_false]; exact List.Perm.refl _
    | refs h =>
      by_cases hf : form = "elemflat"
      · simp only [hf, if_true]; exact h.map _
      · simp only [hf, if_false]; exact List.Perm.refl _

end Protobom
