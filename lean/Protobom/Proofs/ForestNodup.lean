/- In a containment forest the preorder enumeration of the root and the top-level subtrees lists
   every identifier at most once. -/
import Protobom.Proofs.NestRT

namespace Protobom.Cdx

section
variable (children : String → List String) (ht : String → Nat)
variable (hlt : ∀ id t, t ∈ children id → ht t < ht id)
include hlt

theorem pre_stable : ∀ (f f' : Nat) (x : String), ht x < f → ht x < f' → pre children f x = pre children f' x := by
  intro f
  induction f with
  | zero => intro f' x h; omega
  | succ f ih =>
    intro f' x h1 h2
    cases f' with
    | zero => omega
    | succ g =>
      simp only [pre]
      congr 1
      apply flatMap_congr'
      intro y hy
      have := hlt x y hy
      exact ih g y (by omega) (by omega)

/-- the subtree of `x`, with enough fuel -/
def sub (x : String) : List String := pre children (ht x + 1) x

theorem sub_unfold (x : String) : sub children ht x = x :: (children x).flatMap (sub children ht) := by
  simp only [sub, pre]
  congr 1
  apply flatMap_congr'
  intro y hy
  have := hlt x y hy
  exact pre_stable children ht hlt _ _ y (by omega) (by omega)

theorem sub_ht : ∀ (n : Nat) (x z : String), ht x ≤ n → z ∈ sub children ht x → ht z ≤ ht x := by
  intro n
  induction n with
  | zero =>
    intro x z hx hz
    rw [sub_unfold children ht hlt] at hz
    rcases List.mem_cons.mp hz with rfl | h
    · exact Nat.le_refl _
    · rw [List.mem_flatMap] at h
      obtain ⟨y, hy, _⟩ := h
      have := hlt x y hy; omega
  | succ n ih =>
    intro x z hx hz
    rw [sub_unfold children ht hlt] at hz
    rcases List.mem_cons.mp hz with rfl | h
    · exact Nat.le_refl _
    · rw [List.mem_flatMap] at h
      obtain ⟨y, hy, hzy⟩ := h
      have hy' := hlt x y hy
      have := ih y z (by omega) hzy
      omega

/-- a proper member of a subtree has its parent inside the subtree -/
theorem sub_parent : ∀ (n : Nat) (x z : String), ht x ≤ n → z ∈ sub children ht x → z ≠ x →
    ∃ p, p ∈ sub children ht x ∧ z ∈ children p := by
  intro n
  induction n with
  | zero =>
    intro x z hx hz hne
    rw [sub_unfold children ht hlt] at hz
    rcases List.mem_cons.mp hz with h | h
    · exact absurd h hne
    · rw [List.mem_flatMap] at h
      obtain ⟨y, hy, _⟩ := h
      have := hlt x y hy; omega
  | succ n ih =>
    intro x z hx hz hne
    have hz0 := hz
    rw [sub_unfold children ht hlt] at hz
    rcases List.mem_cons.mp hz with h | h
    · exact absurd h hne
    · rw [List.mem_flatMap] at h
      obtain ⟨y, hy, hzy⟩ := h
      have hy' := hlt x y hy
      have hsubset : ∀ w, w ∈ sub children ht y → w ∈ sub children ht x := by
        intro w hw
        rw [sub_unfold children ht hlt x]
        exact List.mem_cons_of_mem _ (List.mem_flatMap.mpr ⟨y, hy, hw⟩)
      by_cases hzy' : z = y
      · refine ⟨x, ?_, hzy' ▸ hy⟩
        rw [sub_unfold children ht hlt x]; exact List.mem_cons_self
      · obtain ⟨p, hp, hc⟩ := ih y z (by omega) hzy hzy'
        exact ⟨p, hsubset p hp, hc⟩

end

end Protobom.Cdx

namespace Protobom.Cdx

theorem nodup_flatMap' {α β} (g : α → List β) : ∀ (l : List α), l.Nodup → (∀ x ∈ l, (g x).Nodup) →
    (∀ x ∈ l, ∀ y ∈ l, x ≠ y → ∀ z, z ∈ g x → z ∉ g y) → (l.flatMap g).Nodup
  | [], _, _, _ => by simp
  | x :: xs, hnd, hg, hd => by
    have hx := List.nodup_cons.mp hnd
    simp only [List.flatMap_cons]
    rw [List.nodup_append]
    refine ⟨hg x List.mem_cons_self, ?_, ?_⟩
    · exact nodup_flatMap' g xs hx.2 (fun y hy => hg y (List.mem_cons_of_mem _ hy))
        (fun a ha b hb hab => hd a (List.mem_cons_of_mem _ ha) b (List.mem_cons_of_mem _ hb) hab)
    · intro z hz w hw hzw
      rw [List.mem_flatMap] at hw
      obtain ⟨y, hy, hwy⟩ := hw
      have hxy : x ≠ y := fun e => hx.1 (e ▸ hy)
      exact hd x List.mem_cons_self y (List.mem_cons_of_mem _ hy) hxy z hz (hzw ▸ hwy)


section
variable (children : String → List String) (ht : String → Nat)
variable (hlt : ∀ id t, t ∈ children id → ht t < ht id)
variable (hpar : ∀ a b t, t ∈ children a → t ∈ children b → a = b)
variable (B : Nat) (hB : ∀ x, ht x < B)
include hlt hpar hB

/-- the nodes whose subtree contains `z` form a chain -/
theorem sub_chain : ∀ (n : Nat) (z a b : String), B ≤ ht z + n → z ∈ sub children ht a → z ∈ sub children ht b →
    a ∈ sub children ht b ∨ b ∈ sub children ht a := by
  intro n
  induction n with
  | zero => intro z a b h; have := hB z; omega
  | succ n ih =>
    intro z a b hn hza hzb
    by_cases hza' : z = a
    · exact Or.inl (hza' ▸ hzb)
    · by_cases hzb' : z = b
      · exact Or.inr (hzb' ▸ hza)
      · obtain ⟨p, hpa, hpc⟩ := sub_parent children ht hlt (ht a) a z (Nat.le_refl _) hza hza'
        obtain ⟨q, hqb, hqc⟩ := sub_parent children ht hlt (ht b) b z (Nat.le_refl _) hzb hzb'
        have hpq : p = q := hpar p q z hpc hqc
        have hlt' := hlt p z hpc
        exact ih p a b (by omega) hpa (hpq ▸ hqb)

/-- a proper member of a subtree is lower than its root -/
theorem sub_proper_lt (x z : String) (hz : z ∈ sub children ht x) (hne : z ≠ x) : ht z < ht x := by
  obtain ⟨p, hp, hc⟩ := sub_parent children ht hlt (ht x) x z (Nat.le_refl _) hz hne
  have h1 := hlt p z hc
  have h2 := sub_ht children ht hlt (ht x) x p (Nat.le_refl _) hp
  omega

/-- every subtree lists its identifiers once -/
theorem sub_nodup (hnd : ∀ a, (children a).Nodup) : ∀ (n : Nat) (x : String), ht x ≤ n → (sub children ht x).Nodup := by
  intro n
  induction n with
  | zero =>
    intro x hx
    rw [sub_unfold children ht hlt]
    have : children x = [] := by
      cases hc : children x with
      | nil => rfl
      | cons y ys => have := hlt x y (by rw [hc]; exact List.mem_cons_self); omega
    simp [this]
  | succ n ih =>
    intro x hx
    rw [sub_unfold children ht hlt]
    apply List.nodup_cons.mpr
    refine ⟨?_, ?_⟩
    · intro hmem
      rw [List.mem_flatMap] at hmem
      obtain ⟨y, hy, hxy⟩ := hmem
      have h1 := sub_ht children ht hlt (ht y) y x (Nat.le_refl _) hxy
      have h2 := hlt x y hy
      omega
    · apply nodup_flatMap' _ _ (hnd x)
      · intro y hy
        have := hlt x y hy
        exact ih y (by omega)
      · intro y1 hy1 y2 hy2 hne z hz1 hz2
        -- the subtrees of two different children are disjoint
        rcases sub_chain children ht hlt hpar B hB B z y1 y2 (by omega) hz1 hz2 with h | h
        · -- y1 in the subtree of y2: its parent x would be there too
          obtain ⟨p, hp, hc⟩ := sub_parent children ht hlt (ht y2) y2 y1 (Nat.le_refl _) h hne
          have hpx : p = x := hpar p x y1 hc hy1
          have h1 := sub_ht children ht hlt (ht y2) y2 p (Nat.le_refl _) hp
          have h2 := hlt x y2 hy2
          rw [hpx] at h1; omega
        · obtain ⟨p, hp, hc⟩ := sub_parent children ht hlt (ht y1) y1 y2 (Nat.le_refl _) h (Ne.symm hne)
          have hpx : p = x := hpar p x y2 hc hy2
          have h1 := sub_ht children ht hlt (ht y1) y1 p (Nat.le_refl _) hp
          have h2 := hlt x y1 hy1
          rw [hpx] at h1; omega

end

end Protobom.Cdx

namespace Protobom.Cdx
open Protobom

theorem dictOf_keys_nodup_aux (nodes : List Node) (d : List (String × Component)) (hd : (d.map (·.1)).Nodup) :
    ((nodes.foldl (fun d n =>
      let c := nodeToComponent n
      if d.any (·.1 = n.id) then d.map (fun kv => if kv.1 = n.id then (n.id, c) else kv) else d ++ [(n.id, c)]) d).map (·.1)).Nodup := by
  induction nodes generalizing d with
  | nil => exact hd
  | cons n ns ih =>
    simp only [List.foldl_cons]
    apply ih
    split
    · rename_i hany
      have : (d.map (fun kv => if kv.1 = n.id then (n.id, nodeToComponent n) else kv)).map (·.1) = d.map (·.1) := by
        rw [List.map_map]
        apply List.map_congr_left
        intro kv _
        simp only [Function.comp]
        by_cases e : kv.1 = n.id
        · simp [e]
        · simp [e]
      rw [this]; exact hd
    · rename_i hany
      rw [List.map_append, List.nodup_append]
      refine ⟨hd, by simp, ?_⟩
      intro a ha b hb
      simp only [List.map_cons, List.map_nil, List.mem_singleton] at hb
      subst hb
      intro e
      apply hany
      rw [List.any_eq_true]
      rw [List.mem_map] at ha
      obtain ⟨kv, hkv, hk⟩ := ha
      exact ⟨kv, hkv, by simp [hk, e]⟩

theorem dictOf_keys_nodup (nodes : List Node) : ((dictOf nodes).map (·.1)).Nodup :=
  dictOf_keys_nodup_aux nodes [] (by simp)

/-- **the enumeration premise of the round-trip theorem holds in every containment forest** -/
theorem forest_preorder_nodup (children : String → List String) (ht : String → Nat) (root : String)
    (dict : List (String × Component)) (hkeys : (dict.map (·.1)).Nodup)
    (F : Forest children ht (fun x => (dict.lookup x).isSome = true) [root])
    (B : Nat) (hB : ∀ x, ht x < B) (placed : List String)
    (hpl : ∀ x, x ∈ placed ↔ (x = root ∨ ∃ p, p ≠ root ∧ (dict.lookup p).isSome = true ∧ x ∈ children p)) :
    (root :: ((dict.filter (fun kv => decide (kv.1 ∉ placed))).map (·.1)).flatMap
      (fun t => pre children (ht t + 1) t)).Nodup := by
  let D : String → Prop := fun x => (dict.lookup x).isSome = true
  let tops := (dict.filter (fun kv => decide (kv.1 ∉ placed))).map (·.1)
  have htopD : ∀ t ∈ tops, D t ∧ t ∉ placed := by
    intro t ht'
    simp only [tops, List.mem_map] at ht'
    obtain ⟨kv, hkv, rfl⟩ := ht'
    rw [List.mem_filter] at hkv
    exact ⟨lookup_isSome_of_mem dict kv hkv.1, by simpa using hkv.2⟩
  have hroot_placed : root ∈ placed := (hpl root).mpr (Or.inl rfl)
  -- the root is in no subtree of a top-level node
  have hroot_out : ∀ t ∈ tops, root ∉ sub children ht t := by
    intro t ht' hmem
    have hne : root ≠ t := fun e => (htopD t ht').2 (e ▸ hroot_placed)
    obtain ⟨p, _, hc⟩ := sub_parent children ht F.lt (ht t) t root (Nat.le_refl _) hmem hne
    exact F.p0 p root hc (by simp)
  apply List.nodup_cons.mpr
  refine ⟨?_, ?_⟩
  · intro hmem
    rw [List.mem_flatMap] at hmem
    obtain ⟨t, ht', hr⟩ := hmem
    exact hroot_out t ht' hr
  · apply nodup_flatMap'
    · -- the top-level identifiers are distinct dictionary keys
      have : tops = (dict.map (·.1)).filter (fun k => decide (k ∉ placed)) := by
        simp only [tops, List.filter_map]
        rfl
      show tops.Nodup
      rw [this]
      exact hkeys.filter _
    · intro t _
      exact sub_nodup children ht F.lt F.par B hB F.nd (ht t) t (Nat.le_refl _)
    · intro t1 h1 t2 h2 hne z hz1 hz2
      have key : ∀ (a b : String), a ∈ tops → b ∈ tops → a ≠ b → a ∉ sub children ht b := by
        intro a b ha hb hab hmem
        obtain ⟨p, hp, hc⟩ := sub_parent children ht F.lt (ht b) b a (Nat.le_refl _) hmem hab
        have hpD : D p := pre_mem_dom children D F.dom _ b p (htopD b hb).1 hp
        have hpr : p ≠ root := fun e => hroot_out b hb (e ▸ hp)
        exact (htopD a ha).2 ((hpl a).mpr (Or.inr ⟨p, hpr, hpD, hc⟩))
      rcases sub_chain children ht F.lt F.par B hB B z t1 t2 (by omega) hz1 hz2 with h | h
      · exact key t1 t2 h1 h2 hne h
      · exact key t2 t1 h2 h1 (Ne.symm hne) h

end Protobom.Cdx
