/- The identifier generator: alphabet, non-emptiness, determinism. -/
import Protobom.Model.Ident
import Protobom.Proofs.Parsed

namespace Protobom.Ident
open Protobom

theorem safeByte_char : ∀ n, n < 256 → isSafeByte (UInt8.ofNat n) = true → idSafe (Char.ofNat n) = true := by
  decide +kernel

theorem encodeByte_safe (b : UInt8) : ∀ c ∈ encodeByte b, idSafe c = true := by
  intro c hc
  unfold encodeByte at hc
  by_cases hb : isSafeByte b = true
  · rw [if_pos hb] at hc
    simp only [List.mem_singleton] at hc
    subst hc
    apply safeByte_char b.toNat (UInt8.toNat_lt b)
    rw [UInt8.ofNat_toNat]; exact hb
  · rw [if_neg hb] at hc
    rcases List.mem_cons.mp hc with h | h
    · subst h; decide
    · have := Nat.isDigit_of_mem_toDigits (by decide) (by decide) h
      simp [idSafe, Char.isAlphanum, this]

theorem sanitize_safe (s : Bytes) : ∀ c ∈ sanitize s, idSafe c = true := by
  intro c hc
  unfold sanitize at hc
  rw [List.mem_flatMap] at hc
  obtain ⟨b, _, hb⟩ := hc
  exact encodeByte_safe b c hb

abbrev AllSafe (l : List Char) : Prop := ∀ c ∈ l, idSafe c = true

theorem joinDash_safe (ps : List (List Char)) (h : ∀ p ∈ ps, AllSafe p) : AllSafe (joinDash ps) := by
  induction ps with
  | nil => intro c hc; cases hc
  | cons x rest ih =>
    cases rest with
    | nil => simpa [joinDash] using h x List.mem_cons_self
    | cons y rest' =>
      intro c hc
      simp only [joinDash, List.mem_append, List.mem_cons] at hc
      rcases hc with h1 | h1 | h1
      · exact h x List.mem_cons_self c h1
      · subst h1; decide
      · exact ih (fun p hp => h p (List.mem_cons_of_mem _ hp)) c h1

/-- invariant of the fold over the seeds -/
structure Inv (st : St) : Prop where
  head : ∃ rest, st.known = "protobom".toList :: rest
  known : ∀ p ∈ st.known, AllSafe p
  valid : ∀ p ∈ st.valid, AllSafe p ∧ p ≠ []

theorem inv_init : Inv {} :=
  ⟨⟨[], rfl⟩, by intro p hp; simp at hp; subst hp; decide, by intro p hp; cases hp⟩

theorem inv_step (st : St) (s : Bytes) (h : Inv st) : Inv (step st s) := by
  unfold step
  split
  · rename_i hc
    obtain ⟨rest, hr⟩ := h.head
    refine ⟨⟨rest ++ [s.map (fun b => Char.ofNat b.toNat)], by simp [hr]⟩, ?_, h.valid⟩
    intro p hp
    simp only [List.mem_append, List.mem_singleton] at hp
    rcases hp with hp | hp
    · exact h.known p hp
    · subst hp
      rcases hc.1 with e | e <;> (subst e; decide)
  · simp only
    split
    · exact h
    · rename_i hne
      refine ⟨h.head, h.known, ?_⟩
      intro p hp
      simp only [List.mem_append, List.mem_singleton] at hp
      rcases hp with hp | hp
      · exact h.valid p hp
      · subst hp; exact ⟨sanitize_safe s, hne⟩

theorem inv_fold (seeds : List Bytes) (st : St) (h : Inv st) : Inv (seeds.foldl step st) := by
  induction seeds generalizing st with
  | nil => exact h
  | cons s ss ih => exact ih _ (inv_step st s h)

theorem finish_safe (st : St) (uuid : List Char) (h : Inv st) (hu : AllSafe uuid) : AllSafe (finish st uuid) := by
  unfold finish
  simp only
  split
  · exact joinDash_safe _ h.known
  · rename_i v vs hv
    apply joinDash_safe
    intro p hp
    simp only [List.mem_append, List.mem_cons] at hp
    have hvalid : ∀ q ∈ v :: vs, AllSafe q := by
      intro q hq
      rw [← hv] at hq
      by_cases he : st.valid = []
      · rw [if_pos he] at hq
        simp only [List.mem_singleton] at hq
        subst hq; exact hu
      · rw [if_neg he] at hq
        exact (h.valid q hq).1
    rcases hp with hp | hp | hp
    · exact h.known p hp
    · subst hp
      intro c hc
      rcases List.mem_cons.mp hc with e | e
      · subst e; decide
      · exact hvalid v List.mem_cons_self c e
    · exact hvalid p (List.mem_cons_of_mem _ hp)

theorem joinDash_ne_nil (x : List Char) (rest : List (List Char)) (hx : x ≠ []) : joinDash (x :: rest) ≠ [] := by
  cases rest with
  | nil => simpa [joinDash] using hx
  | cons y r => simp [joinDash, hx]

theorem finish_ne_nil (st : St) (uuid : List Char) (h : Inv st) : finish st uuid ≠ [] := by
  obtain ⟨rest, hr⟩ := h.head
  unfold finish
  simp only
  split
  · rw [hr]; exact joinDash_ne_nil _ _ (by decide)
  · rw [hr]; exact joinDash_ne_nil _ _ (by decide)

end Protobom.Ident
