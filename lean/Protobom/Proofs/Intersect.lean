/- Refinement lemmas for `Intersect` and `RemoveNodes`. -/
import Protobom.Proofs.NodeAttrs

namespace Protobom

theorem find?_id_some (l : List Node) (i : String) (h : i ∈ l.map (·.id)) :
    ∃ n, l.find? (fun n => decide (n.id = i)) = some n ∧ n.id = i ∧ n ∈ l := by
  obtain ⟨m, hm, hmi⟩ := List.mem_map.mp h
  cases hf : l.find? (fun n => decide (n.id = i)) with
  | none =>
    rw [List.find?_eq_none] at hf
    exact absurd (by simpa using hmi) (hf m hm)
  | some n =>
    exact ⟨n, rfl, by simpa using List.find?_some hf, List.mem_of_find?_eq_some hf⟩

theorem indexed_some (nl : NodeList) (i : String) (h : i ∈ nl.ids) :
    ∃ n, nl.indexed i = some n ∧ n.id = i ∧ n ∈ nl.nodes := by
  unfold NodeList.indexed
  have : i ∈ nl.nodes.reverse.map (·.id) := by
    rw [List.map_reverse, List.mem_reverse]; exact h
  obtain ⟨n, h1, h2, h3⟩ := find?_id_some nl.nodes.reverse i this
  exact ⟨n, h1, h2, List.mem_reverse.mp h3⟩

theorem getNodeByID_some (nl : NodeList) (i : String) (h : i ∈ nl.ids) :
    ∃ n, nl.getNodeByID i = some n ∧ n.id = i ∧ n ∈ nl.nodes :=
  find?_id_some nl.nodes i h

/-- with unique identifiers the indexed node is *the* node with that identifier -/
theorem indexed_eq_of_nodup (nl : NodeList) (hnd : nl.ids.Nodup) (p : Node) (hp : p ∈ nl.nodes) :
    nl.indexed p.id = some p := by
  obtain ⟨n, h1, h2, h3⟩ := indexed_some nl p.id (List.mem_map.mpr ⟨p, hp, rfl⟩)
  have : n = p := nodup_map_inj (fun (x : Node) => x.id) nl.nodes hnd h3 hp h2
  rw [h1, this]

def sharedIds (a b : NodeList) : List String := a.ids.eraseDups.filter (· ∈ b.ids)

theorem mem_sharedIds (a b : NodeList) (x : String) : x ∈ sharedIds a b ↔ x ∈ a.ids ∧ x ∈ b.ids := by
  simp [sharedIds]

theorem sharedIds_nodup (a b : NodeList) : (sharedIds a b).Nodup :=
  List.Nodup.sublist List.filter_sublist (nodup_eraseDups _)

def intersectNode (a b : NodeList) (id : String) : Option Node :=
  match a.indexed id, b.indexed id with
  | some p, some q => some (p.update q)
  | _, _ => none

theorem intersect_nodes_eq (a b : NodeList) :
    (a.intersect b).nodes = (sharedIds a b).filterMap (intersectNode a b) := rfl

theorem filterMap_ids (a b : NodeList) (l : List String) (h : ∀ x ∈ l, x ∈ a.ids ∧ x ∈ b.ids) :
    (l.filterMap (intersectNode a b)).map (·.id) = l := by
  induction l with
  | nil => rfl
  | cons x xs ih =>
    obtain ⟨ha, hb⟩ := h x List.mem_cons_self
    obtain ⟨p, hp, hpi, _⟩ := indexed_some a x ha
    obtain ⟨q, hq, _, _⟩ := indexed_some b x hb
    simp only [List.filterMap_cons, intersectNode, hp, hq, List.map_cons, update_id, hpi]
    rw [ih (fun y hy => h y (List.mem_cons_of_mem _ hy))]

theorem intersect_ids_eq (a b : NodeList) : (a.intersect b).ids = sharedIds a b := by
  simp only [NodeList.ids, intersect_nodes_eq]
  exact filterMap_ids a b _ (fun x hx => (mem_sharedIds a b x).mp hx)

theorem intersect_ids (a b : NodeList) (x : String) :
    x ∈ (a.intersect b).ids ↔ x ∈ a.ids ∧ x ∈ b.ids := by
  rw [intersect_ids_eq, mem_sharedIds]

theorem intersect_ids_nodup (a b : NodeList) : (a.intersect b).ids.Nodup := by
  rw [intersect_ids_eq]; exact sharedIds_nodup a b

theorem intersect_roots (a b : NodeList) (x : String) :
    x ∈ (a.intersect b).roots ↔ (x ∈ a.ids ∧ x ∈ b.ids) ∧ (x ∈ a.roots ∨ x ∈ b.roots) := by
  rw [← mem_sharedIds]
  simp only [NodeList.intersect, NodeList.cleanEdges, List.mem_filter, decide_eq_true_eq, sharedIds]

theorem intersect_roots_nodup (a b : NodeList) : (a.intersect b).roots.Nodup :=
  List.Nodup.sublist List.filter_sublist (sharedIds_nodup a b)

theorem intersect_edges (a b : NodeList) (s t d) :
    (a.intersect b).HasEdge s t d ↔
      (a.HasEdge s t d ∨ b.HasEdge s t d) ∧ s ∈ (a.intersect b).ids ∧ d ∈ (a.intersect b).ids := by
  have h := cleanEdges_rel ({ nodes := (sharedIds a b).filterMap (intersectNode a b),
                              edges := intersectEdges a.edges b.edges,
                              roots := (sharedIds a b).filter (fun id => id ∈ a.roots ∨ id ∈ b.roots) } : NodeList) s t d
  simp only [NodeList.HasEdge] at h ⊢
  rw [intersectEdges_rel] at h
  exact h

theorem intersect_nodes_char (a b : NodeList) (ha : a.ids.Nodup) (hb : b.ids.Nodup) (x : Node) :
    x ∈ (a.intersect b).nodes ↔ ∃ p ∈ a.nodes, ∃ q ∈ b.nodes, q.id = p.id ∧ x = p.update q := by
  rw [intersect_nodes_eq, List.mem_filterMap]
  constructor
  · rintro ⟨i, hi, hx⟩
    obtain ⟨hia, hib⟩ := (mem_sharedIds a b i).mp hi
    obtain ⟨p, hp, hpi, hpm⟩ := indexed_some a i hia
    obtain ⟨q, hq, hqi, hqm⟩ := indexed_some b i hib
    simp only [intersectNode, hp, hq, Option.some.injEq] at hx
    exact ⟨p, hpm, q, hqm, hqi.trans hpi.symm, hx.symm⟩
  · rintro ⟨p, hp, q, hq, hqp, rfl⟩
    refine ⟨p.id, (mem_sharedIds a b p.id).mpr ⟨List.mem_map.mpr ⟨p, hp, rfl⟩, List.mem_map.mpr ⟨q, hq, hqp⟩⟩, ?_⟩
    simp only [intersectNode, indexed_eq_of_nodup a ha p hp]
    rw [← hqp, indexed_eq_of_nodup b hb q hq]

/-! ### RemoveNodes -/

theorem removeNodes_ids (nl : NodeList) (rm : List String) (x : String) :
    x ∈ (nl.removeNodes rm).ids ↔ x ∈ nl.ids ∧ x ∉ rm := by
  simp only [NodeList.removeNodes, NodeList.cleanEdges, NodeList.ids, List.mem_map, List.mem_filter,
    decide_eq_true_eq]
  constructor
  · rintro ⟨n, ⟨hn, hr⟩, rfl⟩; exact ⟨⟨n, hn, rfl⟩, hr⟩
  · rintro ⟨⟨n, hn, rfl⟩, hr⟩; exact ⟨n, ⟨hn, hr⟩, rfl⟩

theorem removeNodes_roots (nl : NodeList) (rm : List String) (x : String) :
    x ∈ (nl.removeNodes rm).roots ↔ x ∈ nl.roots ∧ x ∉ rm := by
  simp [NodeList.removeNodes, NodeList.cleanEdges]

theorem removeNodes_edges (nl : NodeList) (rm : List String) (s t d) :
    (nl.removeNodes rm).HasEdge s t d ↔
      nl.HasEdge s t d ∧ s ∈ (nl.removeNodes rm).ids ∧ d ∈ (nl.removeNodes rm).ids :=
  cleanEdges_rel _ s t d

end Protobom
