/- Lemmas about the small list combinators of the model (`modifyFirst`, `modifyLast`, `addNew`). -/
import Protobom.Proofs.CleanEdges

namespace Protobom

theorem map_modifyFirst {α β} (p : α → Bool) (f : α → α) (g : α → β) (h : ∀ x, g (f x) = g x) (l : List α) :
    (modifyFirst p f l).map g = l.map g := by
  induction l with
  | nil => rfl
  | cons x xs ih =>
    simp only [modifyFirst]
    split <;> simp [h, ih]

theorem map_modifyLast {α β} (p : α → Bool) (f : α → α) (g : α → β) (h : ∀ x, g (f x) = g x) (l : List α) :
    (modifyLast p f l).map g = l.map g := by
  unfold modifyLast
  rw [List.map_reverse, map_modifyFirst p f g h, List.map_reverse, List.reverse_reverse]

theorem length_modifyFirst {α} (p : α → Bool) (f : α → α) (l : List α) :
    (modifyFirst p f l).length = l.length := by
  induction l with
  | nil => rfl
  | cons x xs ih => simp only [modifyFirst]; split <;> simp [ih]

theorem mem_modifyFirst {α} (p : α → Bool) (f : α → α) (l : List α) (y : α) :
    y ∈ modifyFirst p f l → y ∈ l ∨ ∃ x ∈ l, p x = true ∧ y = f x := by
  induction l with
  | nil => simp [modifyFirst]
  | cons x xs ih =>
    simp only [modifyFirst]
    split
    · rename_i hp
      intro hy
      cases hy with
      | head => exact Or.inr ⟨x, List.mem_cons_self, hp, rfl⟩
      | tail _ h => exact Or.inl (List.mem_cons_of_mem _ h)
    · intro hy
      cases hy with
      | head => exact Or.inl List.mem_cons_self
      | tail _ h =>
        rcases ih h with h1 | ⟨z, hz, hpz, rfl⟩
        · exact Or.inl (List.mem_cons_of_mem _ h1)
        · exact Or.inr ⟨z, List.mem_cons_of_mem _ hz, hpz, rfl⟩

theorem mem_modifyLast {α} (p : α → Bool) (f : α → α) (l : List α) (y : α) :
    y ∈ modifyLast p f l → y ∈ l ∨ ∃ x ∈ l, p x = true ∧ y = f x := by
  unfold modifyLast
  intro h
  rw [List.mem_reverse] at h
  rcases mem_modifyFirst p f _ y h with h1 | ⟨x, hx, hp, rfl⟩
  · exact Or.inl (List.mem_reverse.mp h1)
  · exact Or.inr ⟨x, List.mem_reverse.mp hx, hp, rfl⟩

theorem mem_addNew (ts xs : List String) (d : String) : d ∈ addNew ts xs ↔ d ∈ ts ∨ d ∈ xs := by
  unfold addNew
  induction xs generalizing ts with
  | nil => simp
  | cons x xs ih =>
    simp only [List.foldl_cons]
    rw [ih]
    by_cases hx : x ∈ ts
    · simp only [hx, if_true, List.mem_cons]
      constructor
      · rintro (h | h)
        · exact Or.inl h
        · exact Or.inr (Or.inr h)
      · rintro (h | h | h)
        · exact Or.inl h
        · exact Or.inl (h ▸ hx)
        · exact Or.inr h
    · simp only [hx, if_false, List.mem_append, List.mem_cons, List.mem_singleton, List.not_mem_nil, or_false]
      constructor
      · rintro ((h | h) | h)
        · exact Or.inl h
        · exact Or.inr (Or.inl h)
        · exact Or.inr (Or.inr h)
      · rintro (h | h | h)
        · exact Or.inl (Or.inl h)
        · exact Or.inl (Or.inr h)
        · exact Or.inr h

/-- Modifying the target list of the first edge with key `k` by a function that adds exactly
    the elements of `extra` adds exactly the triples `(k, d)`, `d ∈ extra`, to the relation. -/
theorem hasEdge_modifyFirst (k : Key) (g : List String → List String) (extra : List String)
    (hg : ∀ ts d, d ∈ g ts ↔ d ∈ ts ∨ d ∈ extra) (acc : List Edge) (h : ∃ e ∈ acc, e.key = k)
    (s : String) (t : Int) (d : String) :
    HasEdgeL (modifyFirst (fun e => e.key = k) (fun e => { e with tos := g e.tos }) acc) s t d ↔
      HasEdgeL acc s t d ∨ ((s, t) = k ∧ d ∈ extra) := by
  induction acc with
  | nil => obtain ⟨e, he, _⟩ := h; cases he
  | cons x xs ih =>
    simp only [modifyFirst]
    by_cases hx : x.key = k
    · simp only [hx, decide_true, if_true]
      unfold HasEdgeL
      simp only [List.mem_cons, exists_eq_or_imp, hg]
      constructor
      · rintro (⟨h1, h2, h3 | h3⟩ | h4)
        · exact Or.inl (Or.inl ⟨h1, h2, h3⟩)
        · refine Or.inr ⟨?_, h3⟩
          rw [← hx, ← h1, ← h2]; rfl
        · exact Or.inl (Or.inr h4)
      · rintro ((⟨h1, h2, h3⟩ | h4) | ⟨h5, h6⟩)
        · exact Or.inl ⟨h1, h2, Or.inl h3⟩
        · exact Or.inr h4
        · refine Or.inl ⟨?_, ?_, Or.inr h6⟩
          · have := congrArg Prod.fst (hx.trans h5.symm); exact this
          · have := congrArg Prod.snd (hx.trans h5.symm); exact this
    · simp only [hx, decide_false, Bool.false_eq_true, if_false]
      have h' : ∃ e ∈ xs, e.key = k := by
        obtain ⟨e, he, hk⟩ := h
        cases he with
        | head => exact absurd hk hx
        | tail _ he' => exact ⟨e, he', hk⟩
      have := ih h'
      unfold HasEdgeL at this ⊢
      simp only [List.mem_cons, exists_eq_or_imp]
      rw [this]
      constructor
      · rintro (h1 | h2 | h3)
        · exact Or.inl (Or.inl h1)
        · exact Or.inl (Or.inr h2)
        · exact Or.inr h3
      · rintro ((h1 | h2) | h3)
        · exact Or.inl h1
        · exact Or.inr (Or.inl h2)
        · exact Or.inr (Or.inr h3)

theorem keys_modifyFirst (p : Edge → Bool) (g : Edge → List String) (acc : List Edge) :
    (modifyFirst p (fun e => { e with tos := g e }) acc).map Edge.key = acc.map Edge.key :=
  map_modifyFirst p (fun e => { e with tos := g e }) Edge.key (fun _ => rfl) acc

theorem nodup_reverse' {α} (l : List α) (h : l.Nodup) : l.reverse.Nodup :=
  (List.reverse_perm l).nodup_iff.mpr h

theorem nodup_map_inj {α β} (f : α → β) (l : List α) (h : (l.map f).Nodup) {a b : α}
    (ha : a ∈ l) (hb : b ∈ l) (hab : f a = f b) : a = b := by
  induction l with
  | nil => cases ha
  | cons x xs ih =>
    rw [List.map_cons] at h
    have h' := List.nodup_cons.mp h
    cases ha with
    | head =>
      cases hb with
      | head => rfl
      | tail _ hb' => exact absurd (List.mem_map.mpr ⟨b, hb', hab.symm⟩) h'.1
    | tail _ ha' =>
      cases hb with
      | head => exact absurd (List.mem_map.mpr ⟨a, ha', hab⟩) h'.1
      | tail _ hb' => exact ih h'.2 ha' hb'

/-- pigeonhole: a duplicate-free list whose elements all lie in `l₂` is no longer than `l₂` -/
theorem List.Nodup.length_le_of_subset {α} [DecidableEq α] {l₁ l₂ : List α} (hnd : l₁.Nodup)
    (hsub : ∀ x ∈ l₁, x ∈ l₂) : l₁.length ≤ l₂.length := by
  induction l₁ generalizing l₂ with
  | nil => simp
  | cons a as ih =>
    have hnd' := List.nodup_cons.mp hnd
    have ha : a ∈ l₂ := hsub a List.mem_cons_self
    have : as.length ≤ (l₂.erase a).length := by
      apply ih hnd'.2
      intro x hx
      have hxa : x ≠ a := fun h => hnd'.1 (h ▸ hx)
      exact (List.mem_erase_of_ne hxa).mpr (hsub x (List.mem_cons_of_mem _ hx))
    rw [List.length_erase_of_mem ha] at this
    have hpos : 0 < l₂.length := List.length_pos_of_mem ha
    simp only [List.length_cons]
    omega

end Protobom
