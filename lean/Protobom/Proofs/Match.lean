/- Lemmas for node matching: the declarative rule and permutation invariance. -/
import Protobom.Proofs.WF

namespace Protobom

/-- how many candidates: none, exactly one, several -/
inductive Card where
  | zero | one (n : Node) | many

def card : List Node → Card
  | [] => .zero
  | [n] => .one n
  | _ :: _ :: _ => .many

theorem card_perm {l l' : List Node} (h : l.Perm l') : card l = card l' := by
  match l, l', h with
  | [], l', h => rw [List.Perm.eq_nil (h.symm)]
  | [n], l', h => rw [List.perm_singleton.mp h.symm]
  | a :: b :: l, l', h =>
    have hl := h.length_eq
    match l', hl with
    | c :: d :: l'', _ => rfl

/-- the documented matching rule, written declaratively:
    a unique node whose common hash algorithms all agree; else (no such node) a unique node with
    the same package URL; the package URL breaks ties among several hash matches; otherwise an
    explicit ambiguity -/
def specMatch (nl : NodeList) (p : Node) : MatchResult :=
  let byHash := nl.nodes.filter (fun n => n.hashesMatch p.hashes)
  match card byHash with
  | .one n => .found n
  | .zero =>
    if p.purl = "" then .none else
    match card (nl.nodes.filter (fun n => n.purl = p.purl)) with
    | .zero => .none
    | .one n => .found n
    | .many => .ambiguous
  | .many =>
    if p.purl = "" then .ambiguous else
    match card (byHash.filter (fun n => n.purl = p.purl)) with
    | .one n => .found n
    | _ => .ambiguous

theorem hashesMatch_indexed (nh th : List (Int × String)) (h : hashesMatchL nh th = true) :
    th.any (fun kv => nh.lookup kv.1 = some kv.2) = true := by
  unfold hashesMatchL at h
  split at h
  · cases h
  · simp only [Bool.and_eq_true, List.all_eq_true, List.mem_filter, decide_eq_true_eq,
      Bool.not_eq_true', List.isEmpty_eq_false_iff_exists_mem] at h
    obtain ⟨hall, kv, hkv⟩ := h
    rw [List.any_eq_true]
    exact ⟨kv, hkv.1, by simpa using hall kv hkv⟩

theorem match_cands_eq (nl : NodeList) (p : Node) :
    nl.nodes.filter (fun n => (p.hashes.any (fun kv => n.hashes.lookup kv.1 = some kv.2)) ∧
        n.hashesMatch p.hashes) = nl.nodes.filter (fun n => n.hashesMatch p.hashes) := by
  apply List.filter_congr
  intro n _
  by_cases hm : n.hashesMatch p.hashes = true
  · have := hashesMatch_indexed n.hashes p.hashes hm
    simp [hm, this]
  · simp [hm]

theorem getMatchingNode_eq_spec (nl : NodeList) (p : Node) : nl.getMatchingNode p = specMatch nl p := by
  unfold NodeList.getMatchingNode specMatch
  simp only [match_cands_eq]
  generalize nl.nodes.filter (fun n => n.hashesMatch p.hashes) = cs
  match cs with
  | [] =>
    simp only [card]
    split
    · rfl
    · generalize nl.nodes.filter (fun n => decide (n.purl = p.purl)) = ps
      match ps with
      | [] => rfl
      | [_] => rfl
      | _ :: _ :: _ => rfl
  | [n] => rfl
  | a :: b :: cs =>
    simp only [card]
    split
    · rfl
    · rename_i hp
      have : (a :: b :: cs).filter (fun n => decide (n.purl ≠ "" ∧ n.purl = p.purl)) =
             (a :: b :: cs).filter (fun n => decide (n.purl = p.purl)) := by
        apply List.filter_congr
        intro n _
        by_cases hn : n.purl = p.purl
        · simp [hn, hp]
        · simp [hn]
      rw [this]
      generalize (a :: b :: cs).filter (fun n => decide (n.purl = p.purl)) = ps
      match ps with
      | [] => rfl
      | [_] => rfl
      | _ :: _ :: _ => rfl

theorem specMatch_perm (a b : NodeList) (p : Node) (h : a.nodes.Perm b.nodes) :
    specMatch a p = specMatch b p := by
  unfold specMatch
  have h1 := card_perm (h.filter (fun n => n.hashesMatch p.hashes))
  have h2 := card_perm (h.filter (fun n => decide (n.purl = p.purl)))
  have h3 := card_perm ((h.filter (fun n => n.hashesMatch p.hashes)).filter (fun n => decide (n.purl = p.purl)))
  simp only [h1, h2, h3]

theorem specMatch_mem (nl : NodeList) (p n : Node) (h : specMatch nl p = .found n) : n ∈ nl.nodes := by
  have hc : ∀ (l : List Node) (m : Node), card l = .one m → m ∈ l := by
    intro l m hl
    match l, hl with
    | [x], hl => simp only [card, Card.one.injEq] at hl; subst hl; exact List.mem_singleton.mpr rfl
  unfold specMatch at h
  simp only at h
  split at h
  · rename_i m hm
    simp only [MatchResult.found.injEq] at h
    subst h
    exact (List.mem_filter.mp (hc _ _ hm)).1
  · split at h
    · cases h
    · split at h
      · cases h
      · rename_i m hm
        simp only [MatchResult.found.injEq] at h
        subst h
        exact (List.mem_filter.mp (hc _ _ hm)).1
      · cases h
  · split at h
    · cases h
    · split at h
      · rename_i m hm
        simp only [MatchResult.found.injEq] at h
        subst h
        exact (List.mem_filter.mp (List.mem_filter.mp (hc _ _ hm)).1).1
      · cases h

/-- `HashesMatch` does not depend on the iteration order of the probe's hash map -/
theorem hashesMatchL_perm (nh th th' : List (Int × String)) (h : th.Perm th') :
    hashesMatchL nh th = hashesMatchL nh th' := by
  unfold hashesMatchL
  have hf := h.filter (fun kv => (nh.lookup kv.1).isSome)
  have he : th.isEmpty = th'.isEmpty := by
    cases th with
    | nil => rw [List.Perm.eq_nil h.symm]
    | cons a as =>
      cases th' with
      | nil => exact absurd (List.Perm.eq_nil h) (by simp)
      | cons b bs => rfl
  have ha : (th.filter (fun kv => (nh.lookup kv.1).isSome)).all (fun kv => nh.lookup kv.1 = some kv.2) =
            (th'.filter (fun kv => (nh.lookup kv.1).isSome)).all (fun kv => nh.lookup kv.1 = some kv.2) := by
    rw [Bool.eq_iff_iff, List.all_eq_true, List.all_eq_true]
    exact ⟨fun hh x hx => hh x (hf.mem_iff.mpr hx), fun hh x hx => hh x (hf.mem_iff.mp hx)⟩
  have hi : (th.filter (fun kv => (nh.lookup kv.1).isSome)).isEmpty =
            (th'.filter (fun kv => (nh.lookup kv.1).isSome)).isEmpty := by
    rw [Bool.eq_iff_iff, List.isEmpty_iff, List.isEmpty_iff]
    exact ⟨fun hh => List.Perm.eq_nil (hh ▸ hf.symm), fun hh => List.Perm.eq_nil (hh ▸ hf)⟩
  simp only [he, ha, hi]

end Protobom
