/- The hierarchy builder of the CycloneDX serializer (`nest`) on containment forests:
   whatever the order in which nodes are visited, every visited node ends up holding its complete
   subtree, and exactly the nodes that have a visited parent are marked as nested. -/
import Protobom.Model.Cdx

namespace Protobom.Cdx

/-! ### the components store as a function -/

theorem lookup_setComp_same (m : List (String × Component)) (k : String) (c c' : Component)
    (h : m.lookup k = some c') : (setComp m k c).lookup k = some c := by
  unfold setComp
  have hany : m.any (·.1 = k) = true := by
    induction m with
    | nil => cases h
    | cons x xs ih =>
      obtain ⟨xk, xv⟩ := x
      simp only [List.lookup_cons] at h
      by_cases e : (k == xk) = true
      · have : xk = k := by simpa using (by simpa using e : k = xk).symm
        simp [this]
      · have e' : (k == xk) = false := by simpa using e
        simp only [e'] at h
        simp [ih h]
  rw [if_pos hany]
  clear hany
  induction m with
  | nil => cases h
  | cons x xs ih =>
    obtain ⟨xk, xv⟩ := x
    simp only [List.lookup_cons] at h
    by_cases e : (k == xk) = true
    · have hk : k = xk := by simpa using e
      subst hk
      simp
    · have e' : (k == xk) = false := by simpa using e
      simp only [e'] at h
      have hne : ¬ xk = k := by
        intro hh; rw [hh] at e'; simp at e'
      simp only [List.map_cons, hne, if_false, List.lookup_cons, e']
      exact ih h

theorem lookup_setComp_other (m : List (String × Component)) (k k' : String) (c : Component)
    (hne : k' ≠ k) (hk : (m.lookup k).isSome = true) : (setComp m k c).lookup k' = m.lookup k' := by
  unfold setComp
  have hany : m.any (·.1 = k) = true := by
    induction m with
    | nil => simp at hk
    | cons x xs ih =>
      obtain ⟨xk, xv⟩ := x
      simp only [List.lookup_cons] at hk
      by_cases e : (k == xk) = true
      · have : xk = k := by simpa using (by simpa using e : k = xk).symm
        simp [this]
      · have e' : (k == xk) = false := by simpa using e
        simp only [e'] at hk
        simp [ih hk]
  rw [if_pos hany]
  clear hany hk
  induction m with
  | nil => rfl
  | cons x xs ih =>
    obtain ⟨xk, xv⟩ := x
    simp only [List.map_cons, List.lookup_cons]
    by_cases e : xk = k
    · subst e
      have e1 : (k' == xk) = false := by simpa using hne
      simp only [if_true, List.lookup_cons, e1]
      exact ih
    · simp only [e, if_false, List.lookup_cons]
      split
      · rfl
      · exact ih

end Protobom.Cdx

namespace Protobom.Cdx

/-- the loop body of `nest` for one child -/
def nestBody (children : String → List String) (fuel : Nat) (id : String) (path : List String)
    (acc : NestSt × List Component) (t : String) : NestSt × List Component :=
  let st := acc.1
  if t ∈ id :: path ∨ t ∈ st.placed then acc
  else
    let st := { st with placed := t :: st.placed }
    let st := nest children fuel t (id :: path) st
    match st.comp t with
    | some c => (st, acc.2 ++ [c])
    | none => (st, acc.2)

theorem nest_zero (children : String → List String) (id : String) (path : List String) (st : NestSt) :
    nest children 0 id path st = st := rfl

theorem nest_succ (children : String → List String) (fuel : Nat) (id : String) (path : List String) (st : NestSt) :
    nest children (fuel + 1) id path st =
      if id ∈ st.built then st else
      let r := (children id).foldl (nestBody children fuel id path) ({ st with built := id :: st.built }, [])
      match r.1.comp id with
      | some c => { r.1 with comps := setComp r.1.comps id (c.withKids (c.kids ++ r.2)) }
      | none => r.1 := by
  rfl

/-! ### the specification: complete subtrees -/

/-- the component of `id` with its whole subtree nested, `fuel` levels deep -/
def tree (children : String → List String) (c0 : String → Component) : Nat → String → Component
  | 0, id => c0 id
  | f + 1, id => (c0 id).withKids ((c0 id).kids ++ (children id).map (tree children c0 f))

theorem tree_stable (children : String → List String) (c0 : String → Component) (ht : String → Nat)
    (hlt : ∀ id t, t ∈ children id → ht t < ht id) :
    ∀ (f f' : Nat) (id : String), ht id < f → ht id < f' → tree children c0 f id = tree children c0 f' id := by
  intro f
  induction f with
  | zero => intro f' id h; omega
  | succ f ih =>
    intro f' id h1 h2
    cases f' with
    | zero => omega
    | succ g =>
      simp only [tree]
      congr 2
      apply List.map_congr_left
      intro t ht'
      have := hlt id t ht'
      exact ih g t (by omega) (by omega)

/-- the complete subtree of `id` -/
def T (children : String → List String) (c0 : String → Component) (ht : String → Nat) (id : String) : Component :=
  tree children c0 (ht id + 1) id

theorem T_unfold (children : String → List String) (c0 : String → Component) (ht : String → Nat)
    (hlt : ∀ id t, t ∈ children id → ht t < ht id) (id : String) :
    T children c0 ht id = (c0 id).withKids ((c0 id).kids ++ (children id).map (T children c0 ht)) := by
  simp only [T, tree]
  congr 2
  apply List.map_congr_left
  intro t ht'
  have := hlt id t ht'
  exact tree_stable children c0 ht hlt _ _ t (by omega) (by omega)

end Protobom.Cdx

namespace Protobom.Cdx

/-- containment is a forest: children are strictly lower (no cycles), every node has at most one
    parent, no child is listed twice; `D` is the set of known identifiers, closed under children;
    `P0` are the identifiers marked as placed from the start (the root), which nobody contains -/
structure Forest (children : String → List String) (ht : String → Nat) (D : String → Prop) (P0 : List String) : Prop where
  lt : ∀ id t, t ∈ children id → ht t < ht id
  par : ∀ a b t, t ∈ children a → t ∈ children b → a = b
  nd : ∀ a, (children a).Nodup
  dom : ∀ id t, D id → t ∈ children id → D t
  p0 : ∀ id t, t ∈ children id → t ∉ P0

/-- the invariant of the second pass; `path` are the nodes whose children are being processed -/
structure Good (children : String → List String) (c0 : String → Component) (ht : String → Nat)
    (D : String → Prop) (P0 path : List String) (st : NestSt) : Prop where
  g1 : ∀ x, x ∈ st.built → x ∉ path → st.comp x = some (T children c0 ht x) ∧ ∀ t ∈ children x, t ∈ st.placed
  g2 : ∀ x, D x → (x ∉ st.built ∨ x ∈ path) → st.comp x = some (c0 x)
  g3 : ∀ t ∈ st.placed, t ∈ P0 ∨ ∃ p ∈ st.built, t ∈ children p
  g4 : ∀ a ∈ path, a ∈ st.built

/-- what one call of `nest` guarantees -/
structure NestPost (children : String → List String) (c0 : String → Component) (ht : String → Nat)
    (D : String → Prop) (P0 path : List String) (id : String) (st st' : NestSt) : Prop where
  good : Good children c0 ht D P0 path st'
  built_mono : ∀ x ∈ st.built, x ∈ st'.built
  placed_mono : ∀ x ∈ st.placed, x ∈ st'.placed
  built_id : id ∈ st'.built
  frame : ∀ t ∈ st'.placed, t ∈ st.placed ∨ ∃ p ∈ st'.built, p ∉ st.built ∧ t ∈ children p
  comp_old : ∀ x ∈ st.built, st'.comp x = st.comp x
  comp_out : ∀ x, x ∉ st'.built → st'.comp x = st.comp x
  built_src : ∀ x ∈ st'.built, x ∈ st.built ∨ x = id ∨ ∃ p, x ∈ children p

end Protobom.Cdx

namespace Protobom.Cdx

structure LoopInv (children : String → List String) (c0 : String → Component) (ht : String → Nat)
    (D : String → Prop) (P0 path : List String) (id : String) (st : NestSt) (done todo : List String)
    (acc : NestSt × List Component) : Prop where
  good : Good children c0 ht D P0 (id :: path) acc.1
  built_mono : ∀ x, x = id ∨ x ∈ st.built → x ∈ acc.1.built
  placed_mono : ∀ x ∈ st.placed, x ∈ acc.1.placed
  kids : acc.2 = done.map (T children c0 ht)
  todo_unplaced : ∀ t ∈ todo, t ∉ acc.1.placed
  done_placed : ∀ t ∈ done, t ∈ acc.1.placed
  frame : ∀ t ∈ acc.1.placed, t ∈ st.placed ∨ ∃ p ∈ acc.1.built, p ∉ st.built ∧ t ∈ children p
  comp_old : ∀ x, x = id ∨ x ∈ st.built → acc.1.comp x = st.comp x
  comp_out : ∀ x, x ∉ acc.1.built → acc.1.comp x = st.comp x
  built_src : ∀ x ∈ acc.1.built, x ∈ st.built ∨ x = id ∨ ∃ p, x ∈ children p

theorem nest_spec (children : String → List String) (c0 : String → Component) (ht : String → Nat)
    (D : String → Prop) (P0 : List String) (F : Forest children ht D P0) :
    ∀ (fuel : Nat) (id : String) (path : List String) (st : NestSt),
      Good children c0 ht D P0 path st → D id → ht id < fuel → id ∉ path → (∀ a ∈ path, ht id < ht a) →
      NestPost children c0 ht D P0 path id st (nest children fuel id path st) := by
  intro fuel
  induction fuel with
  | zero => intro id path st _ _ h; omega
  | succ fuel ih =>
    intro id path st hg hD hfuel hpath hpathht
    rw [nest_succ]
    by_cases hb : id ∈ st.built
    · rw [if_pos hb]
      exact ⟨hg, fun _ h => h, fun _ h => h, hb, fun t h => Or.inl h, fun _ _ => rfl, fun _ _ => rfl, fun _ h => Or.inl h⟩
    · rw [if_neg hb]
      -- before the loop no child of `id` is placed
      have hunplaced : ∀ t ∈ children id, t ∉ st.placed := by
        intro t ht' hp
        rcases hg.g3 t hp with h0 | ⟨p, hpb, hpc⟩
        · exact F.p0 id t ht' h0
        · exact hb (F.par p id t hpc ht' ▸ hpb)
      -- the loop
      have loop : ∀ (todo done : List String) (acc : NestSt × List Component), children id = done ++ todo →
          LoopInv children c0 ht D P0 path id st done todo acc →
          LoopInv children c0 ht D P0 path id st (done ++ todo) [] (todo.foldl (nestBody children fuel id path) acc) := by
        intro todo
        induction todo with
        | nil => intro done acc _ h; simpa using h
        | cons t todo iht =>
          intro done acc hsplit hinv
          simp only [List.foldl_cons]
          have htc : t ∈ children id := by rw [hsplit]; simp
          have hlt := F.lt id t htc
          have ht_ne_id : t ≠ id := fun e => by rw [e] at hlt; omega
          have ht_path : t ∉ path := fun hm => by have := hpathht t hm; omega
          have ht_unpl : t ∉ acc.1.placed := hinv.todo_unplaced t List.mem_cons_self
          have hcond : ¬ (t ∈ id :: path ∨ t ∈ acc.1.placed) := by
            rintro (h | h)
            · rcases List.mem_cons.mp h with e | e
              · exact ht_ne_id e
              · exact ht_path e
            · exact ht_unpl h
          -- the state handed to the recursive call
          let s2 : NestSt := { acc.1 with placed := t :: acc.1.placed }
          have hid_built : id ∈ acc.1.built := hinv.built_mono id (Or.inl rfl)
          have hg2 : Good children c0 ht D P0 (id :: path) s2 := by
            refine ⟨?_, ?_, ?_, ?_⟩
            · intro x hx hxp
              obtain ⟨a, b⟩ := hinv.good.g1 x hx hxp
              exact ⟨a, fun u hu => List.mem_cons_of_mem _ (b u hu)⟩
            · exact hinv.good.g2
            · intro u hu
              rcases List.mem_cons.mp hu with e | e
              · exact Or.inr ⟨id, hid_built, e ▸ htc⟩
              · exact hinv.good.g3 u e
            · exact hinv.good.g4
          have hDt : D t := F.dom id t hD htc
          have hpost := ih t (id :: path) s2 hg2 hDt (by omega)
            (by intro h; rcases List.mem_cons.mp h with e | e; exact ht_ne_id e; exact ht_path e)
            (by intro a ha; rcases List.mem_cons.mp ha with e | e
                · rw [e]; exact hlt
                · have := hpathht a e; omega)
          -- the body takes the else-branch and finds the finished subtree of `t`
          have hcomp_t : (nest children fuel t (id :: path) s2).comp t = some (T children c0 ht t) :=
            (hpost.good.g1 t hpost.built_id
              (by intro h; rcases List.mem_cons.mp h with e | e; exact ht_ne_id e; exact ht_path e)).1
          have hbody : nestBody children fuel id path acc t =
              (nest children fuel t (id :: path) s2, acc.2 ++ [T children c0 ht t]) := by
            unfold nestBody
            simp only [hcond, if_false]
            show (match (nest children fuel t (id :: path) s2).comp t with
              | some c => (nest children fuel t (id :: path) s2, acc.2 ++ [c])
              | none => (nest children fuel t (id :: path) s2, acc.2)) = _
            rw [hcomp_t]
          rw [hbody]
          have hsplit' : children id = (done ++ [t]) ++ todo := by rw [hsplit]; simp
          have hnd : (children id).Nodup := F.nd id
          have := iht (done ++ [t]) (nest children fuel t (id :: path) s2, acc.2 ++ [T children c0 ht t]) hsplit' ?_
          · simpa using this
          · -- the invariant after one child
            refine ⟨hpost.good, ?_, ?_, ?_, ?_, ?_, ?_, ?_, ?_, ?_⟩
            · intro x hx
              exact hpost.built_mono x (hinv.built_mono x hx)
            · intro x hx
              exact hpost.placed_mono x (List.mem_cons_of_mem _ (hinv.placed_mono x hx))
            · simp [hinv.kids]
            · intro u hu hup
              have huc : u ∈ children id := by rw [hsplit]; simp [hu]
              rcases hpost.frame u hup with h | ⟨p, hpb, hpnb, hpc⟩
              · rcases List.mem_cons.mp h with e | e
                · -- u = t contradicts Nodup
                  rw [hsplit] at hnd
                  have := (List.nodup_append.mp hnd).2.1
                  rw [e] at hu
                  exact (List.nodup_cons.mp this).1 hu
                · exact hinv.todo_unplaced u (List.mem_cons_of_mem _ hu) e
              · have : p = id := F.par p id u hpc huc
                exact hpnb (this ▸ hid_built)
            · intro u hu
              rcases List.mem_append.mp hu with h | h
              · exact hpost.placed_mono u (List.mem_cons_of_mem _ (hinv.done_placed u h))
              · simp only [List.mem_singleton] at h
                rw [h]; exact hpost.placed_mono t List.mem_cons_self
            · intro u hu
              rcases hpost.frame u hu with h | ⟨p, hpb, hpnb, hpc⟩
              · rcases List.mem_cons.mp h with e | e
                · exact Or.inr ⟨id, hpost.built_mono id hid_built, hb, e ▸ htc⟩
                · rcases hinv.frame u e with h' | ⟨p, hpb, hpnb, hpc⟩
                  · exact Or.inl h'
                  · exact Or.inr ⟨p, hpost.built_mono p hpb, hpnb, hpc⟩
              · exact Or.inr ⟨p, hpb, fun hps => hpnb (hinv.built_mono p (Or.inr hps)), hpc⟩
            · intro x hx
              rw [hpost.comp_old x (hinv.built_mono x hx)]
              exact hinv.comp_old x hx
            · intro x hx
              rw [hpost.comp_out x hx]
              exact hinv.comp_out x (fun h => hx (hpost.built_mono x h))
            · intro x hx
              rcases hpost.built_src x hx with h | h | h
              · exact hinv.built_src x h
              · exact Or.inr (Or.inr ⟨id, h ▸ htc⟩)
              · exact Or.inr (Or.inr h)
      -- initial loop invariant
      let st1 : NestSt := { st with built := id :: st.built }
      have hinit : LoopInv children c0 ht D P0 path id st [] (children id) (st1, []) := by
        refine ⟨⟨?_, ?_, ?_, ?_⟩, ?_, ?_, ?_, ?_, ?_, ?_, ?_, ?_, ?_⟩
        · intro x hx hxp
          rcases List.mem_cons.mp hx with e | e
          · exact absurd (e ▸ List.mem_cons_self) hxp
          · exact hg.g1 x e (fun h => hxp (List.mem_cons_of_mem _ h))
        · intro x hDx hx
          apply hg.g2 x hDx
          rcases hx with h | h
          · exact Or.inl (fun hb' => h (List.mem_cons_of_mem _ hb'))
          · rcases List.mem_cons.mp h with e | e
            · exact Or.inl (e ▸ hb)
            · exact Or.inr e
        · intro u hu
          rcases hg.g3 u hu with h | ⟨p, hp, hc⟩
          · exact Or.inl h
          · exact Or.inr ⟨p, List.mem_cons_of_mem _ hp, hc⟩
        · intro a ha
          rcases List.mem_cons.mp ha with e | e
          · exact e ▸ List.mem_cons_self
          · exact List.mem_cons_of_mem _ (hg.g4 a e)
        · intro x hx
          rcases hx with e | e
          · exact e ▸ List.mem_cons_self
          · exact List.mem_cons_of_mem _ e
        · intro x hx; exact hx
        · rfl
        · exact hunplaced
        · intro t ht'; cases ht'
        · intro t ht'; exact Or.inl ht'
        · intro x _; rfl
        · intro x _; rfl
        · intro x hx
          rcases List.mem_cons.mp hx with e | e
          · exact Or.inr (Or.inl e)
          · exact Or.inl e
      have hfin := loop (children id) [] (st1, []) (by simp) hinit
      simp only [List.nil_append] at hfin
      -- the component of `id` is still the initial one
      have hcid : ((children id).foldl (nestBody children fuel id path) (st1, [])).1.comp id = some (c0 id) := by
        rw [hfin.comp_old id (Or.inl rfl)]
        exact hg.g2 id hD (Or.inl hb)
      simp only
      rw [hcid]
      simp only
      rw [hfin.kids, ← T_unfold children c0 ht F.lt id]
      -- the final state
      generalize hr : (children id).foldl (nestBody children fuel id path) (st1, []) = r at hfin hcid
      have hcomp_id : ∀ x, ({ r.1 with comps := setComp r.1.comps id (T children c0 ht id) } : NestSt).comp x =
          if x = id then some (T children c0 ht id) else r.1.comp x := by
        intro x
        simp only [NestSt.comp]
        by_cases hx : x = id
        · rw [if_pos hx, hx]
          exact lookup_setComp_same _ _ _ _ hcid
        · rw [if_neg hx]
          exact lookup_setComp_other _ _ _ _ hx (by simp only [NestSt.comp] at hcid; rw [hcid]; rfl)
      refine ⟨⟨?_, ?_, ?_, ?_⟩, ?_, ?_, ?_, ?_, ?_, ?_, hfin.built_src⟩
      · intro x hx hxp
        rw [hcomp_id]
        by_cases hxi : x = id
        · rw [if_pos hxi, hxi]
          exact ⟨rfl, fun t ht' => hfin.done_placed t ht'⟩
        · rw [if_neg hxi]
          exact hfin.good.g1 x hx (by intro h; rcases List.mem_cons.mp h with e | e; exact hxi e; exact hxp e)
      · intro x hDx hx
        rw [hcomp_id]
        have hxi : x ≠ id := by
          rintro rfl
          rcases hx with h | h
          · exact h (hfin.built_mono x (Or.inl rfl))
          · exact hpath h
        rw [if_neg hxi]
        apply hfin.good.g2 x hDx
        rcases hx with h | h
        · exact Or.inl h
        · exact Or.inr (List.mem_cons_of_mem _ h)
      · exact hfin.good.g3
      · intro a ha
        exact hfin.built_mono a (Or.inr (hg.g4 a ha))
      · intro x hx; exact hfin.built_mono x (Or.inr hx)
      · exact hfin.placed_mono
      · exact hfin.built_mono id (Or.inl rfl)
      · exact hfin.frame
      · intro x hx
        rw [hcomp_id]
        have hxi : x ≠ id := fun e => hb (e ▸ hx)
        rw [if_neg hxi]
        exact hfin.comp_old x (Or.inr hx)
      · intro x hx
        rw [hcomp_id]
        have hxi : x ≠ id := fun e => hx (e ▸ hfin.built_mono id (Or.inl rfl))
        rw [if_neg hxi]
        exact hfin.comp_out x hx

end Protobom.Cdx

namespace Protobom.Cdx

/-- the driver loop of the second pass: every node except the root is a starting point -/
def visit (children : String → List String) (fuel : Nat) (root : String) (ids : List String) (st : NestSt) : NestSt :=
  ids.foldl (fun st x => if x = root then st else nest children fuel x [] st) st

theorem visit_spec (children : String → List String) (c0 : String → Component) (ht : String → Nat)
    (D : String → Prop) (P0 : List String) (F : Forest children ht D P0) (fuel : Nat) (root : String) :
    ∀ (ids : List String) (st : NestSt), Good children c0 ht D P0 [] st → (∀ x ∈ ids, D x ∧ ht x < fuel) →
      Good children c0 ht D P0 [] (visit children fuel root ids st) ∧
      (∀ x ∈ st.built, x ∈ (visit children fuel root ids st).built) ∧
      (∀ x ∈ st.placed, x ∈ (visit children fuel root ids st).placed) ∧
      (∀ x ∈ ids, x ≠ root → x ∈ (visit children fuel root ids st).built) ∧
      (∀ x ∈ (visit children fuel root ids st).built, x ∈ st.built ∨ (x ∈ ids ∧ x ≠ root) ∨ ∃ p, x ∈ children p) := by
  intro ids
  induction ids with
  | nil =>
    intro st hg _
    refine ⟨hg, fun _ h => h, fun _ h => h, ?_, fun _ h => Or.inl h⟩
    intro x hx; cases hx
  | cons y ys ih =>
    intro st hg hids
    simp only [visit, List.foldl_cons]
    by_cases hy : y = root
    · rw [if_pos hy]
      obtain ⟨a, b, c, d, e⟩ := ih st hg (fun x hx => hids x (List.mem_cons_of_mem _ hx))
      refine ⟨a, b, c, ?_, ?_⟩
      · intro x hx hxr
        rcases List.mem_cons.mp hx with h | h
        · exact absurd (h.trans hy) hxr
        · exact d x h hxr
      · intro x hx
        rcases e x hx with h | ⟨h1, h2⟩ | h
        · exact Or.inl h
        · exact Or.inr (Or.inl ⟨List.mem_cons_of_mem _ h1, h2⟩)
        · exact Or.inr (Or.inr h)
    · rw [if_neg hy]
      have hpost := nest_spec children c0 ht D P0 F fuel y [] st hg (hids y List.mem_cons_self).1
        (hids y List.mem_cons_self).2 (by simp) (by intro a ha; cases ha)
      obtain ⟨a, b, c, d, e⟩ := ih _ hpost.good (fun x hx => hids x (List.mem_cons_of_mem _ hx))
      refine ⟨a, fun x hx => b x (hpost.built_mono x hx), fun x hx => c x (hpost.placed_mono x hx), ?_, ?_⟩
      · intro x hx hxr
        rcases List.mem_cons.mp hx with h | h
        · rw [h]; exact b y hpost.built_id
        · exact d x h hxr
      · intro x hx
        rcases e x hx with h | ⟨h1, h2⟩ | h
        · rcases hpost.built_src x h with h' | h' | h'
          · exact Or.inl h'
          · exact Or.inr (Or.inl ⟨h' ▸ List.mem_cons_self, h' ▸ hy⟩)
          · exact Or.inr (Or.inr h')
        · exact Or.inr (Or.inl ⟨List.mem_cons_of_mem _ h1, h2⟩)
        · exact Or.inr (Or.inr h)

theorem lookup_isSome_of_mem (dict : List (String × Component)) (kv : String × Component) (h : kv ∈ dict) :
    (dict.lookup kv.1).isSome = true := by
  induction dict with
  | nil => cases h
  | cons x xs ih =>
    obtain ⟨xk, xv⟩ := x
    simp only [List.lookup_cons]
    by_cases e : (kv.1 == xk) = true
    · simp [e]
    · have e' : (kv.1 == xk) = false := by simpa using e
      simp only [e']
      rcases List.mem_cons.mp h with h' | h'
      · rw [h'] at e'; simp at e'
      · exact ih h'

/-- **the second pass on a containment forest**: after visiting the nodes in ANY order, an
    identifier is marked as nested exactly when it is the root or has a (non-root) parent, and every
    component that is not nested carries its complete subtree -/
theorem second_pass_spec (children : String → List String) (ht : String → Nat) (root : String)
    (dict : List (String × Component)) (fuel : Nat) (ids : List String) (dflt : Component)
    (F : Forest children ht (fun x => (dict.lookup x).isSome = true) [root])
    (hch : ∀ p, children p ≠ [] → (dict.lookup p).isSome = true)
    (hids : ∀ x ∈ ids, (dict.lookup x).isSome = true ∧ ht x < fuel)
    (hall : ∀ x, (dict.lookup x).isSome = true → x ≠ root → x ∈ ids) :
    let c0 : String → Component := fun x => (dict.lookup x).getD dflt
    let st := visit children fuel root ids { placed := [root], built := [], comps := dict }
    (∀ x, x ∈ st.placed ↔ x = root ∨ ∃ p, p ≠ root ∧ (dict.lookup p).isSome = true ∧ x ∈ children p) ∧
    (dict.filter (fun kv => kv.1 ∉ st.placed)).filterMap (fun kv => st.comp kv.1) =
      (dict.filter (fun kv => kv.1 ∉ st.placed)).map (fun kv => T children c0 ht kv.1) := by
  intro c0 st
  have hg0 : Good children c0 ht (fun x => (dict.lookup x).isSome = true) [root] []
      { placed := [root], built := [], comps := dict } := by
    refine ⟨?_, ?_, ?_, ?_⟩
    · intro x hx; cases hx
    · intro x hx _
      simp only [NestSt.comp, c0]
      cases h : dict.lookup x with
      | none => rw [h] at hx; cases hx
      | some c => rfl
    · intro t ht'; exact Or.inl ht'
    · intro a ha; cases ha
  obtain ⟨hg, _, hpm, hbuilt, hsrc⟩ := visit_spec children c0 ht _ [root] F fuel root ids _ hg0 hids
  have hroot_nb : root ∉ st.built := by
    intro h
    rcases hsrc root h with h' | ⟨_, h'⟩ | ⟨p, h'⟩
    · cases h'
    · exact h' rfl
    · exact F.p0 p root h' (by simp)
  have hplaced : ∀ x, x ∈ st.placed ↔ x = root ∨ ∃ p, p ≠ root ∧ (dict.lookup p).isSome = true ∧ x ∈ children p := by
    intro x
    constructor
    · intro hx
      rcases hg.g3 x hx with h | ⟨p, hp, hc⟩
      · exact Or.inl (by simpa using h)
      · refine Or.inr ⟨p, fun e => hroot_nb (e ▸ hp), hch p (fun e => by rw [e] at hc; cases hc), hc⟩
    · rintro (h | ⟨p, hpr, hpd, hc⟩)
      · rw [h]; exact hpm root (by simp)
      · exact (hg.g1 p (hbuilt p (hall p hpd hpr) hpr) (by simp)).2 x hc
  refine ⟨hplaced, ?_⟩
  -- every component that is not nested is complete
  have : ∀ kv ∈ dict.filter (fun kv => kv.1 ∉ st.placed), st.comp kv.1 = some (T children c0 ht kv.1) := by
    intro kv hkv
    rw [List.mem_filter] at hkv
    have hnp : kv.1 ∉ st.placed := by simpa using hkv.2
    have hD := lookup_isSome_of_mem dict kv hkv.1
    have hne : kv.1 ≠ root := fun e => hnp ((hplaced kv.1).mpr (Or.inl e))
    exact (hg.g1 kv.1 (hbuilt kv.1 (hall kv.1 hD hne) hne) (by simp)).1
  generalize dict.filter (fun kv => kv.1 ∉ st.placed) = l at this
  induction l with
  | nil => rfl
  | cons kv l ih =>
    simp only [List.filterMap_cons, List.map_cons, this kv List.mem_cons_self]
    rw [ih (fun x hx => this x (List.mem_cons_of_mem _ hx))]

end Protobom.Cdx

namespace Protobom.Cdx

/-! ### the dictionary and the children map -/

theorem any_key_iff_lookup (m : List (String × Component)) (k : String) :
    m.any (·.1 = k) = true ↔ (m.lookup k).isSome = true := by
  induction m with
  | nil => simp
  | cons x xs ih =>
    obtain ⟨xk, xv⟩ := x
    simp only [List.any_cons, List.lookup_cons, Bool.or_eq_true, decide_eq_true_eq]
    by_cases e : k = xk
    · subst e; simp
    · have e' : (k == xk) = false := by simpa using e
      have e2 : ¬ xk = k := fun h => e h.symm
      simp only [e', e2, false_or]
      exact ih

theorem dictOf_step_keys (d : List (String × Component)) (n : Node) (k : String) :
    ((if d.any (·.1 = n.id) then d.map (fun kv => if kv.1 = n.id then (n.id, nodeToComponent n) else kv)
      else d ++ [(n.id, nodeToComponent n)]).any (·.1 = k)) = (d.any (·.1 = k) || decide (k = n.id)) := by
  by_cases h : d.any (·.1 = n.id) = true
  · rw [if_pos h]
    have : (d.map (fun kv => if kv.1 = n.id then (n.id, nodeToComponent n) else kv)).any (·.1 = k) = d.any (·.1 = k) := by
      rw [List.any_map]
      apply List.any_congr
      · rfl
      · intro kv
        simp only [Function.comp]
        by_cases e : kv.1 = n.id
        · simp [e]
        · simp [e]
    rw [this]
    by_cases e : k = n.id
    · subst e; simp [h]
    · simp [e]
  · rw [if_neg h]
    simp only [List.any_append, List.any_cons, List.any_nil, Bool.or_false]
    congr 1
    simp [eq_comm]

theorem dictOf_keys_aux (nodes : List Node) (d : List (String × Component)) (k : String) :
    ((nodes.foldl (fun d n =>
      let c := nodeToComponent n
      if d.any (·.1 = n.id) then d.map (fun kv => if kv.1 = n.id then (n.id, c) else kv) else d ++ [(n.id, c)]) d).any (·.1 = k))
      = (d.any (·.1 = k) || decide (k ∈ nodes.map (·.id))) := by
  induction nodes generalizing d with
  | nil => simp
  | cons n ns ih =>
    simp only [List.foldl_cons]
    rw [ih, dictOf_step_keys]
    simp only [List.map_cons, List.mem_cons, Bool.or_assoc, Bool.decide_or]

/-- the dictionary has exactly the identifiers of the nodes as keys -/
theorem dictOf_known (nodes : List Node) (k : String) :
    ((dictOf nodes).lookup k).isSome = true ↔ k ∈ nodes.map (·.id) := by
  rw [← any_key_iff_lookup]
  unfold dictOf
  rw [dictOf_keys_aux]
  simp

theorem lookup_map_keys {β} (m : List (String × β)) (f : String × β → String × β) (hf : ∀ kv, (f kv).1 = kv.1)
    (x : String) : ((m.map f).lookup x).isSome = (m.lookup x).isSome := by
  induction m with
  | nil => rfl
  | cons y ys ih =>
    have hy := hf y
    obtain ⟨yk, yv⟩ := y
    simp only [List.map_cons]
    cases hfy : f (yk, yv) with
    | mk a b =>
      rw [hfy] at hy
      simp only at hy
      subst hy
      simp only [List.lookup_cons]
      split
      · rfl
      · exact ih

theorem lookup_append_single {β} (m : List (String × β)) (k : String) (v : β) (x : String) :
    ((m ++ [(k, v)]).lookup x).isSome = true → (m.lookup x).isSome = true ∨ x = k := by
  induction m with
  | nil =>
    simp only [List.nil_append, List.lookup_cons, List.lookup_nil]
    by_cases e : (x == k) = true
    · intro _; exact Or.inr (by simpa using e)
    · have e' : (x == k) = false := by simpa using e
      simp [e']
  | cons y ys ih =>
    obtain ⟨yk, yv⟩ := y
    simp only [List.cons_append, List.lookup_cons]
    split
    · intro _; exact Or.inl rfl
    · exact ih

theorem addChildren_keys (m : List (String × List String)) (k : String) (vs : List String) (x : String) :
    ((addChildren m k vs).lookup x).isSome = true → (m.lookup x).isSome = true ∨ x = k := by
  unfold addChildren
  split
  · intro h
    left
    rw [lookup_map_keys] at h
    · exact h
    · intro kv
      by_cases e : kv.1 = k
      · simp [e]
      · simp [e]
  · exact lookup_append_single m k vs x

/-- the children map of the first pass has only known identifiers as keys -/
theorem pass1_children_known (known : String → Bool) (edges : List Edge) (p1 : Pass1)
    (h : pass1 known edges = .ok p1) (x : String) (hx : (p1.children.lookup x).isSome = true) : known x = true := by
  unfold pass1 at h
  -- generalise the accumulator
  have gen : ∀ (es : List Edge) (acc : Outcome Pass1) (r : Pass1),
      (∀ a, acc = .ok a → ∀ y, (a.children.lookup y).isSome = true → known y = true) →
      es.foldl (fun (acc : Outcome Pass1) e =>
        acc.bind fun st =>
          if !known e.src then .err
          else if e.ty = 5 then
            if e.tos.all known then .ok { st with children := addChildren st.children e.src e.tos } else .err
          else if e.ty = 10 then
            let r := e.tos.foldl (fun (a : Option (List String)) t =>
              a.bind fun ts => if t ∈ ts then some ts else if known t then some (ts ++ [t]) else none) (some [])
            match r with
            | some ts => .ok { st with deps := st.deps ++ [(e.src, ts)] }
            | none => .err
          else .ok st) acc = .ok r →
      ∀ y, (r.children.lookup y).isSome = true → known y = true := by
    intro es
    induction es with
    | nil => intro acc r hacc hr; simp only [List.foldl_nil] at hr; exact hacc r hr
    | cons e es ih =>
      intro acc r hacc hr
      simp only [List.foldl_cons] at hr
      apply ih _ r _ hr
      intro a ha y hy
      cases acc with
      | err => simp [Outcome.bind] at ha
      | panic s => simp [Outcome.bind] at ha
      | ok st =>
        simp only [Outcome.bind] at ha
        by_cases hk : known e.src = true
        · simp only [hk, Bool.not_true, Bool.false_eq_true, if_false] at ha
          by_cases h5 : e.ty = 5
          · simp only [h5, if_true] at ha
            split at ha
            · cases ha
              rcases addChildren_keys _ _ _ _ hy with h' | h'
              · exact hacc _ rfl y h'
              · rw [h']; exact hk
            · cases ha
          · simp only [h5, if_false] at ha
            split at ha
            · split at ha
              · cases ha; exact hacc _ rfl y hy
              · cases ha
            · cases ha; exact hacc _ rfl y hy
        · have hk' : known e.src = false := by simpa using hk
          simp [hk'] at ha
  exact gen edges (.ok {}) p1 (by intro a ha y hy; cases ha; simp at hy) h x hx

end Protobom.Cdx

namespace Protobom.Cdx

/-- the children function the second pass works with -/
def childrenOf (p1 : Pass1) (id : String) : List String := (p1.children.lookup id).getD []

/-- **the serializer on a containment forest.** For a document with one root element whose
    containment (as recorded by the first pass, in whatever order the edges are stored) is a forest
    below known nodes, the serializer succeeds; the root becomes the metadata component; the
    top-level components are exactly the nodes that are neither the root nor contained in a
    non-root node, each carrying its complete subtree `T`; nothing depends on the order in which
    the second pass visits the nodes. -/
theorem serCDX_forest (d : Document) (md : Metadata) (nl : NodeList) (root : String) (rootNode : Node)
    (lcs : List Lifecycle) (p1 : Pass1) (ht : String → Nat) (dflt : Component)
    (hmd : d.metadata = some md) (hnl : d.nodeList = some nl) (hroots : nl.roots = [root])
    (hroot : nl.getNodeByID root = some rootNode) (hrid : rootNode.id = root)
    (hlc : serCDX.mapLifecycles md.docTypes = .ok lcs)
    (hp1 : pass1 (fun id => (dictOf nl.nodes).any (·.1 = id)) nl.edges = .ok p1)
    (F : Forest (childrenOf p1) ht (fun x => ((dictOf nl.nodes).lookup x).isSome = true) [root])
    (hht : ∀ x, ht x < (dictOf nl.nodes).length + 2) :
    let c0 : String → Component := fun x => ((dictOf nl.nodes).lookup x).getD dflt
    let nested : String → Prop := fun x =>
      x = root ∨ ∃ p, p ≠ root ∧ ((dictOf nl.nodes).lookup p).isSome = true ∧ x ∈ childrenOf p1 p
    ∃ (b : Bom) (placed : List String), serCDX d = .ok b ∧ (∀ x, x ∈ placed ↔ nested x) ∧
      b.components = clearAutoL (((dictOf nl.nodes).filter (fun kv => decide (kv.1 ∉ placed))).map
        (fun kv => T (childrenOf p1) c0 ht kv.1)) ∧
      b.deps = p1.deps ∧
      b.metaComponent = some (if md.name ≠ "" ∧ (nodeToComponent rootNode).name = ""
        then (nodeToComponent rootNode).withName md.name else nodeToComponent rootNode) := by
  intro c0 nested
  have hne : nl.roots.isEmpty = false := by rw [hroots]; rfl
  have hlen : ¬ nl.roots.length > 1 := by rw [hroots]; simp
  have hhead : nl.roots.head! = root := by rw [hroots]; rfl
  -- the visiting loop is `visit` over the node identifiers
  have hvisit : ∀ (st0 : NestSt) (fuel : Nat),
      nl.nodes.foldl (fun st n => if n.id = root then st else nest (childrenOf p1) fuel n.id [] st) st0 =
        visit (childrenOf p1) fuel root (nl.nodes.map (·.id)) st0 := by
    intro st0 fuel
    unfold visit
    rw [List.foldl_map]
  have hspec := second_pass_spec (childrenOf p1) ht root (dictOf nl.nodes) ((dictOf nl.nodes).length + 2)
    (nl.nodes.map (·.id)) dflt F
    (by
      intro p hp
      have : (p1.children.lookup p).isSome = true := by
        unfold childrenOf at hp
        cases h : p1.children.lookup p with
        | none => rw [h] at hp; exact absurd rfl hp
        | some v => rfl
      have hk := pass1_children_known _ _ _ hp1 p this
      exact (any_key_iff_lookup _ _).mp hk)
    (by
      intro x hx
      exact ⟨(dictOf_known nl.nodes x).mpr hx, hht x⟩)
    (by
      intro x hx _
      exact (dictOf_known nl.nodes x).mp hx)
  obtain ⟨hplaced, htop⟩ := hspec
  have hser : ∃ b : Bom, serCDX d = .ok b ∧
      b.components = clearAutoL (((dictOf nl.nodes).filter (fun kv => kv.1 ∉
          (nl.nodes.foldl (fun st n => if n.id = root then st else
            nest (fun id => (p1.children.lookup id).getD []) ((dictOf nl.nodes).length + 2) n.id [] st)
            { placed := [rootNode.id], built := [], comps := dictOf nl.nodes }).placed)).filterMap
        (fun kv => (nl.nodes.foldl (fun st n => if n.id = root then st else
            nest (fun id => (p1.children.lookup id).getD []) ((dictOf nl.nodes).length + 2) n.id [] st)
            { placed := [rootNode.id], built := [], comps := dictOf nl.nodes }).comp kv.1)) ∧
      b.deps = p1.deps ∧
      b.metaComponent = some (if md.name ≠ "" ∧ (nodeToComponent rootNode).name = ""
        then (nodeToComponent rootNode).withName md.name else nodeToComponent rootNode) := by
    unfold serCDX
    simp only [hmd, hnl, hne, hlen, hhead, hroot, hlc, hp1, Outcome.bind, if_false, Bool.false_eq_true]
    exact ⟨_, rfl, rfl, rfl, rfl⟩
  obtain ⟨b, hb1, hb2, hb3, hb4⟩ := hser
  refine ⟨b, (visit (childrenOf p1) ((dictOf nl.nodes).length + 2) root (nl.nodes.map (·.id))
      { placed := [root], built := [], comps := dictOf nl.nodes }).placed, hb1, hplaced, ?_, hb3, hb4⟩
  rw [hb2, hrid]
  have := hvisit { placed := [root], built := [], comps := dictOf nl.nodes } ((dictOf nl.nodes).length + 2)
  have hco : (fun id => (p1.children.lookup id).getD []) = childrenOf p1 := rfl
  rw [hco, this]
  exact congrArg clearAutoL htop

end Protobom.Cdx

namespace Protobom.Cdx

/-- `c` is `c'` or one of the components nested in it, at any depth -/
inductive Sub : Component → Component → Prop
  | refl (c : Component) : Sub c c
  | kid {c k c' : Component} : k ∈ c'.kids → Sub c k → Sub c c'

theorem kids_withKids (c : Component) (ks : List Component) : (c.withKids ks).kids = ks := by
  cases c; rfl

theorem Sub.step {k c c' : Component} (hk : k ∈ c.kids) (h : Sub c c') : Sub k c' := by
  induction h with
  | refl => exact Sub.kid hk (Sub.refl _)
  | kid hmem _ ih => exact Sub.kid hmem ih

/-- in a containment forest every known node other than the root sits, with its complete subtree,
    inside the complete subtree of some node that is not nested (a top-level component) -/
theorem every_node_under_a_top (children : String → List String) (c0 : String → Component) (ht : String → Nat)
    (D : String → Prop) (root : String) (F : Forest children ht D [root]) (bound : Nat) (hb : ∀ x, ht x < bound)
    (nested : String → Prop)
    (hn : ∀ x, nested x ↔ x = root ∨ ∃ p, p ≠ root ∧ D p ∧ x ∈ children p) :
    ∀ (n : Nat) (x : String), bound ≤ ht x + n → D x → x ≠ root →
      ∃ t, D t ∧ ¬ nested t ∧ Sub (T children c0 ht x) (T children c0 ht t) := by
  intro n
  induction n with
  | zero => intro x h; have := hb x; omega
  | succ n ih =>
    intro x hx hD hxr
    by_cases hnx : nested x
    · rcases (hn x).mp hnx with h | ⟨p, hpr, hpD, hpc⟩
      · exact absurd h hxr
      · have hlt := F.lt p x hpc
        obtain ⟨t, htD, htn, hsub⟩ := ih p (by omega) hpD hpr
        refine ⟨t, htD, htn, ?_⟩
        -- T x is a kid of T p
        have hk : T children c0 ht x ∈ (T children c0 ht p).kids := by
          rw [T_unfold children c0 ht F.lt p, kids_withKids]
          exact List.mem_append.mpr (Or.inr (List.mem_map.mpr ⟨x, hpc, rfl⟩))
        exact Sub.step hk hsub
    · exact ⟨x, hD, hnx, Sub.refl _⟩

end Protobom.Cdx
