/- The nodes that come back from the CycloneDX round trip on containment forests: position by
   position, each is the parser's image of the (version-converted) component the serializer made
   of the node with that identifier. Complements `rtCDX_forest` (identifiers, roots, edges). -/
import Protobom.Proofs.NestRT
import Protobom.Proofs.CdxNodes
import Protobom.Proofs.ForestNodup

namespace Protobom.Cdx
open Protobom

/-- a component without its sub-components: all the parser's `componentToNode` looks at -/
def Component.data : Component → Component
  | .mk r t n v d c p e l h x s _ => .mk r t n v d c p e l h x s []

theorem componentToNode_data (c : Component) (cc : Nat) : componentToNode c cc = componentToNode c.data cc := by
  cases c; rfl

theorem componentToNode_cc (c : Component) (cc : Nat) (h : c.bomRef ≠ "") :
    componentToNode c cc = componentToNode c 0 := by
  cases c
  simp only [Component.bomRef] at h
  simp [componentToNode, h]

theorem data_bomRef (c : Component) : c.data.bomRef = c.bomRef := by cases c; rfl

theorem data_withKids (c : Component) (ks : List Component) : (c.withKids ks).data = c.data := by cases c; rfl

theorem data_of_kids_nil (c : Component) (h : c.kids = []) : c.data = c := by
  cases c; simp only [Component.kids] at h; simp [Component.data, h]

theorem flat_withKids (c : Component) (ks : List Component) : (c.withKids ks).flat = c.withKids ks :: flatL ks := by
  cases c; rfl

theorem flatL_map (g : String → Component) : ∀ l : List String, flatL (l.map g) = l.flatMap (fun y => (g y).flat)
  | [] => rfl
  | y :: ys => by simp only [List.map_cons, flatL, List.flatMap_cons, flatL_map g ys]

theorem flat_of_kids_nil (c : Component) (h : c.kids = []) : c.flat = [c] := by
  cases c; simp only [Component.kids] at h; simp [Component.flat, h, flatL]

/-- the components of a complete subtree, without their sub-components, are the initial
    components of the subtree's identifiers in document order -/
theorem tree_flat_data (children : String → List String) (c0 : String → Component) (hk : ∀ x, (c0 x).kids = []) :
    ∀ (f : Nat) (x : String), (tree children c0 f x).flat.map Component.data = (pre children f x).map c0
  | 0, x => by
    simp only [tree, pre, flat_of_kids_nil _ (hk x), List.map_cons, List.map_nil, data_of_kids_nil _ (hk x)]
  | f + 1, x => by
    simp only [tree, pre, flat_withKids, hk, List.nil_append, List.map_cons, data_withKids,
      data_of_kids_nil _ (hk x), flatL_map, List.map_flatMap]
    congr 1
    apply flatMap_congr'
    intro y _
    exact tree_flat_data children c0 hk f y

mutual
  theorem convComp_flat_data (v : Nat) : ∀ c : Component,
      (convComp v c).flat.map Component.data = (c.flat.map Component.data).map (convComp v)
    | .mk r t n ver d c p e l h x s ks => by
      simp only [convComp, Component.flat, List.map_cons, Component.data, convCompL]
      rw [convCompL_flat_data v ks]
  theorem convCompL_flat_data (v : Nat) : ∀ ks : List Component,
      (flatL (convCompL v ks)).map Component.data = ((flatL ks).map Component.data).map (convComp v)
    | [] => rfl
    | c :: cs => by
      simp only [convCompL, flatL, List.map_append]
      rw [convComp_flat_data v c, convCompL_flat_data v cs]
end

mutual
  theorem clearAuto_flat_data : ∀ c : Component,
      (clearAuto c).flat.map Component.data = (c.flat.map Component.data).map clearAuto
    | .mk r t n ver d c p e l h x s ks => by
      simp only [clearAuto, Component.flat, List.map_cons, Component.data, clearAutoL]
      rw [clearAutoL_flat_data ks]
  theorem clearAutoL_flat_data : ∀ ks : List Component,
      (flatL (clearAutoL ks)).map Component.data = ((flatL ks).map Component.data).map clearAuto
    | [] => rfl
    | c :: cs => by
      simp only [clearAutoL, flatL, List.map_append]
      rw [clearAuto_flat_data c, clearAutoL_flat_data cs]
end

theorem clearAuto_of_not_auto (c : Component) (h : isAutoRef c.bomRef = false) (hk : c.kids = []) : clearAuto c = c := by
  cases c
  simp only [Component.bomRef] at h
  simp only [Component.kids] at hk
  simp [clearAuto, h, hk, clearAutoL]

theorem NodesFrom.data : ∀ {a : List Component} {x : List Node}, NodesFrom a x → NodesFrom (a.map Component.data) x
  | [], [], _ => trivial
  | [], _ :: _, h => by simp [NodesFrom] at h
  | _ :: _, [], h => by simp [NodesFrom] at h
  | c :: as, m :: xs, h => by
    simp only [NodesFrom, List.map_cons] at h ⊢
    obtain ⟨⟨cc, hcc⟩, h2⟩ := h
    exact ⟨⟨cc, by rw [hcc, componentToNode_data]⟩, NodesFrom.data h2⟩

/-- with non-empty references the counter is irrelevant: the node list is a plain `map` -/
theorem NodesFrom.eq_map : ∀ {a : List Component} {x : List Node}, NodesFrom a x → (∀ c ∈ a, c.bomRef ≠ "") →
    x = a.map (fun c => componentToNode c 0)
  | [], [], _, _ => rfl
  | [], _ :: _, h, _ => by simp [NodesFrom] at h
  | _ :: _, [], h, _ => by simp [NodesFrom] at h
  | c :: as, m :: xs, h, hne => by
    simp only [NodesFrom] at h
    obtain ⟨⟨cc, hcc⟩, h2⟩ := h
    simp only [List.map_cons]
    rw [hcc, componentToNode_cc c cc (hne c List.mem_cons_self),
      NodesFrom.eq_map h2 (fun c' hc' => hne c' (List.mem_cons_of_mem _ hc'))]

theorem flatMap_map_eq {α β γ} (f : α → List β) (g : β → γ) (l : List α) :
    (l.flatMap f).map g = l.flatMap (fun a => (f a).map g) := by
  induction l with
  | nil => rfl
  | cons a as ih => simp [List.flatMap_cons, ih]

/-- **the nodes of the round trip**: under the hypotheses of `rtCDX_forest`, the nodes of the
    result are, in the order of its identifiers (the root, then the preorder of the top-level
    subtrees), the parser's image of the version-converted component of the root and of the
    dictionary component of each identifier — nothing of a node depends on where it is nested -/
theorem rtCDX_forest_nodes (v : Nat) (d : Document) (md : Metadata) (nl : NodeList) (root : String) (rootNode : Node)
    (lcs : List Lifecycle) (p1 : Pass1) (ht : String → Nat)
    (hmd : d.metadata = some md) (hnl : d.nodeList = some nl) (hroots : nl.roots = [root])
    (hroot : nl.getNodeByID root = some rootNode) (hrid : rootNode.id = root)
    (hlc : serCDX.mapLifecycles md.docTypes = .ok lcs)
    (hp1 : pass1 (fun id => (dictOf nl.nodes).any (·.1 = id)) nl.edges = .ok p1)
    (F : Forest (childrenOf p1) ht (fun x => ((dictOf nl.nodes).lookup x).isSome = true) [root])
    (hht : ∀ x, ht x < (dictOf nl.nodes).length + 2)
    (hids : ∀ x, ((dictOf nl.nodes).lookup x).isSome = true → x ≠ "" ∧ isAutoRef x = false) :
    ∃ placed : List String,
      (∀ x, x ∈ placed ↔ (x = root ∨ ∃ p, p ≠ root ∧ ((dictOf nl.nodes).lookup p).isSome = true ∧ x ∈ childrenOf p1 p)) ∧
      let tops := ((dictOf nl.nodes).filter (fun kv => decide (kv.1 ∉ placed))).map (·.1)
      let preT := fun t => pre (childrenOf p1) (ht t + 1) t
      let rootC : Component := if md.name ≠ "" ∧ (nodeToComponent rootNode).name = ""
        then (nodeToComponent rootNode).withName md.name else nodeToComponent rootNode
      (root :: tops.flatMap preT).Nodup →
      ∃ d' nl', rtCDX v d = .ok d' ∧ d'.nodeList = some nl' ∧
        nl'.nodes = componentToNode (convComp v rootC) 0 ::
          (tops.flatMap preT).map (fun x => componentToNode (convComp v (comp0 (dictOf nl.nodes) x)) 0) := by
  obtain ⟨b, placed, hser, hpl, hcomps, _, hmeta⟩ :=
    serCDX_forest d md nl root rootNode lcs p1 ht (.mk "" "" "" "" "" "" "" "" none [] [] none [])
      hmd hnl hroots hroot hrid hlc hp1 F hht
  refine ⟨placed, hpl, ?_⟩
  intro tops preT rootC hnd
  let D : String → Prop := fun x => ((dictOf nl.nodes).lookup x).isSome = true
  let c0' := comp0 (dictOf nl.nodes)
  have hshape : ∀ x, (c0' x).bomRef = x ∧ (c0' x).kids = [] := comp0_shape nl.nodes
  have hTs : ((dictOf nl.nodes).filter (fun kv => decide (kv.1 ∉ placed))).map
      (fun kv => T (childrenOf p1) (fun x => ((dictOf nl.nodes).lookup x).getD (.mk "" "" "" "" "" "" "" "" none [] [] none [])) ht kv.1) =
      tops.map (T (childrenOf p1) c0' ht) := by
    simp only [tops, List.map_map]
    apply List.map_congr_left
    intro kv hkv
    have hD : D kv.1 := lookup_isSome_of_mem _ kv (List.mem_filter.mp hkv).1
    simp only [Function.comp, T]
    apply tree_congr (childrenOf p1) _ _ D F.dom _ _ _ hD
    intro x hx
    simp only [c0', comp0]
    cases h : (dictOf nl.nodes).lookup x with
    | none => simp only [D, h] at hx; cases hx
    | some c => rfl
  rw [hTs] at hcomps
  have htopsD : ∀ t ∈ tops, D t := by
    intro t ht'
    simp only [tops, List.mem_map] at ht'
    obtain ⟨kv, hkv, rfl⟩ := ht'
    exact lookup_isSome_of_mem _ kv (List.mem_filter.mp hkv).1
  have hrefs : refsL (tops.map (T (childrenOf p1) c0' ht)) = tops.flatMap preT := by
    rw [refsL_map]
    apply flatMap_congr'
    intro t _
    exact tree_refs (childrenOf p1) c0' (fun x => (hshape x).1) (fun x => (hshape x).2) (ht t + 1) t
  have hpreD : ∀ x ∈ tops.flatMap preT, D x := by
    intro r hr
    rw [List.mem_flatMap] at hr
    obtain ⟨t, ht', hrt⟩ := hr
    exact pre_mem_dom (childrenOf p1) D F.dom _ t r (htopsD t ht') hrt
  have hnoauto : NoAuto (refsL (tops.map (T (childrenOf p1) c0' ht))) := by
    rw [hrefs]
    intro r hr
    exact (hids r (hpreD r hr)).2
  have hrootC : rootC.refs = [root] ∧ rootC.bomRef = root ∧ rootC.kids = [] := by
    have h0 : (nodeToComponent rootNode).refs = [root] ∧ (nodeToComponent rootNode).bomRef = root ∧
        (nodeToComponent rootNode).kids = [] := by
      simp [nodeToComponent, Component.refs, refsL, Component.bomRef, Component.kids, hrid]
    simp only [rootC]
    split
    · cases hc : nodeToComponent rootNode with
      | mk r _ _ _ _ _ _ _ _ _ _ _ ks =>
        rw [hc] at h0
        simpa [Component.withName, Component.refs, Component.bomRef, Component.kids] using h0
    · exact h0
  have hm' : (codecCDX v b).metaComponent = some (convComp v rootC) := by
    simp only [codecCDX, hmeta, Option.map_some, rootC]
  have hcomps' : (codecCDX v b).components = convCompL v (clearAutoL (tops.map (T (childrenOf p1) c0' ht))) := by
    simp only [codecCDX, hcomps]
  have hrefs' : refsL (codecCDX v b).components = tops.flatMap preT := by
    rw [hcomps', convCompL_refs, clearAutoL_refs _ hnoauto, hrefs]
  have hrr : (convComp v rootC).refs = [root] := by rw [convComp_refs]; exact hrootC.1
  have hDroot : D root := (dictOf_known nl.nodes root).mpr (List.mem_map.mpr ⟨rootNode, by
      unfold NodeList.getNodeByID at hroot
      exact List.mem_of_find?_eq_some hroot, hrid⟩)
  obtain ⟨nl', h1, hN⟩ := unserCDX_nodes (codecCDX v b) (convComp v rootC) hm'
    (by
      rw [hrr, hrefs']
      intro x hx
      rcases List.mem_append.mp hx with h | h
      · simp only [List.mem_singleton] at h
        rw [h]; exact (hids root hDroot).1
      · exact (hids x (hpreD x h)).1)
    (by rw [hrr, hrefs']; exact hnd)
  refine ⟨_, nl', ?_, h1, ?_⟩
  · simp only [rtCDX, hser, Outcome.map, Outcome.bind]
  · -- the data of the component list
    have hdataRoot : (convComp v rootC).flat.map Component.data = [convComp v rootC] := by
      rw [convComp_flat_data, flat_of_kids_nil _ hrootC.2.2, List.map_cons, List.map_nil, List.map_cons, List.map_nil,
        data_of_kids_nil _ hrootC.2.2]
    have hdataTops : (flatL (codecCDX v b).components).map Component.data =
        (tops.flatMap preT).map (fun x => convComp v (c0' x)) := by
      rw [hcomps', convCompL_flat_data, clearAutoL_flat_data, flatL_map, flatMap_map_eq]
      have : (tops.flatMap fun a => ((T (childrenOf p1) c0' ht a).flat.map Component.data)) =
          tops.flatMap (fun t => (preT t).map c0') := by
        apply flatMap_congr'
        intro t _
        exact tree_flat_data (childrenOf p1) c0' (fun x => (hshape x).2) (ht t + 1) t
      rw [this, ← flatMap_map_eq, List.map_map, List.map_map]
      apply List.map_congr_left
      intro x hx
      simp only [Function.comp]
      rw [clearAuto_of_not_auto _ (by rw [(hshape x).1]; exact (hids x (hpreD x hx)).2) (hshape x).2]
    have hN' := hN.data
    rw [List.map_append, hdataRoot, hdataTops] at hN'
    have := hN'.eq_map (by
      intro c hc
      rcases List.mem_append.mp hc with h | h
      · simp only [List.mem_singleton] at h
        rw [h, convComp_bomRef, hrootC.2.1]; exact (hids root hDroot).1
      · rw [List.mem_map] at h
        obtain ⟨x, hx, rfl⟩ := h
        rw [convComp_bomRef, (hshape x).1]; exact (hids x (hpreD x hx)).1)
    rw [this]
    simp only [List.map_cons, List.map_map, List.singleton_append]
    rfl

/-! ### the dictionary of a node list with unique identifiers -/

theorem dictOf_fold_unique (nodes : List Node) (d : List (String × Component))
    (hnd : (nodes.map (·.id)).Nodup) (hdis : ∀ n ∈ nodes, ∀ kv ∈ d, kv.1 ≠ n.id) :
    nodes.foldl (fun d n =>
      let c := nodeToComponent n
      if d.any (·.1 = n.id) then d.map (fun kv => if kv.1 = n.id then (n.id, c) else kv) else d ++ [(n.id, c)]) d =
    d ++ nodes.map (fun n => (n.id, nodeToComponent n)) := by
  induction nodes generalizing d with
  | nil => simp
  | cons n ns ih =>
    have hnd' : n.id ∉ ns.map (·.id) ∧ (ns.map (·.id)).Nodup :=
      List.nodup_cons.mp (by rw [List.map_cons] at hnd; exact hnd)
    have hnot : d.any (fun x => decide (x.1 = n.id)) = false := by
      rw [List.any_eq_false]
      intro kv hkv
      simpa using hdis n List.mem_cons_self kv hkv
    simp only [List.foldl_cons, hnot, Bool.false_eq_true, if_false]
    rw [ih (d ++ [(n.id, nodeToComponent n)]) hnd'.2]
    · simp
    · intro m hm kv hkv
      rcases List.mem_append.mp hkv with h | h
      · exact hdis m (List.mem_cons_of_mem _ hm) kv h
      · simp only [List.mem_singleton] at h
        rw [h]
        intro e
        exact hnd'.1 (List.mem_map.mpr ⟨m, hm, e.symm⟩)

theorem dictOf_unique (nodes : List Node) (hnd : (nodes.map (·.id)).Nodup) :
    dictOf nodes = nodes.map (fun n => (n.id, nodeToComponent n)) := by
  have := dictOf_fold_unique nodes [] hnd (by intro _ _ kv h; cases h)
  simpa [dictOf] using this

/-- with unique identifiers, the dictionary component of a node's identifier is that node's -/
theorem comp0_of_mem (nodes : List Node) (hnd : (nodes.map (·.id)).Nodup) (n : Node) (hn : n ∈ nodes) :
    comp0 (dictOf nodes) n.id = nodeToComponent n := by
  rw [dictOf_unique nodes hnd]
  unfold comp0
  induction nodes with
  | nil => cases hn
  | cons m ms ih =>
    have hnd' : m.id ∉ ms.map (·.id) ∧ (ms.map (·.id)).Nodup :=
      List.nodup_cons.mp (by rw [List.map_cons] at hnd; exact hnd)
    simp only [List.map_cons, List.lookup_cons]
    rcases List.mem_cons.mp hn with e | e
    · rw [e]; simp
    · have hne : n.id ≠ m.id := fun e' => hnd'.1 (List.mem_map.mpr ⟨n, e, e'⟩)
      have e' : (n.id == m.id) = false := by simpa using hne
      simp only [e']
      exact ih hnd'.2 e

/-! ### the enumeration covers every known node -/

theorem mem_refsL_of_mem {k : Component} : ∀ {ks : List Component}, k ∈ ks → ∀ x ∈ k.refs, x ∈ refsL ks
  | [], h, _, _ => by cases h
  | c :: cs, h, x, hx => by
    simp only [refsL, List.mem_append]
    rcases List.mem_cons.mp h with e | e
    · left; rw [← e]; exact hx
    · right; exact mem_refsL_of_mem e x hx

theorem Sub.bomRef_mem {c c' : Component} (h : Sub c c') : c.bomRef ∈ c'.refs := by
  induction h with
  | refl => exact bomRef_mem_refs _
  | @kid k c' hk _ ih =>
    cases c' with
    | mk r t n v d cp p e l hs x s ks =>
      simp only [Component.kids] at hk
      simp only [Component.refs, List.mem_cons]
      exact Or.inr (mem_refsL_of_mem hk _ ih)

theorem lookup_isSome_mem_keys (dict : List (String × Component)) (x : String) (h : (dict.lookup x).isSome = true) :
    ∃ kv ∈ dict, kv.1 = x := by
  induction dict with
  | nil => simp at h
  | cons y ys ih =>
    obtain ⟨yk, yv⟩ := y
    simp only [List.lookup_cons] at h
    by_cases e : x = yk
    · exact ⟨(yk, yv), List.mem_cons_self, e.symm⟩
    · have e' : (x == yk) = false := by simpa using e
      simp only [e'] at h
      obtain ⟨kv, hkv, hk⟩ := ih h
      exact ⟨kv, List.mem_cons_of_mem _ hkv, hk⟩

/-- **the same node set**: the identifiers the round trip returns (the root, then the preorder of
    the top-level subtrees) are exactly the identifiers of the dictionary -/
theorem forest_preorder_covers (children : String → List String) (ht : String → Nat) (root : String)
    (dict : List (String × Component)) (hroot : (dict.lookup root).isSome = true)
    (F : Forest children ht (fun x => (dict.lookup x).isSome = true) [root])
    (B : Nat) (hB : ∀ x, ht x < B) (placed : List String)
    (hpl : ∀ x, x ∈ placed ↔ (x = root ∨ ∃ p, p ≠ root ∧ (dict.lookup p).isSome = true ∧ x ∈ children p)) (x : String) :
    x ∈ root :: ((dict.filter (fun kv => decide (kv.1 ∉ placed))).map (·.1)).flatMap
      (fun t => pre children (ht t + 1) t) ↔ (dict.lookup x).isSome = true := by
  let D : String → Prop := fun x => (dict.lookup x).isSome = true
  let c0 : String → Component := fun x => .mk x "" "" "" "" "" "" "" none [] [] none []
  constructor
  · intro h
    rcases List.mem_cons.mp h with rfl | h
    · exact hroot
    · rw [List.mem_flatMap] at h
      obtain ⟨t, ht', hx⟩ := h
      obtain ⟨kv, hkv, rfl⟩ := List.mem_map.mp ht'
      exact pre_mem_dom children D F.dom _ kv.1 x (lookup_isSome_of_mem _ kv (List.mem_filter.mp hkv).1) hx
  · intro hD
    by_cases hx : x = root
    · rw [hx]; exact List.mem_cons_self
    · obtain ⟨t, htD, htn, hsub⟩ := every_node_under_a_top children c0 ht D root F B hB (fun y => y ∈ placed) hpl
        B x (by omega) hD hx
      apply List.mem_cons_of_mem
      rw [List.mem_flatMap]
      refine ⟨t, ?_, ?_⟩
      · obtain ⟨kv, hkv, hk⟩ := lookup_isSome_mem_keys dict t htD
        exact List.mem_map.mpr ⟨kv, List.mem_filter.mpr ⟨hkv, by rw [hk]; simpa using htn⟩, hk⟩
      · have := hsub.bomRef_mem
        have hid : ∀ y, (c0 y).bomRef = y := fun _ => rfl
        have hk : ∀ y, (c0 y).kids = [] := fun _ => rfl
        rw [show T children c0 ht t = tree children c0 (ht t + 1) t from rfl, tree_refs children c0 hid hk] at this
        rw [show T children c0 ht x = tree children c0 (ht x + 1) x from rfl, tree_bomRef children c0 hid hk] at this
        exact this

/-! ### what the serializer emits on a containment forest: every node exactly once -/

/-- **each node exactly once**: on a containment forest with one root, the references of the
    emitted components — the metadata component followed by the component forest, nested
    components included — are exactly the identifiers of the document, without repetition
    (identifiers that look generated are blanked by `clearAutoRefs`, hence the last hypothesis) -/
theorem serCDX_forest_refs (d : Document) (md : Metadata) (nl : NodeList) (root : String) (rootNode : Node)
    (lcs : List Lifecycle) (p1 : Pass1) (ht : String → Nat)
    (hmd : d.metadata = some md) (hnl : d.nodeList = some nl) (hroots : nl.roots = [root])
    (hroot : nl.getNodeByID root = some rootNode) (hrid : rootNode.id = root)
    (hlc : serCDX.mapLifecycles md.docTypes = .ok lcs)
    (hp1 : pass1 (fun id => (dictOf nl.nodes).any (·.1 = id)) nl.edges = .ok p1)
    (F : Forest (childrenOf p1) ht (fun x => ((dictOf nl.nodes).lookup x).isSome = true) [root])
    (hht : ∀ x, ht x < (dictOf nl.nodes).length + 2)
    (hids : ∀ x, ((dictOf nl.nodes).lookup x).isSome = true → isAutoRef x = false) :
    ∃ (b : Bom) (rootC : Component), serCDX d = .ok b ∧ b.metaComponent = some rootC ∧
      (rootC.refs ++ refsL b.components).Nodup ∧
      ∀ x, x ∈ rootC.refs ++ refsL b.components ↔ x ∈ nl.ids := by
  obtain ⟨b, placed, hser, hpl, hcomps, _, hmeta⟩ :=
    serCDX_forest d md nl root rootNode lcs p1 ht (.mk "" "" "" "" "" "" "" "" none [] [] none [])
      hmd hnl hroots hroot hrid hlc hp1 F hht
  let tops := ((dictOf nl.nodes).filter (fun kv => decide (kv.1 ∉ placed))).map (·.1)
  let preT := fun t => pre (childrenOf p1) (ht t + 1) t
  let D : String → Prop := fun x => ((dictOf nl.nodes).lookup x).isSome = true
  let c0' := comp0 (dictOf nl.nodes)
  have hshape : ∀ x, (c0' x).bomRef = x ∧ (c0' x).kids = [] := comp0_shape nl.nodes
  have hTs : ((dictOf nl.nodes).filter (fun kv => decide (kv.1 ∉ placed))).map
      (fun kv => T (childrenOf p1) (fun x => ((dictOf nl.nodes).lookup x).getD (.mk "" "" "" "" "" "" "" "" none [] [] none [])) ht kv.1) =
      tops.map (T (childrenOf p1) c0' ht) := by
    simp only [tops, List.map_map]
    apply List.map_congr_left
    intro kv hkv
    have hD : D kv.1 := lookup_isSome_of_mem _ kv (List.mem_filter.mp hkv).1
    simp only [Function.comp, T]
    apply tree_congr (childrenOf p1) _ _ D F.dom _ _ _ hD
    intro x hx
    simp only [c0', comp0]
    cases h : (dictOf nl.nodes).lookup x with
    | none => simp only [D, h] at hx; cases hx
    | some c => rfl
  rw [hTs] at hcomps
  have htopsD : ∀ t ∈ tops, D t := by
    intro t ht'
    simp only [tops, List.mem_map] at ht'
    obtain ⟨kv, hkv, rfl⟩ := ht'
    exact lookup_isSome_of_mem _ kv (List.mem_filter.mp hkv).1
  have hrefs : refsL (tops.map (T (childrenOf p1) c0' ht)) = tops.flatMap preT := by
    rw [refsL_map]
    apply flatMap_congr'
    intro t _
    exact tree_refs (childrenOf p1) c0' (fun x => (hshape x).1) (fun x => (hshape x).2) (ht t + 1) t
  have hnoauto : NoAuto (refsL (tops.map (T (childrenOf p1) c0' ht))) := by
    rw [hrefs]
    intro r hr
    rw [List.mem_flatMap] at hr
    obtain ⟨t, ht', hrt⟩ := hr
    exact hids r (pre_mem_dom (childrenOf p1) D F.dom _ t r (htopsD t ht') hrt)
  have hrootC : ∀ c : Component, c = (if md.name ≠ "" ∧ (nodeToComponent rootNode).name = ""
      then (nodeToComponent rootNode).withName md.name else nodeToComponent rootNode) → c.refs = [root] := by
    intro c hc
    have h0 : (nodeToComponent rootNode).refs = [root] := by
      simp [nodeToComponent, Component.refs, refsL, hrid]
    rw [hc]
    split
    · cases hcc : nodeToComponent rootNode with
      | mk r _ _ _ _ _ _ _ _ _ _ _ ks =>
        rw [hcc] at h0
        simpa [Component.withName, Component.refs] using h0
    · exact h0
  have hDroot : D root := (dictOf_known nl.nodes root).mpr (List.mem_map.mpr ⟨rootNode, by
      unfold NodeList.getNodeByID at hroot
      exact List.mem_of_find?_eq_some hroot, hrid⟩)
  have hall : (if md.name ≠ "" ∧ (nodeToComponent rootNode).name = ""
      then (nodeToComponent rootNode).withName md.name else nodeToComponent rootNode).refs ++ refsL b.components =
      root :: tops.flatMap preT := by
    rw [hrootC _ rfl, hcomps, clearAutoL_refs _ hnoauto, hrefs]; rfl
  refine ⟨b, _, hser, hmeta, ?_, ?_⟩
  · rw [hall]
    exact forest_preorder_nodup (childrenOf p1) ht root (dictOf nl.nodes) (dictOf_keys_nodup nl.nodes) F
      ((dictOf nl.nodes).length + 2) hht placed hpl
  · intro x
    rw [hall, forest_preorder_covers (childrenOf p1) ht root (dictOf nl.nodes) hDroot F _ hht placed hpl x]
    exact dictOf_known nl.nodes x

/-! ### no dependency entry refers to an element that is not emitted -/

theorem depTargets_known (known : String → Bool) (ts : List String) (acc : Option (List String)) (r : List String)
    (hacc : ∀ a, acc = some a → ∀ t ∈ a, known t = true)
    (h : ts.foldl (fun (a : Option (List String)) t =>
      a.bind fun ts => if t ∈ ts then some ts else if known t then some (ts ++ [t]) else none) acc = some r) :
    ∀ t ∈ r, known t = true := by
  induction ts generalizing acc with
  | nil => simp only [List.foldl_nil] at h; exact hacc r h
  | cons t ts ih =>
    simp only [List.foldl_cons] at h
    apply ih _ _ h
    intro a ha x hx
    cases acc with
    | none => simp at ha
    | some a0 =>
      simp only [Option.bind_some] at ha
      by_cases h1 : t ∈ a0
      · simp only [h1, if_true, Option.some.injEq] at ha
        rw [← ha] at hx; exact hacc a0 rfl x hx
      · simp only [h1, if_false] at ha
        by_cases h2 : known t = true
        · simp only [h2, if_true, Option.some.injEq] at ha
          rw [← ha] at hx
          rcases List.mem_append.mp hx with h' | h'
          · exact hacc a0 rfl x h'
          · simp only [List.mem_singleton] at h'; rw [h']; exact h2
        · simp [h2] at ha

/-- every dependency entry of the first pass has a known source and known targets only -/
theorem pass1_deps_known (known : String → Bool) (edges : List Edge) (p1 : Pass1)
    (h : pass1 known edges = .ok p1) : ∀ st ∈ p1.deps, known st.1 = true ∧ ∀ t ∈ st.2, known t = true := by
  unfold pass1 at h
  have gen : ∀ (es : List Edge) (acc : Outcome Pass1) (r : Pass1),
      (∀ a, acc = .ok a → ∀ st ∈ a.deps, known st.1 = true ∧ ∀ t ∈ st.2, known t = true) →
      es.foldl (fun (acc : Outcome Pass1) e =>
        acc.bind fun st =>
          if !known e.src then .err
          else if e.ty = 5 then
            if e.tos.all known then .ok { st with children := addChildren st.children e.src e.tos } else .err
          else if e.ty = 10 then
            let r := e.tos.foldl (fun (a : Option (List String)) t =>
              a.bind fun ts => if t ∈ ts then some ts else if known t then some (ts ++ [t]) else none) (some [])
            match r with
            | some ts => .ok { st with deps := st.deps ++ [(e.src, ts)] }
            | none => .err
          else .ok st) acc = .ok r →
      ∀ st ∈ r.deps, known st.1 = true ∧ ∀ t ∈ st.2, known t = true := by
    intro es
    induction es with
    | nil => intro acc r hacc hr; simp only [List.foldl_nil] at hr; exact hacc r hr
    | cons e es ih =>
      intro acc r hacc hr
      simp only [List.foldl_cons] at hr
      apply ih _ r _ hr
      intro a ha y hy
      cases acc with
      | err => simp [Outcome.bind] at ha
      | panic s => simp [Outcome.bind] at ha
      | ok st =>
        simp only [Outcome.bind] at ha
        by_cases hk : known e.src = true
        · simp only [hk, Bool.not_true, Bool.false_eq_true, if_false] at ha
          by_cases h5 : e.ty = 5
          · simp only [h5, if_true] at ha
            split at ha
            · cases ha; exact hacc _ rfl y hy
            · cases ha
          · simp only [h5, if_false] at ha
            by_cases h10 : e.ty = 10
            · simp only [h10, if_true] at ha
              split at ha
              · rename_i ts hts
                cases ha
                rcases List.mem_append.mp hy with h' | h'
                · exact hacc _ rfl y h'
                · simp only [List.mem_singleton] at h'
                  rw [h']
                  exact ⟨hk, depTargets_known known e.tos (some []) ts (by intro a ha t ht; cases ha; cases ht) hts⟩
              · cases ha
            · simp only [h10, if_false] at ha
              cases ha; exact hacc _ rfl y hy
        · simp [hk] at ha
  exact gen edges (.ok {}) p1 (by intro a ha st hst; cases ha; cases hst) h

end Protobom.Cdx
