/- Composition of the two halves of the CycloneDX round trip on containment forests:
   what the parser makes of the component forest the serializer builds. -/
import Protobom.Proofs.Nest
import Protobom.Proofs.Cdx

namespace Protobom.Cdx

/-! ### conversions that keep the shape of a component tree -/

mutual
  theorem convComp_refs (v : Nat) : ∀ c : Component, (convComp v c).refs = c.refs
    | .mk r t n ver d c p e l h x s ks => by
      simp only [convComp, Component.refs]
      rw [convCompL_refs v ks]
  theorem convCompL_refs (v : Nat) : ∀ ks : List Component, refsL (convCompL v ks) = refsL ks
    | [] => rfl
    | c :: cs => by
      simp only [convCompL, refsL]
      rw [convComp_refs v c, convCompL_refs v cs]
end

theorem convComp_bomRef (v : Nat) (c : Component) : (convComp v c).bomRef = c.bomRef := by
  cases c; rfl

theorem convCompL_bomRefs (v : Nat) : ∀ ks : List Component,
    (convCompL v ks).map Component.bomRef = ks.map Component.bomRef
  | [] => rfl
  | c :: cs => by simp only [convCompL, List.map_cons, convComp_bomRef, convCompL_bomRefs v cs]

mutual
  theorem convComp_childIn (v : Nat) : ∀ (c : Component) (s d : String), ChildIn (convComp v c) s d ↔ ChildIn c s d
    | .mk r t n ver dd c p e l h x sp ks, s, d => by
      simp only [convComp, ChildIn]
      rw [convCompL_bomRefs v ks, convCompL_childIn v ks s d]
  theorem convCompL_childIn (v : Nat) : ∀ (ks : List Component) (s d : String),
      ChildInL (convCompL v ks) s d ↔ ChildInL ks s d
    | [], _, _ => Iff.rfl
    | c :: cs, s, d => by
      simp only [convCompL, ChildInL]
      rw [convComp_childIn v c s d, convCompL_childIn v cs s d]
end

/-- no reference of the subtree looks like a generated one -/
def NoAuto (refs : List String) : Prop := ∀ r ∈ refs, isAutoRef r = false

mutual
  theorem clearAuto_refs : ∀ c : Component, NoAuto c.refs → (clearAuto c).refs = c.refs
    | .mk r t n ver d c p e l h x s ks, hn => by
      simp only [clearAuto, Component.refs]
      have hr : isAutoRef r = false := hn r (by simp [Component.refs])
      simp only [hr, Bool.false_eq_true, if_false]
      rw [clearAutoL_refs ks (fun y hy => hn y (by simp [Component.refs, hy]))]
  theorem clearAutoL_refs : ∀ ks : List Component, NoAuto (refsL ks) → refsL (clearAutoL ks) = refsL ks
    | [], _ => rfl
    | c :: cs, hn => by
      simp only [clearAutoL, refsL]
      rw [clearAuto_refs c (fun y hy => hn y (by simp [refsL, hy])),
          clearAutoL_refs cs (fun y hy => hn y (by simp [refsL, hy]))]
end

theorem clearAuto_bomRef (c : Component) (h : isAutoRef c.bomRef = false) : (clearAuto c).bomRef = c.bomRef := by
  cases c
  simp only [Component.bomRef] at h
  simp [clearAuto, Component.bomRef, h]

theorem bomRef_mem_refs (c : Component) : c.bomRef ∈ c.refs := by
  cases c; simp [Component.refs, Component.bomRef]

theorem clearAutoL_bomRefs : ∀ ks : List Component, NoAuto (refsL ks) →
    (clearAutoL ks).map Component.bomRef = ks.map Component.bomRef
  | [], _ => rfl
  | c :: cs, hn => by
    simp only [clearAutoL, List.map_cons]
    rw [clearAuto_bomRef c (hn _ (by simp [refsL, bomRef_mem_refs])),
        clearAutoL_bomRefs cs (fun y hy => hn y (by simp [refsL, hy]))]

mutual
  theorem clearAuto_childIn : ∀ (c : Component) (s d : String), NoAuto c.refs →
      (ChildIn (clearAuto c) s d ↔ ChildIn c s d)
    | .mk r t n ver dd c p e l h x sp ks, s, d, hn => by
      have hr : isAutoRef r = false := hn r (by simp [Component.refs])
      have hks : NoAuto (refsL ks) := fun y hy => hn y (by simp [Component.refs, hy])
      simp only [clearAuto, ChildIn, hr, Bool.false_eq_true, if_false]
      rw [clearAutoL_bomRefs ks hks, clearAutoL_childIn ks s d hks]
  theorem clearAutoL_childIn : ∀ (ks : List Component) (s d : String), NoAuto (refsL ks) →
      (ChildInL (clearAutoL ks) s d ↔ ChildInL ks s d)
    | [], _, _, _ => Iff.rfl
    | c :: cs, s, d, hn => by
      simp only [clearAutoL, ChildInL]
      rw [clearAuto_childIn c s d (fun y hy => hn y (by simp [refsL, hy])),
          clearAutoL_childIn cs s d (fun y hy => hn y (by simp [refsL, hy]))]
end

end Protobom.Cdx

namespace Protobom.Cdx

/-! ### the complete subtrees as component trees -/

/-- identifiers of the subtree of `x` in document order, `f` levels deep -/
def pre (children : String → List String) : Nat → String → List String
  | 0, x => [x]
  | f + 1, x => x :: (children x).flatMap (pre children f)

theorem flatMap_congr' {α β} {f g : α → List β} : ∀ {l : List α}, (∀ y ∈ l, f y = g y) → l.flatMap f = l.flatMap g
  | [], _ => rfl
  | y :: ys, h => by
    simp only [List.flatMap_cons, h y List.mem_cons_self]
    rw [flatMap_congr' (fun z hz => h z (List.mem_cons_of_mem _ hz))]

theorem refsL_map (g : String → Component) : ∀ l : List String, refsL (l.map g) = l.flatMap (fun y => (g y).refs)
  | [] => rfl
  | y :: ys => by simp only [List.map_cons, refsL, List.flatMap_cons, refsL_map g ys]

theorem refs_withKids (c : Component) (ks : List Component) : (c.withKids ks).refs = c.bomRef :: refsL ks := by
  cases c; rfl

theorem bomRef_withKids (c : Component) (ks : List Component) : (c.withKids ks).bomRef = c.bomRef := by
  cases c; rfl

theorem childIn_withKids (c : Component) (ks : List Component) (s d : String) :
    ChildIn (c.withKids ks) s d ↔ (s = c.bomRef ∧ d ∈ ks.map Component.bomRef) ∨ ChildInL ks s d := by
  cases c; rfl

theorem childInL_map (g : String → Component) (s d : String) : ∀ l : List String,
    ChildInL (l.map g) s d ↔ ∃ y ∈ l, ChildIn (g y) s d
  | [] => by simp [ChildInL]
  | y :: ys => by
    simp only [List.map_cons, ChildInL, childInL_map g s d ys, List.mem_cons, exists_eq_or_imp]

section
variable (children : String → List String) (c0 : String → Component)
variable (hid : ∀ x, (c0 x).bomRef = x) (hk : ∀ x, (c0 x).kids = [])
include hid hk

theorem tree_bomRef (f : Nat) (x : String) : (tree children c0 f x).bomRef = x := by
  cases f with
  | zero => exact hid x
  | succ f => simp only [tree, bomRef_withKids, hid]

theorem tree_refs : ∀ (f : Nat) (x : String), (tree children c0 f x).refs = pre children f x
  | 0, x => by
    have := hid x; have hk' := hk x
    cases hc : c0 x with
    | mk r _ _ _ _ _ _ _ _ _ _ _ ks =>
      rw [hc] at this hk'
      simp only [Component.bomRef] at this
      simp only [Component.kids] at hk'
      simp only [tree, pre, hc, Component.refs, this, hk', refsL]
  | f + 1, x => by
    simp only [tree, pre, refs_withKids, hid, hk, List.nil_append, refsL_map]
    congr 1
    apply flatMap_congr'
    intro y _
    exact tree_refs f y

theorem tree_childIn (ht : String → Nat) (hlt : ∀ id t, t ∈ children id → ht t < ht id) :
    ∀ (f : Nat) (x s d : String), ht x < f →
      (ChildIn (tree children c0 f x) s d ↔ s ∈ pre children f x ∧ d ∈ children s)
  | 0, x, _, _, h => by omega
  | f + 1, x, s, d, h => by
    simp only [tree, childIn_withKids, hid, hk, List.nil_append, List.map_map, pre, List.mem_cons, List.mem_flatMap]
    rw [childInL_map]
    have hb : (children x).map (Component.bomRef ∘ tree children c0 f) = children x := by
      conv => rhs; rw [← List.map_id (children x)]
      apply List.map_congr_left
      intro y _
      exact tree_bomRef children c0 hid hk f y
    rw [hb]
    constructor
    · rintro (⟨rfl, hd⟩ | ⟨y, hy, hc⟩)
      · exact ⟨Or.inl rfl, hd⟩
      · have := (tree_childIn ht hlt f y s d (by have := hlt x y hy; omega)).mp hc
        exact ⟨Or.inr ⟨y, hy, this.1⟩, this.2⟩
    · rintro ⟨(rfl | ⟨y, hy, hs⟩), hd⟩
      · exact Or.inl ⟨rfl, hd⟩
      · exact Or.inr ⟨y, hy, (tree_childIn ht hlt f y s d (by have := hlt x y hy; omega)).mpr ⟨hs, hd⟩⟩

end

end Protobom.Cdx

namespace Protobom.Cdx
open Protobom

/-! ### the dictionary's components -/

theorem nodeToComponent_shape (n : Node) : (nodeToComponent n).bomRef = n.id ∧ (nodeToComponent n).kids = [] := by
  simp [nodeToComponent, Component.bomRef, Component.kids]

theorem dictOf_entries_aux (nodes : List Node) (d : List (String × Component))
    (hd : ∀ kv ∈ d, kv.2.bomRef = kv.1 ∧ kv.2.kids = []) :
    ∀ kv ∈ nodes.foldl (fun d n =>
      let c := nodeToComponent n
      if d.any (·.1 = n.id) then d.map (fun kv => if kv.1 = n.id then (n.id, c) else kv) else d ++ [(n.id, c)]) d,
      kv.2.bomRef = kv.1 ∧ kv.2.kids = [] := by
  induction nodes generalizing d with
  | nil => exact hd
  | cons n ns ih =>
    simp only [List.foldl_cons]
    apply ih
    intro kv hkv
    split at hkv
    · rw [List.mem_map] at hkv
      obtain ⟨kv0, h0, rfl⟩ := hkv
      by_cases e : kv0.1 = n.id
      · simp only [e, if_true]; exact nodeToComponent_shape n
      · simp only [e, if_false]; exact hd kv0 h0
    · rcases List.mem_append.mp hkv with h | h
      · exact hd kv h
      · simp only [List.mem_singleton] at h
        rw [h]; exact nodeToComponent_shape n

theorem dictOf_lookup_shape (nodes : List Node) (x : String) (c : Component)
    (h : (dictOf nodes).lookup x = some c) : c.bomRef = x ∧ c.kids = [] := by
  have hm : (x, c) ∈ dictOf nodes := by
    generalize dictOf nodes = m at h
    induction m with
    | nil => cases h
    | cons y ys ih =>
      obtain ⟨yk, yv⟩ := y
      simp only [List.lookup_cons] at h
      by_cases e : (x == yk) = true
      · simp only [e, Option.some.injEq] at h
        have : x = yk := by simpa using e
        rw [this, h]; exact List.mem_cons_self
      · have e' : (x == yk) = false := by simpa using e
        simp only [e'] at h
        exact List.mem_cons_of_mem _ (ih h)
  exact dictOf_entries_aux nodes [] (by intro kv h; cases h) (x, c) hm

/-- the same trees come out of two families of initial components that agree on the known nodes -/
theorem tree_congr (children : String → List String) (c0 c0' : String → Component) (D : String → Prop)
    (hdom : ∀ id t, D id → t ∈ children id → D t) (hagree : ∀ x, D x → c0 x = c0' x) :
    ∀ (f : Nat) (x : String), D x → tree children c0 f x = tree children c0' f x
  | 0, x, hx => hagree x hx
  | f + 1, x, hx => by
    simp only [tree, hagree x hx]
    congr 2
    apply List.map_congr_left
    intro y hy
    exact tree_congr children c0 c0' D hdom hagree f y (hdom x y hx hy)

end Protobom.Cdx

namespace Protobom.Cdx
open Protobom

theorem pre_mem_dom (children : String → List String) (D : String → Prop)
    (hdom : ∀ id t, D id → t ∈ children id → D t) : ∀ (f : Nat) (x y : String), D x → y ∈ pre children f x → D y
  | 0, x, y, hx, hy => by simp only [pre, List.mem_singleton] at hy; exact hy ▸ hx
  | f + 1, x, y, hx, hy => by
    simp only [pre, List.mem_cons, List.mem_flatMap] at hy
    rcases hy with rfl | ⟨z, hz, hyz⟩
    · exact hx
    · exact pre_mem_dom children D hdom f z y (hdom x z hx hz) hyz

/-- the initial component of an identifier, with a shape-correct default for unknown ones -/
def comp0 (dict : List (String × Component)) (x : String) : Component :=
  (dict.lookup x).getD (.mk x "" "" "" "" "" "" "" none [] [] none [])

theorem comp0_shape (nodes : List Node) (x : String) :
    (comp0 (dictOf nodes) x).bomRef = x ∧ (comp0 (dictOf nodes) x).kids = [] := by
  unfold comp0
  cases h : (dictOf nodes).lookup x with
  | none => exact ⟨rfl, rfl⟩
  | some c => exact dictOf_lookup_shape nodes x c h

/-- **the CycloneDX round trip on containment forests**: write-then-read of a document with one
    root whose containment is a forest below known, non-empty, not generated-looking identifiers
    yields a node list whose identifiers are the root followed by the preorder of the top-level
    subtrees, whose sole root element is the root, and whose edges are exactly: the root contains
    every top-level node, and every node below contains exactly its children. -/
theorem rtCDX_forest (v : Nat) (d : Document) (md : Metadata) (nl : NodeList) (root : String) (rootNode : Node)
    (lcs : List Lifecycle) (p1 : Pass1) (ht : String → Nat)
    (hmd : d.metadata = some md) (hnl : d.nodeList = some nl) (hroots : nl.roots = [root])
    (hroot : nl.getNodeByID root = some rootNode) (hrid : rootNode.id = root)
    (hlc : serCDX.mapLifecycles md.docTypes = .ok lcs)
    (hp1 : pass1 (fun id => (dictOf nl.nodes).any (·.1 = id)) nl.edges = .ok p1)
    (F : Forest (childrenOf p1) ht (fun x => ((dictOf nl.nodes).lookup x).isSome = true) [root])
    (hht : ∀ x, ht x < (dictOf nl.nodes).length + 2)
    (hids : ∀ x, ((dictOf nl.nodes).lookup x).isSome = true → x ≠ "" ∧ isAutoRef x = false) :
    ∃ placed : List String,
      (∀ x, x ∈ placed ↔ (x = root ∨ ∃ p, p ≠ root ∧ ((dictOf nl.nodes).lookup p).isSome = true ∧ x ∈ childrenOf p1 p)) ∧
      let tops := ((dictOf nl.nodes).filter (fun kv => decide (kv.1 ∉ placed))).map (·.1)
      let preT := fun t => pre (childrenOf p1) (ht t + 1) t
      (root :: tops.flatMap preT).Nodup →
      ∃ d' nl', rtCDX v d = .ok d' ∧ d'.nodeList = some nl' ∧
        nl'.ids = root :: tops.flatMap preT ∧ nl'.roots = [root] ∧
        ∀ s t x, nl'.HasEdge s t x ↔ t = 5 ∧
          ((s = root ∧ x ∈ tops) ∨ ((∃ t' ∈ tops, s ∈ preT t') ∧ x ∈ childrenOf p1 s)) := by
  obtain ⟨b, placed, hser, hpl, hcomps, _, hmeta⟩ :=
    serCDX_forest d md nl root rootNode lcs p1 ht (.mk "" "" "" "" "" "" "" "" none [] [] none [])
      hmd hnl hroots hroot hrid hlc hp1 F hht
  refine ⟨placed, hpl, ?_⟩
  intro tops preT hnd
  let D : String → Prop := fun x => ((dictOf nl.nodes).lookup x).isSome = true
  let c0' := comp0 (dictOf nl.nodes)
  have hshape : ∀ x, (c0' x).bomRef = x ∧ (c0' x).kids = [] := comp0_shape nl.nodes
  -- the top-level components, over the shape-correct initial components
  have hTs : ((dictOf nl.nodes).filter (fun kv => decide (kv.1 ∉ placed))).map
      (fun kv => T (childrenOf p1) (fun x => ((dictOf nl.nodes).lookup x).getD (.mk "" "" "" "" "" "" "" "" none [] [] none [])) ht kv.1) =
      tops.map (T (childrenOf p1) c0' ht) := by
    simp only [tops, List.map_map]
    apply List.map_congr_left
    intro kv hkv
    have hD : D kv.1 := lookup_isSome_of_mem _ kv (List.mem_filter.mp hkv).1
    simp only [Function.comp, T]
    apply tree_congr (childrenOf p1) _ _ D F.dom _ _ _ hD
    intro x hx
    simp only [c0', comp0]
    cases h : (dictOf nl.nodes).lookup x with
    | none => simp only [D, h] at hx; cases hx
    | some c => rfl
  rw [hTs] at hcomps
  have htopsD : ∀ t ∈ tops, D t := by
    intro t ht'
    simp only [tops, List.mem_map] at ht'
    obtain ⟨kv, hkv, rfl⟩ := ht'
    exact lookup_isSome_of_mem _ kv (List.mem_filter.mp hkv).1
  -- references of the forest
  have hrefs : refsL (tops.map (T (childrenOf p1) c0' ht)) = tops.flatMap preT := by
    rw [refsL_map]
    apply flatMap_congr'
    intro t _
    exact tree_refs (childrenOf p1) c0' (fun x => (hshape x).1) (fun x => (hshape x).2) (ht t + 1) t
  have hnoauto : NoAuto (refsL (tops.map (T (childrenOf p1) c0' ht))) := by
    rw [hrefs]
    intro r hr
    rw [List.mem_flatMap] at hr
    obtain ⟨t, ht', hrt⟩ := hr
    exact (hids r (pre_mem_dom (childrenOf p1) D F.dom _ t r (htopsD t ht') hrt)).2
  -- the root component
  let rootC : Component := if md.name ≠ "" ∧ (nodeToComponent rootNode).name = ""
      then (nodeToComponent rootNode).withName md.name else nodeToComponent rootNode
  have hrootC : rootC.refs = [root] ∧ rootC.bomRef = root ∧ ∀ s x, ¬ ChildIn rootC s x := by
    have h0 : (nodeToComponent rootNode).refs = [root] ∧ (nodeToComponent rootNode).bomRef = root ∧
        ∀ s x, ¬ ChildIn (nodeToComponent rootNode) s x := by
      simp [nodeToComponent, Component.refs, refsL, Component.bomRef, ChildIn, ChildInL, hrid]
    simp only [rootC]
    split
    · cases hc : nodeToComponent rootNode with
      | mk r _ _ _ _ _ _ _ _ _ _ _ ks =>
        rw [hc] at h0
        simpa [Component.withName, Component.refs, Component.bomRef, ChildIn] using h0
    · exact h0
  -- the converted document
  have hm' : (codecCDX v b).metaComponent = some (convComp v rootC) := by
    simp only [codecCDX, hmeta, Option.map_some, rootC]
  have hcomps' : (codecCDX v b).components = convCompL v (clearAutoL (tops.map (T (childrenOf p1) c0' ht))) := by
    simp only [codecCDX, hcomps]
  have hrefs' : refsL (codecCDX v b).components = tops.flatMap preT := by
    rw [hcomps', convCompL_refs, clearAutoL_refs _ hnoauto, hrefs]
  have hrr : (convComp v rootC).refs = [root] := by rw [convComp_refs]; exact hrootC.1
  obtain ⟨nl', h1, h2, h3, h4⟩ := unserCDX_tree (codecCDX v b) (convComp v rootC) hm'
    (by
      rw [hrr, hrefs']
      intro x hx
      rcases List.mem_append.mp hx with h | h
      · simp only [List.mem_singleton] at h
        rw [h]
        have : D root := (dictOf_known nl.nodes root).mpr (List.mem_map.mpr ⟨rootNode, by
            unfold NodeList.getNodeByID at hroot
            exact List.mem_of_find?_eq_some hroot, hrid⟩)
        exact (hids root this).1
      · rw [List.mem_flatMap] at h
        obtain ⟨t, ht', hrt⟩ := h
        exact (hids x (pre_mem_dom (childrenOf p1) D F.dom _ t x (htopsD t ht') hrt)).1)
    (by rw [hrr, hrefs']; exact hnd)
  refine ⟨_, nl', ?_, h1, ?_, ?_, ?_⟩
  · simp only [rtCDX, hser, Outcome.map, Outcome.bind]
  · rw [h2, hrr, hrefs']; rfl
  · rw [h3, convComp_bomRef]; exact congrArg (fun x => [x]) hrootC.2.1
  · intro s t x
    rw [h4 s t x, convComp_childIn, convComp_bomRef, hrootC.2.1, hcomps', convCompL_bomRefs,
      clearAutoL_bomRefs _ hnoauto, convCompL_childIn, clearAutoL_childIn _ _ _ hnoauto, childInL_map]
    have hb : (tops.map (T (childrenOf p1) c0' ht)).map Component.bomRef = tops := by
      rw [List.map_map]
      conv => rhs; rw [← List.map_id tops]
      apply List.map_congr_left
      intro t _
      exact tree_bomRef (childrenOf p1) c0' (fun x => (hshape x).1) (fun x => (hshape x).2) _ t
    rw [hb]
    constructor
    · rintro ⟨ht5, (h | h | ⟨y, hy, hc⟩)⟩
      · exact absurd h (hrootC.2.2 s x)
      · exact ⟨ht5, Or.inl h⟩
      · have := (tree_childIn (childrenOf p1) c0' (fun x => (hshape x).1) (fun x => (hshape x).2) ht F.lt
          (ht y + 1) y s x (by omega)).mp hc
        exact ⟨ht5, Or.inr ⟨⟨y, hy, this.1⟩, this.2⟩⟩
    · rintro ⟨ht5, (h | ⟨⟨y, hy, hs⟩, hx⟩)⟩
      · exact ⟨ht5, Or.inr (Or.inl h)⟩
      · exact ⟨ht5, Or.inr (Or.inr ⟨y, hy, (tree_childIn (childrenOf p1) c0' (fun x => (hshape x).1)
          (fun x => (hshape x).2) ht F.lt (ht y + 1) y s x (by omega)).mpr ⟨hs, hx⟩⟩)⟩

end Protobom.Cdx
