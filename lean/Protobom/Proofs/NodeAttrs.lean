/- Attribute-level lemmas: `zipAttrs`, `update`, `augment`, and the node-level characterisation of
   the `mergeNodes` loop under unique identifiers. -/
import Protobom.Proofs.Union

namespace Protobom

theorem zipAttrs_length (g : String → Kind → Val → Val → Val) (fs : List (String × Kind)) (as bs : List Val) :
    (zipAttrs g fs as bs).length = as.length := by
  induction fs generalizing as bs with
  | nil => cases as <;> simp [zipAttrs]
  | cons f fs ih =>
    cases as with
    | nil => simp [zipAttrs]
    | cons a as =>
      cases bs with
      | nil => simp [zipAttrs]
      | cons b bs => obtain ⟨f1, f2⟩ := f; simp [zipAttrs, ih]

theorem zipAttrs_get (g : String → Kind → Val → Val → Val) (fs : List (String × Kind)) (as bs : List Val)
    (ha : as.length = fs.length) (hb : bs.length = fs.length) (i : Nat) (hi : i < fs.length) :
    (zipAttrs g fs as bs)[i]? =
      some (g (fs[i]'hi).1 (fs[i]'hi).2 (as[i]'(ha ▸ hi)) (bs[i]'(hb ▸ hi))) := by
  induction fs generalizing as bs i with
  | nil => cases hi
  | cons f fs ih =>
    cases as with
    | nil => simp at ha
    | cons a as =>
      cases bs with
      | nil => simp at hb
      | cons b bs =>
        obtain ⟨f1, f2⟩ := f
        cases i with
        | zero => simp [zipAttrs]
        | succ i =>
          simp only [zipAttrs, List.getElem?_cons_succ, List.getElem_cons_succ]
          exact ih as bs (by simpa using ha) (by simpa using hb) i (by simpa using hi)

theorem update_attr (n m : Node) (hn : n.shaped) (hm : m.shaped) (i : Nat)
    (hi : i < Gen.Schema.nodeAttrs.length)
    (hcov : ∀ fk ∈ Gen.Schema.nodeAttrs, updateHandles fk.1 fk.2 = true) :
    (n.update m).attrs[i]? =
      if (m.attrs[i]?.getD (.str "")).isEmpty then n.attrs[i]? else m.attrs[i]? := by
  have hn' : n.attrs.length = Gen.Schema.nodeAttrs.length := by simpa [Node.shaped] using hn
  have hm' : m.attrs.length = Gen.Schema.nodeAttrs.length := by simpa [Node.shaped] using hm
  simp only [Node.update]
  rw [zipAttrs_get _ _ _ _ hn' hm' i hi]
  have hc := hcov (Gen.Schema.nodeAttrs[i]) (List.getElem_mem hi)
  have h1 : n.attrs[i]? = some (n.attrs[i]'(hn' ▸ hi)) := List.getElem?_eq_getElem _
  have h2 : m.attrs[i]? = some (m.attrs[i]'(hm' ▸ hi)) := List.getElem?_eq_getElem _
  rw [h1, h2, hc]
  simp only [Bool.true_and, Option.getD_some]
  by_cases h : (m.attrs[i]'(hm' ▸ hi)).isEmpty = true <;> simp [h]

theorem augment_attr (n m : Node) (hn : n.shaped) (hm : m.shaped) (i : Nat)
    (hi : i < Gen.Schema.nodeAttrs.length)
    (hcov : ∀ fk ∈ Gen.Schema.nodeAttrs, augmentHandles fk.1 fk.2 = true) :
    (n.augment m).attrs[i]? =
      if (n.attrs[i]?.getD (.str "")).isEmpty && !(m.attrs[i]?.getD (.str "")).isEmpty
      then m.attrs[i]? else n.attrs[i]? := by
  have hn' : n.attrs.length = Gen.Schema.nodeAttrs.length := by simpa [Node.shaped] using hn
  have hm' : m.attrs.length = Gen.Schema.nodeAttrs.length := by simpa [Node.shaped] using hm
  simp only [Node.augment]
  rw [zipAttrs_get _ _ _ _ hn' hm' i hi]
  have hc := hcov (Gen.Schema.nodeAttrs[i]) (List.getElem_mem hi)
  have h1 : n.attrs[i]? = some (n.attrs[i]'(hn' ▸ hi)) := List.getElem?_eq_getElem _
  have h2 : m.attrs[i]? = some (m.attrs[i]'(hm' ▸ hi)) := List.getElem?_eq_getElem _
  rw [h1, h2, hc]
  simp only [Bool.true_and, Option.getD_some]
  by_cases h : ((n.attrs[i]'(hn' ▸ hi)).isEmpty && !(m.attrs[i]'(hm' ▸ hi)).isEmpty) = true <;> simp [h]

theorem update_shaped (n m : Node) (hn : n.shaped) : (n.update m).shaped := by
  simp only [Node.shaped, Node.update, zipAttrs_length] at *; exact hn

theorem augment_shaped (n m : Node) (hn : n.shaped) : (n.augment m).shaped := by
  simp only [Node.shaped, Node.augment, zipAttrs_length] at *; exact hn

/-! ### the node loop under unique identifiers -/

/-- with unique identifiers, modifying the last node with identifier `i` is a `map` -/
theorem modifyFirst_eq_map (l : List Node) (i : String) (f : Node → Node)
    (hnd : (l.map (·.id)).Nodup) :
    modifyFirst (fun n => decide (n.id = i)) f l = l.map (fun n => if n.id = i then f n else n) := by
  induction l with
  | nil => rfl
  | cons x xs ih =>
    rw [List.map_cons] at hnd
    have hnd' := List.nodup_cons.mp hnd
    simp only [modifyFirst, List.map_cons]
    by_cases hx : x.id = i
    · simp only [hx, decide_true, if_true]
      congr 1
      symm
      rw [List.map_congr_left (g := id)]
      · simp
      · intro n hn
        have : n.id ≠ i := by
          intro h
          apply hnd'.1
          rw [hx, ← h]
          exact List.mem_map.mpr ⟨n, hn, rfl⟩
        simp [this]
    · simp only [hx, decide_false, Bool.false_eq_true, if_false]
      rw [ih hnd'.2]

theorem modifyLast_eq_map (l : List Node) (i : String) (f : Node → Node)
    (hnd : (l.map (·.id)).Nodup) :
    modifyLast (fun n => decide (n.id = i)) f l = l.map (fun n => if n.id = i then f n else n) := by
  unfold modifyLast
  rw [modifyFirst_eq_map l.reverse i f (by rw [List.map_reverse]; exact nodup_reverse' _ hnd)]
  rw [← List.map_reverse, List.reverse_reverse]

/-- what the loop does to the pre-existing nodes: each is combined with the argument node of
    the same identifier, if any -/
def mergedNode (f : Node → Node → Node) (ns2 : List Node) (p : Node) : Node :=
  match ns2.find? (fun q => q.id = p.id) with
  | some q => f p q
  | none => p

theorem mergeNodes_fst_eq (f : Node → Node → Node) (hf : ∀ n m, (f n m).id = n.id)
    (l : List Node) (acc : List Node) (ns2 : List Node)
    (hl : (l.map (·.id)).Nodup) (h2 : (ns2.map (·.id)).Nodup) :
    (mergeNodes f (l.map (·.id)) (l, acc) ns2).1 = l.map (mergedNode f ns2) := by
  induction ns2 generalizing l acc with
  | nil =>
    simp only [mergeNodes, List.foldl_nil]
    symm
    rw [List.map_congr_left (g := id)]
    · simp
    · intro p _; simp [mergedNode]
  | cons n ns ih =>
    rw [List.map_cons] at h2
    have h2' := List.nodup_cons.mp h2
    simp only [mergeNodes, List.foldl_cons]
    by_cases hin : n.id ∈ l.map (·.id)
    · simp only [hin, if_true]
      rw [modifyLast_eq_map l n.id _ hl]
      have hids : (l.map (fun p => if p.id = n.id then f p n else p)).map (·.id) = l.map (·.id) := by
        rw [List.map_map]
        apply List.map_congr_left
        intro p _
        by_cases hp : p.id = n.id <;> simp [hp, hf]
      have := ih (l.map (fun p => if p.id = n.id then f p n else p)) acc (by rw [hids]; exact hl) h2'.2
      rw [hids] at this
      unfold mergeNodes at this
      rw [this, List.map_map]
      apply List.map_congr_left
      intro p _
      simp only [Function.comp, mergedNode, List.find?_cons]
      by_cases hp : p.id = n.id
      · have hnone : ns.find? (fun q => decide (q.id = n.id)) = none := by
          rw [List.find?_eq_none]
          intro q hq
          simp only [decide_eq_true_eq]
          intro hqn
          exact h2'.1 (List.mem_map.mpr ⟨q, hq, hqn⟩)
        simp [hp, hf, hnone]
      · have hp' : ¬ n.id = p.id := fun h => hp h.symm
        simp [hp, hp']
    · simp only [hin, if_false]
      have := ih l (acc ++ [n]) hl h2'.2
      unfold mergeNodes at this
      rw [this]
      apply List.map_congr_left
      intro p hp
      simp only [mergedNode, List.find?_cons]
      have : ¬ n.id = p.id := by
        intro h
        exact hin (h ▸ List.mem_map.mpr ⟨p, hp, rfl⟩)
      simp [this]

theorem merged_nodes_char (f : Node → Node → Node) (hf : ∀ n m, (f n m).id = n.id)
    (base ns2 : List Node) (h1 : (base.map (·.id)).Nodup) (h2 : (ns2.map (·.id)).Nodup) (x : Node) :
    x ∈ (mergeNodes f (base.map (·.id)) (base, []) ns2).1 ++
        (mergeNodes f (base.map (·.id)) (base, []) ns2).2 ↔
      (∃ p ∈ base, (∃ q ∈ ns2, q.id = p.id ∧ x = f p q) ∨ (p.id ∉ ns2.map (·.id) ∧ x = p)) ∨
      (x ∈ ns2 ∧ x.id ∉ base.map (·.id)) := by
  rw [List.mem_append, mergeNodes_fst_eq f hf base [] ns2 h1 h2, mergeNodes_snd]
  simp only [List.nil_append, List.mem_map, List.mem_filter, decide_eq_true_eq]
  apply or_congr
  · constructor
    · rintro ⟨p, hp, rfl⟩
      refine ⟨p, hp, ?_⟩
      unfold mergedNode
      cases hfind : ns2.find? (fun q => decide (q.id = p.id)) with
      | some q =>
        left
        have := List.find?_some hfind
        exact ⟨q, List.mem_of_find?_eq_some hfind, by simpa using this, rfl⟩
      | none =>
        right
        rw [List.find?_eq_none] at hfind
        refine ⟨?_, rfl⟩
        rintro ⟨q, hq, hqp⟩
        exact hfind q hq (by simpa using hqp)
    · rintro ⟨p, hp, (⟨q, hq, hqp, rfl⟩ | ⟨hnot, hxp⟩)⟩
      · refine ⟨p, hp, ?_⟩
        unfold mergedNode
        cases hfind : ns2.find? (fun q => decide (q.id = p.id)) with
        | some q' =>
          have hq' := List.mem_of_find?_eq_some hfind
          have hid : q'.id = p.id := by simpa using List.find?_some hfind
          -- unique identifiers in ns2: q' = q
          have : q' = q := by
            exact nodup_map_inj (·.id) ns2 h2 hq' hq (hid.trans hqp.symm)
          rw [this]
        | none =>
          rw [List.find?_eq_none] at hfind
          exact absurd (by simpa using hqp) (hfind q hq)
      · refine ⟨p, hp, ?_⟩
        rw [hxp]
        unfold mergedNode
        cases hfind : ns2.find? (fun q => decide (q.id = p.id)) with
        | some q' =>
          exfalso
          apply hnot
          exact ⟨q', List.mem_of_find?_eq_some hfind, by simpa using List.find?_some hfind⟩
        | none => rfl
  · constructor
    · rintro ⟨h, hn⟩; exact ⟨h, by simpa using hn⟩
    · rintro ⟨h, hn⟩; exact ⟨h, by simpa using hn⟩

theorem union_nodes_char (a b : NodeList) (ha : a.ids.Nodup) (hb : b.ids.Nodup) (x : Node) :
    x ∈ (a.union b).nodes ↔
      (∃ p ∈ a.nodes, (∃ q ∈ b.nodes, q.id = p.id ∧ x = p.update q) ∨ (p.id ∉ b.ids ∧ x = p)) ∨
      (x ∈ b.nodes ∧ x.id ∉ a.ids) := by
  simp only [NodeList.union, NodeList.cleanEdges, unionNodes]
  exact merged_nodes_char Node.update update_id a.nodes b.nodes ha hb x

theorem add_nodes_char (a b : NodeList) (ha : a.ids.Nodup) (hb : b.ids.Nodup) (x : Node) :
    x ∈ (a.add b).nodes ↔
      (∃ p ∈ a.nodes, (∃ q ∈ b.nodes, q.id = p.id ∧ x = p.augment q) ∨ (p.id ∉ b.ids ∧ x = p)) ∨
      (x ∈ b.nodes ∧ x.id ∉ a.ids) := by
  simp only [NodeList.add, NodeList.cleanEdges, addNodes]
  exact merged_nodes_char Node.augment augment_id a.nodes b.nodes ha hb x

end Protobom
